import VpnCloud.Model.Core
import VpnCloud.Spec.C03
/-
  C03 — link between histories (`Spec/C03.lean`) and the per-slot state of the model.
-/
namespace VpnCloud.Spec.C03
open VpnCloud

/-- effect of one history event on the replay-window state of a key slot -/
def slotStep (k : SlotKey) : Ev → SlotKey
  | .accept n => if k.seen < n then { k with seen := n } else k
  | .tick => k.updateMinNonce

def slotRun (k : SlotKey) (h : List Ev) : SlotKey := h.foldl slotStep k

/-- a history is admissible from slot state `k` if every accepted nonce passed the window test at
    the time it was accepted (that is the only way an `accept` event can come about) and nonces are
    proper 96-bit values -/
def Admissible (k : SlotKey) : List Ev → Prop
  | [] => True
  | .accept n :: rest => k.min ≤ n ∧ n + 1 < NONCE_MOD ∧ Admissible (slotStep k (.accept n)) rest
  | .tick :: rest => Admissible (slotStep k .tick) rest

/-- number of ticks in a list of events -/
def ticksIn (h : List Ev) : Nat := countTicks h

end VpnCloud.Spec.C03
