import VpnCloud.Model.Core
/-
  C04 — many seals in a row, for statements about whole sequences.
-/
namespace VpnCloud.Spec.C04
open VpnCloud

/-- seal the given plaintexts one after the other; returns the final core and the datagrams, oldest first -/
def sealMany (c : Core) : List Bytes → Core × List Dgram
  | [] => (c, [])
  | p :: ps =>
    let r := c.encrypt p
    let rs := sealMany r.1 ps
    (rs.1, r.2 :: rs.2)

/-- the (key, nonce) pair a sealed datagram was produced with -/
def sealedWith (d : Dgram) : Option (KeyRef × Nat) :=
  match d.body with
  | .sealed k n _ => some (k, n)
  | .garbage _ => none

/-- base value of a half of the nonce space -/
def base (half : Bool) : Nat := if half then HALF else 0

end VpnCloud.Spec.C04
