import VpnCloud.Model.InitMsg
/-
  C06 — declarative cipher negotiation.
-/
namespace VpnCloud.Spec.C06
open VpnCloud

inductive Choice
  | plain
  | cipher (c : Cipher)
  | fail
  deriving DecidableEq, Repr

def speedOf (a : Algos) (c : Cipher) : Option Nat := (a.speeds.find? (fun p => p.1 = c)).map (·.2)

def allCiphers : List Cipher := [.aes128, .aes256, .chacha]

/-- ciphers both sides advertise, each with the speed of its slower side -/
def common (a b : Algos) : List (Cipher × Nat) :=
  allCiphers.filterMap (fun c => match speedOf a c, speedOf b c with
    | some x, some y => some (c, min x y)
    | _, _ => none)

/-- Reference: plain iff both enabled it; otherwise the common cipher whose slower side is fastest,
    ties broken by the fixed cipher order (higher wire id wins); failure iff they share none. -/
def selectRef (a b : Algos) : Choice :=
  if a.allowUnencrypted && b.allowUnencrypted then .plain
  else
    let cs := common a b
    match cs with
    | [] => .fail
    | _ =>
      let best := cs.foldl (fun (x : Cipher × Nat) y => if y.2 > x.2 ∨ (y.2 = x.2 ∧ y.1.wireId > x.1.wireId) then y else x) (cs.headD (.aes128, 0))
      .cipher best.1

/-- each cipher appears at most once in the advertised list (what a node builds from a *set* of cipher names) -/
def NoDup (a : Algos) : Prop := (a.speeds.map (·.1)).Nodup

end VpnCloud.Spec.C06
