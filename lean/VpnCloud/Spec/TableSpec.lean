import VpnCloud.Model.Table
import VpnCloud.Spec.C11
/-
  Declarative one-step specifications of the claim table, shared by C11, C12 and C13.
  Each `…Ok` is a decidable relation between the table before an operation, the operation's
  arguments and result, and the table after it.  They are (a) what the proofs conclude about the
  model (`Proofs/C11.lean`, `C12.lean`, `C13.lean`) and (b) the oracle the implementation's own
  state dumps are evaluated against in every run.

  Cache contents are compared as sets (the implementation keeps them in a hash map).
-/
namespace VpnCloud.Spec.TableSpec
open VpnCloud VpnCloud.Spec.C11

def sameSet {α} [DecidableEq α] (a b : List α) : Bool :=
  a.all (fun x => b.contains x) && b.all (fun x => a.contains x)

/-- the ranges currently attributed to peer `p` -/
def claimsOf (t : Table) (p : PeerId) : List Range :=
  (t.claims.filter (fun e => e.peer = p)).map (fun e => e.claim)

/-- entries whose range contains the address, by the bit-by-bit reference -/
def matching (t : Table) (addr : Addr) : List ClaimEntry :=
  t.claims.filter (fun e => matchesRef e.claim.base e.claim.prefixLen addr)

def maxPrefix (l : List ClaimEntry) : Nat := l.foldl (fun m e => max m e.claim.prefixLen) 0

def sameParams (t t' : Table) : Bool :=
  t'.cacheTimeout = t.cacheTimeout && t'.claimTimeout = t.claimTimeout

/-- C11: a lookup either reuses the cached decision, or selects a peer whose claim contains the
    address with maximal prefix length among all present claims containing it (none iff no claim
    contains it) and caches that decision no longer than the switch timeout and the claim's life. -/
def lookupOk (t : Table) (now : Int) (addr : Addr) (res : Option PeerId) (t' : Table) : Bool :=
  sameParams t t' && t'.claims = t.claims &&
  match t.cache.find? (fun v => v.addr = addr) with
  | some v => res = some v.peer && sameSet t'.cache t.cache
  | none =>
    let ms := matching t addr
    match res with
    | none => ms.isEmpty && sameSet t'.cache t.cache
    | some p =>
      ms.any (fun e => e.claim.prefixLen = maxPrefix ms && e.peer = p &&
        sameSet t'.cache ({ addr, peer := p, timeout := min (now + t.cacheTimeout) e.timeout } :: t.cache))

/-- C12: after an announcement of peer `p` the ranges attributed to `p` are exactly the announced
    ones, all fresh; entries of other peers are untouched (apart from the sweep of expired ones);
    if a range of `p` was dropped, every cached decision pointing to `p` is gone (decisions cached
    for `p` may also be flushed when nothing was dropped: that is always safe). -/
def announceOk (t : Table) (now : Int) (p : PeerId) (cs : List Range) (t' : Table) : Bool :=
  sameParams t t' &&
  (claimsOf t' p).all (fun r => cs.contains r) && cs.all (fun r => (claimsOf t' p).contains r) &&
  (t'.claims.filter (fun e => e.peer = p)).all (fun e => e.timeout = now + t.claimTimeout) &&
  t'.claims.filter (fun e => e.peer ≠ p) = (t.claims.filter (fun e => e.peer ≠ p)).filter (fun e => e.timeout ≥ now) &&
  (let dropped := (claimsOf t p).any (fun r => !cs.contains r)
   sameSet t'.cache (t.cache.filter (fun v => v.timeout ≥ now && v.peer ≠ p)) ||
   (!dropped && sameSet t'.cache (t.cache.filter (fun v => v.timeout ≥ now))))

/-- C12: after a peer is removed nothing in the table points to it any more -/
def disconnectOk (t : Table) (now : Int) (p : PeerId) (t' : Table) : Bool :=
  sameParams t t' &&
  t'.claims = t.claims.filter (fun e => e.peer ≠ p && e.timeout ≥ now) &&
  sameSet t'.cache (t.cache.filter (fun v => v.peer ≠ p && v.timeout ≥ now))

/-- the periodic sweep removes exactly the expired entries -/
def sweepOk (t : Table) (now : Int) (t' : Table) : Bool :=
  sameParams t t' &&
  t'.claims = t.claims.filter (fun e => e.timeout ≥ now) &&
  sameSet t'.cache (t.cache.filter (fun v => v.timeout ≥ now))

/-- C13: learning makes `p` the only next hop for `addr`, for the switch timeout -/
def learnOk (t : Table) (now : Int) (addr : Addr) (p : PeerId) (t' : Table) : Bool :=
  sameParams t t' && t'.claims = t.claims &&
  sameSet t'.cache ({ addr, peer := p, timeout := now + t.cacheTimeout } :: t.cache.filter (fun v => v.addr ≠ addr))

end VpnCloud.Spec.TableSpec
