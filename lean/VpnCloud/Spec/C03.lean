import VpnCloud.Model.Bytes
/-
  C03 — the replay window as a function of the history alone.

  A history of one key slot at one receiver is a list of events, oldest first:
  `accept n` (a datagram with nonce `n` was accepted) and `tick` (housekeeping tick).
-/
namespace VpnCloud.Spec.C03

inductive Ev
  | accept (n : Nat)
  | tick
  deriving DecidableEq, Repr

/-- largest accepted nonce of a history, plus one (0 if nothing was accepted: nonce values start at 1) -/
def maxAcceptedSucc : List Ev → Nat
  | [] => 0
  | .accept n :: rest => max (n + 1) (maxAcceptedSucc rest)
  | .tick :: rest => maxAcceptedSucc rest

def countTicks (h : List Ev) : Nat := (h.filter (· = .tick)).length

/-- the history up to (excluding) the tick that precedes the most recent tick; `none` if there have
    been fewer than two ticks -/
def beforeLastButOneTick (h : List Ev) : Option (List Ev) :=
  -- scan from the newest event: drop everything after the 2nd-newest tick, and that tick
  let rec go (rev : List Ev) (ticksSeen : Nat) : Option (List Ev) :=
    match rev with
    | [] => none
    | .tick :: rest => if ticksSeen = 1 then some rest.reverse else go rest (ticksSeen + 1)
    | .accept _ :: rest => go rest ticksSeen
  go h.reverse 0

/-- **threshold**: a datagram is acceptable iff its nonce is at least this value:
    one more than every nonce accepted before the tick preceding the most recent tick
    (after two ticks with nothing accepted before them the threshold is 1: nonce 0 is never used). -/
def threshold (h : List Ev) : Nat :=
  match beforeLastButOneTick h with
  | none => 0
  | some old => max 1 (maxAcceptedSucc old)

end VpnCloud.Spec.C03
