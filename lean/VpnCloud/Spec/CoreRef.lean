import VpnCloud.Spec.C03
/-
  Reference monitor for the suite `core` (C02, C03, C04): everything it knows comes from the
  implementation's transcript (start nonces, headers, full send nonce of each seal as read through
  the read-only hook, accept / reject decisions).  It decides for each step what the properties
  demand:

  * C04: each sealed (key, nonce) pair is new; a side's nonces under one key strictly increase and
    lie in the side's half; the header carries the current key id and the low 7 nonce bytes.
  * C02: a datagram altered in any bit, truncated, extended, reflected to its sender, or whose key
    id names a slot holding a different key, is rejected; an accepted datagram yields exactly the
    sealed plaintext.
  * C03: an authentic datagram is accepted iff its nonce is at least `threshold` of the receiving
    slot's history.
  * C04: a counter that no longer fits the 56 transmitted bits makes the datagram undecryptable.
-/
namespace VpnCloud.Spec.CoreRef
open VpnCloud VpnCloud.Spec.C03

structure RSlot where
  key : String
  hist : List Ev := []
  deriving Repr

structure RSide where
  half : Bool
  cur : Nat := 0
  slots : List RSlot
  deriving Repr

structure RDgram where
  sender : Nat             -- 0 = a, 1 = b
  key : String
  keyId : Nat
  nonce : Nat
  plain : Bytes
  len : Nat
  deriving Repr

structure RState where
  sides : List RSide := []
  dgrams : List RDgram := []
  used : List (String × Nat) := []     -- every (key, nonce) pair sealed so far
  deriving Repr

def half95 : Nat := 2 ^ 95

def init : RState :=
  { sides := [ { half := true,  slots := [⟨"k0", []⟩, ⟨"dummy-a", []⟩, ⟨"dummy-a", []⟩, ⟨"dummy-a", []⟩] },
               { half := false, slots := [⟨"k0", []⟩, ⟨"dummy-b", []⟩, ⟨"dummy-b", []⟩, ⟨"dummy-b", []⟩] } ] }

/-- checks for a seal; returns the new state and `none` if everything the properties demand holds, else a reason -/
def sealStep (st : RState) (side : Nat) (plain : Bytes) (hdr : Bytes) (len : Nat) (nonce : Nat) : RState × Option String :=
  match st.sides[side]? with
  | none => (st, some "no such side")
  | some sd =>
    let key := (sd.slots[sd.cur]?.map (·.key)).getD "?"
    let prev := st.dgrams.filter (fun d => d.sender = side && d.key = key)
    let problem : Option String :=
      if st.used.contains (key, nonce) then some "C04 (key, nonce) pair used twice"
      else if prev.any (fun d => d.nonce ≥ nonce) then some "C04 nonce not strictly increasing under this key"
      -- the half is guaranteed for fewer than 2^95 - 2^48 seals per key (the bound of `C04.stays_in_half`); a counter that a script has put
      -- at the very top of its half runs on upwards out of it — what matters there is that it never comes back (the two rules above)
      else if (decide (nonce ≥ half95)) != sd.half && !(prev.any (fun d => d.nonce % half95 ≥ half95 - 2 ^ 48)) then some "C04 nonce outside the sender's half"
      else if nonce ≥ 2 ^ 96 then some "C04 nonce out of range"
      else if hdr ≠ sd.cur :: Bytes.ofBE 7 nonce then some "header is not key id + low 7 nonce bytes"
      else if len ≠ plain.length + 24 then some "C02 length is not plaintext + header + tag"
      else none
    ({ st with dgrams := st.dgrams ++ [{ sender := side, key, keyId := sd.cur, nonce, plain, len }],
               used := (key, nonce) :: st.used }, problem)

/-- expected outcome of a delivery: `some plain` = must be accepted with this plaintext, `none` = must be rejected -/
def expected (st : RState) (d : RDgram) (side : Nat) (mutated : Bool) : Option Bytes :=
  if mutated then none                       -- C02: altered / truncated / extended
  else if d.sender = side then none          -- C02: reflection
  else match st.sides[side]? with
  | none => none
  | some sd =>
    match sd.slots[d.keyId]? with
    | none => none
    | some sl =>
      if sl.key ≠ d.key then none            -- a different key in that slot
      else
        let base := if sd.half then 0 else half95      -- the receiver reconstructs the *other* half
        if d.nonce < base ∨ d.nonce - base ≥ 2 ^ 56 then none   -- C04: counter beyond 56 bits is undecryptable
        else if d.nonce ≥ threshold sl.hist then some d.plain   -- C03
        else none

def recordAccept (st : RState) (side keyId nonce : Nat) : RState :=
  { st with sides := st.sides.mapIdx (fun i sd =>
      if i = side then { sd with slots := sd.slots.mapIdx (fun j sl =>
        if j = keyId then { sl with hist := sl.hist ++ [.accept nonce] } else sl) } else sd) }

def tick (st : RState) (side : Nat) : RState :=
  { st with sides := st.sides.mapIdx (fun i sd =>
      if i = side then { sd with slots := sd.slots.map (fun sl => { sl with hist := sl.hist ++ [.tick] }) } else sd) }

def rotate (st : RState) (side id : Nat) (use : Bool) (key : String) : RState :=
  { st with sides := st.sides.mapIdx (fun i sd =>
      if i = side then { sd with slots := sd.slots.set (id % 4) ⟨key, []⟩, cur := if use then id % 4 else sd.cur } else sd) }

end VpnCloud.Spec.CoreRef
