import VpnCloud.Model.NodeInfo
/-
  C16 — the format's normalisation and the well-formedness guard of the encoder.
-/
namespace VpnCloud.Spec.C16
open VpnCloud VpnCloud.Codec

/-- normal form of an address list: IPv6 before IPv4, at most seven per family -/
def normAddrs (l : List SockAddr) : List SockAddr :=
  (l.filter (fun a => !isV4 a)).take 7 ++ (l.filter isV4).take 7

/-- what a decoder is expected to return for an encoded message -/
def normalise (n : NodeInfo) : NodeInfo :=
  { n with peers := n.peers.map (fun p => { p with addrs := normAddrs p.addrs }), addrs := normAddrs n.addrs }

def sockWF : SockAddr → Bool
  | .v4 ip port => ip.length = 4 && Bytes.WF ip && port < 65536
  | .v6 ip port => ip.length = 16 && Bytes.WF ip && port < 65536

def rangeWF (r : Range) : Bool := r.base.length ≤ 16 && Bytes.WF r.base && r.prefixLen < 256

/-- what the encoder may be given: proper field widths, and every part fits its 16-bit length field
    (the encoder silently truncates the length otherwise) -/
def WF (n : NodeInfo) : Bool :=
  n.nodeId.length = 16 && Bytes.WF n.nodeId &&
  n.peers.all (fun p => (match p.nodeId with | some i => i.length = 16 && Bytes.WF i | none => true) && p.addrs.all sockWF) &&
  n.claims.all rangeWF && n.addrs.all sockWF &&
  (match n.peerTimeout with | some t => t < 65536 | none => true) &&
  (n.peers.flatMap encodePeer).length < 65536 && (n.claims.flatMap writeRange).length < 65536

/-- insert an unknown part (tag ≥ 6) in front of the `k`-th part of an encoding given as a list of parts -/
def insertPart (parts : List Bytes) (k : Nat) (part : Bytes) : Bytes :=
  ((parts.take k) ++ [part] ++ (parts.drop k)).flatten

/-- the parts of an encoded node information message, END marker last -/
def partsOf (n : NodeInfo) : List Bytes :=
  [encodePart Generated.NI_PART_NODEID n.nodeId,
   encodePart Generated.NI_PART_PEERS (n.peers.flatMap encodePeer),
   encodePart Generated.NI_PART_CLAIMS (n.claims.flatMap writeRange)] ++
  (match n.peerTimeout with
   | some t => [encodePart Generated.NI_PART_PEER_TIMEOUT (Bytes.ofU16 t)]
   | none => []) ++
  [encodePart Generated.NI_PART_ADDRS (let (f, b) := encodeAddrList n.addrs 0; f :: b), [Generated.NI_PART_END]]

end VpnCloud.Spec.C16
