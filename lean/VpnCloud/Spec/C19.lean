import VpnCloud.Model.Bytes
/-
  C19 — declarative reference dissectors, written against the standard header positions and
  independently of the model in `Model/Payload.lean`.  Executable (they are the oracle that the
  implementation's transcript is evaluated against) and the statement the proofs conclude.
-/
namespace VpnCloud.Spec.C19

open VpnCloud

/-- bytes `[i, j)` of `b` -/
def slice (b : Bytes) (i j : Nat) : Bytes := (b.drop i).take (j - i)

/-- Reference Ethernet dissector.  `none` = rejected.
    Rejected iff shorter than 14 bytes, or shorter than 16 when bytes 12..14 are `81 00`.
    Otherwise dst = b[0..6], src = b[6..12]; with a single 802.1Q tag both are prefixed by the
    two bytes `(tci & 0x0fff)`, except that VLAN id 0 (priority tag) counts as untagged.
    Result is (src, dst). -/
def frameRef (b : Bytes) : Option (Bytes × Bytes) :=
  if b.length < 14 then none
  else
    let dst := slice b 0 6
    let src := slice b 6 12
    if slice b 12 14 = [0x81, 0x00] then
      if b.length < 16 then none
      else
        let vid := (b.getD 14 0 * 256 + b.getD 15 0) % 4096
        if vid = 0 then some (src, dst)
        else some ([vid / 256, vid % 256] ++ src, [vid / 256, vid % 256] ++ dst)
    else some (src, dst)

/-- Reference IP dissector: version nibble selects IPv4 (src b[12..16], dst b[16..20], at least
    20 bytes) or IPv6 (src b[8..24], dst b[24..40], at least 40 bytes); everything else rejected. -/
def packetRef (b : Bytes) : Option (Bytes × Bytes) :=
  match b with
  | [] => none
  | b0 :: _ =>
    if b0 / 16 = 4 then
      if b.length < 20 then none else some (slice b 12 16, slice b 16 20)
    else if b0 / 16 = 6 then
      if b.length < 40 then none else some (slice b 8 24, slice b 24 40)
    else none

end VpnCloud.Spec.C19
