import VpnCloud.Model.Beacon
/-
  C17 — what a reader of a beacon is expected to obtain.
-/
namespace VpnCloud.Spec.C17
open VpnCloud VpnCloud.Codec

/-- the order in which a beacon lists addresses: IPv4 first, then IPv6 -/
def normPeers (l : List SockAddr) : List SockAddr := l.filter isV4 ++ l.filter (fun a => !isV4 a)

/-- accepted age: within `ttl` hours in either direction, on the 16-bit hour counter -/
def ageOk (now thn : Nat) (ttl : Option Nat) : Bool :=
  match ttl with
  | none => true
  | some t => decide ((now + 65536 - thn % 65536) % 65536 ≤ t) || decide ((thn % 65536 + 65536 - now) % 65536 ≤ t)

def sockWF : SockAddr → Bool
  | .v4 ip port => ip.length = 4 && Bytes.WF ip && port < 65536
  | .v6 ip port => ip.length = 16 && Bytes.WF ip && port < 65536

/-- `l` occurs in `big` as a contiguous block -/
def isInfix (l big : List SockAddr) : Bool := (List.range (big.length + 1)).any (fun i => (big.drop i).take l.length = l)

end VpnCloud.Spec.C17
