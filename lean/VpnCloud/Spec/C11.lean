import VpnCloud.Model.Bytes
/-
  C11 — bit-by-bit reference for prefix matching and the declarative "most specific claim".
-/
namespace VpnCloud.Spec.C11
open VpnCloud

/-- the 8 bits of a byte, most significant first -/
def bits8 (b : Nat) : List Bool :=
  [b.testBit 7, b.testBit 6, b.testBit 5, b.testBit 4, b.testBit 3, b.testBit 2, b.testBit 1, b.testBit 0]

def bitsOf (l : Bytes) : List Bool := l.flatMap bits8

/-- Reference: an address lies in `base/p` iff both have the same length, `p` does not exceed the
    number of address bits, and the first `p` bits agree. -/
def matchesRef (base : Bytes) (p : Nat) (addr : Bytes) : Bool :=
  decide (base.length = addr.length) && decide (p ≤ 8 * addr.length) &&
    decide ((bitsOf base).take p = (bitsOf addr).take p)

end VpnCloud.Spec.C11
