import VpnCloud.Model.Bytes
import VpnCloud.Model.Base62
/-
  C18 — reference notions for the key text codec: the number denoted by a byte string (big-endian
  base 256) and by a base-62 text, and key generation / parsing with the cryptographic functions
  (PBKDF2, Ed25519 public key derivation) as parameters.
-/
namespace VpnCloud.Spec.C18
open VpnCloud VpnCloud.Base62

/-- value of a base-62 text (most significant digit first); `none` if a character is not alphanumeric -/
def textVal : List Char → Option Nat
  | [] => some 0
  | cs => cs.foldl (fun acc c => match acc, charVal c with
      | some a, some v => some (a * 62 + v)
      | _, _ => none) (some 0)

/-- `Crypto::generate_keypair` with the seed source (`kdf password`, or random bytes) and the Ed25519 public-key
    derivation `pubOf` as parameters: the two printed texts; `none` = panic in `to_base62` -/
def generateKeypair (pubOf : Bytes → Bytes) (seed : Bytes) : Option (List Char × List Char) :=
  match toBase62 seed, toBase62 (pubOf seed) with
  | some a, some b => some (a, b)
  | _, _ => none

/-- `Crypto::parse_private_key`: the seed a node recovers from the printed private key (ring then checks length 32) -/
def parsePrivateKey (s : List Char) : Option Bytes :=
  match keyFromBase62 s with
  | .ok k => if k.length = 32 then some k else none
  | .error _ => none

end VpnCloud.Spec.C18
