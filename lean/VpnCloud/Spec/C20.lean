import VpnCloud.Model.Config
/-
  C20 — the documented way configuration sources combine (vpncloud.adoc, section on the config file):
  every setting takes the command-line value if given, else the file value, else the default;
  list-valued options (peers, claims, trusted keys, advertised addresses) accumulate; per-event hooks
  are combined by event name (command line over file); switches on the command line can only switch
  a feature on resp. off.  `docTable` is written by hand from the documentation: option, key in the
  file, option on the command line, kind, documented default.
-/
namespace VpnCloud.Spec.C20
open VpnCloud.Config

inductive Kind
  | scalar        -- plain value
  | optional      -- may be absent
  | accumulate    -- list: default ++ file ++ command line
  | replaceList   -- list that is replaced as a whole (algorithms)
  | switchOn      -- boolean; the command-line switch turns it on
  | switchOff     -- boolean; the command-line switch turns it off
  | hookScript    -- default hook script: `--hook script` (without an event name) over the file's `hook`
  | hookMap       -- per-event hooks: `--hook event:script` over the file's `hooks`
  deriving DecidableEq, Repr

structure DocEntry where
  name : String
  fileKey : String
  argKey : String
  kind : Kind
  default : DVal
  inFile : Bool := true       -- expressible in the config file
  deriving DecidableEq, Repr

def docTable : List DocEntry := [
  { name := "device_type", fileKey := "device.type_", argKey := "type_", kind := .scalar, default := .scalar "tun" },
  { name := "device_name", fileKey := "device.name", argKey := "device", kind := .scalar, default := .scalar "vpncloud%d" },
  { name := "device_path", fileKey := "device.path", argKey := "device_path", kind := .optional, default := .opt none },
  { name := "fix_rp_filter", fileKey := "device.fix_rp_filter", argKey := "fix_rp_filter", kind := .switchOn, default := .flag false },
  { name := "ip", fileKey := "ip", argKey := "ip", kind := .optional, default := .opt none },
  { name := "advertise_addresses", fileKey := "advertise_addresses", argKey := "advertise_addresses", kind := .accumulate, default := .list [] },
  { name := "ifup", fileKey := "ifup", argKey := "ifup", kind := .optional, default := .opt none },
  { name := "ifdown", fileKey := "ifdown", argKey := "ifdown", kind := .optional, default := .opt none },
  { name := "password", fileKey := "password", argKey := "password", kind := .optional, default := .opt none },
  { name := "private_key", fileKey := "private_key", argKey := "private_key", kind := .optional, default := .opt none },
  { name := "public_key", fileKey := "public_key", argKey := "public_key", kind := .optional, default := .opt none },
  { name := "trusted_keys", fileKey := "trusted_keys", argKey := "trusted_keys", kind := .accumulate, default := .list [] },
  { name := "algorithms", fileKey := "algorithms", argKey := "algorithms", kind := .replaceList, default := .list [] },
  { name := "listen", fileKey := "listen", argKey := "listen", kind := .scalar, default := .scalar "3210" },
  { name := "peers", fileKey := "peers", argKey := "peers", kind := .accumulate, default := .list [] },
  { name := "peer_timeout", fileKey := "peer_timeout", argKey := "peer_timeout", kind := .scalar, default := .scalar "300" },
  { name := "keepalive", fileKey := "keepalive", argKey := "keepalive", kind := .optional, default := .opt none },
  { name := "beacon_store", fileKey := "beacon.store", argKey := "beacon_store", kind := .optional, default := .opt none },
  { name := "beacon_load", fileKey := "beacon.load", argKey := "beacon_load", kind := .optional, default := .opt none },
  { name := "beacon_interval", fileKey := "beacon.interval", argKey := "beacon_interval", kind := .scalar, default := .scalar "3600" },
  { name := "beacon_password", fileKey := "beacon.password", argKey := "beacon_password", kind := .optional, default := .opt none },
  { name := "mode", fileKey := "mode", argKey := "mode", kind := .scalar, default := .scalar "normal" },
  { name := "switch_timeout", fileKey := "switch_timeout", argKey := "switch_timeout", kind := .scalar, default := .scalar "300" },
  { name := "claims", fileKey := "claims", argKey := "claims", kind := .accumulate, default := .list [] },
  { name := "auto_claim", fileKey := "auto_claim", argKey := "no_auto_claim", kind := .switchOff, default := .flag true },
  { name := "port_forwarding", fileKey := "port_forwarding", argKey := "no_port_forwarding", kind := .switchOff, default := .flag true },
  { name := "daemonize", fileKey := "", argKey := "daemon", kind := .switchOn, default := .flag false, inFile := false },
  { name := "pid_file", fileKey := "pid_file", argKey := "pid_file", kind := .optional, default := .opt none },
  { name := "stats_file", fileKey := "stats_file", argKey := "stats_file", kind := .optional, default := .opt none },
  { name := "statsd_server", fileKey := "statsd.server", argKey := "statsd_server", kind := .optional, default := .opt none },
  { name := "statsd_prefix", fileKey := "statsd.prefix", argKey := "statsd_prefix", kind := .optional, default := .opt none },
  { name := "user", fileKey := "user", argKey := "user", kind := .optional, default := .opt none },
  { name := "group", fileKey := "group", argKey := "group", kind := .optional, default := .opt none },
  { name := "hook", fileKey := "hook", argKey := "hook", kind := .hookScript, default := .opt none },
  { name := "hooks", fileKey := "hooks", argKey := "hook", kind := .hookMap, default := .map [] }
]

def strOf (s : Source) (k : String) : Option String := match s.get k with | some (.str x) => some x | _ => none
def listOf (s : Source) (k : String) : List String := match s.get k with | some (.list l) => l | _ => []
def flagOf (s : Source) (k : String) : Option Bool :=
  match s.get k with | some (.flag b) => some b | some (.str x) => some (x = "true") | _ => none
def mapOf (s : Source) (k : String) : List (String × String) := match s.get k with | some (.map m) => m | _ => []

/-- the documented value of a setting given what the file and the command line say -/
def specField (e : DocEntry) (file args : Source) : DVal :=
  let fileGet (k : String) : Source := if e.inFile then file else []
  match e.kind with
  | .scalar =>
    (match strOf args e.argKey, strOf (fileGet "") e.fileKey with
     | some a, _ => .scalar a
     | none, some f => .scalar f
     | none, none => e.default)
  | .optional =>
    (match strOf args e.argKey, strOf (fileGet "") e.fileKey with
     | some a, _ => .opt (some a)
     | none, some f => .opt (some f)
     | none, none => e.default)
  | .accumulate =>
    (match e.default with
     | .list d => .list (d ++ listOf (fileGet "") e.fileKey ++ listOf args e.argKey)
     | x => x)
  | .replaceList =>
    if !(listOf args e.argKey).isEmpty then .list (listOf args e.argKey)
    else if !(listOf (fileGet "") e.fileKey).isEmpty then .list (listOf (fileGet "") e.fileKey)
    else e.default
  | .switchOn =>
    if flagOf args e.argKey = some true then .flag true
    else (match flagOf (fileGet "") e.fileKey with | some b => .flag b | none => e.default)
  | .switchOff =>
    if flagOf args e.argKey = some true then .flag false
    else (match flagOf (fileGet "") e.fileKey with | some b => .flag b | none => e.default)
  | .hookScript =>
    (match ((listOf args e.argKey).filter (fun s => (splitHook s).isNone)).getLast? with
     | some s => .opt (some s)
     | none => match strOf (fileGet "") e.fileKey with | some f => .opt (some f) | none => e.default)
  | .hookMap =>
    (match e.default with
     | .map d =>
       let afterFile := (mapOf (fileGet "") e.fileKey).foldl (fun acc p => mapInsert acc p.1 p.2) d
       .map ((listOf args e.argKey).foldl (fun acc s => match splitHook s with | some (n, h) => mapInsert acc n h | none => acc) afterFile)
     | x => x)

def specMerge (file args : Source) : List (String × DVal) := docTable.map (fun e => (e.name, specField e file args))

/-- does an overlay rule implement the documented kind? -/
def ruleMatches (r : FieldRule) (e : DocEntry) : Bool :=
  r.name = e.name && r.default = e.default && r.argKey = e.argKey && (r.fileKey = e.fileKey || !e.inFile) &&
  (match e.kind with
   | .scalar => r.file = .override && r.arg = .override && (match r.default with | .scalar _ => true | _ => false)
   | .optional => r.file = .overrideSome && r.arg = .overrideSome
   | .accumulate => (r.file = .append || r.file = .appendAlways) && r.arg = .appendAlways && (match r.default with | .list _ => true | _ => false)
   | .replaceList => r.file = .replaceNonEmpty && r.arg = .replaceNonEmpty
   | .switchOn => (r.file = .override || (r.file = .none && !e.inFile)) && r.arg = .setTrue && (match r.default with | .flag _ => true | _ => false)
   | .switchOff => r.file = .override && r.arg = .setFalse && (match r.default with | .flag _ => true | _ => false)
   | .hookScript => r.file = .overrideSome && r.arg = .hookPlain
   | .hookMap => r.file = .mapInsert && r.arg = .hookSplit && (match r.default with | .map _ => true | _ => false))

def rulesMatch (rules : List FieldRule) (doc : List DocEntry) : Bool :=
  rules.length = doc.length && (rules.zip doc).all (fun p => ruleMatches p.1 p.2)

/-- a source is well-typed for the table: every key carries the kind of value its option takes (what serde / structopt guarantee) -/
def sourceOK (doc : List DocEntry) (file args : Source) : Bool :=
  doc.all (fun e =>
    (match e.kind, file.get e.fileKey with
     | _, none => true
     | .scalar, some (.str _) => true
     | .optional, some (.str _) => true
     | .hookScript, some (.str _) => true
     | .accumulate, some (.list _) => true
     | .replaceList, some (.list _) => true
     | .switchOn, some (.flag _) => true
     | .switchOff, some (.flag _) => true
     | .hookMap, some (.map _) => true
     | _, _ => false) &&
    (match e.kind, args.get e.argKey with
     | _, none => true
     | .scalar, some (.str _) => true
     | .optional, some (.str _) => true
     | .hookScript, some (.list _) => true
     | .hookMap, some (.list _) => true
     | .accumulate, some (.list _) => true
     | .replaceList, some (.list _) => true
     | .switchOn, some (.flag _) => true
     | .switchOff, some (.flag _) => true
     | _, _ => false))

/-- reference netmask: `p` leading one bits -/
def netmaskRef (p : Nat) : Option Nat := if p ≤ 32 then some (2 ^ 32 - 2 ^ (32 - p)) else none

end VpnCloud.Spec.C20
