import VpnCloud.Model.PeerCrypto
/-
  C02 at the level of the session object (`PeerCrypto`): what an established, non-plain session puts
  on the wire is header ++ ciphertext, the cleartext enters only as the argument of the seal; a session
  whose handshake is still pending neither sends nor accepts payload.
  Both statements of the task are proved as given (no hypothesis added); `pending_session_cannot_send`
  is an additional theorem for the sending half of the second docstring.
-/
namespace VpnCloud.Proofs.C02Node
open VpnCloud

/-- **wire_is_sealed**: what an established, non-plain session puts on the wire for a message is header ++ ciphertext, and the cleartext (type byte and body) enters only as the
    argument of the seal under the current key of the session -/
theorem wire_is_sealed (pc pc' : PeerCrypto) (ty : Nat) (body ct bytes : Bytes) (log : Init.SealLog) (c : Core) (k : SlotKey)
    (hu : pc.unencrypted = false) (hc : pc.core = some c) (hk : c.slots[c.cur]? = some k)
    (h : PeerCrypto.sendMessage pc ty body ct = (pc', .ok (bytes, log))) :
    bytes = (c.cur :: Bytes.ofBE 7 ((k.send + 1) % NONCE_MOD)) ++ ct ∧
    log = [(ct, .sealed k.key ((k.send + 1) % NONCE_MOD) (ty :: body))] := by
  simp only [PeerCrypto.sendMessage, PeerCrypto.sealMsg, hu, Bool.false_eq_true, if_false, hc, Core.encrypt, hk,
    Prod.mk.injEq, Except.ok.injEq] at h
  obtain ⟨_, hb, hl⟩ := h
  exact ⟨hb.symm, hl.symm⟩

/-- a session without a crypto core that is not plain (handshake still pending) cannot send and cannot receive payload -/
theorem pending_session_carries_nothing (env : CryptoEnv) (bodyOf : Init.BodyOf) (ok : Bytes → Bool) (pc : PeerCrypto) (d tail : Bytes) (rnd : Rand) (rr : RotRand)
    (hu : pc.unencrypted = false) (hc : pc.core = none) (hne : d ≠ []) (hinit : d.head? ≠ some Generated.INIT_MESSAGE_FIRST_BYTE) :
    PeerCrypto.handleMessage env bodyOf ok pc d tail rnd rr = .err pc .state := by
  cases d with
  | nil => exact absurd rfl hne
  | cons b0 rest =>
    have hb : ¬ b0 = Generated.INIT_MESSAGE_FIRST_BYTE := by
      intro hb; apply hinit; rw [hb]; rfl
    simp only [PeerCrypto.handleMessage, hb, if_false, hu, Bool.false_eq_true, hc]

/-- the sending half: such a session refuses to send, whatever the message, and stays as it is -/
theorem pending_session_cannot_send (pc : PeerCrypto) (ty : Nat) (body ct : Bytes)
    (hu : pc.unencrypted = false) (hc : pc.core = none) :
    PeerCrypto.sendMessage pc ty body ct = (pc, .error .state) := by
  simp only [PeerCrypto.sendMessage, PeerCrypto.sealMsg, hu, Bool.false_eq_true, if_false, hc]

end VpnCloud.Proofs.C02Node
