import VpnCloud.Model.NodeInfo
import VpnCloud.Spec.C16
import VpnCloud.Proofs.Lemmas.CodecLemmas
/-
  C16 — wire codecs: round trips of the Range, rotation message and node information codecs,
  unknown parts are skipped, the decoder's fuel never runs out.
  All statements are exactly those of the task; no hypothesis had to be added.
-/
namespace VpnCloud.Proofs.C16
open VpnCloud VpnCloud.Codec VpnCloud.Spec.C16
open VpnCloud.Proofs.CodecLemmas

/-- Range codec round trip, with arbitrary bytes behind the encoding -/
theorem range_roundtrip (r : Range) (h : rangeWF r = true) (rest : Bytes) :
    readRange (writeRange r ++ rest) = some (r, rest) := by
  simp [rangeWF] at h
  obtain ⟨⟨hlen, _⟩, hp⟩ := h
  have hm : r.base.length % 256 = r.base.length := by omega
  have hp' : r.prefixLen % 256 = r.prefixLen := by omega
  have t := take?_append r.base.length r.base (r.prefixLen :: rest) rfl
  have hg : ¬ r.base.length > 16 := by omega
  have e : writeRange r ++ rest = r.base.length :: (r.base ++ (r.prefixLen :: rest)) := by
    simp [writeRange, writeAddress, hm, hp']
  rw [e]
  simp only [readRange, readAddress, readU8, Option.bind_eq_bind, Option.bind_some, hg, ↓reduceIte, t,
    Option.pure_def]

/-- rotation message round trip (ids are u64, key lengths fit a byte, an absent confirmation is the zero length byte);
    bytes behind the message (the stale tail of the receive buffer) are ignored -/
theorem rotmsg_roundtrip (m : RotMsg) (rest : Bytes) (hid : m.id < 2 ^ 64)
    (hp : m.propose.length < 256 ∧ Bytes.WF m.propose)
    (hc : ∀ c, m.confirm = some c → 0 < c.length ∧ c.length < 256 ∧ Bytes.WF c) :
    readRotMsg (writeRotMsg m ++ rest) = some m := by
  obtain ⟨id, propose, confirm⟩ := m
  simp only at hid hp hc
  have hv : Bytes.beVal (Bytes.ofBE 8 id) = id := by
    rw [beVal_ofBE]; exact Nat.mod_eq_of_lt hid
  have hpl : propose.length % 256 = propose.length := Nat.mod_eq_of_lt hp.1
  cases confirm with
  | none =>
    have e : writeRotMsg ⟨id, propose, none⟩ ++ rest
        = Bytes.ofBE 8 id ++ (propose.length :: (propose ++ (0 :: rest))) := by
      simp [writeRotMsg, hpl]
    have t1 := take?_append 8 (Bytes.ofBE 8 id) (propose.length :: (propose ++ (0 :: rest))) (ofBE_length 8 id)
    have t2 := take?_append propose.length propose (0 :: rest) rfl
    rw [e]
    simp only [readRotMsg, t1, readU8, t2, Option.bind_eq_bind, Option.bind_some, Nat.lt_irrefl, ↓reduceIte,
      Option.pure_def, hv]
  | some c =>
    obtain ⟨c0, c1, _⟩ := hc c rfl
    have hcl : c.length % 256 = c.length := Nat.mod_eq_of_lt c1
    have e : writeRotMsg ⟨id, propose, some c⟩ ++ rest
        = Bytes.ofBE 8 id ++ (propose.length :: (propose ++ (c.length :: (c ++ rest)))) := by
      simp [writeRotMsg, hpl, hcl]
    have t1 := take?_append 8 (Bytes.ofBE 8 id) (propose.length :: (propose ++ (c.length :: (c ++ rest))))
      (ofBE_length 8 id)
    have t2 := take?_append propose.length propose (c.length :: (c ++ rest)) rfl
    have t3 := take?_append c.length c rest rfl
    have c0' : c.length > 0 := c0
    rw [e]
    simp only [readRotMsg, t1, readU8, t2, t3, Option.bind_eq_bind, Option.bind_some, c0', ↓reduceIte,
      Option.pure_def, hv]

/-- the list of parts really is the encoding -/
theorem partsOf_flatten (n : NodeInfo) : (partsOf n).flatten = encodeNodeInfo n := by
  cases h : n.peerTimeout <;> simp [partsOf, encodeNodeInfo, h]

/-- **nodeinfo_roundtrip**: decode (encode x) = normalise x, also with stale bytes behind the message -/
theorem nodeinfo_roundtrip (n : NodeInfo) (h : WF n = true) (tail : Bytes) :
    decodeNodeInfo (encodeNodeInfo n ++ tail) = some (normalise n) := by
  rw [← partsOf_flatten, partsOf_eq]
  exact decode_of_chain n (bodyParts n) (chain_body n h) tail

/-- **unknown_parts_skipped**: a part with an unknown tag inserted at any part boundary (before the END marker) leaves the result unchanged -/
theorem unknown_parts_skipped (n : NodeInfo) (h : WF n = true) (k tag : Nat) (body tail : Bytes)
    (hk : k < (partsOf n).length) (htag : 6 ≤ tag ∧ tag < 256) (hb : body.length < 65536 ∧ Bytes.WF body) :
    decodeNodeInfo (insertPart (partsOf n) k (tag :: (Bytes.ofU16 body.length ++ body)) ++ tail) = some (normalise n) := by
  have hk' : k ≤ (bodyParts n).length := by
    have := bodyParts_length n; omega
  have hc := (chain_body n h).insert (tag :: (Bytes.ofU16 body.length ++ body))
    (fun x => step_unknown tag body htag.1 hb.1 x) k hk'
  have e : insertPart (partsOf n) k (tag :: (Bytes.ofU16 body.length ++ body))
      = (((bodyParts n).take k ++ [tag :: (Bytes.ofU16 body.length ++ body)] ++ (bodyParts n).drop k)
          ++ [[Generated.NI_PART_END]]).flatten := by
    unfold insertPart
    rw [partsOf_eq, List.take_append_of_le_length hk', List.drop_append_of_le_length hk', List.append_assoc,
      List.append_assoc, List.append_assoc]
  rw [e]
  exact decode_of_chain n _ hc tail

/-- **decode_total** (fuel never runs out): the decoder's answer does not depend on the fuel once it is at least the input length + 1,
    so `none` always means "malformed input", never "ran out of fuel"; together with structural recursion on the fuel this is termination
    on every byte string. -/
theorem decodeParts_fuel (r : Bytes) (acc : Partial) (f1 f2 : Nat) (h1 : r.length + 1 ≤ f1) (h2 : r.length + 1 ≤ f2) :
    decodeParts f1 r acc = decodeParts f2 r acc :=
  decodeParts_fuel' f1 f2 r acc h1 h2

/-- every length a decoder is asked to allocate comes from a 16-bit (resp. 8-bit) length field -/
theorem readU16_lt (r : Bytes) (h : Bytes.WF r) (v : Nat) (rest : Bytes) (hr : readU16 r = some (v, rest)) : v < 65536 := by
  match r, h, hr with
  | a :: b :: r2, h, hr =>
    simp only [readU16, Option.some.injEq, Prod.mk.injEq] at hr
    simp only [Bytes.wf_cons] at h
    omega
  | [], _, hr => simp [readU16] at hr
  | [_], _, hr => simp [readU16] at hr

/-! ### non-vacuity: a concrete message with 2 peers (one with 9 addresses: 8 IPv4 + 1 IPv6), 3 claims -/

private def ip4 (x : Nat) : SockAddr := .v4 [10, 0, 0, x] (3210 + x)
private def ip6 (x : Nat) : SockAddr := .v6 [0x20, 1, 0xd, 0xb8, 0, 0, 0, 0, 0, 0, 0, 0, 0, 0, 0, x] 65535

private def sampleMsg : NodeInfo :=
  { nodeId := [1, 2, 3, 4, 5, 6, 7, 8, 9, 10, 11, 12, 13, 14, 15, 255],
    peers :=
      [{ nodeId := some [16, 15, 14, 13, 12, 11, 10, 9, 8, 7, 6, 5, 4, 3, 2, 1],
         addrs := [ip4 1, ip4 2, ip4 3, ip6 1, ip4 4, ip4 5, ip4 6, ip4 7, ip4 8] },
       { nodeId := none, addrs := [ip4 9, ip6 2] }],
    claims := [⟨[10, 1, 0, 0], 16⟩, ⟨[0x20, 1, 0xd, 0xb8, 0, 0, 0, 0, 0, 0, 0, 0, 0, 0, 0, 0], 64⟩, ⟨[2, 0, 0, 0, 0, 1], 48⟩],
    peerTimeout := some 300,
    addrs := [ip4 100, ip6 100] }

example : WF sampleMsg = true := by decide +kernel
example : (partsOf sampleMsg).length = 6 := by decide +kernel
/-- the round trip really normalises: the 8th IPv4 address is dropped and the IPv6 address moves to the front -/
example : normalise sampleMsg ≠ sampleMsg := by decide +kernel
example : ((normalise sampleMsg).peers.map (fun p => p.addrs.length)) = [8, 2] := by decide +kernel
example : decodeNodeInfo (encodeNodeInfo sampleMsg ++ [9, 9, 9]) = some (normalise sampleMsg) := by decide +kernel
example : decodeNodeInfo (encodeNodeInfo { sampleMsg with peerTimeout := none }) =
    some (normalise { sampleMsg with peerTimeout := none }) := by decide +kernel
/-- an unknown part (tag 77, three body bytes) at each of the six part boundaries -/
example : ∀ k, k < 6 → decodeNodeInfo (insertPart (partsOf sampleMsg) k (77 :: (Bytes.ofU16 3 ++ [1, 2, 3])) ++ [5])
    = some (normalise sampleMsg) := by decide +kernel
/-- the encoding is not just accepted blindly: a truncated message is rejected -/
example : decodeNodeInfo ((encodeNodeInfo sampleMsg).take 40) = none := by decide +kernel
example : ∀ r ∈ sampleMsg.claims, readRange (writeRange r ++ [7]) = some (r, [7]) := by decide +kernel
example : readRotMsg (writeRotMsg ⟨2 ^ 64 - 1, [1, 2, 3], some [4, 5]⟩ ++ [6]) = some ⟨2 ^ 64 - 1, [1, 2, 3], some [4, 5]⟩ := by
  decide +kernel
example : readRotMsg (writeRotMsg ⟨77, [1, 2, 3], none⟩ ++ [6]) = some ⟨77, [1, 2, 3], none⟩ := by decide +kernel
/-- the hypotheses of `rotmsg_roundtrip` are needed: an empty confirmation is read back as "absent" -/
example : readRotMsg (writeRotMsg ⟨1, [1], some []⟩) ≠ some ⟨1, [1], some []⟩ := by decide +kernel
/-- the hypothesis `WF` of `nodeinfo_roundtrip` is needed: a short node id is not decodable -/
example : decodeNodeInfo (encodeNodeInfo { sampleMsg with nodeId := [1, 2, 3] }) ≠
    some (normalise { sampleMsg with nodeId := [1, 2, 3] }) := by decide +kernel

end VpnCloud.Proofs.C16
