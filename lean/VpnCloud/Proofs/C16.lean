import VpnCloud.Model.NodeInfo
import VpnCloud.Spec.C16
namespace VpnCloud.Proofs.C16
end VpnCloud.Proofs.C16
