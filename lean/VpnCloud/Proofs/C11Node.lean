import VpnCloud.Model.Node
import VpnCloud.Proofs.Lemmas.NodeLemmas2
/-
  C11 at node level: what `handle_interface_data` does with a packet for which the table has no next
  hop.  Router mode drops and counts it; switch / hub mode sends at most one sealed copy to each peer.
  Both statements proved as given (no hypothesis added).
-/
namespace VpnCloud.Proofs.C11Node
open VpnCloud VpnCloud.Node
open VpnCloud.Proofs.NodeLemmas2

/-- router mode (no broadcast): a packet for which the table has no next hop is dropped and counted -/
theorem unknown_dest_dropped (o : Oracle) (n : Node) (now : Int) (data : Bytes) (s d : Addr)
    (hp : parseAddrs n data = some (s, d)) (hl : (n.table.lookup now d).2 = none) (hb : n.cfg.broadcast = false) :
    (handleIface o n now data).outs = [] ∧ (handleIface o n now data).node.droppedOut = n.droppedOut + 1 := by
  rcases hlk : n.table.lookup now d with ⟨tb, r⟩
  rw [hlk] at hl
  simp only at hl
  subst hl
  simp only [handleIface, hp, hlk, hb, Bool.false_eq_true, if_false]
  exact ⟨trivial, trivial⟩

/-- switch / hub mode: it goes to peers only, at most one copy per peer -/
theorem unknown_dest_flooded (o : Oracle) (n : Node) (now : Int) (data : Bytes) (s d : Addr)
    (hp : parseAddrs n data = some (s, d)) (hl : (n.table.lookup now d).2 = none) (hb : n.cfg.broadcast = true) :
    (handleIface o n now data).outs.length ≤ n.peers.length ∧ (handleIface o n now data).node.droppedOut = n.droppedOut := by
  rcases hlk : n.table.lookup now d with ⟨tb, r⟩
  rw [hlk] at hl
  simp only at hl
  subst hl
  simp only [handleIface, hp, hlk, hb, if_true]
  have h := broadcastMsg_len o { node := { n with table := tb } } Generated.MESSAGE_TYPE_DATA data
  simp only [List.length_nil, Nat.zero_add] at h
  exact h

end VpnCloud.Proofs.C11Node
