import VpnCloud.Proofs.C06
import VpnCloud.Proofs.C01
import VpnCloud.Proofs.C16Init
import VpnCloud.Proofs.Lemmas.C06ConfigLemmas
/-
  C06 from the configuration to the selected cipher.

  Part 1: `parseAlgorithms` (the model of `Crypto::parse_algorithms`) against the alias table
          (`isPlainName`, `cipherOfName` in `Lemmas/C06ConfigLemmas.lean`, read off the `match` of the source).
  Part 2: `advertise`: parse, then attach the measured speed of each cipher (`Crypto::new`).
  Part 3: the negotiated outcome of two configured nodes depends only on the two configured SETS of names
          (up to spelling) and on the speeds, not on order, multiplicity, spelling or role.
  Part 4: the advertised list is inside the signed region: what `readFrom` accepts decodes to exactly the
          message that was signed.
-/
namespace VpnCloud.Proofs.C06Config
open VpnCloud VpnCloud.Init VpnCloud.InitMsg VpnCloud.Spec.C06 VpnCloud.Proofs.NegoLemmas VpnCloud.Proofs.C06ConfigLemmas

/-! ## Part 1: `parse_algorithms` -/

/-- the alias table: how `parseAlgoName` (the `match` of `parse_algorithms`) classifies a name, in terms of the two tables
    `plainAliases` and `cipherAliases` used in the statements below; the two tables do not overlap -/
theorem name_classification (n : String) :
    (parseAlgoName n = some none ↔ isPlainName n = true) ∧
    (∀ c, parseAlgoName n = some (some c) ↔ cipherOfName n = some c) ∧
    (parseAlgoName n = none ↔ (isPlainName n = false ∧ cipherOfName n = none)) ∧
    (isPlainName n = true → cipherOfName n = none) :=
  ⟨parseAlgoName_plain_iff n, parseAlgoName_cipher_iff n, parseAlgoName_none_iff n, plain_not_cipher n⟩

/-- **parse_plain_iff**: unencrypted operation is enabled exactly if some configured name is one of the aliases
    `unencrypted`/`none`/`plain` (any case). Holds for the empty configuration too (defaults: not enabled). -/
theorem parse_plain_iff (names : List String) (p : Bool) (cs : List Cipher) (h : parseAlgorithms names = some (p, cs)) :
    p = true ↔ ∃ n ∈ names, isPlainName n = true := by
  rw [parseAlgorithms_closed] at h
  split at h
  · simp only [Option.some.injEq, Prod.mk.injEq] at h
    rw [← h.1]
    cases names with
    | nil => rw [effective_nil, default_noplain]; simp
    | cons a l => rw [effective_of_ne_nil (by simp)]; simp
  · cases h

/-- **parse_ciphers**: the ciphers a node measures and advertises are the configured cipher names, translated one by one, in the
    configured order (duplicates kept) -/
theorem parse_ciphers (names : List String) (hne : names ≠ []) (p : Bool) (cs : List Cipher)
    (h : parseAlgorithms names = some (p, cs)) : cs = names.filterMap cipherOfName := by
  rw [parseAlgorithms_closed, effective_of_ne_nil hne] at h
  split at h
  · simp only [Option.some.injEq, Prod.mk.injEq] at h
    exact h.2.symm
  · cases h

/-- **parse_error_iff**: the configuration is refused exactly if some configured name is neither a plain alias nor a cipher name:
    no name is silently ignored -/
theorem parse_error_iff (names : List String) :
    parseAlgorithms names = none ↔ ∃ n ∈ names, isPlainName n = false ∧ cipherOfName n = none := by
  rw [parseAlgorithms_closed]
  cases names with
  | nil => rw [effective_nil, default_known]; simp
  | cons a l =>
    rw [effective_of_ne_nil (by simp)]
    generalize a :: l = L
    constructor
    · intro h
      split at h
      · cases h
      · rename_i hk
        rw [Bool.not_eq_true, List.all_eq_false] at hk
        obtain ⟨n, hn, hk⟩ := hk
        refine ⟨n, hn, ?_⟩
        unfold knownName at hk
        cases h1 : isPlainName n <;> cases h2 : cipherOfName n <;> simp [h1, h2] at hk ⊢
    · rintro ⟨n, hn, h1, h2⟩
      have : ¬ (L.all knownName = true) := by
        intro hk
        have := List.all_eq_true.1 hk n hn
        simp [knownName, h1, h2] at this
      simp [this]

/-- every configured name of an accepted non-empty configuration is accounted for: it is a plain alias or contributes one cipher -/
theorem parse_nothing_dropped (names : List String) (hne : names ≠ []) (p : Bool) (cs : List Cipher)
    (h : parseAlgorithms names = some (p, cs)) : cs.length + (names.filter isPlainName).length = names.length := by
  rw [parseAlgorithms_closed, effective_of_ne_nil hne] at h
  split at h
  · rename_i hk
    simp only [Option.some.injEq, Prod.mk.injEq] at h
    rw [← h.2]
    clear h hne
    induction names with
    | nil => rfl
    | cons n l ih =>
      simp only [List.all_cons, Bool.and_eq_true] at hk
      have := ih hk.2
      have hk1 := hk.1
      unfold knownName at hk1
      simp only [List.filterMap_cons, List.filter_cons, List.length_cons]
      cases h1 : isPlainName n
      · cases h2 : cipherOfName n
        · simp [h1, h2] at hk1
        · simp only [List.length_cons, Bool.false_eq_true, if_false]; omega
      · rw [plain_not_cipher n h1]
        simp only [if_true, List.length_cons]; omega
  · cases h

/-- **parse_empty_is_default**: nothing configured = the three ciphers, unencrypted operation not enabled -/
theorem parse_empty_is_default : parseAlgorithms [] = some (false, [.aes128, .aes256, .chacha]) := by
  rw [parseAlgorithms_closed, effective_nil, default_known, default_noplain, default_ciphers]; rfl

/-- the defaults written out explicitly give the same as nothing configured -/
theorem parse_default_names : parseAlgorithms defaultAlgoNames = parseAlgorithms [] := rfl

/-- **parse_perm**: the order in which the names are configured matters neither for acceptance nor for the flag, and the cipher lists
    are permutations of each other -/
theorem parse_perm (la lb : List String) (h : la.Perm lb) :
    ((parseAlgorithms la).isSome = (parseAlgorithms lb).isSome) ∧
    ∀ p cs p' cs', parseAlgorithms la = some (p, cs) → parseAlgorithms lb = some (p', cs') → p = p' ∧ cs.Perm cs' := by
  have he : (effective la).Perm (effective lb) := by
    cases la with
    | nil => rw [List.nil_perm] at h; subst h; exact List.Perm.refl _
    | cons a l =>
      have : lb ≠ [] := by
        intro e; subst e; exact absurd h.length_eq (by simp)
      rw [effective_of_ne_nil (by simp), effective_of_ne_nil this]; exact h
  have hall : (effective la).all knownName = (effective lb).all knownName := by
    rw [Bool.eq_iff_iff, List.all_eq_true, List.all_eq_true]
    exact ⟨fun H x hx => H x (he.mem_iff.2 hx), fun H x hx => H x (he.mem_iff.1 hx)⟩
  have hany : (effective la).any isPlainName = (effective lb).any isPlainName := by
    rw [Bool.eq_iff_iff, List.any_eq_true, List.any_eq_true]
    exact ⟨fun ⟨x, hx, H⟩ => ⟨x, he.mem_iff.1 hx, H⟩, fun ⟨x, hx, H⟩ => ⟨x, he.mem_iff.2 hx, H⟩⟩
  rw [parseAlgorithms_closed, parseAlgorithms_closed, hall, hany]
  constructor
  · split <;> rfl
  · intro p cs p' cs' h1 h2
    split at h1
    · rename_i hc
      rw [if_pos hc] at h2
      simp only [Option.some.injEq, Prod.mk.injEq] at h1 h2
      rw [← h1.1, ← h2.1, ← h1.2, ← h2.2]
      exact ⟨rfl, he.filterMap _⟩
    · cases h1

/-- **parse_case_insensitive**: only the upper-case form of each name is looked at: two configurations whose names agree up to case
    parse alike -/
theorem parse_case_insensitive (la lb : List String) (h : la.map String.toUpper = lb.map String.toUpper) :
    parseAlgorithms la = parseAlgorithms lb := by
  have hl : la.length = lb.length := by simpa using congrArg List.length h
  have hm : la.map parseAlgoName = lb.map parseAlgoName := by
    have e : parseAlgoName = (fun u => parseAlgoName u) ∘ String.toUpper := by
      funext n
      exact parseAlgoName_congr (string_toUpper_toUpper n).symm
    rw [e, ← List.map_map, ← List.map_map, h]
  cases la with
  | nil =>
    cases lb with
    | nil => rfl
    | cons => simp at hl
  | cons a l =>
    cases lb with
    | nil => simp at hl
    | cons b l' =>
      unfold parseAlgorithms
      simp only [List.isEmpty_cons, Bool.false_eq_true, if_false]
      generalize a :: l = L at hm
      generalize b :: l' = L' at hm
      generalize ((false, []) : Bool × List Cipher) = acc
      induction L generalizing L' acc with
      | nil => cases L' with
        | nil => rfl
        | cons => simp at hm
      | cons x L ih =>
        cases L' with
        | nil => simp at hm
        | cons y L' =>
          simp only [List.map_cons, List.cons.injEq] at hm
          simp only [List.foldlM_cons, hm.1]
          cases parseAlgoName y with
          | none => rfl
          | some o =>
            cases o with
            | none => exact ih _ hm.2 _
            | some c => exact ih _ hm.2 _

/-- a name, its upper-case and its lower-case variant parse alike -/
theorem parseAlgoName_case (n : String) :
    parseAlgoName n.toUpper = parseAlgoName n ∧ parseAlgoName n.toLower = parseAlgoName n :=
  ⟨parseAlgoName_congr (string_toUpper_toUpper n), parseAlgoName_congr (string_toLower_toUpper n)⟩

/-- a whole configuration in upper case, or in lower case, parses like the original -/
theorem parse_upper_lower (names : List String) :
    parseAlgorithms (names.map String.toUpper) = parseAlgorithms names ∧
    parseAlgorithms (names.map String.toLower) = parseAlgorithms names := by
  constructor <;> apply parse_case_insensitive <;> rw [List.map_map] <;> apply List.map_congr_left <;> intro n _
  · exact string_toUpper_toUpper n
  · exact string_toLower_toUpper n

/-- **plain_position_irrelevant**: a plain alias enables unencrypted operation wherever it stands and leaves the ciphers around it
    alone (the `continue`, not `break`, of the source): inserted anywhere into a non-empty configuration it only sets the flag -/
theorem plain_position_irrelevant (l1 l2 : List String) (a : String) (ha : isPlainName a = true) (hne : l1 ++ l2 ≠ []) :
    parseAlgorithms (l1 ++ a :: l2) = (parseAlgorithms (l1 ++ l2)).map (fun r => (true, r.2)) := by
  rw [parseAlgorithms_closed, parseAlgorithms_closed, effective_of_ne_nil hne, effective_of_ne_nil (by simp)]
  have hk : knownName a = true := by simp [knownName, ha]
  simp only [List.all_append, List.all_cons, hk, Bool.true_and, List.any_append, List.any_cons, ha, Bool.true_or, Bool.or_true,
    List.filterMap_append, List.filterMap_cons, plain_not_cipher a ha]
  split <;> rfl

/-- … and the position is irrelevant also when the alias is the only name (then NO cipher is advertised: the defaults apply only to
    an empty configuration) -/
theorem plain_position_irrelevant' (l1 l2 : List String) (a : String) (ha : isPlainName a = true) :
    parseAlgorithms (l1 ++ a :: l2) = parseAlgorithms (a :: (l1 ++ l2)) := by
  rw [parseAlgorithms_closed, parseAlgorithms_closed, effective_of_ne_nil (by simp), effective_of_ne_nil (by simp)]
  have hk : knownName a = true := by simp [knownName, ha]
  simp only [List.all_append, List.all_cons, hk, Bool.true_and, List.any_append, List.any_cons, ha, Bool.true_or, Bool.or_true,
    List.filterMap_append, List.filterMap_cons, plain_not_cipher a ha]

/-! ### non-vacuity of part 1 -/

example : parseAlgorithms ["aes128", "plain", "AES_256_GCM"] = some (true, [.aes128, .aes256]) := by decide +kernel
example : parseAlgorithms ["plain", "aes128", "AES_256_GCM"] = some (true, [.aes128, .aes256]) := by decide +kernel
example : parseAlgorithms ["aes128", "AES_256_GCM", "NoNe"] = some (true, [.aes128, .aes256]) := by decide +kernel
example : parseAlgorithms ["aes128", "AES_256_GCM"] = some (false, [.aes128, .aes256]) := by decide +kernel
example : parseAlgorithms ["Aes128", "ChaCha20_Poly1305", "aes_128_gcm"] = some (false, [.aes128, .chacha, .aes128]) := by decide +kernel
example : parseAlgorithms ["aes128", "aes-256"] = none := by decide +kernel
example : isPlainName "aes-256" = false ∧ cipherOfName "aes-256" = none := by decide +kernel
example : isPlainName "Unencrypted" = true ∧ cipherOfName "chacha" = some .chacha := by decide +kernel
/-- only a plain alias configured: no cipher at all (not the defaults) -/
example : parseAlgorithms ["plain"] = some (true, []) := by decide +kernel


/-- model boundary: `String.toUpper` maps ASCII letters only, Rust's `to_uppercase` is Unicode-aware (`"plaın"`, with a dotless i, and
    `"aeſ128"`, with a long s, become `PLAIN` and `AES128` there and are accepted); the model treats such names as unknown -/
example : parseAlgoName "plaın" = none ∧ parseAlgoName "aeſ128" = none := by decide +kernel

/-! ## Part 2: the advertised list

  `Crypto::new` measures every parsed cipher (`test_speed`) and advertises `(cipher, speed)` in list order.  `advertise` takes the
  measurement as a function of the cipher (one value per cipher).  In the Rust a cipher that is configured twice is measured twice and
  may get two different values: `advertiseMeasured` attaches the measurements by position; for a configuration without repeated
  ciphers the two coincide (`advertiseMeasured_eq_advertise`), with a repeated cipher and two different measurements the two ends of a
  handshake can disagree (the example below, the counterexample of `C06.lean` reached from a configuration). -/

/-- configured names → advertised list (`none`: the configuration is refused and the node does not start) -/
def advertise (names : List String) (speed : Cipher → Nat) : Option Algos := (parseAlgorithms names).map (attach speed)

/-- literally `Crypto::new`: the i-th parsed cipher gets the i-th measurement -/
def advertiseMeasured (names : List String) (meas : List Nat) : Option Algos :=
  (parseAlgorithms names).map (fun r => ⟨r.2.zip meas, r.1⟩)

/-- cipher `c` is configured (by any of its names, in any case; by default if nothing is configured) -/
def Configured (names : List String) (c : Cipher) : Prop := ∃ n ∈ effective names, cipherOfName n = some c

/-- a plain alias is configured -/
def PlainConfigured (names : List String) : Prop := ∃ n ∈ names, isPlainName n = true

/-- an accepted configuration: every name is known, and the advertised list is the closed form (flag, translated names with speeds) -/
theorem advertise_inv {names : List String} {speed : Cipher → Nat} {A : Algos} (h : advertise names speed = some A) :
    (effective names).all knownName = true ∧
    A = attach speed ((effective names).any isPlainName, (effective names).filterMap cipherOfName) := by
  unfold advertise at h
  rw [map_attach_closed] at h
  split at h
  · rename_i hk
    simp only [Option.some.injEq] at h
    exact ⟨hk, h.symm⟩
  · cases h

/-- the flag of the advertised list: a plain alias was configured -/
theorem advertise_flag {names : List String} {speed : Cipher → Nat} {A : Algos} (h : advertise names speed = some A) :
    A.allowUnencrypted = true ↔ PlainConfigured names := by
  rw [(advertise_inv h).2]
  exact any_plain_effective names

/-- the speeds of the advertised list: exactly the configured ciphers, each with its measured speed -/
theorem advertise_speedOf {names : List String} {speed : Cipher → Nat} {A : Algos} (h : advertise names speed = some A)
    (c : Cipher) (x : Nat) : speedOf A c = some x ↔ (Configured names c ∧ x = speed c) := by
  rw [(advertise_inv h).2, speedOf_attach]
  unfold Configured
  simp only [List.mem_filterMap]
  split
  · rename_i hc
    simp only [Option.some.injEq, hc, true_and]
    exact eq_comm
  · rename_i hc
    simp [hc]

/-- in an advertised list equal ciphers carry equal speeds (so the `NoDup` hypotheses of `C06.lean` are not needed for it) -/
theorem advertise_functional {names : List String} {speed : Cipher → Nat} {A : Algos} (h : advertise names speed = some A) :
    Functional A := by
  rw [(advertise_inv h).2]
  exact attach_functional _ _

/-- the node refuses to start exactly if some configured name is unknown -/
theorem advertise_none_iff (names : List String) (speed : Cipher → Nat) :
    advertise names speed = none ↔ ∃ n ∈ names, isPlainName n = false ∧ cipherOfName n = none := by
  unfold advertise
  rw [Option.map_eq_none_iff, parse_error_iff]

private theorem zip_eq_map (cs : List Cipher) (meas : List Nat) (hl : meas.length = cs.length) (speed : Cipher → Nat)
    (hs : ∀ p ∈ cs.zip meas, speed p.1 = p.2) : cs.zip meas = cs.map (fun c => (c, speed c)) := by
  induction cs generalizing meas with
  | nil => rfl
  | cons c cs ih =>
    cases meas with
    | nil => simp at hl
    | cons x meas =>
      simp only [List.zip_cons_cons, List.map_cons, List.cons.injEq, Prod.mk.injEq, true_and]
      constructor
      · exact (hs (c, x) (by simp)).symm
      · exact ih meas (by simpa using hl) (fun p hp => hs p (by simp [hp]))

/-- for a configuration without repeated ciphers, measuring by position is measuring per cipher -/
theorem advertiseMeasured_eq_advertise (names : List String) (meas : List Nat) (p : Bool) (cs : List Cipher)
    (hp : parseAlgorithms names = some (p, cs)) (hnd : cs.Nodup) (hl : meas.length = cs.length) :
    ∃ speed : Cipher → Nat, advertiseMeasured names meas = advertise names speed ∧ ∀ q ∈ cs.zip meas, speed q.1 = q.2 := by
  have hN : NoDup ⟨cs.zip meas, p⟩ := by
    unfold NoDup
    simp only
    rw [List.map_fst_zip (by omega)]
    exact hnd
  refine ⟨fun c => (speedOf ⟨cs.zip meas, p⟩ c).getD 0, ?_, ?_⟩
  · unfold advertiseMeasured advertise attach
    rw [hp]
    simp only [Option.map_some, Option.some.injEq, Algos.mk.injEq, and_true]
    apply zip_eq_map cs meas hl
    intro q hq
    show (speedOf ⟨cs.zip meas, p⟩ q.1).getD 0 = q.2
    rw [speedOf_of_mem hN (c := q.1) (x := q.2) hq]
    rfl
  · intro q hq
    show (speedOf ⟨cs.zip meas, p⟩ q.1).getD 0 = q.2
    rw [speedOf_of_mem hN (c := q.1) (x := q.2) hq]
    rfl

/-! ## Part 3: the outcome of the negotiation between two configured nodes -/

/-- what happens between a node configured with `oa` and one configured with `ob` (`none`: one of them does not even start) -/
def outcome (oa ob : Option Algos) : Option (Except InitErr (Option Cipher)) :=
  match oa, ob with
  | some a, some b => some (selectAlgorithm a b)
  | _, _ => none

/-- two configurations name the same set: the same classes occur (plain / each cipher / unknown), whatever the order, the
    multiplicity, the spelling of the aliases, the case; nothing configured counts as the three default names -/
def SameSets (la' la : List String) : Prop := ∀ x, x ∈ classes la' ↔ x ∈ classes la

/-- a reordered configuration names the same set -/
theorem sameSets_of_perm {la' la : List String} (h : la'.Perm la) : SameSets la' la := by
  have he : (effective la').Perm (effective la) := by
    cases la' with
    | nil => rw [List.nil_perm] at h; subst h; exact List.Perm.refl _
    | cons a l =>
      have : la ≠ [] := by
        intro e; subst e; exact absurd h.length_eq (by simp)
      rw [effective_of_ne_nil (by simp), effective_of_ne_nil this]; exact h
  intro x
  exact (he.map parseAlgoName).mem_iff

/-- a permutation in which names may have been replaced by other spellings of the same alias -/
theorem sameSets_of_respelled_perm {la' la : List String} (h : (la'.map parseAlgoName).Perm (la.map parseAlgoName)) :
    SameSets la' la := by
  have hl : la'.length = la.length := by simpa using h.length_eq
  intro x
  unfold classes
  cases la' with
  | nil =>
    cases la with
    | nil => exact Iff.rfl
    | cons => simp at hl
  | cons a l =>
    cases la with
    | nil => simp at hl
    | cons b l' =>
      rw [effective_of_ne_nil (by simp), effective_of_ne_nil (by simp)]
      exact h.mem_iff

/-- a configuration that differs only in the case of letters names the same set -/
theorem sameSets_of_case {la' la : List String} (h : la'.map String.toUpper = la.map String.toUpper) : SameSets la' la := by
  apply sameSets_of_respelled_perm
  have e : parseAlgoName = (fun u => parseAlgoName u) ∘ String.toUpper := by
    funext n
    exact parseAlgoName_congr (string_toUpper_toUpper n).symm
  rw [e, ← List.map_map, ← List.map_map, h]

/-- nothing configured and the three default names written out are the same set -/
theorem sameSets_default : SameSets [] defaultAlgoNames := fun _ => Iff.rfl

/-- same sets: both configurations are accepted or both refused, and the advertised lists agree in the flag and in every cipher's speed -/
theorem advertise_sameSets {la' la : List String} (h : SameSets la' la) (speed : Cipher → Nat) :
    match advertise la' speed, advertise la speed with
    | some A', some A => A'.allowUnencrypted = A.allowUnencrypted ∧ ∀ c, speedOf A' c = speedOf A c
    | none, none => True
    | _, _ => False := by
  have hall : (effective la').all knownName = (effective la).all knownName := by
    rw [Bool.eq_iff_iff, all_known_iff_classes, all_known_iff_classes, h]
  have hany : (effective la').any isPlainName = (effective la).any isPlainName := by
    rw [Bool.eq_iff_iff, any_plain_iff_classes, any_plain_iff_classes, h]
  have hmem : ∀ c, c ∈ (effective la').filterMap cipherOfName ↔ c ∈ (effective la).filterMap cipherOfName := by
    intro c
    rw [mem_ciphers_iff_classes, mem_ciphers_iff_classes, h]
  unfold advertise
  rw [map_attach_closed, map_attach_closed, hall, hany]
  cases hk : (effective la).all knownName
  · simp
  · simp only [if_true]
    refine ⟨rfl, ?_⟩
    intro c
    rw [speedOf_attach, speedOf_attach]
    simp only [hmem c]

/-- the negotiation between two advertised lists is the declarative reference (no `NoDup` needed) -/
theorem select_advertised {la lb : List String} {sa sb : Cipher → Nat} {A B : Algos}
    (ha : advertise la sa = some A) (_hb : advertise lb sb = some B) :
    selectAlgorithm A B = choiceResult (selectRef A B) :=
  select_spec_fn A B (advertise_functional ha)

/-- both ends select the same whenever equal ciphers carry equal speeds in each list (`select_symm` of C06 without `NoDup`) -/
theorem select_symm_functional (a b : Algos) (ha : Functional a) (hb : Functional b) : selectAlgorithm a b = selectAlgorithm b a := by
  rw [select_spec_fn a b ha, select_spec_fn b a hb, selectRef_symm']

/-- **outcome_depends_on_sets_only**: whether and how two configured nodes connect depends only on the two configured SETS of names
    (and on the measured speeds): reordering, repeating or respelling names (case, other aliases of the same thing, defaults written
    out) on either side changes nothing, and it does not matter which of the two initiated -/
theorem outcome_depends_on_sets_only (la la' lb lb' : List String) (sa sb : Cipher → Nat)
    (ha : SameSets la' la) (hb : SameSets lb' lb) :
    outcome (advertise la' sa) (advertise lb' sb) = outcome (advertise la sa) (advertise lb sb) ∧
    outcome (advertise lb' sb) (advertise la' sa) = outcome (advertise la sa) (advertise lb sb) := by
  have h1 := advertise_sameSets ha sa
  have h2 := advertise_sameSets hb sb
  cases hA' : advertise la' sa with
  | none =>
    cases hA : advertise la sa with
    | none => cases advertise lb' sb <;> cases advertise lb sb <;> exact ⟨rfl, rfl⟩
    | some A => rw [hA', hA] at h1; exact h1.elim
  | some A' =>
    cases hA : advertise la sa with
    | none => rw [hA', hA] at h1; exact h1.elim
    | some A =>
      rw [hA', hA] at h1
      cases hB' : advertise lb' sb with
      | none =>
        cases hB : advertise lb sb with
        | none => exact ⟨rfl, rfl⟩
        | some B => rw [hB', hB] at h2; exact h2.elim
      | some B' =>
        cases hB : advertise lb sb with
        | none => rw [hB', hB] at h2; exact h2.elim
        | some B =>
          rw [hB', hB] at h2
          have e : selectRef A' B' = selectRef A B := selectRef_ext A' A B' B h1.2 h1.1 h2.2 h2.1
          simp only [outcome, Option.some.injEq]
          rw [select_advertised hA' hB', select_advertised hB' hA', select_advertised hA hB, selectRef_symm' B' A', e]
          exact ⟨rfl, rfl⟩

/-- the task's form: `la'` is a permutation of `la` up to the spelling of the names, `lb'` of `lb`, both accepted -/
theorem outcome_perm_respelled (la la' lb lb' : List String) (sa sb : Cipher → Nat) (A B A' B' : Algos)
    (ha : (la'.map parseAlgoName).Perm (la.map parseAlgoName)) (hb : (lb'.map parseAlgoName).Perm (lb.map parseAlgoName))
    (hA : advertise la sa = some A) (hB : advertise lb sb = some B) (hA' : advertise la' sa = some A') (hB' : advertise lb' sb = some B') :
    selectAlgorithm A' B' = selectAlgorithm A B ∧ selectAlgorithm B' A' = selectAlgorithm A B ∧ selectAlgorithm B A = selectAlgorithm A B := by
  have h := outcome_depends_on_sets_only la la' lb lb' sa sb (sameSets_of_respelled_perm ha) (sameSets_of_respelled_perm hb)
  have h' := outcome_depends_on_sets_only la la lb lb sa sb (fun _ => Iff.rfl) (fun _ => Iff.rfl)
  rw [hA, hB, hA', hB'] at h
  rw [hA, hB] at h'
  simp only [outcome, Option.some.injEq] at h h'
  exact ⟨h.1, h.2, h'.2⟩

/-- **unencrypted operation** is selected exactly if BOTH nodes configured a plain alias - and then it is selected even if they also
    share ciphers (the code tests `allow_unencrypted` of both sides first) -/
theorem unencrypted_iff {la lb : List String} {sa sb : Cipher → Nat} {A B : Algos}
    (ha : advertise la sa = some A) (hb : advertise lb sb = some B) :
    selectAlgorithm A B = .ok none ↔ (PlainConfigured la ∧ PlainConfigured lb) := by
  rw [select_advertised ha hb, ← advertise_flag ha, ← advertise_flag hb, ← C06.plain_iff_both]
  constructor
  · intro h; exact choiceResult_inj (y := .plain) h
  · intro h; rw [h]; rfl

/-- **failure**: the handshake fails (and only with the fatal handshake error) exactly if the nodes did not both configure a plain
    alias and no cipher is configured on both -/
theorem fails_iff {la lb : List String} {sa sb : Cipher → Nat} {A B : Algos}
    (ha : advertise la sa = some A) (hb : advertise lb sb = some B) :
    ((∃ e, selectAlgorithm A B = .error e) ↔ (¬ (PlainConfigured la ∧ PlainConfigured lb) ∧ ¬ ∃ c, Configured la c ∧ Configured lb c)) ∧
    (∀ e, selectAlgorithm A B = .error e → e = .cryptoInitFatal) := by
  rw [select_advertised ha hb]
  have hf := C06.fail_iff_none_common A B
  rw [advertise_flag ha, advertise_flag hb] at hf
  have hcommon : (∀ c, speedOf A c = none ∨ speedOf B c = none) ↔ ¬ ∃ c, Configured la c ∧ Configured lb c := by
    constructor
    · rintro h ⟨c, h1, h2⟩
      have e1 := (advertise_speedOf ha c (sa c)).2 ⟨h1, rfl⟩
      have e2 := (advertise_speedOf hb c (sb c)).2 ⟨h2, rfl⟩
      rcases h c with h | h
      · rw [h] at e1; cases e1
      · rw [h] at e2; cases e2
    · intro h c
      cases e1 : speedOf A c with
      | none => exact Or.inl rfl
      | some x =>
        cases e2 : speedOf B c with
        | none => exact Or.inr rfl
        | some y =>
          exact absurd ⟨c, ((advertise_speedOf ha c x).1 e1).1, ((advertise_speedOf hb c y).1 e2).1⟩ h
  rw [hcommon] at hf
  constructor
  · rw [← hf]
    cases selectRef A B <;> simp [choiceResult]
  · intro e he
    cases hs : selectRef A B <;> rw [hs] at he <;> simp [choiceResult] at he
    exact he.symm

/-- **the selected cipher**: cipher `c` is selected exactly if the nodes did not both configure a plain alias, `c` is configured on both,
    and no cipher configured on both has a faster slower side - or an equally fast one and a higher wire id -/
theorem cipher_iff {la lb : List String} {sa sb : Cipher → Nat} {A B : Algos}
    (ha : advertise la sa = some A) (hb : advertise lb sb = some B) (c : Cipher) :
    selectAlgorithm A B = .ok (some c) ↔
      (¬ (PlainConfigured la ∧ PlainConfigured lb) ∧ Configured la c ∧ Configured lb c ∧
        ∀ c', Configured la c' → Configured lb c' →
          (min (sa c') (sb c') < min (sa c) (sb c) ∨ (min (sa c') (sb c') = min (sa c) (sb c) ∧ c'.wireId ≤ c.wireId))) := by
  rw [select_advertised ha hb]
  have hmem : ∀ z : Cipher × Nat, z ∈ common A B ↔ (Configured la z.1 ∧ Configured lb z.1 ∧ z.2 = min (sa z.1) (sb z.1)) := by
    intro z
    rw [mem_common]
    constructor
    · rintro ⟨x, y, hx, hy, hz⟩
      obtain ⟨h1, rfl⟩ := (advertise_speedOf ha _ _).1 hx
      obtain ⟨h2, rfl⟩ := (advertise_speedOf hb _ _).1 hy
      exact ⟨h1, h2, hz⟩
    · rintro ⟨h1, h2, hz⟩
      exact ⟨_, _, (advertise_speedOf ha _ _).2 ⟨h1, rfl⟩, (advertise_speedOf hb _ _).2 ⟨h2, rfl⟩, hz⟩
  by_cases hp : A.allowUnencrypted = true ∧ B.allowUnencrypted = true
  · rw [selectRef_plain A B hp]
    rw [advertise_flag ha, advertise_flag hb] at hp
    simp [choiceResult, hp]
  · have hp' := hp
    rw [advertise_flag ha, advertise_flag hb] at hp'
    rcases selectRef_not_plain A B hp with ⟨hnil, e⟩ | ⟨best, hmax, e⟩
    · rw [e]
      constructor
      · intro h; simp [choiceResult] at h
      · rintro ⟨_, h1, h2, _⟩
        have : (c, min (sa c) (sb c)) ∈ common A B := (hmem _).2 ⟨h1, h2, rfl⟩
        rw [hnil] at this; simp at this
    · rw [e]
      obtain ⟨b1, b2, b3⟩ := (hmem best).1 hmax.1
      constructor
      · intro h
        simp only [choiceResult, Except.ok.injEq, Option.some.injEq] at h
        subst h
        refine ⟨hp', b1, b2, ?_⟩
        intro c' h1 h2
        have := hmax.2 (c', min (sa c') (sb c')) ((hmem _).2 ⟨h1, h2, rfl⟩)
        unfold lexle at this
        simp only at this
        rw [b3] at this
        exact this
      · rintro ⟨_, h1, h2, h3⟩
        have hm : (c, min (sa c) (sb c)) ∈ common A B := (hmem _).2 ⟨h1, h2, rfl⟩
        have l1 : lexle (c, min (sa c) (sb c)) best := hmax.2 _ hm
        have l2 : lexle best (c, min (sa c) (sb c)) := by
          have := h3 best.1 b1 b2
          unfold lexle
          simp only
          rw [b3]
          exact this
        have := lexle_antisymm l1 l2
        rw [← this]
        rfl


/-! ### non-vacuity of parts 2 and 3 -/

private def sA : Cipher → Nat | .aes128 => 100 | .aes256 => 80 | .chacha => 300
private def sB : Cipher → Nat | .aes128 => 90 | .aes256 => 500 | .chacha => 200

private theorem advA : advertise ["aes128", "plain", "AES_256_GCM"] sA = some ⟨[(.aes128, 100), (.aes256, 80)], true⟩ := by
  decide +kernel
private theorem advA' : advertise ["AES256", "Aes_128", "NONE", "aes128_gcm"] sA =
    some ⟨[(.aes256, 80), (.aes128, 100), (.aes128, 100)], true⟩ := by decide +kernel
private theorem advB : advertise ["chacha20", "aes256", "AES128"] sB = some ⟨[(.chacha, 200), (.aes256, 500), (.aes128, 90)], false⟩ := by
  decide +kernel
private theorem advB' : advertise ["aes_128", "CHACHA", "Aes256_Gcm"] sB = some ⟨[(.aes128, 90), (.chacha, 200), (.aes256, 500)], false⟩ := by
  decide +kernel
private theorem advP : advertise ["unencrypted", "chacha"] sB = some ⟨[(.chacha, 200)], true⟩ := by decide +kernel
private theorem advC : advertise ["chacha"] sB = some ⟨[(.chacha, 200)], false⟩ := by decide +kernel

/-- a reordered, respelled configuration with a repeated cipher names the same set … -/
example : SameSets ["AES256", "Aes_128", "NONE", "aes128_gcm"] ["aes128", "plain", "AES_256_GCM"] := by
  have e1 : classes ["AES256", "Aes_128", "NONE", "aes128_gcm"] = [some (some .aes256), some (some .aes128), some none, some (some .aes128)] := by
    decide +kernel
  have e2 : classes ["aes128", "plain", "AES_256_GCM"] = [some (some .aes128), some none, some (some .aes256)] := by decide +kernel
  intro x
  rw [e1, e2]
  simp only [List.mem_cons, List.not_mem_nil, or_false]
  constructor
  · rintro (h | h | h | h) <;> simp [h]
  · rintro (h | h | h) <;> simp [h]

example : (["aes_128", "CHACHA", "Aes256_Gcm"].map parseAlgoName).Perm (["chacha20", "aes256", "AES128"].map parseAlgoName) := by
  have e1 : ["aes_128", "CHACHA", "Aes256_Gcm"].map parseAlgoName = [some (some .aes128), some (some .chacha), some (some .aes256)] := by
    decide +kernel
  have e2 : ["chacha20", "aes256", "AES128"].map parseAlgoName = [some (some .chacha), some (some .aes256), some (some .aes128)] := by
    decide +kernel
  rw [e1, e2]
  decide

/-- … and the outcome is the same, from either side: `aes128` (slower sides: aes128 90, aes256 80) -/
example : outcome (advertise ["aes128", "plain", "AES_256_GCM"] sA) (advertise ["chacha20", "aes256", "AES128"] sB) = some (.ok (some .aes128)) ∧
          outcome (advertise ["AES256", "Aes_128", "NONE", "aes128_gcm"] sA) (advertise ["aes_128", "CHACHA", "Aes256_Gcm"] sB) = some (.ok (some .aes128)) ∧
          outcome (advertise ["aes_128", "CHACHA", "Aes256_Gcm"] sB) (advertise ["AES256", "Aes_128", "NONE", "aes128_gcm"] sA) = some (.ok (some .aes128)) := by
  rw [advA, advA', advB, advB']
  exact ⟨rfl, rfl, rfl⟩

/-- both configured a plain alias: unencrypted, although `chacha`… no cipher is needed, and a shared cipher would not be used -/
example : outcome (advertise ["aes128", "plain", "AES_256_GCM"] sA) (advertise ["unencrypted", "chacha"] sB) = some (.ok none) := by
  rw [advA, advP]; rfl
example : outcome (advertise ["unencrypted", "chacha"] sB) (advertise ["unencrypted", "chacha"] sA) = some (.ok none) := by
  have : advertise ["unencrypted", "chacha"] sA = some ⟨[(.chacha, 300)], true⟩ := by decide +kernel
  rw [advP, this]; rfl
/-- only one side allows plain and no cipher is shared: the handshake fails -/
example : outcome (advertise ["aes128", "plain", "AES_256_GCM"] sA) (advertise ["chacha"] sB) = some (.error .cryptoInitFatal) := by
  rw [advA, advC]; rfl
/-- an unknown name: the node does not start -/
example : outcome (advertise ["aes128", "aes-256"] sA) (advertise ["chacha"] sB) = none := by
  have : advertise ["aes128", "aes-256"] sA = none := by decide +kernel
  rw [this]; rfl
/-- the hypotheses of `unencrypted_iff`, `fails_iff`, `cipher_iff` are met by these configurations -/
example : PlainConfigured ["aes128", "plain", "AES_256_GCM"] ∧ ¬ PlainConfigured ["chacha20", "aes256", "AES128"] := by
  unfold PlainConfigured
  have e1 : ["aes128", "plain", "AES_256_GCM"].map isPlainName = [false, true, false] := by decide +kernel
  have e2 : ["chacha20", "aes256", "AES128"].map isPlainName = [false, false, false] := by decide +kernel
  simp only [List.map_cons, List.map_nil, List.cons.injEq, and_true] at e1 e2
  simp [e1, e2]

/-- a cipher configured twice and measured twice with different results (`advertiseMeasured`, what the Rust does): the two ends
    disagree (aes128 on one side, aes256 on the other).  With one value per cipher (`advertise`) this cannot happen. -/
example : ∃ A B, advertiseMeasured ["aes128", "AES128", "aes256"] [1, 9, 5] = some A ∧ advertiseMeasured ["aes128", "aes256"] [9, 5] = some B ∧
    selectAlgorithm A B = .ok (some .aes128) ∧ selectAlgorithm B A = .ok (some .aes256) :=
  ⟨⟨[(.aes128, 1), (.aes128, 9), (.aes256, 5)], false⟩, ⟨[(.aes128, 9), (.aes256, 5)], false⟩, by decide +kernel, by decide +kernel, rfl, rfl⟩

/-- `advertiseMeasured_eq_advertise` applies to a configuration without repeated ciphers -/
example : parseAlgorithms ["aes128", "plain", "AES_256_GCM"] = some (true, [.aes128, .aes256]) ∧ [Cipher.aes128, Cipher.aes256].Nodup ∧
    [100, 80].length = [Cipher.aes128, Cipher.aes256].length := ⟨by decide +kernel, by decide, rfl⟩

example : Functional ⟨[(.aes256, 80), (.aes128, 100), (.aes128, 100)], true⟩ := advertise_functional advA'
/-- `cipher_iff` applied to an evaluated selection (left to right) -/
example : Configured ["AES256", "Aes_128", "NONE", "aes128_gcm"] .aes128 ∧ Configured ["chacha20", "aes256", "AES128"] .aes128 :=
  have h := (cipher_iff advA' advB .aes128).1 rfl
  ⟨h.2.1, h.2.2.1⟩

/-! ## Part 4: the advertised list cannot be altered in transit -/

/-- what the holder of key `k` produces with `write_to` for message `m0`: the signed region of a well-formed message under a 4-byte salt
    and the salted hash of `k`, with a signature that fits its length byte -/
def Genuine (env : CryptoEnv) (k signed sig : Bytes) (m0 : InitMsg) : Prop :=
  ∃ salt, C16Init.msgWF m0 ∧ salt.length = 4 ∧ (env.keyHash k salt).length = 4 ∧ sig.length < 256 ∧
    signed = signedRegion m0 salt (env.keyHash k salt)

/-- the algorithms part of a handshake message -/
def algosOf : InitMsg → Option Algos
  | .ping _ _ a => some a
  | .pong _ _ a _ => some a
  | .peng .. => none

/-- **decoded_list_determined_by_signed_region**: an accepted window consists of a region that verifies under the returned key, its
    signature and a rest; and if that region is the signed region of a genuine message, the decoded message - in particular its
    algorithm list - is that message, whatever else is in the window -/
theorem decoded_list_determined_by_signed_region (env : CryptoEnv) (w : Bytes) (T : List Bytes) (m : InitMsg) (k : Bytes)
    (h : readFrom env w T = .ok (m, k)) :
    ∃ signed sig rest, w = signed ++ [sig.length] ++ sig ++ rest ∧ env.sigVerify k signed sig = true ∧
      ∀ m0, Genuine env k signed sig m0 → m = m0 := by
  obtain ⟨hf, signed, sig, rest, hw, hv⟩ := InitLemmas.readFrom_ok_inv env w T m k h
  refine ⟨signed, sig, rest, hw, hv, ?_⟩
  rintro m0 ⟨salt, hwf, hsalt, hkh, hsig, hs⟩
  have e : w = writeTo m0 salt (env.keyHash k salt) sig ++ rest := by
    rw [hw, hs]
    unfold writeTo
    rw [Nat.mod_eq_of_lt hsig]
  have hw' : w = salt ++ (env.keyHash k salt ++ ((InitMsgLemmas.partsOf m0 ++ [Generated.PART_END]) ++ ([sig.length] ++ sig ++ rest))) := by
    rw [hw, hs, InitMsgLemmas.signedRegion_eq]
    simp only [List.append_assoc]
  have t1 : w.take 4 = salt := by rw [hw', List.take_left' hsalt]
  have t2 : (w.drop 4).take 4 = env.keyHash k salt := by rw [hw', List.drop_left' hsalt, List.take_left' hkh]
  rw [t1, t2] at hf
  rw [hs] at hv
  have := C16Init.initmsg_roundtrip env m0 salt sig rest k T hwf hsalt hkh hsig hf hv
  rw [← e, h] at this
  simp only [Except.ok.injEq, Prod.mk.injEq] at this
  exact this.1

/-- identical signed regions come from identical messages: the signed bytes determine every field, the algorithm list included -/
theorem signedRegion_inj (m0 m1 : InitMsg) (salt salt' kh kh' : Bytes) (h0 : C16Init.msgWF m0) (h1 : C16Init.msgWF m1)
    (hs : salt.length = 4) (hs' : salt'.length = 4) (hk : kh.length = 4) (hk' : kh'.length = 4)
    (h : signedRegion m0 salt kh = signedRegion m1 salt' kh') : m0 = m1 ∧ salt = salt' ∧ kh = kh' := by
  have h' := h
  rw [InitMsgLemmas.signedRegion_eq, InitMsgLemmas.signedRegion_eq] at h'
  obtain ⟨e1, h'⟩ := List.append_inj h' (by omega)
  obtain ⟨e2, _⟩ := List.append_inj h' (by omega)
  subst e1; subst e2
  refine ⟨?_, rfl, rfl⟩
  let env : CryptoEnv := { keyHash := fun _ _ => kh, nodeHash := fun _ _ => [], sigVerify := fun _ _ _ => true }
  have r0 := C16Init.initmsg_roundtrip env m0 salt [] [] [] [[]] h0 hs hk (by decide) (by simp [env]) rfl
  have r1 := C16Init.initmsg_roundtrip env m1 salt [] [] [] [[]] h1 hs hk (by decide) (by simp [env]) rfl
  have e : writeTo m0 salt (env.keyHash [] salt) [] = writeTo m1 salt (env.keyHash [] salt) [] := by
    unfold writeTo
    show signedRegion m0 salt kh ++ _ ++ _ = signedRegion m1 salt kh ++ _ ++ _
    rw [h]
  rw [e, r1] at r0
  simp only [Except.ok.injEq, Prod.mk.injEq, and_true] at r0
  exact r0.symm

/-- with ideal signatures (only what a key holder really signed verifies; `log` lists key, message, salt, signature of every genuine
    `write_to`), whatever `readFrom` accepts decodes to exactly a logged message of the returned (trusted) key: every field, the
    advertised algorithm list included, is what that key holder signed -/
theorem accepted_message_was_signed (env : CryptoEnv) (log : List (Bytes × InitMsg × Bytes × Bytes))
    (hwf : ∀ k m0 salt sig, (k, m0, salt, sig) ∈ log →
      C16Init.msgWF m0 ∧ salt.length = 4 ∧ (env.keyHash k salt).length = 4 ∧ sig.length < 256)
    (ideal : ∀ k signed sig, env.sigVerify k signed sig = true →
      ∃ m0 salt, (k, m0, salt, sig) ∈ log ∧ signed = signedRegion m0 salt (env.keyHash k salt))
    (w : Bytes) (T : List Bytes) (m : InitMsg) (k : Bytes) (h : readFrom env w T = .ok (m, k)) :
    k ∈ T ∧ ∃ salt sig, (k, m, salt, sig) ∈ log := by
  refine ⟨(C01.readFrom_accept_genuine env w T m k h).1, ?_⟩
  obtain ⟨signed, sig, rest, _, hv, hdet⟩ := decoded_list_determined_by_signed_region env w T m k h
  obtain ⟨m0, salt, hmem, hs⟩ := ideal k signed sig hv
  obtain ⟨a1, a2, a3, a4⟩ := hwf k m0 salt sig hmem
  have := hdet m0 ⟨salt, a1, a2, a3, a4, hs⟩
  subst this
  exact ⟨salt, sig, hmem⟩

/-- **tampered_list_fails**: under the same ideal-signature assumption, a datagram that would decode to an algorithm list the key
    holder never signed - e.g. a genuine ping or pong whose list was edited in transit - is rejected by `readFrom` (no window, no set of
    trusted keys makes it acceptable), so an edit of the lists makes the handshake fail and cannot change what `selectAlgorithm` is given -/
theorem tampered_list_fails (env : CryptoEnv) (log : List (Bytes × InitMsg × Bytes × Bytes))
    (hwf : ∀ k m0 salt sig, (k, m0, salt, sig) ∈ log →
      C16Init.msgWF m0 ∧ salt.length = 4 ∧ (env.keyHash k salt).length = 4 ∧ sig.length < 256)
    (ideal : ∀ k signed sig, env.sigVerify k signed sig = true →
      ∃ m0 salt, (k, m0, salt, sig) ∈ log ∧ signed = signedRegion m0 salt (env.keyHash k salt))
    (w : Bytes) (T : List Bytes) (m : InitMsg) (k : Bytes) (a : Algos) (hm : algosOf m = some a)
    (hnot : ∀ m0 salt sig, (k, m0, salt, sig) ∈ log → algosOf m0 ≠ some a) :
    readFrom env w T ≠ .ok (m, k) := by
  intro h
  obtain ⟨_, salt, sig, hmem⟩ := accepted_message_was_signed env log hwf ideal w T m k h
  exact hnot m salt sig hmem hm


/-! ### non-vacuity of part 4: an ideal-signature environment with one logged pong -/

open InitLemmas in
private def gPong : InitMsg := .pong (List.replicate 20 2) [6] Toy.algos (Toy.pl 0)
open InitLemmas in
/-- the same pong with the algorithm list replaced by "plain only" -/
private def tPong : InitMsg := .pong (List.replicate 20 2) [6] Toy.algosPlain (Toy.pl 0)

private def iLog : List (Bytes × InitMsg × Bytes × Bytes) := [([9, 9, 9, 9], gPong, [0, 0, 0, 1], [9, 9, 0, 0])]

/-- verification accepts exactly the logged signature over the logged signed region -/
private def iEnv : CryptoEnv :=
  { InitLemmas.Toy.env with
    sigVerify := fun k m s => decide (k = [9, 9, 9, 9] ∧ m = signedRegion gPong [0, 0, 0, 1] [9, 9, 9, 9] ∧ s = [9, 9, 0, 0]) }

private theorem iLog_wf : ∀ k m0 salt sig, (k, m0, salt, sig) ∈ iLog →
    C16Init.msgWF m0 ∧ salt.length = 4 ∧ (iEnv.keyHash k salt).length = 4 ∧ sig.length < 256 := by
  intro k m0 salt sig h
  simp only [iLog, List.mem_singleton, Prod.mk.injEq] at h
  obtain ⟨rfl, rfl, rfl, rfl⟩ := h
  refine ⟨⟨by decide, by decide, ⟨?_, by decide⟩, by decide⟩, by decide, by decide, by decide⟩
  intro p hp
  simp [InitLemmas.Toy.algos] at hp
  subst hp
  decide

private theorem iEnv_ideal : ∀ k signed sig, iEnv.sigVerify k signed sig = true →
    ∃ m0 salt, (k, m0, salt, sig) ∈ iLog ∧ signed = signedRegion m0 salt (iEnv.keyHash k salt) := by
  intro k signed sig h
  simp only [iEnv, decide_eq_true_eq] at h
  obtain ⟨rfl, rfl, rfl⟩ := h
  exact ⟨gPong, [0, 0, 0, 1], by simp [iLog], rfl⟩

/-- the genuine pong is accepted … -/
example : readFrom iEnv (writeTo gPong [0, 0, 0, 1] [9, 9, 9, 9] [9, 9, 0, 0] ++ [1, 2, 3]) [[8, 8, 8, 8], [9, 9, 9, 9]] = .ok (gPong, [9, 9, 9, 9]) := by
  decide
/-- … the pong with the edited list is not (bad signature), as `tampered_list_fails` says for every window and every decoding -/
example : readFrom iEnv (writeTo tPong [0, 0, 0, 1] [9, 9, 9, 9] [9, 9, 0, 0]) [[8, 8, 8, 8], [9, 9, 9, 9]] = .error .crypto := by decide
example (w : Bytes) (T : List Bytes) : readFrom iEnv w T ≠ .ok (tPong, [9, 9, 9, 9]) :=
  tampered_list_fails iEnv iLog iLog_wf iEnv_ideal w T tPong [9, 9, 9, 9] InitLemmas.Toy.algosPlain rfl (by
    intro m0 salt sig h
    simp only [iLog, List.mem_singleton, Prod.mk.injEq] at h
    obtain ⟨-, rfl, -, -⟩ := h
    decide)
/-- `Genuine` is satisfiable -/
example : Genuine iEnv [9, 9, 9, 9] (signedRegion gPong [0, 0, 0, 1] [9, 9, 9, 9]) [9, 9, 0, 0] gPong := by
  obtain ⟨a, b, c, d⟩ := iLog_wf [9, 9, 9, 9] gPong [0, 0, 0, 1] [9, 9, 0, 0] (by simp [iLog])
  exact ⟨[0, 0, 0, 1], a, b, c, d, rfl⟩

end VpnCloud.Proofs.C06Config
