import VpnCloud.Model.Beacon
import VpnCloud.Spec.C17
import VpnCloud.Proofs.C17
import VpnCloud.Proofs.Lemmas.C17MoreLemmas
/-
  C17, second part — beacons inside arbitrary text: no panic of `decode` on any text, a beacon embedded in a
  host text and interleaved with non-alphanumeric characters is found, several beacons are all found, a beacon
  made with another password is ignored unless hash outputs collide, the age window is symmetric on the
  16-bit hour counter.

  The definitions used to state the theorems (`Checked.*`, `Old.*`, `MarkersOK`, `interleave`, `NoOverlap`,
  `Unbordered`) are in `Proofs/Lemmas/C17MoreLemmas.lean`.

  The block counter of `mask_with_keystream` is the wrapping `u8` of the repaired code (/repo commit "fix: do not
  overflow the keystream block counter …"): `decode_never_panics` holds for texts of every length in every build
  profile.  The overflow panic of the code before the fix is kept as a machine-checked regression record in
  section 1b (`old_counter_overflows`, `overflow_text_exists_old`).
-/
namespace VpnCloud.Proofs.C17More

open VpnCloud VpnCloud.Beacon VpnCloud.Codec VpnCloud.Base62 VpnCloud.Spec.C17 VpnCloud.Proofs.C17
open VpnCloud.Proofs.BeaconLemmas VpnCloud.Proofs.C17MoreLemmas
open VpnCloud.Proofs.C17More.Checked VpnCloud.Proofs.C17More.Old

/-! ## 1. `decode` never panics -/

/-- index condition of `data[start_pos..]`: a begin marker that was found lies inside the text -/
theorem begin_in_bounds (data B : List Char) (pos f : Nat) (hpos : pos ≤ data.length)
    (h : findSub (data.drop pos) B = some f) : pos + f + B.length ≤ data.length := by
  obtain ⟨h1, h2, _⟩ := findSub_some h
  have := isPrefixOf_length_le _ _ h2
  rw [List.length_drop, List.length_drop] at this
  rw [List.length_drop] at h1
  omega

/-- index condition of `&data[start_pos..end_pos]`: the end marker is searched behind the begin marker, so
    `start_pos ≤ end_pos ≤ data.len()` -/
theorem end_in_bounds (data E : List Char) (startPos g : Nat) (hs : startPos ≤ data.length)
    (h : findSub (data.drop startPos) E = some g) : startPos ≤ startPos + g ∧ startPos + g ≤ data.length := by
  obtain ⟨h1, _, _⟩ := findSub_some h
  rw [List.length_drop] at h1
  omega

/-- the `while` loop of `decode` ends: with a non-empty begin marker the position grows in every round, so the
    fuel of the model (`data.length + 1` rounds) is never used up — more fuel gives the same result -/
theorem decodeLoop_fuel (env : BeaconEnv) (data : List Char) (ttl : Option Nat) (now : Nat)
    (hB : beginMarker env ≠ []) :
    ∀ fuel1 fuel2 pos, pos ≤ data.length → data.length + 1 ≤ fuel1 + pos → data.length + 1 ≤ fuel2 + pos →
      decodeLoop env data ttl now fuel1 pos = decodeLoop env data ttl now fuel2 pos := by
  have hB1 : 1 ≤ (beginMarker env).length := by
    cases hb : beginMarker env with
    | nil => exact absurd hb hB
    | cons _ _ => simp
  intro fuel1
  induction fuel1 with
  | zero => intro fuel2 pos h1 h2; omega
  | succ n ih =>
    intro fuel2 pos h1 h2 h3
    cases fuel2 with
    | zero => omega
    | succ m =>
      rw [decodeLoop_succ, decodeLoop_succ]
      cases hf : findSub (data.drop pos) (beginMarker env) with
      | none => rfl
      | some f =>
        simp only []
        have hb := begin_in_bounds data _ pos f h1 hf
        cases hg : findSub (data.drop (pos + f + (beginMarker env).length)) (endMarker env) with
        | none => rfl
        | some g =>
          simp only []
          rw [ih m _ hb (by omega) (by omega)]

/-- **decode_never_panics**: for EVERY text (of any length), time and ttl, in every build profile, none of the panic
    sites of `decode` / `peerlist_decode` / `decrypt_data` / `mask_with_keystream` is reached (slices, indices,
    `expect` on `from_base62`, `unwrap`, the two `assert!`s; the block counter wraps), the loop ends, and the result
    is the one of the model.  The hypotheses concern the key only: the hash returns 64 proper bytes (`EnvWF`) and
    `begin()` / `end()` themselves do not panic (`MarkersOK`: needed, see `zeroEnv` below; it holds whenever the two
    marker hashes do not start with 61 zero bytes, `markersOK_of_nonzero`). -/
theorem decode_never_panics (env : BeaconEnv) (h : EnvWF env) (hm : MarkersOK env)
    (text : List Char) (ttl : Option Nat) (now : Nat) :
    decodeChk env text ttl now = some (decode env text ttl now) := by
  obtain ⟨⟨sb, hb1, hb2⟩, ⟨se, he1, he2⟩⟩ := hm
  obtain ⟨eb, lb⟩ := markerChk_some env TYPE_BEGIN sb hb1 hb2
  obtain ⟨ee, _⟩ := markerChk_some env TYPE_END se he1 he2
  unfold decodeChk decode
  rw [eb, ee]
  exact decodeLoopChk_eq env h (sanitize text) ttl now (sanitize_alnum text)
    (by show 1 ≤ (marker env TYPE_BEGIN).length; omega) _ 0 (Nat.zero_le _) (by omega)

/-- **decode_never_panics**, build with overflow checks (debug / test profile).  Since the fix of the block counter
    the build profile makes no difference and there is no bound on the length of the text any more (before the fix:
    at most 4096 alphanumeric characters, see section 1b); the name is kept for the record. -/
theorem decode_never_panics_checked (env : BeaconEnv) (h : EnvWF env) (hm : MarkersOK env)
    (text : List Char) (ttl : Option Nat) (now : Nat) :
    decodeChk env text ttl now = some (decode env text ttl now) :=
  decode_never_panics env h hm text ttl now

/-- `begin()` / `end()` do not panic iff each of the two marker hashes, read as a big-endian number, is at least
    `62^4` (then its base-62 text has 5 characters or more); that `to_base62` itself does not panic follows from the
    definitions -/
theorem markersOK_iff (env : BeaconEnv) (h : EnvWF env) :
    MarkersOK env ↔ 14776336 ≤ Bytes.beVal (env.ks TYPE_BEGIN 0 0) ∧ 14776336 ≤ Bytes.beVal (env.ks TYPE_END 0 0) := by
  unfold MarkersOK
  rw [toBase62_len5_iff _ (h.ks_wf TYPE_BEGIN 0 0).1, toBase62_len5_iff _ (h.ks_wf TYPE_END 0 0).1]

/-- the marker hashes do not begin with 61 zero bytes (for SHA-512 and a given key: all but a fraction of `2^-487`
    of the outputs) -/
def MarkerHashesNonzero (env : BeaconEnv) : Prop :=
  (∃ i, i ≤ 60 ∧ (env.ks TYPE_BEGIN 0 0).getD i 0 ≠ 0) ∧ (∃ i, i ≤ 60 ∧ (env.ks TYPE_END 0 0).getD i 0 ≠ 0)

theorem markersOK_of_nonzero (env : BeaconEnv) (h : EnvWF env) (hn : MarkerHashesNonzero env) : MarkersOK env := by
  obtain ⟨⟨i, hi, hx⟩, ⟨j, hj, hy⟩⟩ := hn
  exact ⟨len5_of_nonzero _ (h.ks_wf _ 0 0).1 (h.ks_wf _ 0 0).2 i hi hx,
    len5_of_nonzero _ (h.ks_wf _ 0 0).1 (h.ks_wf _ 0 0).2 j hj hy⟩

/-- **decode_never_panics** with the hypothesis on the markers replaced by a plain condition on the two marker
    hashes: neither begins with 61 zero bytes -/
theorem decode_never_panics_of_hash (env : BeaconEnv) (h : EnvWF env) (hn : MarkerHashesNonzero env)
    (text : List Char) (ttl : Option Nat) (now : Nat) :
    decodeChk env text ttl now = some (decode env text ttl now) :=
  decode_never_panics env h (markersOK_of_nonzero env h hn) text ttl now

/-- the mask loop of the current code does not panic on data of any length (in particular beyond 4096 bytes) and
    computes `mask` -/
theorem mask_never_panics (env : BeaconEnv) (h : EnvWF env) (t s : Nat) (d : Bytes) :
    maskFromChk env t s d 0 0 = some (mask env d t s) :=
  maskFromChk_eq env h t s d 0 0 (by omega)

/-- **long_body_roundtrip**, instrumented code: encrypting and decrypting a body of any length (in particular of
    more than 4096 bytes) reaches no panic site and returns the body -/
theorem long_body_roundtrip_checked (env : BeaconEnv) (h : EnvWF env) (d : Bytes) :
    decryptDataChk env (encryptData env d) = some (some d) := by
  rw [decryptDataChk_eq env h, VpnCloud.Proofs.C17.encrypt_decrypt env h d]

/-! ## 1b. REGRESSION: the defect that was fixed in /repo commit "fix: do not overflow the keystream block counter …"

  Before the fix `mask_with_keystream` counted key stream blocks with `iter += 1` on a `u8`; in a build with overflow
  checks (debug / test profile) beacon extraction panicked ("attempt to add with overflow") on a candidate body of
  more than 4096 bytes — replayed on the real code with begin marker + 5600 alphanumeric characters + end marker.
  `Old.maskFromOld` / `Old.decryptDataOld` / `Old.peerlistDecodeOld` are the instrumented copy of the OLD code; the
  theorems of this section keep the history of the finding machine-checked, `fixed_*` show the same inputs on the
  current code. -/

/-- **old_counter_overflows** (OLD code, overflow checks): the mask loop panics exactly when it is given 4096 bytes
    or more (`iter += 1` with `iter = 255` when the 256th block ends); below that it computes `mask` -/
theorem old_counter_overflows (env : BeaconEnv) (h : EnvWF env) (t s : Nat) (d : Bytes) :
    (maskFromOld env t s d 0 0 = none ↔ 4096 ≤ d.length) ∧
    (d.length < 4096 → maskFromOld env t s d 0 0 = some (mask env d t s)) := by
  rw [maskFromOld_eq env h t s d 0 0 (by omega) (by omega)]
  by_cases hc : 4096 ≤ 16 * 0 + 0 + d.length
  · rw [if_pos hc]; exact ⟨⟨fun _ => (by omega), fun _ => rfl⟩, fun h' => (by omega)⟩
  · rw [if_neg hc]; exact ⟨⟨fun e => (by cases e), fun h' => (by omega)⟩, fun _ => rfl⟩

/-- (OLD code) `decrypt_data` masks the candidate without its last byte (the seed): it panics exactly when the
    candidate body is LONGER THAN 4096 bytes -/
theorem old_decrypt_overflows (env : BeaconEnv) (h : EnvWF env) (data : Bytes) :
    decryptDataOld env data = none ↔ 4096 < data.length := by
  unfold decryptDataOld
  cases hg : data.getLast? with
  | none =>
    have : data = [] := by simpa using hg
    subst this
    exact ⟨fun e => (by cases e), fun hl => (by simp at hl)⟩
  | some last =>
    have hne : data.isEmpty = false := by
      cases data with
      | nil => simp at hg
      | cons _ _ => rfl
    have hlen : data.dropLast.length = data.length - 1 := List.length_dropLast
    have hpos : 0 < data.length := by
      cases data with
      | nil => simp at hg
      | cons _ _ => simp
    simp only [hne, Bool.false_eq_true, if_false]
    rw [ks_idx env h _ _ _ _ (by omega)]
    simp only []
    have hm := old_counter_overflows env h TYPE_DATA (last ^^^ (env.ks TYPE_SEED 0 0).getD 0 0) data.dropLast
    cases hr : maskFromOld env TYPE_DATA (last ^^^ (env.ks TYPE_SEED 0 0).getD 0 0) data.dropLast 0 0 with
    | none =>
      have := hm.1.mp hr
      exact ⟨fun _ => (by omega), fun _ => rfl⟩
    | some body =>
      simp only []
      refine ⟨fun e => (by cases e), fun hl => ?_⟩
      have := hm.1.mpr (by omega)
      rw [hr] at this; cases this

/-- (OLD code) … so a candidate text that denotes more than 4096 bytes made `peerlist_decode` panic -/
theorem peerlistDecode_overflow_panics_old (env : BeaconEnv) (h : EnvWF env) (text : List Char) (data : Bytes)
    (ttl : Option Nat) (now : Nat) (e : fromBase62 text = .ok data) (hl : 4096 < data.length) :
    peerlistDecodeOld env text ttl now = none := by
  unfold peerlistDecodeOld
  rw [e]
  simp only []
  rw [if_neg (by omega), (old_decrypt_overflows env h data).mpr hl]

/-- the witness of the finding: 4097 bytes of value 1 as base-62 text (alphanumeric, 4097 bytes after decoding) -/
theorem long_text_exists : ∃ text : List Char, (∀ c ∈ text, c.isAlphanum = true) ∧
    fromBase62 text = .ok (List.replicate 4097 1) := by
  have hwf : Bytes.WF (List.replicate 4097 1) := Bytes.wf_replicate _ _ (by omega)
  obtain ⟨cs, e1, e2⟩ := VpnCloud.Proofs.C18.from_to (List.replicate 4097 1) hwf
  have hhd : (List.replicate 4097 1).head? ≠ some 0 := by
    rw [show (4097 : Nat) = 4096 + 1 from rfl, List.replicate_succ, List.head?_cons]
    intro hc
    exact absurd (Option.some.inj hc) (by decide)
  rw [dlz_id _ hhd] at e2
  exact ⟨cs, toBase62_alnum _ hwf cs e1, e2⟩

/-- **overflow_text_exists_old** (OLD code, overflow checks): for every key there is an alphanumeric text on which
    `peerlist_decode` panicked — the defect that was fixed — while the CURRENT code decodes the very same text
    without reaching a panic site -/
theorem overflow_text_exists_old (env : BeaconEnv) (h : EnvWF env) (ttl : Option Nat) (now : Nat) :
    ∃ text : List Char, (∀ c ∈ text, c.isAlphanum = true) ∧
      peerlistDecodeOld env text ttl now = none ∧
      peerlistDecodeChk env text ttl now = some (peerlistDecode env text ttl now) := by
  obtain ⟨cs, hal, e⟩ := long_text_exists
  exact ⟨cs, hal,
    peerlistDecode_overflow_panics_old env h cs _ ttl now e (by rw [List.length_replicate]; omega),
    peerlistDecodeChk_eq env h cs ttl now hal⟩

/-- on short candidates (at most 4096 bytes) the old code and the current code agree: the fix changed nothing else -/
theorem old_agrees_below (env : BeaconEnv) (h : EnvWF env) (data : Bytes) (hl : data.length ≤ 4096) :
    decryptDataOld env data = decryptDataChk env data := by
  unfold decryptDataOld decryptDataChk
  cases hg : data.getLast? with
  | none => rfl
  | some last =>
    simp only []
    rw [ks_idx env h _ _ _ _ (by omega)]
    simp only []
    have hlen : data.dropLast.length = data.length - 1 := List.length_dropLast
    have hpos : 0 < data.length := by
      cases data with
      | nil => simp at hg
      | cons _ _ => simp
    rw [(old_counter_overflows env h _ _ data.dropLast).2 (by omega), mask_never_panics env h]

/-! ## 2. a beacon embedded in arbitrary text is found -/

/-- `sanitize` drops exactly the interleaved junk -/
theorem sanitize_interleave (text : List Char) (js : List (List Char))
    (hj : ∀ j ∈ js, ∀ c ∈ j, c.isAlphanum = false) : sanitize (interleave text js) = sanitize text :=
  C17MoreLemmas.sanitize_interleave text js hj

/-- the sanitised host text: what is left of `pre`, the beacon, what is left of `post` -/
theorem sanitize_host (env : BeaconEnv) (h : EnvWF env) (body pre post : List Char) (js : List (List Char))
    (hbody : ∀ c ∈ body, c.isAlphanum = true) (hjs : ∀ j ∈ js, ∀ c ∈ j, c.isAlphanum = false) :
    sanitize (pre ++ interleave (beginMarker env ++ body ++ endMarker env) js ++ post) =
      sanitize pre ++ (beginMarker env ++ (body ++ (endMarker env ++ sanitize post))) := by
  have hall : ∀ c ∈ beginMarker env ++ body ++ endMarker env, c.isAlphanum = true := by
    intro c hc
    simp only [List.mem_append] at hc
    rcases hc with (hc | hc) | hc
    · exact marker_alnum env h _ c hc
    · exact hbody c hc
    · exact marker_alnum env h _ c hc
  rw [sanitize_append, sanitize_append, C17MoreLemmas.sanitize_interleave _ _ hjs, sanitize_id _ hall]
  simp only [List.append_assoc]

/-- the scanning loop on a sanitised text that contains `B ++ T ++ E` behind `X` returns the decoded `T` -/
theorem found_core (env : BeaconEnv) (X T Y : List Char) (ttl : Option Nat) (now : Nat)
    (hB : beginMarker env ≠ []) (hov : NoOverlap X (beginMarker env))
    (hE : ∀ j, j < T.length → (endMarker env).isPrefixOf ((T ++ endMarker env).drop j) = false) :
    ∃ before after,
      decodeLoop env (X ++ (beginMarker env ++ (T ++ (endMarker env ++ Y)))) ttl now
        ((X ++ (beginMarker env ++ (T ++ (endMarker env ++ Y)))).length + 1) 0 =
      before ++ peerlistDecode env T ttl now ++ after := by
  obtain ⟨before, fuel', _, e⟩ := loop_reaches env X T Y ttl now hB hov hE
    ((X ++ (beginMarker env ++ (T ++ (endMarker env ++ Y)))).length + 1) 0 (Nat.zero_le _)
    (by simp only [List.length_append]; omega)
  exact ⟨before, _, e⟩

/-- the condition "the end marker does not occur in the beacon text before its final end marker", from the
    beacon text to its body -/
theorem hE_body (B T E : List Char)
    (hE : ∀ j, B.length ≤ j → j + E.length < (B ++ T ++ E).length → E.isPrefixOf ((B ++ T ++ E).drop j) = false) :
    ∀ j, j < T.length → E.isPrefixOf ((T ++ E).drop j) = false := by
  intro j hj
  have := hE (B.length + j) (by omega) (by simp only [List.length_append]; omega)
  rwa [List.append_assoc, ← List.drop_drop, List.drop_left] at this

/-- the age verdict of the decoder is the negation of the accepted-age predicate of the specification -/
theorem rejected_eq (now hour : Nat) (ttl : Option Nat) (hh : hour < 65536) :
    rejected now hour ttl = !ageOk now hour ttl := by
  cases ttl with
  | none => rfl
  | some t => exact tooOld_eq now hour t hh

/-- what `peerlist_decode` returns for the body of a beacon made with the same key: the peers if the age is
    accepted, nothing otherwise -/
theorem body_decodes (env : BeaconEnv) (h : EnvWF env) (peers : List SockAddr) (hour now : Nat) (ttl : Option Nat)
    (hp : ∀ a ∈ peers, sockWF a = true) (h4 : (peers.filter isV4).length ≤ 255) (hh : hour < 65536)
    (hz : (encryptData env (plainBody peers hour)).head? ≠ some 0) :
    ∃ body, peerlistEncode env peers hour = some body ∧ (∀ c ∈ body, c.isAlphanum = true) ∧
      peerlistDecode env body ttl now = if ageOk now hour ttl then normPeers peers else [] := by
  obtain ⟨body, e1, e2⟩ := encoded_decodes env h peers hour now ttl hp h4 hh hz
  refine ⟨body, e1, peerlistEncode_alnum env h peers hour hp body e1, ?_⟩
  rw [e2, rejected_eq now hour ttl hh]
  cases ageOk now hour ttl <;> rfl

theorem encode_eq (env : BeaconEnv) (peers : List SockAddr) (hour : Nat) (body : List Char)
    (e : peerlistEncode env peers hour = some body) :
    encode env peers hour = some (beginMarker env ++ body ++ endMarker env) := by
  unfold encode; rw [e]; rfl

/-- **embedded_found**: a beacon for `peers`, interleaved with arbitrary non-alphanumeric characters `js` and put
    between arbitrary texts `pre` and `post`, is found by a node with the same password: the decoded list
    contains the peers (IPv4 first) as a block.  Hypotheses, each necessary (counterexamples below): `hz` the
    recorded defect (the masked body must not begin with a zero byte), `hE` the beacon text does not contain its
    end marker before the final one, `hov` no begin marker that starts in the sanitised `pre` runs into the
    beacon's own begin marker (`pre` may contain complete begin markers and whole other beacons), `hB` the begin
    marker is not empty (it has 5 characters whenever `begin()` does not panic). -/
theorem embedded_found (env : BeaconEnv) (h : EnvWF env) (peers : List SockAddr) (hour now : Nat) (ttl : Option Nat)
    (hp : ∀ a ∈ peers, sockWF a = true) (h4 : (peers.filter isV4).length ≤ 255) (hh : hour < 65536)
    (hz : (encryptData env (plainBody peers hour)).head? ≠ some 0) (hage : ageOk now hour ttl = true)
    (bt : List Char) (hbt : encode env peers hour = some bt)
    (pre post : List Char) (js : List (List Char)) (hjs : ∀ j ∈ js, ∀ c ∈ j, c.isAlphanum = false)
    (hB : beginMarker env ≠ [])
    (hov : NoOverlap (sanitize pre) (beginMarker env))
    (hE : ∀ j, (beginMarker env).length ≤ j → j + (endMarker env).length < bt.length →
      (endMarker env).isPrefixOf (bt.drop j) = false) :
    ∃ before after, decode env (pre ++ interleave bt js ++ post) ttl now = before ++ normPeers peers ++ after := by
  obtain ⟨body, e1, hal, e2⟩ := body_decodes env h peers hour now ttl hp h4 hh hz
  rw [encode_eq env peers hour body e1] at hbt
  cases hbt
  rw [hage, if_pos rfl] at e2
  obtain ⟨before, after, e⟩ := found_core env (sanitize pre) body (sanitize post) ttl now hB hov (hE_body _ _ _ hE)
  refine ⟨before, after, ?_⟩
  unfold decode
  simp only [sanitize_host env h body pre post js hal hjs]
  rw [e, e2]

/-- **embedded_found** for a key whose begin marker has no border (no proper prefix that is also a suffix — true
    of about 98 % of all markers): then `pre` and `post` are completely arbitrary -/
theorem embedded_found_unbordered (env : BeaconEnv) (h : EnvWF env) (peers : List SockAddr) (hour now : Nat)
    (ttl : Option Nat)
    (hp : ∀ a ∈ peers, sockWF a = true) (h4 : (peers.filter isV4).length ≤ 255) (hh : hour < 65536)
    (hz : (encryptData env (plainBody peers hour)).head? ≠ some 0) (hage : ageOk now hour ttl = true)
    (bt : List Char) (hbt : encode env peers hour = some bt)
    (pre post : List Char) (js : List (List Char)) (hjs : ∀ j ∈ js, ∀ c ∈ j, c.isAlphanum = false)
    (hB : beginMarker env ≠ []) (hub : Unbordered (beginMarker env))
    (hE : ∀ j, (beginMarker env).length ≤ j → j + (endMarker env).length < bt.length →
      (endMarker env).isPrefixOf (bt.drop j) = false) :
    ∃ before after, decode env (pre ++ interleave bt js ++ post) ttl now = before ++ normPeers peers ++ after :=
  embedded_found env h peers hour now ttl hp h4 hh hz hage bt hbt pre post js hjs hB
    (noOverlap_of_unbordered _ _ hub) hE

/-! ## 3. several beacons in one text -/

/-- the scanning loop on a sanitised text with two beacon texts -/
theorem found_two_core (env : BeaconEnv) (X T1 M T2 Y : List Char) (ttl : Option Nat) (now : Nat)
    (hB : beginMarker env ≠ [])
    (hov1 : NoOverlap X (beginMarker env))
    (hov2 : NoOverlap (X ++ (beginMarker env ++ (T1 ++ (endMarker env ++ M)))) (beginMarker env))
    (hE1 : ∀ j, j < T1.length → (endMarker env).isPrefixOf ((T1 ++ endMarker env).drop j) = false)
    (hE2 : ∀ j, j < T2.length → (endMarker env).isPrefixOf ((T2 ++ endMarker env).drop j) = false)
    (data : List Char)
    (hdata : data = X ++ (beginMarker env ++ (T1 ++ (endMarker env ++
      (M ++ (beginMarker env ++ (T2 ++ (endMarker env ++ Y)))))))) :
    ∃ before mid after, decodeLoop env data ttl now (data.length + 1) 0 =
      before ++ peerlistDecode env T1 ttl now ++ mid ++ peerlistDecode env T2 ttl now ++ after := by
  have hlen : (X ++ (beginMarker env ++ (T1 ++ (endMarker env ++ M)))).length + 1 ≤ data.length + 1 := by
    rw [hdata]; simp only [List.length_append]; omega
  obtain ⟨before, fuel', hf, e⟩ := loop_reaches env X T1
    (M ++ (beginMarker env ++ (T2 ++ (endMarker env ++ Y)))) ttl now hB hov1 hE1
    (data.length + 1) 0 (Nat.zero_le _) (by rw [hdata]; simp only [List.length_append]; omega)
  have hd2 : data = (X ++ (beginMarker env ++ (T1 ++ (endMarker env ++ M)))) ++
      (beginMarker env ++ (T2 ++ (endMarker env ++ Y))) := by
    rw [hdata]; simp only [List.append_assoc]
  obtain ⟨mid, fuel'', _, e'⟩ := loop_reaches env (X ++ (beginMarker env ++ (T1 ++ (endMarker env ++ M)))) T2 Y ttl now
    hB hov2 hE2 fuel' (X.length + (beginMarker env).length)
    (by simp only [List.length_append]; omega) (by omega)
  rw [← hdata] at e
  rw [← hd2] at e'
  refine ⟨before, mid, decodeLoop env data ttl now fuel''
    ((X ++ (beginMarker env ++ (T1 ++ (endMarker env ++ M)))).length + (beginMarker env).length), ?_⟩
  rw [e, e']; simp only [List.append_assoc]

/-- **several_beacons**: a text with two beacons made with the same password, one behind the other (each
    interleaved with junk, arbitrary text before, between and behind), yields the peers of both, in this order:
    the loop of `decode` continues behind the first beacon.  Hypotheses as in `embedded_found`, for each beacon. -/
theorem several_beacons (env : BeaconEnv) (h : EnvWF env) (peers1 peers2 : List SockAddr) (hour1 hour2 now : Nat)
    (ttl : Option Nat)
    (hp1 : ∀ a ∈ peers1, sockWF a = true) (h41 : (peers1.filter isV4).length ≤ 255) (hh1 : hour1 < 65536)
    (hz1 : (encryptData env (plainBody peers1 hour1)).head? ≠ some 0) (hage1 : ageOk now hour1 ttl = true)
    (hp2 : ∀ a ∈ peers2, sockWF a = true) (h42 : (peers2.filter isV4).length ≤ 255) (hh2 : hour2 < 65536)
    (hz2 : (encryptData env (plainBody peers2 hour2)).head? ≠ some 0) (hage2 : ageOk now hour2 ttl = true)
    (bt1 bt2 : List Char) (hbt1 : encode env peers1 hour1 = some bt1) (hbt2 : encode env peers2 hour2 = some bt2)
    (pre mid post : List Char) (js1 js2 : List (List Char))
    (hjs1 : ∀ j ∈ js1, ∀ c ∈ j, c.isAlphanum = false) (hjs2 : ∀ j ∈ js2, ∀ c ∈ j, c.isAlphanum = false)
    (hB : beginMarker env ≠ [])
    (hov1 : NoOverlap (sanitize pre) (beginMarker env))
    (hov2 : NoOverlap (sanitize pre ++ bt1 ++ sanitize mid) (beginMarker env))
    (hE1 : ∀ j, (beginMarker env).length ≤ j → j + (endMarker env).length < bt1.length →
      (endMarker env).isPrefixOf (bt1.drop j) = false)
    (hE2 : ∀ j, (beginMarker env).length ≤ j → j + (endMarker env).length < bt2.length →
      (endMarker env).isPrefixOf (bt2.drop j) = false) :
    ∃ before between after,
      decode env (pre ++ interleave bt1 js1 ++ mid ++ interleave bt2 js2 ++ post) ttl now =
        before ++ normPeers peers1 ++ between ++ normPeers peers2 ++ after := by
  obtain ⟨body1, e1, hal1, d1⟩ := body_decodes env h peers1 hour1 now ttl hp1 h41 hh1 hz1
  obtain ⟨body2, e2, hal2, d2⟩ := body_decodes env h peers2 hour2 now ttl hp2 h42 hh2 hz2
  rw [encode_eq env peers1 hour1 body1 e1] at hbt1
  rw [encode_eq env peers2 hour2 body2 e2] at hbt2
  cases hbt1; cases hbt2
  rw [hage1, if_pos rfl] at d1
  rw [hage2, if_pos rfl] at d2
  have hs : sanitize (pre ++ interleave (beginMarker env ++ body1 ++ endMarker env) js1 ++ mid ++
      interleave (beginMarker env ++ body2 ++ endMarker env) js2 ++ post) =
      sanitize pre ++ (beginMarker env ++ (body1 ++ (endMarker env ++
        (sanitize mid ++ (beginMarker env ++ (body2 ++ (endMarker env ++ sanitize post))))))) := by
    have := sanitize_host env h body2 (pre ++ interleave (beginMarker env ++ body1 ++ endMarker env) js1 ++ mid)
      post js2 hal2 hjs2
    rw [this, sanitize_host env h body1 pre mid js1 hal1 hjs1]
    simp only [List.append_assoc]
  have hov2' : NoOverlap (sanitize pre ++ (beginMarker env ++ (body1 ++ (endMarker env ++ sanitize mid))))
      (beginMarker env) := by
    simpa only [List.append_assoc] using hov2
  obtain ⟨before, between, after, e⟩ := found_two_core env (sanitize pre) body1 (sanitize mid) body2 (sanitize post)
    ttl now hB hov1 hov2' (hE_body _ _ _ hE1) (hE_body _ _ _ hE2) _ hs
  refine ⟨before, between, after, ?_⟩
  unfold decode
  rw [e, d1, d2]

/-- **several_beacons** for a key whose begin marker has no border: the texts before, between and behind the two
    beacons are arbitrary -/
theorem several_beacons_unbordered (env : BeaconEnv) (h : EnvWF env) (peers1 peers2 : List SockAddr)
    (hour1 hour2 now : Nat) (ttl : Option Nat)
    (hp1 : ∀ a ∈ peers1, sockWF a = true) (h41 : (peers1.filter isV4).length ≤ 255) (hh1 : hour1 < 65536)
    (hz1 : (encryptData env (plainBody peers1 hour1)).head? ≠ some 0) (hage1 : ageOk now hour1 ttl = true)
    (hp2 : ∀ a ∈ peers2, sockWF a = true) (h42 : (peers2.filter isV4).length ≤ 255) (hh2 : hour2 < 65536)
    (hz2 : (encryptData env (plainBody peers2 hour2)).head? ≠ some 0) (hage2 : ageOk now hour2 ttl = true)
    (bt1 bt2 : List Char) (hbt1 : encode env peers1 hour1 = some bt1) (hbt2 : encode env peers2 hour2 = some bt2)
    (pre mid post : List Char) (js1 js2 : List (List Char))
    (hjs1 : ∀ j ∈ js1, ∀ c ∈ j, c.isAlphanum = false) (hjs2 : ∀ j ∈ js2, ∀ c ∈ j, c.isAlphanum = false)
    (hB : beginMarker env ≠ []) (hub : Unbordered (beginMarker env))
    (hE1 : ∀ j, (beginMarker env).length ≤ j → j + (endMarker env).length < bt1.length →
      (endMarker env).isPrefixOf (bt1.drop j) = false)
    (hE2 : ∀ j, (beginMarker env).length ≤ j → j + (endMarker env).length < bt2.length →
      (endMarker env).isPrefixOf (bt2.drop j) = false) :
    ∃ before between after,
      decode env (pre ++ interleave bt1 js1 ++ mid ++ interleave bt2 js2 ++ post) ttl now =
        before ++ normPeers peers1 ++ between ++ normPeers peers2 ++ after :=
  several_beacons env h peers1 peers2 hour1 hour2 now ttl hp1 h41 hh1 hz1 hage1 hp2 h42 hh2 hz2 hage2 bt1 bt2
    hbt1 hbt2 pre mid post js1 js2 hjs1 hjs2 hB (noOverlap_of_unbordered _ _ hub)
    (noOverlap_of_unbordered _ _ hub) hE1 hE2

/-! ## 4. a beacon made with another password -/

/-- a beacon text standing alone (interleaved with junk only) is decoded as its body; `hE`: the end marker does not
    occur in the beacon text before the final one, `hBc`: the begin marker does not occur again behind the first -/
theorem clean_decode (env : BeaconEnv) (h : EnvWF env) (body : List Char) (js : List (List Char))
    (ttl : Option Nat) (now : Nat)
    (hbody : ∀ c ∈ body, c.isAlphanum = true) (hjs : ∀ j ∈ js, ∀ c ∈ j, c.isAlphanum = false)
    (hE : ∀ j, (beginMarker env).length ≤ j → j + (endMarker env).length < (beginMarker env ++ body ++ endMarker env).length →
      (endMarker env).isPrefixOf ((beginMarker env ++ body ++ endMarker env).drop j) = false)
    (hBc : ∀ j, (beginMarker env).length ≤ j →
      (beginMarker env).isPrefixOf ((beginMarker env ++ body ++ endMarker env).drop j) = false) :
    decode env (interleave (beginMarker env ++ body ++ endMarker env) js) ttl now = peerlistDecode env body ttl now := by
  have hall : ∀ c ∈ beginMarker env ++ body ++ endMarker env, c.isAlphanum = true := by
    intro c hc
    simp only [List.mem_append] at hc
    rcases hc with (hc | hc) | hc
    · exact marker_alnum env h _ c hc
    · exact hbody c hc
    · exact marker_alnum env h _ c hc
  have hs : sanitize (interleave (beginMarker env ++ body ++ endMarker env) js) =
      beginMarker env ++ body ++ endMarker env := by
    rw [C17MoreLemmas.sanitize_interleave _ _ hjs, sanitize_id _ hall]
  have hd := decode_single env body ttl now hall (hE_body _ _ _ hE) (by
    intro j _
    have := hBc ((beginMarker env).length + j) (by omega)
    rwa [List.append_assoc, ← List.drop_drop, List.drop_left] at this)
  unfold decode at hd ⊢
  rw [hs]
  rw [sanitize_id _ hall] at hd
  exact hd

/-- first line of defence: a text in which the begin marker of the reader's key does not occur yields nothing -/
theorem begin_absent_ignored (env : BeaconEnv) (text : List Char) (ttl : Option Nat) (now : Nat)
    (hB : ∀ j, (beginMarker env).isPrefixOf ((sanitize text).drop j) = false) : decode env text ttl now = [] := by
  unfold decode
  apply decodeLoop_absent
  intro j _
  rw [List.drop_drop]; exact hB _

/-- … and so does a text in which the end marker of the reader's key does not occur -/
theorem end_absent_ignored (env : BeaconEnv) (text : List Char) (ttl : Option Nat) (now : Nat)
    (hE : ∀ j, (endMarker env).isPrefixOf ((sanitize text).drop j) = false) : decode env text ttl now = [] := by
  unfold decode
  rw [decodeLoop_succ]
  cases findSub ((sanitize text).drop 0) (beginMarker env) with
  | none => rfl
  | some f =>
    simp only []
    rw [findSub_absent _ _ (by intro j _; rw [List.drop_drop]; exact hE _)]

/-- anything a node extracts from a text shows that both markers of ITS key occur in the sanitised text: for a
    beacon made with another password this is a collision of the first 5 base-62 digits of two pairs of hashes -/
theorem extracted_needs_markers (env : BeaconEnv) (text : List Char) (ttl : Option Nat) (now : Nat)
    (hne : decode env text ttl now ≠ []) :
    (∃ j, (beginMarker env).isPrefixOf ((sanitize text).drop j) = true) ∧
    (∃ j, (endMarker env).isPrefixOf ((sanitize text).drop j) = true) := by
  constructor
  · apply Classical.byContradiction
    intro hn
    apply hne
    apply begin_absent_ignored
    intro j
    cases hb : (beginMarker env).isPrefixOf ((sanitize text).drop j) with
    | false => rfl
    | true => exact absurd ⟨j, hb⟩ hn
  · apply Classical.byContradiction
    intro hn
    apply hne
    apply end_absent_ignored
    intro j
    cases hb : (endMarker env).isPrefixOf ((sanitize text).drop j) with
    | false => rfl
    | true => exact absurd ⟨j, hb⟩ hn

/-- the seed a node with key `env2` computes from the last byte of data encrypted with key `env1` -/
def foreignSeed (env1 env2 : BeaconEnv) (d : Bytes) : Nat :=
  (env1.h0 d ^^^ (env1.ks TYPE_SEED 0 0).getD 0 0) ^^^ (env2.ks TYPE_SEED 0 0).getD 0 0

/-- the body it obtains by unmasking with its own key stream -/
def foreignBody (env1 env2 : BeaconEnv) (d : Bytes) : Bytes :=
  mask env2 (mask env1 d TYPE_DATA (env1.h0 d)) TYPE_DATA (foreignSeed env1 env2 d)

/-- the collision of hash outputs under which the one-byte seed check accepts foreign data: the first hash byte of
    the wrongly unmasked body equals the wrongly unmasked seed byte -/
def SeedCollision (env1 env2 : BeaconEnv) (d : Bytes) : Prop :=
  foreignSeed env1 env2 d = env2.h0 (foreignBody env1 env2 d)

instance (env1 env2 : BeaconEnv) (d : Bytes) : Decidable (SeedCollision env1 env2 d) := by
  unfold SeedCollision; infer_instance

/-- second line of defence, exactly: `decrypt_data` with key 2 accepts data encrypted with key 1 iff the seed
    collision holds (for one and the same key it always holds: `encrypt_decrypt`) -/
theorem foreign_seed_check (env1 env2 : BeaconEnv) (d : Bytes) :
    decryptData env2 (encryptData env1 d) =
      if SeedCollision env1 env2 d then some (foreignBody env1 env2 d) else none := by
  rw [encryptData_eq]
  unfold decryptData
  simp only [List.getLast?_append, List.getLast?_singleton, Option.some_or, List.dropLast_concat]
  rfl

theorem seedCollision_self (env : BeaconEnv) (d : Bytes) : SeedCollision env env d := by
  unfold SeedCollision foreignBody foreignSeed
  rw [xor_cancel]
  show env.h0 d = env.h0 (mask env (mask env d TYPE_DATA (env.h0 d)) TYPE_DATA (env.h0 d))
  rw [VpnCloud.Proofs.C17.mask_involutive]

/-- what a node with key `env2` extracts from a clean beacon text made with key `env1` whose markers coincide with
    its own: nothing, unless the seed collision holds — then whatever the wrongly unmasked bytes parse to -/
theorem foreign_clean_decode (env1 env2 : BeaconEnv) (h1 : EnvWF env1) (h2 : EnvWF env2) (peers : List SockAddr)
    (hour now : Nat) (ttl : Option Nat) (hp : ∀ a ∈ peers, sockWF a = true)
    (hz : (encryptData env1 (plainBody peers hour)).head? ≠ some 0)
    (bt : List Char) (hbt : encode env1 peers hour = some bt)
    (js : List (List Char)) (hjs : ∀ j ∈ js, ∀ c ∈ j, c.isAlphanum = false)
    (hmB : beginMarker env2 = beginMarker env1) (hmE : endMarker env2 = endMarker env1)
    (hE : ∀ j, (beginMarker env1).length ≤ j → j + (endMarker env1).length < bt.length →
      (endMarker env1).isPrefixOf (bt.drop j) = false)
    (hBc : ∀ j, (beginMarker env1).length ≤ j → (beginMarker env1).isPrefixOf (bt.drop j) = false) :
    decode env2 (interleave bt js) ttl now =
      if SeedCollision env1 env2 (plainBody peers hour)
      then bodyParse (foreignBody env1 env2 (plainBody peers hour)) ttl now else [] := by
  have hwf := encryptData_wf env1 h1 _ (plainBody_wf peers hour hp)
  obtain ⟨body, e1, e2⟩ := VpnCloud.Proofs.C18.from_to _ hwf
  rw [dlz_id _ hz] at e2
  have e1' : peerlistEncode env1 peers hour = some body := e1
  rw [encode_eq env1 peers hour body e1'] at hbt
  cases hbt
  have hal := peerlistEncode_alnum env1 h1 peers hour hp body e1'
  rw [← hmB, ← hmE] at hE hBc ⊢
  rw [clean_decode env2 h2 body js ttl now hal hjs hE hBc, peerlistDecode_eq, e2]
  have hlen : ¬ (encryptData env1 (plainBody peers hour)).length < 4 := by
    rw [encryptData_length, plainBody_eq]; simp only [List.length_cons]; omega
  simp only [hlen, if_false, foreign_seed_check]
  by_cases hc : SeedCollision env1 env2 (plainBody peers hour)
  · simp only [hc, if_true]
  · simp only [hc, if_false]

/-- **other_password_ignored**: a beacon made with key 1 is ignored by a node with key 2 — by `extracted_needs_markers`
    whenever the markers of key 2 do not occur in the text, and, when the markers of the two keys happen to
    coincide, by the seed byte UNLESS the hash collision `SeedCollision` holds (1 of 256 for a random hash; the
    code says so: "the 1 byte seed is only meant to protect from random changes") -/
theorem other_password_ignored (env1 env2 : BeaconEnv) (h1 : EnvWF env1) (h2 : EnvWF env2) (peers : List SockAddr)
    (hour now : Nat) (ttl : Option Nat) (hp : ∀ a ∈ peers, sockWF a = true)
    (hz : (encryptData env1 (plainBody peers hour)).head? ≠ some 0)
    (bt : List Char) (hbt : encode env1 peers hour = some bt)
    (js : List (List Char)) (hjs : ∀ j ∈ js, ∀ c ∈ j, c.isAlphanum = false)
    (hmB : beginMarker env2 = beginMarker env1) (hmE : endMarker env2 = endMarker env1)
    (hE : ∀ j, (beginMarker env1).length ≤ j → j + (endMarker env1).length < bt.length →
      (endMarker env1).isPrefixOf (bt.drop j) = false)
    (hBc : ∀ j, (beginMarker env1).length ≤ j → (beginMarker env1).isPrefixOf (bt.drop j) = false)
    (hnc : ¬ SeedCollision env1 env2 (plainBody peers hour)) :
    decode env2 (interleave bt js) ttl now = [] := by
  rw [foreign_clean_decode env1 env2 h1 h2 peers hour now ttl hp hz bt hbt js hjs hmB hmE hE hBc, if_neg hnc]

/-! ## 5. the age window -/

/-- hours from the stamp forward to `now` on the 16-bit hour counter -/
def age16 (now thn : Nat) : Nat := (now + 65536 - thn) % 65536

theorem tooOld_false_iff (now thn ttl : Nat) :
    tooOld now thn ttl = false ↔ (now + 65536 - thn) % 65536 ≤ ttl ∨ (thn + 65536 - now) % 65536 ≤ ttl := by
  unfold tooOld
  by_cases h1 : (now + 65536 - thn) % 65536 ≤ ttl <;> by_cases h2 : (thn + 65536 - now) % 65536 ≤ ttl <;>
    simp [h1, h2] <;> omega

/-- **age_symmetric**: a beacon stamped `thn` is accepted at `now` iff `(now − thn) mod 2^16 ≤ ttl` or
    `(thn − now) mod 2^16 ≤ ttl` (differences of integers): the window is symmetric around `now` and wraps with
    the counter -/
theorem age_symmetric (now thn ttl : Nat) (hn : now < 65536) (ht : thn < 65536) :
    tooOld now thn ttl = false ↔
      ((now : Int) - (thn : Int)) % 65536 ≤ (ttl : Int) ∨ ((thn : Int) - (now : Int)) % 65536 ≤ (ttl : Int) := by
  rw [tooOld_false_iff]; omega

/-- the rejected stamps are exactly those whose age lies strictly between `ttl` and `2^16 − ttl` -/
theorem tooOld_true_iff (now thn ttl : Nat) (hn : now < 65536) (ht : thn < 65536) :
    tooOld now thn ttl = true ↔ ttl < age16 now thn ∧ age16 now thn + ttl < 65536 := by
  have := tooOld_false_iff now thn ttl
  unfold age16
  cases h : tooOld now thn ttl with
  | false => rw [h] at this; simp only [true_iff] at this; simp only [Bool.false_eq_true, false_iff]; omega
  | true => rw [h] at this; simp only [Bool.true_eq_false, false_iff] at this; simp only [true_iff]; omega

/-- too old ⇒ ignored (stamp in the past, no wrap of the counter in between) -/
theorem too_old (now thn ttl : Nat) (hn : now < 65536) (hle : thn ≤ now) (h1 : ttl < now - thn)
    (h2 : now - thn + ttl < 65536) : tooOld now thn ttl = true := by
  rw [tooOld_true_iff now thn ttl hn (by omega)]; unfold age16; omega

/-- too far in the future ⇒ ignored -/
theorem too_new (now thn ttl : Nat) (ht : thn < 65536) (hle : now ≤ thn) (h1 : ttl < thn - now)
    (h2 : thn - now + ttl < 65536) : tooOld now thn ttl = true := by
  rw [tooOld_true_iff now thn ttl (by omega) ht]; unfold age16; omega

/-- too old across the wrap of the hour counter (the stamp is numerically larger than `now`) ⇒ ignored -/
theorem too_old_wrapped (now thn ttl : Nat) (ht : thn < 65536) (hlt : now < thn)
    (h1 : ttl < now + 65536 - thn) (h2 : now + 65536 - thn + ttl < 65536) : tooOld now thn ttl = true := by
  rw [tooOld_true_iff now thn ttl (by omega) ht]; unfold age16; omega

/-- a ttl of 32768 hours or more accepts every stamp: on a 16-bit counter every stamp is then "recent" in one
    of the two directions -/
theorem huge_ttl_accepts_all (now thn ttl : Nat) (hn : now < 65536) (ht : thn < 65536) (h : 32768 ≤ ttl) :
    tooOld now thn ttl = false := by
  rw [tooOld_false_iff]; omega

/-- concrete instances at the wrap 65535 / 0 with `ttl = 1`: one hour old and one hour ahead across the wrap are
    accepted, two hours old and two hours ahead across the wrap are ignored -/
theorem wrap_instances :
    tooOld 0 65535 1 = false ∧ tooOld 65535 0 1 = false ∧ tooOld 1 65535 1 = true ∧ tooOld 65535 1 1 = true ∧
    tooOld 0 65535 0 = true ∧ tooOld 0 0 0 = false := by decide

/-- **beacon_age**: a clean beacon text made with the same password is decoded to its peers iff its age is within
    `ttl` hours in either direction (on the wrapping counter), and to nothing otherwise; without a ttl always -/
theorem beacon_age (env : BeaconEnv) (h : EnvWF env) (peers : List SockAddr) (hour now : Nat) (ttl : Option Nat)
    (hp : ∀ a ∈ peers, sockWF a = true) (h4 : (peers.filter isV4).length ≤ 255) (hh : hour < 65536)
    (hz : (encryptData env (plainBody peers hour)).head? ≠ some 0)
    (bt : List Char) (hbt : encode env peers hour = some bt)
    (js : List (List Char)) (hjs : ∀ j ∈ js, ∀ c ∈ j, c.isAlphanum = false)
    (hE : ∀ j, (beginMarker env).length ≤ j → j + (endMarker env).length < bt.length →
      (endMarker env).isPrefixOf (bt.drop j) = false)
    (hBc : ∀ j, (beginMarker env).length ≤ j → (beginMarker env).isPrefixOf (bt.drop j) = false) :
    decode env (interleave bt js) ttl now = if ageOk now hour ttl then normPeers peers else [] := by
  obtain ⟨body, e1, hal, e2⟩ := body_decodes env h peers hour now ttl hp h4 hh hz
  rw [encode_eq env peers hour body e1] at hbt
  cases hbt
  rw [clean_decode env h body js ttl now hal hjs hE hBc, e2]

/-- `ttl = none` ⇒ every stamp is accepted -/
theorem no_ttl_accepts_all (now hour : Nat) : ageOk now hour none = true := rfl

/-- the accepted-age predicate of the specification in the symmetric form -/
theorem ageOk_iff (now thn ttl : Nat) (hn : now < 65536) (ht : thn < 65536) :
    ageOk now thn (some ttl) = true ↔
      ((now : Int) - (thn : Int)) % 65536 ≤ (ttl : Int) ∨ ((thn : Int) - (now : Int)) % 65536 ≤ (ttl : Int) := by
  rw [← age_symmetric now thn ttl hn ht, tooOld_eq now thn ttl ht]
  cases ageOk now thn (some ttl) <;> simp

/-! ## 6. non-vacuity and necessity of the hypotheses (toy hash of `Proofs/C17.lean`) -/

theorem bounded_hE (B E bt : List Char)
    (h : ∀ j, j < bt.length → B.length ≤ j → j + E.length < bt.length → E.isPrefixOf (bt.drop j) = false) :
    ∀ j, B.length ≤ j → j + E.length < bt.length → E.isPrefixOf (bt.drop j) = false :=
  fun j h1 h2 => h j (by omega) h1 h2

theorem bounded_absent (B data : List Char) (k : Nat) (hB : B ≠ [])
    (h : ∀ j, j < data.length → k ≤ j → B.isPrefixOf (data.drop j) = false) :
    ∀ j, k ≤ j → B.isPrefixOf (data.drop j) = false := by
  intro j hk
  by_cases hj : j < data.length
  · exact h j hj hk
  · rw [List.drop_of_length_le (by omega)]
    cases B with
    | nil => exact absurd rfl hB
    | cons _ _ => rfl

theorem not_contains {α : Type} (l before after : List α) (hl : l ≠ []) : [] ≠ before ++ l ++ after := by
  intro e
  have := congrArg List.length e
  simp only [List.length_nil, List.length_append] at this
  cases l with
  | nil => exact hl rfl
  | cons _ _ => simp only [List.length_cons] at this; omega

/-- the beacon of `toyPeers` stamped 1000 -/
def toyBeacon : List Char := "ERzuwDRPvoXOHri1VECYTSk9Vq2NrqabOphE1BoLssIKbnqgecO1rbzL".toList

theorem toyBeacon_eq : encode toyEnv toyPeers 1000 = some toyBeacon := by decide +kernel

theorem toy_markersOK : MarkersOK toyEnv :=
  ⟨⟨(toBase62 (toyEnv.ks TYPE_BEGIN 0 0)).getD [], by decide +kernel, by decide +kernel⟩,
   ⟨(toBase62 (toyEnv.ks TYPE_END 0 0)).getD [], by decide +kernel, by decide +kernel⟩⟩

theorem toy_begin : beginMarker toyEnv = "ERzuw".toList := by decide +kernel
theorem toy_end : endMarker toyEnv = "1rbzL".toList := by decide +kernel
theorem toy_begin_ne : beginMarker toyEnv ≠ [] := by rw [toy_begin]; decide
theorem toy_unbordered : Unbordered (beginMarker toyEnv) := by rw [toy_begin]; decide

/-- all hypotheses of `decode_never_panics` hold for the toy key -/
example (text : List Char) (ttl : Option Nat) (now : Nat) :
    decodeChk toyEnv text ttl now = some (decode toyEnv text ttl now) :=
  decode_never_panics toyEnv toyEnv_wf toy_markersOK text ttl now

/-- … and so does the plain condition on the marker hashes -/
theorem toy_nonzero : MarkerHashesNonzero toyEnv := ⟨⟨0, by decide, by decide⟩, ⟨0, by decide, by decide⟩⟩
example (text : List Char) (ttl : Option Nat) (now : Nat) :
    decodeChk toyEnv text ttl now = some (decode toyEnv text ttl now) :=
  decode_never_panics_of_hash toyEnv toyEnv_wf toy_nonzero text ttl now

/-- the instrumented copy does compute something: text with a beacon, text with half a beacon, junk -/
example : decodeChk toyEnv ("x-".toList ++ toyBeacon ++ "ERzuw12".toList) (some 3) 1002 = some (normPeers toyPeers) ∧
    decodeChk toyEnv "ERzuw1rbzL ERzuwERzuw 1rbzL ERzuw".toList none 0 = some [] := by decide +kernel

/-- `MarkersOK` is needed: a key whose marker hash is all zero makes `begin()` panic (`""[0..5]`) -/
def zeroEnv : BeaconEnv := { ks := fun _ _ _ => List.replicate 64 0, h0 := fun _ => 0 }
theorem zeroEnv_wf : EnvWF zeroEnv :=
  ⟨fun _ _ _ => ⟨Bytes.wf_replicate 64 0 (by decide), List.length_replicate⟩, fun _ => Nat.zero_lt_succ _⟩
example : decodeChk zeroEnv [] none 0 = none := by decide +kernel

/-! ### the regression record on concrete data: 4096 bytes through the old and the current mask loop -/

example : maskFromOld toyEnv 2 9 (List.replicate 4095 0) 0 0 = some (mask toyEnv (List.replicate 4095 0) 2 9) ∧
    maskFromOld toyEnv 2 9 (List.replicate 4096 0) 0 0 = none ∧
    maskFromChk toyEnv 2 9 (List.replicate 4096 0) 0 0 = some (mask toyEnv (List.replicate 4096 0) 2 9) :=
  ⟨(old_counter_overflows toyEnv toyEnv_wf 2 9 _).2 (by rw [List.length_replicate]; omega),
   (old_counter_overflows toyEnv toyEnv_wf 2 9 _).1.mpr (by rw [List.length_replicate]; omega),
   mask_never_panics toyEnv toyEnv_wf 2 9 _⟩

/-- a body of 5000 bytes: the old code panicked in `decrypt_data`, the current code returns the body -/
example : decryptDataOld toyEnv (encryptData toyEnv (List.replicate 5000 0)) = none :=
  (old_decrypt_overflows toyEnv toyEnv_wf _).mpr (by rw [encryptData_length, List.length_replicate]; omega)
example : decryptDataChk toyEnv (encryptData toyEnv (List.replicate 5000 0)) = some (some (List.replicate 5000 0)) :=
  long_body_roundtrip_checked toyEnv toyEnv_wf _

/-- small closed instance of the old loop, evaluated: with the counter started at block 255 the second block
    boundary is the overflow -/
example : maskFromOld toyEnv 2 9 (List.replicate 15 0) 255 0 = some (maskFrom toyEnv 2 9 (List.replicate 15 0) 255 0) ∧
    maskFromOld toyEnv 2 9 (List.replicate 16 0) 255 0 = none ∧
    maskFromChk toyEnv 2 9 (List.replicate 17 0) 255 0 = some (maskFrom toyEnv 2 9 (List.replicate 17 0) 255 0) ∧
    (maskFrom toyEnv 2 9 (List.replicate 17 0) 255 0)[16]? = (mask toyEnv (List.replicate 1 0) 2 9)[0]? := by
  decide +kernel

/-! ### `embedded_found` -/

def toyPre : List Char := "peers: ERzuw?1rbzL! (old) ".toList
def toyPost : List Char := " -- ERzuw".toList
def toyJunk : List (List Char) := [[' '], ['-', '-'], [], ['\n'], ['.', ' ', '/']]

theorem toy_hE : ∀ j, (beginMarker toyEnv).length ≤ j → j + (endMarker toyEnv).length < toyBeacon.length →
    (endMarker toyEnv).isPrefixOf (toyBeacon.drop j) = false := by
  rw [toy_begin, toy_end]
  exact bounded_hE _ _ _ (by decide +kernel)

/-- all hypotheses of `embedded_found` hold for the toy beacon inside a text that contains markers itself -/
example : ∃ before after,
    decode toyEnv (toyPre ++ interleave toyBeacon toyJunk ++ toyPost) (some 3) 1002 =
      before ++ normPeers toyPeers ++ after :=
  embedded_found_unbordered toyEnv toyEnv_wf toyPeers 1000 1002 (some 3) (by decide) (by decide) (by decide)
    (by decide +kernel) (by decide) toyBeacon toyBeacon_eq toyPre toyPost toyJunk (by decide) toy_begin_ne
    toy_unbordered toy_hE

example : interleave toyBeacon toyJunk =
    " E--Rz\nu. /wDRPvoXOHri1VECYTSk9Vq2NrqabOphE1BoLssIKbnqgecO1rbzL".toList := by decide +kernel

/-! ### the hypotheses of `embedded_found` cannot be dropped -/

/-- `hz` (the recorded defect): the beacon of `lostPeers` stamped 510, standing alone, is not decoded -/
example : ∃ bt, encode toyEnv lostPeers 510 = some bt ∧ decode toyEnv bt none 510 = [] :=
  ⟨(encode toyEnv lostPeers 510).getD [], by decide +kernel, by decide +kernel⟩

/-- a key like the toy key whose END marker `ri1VE` occurs inside the body text of the toy beacon -/
def bytesE : Bytes :=
  [231, 84, 106, 226, 193, 22, 50, 179, 56, 9, 87, 35, 87, 193, 51, 42, 42, 96, 39, 9, 234, 96, 87, 161, 130, 1, 42, 234,
   176, 161, 90, 124, 136, 28, 170, 9, 71, 29, 74, 167, 145, 203, 141, 187, 21, 231, 236, 56, 210, 47, 105, 118, 214, 253,
   54, 142, 176, 67, 37, 197, 62, 243, 104, 235]
def envE : BeaconEnv :=
  { toyEnv with ks := fun t s i => if t = 1 ∧ s = 0 ∧ i = 0 then bytesE else toyEnv.ks t s i }

theorem envE_wf : EnvWF envE where
  ks_wf := fun t s i => by
    show Bytes.WF (if t = 1 ∧ s = 0 ∧ i = 0 then bytesE else toyEnv.ks t s i) ∧
      (if t = 1 ∧ s = 0 ∧ i = 0 then bytesE else toyEnv.ks t s i).length = 64
    split
    · decide
    · exact toyEnv_wf.ks_wf t s i
  h0_lt := toyEnv_wf.h0_lt

def beaconE : List Char := "ERzuwDRPvoXOHri1VECYTSk9Vq2NrqabOphE1BoLssIKbnqgecOri1VE".toList

/-- `hE` is needed: every other hypothesis of `embedded_found` holds (empty `pre`, `post`, no junk), the beacon is lost -/
example : ¬ ∀ (env : BeaconEnv) (_ : EnvWF env) (peers : List SockAddr) (hour now : Nat) (ttl : Option Nat)
    (_ : ∀ a ∈ peers, sockWF a = true) (_ : (peers.filter isV4).length ≤ 255) (_ : hour < 65536)
    (_ : (encryptData env (plainBody peers hour)).head? ≠ some 0) (_ : ageOk now hour ttl = true)
    (bt : List Char) (_ : encode env peers hour = some bt)
    (pre post : List Char) (js : List (List Char)) (_ : ∀ j ∈ js, ∀ c ∈ j, c.isAlphanum = false)
    (_ : beginMarker env ≠ []) (_ : NoOverlap (sanitize pre) (beginMarker env)),
    ∃ before after, decode env (pre ++ interleave bt js ++ post) ttl now = before ++ normPeers peers ++ after := by
  intro hall
  obtain ⟨before, after, e⟩ := hall envE envE_wf toyPeers 1000 1002 (some 3) (by decide) (by decide) (by decide)
    (by decide +kernel) (by decide) beaconE (by decide +kernel) [] [] [] (by decide) (by decide +kernel)
    (fun j hj => absurd hj (Nat.not_lt_zero _))
  have hd : decode envE ([] ++ interleave beaconE [] ++ []) (some 3) 1002 = [] := by decide +kernel
  rw [hd] at e
  exact not_contains _ _ _ (by decide) e

/-- a key like the toy key whose BEGIN marker `abcda` has a border -/
def bytesB : Bytes :=
  [157, 170, 122, 151, 67, 92, 81, 98, 42, 22, 31, 243, 61, 33, 228, 175, 191, 136, 137, 192, 112, 37, 209, 26, 100, 81,
   131, 188, 64, 117, 219, 43, 55, 1, 57, 79, 223, 176, 40, 66, 235, 140, 182, 4, 146, 189, 205, 7, 4, 183, 48, 151, 239,
   249, 54, 142, 176, 67, 37, 197, 62, 243, 104, 235]
def envB : BeaconEnv :=
  { toyEnv with ks := fun t s i => if t = 0 ∧ s = 0 ∧ i = 0 then bytesB else toyEnv.ks t s i }

theorem envB_wf : EnvWF envB where
  ks_wf := fun t s i => by
    show Bytes.WF (if t = 0 ∧ s = 0 ∧ i = 0 then bytesB else toyEnv.ks t s i) ∧
      (if t = 0 ∧ s = 0 ∧ i = 0 then bytesB else toyEnv.ks t s i).length = 64
    split
    · decide
    · exact toyEnv_wf.ks_wf t s i
  h0_lt := toyEnv_wf.h0_lt

def beaconB : List Char := "abcdaDRPvoXOHri1VECYTSk9Vq2NrqabOphE1BoLssIKbnqgecO1rbzL".toList

theorem envB_hE : ∀ j, (beginMarker envB).length ≤ j → j + (endMarker envB).length < beaconB.length →
    (endMarker envB).isPrefixOf (beaconB.drop j) = false := by
  have e1 : beginMarker envB = "abcda".toList := by decide +kernel
  have e2 : endMarker envB = "1rbzL".toList := by decide +kernel
  rw [e1, e2]
  exact bounded_hE _ _ _ (by decide +kernel)

/-- `hov` is needed: with `pre = "abcd"` a begin marker starts in `pre` and runs into the beacon's own; every other
    hypothesis of `embedded_found` holds, the beacon is lost -/
example : ¬ ∀ (env : BeaconEnv) (_ : EnvWF env) (peers : List SockAddr) (hour now : Nat) (ttl : Option Nat)
    (_ : ∀ a ∈ peers, sockWF a = true) (_ : (peers.filter isV4).length ≤ 255) (_ : hour < 65536)
    (_ : (encryptData env (plainBody peers hour)).head? ≠ some 0) (_ : ageOk now hour ttl = true)
    (bt : List Char) (_ : encode env peers hour = some bt)
    (pre post : List Char) (js : List (List Char)) (_ : ∀ j ∈ js, ∀ c ∈ j, c.isAlphanum = false)
    (_ : beginMarker env ≠ [])
    (_ : ∀ j, (beginMarker env).length ≤ j → j + (endMarker env).length < bt.length →
      (endMarker env).isPrefixOf (bt.drop j) = false),
    ∃ before after, decode env (pre ++ interleave bt js ++ post) ttl now = before ++ normPeers peers ++ after := by
  intro hall
  obtain ⟨before, after, e⟩ := hall envB envB_wf toyPeers 1000 1002 (some 3) (by decide) (by decide) (by decide)
    (by decide +kernel) (by decide) beaconB (by decide +kernel) "abcd".toList [] [] (by decide) (by decide +kernel)
    envB_hE
  have hd : decode envB ("abcd".toList ++ interleave beaconB [] ++ []) (some 3) 1002 = [] := by decide +kernel
  rw [hd] at e
  exact not_contains _ _ _ (by decide) e

/-- … while with `pre = "abc"` (no overlap) the same beacon is found -/
example : decode envB ("abc".toList ++ interleave beaconB [] ++ []) (some 3) 1002 = normPeers toyPeers := by
  decide +kernel

/-! ### `several_beacons` -/

def onev6 : List SockAddr := [.v6 [32, 1, 13, 184, 0, 0, 0, 0, 0, 0, 0, 0, 0, 0, 0, 1] 443]
def beaconV6 : List Char := (encode toyEnv onev6 1001).getD []
theorem beaconV6_eq : encode toyEnv onev6 1001 = some beaconV6 := by decide +kernel

theorem v6_hE : ∀ j, (beginMarker toyEnv).length ≤ j → j + (endMarker toyEnv).length < beaconV6.length →
    (endMarker toyEnv).isPrefixOf (beaconV6.drop j) = false := by
  rw [toy_begin, toy_end]
  exact bounded_hE _ _ _ (by decide +kernel)

/-- all hypotheses of `several_beacons` hold for two toy beacons in one text -/
example : ∃ before between after,
    decode toyEnv (toyPre ++ interleave toyBeacon toyJunk ++ " and ERzuw ".toList ++ interleave beaconV6 [['\n']] ++
      toyPost) (some 3) 1002 = before ++ normPeers toyPeers ++ between ++ normPeers onev6 ++ after :=
  several_beacons_unbordered toyEnv toyEnv_wf toyPeers onev6 1000 1001 1002 (some 3)
    (by decide) (by decide) (by decide) (by decide +kernel) (by decide)
    (by decide) (by decide) (by decide) (by decide +kernel) (by decide)
    toyBeacon beaconV6 toyBeacon_eq beaconV6_eq toyPre _ toyPost toyJunk [['\n']] (by decide) (by decide)
    toy_begin_ne toy_unbordered toy_hE v6_hE

example : decode toyEnv (toyBeacon ++ " and ".toList ++ beaconV6) (some 3) 1002 = normPeers toyPeers ++ onev6 := by
  decide +kernel

/-! ### `other_password_ignored` -/

/-- a second key: another data key stream and another check hash, the same marker and seed hashes as the toy key
    (i.e. the marker collision has already happened) -/
def envF (c k : Nat) : BeaconEnv :=
  { ks := fun t s i => if t = 2 then List.replicate 64 ((7 * t + 3 * s + i + 1 + c) % 256) else toyEnv.ks t s i,
    h0 := fun d => d.foldl (· + ·) k % 256 }

theorem envF_wf (c k : Nat) : EnvWF (envF c k) where
  ks_wf := fun t s i => by
    show Bytes.WF (if t = 2 then List.replicate 64 ((7 * t + 3 * s + i + 1 + c) % 256) else toyEnv.ks t s i) ∧
      (if t = 2 then List.replicate 64 ((7 * t + 3 * s + i + 1 + c) % 256) else toyEnv.ks t s i).length = 64
    split
    · exact ⟨Bytes.wf_replicate 64 _ (Nat.mod_lt _ (by decide)), List.length_replicate⟩
    · exact toyEnv_wf.ks_wf t s i
  h0_lt := fun d => Nat.mod_lt _ (by decide)

def beaconV6' : List Char := (encode toyEnv onev6 1000).getD []
theorem beaconV6'_eq : encode toyEnv onev6 1000 = some beaconV6' := by decide +kernel

theorem v6'_hE : ∀ j, (beginMarker toyEnv).length ≤ j → j + (endMarker toyEnv).length < beaconV6'.length →
    (endMarker toyEnv).isPrefixOf (beaconV6'.drop j) = false := by
  rw [toy_begin, toy_end]
  exact bounded_hE _ _ _ (by decide +kernel)

theorem v6'_hBc : ∀ j, (beginMarker toyEnv).length ≤ j → (beginMarker toyEnv).isPrefixOf (beaconV6'.drop j) = false := by
  rw [toy_begin]
  exact bounded_absent _ _ _ (by decide) (by decide +kernel)

/-- all hypotheses of `other_password_ignored` hold for the key `envF 3 0`: same markers, no seed collision -/
example : decode (envF 3 0) (interleave beaconV6' [[' '], ['\n']]) none 0 = [] :=
  other_password_ignored toyEnv (envF 3 0) toyEnv_wf (envF_wf 3 0) onev6 1000 0 none (by decide) (by decide +kernel)
    beaconV6' beaconV6'_eq _ (by decide) (by decide +kernel) (by decide +kernel) v6'_hE v6'_hBc (by decide +kernel)

/-- the collision is the exact condition: for the key `envF 3 204` it holds, and the foreign beacon is accepted — the
    node obtains three addresses nobody announced -/
example : SeedCollision toyEnv (envF 3 204) (plainBody onev6 1000) := by decide +kernel

example : decode (envF 3 204) (interleave beaconV6' [[' '], ['\n']]) none 0 =
    [.v4 [35, 2, 14, 187] 771, .v4 [3, 3, 3, 3] 771, .v4 [3, 5, 5, 4] 1214] := by
  rw [foreign_clean_decode toyEnv (envF 3 204) toyEnv_wf (envF_wf 3 204) onev6 1000 0 none (by decide)
    (by decide +kernel) beaconV6' beaconV6'_eq _ (by decide) (by decide +kernel) (by decide +kernel) v6'_hE v6'_hBc]
  decide +kernel

/-- a key with other marker hashes: first line of defence -/
def envG : BeaconEnv := { toyEnv with ks := fun t s i => toyEnv.ks (t + 10) s i }
example : beginMarker envG ≠ beginMarker toyEnv ∧ endMarker envG ≠ endMarker toyEnv := by decide +kernel
example : decode envG (toyPre ++ interleave toyBeacon toyJunk ++ toyPost) none 0 = [] :=
  begin_absent_ignored envG _ none 0
    (bounded_absent _ _ 0 (by decide +kernel) (by decide +kernel) · (Nat.zero_le _))

/-! ### the age window -/

/-- the toy beacon (stamped 1000, ttl 3): accepted from 997 to 1003, ignored at 996 and 1004 -/
theorem toy_hBc : ∀ j, (beginMarker toyEnv).length ≤ j → (beginMarker toyEnv).isPrefixOf (toyBeacon.drop j) = false := by
  rw [toy_begin]
  exact bounded_absent _ _ _ (by decide) (by decide +kernel)

example (now : Nat) : decode toyEnv (interleave toyBeacon toyJunk) (some 3) now =
    if ageOk now 1000 (some 3) then normPeers toyPeers else [] :=
  beacon_age toyEnv toyEnv_wf toyPeers 1000 now (some 3) (by decide) (by decide) (by decide) (by decide +kernel)
    toyBeacon toyBeacon_eq toyJunk (by decide) toy_hE toy_hBc

example : ageOk 997 1000 (some 3) = true ∧ ageOk 1003 1000 (some 3) = true ∧ ageOk 996 1000 (some 3) = false ∧
    ageOk 1004 1000 (some 3) = false ∧ ageOk 40000 1000 none = true := by decide

/-- across the wrap: a beacon stamped 65535 is accepted at hour 0 and hour 1 with ttl 2, ignored at hour 2 with ttl 1 -/
example : ∃ bt, encode toyEnv toyPeers 65535 = some bt ∧
    decode toyEnv bt (some 2) 0 = normPeers toyPeers ∧ decode toyEnv bt (some 2) 1 = normPeers toyPeers ∧
    decode toyEnv bt (some 1) 2 = [] ∧ decode toyEnv bt none 30000 = normPeers toyPeers :=
  ⟨(encode toyEnv toyPeers 65535).getD [], by decide +kernel, by decide +kernel, by decide +kernel, by decide +kernel,
    by decide +kernel⟩

end VpnCloud.Proofs.C17More
