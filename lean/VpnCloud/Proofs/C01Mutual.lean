import VpnCloud.Proofs.Lemmas.C01MutualLemmas
/-
  C01, the two-party half — "two nodes become peers exactly when each trusts the other's key".

  System: the two-party system `Sys` / `Step` / `Reach` of `Proofs/C05Agree.lean`, unchanged.  Two handshake objects `a`, `b` with
  ARBITRARY trust sets `a.trusted`, `b.trusted` (nothing in `Init0`, `Step` or `Inv` of `C05Agree` relates them to the keys: `Inv`
  identifies the author of a signed message by the salted node-id hash in it).  Keys that exist: each object signs with its own
  `ownKey` and nothing else is ever signed (`signatures_only_by_parties`); the network is the adversary and may deliver any bytes,
  restricted only by (I1), the ideal-signature side condition of the delivery steps (as in `C05Agree`): what verifies under a key
  the receiver trusts was signed, exactly these bytes, by one of the two objects.
  Both parties may hold the SAME key pair (`a.ownKey = b.ownKey`, the "shared key pairs" scenario): nothing below assumes the keys
  to differ; "each trusts the other's key" then reads "each trusts the shared key" (`shared_key_pair`).  Own messages are not
  recognised by the key but by the salted node-id hash (`Init0.hashNe`: two different nodes; the self check of `handle_init`).

  1. `completion_needs_mutual_trust` (all schedules; `_A`, `_B`), `signatures_only_by_parties`, `shared_key_pair`,
     `ping_answered_needs_trust`, `reply_needs_acceptance`, `no_reply_without_trust` (`_A`: mirror image), `untrusting_side_inert`.
  2. `mutual_trust_completes` (loss-free schedule; `Finds` of `C05Lockstep` from trust + `NoCollision`: `finds_of_trust`),
     `first_match_decides`, `hash_collision_rejects`.
  3. the lock-step schedule as a run of `Sys` (`run1 … run4`, `run_reach`, `run_completes`), `mutual_trust_iff`.
  4. `trusted_ping_is_answered`, `one_sided_trust_is_silent`, `retransmit_until_give_up`.
  Non-vacuity: `Toy` — (i) mutual trust, (ii) one-sided trust incl. the 121 timer ticks, (iii) no trust, a shared key pair, colliding
  salted key hashes; every hypothesis of every theorem is exhibited on one of these instances.
  No hypothesis was added to a statement beyond those named in the task ((I1) as side condition of `Step`, `Init0`, `NoCollision`,
  the non-trust hypotheses of `lockstep_completes`); distinctness of the two keys is NOT needed anywhere.
-/
namespace VpnCloud.Proofs.C01Mutual

open VpnCloud VpnCloud.Init VpnCloud.InitMsg
open VpnCloud.Proofs.InitLemmas VpnCloud.Proofs.C05AgreeLemmas VpnCloud.Proofs.C05Agree VpnCloud.Proofs.C01MutualLemmas
open VpnCloud.Proofs.LockstepLemmas
open VpnCloud.Proofs.C16Init (algosWF msgWF)

/-! ## 1. completion needs mutual trust (all schedules) -/

/-- **completion_needs_mutual_trust** (only-if direction, ALL schedules, arbitrary trust sets): in the two-party system with an
    adversarial network restricted only by ideal signatures (I1), if either handshake object ever reports success then A trusts B's
    public key AND B trusts A's: a node adds a peer only when the trust is mutual.
    (A succeeds only on a pong / peng verified under a key in `a.trusted`; by (I1) one of the two objects signed it, and it was not A
    itself — own messages are refused by the self check — so the key is B's; and B signs a pong / peng only after accepting a message
    under a key in `b.trusted`, which is A's by the same argument.) -/
theorem completion_needs_mutual_trust (P : Params) (s0 s : Sys) (h0 : Init0 s0) (hr : Reach P s0 s)
    (hd : s.doneA ≠ [] ∨ s.doneB ≠ []) :
    s0.b.ownKey ∈ s0.a.trusted ∧ s0.a.ownKey ∈ s0.b.trusted := by
  obtain ⟨_, t⟩ := ti_reach P s0 s h0 hr
  obtain ⟨sa, sb⟩ := static_reach P s0 s hr
  have hm : Mutual s.a s.b := by
    rcases hd with hd | hd
    · exact t.donex hd
    · exact t.doney hd
  obtain ⟨h1, h2⟩ := hm
  rw [sa.2.2.2.2.1, sb.2.2.2.1] at h1
  rw [sb.2.2.2.2.1, sa.2.2.2.1] at h2
  exact ⟨h1, h2⟩

/-- the same for a reported success of A: `(pa, ia) ∈ s.doneA` -/
theorem completion_needs_mutual_trust_A (P : Params) (s0 s : Sys) (h0 : Init0 s0) (hr : Reach P s0 s) (pa : Bytes) (ia : Bool)
    (hA : (pa, ia) ∈ s.doneA) : s0.b.ownKey ∈ s0.a.trusted ∧ s0.a.ownKey ∈ s0.b.trusted :=
  completion_needs_mutual_trust P s0 s h0 hr (Or.inl (List.ne_nil_of_mem hA))

/-- the same for a reported success of B -/
theorem completion_needs_mutual_trust_B (P : Params) (s0 s : Sys) (h0 : Init0 s0) (hr : Reach P s0 s) (pb : Bytes) (ib : Bool)
    (hB : (pb, ib) ∈ s.doneB) : s0.b.ownKey ∈ s0.a.trusted ∧ s0.a.ownKey ∈ s0.b.trusted :=
  completion_needs_mutual_trust P s0 s h0 hr (Or.inr (List.ne_nil_of_mem hB))

/-- **which keys exist**: in the closed two-party system every signature ever made is under the key of A or under the key of B (each
    party holds exactly its own key pair; the adversary holds none and can only replay, cut and reorder) -/
theorem signatures_only_by_parties (P : Params) (s0 s : Sys) (h0 : Init0 s0) (hr : Reach P s0 s) (k r : Bytes)
    (hk : (k, r) ∈ s.sigs) : k = s0.a.ownKey ∨ k = s0.b.ownKey := by
  obtain ⟨_, t⟩ := ti_reach P s0 s h0 hr
  obtain ⟨sa, sb⟩ := static_reach P s0 s hr
  obtain ⟨m, salt, kh, _, _, _, _, h5⟩ := t.key k r hk
  rcases h5 with ⟨_, h, _⟩ | ⟨_, h, _⟩
  · exact Or.inl (by rw [h, sa.2.2.2.1])
  · exact Or.inr (by rw [h, sb.2.2.2.1])

/-- **shared key pairs**: if both parties hold the same key pair, completion at either end implies that each of them trusts that
    (its own) key; nothing else changes — the two nodes are told apart by their salted node-id hashes, not by their keys -/
theorem shared_key_pair (P : Params) (s0 s : Sys) (h0 : Init0 s0) (hr : Reach P s0 s) (hsame : s0.a.ownKey = s0.b.ownKey)
    (hd : s.doneA ≠ [] ∨ s.doneB ≠ []) : s0.a.ownKey ∈ s0.a.trusted ∧ s0.b.ownKey ∈ s0.b.trusted := by
  obtain ⟨h1, h2⟩ := completion_needs_mutual_trust P s0 s h0 hr hd
  exact ⟨hsame ▸ h1, hsame ▸ h2⟩

/-- **ping_answered_needs_trust** ("without any reply"): whenever `handle_init` does not fail — in particular whenever it writes ANY
    handshake datagram `out` in reply to a delivered datagram, or changes its state by a role switch, or completes — the delivered
    window was accepted by `read_from` under the object's own trusted keys: it starts with bytes that verify under a key in `trusted`.
    (The failing outcomes `Outcome.err` / `Outcome.panic` carry no output at all.) -/
theorem ping_answered_needs_trust (env : CryptoEnv) (bodyOf : BodyOf) (ok : Bytes → Bool) (st st' : InitSt) (w : Bytes) (rnd : Rand)
    (out : Bytes) (res : InitResult) (log : SealLog)
    (h : handleInit env bodyOf ok st w rnd = .ok st' (out, res, log)) :
    ∃ m k, readFrom env w st.trusted = .ok (m, k) ∧ k ∈ st.trusted ∧
      ∃ signed sig rest, w = signed ++ [sig.length] ++ sig ++ rest ∧ env.sigVerify k signed sig = true := by
  rw [handleInit_eq] at h
  cases hr : readFrom env w st.trusted with
  | error e => rw [hr] at h; cases h
  | ok mk =>
    obtain ⟨m, k⟩ := mk
    obtain ⟨hk, _, hs⟩ := VpnCloud.Proofs.C01.readFrom_accept_genuine env w st.trusted m k hr
    exact ⟨m, k, rfl, hk, hs⟩

/-- in the system: a delivery adds a datagram to `sent` only if the receiver accepted the delivered window under its trusted keys -/
theorem reply_needs_acceptance (P : Params) (s : Sys) (x : Who) (w : Bytes) (rnd : Rand)
    (hsent : (deliverTo P s x w rnd).sent ≠ s.sent) :
    ∃ m k, readFrom P.env w (s.obj x).trusted = .ok (m, k) ∧ k ∈ (s.obj x).trusted := by
  unfold deliverTo at hsent
  cases h : handleInit P.env P.bodyOf P.ok (s.obj x) w rnd with
  | ok st' r =>
    obtain ⟨out, res, log⟩ := r
    obtain ⟨m, k, h1, h2, _⟩ := ping_answered_needs_trust _ _ _ _ _ _ _ _ _ _ h
    exact ⟨m, k, h1, h2⟩
  | err st' e =>
    rw [h] at hsent
    cases x <;> exact absurd rfl hsent
  | panic =>
    rw [h] at hsent
    exact absurd rfl hsent

/-- `o` is the datagram of some handshake message of object `x` (it carries the salted node-id hash of `x`) -/
def IsMsgOf (x : InitSt) (o : Bytes) : Prop := ∃ m salt kh sig, o = writeTo m salt kh sig ∧ m.hash = x.hash

/-- `o` is the datagram of a ping of object `x` -/
def IsPingOf (x : InitSt) (o : Bytes) : Prop := ∃ e al salt kh sig, o = writeTo (.ping x.hash e al) salt kh sig

/-- if `y` does not trust the key of `x`, everything sent is a message of `x` or a ping of `y` -/
theorem sent_only_pings {bodyOf : BodyOf} {x y : InitSt} {gx gy : Ghost} {dx dy : List (Bytes × Bool)} {sigs : List (Bytes × Bytes)}
    {seals : SealLog} {sent : List Bytes} (h : Inv2 bodyOf x y gx gy dx dy sigs seals) (t : TInv x y dx dy sigs sent)
    (hnt : x.ownKey ∉ y.trusted) : ∀ o ∈ sent, IsMsgOf x o ∨ IsPingOf y o := by
  intro o ho
  rcases t.sent o ho with ⟨m, salt, kh, sig, e, _, _, _, hh, _⟩ | ⟨m, salt, kh, sig, e, hs, hk, hwf, hh, hmem⟩
  · exact Or.inl ⟨m, salt, kh, sig, e, hh⟩
  · obtain ⟨m', salt', kh', e', hs', hk', hwf', hor⟩ := t.key _ _ hmem
    have := signedRegion_inj hwf hwf' hs hk hs' hk' e'
    subst this
    rcases hor with ⟨h1, _, _⟩ | ⟨_, _, h3⟩
    · exact absurd (by rw [← h1, hh]) h.hne
    · cases m with
      | ping hb eb al =>
        have hh' : hb = y.hash := hh
        exact Or.inr ⟨eb, al, salt, kh, sig, by rw [e, hh']⟩
      | pong hb eb al pl => exact absurd (h3 (by show Generated.STAGE_PONG ≠ Generated.STAGE_PING; decide)) hnt
      | peng hb pl => exact absurd (h3 (by show Generated.STAGE_PENG ≠ Generated.STAGE_PING; decide)) hnt

/-- **no_reply_without_trust**: if B does not trust A's key then, whatever the network does, in every reachable state neither end
    has completed, and everything ever sent is a message of A or a PING of B (B's own initiation and its retransmissions): B never
    emits a pong or a peng, i.e. nothing addressed as a reply to A. -/
theorem no_reply_without_trust (P : Params) (s0 s : Sys) (h0 : Init0 s0) (hr : Reach P s0 s) (hnt : s0.a.ownKey ∉ s0.b.trusted) :
    s.doneA = [] ∧ s.doneB = [] ∧ ∀ o ∈ s.sent, IsMsgOf s0.a o ∨ IsPingOf s0.b o := by
  have hnd : ¬ (s.doneA ≠ [] ∨ s.doneB ≠ []) := fun hd => hnt (completion_needs_mutual_trust P s0 s h0 hr hd).2
  refine ⟨Classical.not_not.1 (fun h => hnd (Or.inl h)), Classical.not_not.1 (fun h => hnd (Or.inr h)), ?_⟩
  obtain ⟨⟨ga, gb, h⟩, t⟩ := ti_reach P s0 s h0 hr
  obtain ⟨sa, sb⟩ := static_reach P s0 s hr
  have := sent_only_pings h t (by rw [sa.2.2.2.1, sb.2.2.2.2.1]; exact hnt)
  unfold IsMsgOf IsPingOf at this ⊢
  rw [sa.2.1, sb.2.1] at this
  exact this

/-- the mirror image: if A does not trust B's key, neither end ever completes and everything ever sent is a PING of A or a message
    of B -/
theorem no_reply_without_trust_A (P : Params) (s0 s : Sys) (h0 : Init0 s0) (hr : Reach P s0 s) (hnt : s0.b.ownKey ∉ s0.a.trusted) :
    s.doneA = [] ∧ s.doneB = [] ∧ ∀ o ∈ s.sent, IsPingOf s0.a o ∨ IsMsgOf s0.b o := by
  have hnd : ¬ (s.doneA ≠ [] ∨ s.doneB ≠ []) := fun hd => hnt (completion_needs_mutual_trust P s0 s h0 hr hd).1
  refine ⟨Classical.not_not.1 (fun h => hnd (Or.inl h)), Classical.not_not.1 (fun h => hnd (Or.inr h)), ?_⟩
  obtain ⟨⟨ga, gb, h⟩, t⟩ := ti_reach P s0 s h0 hr
  obtain ⟨sa, sb⟩ := static_reach P s0 s hr
  have := sent_only_pings h.swap t.swap (by rw [sb.2.2.2.1, sa.2.2.2.2.1]; exact hnt)
  unfold IsMsgOf IsPingOf at this ⊢
  rw [sa.2.1, sb.2.1] at this
  exact fun o ho => (this o ho).symm

/-- **untrusting_side_inert**: if A does not trust B's key then, in every reachable state, EVERY window the network delivers to A (under
    (I1)) is refused with an error that leaves A's handshake object exactly as it was and produces no reply: A's object changes only by
    its own `send_ping` and its timer. -/
theorem untrusting_side_inert (P : Params) (s0 s : Sys) (h0 : Init0 s0) (hr : Reach P s0 s) (hnt : s0.b.ownKey ∉ s0.a.trusted)
    (w : Bytes) (rnd : Rand) (hI : I1 P.env s.sigs s.a.trusted w) :
    ∃ e, handleInit P.env P.bodyOf P.ok s.a w rnd = .err s.a e := by
  obtain ⟨_, t⟩ := ti_reach P s0 s h0 hr
  obtain ⟨sa, sb⟩ := static_reach P s0 s hr
  rw [handleInit_eq]
  cases hrd : readFrom P.env w s.a.trusted with
  | error e => exact ⟨e, rfl⟩
  | ok mk =>
    obtain ⟨m, k⟩ := mk
    simp only
    by_cases hc : (s.a.hash = m.hash || checkSaltedNodeIdHash P.env m.hash s.a.nodeId) = true
    · rw [if_pos hc]; exact ⟨_, rfl⟩
    · exfalso
      have hne : s.a.hash ≠ m.hash := by
        intro e; apply hc; simp [e]
      obtain ⟨_, _, htrust, _⟩ := t.key.bridge P.env hI hrd hne
      rw [sa.2.2.2.2.1, sb.2.2.2.1] at htrust
      exact hnt htrust

/-! ## 2. mutual trust completes (loss-free schedule) -/

open VpnCloud.Proofs.C05Lockstep (Finds Hyps HypsS Fresh RandWF EcdhWF SigOk Opens pingMsg pongMsg pengMsg pongMsgS pengMsgS sealLog
  negotiated wire log2 log3 Agreement lockstep_completes)

/-- **the salted-key-hash hypothesis**: among the trusted keys `T` no key other than `k` has the 4-byte salted hash of `k` for this
    salt.  (`read_from` takes the FIRST trusted key whose salted hash matches and verifies the signature under that key only.) -/
def NoCollision (env : CryptoEnv) (T : List Bytes) (k salt : Bytes) : Prop :=
  ∀ tk ∈ T, env.keyHash tk salt = env.keyHash k salt → tk = k

theorem find?_unique {α : Type} (p : α → Bool) (l : List α) (a : α) (ha : a ∈ l) (hp : p a = true)
    (hu : ∀ b ∈ l, p b = true → b = a) : l.find? p = some a := by
  induction l with
  | nil => cases ha
  | cons b t ih =>
    rw [List.find?_cons]
    cases hb : p b with
    | true =>
      simp only
      rw [hu b List.mem_cons_self hb]
    | false =>
      simp only
      rcases List.mem_cons.1 ha with rfl | h
      · rw [hp] at hb; cases hb
      · exact ih h (fun c hc => hu c (List.mem_cons_of_mem _ hc))

/-- the trust hypothesis `Finds` of `C05Lockstep` follows from "the receiver trusts the sender's key" and collision-freeness -/
theorem finds_of_trust (env : CryptoEnv) (receiver sender : InitSt) (r : Rand) (ht : sender.ownKey ∈ receiver.trusted)
    (hc : NoCollision env receiver.trusted sender.ownKey r.salt) : Finds env receiver sender r := by
  unfold Finds
  apply find?_unique _ _ _ ht
  · simp
  · intro b hb hp
    exact hc b hb (by simpa using hp)

/-- and `Finds` implies that the receiver trusts the sender's key -/
theorem finds_trusts (env : CryptoEnv) (receiver sender : InitSt) (r : Rand) (h : Finds env receiver sender r) :
    sender.ownKey ∈ receiver.trusted :=
  List.mem_of_find?_eq_some h

/-- the hypotheses of `C05Lockstep.lockstep_completes` WITHOUT its three trust hypotheses `Finds` (kinds (i), (ii), (iv), (v), (vi) of
    `C05Lockstep`: widths, the three signatures of the run verify, ideal AEAD on the two ciphertexts of the run, two different nodes,
    the negotiation does not fail) -/
structure RunHyps (env : CryptoEnv) (bodyOf : BodyOf) (ok : Bytes → Bool) (a b : InitSt) (r1 r2 r3 : Rand) : Prop where
  freshA : Fresh a
  freshB : Fresh b
  hashA : a.hash.length = 20
  hashB : b.hash.length = 20
  rand1 : RandWF env a r1
  rand2 : RandWF env b r2
  rand3 : RandWF env a r3
  ecdh1 : EcdhWF r1.ecdhPub
  ecdh2 : EcdhWF r2.ecdhPub
  payloadA : a.payload.length < 65536 - 24
  payloadB : b.payload.length < 65536 - 24
  payloadOkA : ok a.payload = true
  payloadOkB : ok b.payload = true
  ct2 : r2.ct.length ≤ b.payload.length + Generated.TAG_LEN
  ct3 : r3.ct.length ≤ a.payload.length + Generated.TAG_LEN
  algosA : algosWF a.algos
  algosB : algosWF b.algos
  nodupA : VpnCloud.Spec.C06.NoDup a.algos
  nodupB : VpnCloud.Spec.C06.NoDup b.algos
  start2 : r2.start < 2 ^ 48
  start3 : r3.start < 2 ^ 48
  sig1 : SigOk env a (pingMsg a r1) r1
  sig2 : SigOk env b (pongMsg a b r2) r2
  sig3 : SigOk env a (pengMsg a b r3) r3
  opens2 : Opens bodyOf (log2 a b r1 r2)
  opens3 : Opens bodyOf (log3 a b r1 r2 r3)
  hashNe : Bytes.beVal a.hash ≠ Bytes.beVal b.hash
  notSelfA : checkSaltedNodeIdHash env b.hash a.nodeId = false
  notSelfB : checkSaltedNodeIdHash env a.hash b.nodeId = false
  nego : ∀ e, selectAlgorithm a.algos b.algos ≠ .error e

theorem RunHyps.toHyps {env : CryptoEnv} {bodyOf : BodyOf} {ok : Bytes → Bool} {a b : InitSt} {r1 r2 r3 : Rand}
    (R : RunHyps env bodyOf ok a b r1 r2 r3) (f1 : Finds env b a r1) (f2 : Finds env a b r2) (f3 : Finds env b a r3) :
    Hyps env bodyOf ok a b r1 r2 r3 :=
  { freshA := R.freshA, freshB := R.freshB, hashA := R.hashA, hashB := R.hashB, rand1 := R.rand1, rand2 := R.rand2, rand3 := R.rand3,
    ecdh1 := R.ecdh1, ecdh2 := R.ecdh2, payloadA := R.payloadA, payloadB := R.payloadB, payloadOkA := R.payloadOkA,
    payloadOkB := R.payloadOkB, ct2 := R.ct2, ct3 := R.ct3, algosA := R.algosA, algosB := R.algosB, nodupA := R.nodupA,
    nodupB := R.nodupB, start2 := R.start2, start3 := R.start3, sig1 := R.sig1, sig2 := R.sig2, sig3 := R.sig3,
    finds1 := f1, finds2 := f2, finds3 := f3, opens2 := R.opens2, opens3 := R.opens3, hashNe := R.hashNe, notSelfA := R.notSelfA,
    notSelfB := R.notSelfB, nego := R.nego }

/-- **mutual_trust_completes** (if direction, loss-free schedule): two fresh objects of two different nodes, each trusting the other's
    key, no trusted key colliding with the sender's key under the salted 4-byte hash for the three salts used (`NoCollision`), and the
    remaining hypotheses of `lockstep_completes` (`RunHyps`): A's ping is answered by B's pong, A completes on it and sends the peng,
    B completes on the peng, and the two ends agree (`C05Lockstep.Agreement`). -/
theorem mutual_trust_completes (env : CryptoEnv) (bodyOf : BodyOf) (ok : Bytes → Bool) (a b : InitSt) (r1 r2 r3 r4 : Rand)
    (R : RunHyps env bodyOf ok a b r1 r2 r3)
    (hab : a.ownKey ∈ b.trusted) (hba : b.ownKey ∈ a.trusted)
    (hc1 : NoCollision env b.trusted a.ownKey r1.salt) (hc2 : NoCollision env a.trusted b.ownKey r2.salt)
    (hc3 : NoCollision env b.trusted a.ownKey r3.salt) :
    ∃ b1 a2 b2 : InitSt,
      handleInit env bodyOf ok b (sendPing env a r1).2 r2 =
        .ok b1 (wire env b (pongMsg a b r2) r2, .continue, log2 a b r1 r2) ∧
      b1.stage = Generated.STAGE_PENG ∧
      handleInit env bodyOf ok (sendPing env a r1).1 (wire env b (pongMsg a b r2) r2) r3 =
        .ok a2 (wire env a (pengMsg a b r3) r3, .success b.payload true, log3 a b r1 r2 r3) ∧
      a2.stage = Generated.WAITING_TO_CLOSE ∧
      handleInit env bodyOf ok b1 (wire env a (pengMsg a b r3) r3) r4 = .ok b2 ([], .success a.payload false, []) ∧
      b2.stage = Generated.CLOSING ∧
      Agreement a b r1 r2 r3 a2 b2 :=
  lockstep_completes env bodyOf ok a b r1 r2 r3 r4
    (R.toHyps (finds_of_trust env b a r1 hab hc1) (finds_of_trust env a b r2 hba hc2) (finds_of_trust env b a r3 hab hc3))

/-- the key that `read_from` finds first under the salted hash decides: if that key verifies no prefix of the window, the window is
    rejected — whatever other trusted keys would verify -/
theorem first_match_decides (env : CryptoEnv) (w : Bytes) (T : List Bytes) (k' : Bytes)
    (hf : T.find? (fun tk => env.keyHash tk (w.take 4) = (w.drop 4).take 4) = some k')
    (hbad : ∀ signed sig rest, w = signed ++ [sig.length] ++ sig ++ rest → env.sigVerify k' signed sig = false) :
    ∃ e, readFrom env w T = .error e := by
  cases h : readFrom env w T with
  | error e => exact ⟨e, rfl⟩
  | ok mk =>
    obtain ⟨m, k⟩ := mk
    obtain ⟨hf', signed, sig, rest, hw, hv⟩ := readFrom_ok_inv env w T m k h
    rw [hf] at hf'
    simp only [Option.some.injEq] at hf'
    subst hf'
    rw [hbad signed sig rest hw] at hv
    cases hv

/-- **hash_collision_rejects**: a genuine message of the trusted key `k` (any signature `sig`, even a valid one) is REJECTED when a
    different trusted key `k'` with the same salted 4-byte hash stands earlier in the list of trusted keys and does not verify the
    datagram: `read_from` tries only the first match.  This is why `NoCollision` is a hypothesis of `mutual_trust_completes`. -/
theorem hash_collision_rejects (env : CryptoEnv) (m : InitMsg) (salt sig tail k k' : Bytes) (T : List Bytes)
    (hsalt : salt.length = 4) (hkh : (env.keyHash k salt).length = 4)
    (hfind : T.find? (fun tk => env.keyHash tk salt = env.keyHash k salt) = some k')
    (hbad : ∀ signed sg rest, writeTo m salt (env.keyHash k salt) sig ++ tail = signed ++ [sg.length] ++ sg ++ rest →
      env.sigVerify k' signed sg = false) :
    ∃ e, readFrom env (writeTo m salt (env.keyHash k salt) sig ++ tail) T = .error e := by
  have e0 : ∃ rest, writeTo m salt (env.keyHash k salt) sig ++ tail = salt ++ (env.keyHash k salt ++ rest) := by
    unfold writeTo
    rw [VpnCloud.Proofs.InitMsgLemmas.signedRegion_eq]
    refine ⟨VpnCloud.Proofs.InitMsgLemmas.partsOf m ++ ([Generated.PART_END] ++ ([sig.length % 256] ++ (sig ++ tail))), ?_⟩
    simp only [List.append_assoc]
  obtain ⟨rest, e0⟩ := e0
  apply first_match_decides env _ T k' _ hbad
  rw [e0, List.take_left' hsalt, List.drop_left' hsalt, List.take_left' hkh]
  exact hfind

/-! ## 3. the loss-free lock-step schedule in the two-party system -/

/-- the datagram sent last (the empty datagram if nothing was sent yet; `read_from` rejects it) -/
def lastSent (s : Sys) : Bytes := s.sent.getLast?.getD []

/-- the loss-free lock-step schedule: A initiates; then three times the network delivers the datagram sent last to the other party
    (to B, to A, to B) -/
def run1 (P : Params) (s0 : Sys) (r1 : Rand) : Sys := pingBy P s0 .A r1
def run2 (P : Params) (s0 : Sys) (r1 r2 : Rand) : Sys := deliverTo P (run1 P s0 r1) .B (lastSent (run1 P s0 r1)) r2
def run3 (P : Params) (s0 : Sys) (r1 r2 r3 : Rand) : Sys := deliverTo P (run2 P s0 r1 r2) .A (lastSent (run2 P s0 r1 r2)) r3
def run4 (P : Params) (s0 : Sys) (r1 r2 r3 r4 : Rand) : Sys :=
  deliverTo P (run3 P s0 r1 r2 r3) .B (lastSent (run3 P s0 r1 r2 r3)) r4

/-- the ideal hypotheses on the lock-step run: the side conditions of the four steps in `C05Agree.Step` — (I1), ideal signatures, for
    the three delivered windows, and (I3') `RandOK` for the random parts -/
structure RunIdeal (P : Params) (s0 : Sys) (r1 r2 r3 r4 : Rand) : Prop where
  rnd1 : RandOK P.env s0.a r1
  rnd2 : RandOK P.env (run1 P s0 r1).b r2
  sig2 : I1 P.env (run1 P s0 r1).sigs (run1 P s0 r1).b.trusted (lastSent (run1 P s0 r1))
  rnd3 : RandOK P.env (run2 P s0 r1 r2).a r3
  sig3 : I1 P.env (run2 P s0 r1 r2).sigs (run2 P s0 r1 r2).a.trusted (lastSent (run2 P s0 r1 r2))
  rnd4 : RandOK P.env (run3 P s0 r1 r2 r3).b r4
  sig4 : I1 P.env (run3 P s0 r1 r2 r3).sigs (run3 P s0 r1 r2 r3).b.trusted (lastSent (run3 P s0 r1 r2 r3))

/-- the lock-step run is a run of the two-party system -/
theorem run_reach (P : Params) (s0 : Sys) (r1 r2 r3 r4 : Rand) (h0 : Init0 s0) (I : RunIdeal P s0 r1 r2 r3 r4) :
    Reach P s0 (run4 P s0 r1 r2 r3 r4) :=
  reach_deliver (reach_deliver (reach_deliver (reach_ping .refl .A r1 h0.a.stage I.rnd1) .B _ r2 I.sig2 I.rnd2) .A _ r3 I.sig3 I.rnd3)
    .B _ r4 I.sig4 I.rnd4

/-- the parts of a system state that the lock-step argument follows -/
structure View (s : Sys) (a b : InitSt) (snt : List Bytes) (dA dB : List (Bytes × Bool)) : Prop where
  a : s.a = a
  b : s.b = b
  sent : s.sent = snt
  doneA : s.doneA = dA
  doneB : s.doneB = dB

theorem view_deliverB {P : Params} {s : Sys} {a b : InitSt} {snt : List Bytes} {dA dB : List (Bytes × Bool)} {w : Bytes} {rnd : Rand}
    {b' : InitSt} {out : Bytes} {res : InitResult} {log : SealLog} (hv : View s a b snt dA dB)
    (h : handleInit P.env P.bodyOf P.ok b w rnd = .ok b' (out, res, log)) :
    View (deliverTo P s .B w rnd) a b' (if out = [] then snt else snt ++ [out]) dA (doneOf res ++ dB) := by
  have hb : s.obj .B = b := hv.b
  unfold deliverTo
  rw [hb, h]
  exact ⟨hv.a, rfl, by show (if out = [] then s.sent else s.sent ++ [out]) = _; rw [hv.sent], hv.doneA,
    by show doneOf res ++ s.doneB = _; rw [hv.doneB]⟩

theorem view_deliverA {P : Params} {s : Sys} {a b : InitSt} {snt : List Bytes} {dA dB : List (Bytes × Bool)} {w : Bytes} {rnd : Rand}
    {a' : InitSt} {out : Bytes} {res : InitResult} {log : SealLog} (hv : View s a b snt dA dB)
    (h : handleInit P.env P.bodyOf P.ok a w rnd = .ok a' (out, res, log)) :
    View (deliverTo P s .A w rnd) a' b (if out = [] then snt else snt ++ [out]) (doneOf res ++ dA) dB := by
  have ha : s.obj .A = a := hv.a
  unfold deliverTo
  rw [ha, h]
  exact ⟨rfl, hv.b, by show (if out = [] then s.sent else s.sent ++ [out]) = _; rw [hv.sent],
    by show doneOf res ++ s.doneA = _; rw [hv.doneA], hv.doneB⟩

theorem wire_ne_nil (env : CryptoEnv) (st : InitSt) (m : InitMsg) (r : Rand) : wire env st m r ≠ [] := by
  intro h
  have := congrArg List.length h
  simp [wire, writeTo] at this

theorem lastSent_of {s : Sys} {l : List Bytes} {o : Bytes} (h : s.sent = l ++ [o]) : lastSent s = o := by
  unfold lastSent
  rw [h, List.getLast?_concat]
  rfl

theorem deliverTo_sent (P : Params) (s : Sys) (x : Who) (w : Bytes) (rnd : Rand) :
    (deliverTo P s x w rnd).sent = s.sent ∨ ∃ o, (deliverTo P s x w rnd).sent = s.sent ++ [o] := by
  unfold deliverTo
  cases handleInit P.env P.bodyOf P.ok (s.obj x) w rnd with
  | ok st' r =>
    obtain ⟨out, res, log⟩ := r
    by_cases ho : out = []
    · left; cases x <;> exact if_pos ho
    · right; exact ⟨out, by cases x <;> exact if_neg ho⟩
  | err st' e => left; cases x <;> rfl
  | panic => exact Or.inl rfl

theorem lastSent_mem {s : Sys} (h : s.sent ≠ []) : lastSent s ∈ s.sent := by
  unfold lastSent
  cases hl : s.sent.getLast? with
  | none => exact absurd (List.getLast?_eq_none_iff.1 hl) h
  | some o => exact List.mem_of_getLast? hl

/-- the default of `lastSent` (the empty datagram) is never used on the lock-step schedule: each of the three deliveries hands over a
    datagram that was really sent (A's ping is not empty, and `sent` never shrinks) -/
theorem lockstep_delivers_sent (P : Params) (s0 : Sys) (r1 r2 r3 : Rand) :
    lastSent (run1 P s0 r1) ∈ (run1 P s0 r1).sent ∧ lastSent (run2 P s0 r1 r2) ∈ (run2 P s0 r1 r2).sent ∧
    lastSent (run3 P s0 r1 r2 r3) ∈ (run3 P s0 r1 r2 r3).sent := by
  have h1 : (run1 P s0 r1).sent ≠ [] := by
    show (if (sendPing P.env s0.a r1).2 = [] then s0.sent else s0.sent ++ [(sendPing P.env s0.a r1).2]) ≠ []
    rw [show (sendPing P.env s0.a r1).2 = wire P.env s0.a (pingMsg s0.a r1) r1 from rfl, if_neg (wire_ne_nil _ _ _ _)]
    simp
  have grow : ∀ (s : Sys) (x : Who) (w : Bytes) (rnd : Rand), s.sent ≠ [] → (deliverTo P s x w rnd).sent ≠ [] := by
    intro s x w rnd hs
    rcases deliverTo_sent P s x w rnd with h | ⟨o, h⟩
    · rw [h]; exact hs
    · rw [h]; simp
  have h2 : (run2 P s0 r1 r2).sent ≠ [] := grow _ _ _ _ h1
  have h3 : (run3 P s0 r1 r2 r3).sent ≠ [] := grow _ _ _ _ h2
  exact ⟨lastSent_mem h1, lastSent_mem h2, lastSent_mem h3⟩

/-- on the lock-step schedule, with mutual trust, both ends complete -/
theorem run_completes (P : Params) (s0 : Sys) (r1 r2 r3 r4 : Rand) (h0 : Init0 s0)
    (R : RunHyps P.env P.bodyOf P.ok s0.a s0.b r1 r2 r3)
    (hab : s0.a.ownKey ∈ s0.b.trusted) (hba : s0.b.ownKey ∈ s0.a.trusted)
    (hc1 : NoCollision P.env s0.b.trusted s0.a.ownKey r1.salt) (hc2 : NoCollision P.env s0.a.trusted s0.b.ownKey r2.salt)
    (hc3 : NoCollision P.env s0.b.trusted s0.a.ownKey r3.salt) :
    (run4 P s0 r1 r2 r3 r4).doneA = [(s0.b.payload, true)] ∧ (run4 P s0 r1 r2 r3 r4).doneB = [(s0.a.payload, false)] ∧
    (run4 P s0 r1 r2 r3 r4).sent = [wire P.env s0.a (pingMsg s0.a r1) r1, wire P.env s0.b (pongMsg s0.a s0.b r2) r2,
      wire P.env s0.a (pengMsg s0.a s0.b r3) r3] := by
  obtain ⟨b1, a2, b2, h1, _, h2, _, h3, _, _⟩ :=
    mutual_trust_completes P.env P.bodyOf P.ok s0.a s0.b r1 r2 r3 r4 R hab hba hc1 hc2 hc3
  have hping : (sendPing P.env s0.a r1).2 = wire P.env s0.a (pingMsg s0.a r1) r1 := rfl
  rw [hping] at h1
  have v1 : View (run1 P s0 r1) (sendPing P.env s0.a r1).1 s0.b ([] ++ [wire P.env s0.a (pingMsg s0.a r1) r1]) [] [] := by
    refine ⟨rfl, rfl, ?_, h0.doneA, h0.doneB⟩
    show (if (sendPing P.env s0.a r1).2 = [] then s0.sent else s0.sent ++ [(sendPing P.env s0.a r1).2]) = _
    rw [hping, if_neg (wire_ne_nil _ _ _ _), h0.sent]
  have v2 : View (run2 P s0 r1 r2) _ _ _ _ _ :=
    view_deliverB (P := P) (w := lastSent (run1 P s0 r1)) (rnd := r2) v1 (by rw [lastSent_of v1.sent]; exact h1)
  rw [if_neg (wire_ne_nil _ _ _ _)] at v2
  have v3 : View (run3 P s0 r1 r2 r3) _ _ _ _ _ :=
    view_deliverA (P := P) (w := lastSent (run2 P s0 r1 r2)) (rnd := r3) v2 (by rw [lastSent_of v2.sent]; exact h2)
  rw [if_neg (wire_ne_nil _ _ _ _)] at v3
  have v4 : View (run4 P s0 r1 r2 r3 r4) _ _ _ _ _ :=
    view_deliverB (P := P) (w := lastSent (run3 P s0 r1 r2 r3)) (rnd := r4) v3 (by rw [lastSent_of v3.sent]; exact h3)
  exact ⟨v4.doneA, v4.doneB, v4.sent⟩

/-- **mutual_trust_iff**: two fresh handshake objects of two different nodes with ARBITRARY trust sets and keys (equal or not).
    (1) On the loss-free lock-step schedule — under the hypotheses of `lockstep_completes` other than trust (`RunHyps`), collision-freeness
    of the salted key hashes for the three salts (`NoCollision`) and the ideal hypotheses on the run (`RunIdeal`) — the handshake
    completes at both ends IF AND ONLY IF each end trusts the other's public key.
    (2) For ANY schedule of the adversarial network (restricted only by ideal signatures), completion at either end implies mutual
    trust.  So two nodes become peers exactly when each trusts the other's key. -/
theorem mutual_trust_iff (P : Params) (s0 : Sys) (r1 r2 r3 r4 : Rand) (h0 : Init0 s0)
    (R : RunHyps P.env P.bodyOf P.ok s0.a s0.b r1 r2 r3)
    (hc1 : NoCollision P.env s0.b.trusted s0.a.ownKey r1.salt) (hc2 : NoCollision P.env s0.a.trusted s0.b.ownKey r2.salt)
    (hc3 : NoCollision P.env s0.b.trusted s0.a.ownKey r3.salt) (I : RunIdeal P s0 r1 r2 r3 r4) :
    (((run4 P s0 r1 r2 r3 r4).doneA ≠ [] ∧ (run4 P s0 r1 r2 r3 r4).doneB ≠ []) ↔
      (s0.b.ownKey ∈ s0.a.trusted ∧ s0.a.ownKey ∈ s0.b.trusted)) ∧
    (∀ s, Reach P s0 s → (s.doneA ≠ [] ∨ s.doneB ≠ []) → s0.b.ownKey ∈ s0.a.trusted ∧ s0.a.ownKey ∈ s0.b.trusted) := by
  refine ⟨⟨?_, ?_⟩, fun s hr hd => completion_needs_mutual_trust P s0 s h0 hr hd⟩
  · intro hd
    exact completion_needs_mutual_trust P s0 _ h0 (run_reach P s0 r1 r2 r3 r4 h0 I) (Or.inl hd.1)
  · intro ht
    obtain ⟨h1, h2, _⟩ := run_completes P s0 r1 r2 r3 r4 h0 R ht.2 ht.1 hc1 hc2 hc3
    rw [h1, h2]
    exact ⟨by simp, by simp⟩

/-! ## 4. one-sided trust -/

/-- **a trusted ping is answered** ("B must answer — it cannot know"): a fresh object `b` that trusts the key of `a` (and finds it under
    the salted key hash) answers the genuine ping of `a` with a pong and moves to stage PENG — whatever `a.trusted` is: the trust set of
    the initiator is no input of the responder's `handle_init`. -/
theorem trusted_ping_is_answered (env : CryptoEnv) (bodyOf : BodyOf) (ok : Bytes → Bool) (a b : InitSt) (r1 r2 : Rand)
    (hstage : b.stage = Generated.STAGE_PING) (hashA : a.hash.length = 20) (rand1 : RandWF env a r1) (ecdh1 : EcdhWF r1.ecdhPub)
    (algosA : algosWF a.algos) (sig1 : SigOk env a (pingMsg a r1) r1) (hashNe : Bytes.beVal a.hash ≠ Bytes.beVal b.hash)
    (notSelfB : checkSaltedNodeIdHash env a.hash b.nodeId = false) (nego : ∀ e, selectAlgorithm b.algos a.algos ≠ .error e)
    (hab : a.ownKey ∈ b.trusted) (hc1 : NoCollision env b.trusted a.ownKey r1.salt) :
    ∃ b1 pl log, handleInit env bodyOf ok b (sendPing env a r1).2 r2 =
        .ok b1 (writeTo (.pong b.hash r2.ecdhPub b.algos pl) r2.salt (env.keyHash b.ownKey r2.salt) r2.sig, .continue, log) ∧
      b1.stage = Generated.STAGE_PENG := by
  have hr : readFrom env (wire env a (pingMsg a r1) r1) b.trusted = .ok (pingMsg a r1, a.ownKey) := by
    have := VpnCloud.Proofs.C16Init.initmsg_roundtrip env (pingMsg a r1) r1.salt r1.sig [] a.ownKey b.trusted
      ⟨hashA, by rw [ecdh1.1]; decide, algosA⟩ rand1.salt rand1.keyHash rand1.sig (finds_of_trust env b a r1 hab hc1) sig1
    rwa [List.append_nil] at this
  have hne : b.hash ≠ (pingMsg a r1).hash := fun e => hash_ne_of_beVal hashNe e.symm
  rw [show (sendPing env a r1).2 = wire env a (pingMsg a r1) r1 from rfl,
    handleInit_accept env bodyOf ok b _ r2 _ _ hr hne notSelfB (by rw [hstage]; rfl)]
  cases hsel : selectAlgorithm b.algos a.algos with
  | error e => exact absurd hsel (nego e)
  | ok sel =>
    rw [pingMsg, VpnCloud.Proofs.C05Lockstep.handleMsg_ping_ok env bodyOf ok b _ _ _ r2 sel hsel, sendMessage_pong]
    cases sel with
    | none => exact ⟨_, _, _, rfl, rfl⟩
    | some c => exact ⟨_, _, _, rfl, rfl⟩

/-- **one_sided_trust_is_silent** (all schedules): if A does not trust B's key — in particular when B does trust A's, so that B
    answers A's ping with a pong: it cannot know — then in every reachable state neither end has completed, everything sent is a
    PING of A (its initiation and the retransmissions) or a message of B, and every window delivered to A (B's pong, its
    retransmissions, anything else) is refused with an error, leaving A's object unchanged and without reply. -/
theorem one_sided_trust_is_silent (P : Params) (s0 s : Sys) (h0 : Init0 s0) (hr : Reach P s0 s) (hba : s0.b.ownKey ∉ s0.a.trusted) :
    s.doneA = [] ∧ s.doneB = [] ∧ (∀ o ∈ s.sent, IsPingOf s0.a o ∨ IsMsgOf s0.b o) ∧
    ∀ w rnd, I1 P.env s.sigs s.a.trusted w → ∃ e, handleInit P.env P.bodyOf P.ok s.a w rnd = .err s.a e := by
  obtain ⟨h1, h2, h3⟩ := no_reply_without_trust_A P s0 s h0 hr hba
  exact ⟨h1, h2, h3, fun w rnd hI => untrusting_side_inert P s0 s h0 hr hba w rnd hI⟩

/-- `n` timer ticks of a handshake object -/
def tickN : Nat → InitSt → InitSt
  | 0, st => st
  | n + 1, st => tickN n (everySecond st).1

theorem everySecond_retry (st : InitSt) (h1 : st.stage ≠ Generated.WAITING_TO_CLOSE) (h2 : st.stage ≠ Generated.CLOSING)
    (h3 : st.retries < Generated.MAX_FAILED_RETRIES) :
    everySecond st = ({ st with retries := st.retries + 1 }, .ok (st.last.getD [])) := by
  unfold everySecond
  rw [if_neg h1, if_neg h2, if_pos h3]

theorem everySecond_give_up (st : InitSt) (h1 : st.stage ≠ Generated.WAITING_TO_CLOSE) (h2 : st.stage ≠ Generated.CLOSING)
    (h3 : ¬ st.retries < Generated.MAX_FAILED_RETRIES) :
    everySecond st = ({ st with stage := Generated.CLOSING }, .error .cryptoInitFatal) := by
  unfold everySecond
  rw [if_neg h1, if_neg h2, if_neg h3]

theorem tickN_retries (n : Nat) : ∀ (st : InitSt), st.stage ≠ Generated.WAITING_TO_CLOSE → st.stage ≠ Generated.CLOSING →
    st.retries + n ≤ Generated.MAX_FAILED_RETRIES → tickN n st = { st with retries := st.retries + n } := by
  induction n with
  | zero => intro st _ _ _; rfl
  | succ n ih =>
    intro st h1 h2 h3
    have e := everySecond_retry st h1 h2 (by omega)
    have e' : tickN (n + 1) st = tickN n { st with retries := st.retries + 1 } := by
      show tickN n (everySecond st).1 = _
      rw [e]
    rw [e', ih { st with retries := st.retries + 1 } h1 h2 (by show st.retries + 1 + n ≤ _; omega)]
    show ({ st with retries := st.retries + 1 + n } : InitSt) = { st with retries := st.retries + (n + 1) }
    rw [Nat.add_assoc, Nat.add_comm 1 n]

/-- **retransmit_until_give_up**: a handshake object that waits for an answer (any stage but WAITING_TO_CLOSE / CLOSING; e.g. the
    initiator after its ping, stage PONG) and gets none that it accepts sends its last message again at each of the next
    `MAX_FAILED_RETRIES` = 120 timer ticks, and at the tick after that gives the attempt up: fatal error, stage CLOSING, nothing sent. -/
theorem retransmit_until_give_up (st : InitSt) (l : Bytes) (h1 : st.stage ≠ Generated.WAITING_TO_CLOSE)
    (h2 : st.stage ≠ Generated.CLOSING) (hr : st.retries = 0) (hl : st.last = some l) :
    (∀ i, i < Generated.MAX_FAILED_RETRIES → everySecond (tickN i st) = ({ st with retries := i + 1 }, .ok l)) ∧
    everySecond (tickN Generated.MAX_FAILED_RETRIES st) =
      ({ st with retries := Generated.MAX_FAILED_RETRIES, stage := Generated.CLOSING }, .error .cryptoInitFatal) := by
  refine ⟨?_, ?_⟩
  · intro i hi
    have e1 := tickN_retries i st h1 h2 (by omega)
    have e2 := everySecond_retry { st with retries := st.retries + i } h1 h2 (by show st.retries + i < _; omega)
    rw [e1, e2]
    show (({ st with retries := st.retries + i + 1 } : InitSt), (Except.ok (st.last.getD []) : Except InitErr Bytes)) = _
    rw [hr, hl, Nat.zero_add]
    rfl
  · have e1 := tickN_retries Generated.MAX_FAILED_RETRIES st h1 h2 (by omega)
    have e2 := everySecond_give_up { st with retries := st.retries + Generated.MAX_FAILED_RETRIES } h1 h2
      (by show ¬ st.retries + Generated.MAX_FAILED_RETRIES < _; omega)
    rw [e1, e2]
    show (({ st with retries := st.retries + Generated.MAX_FAILED_RETRIES, stage := Generated.CLOSING } : InitSt),
      (Except.error InitErr.cryptoInitFatal : Except InitErr Bytes)) = _
    rw [hr, Nat.zero_add]

/-- a timer tick at party `x` in the two-party system -/
def tickAt (s : Sys) (x : Who) : Sys :=
  s.upd x (everySecond (s.obj x)).1 (match (everySecond (s.obj x)).2 with | .ok o => o | .error _ => []) [] [] []

/-- `n` timer ticks at A -/
def ticksA : Nat → Sys → Sys
  | 0, s => s
  | n + 1, s => ticksA n (tickAt s .A)

theorem reach_ticksA {P : Params} {s0 : Sys} (n : Nat) : ∀ {s : Sys}, Reach P s0 s → Reach P s0 (ticksA n s) := by
  induction n with
  | zero => intro s hr; exact hr
  | succ n ih => intro s hr; exact ih (.step hr (.tick s .A))

/-! ## non-vacuity: toy runs (evaluated by `decide`) -/

namespace Toy
open VpnCloud.Proofs.C05Agree.Toy

theorem nego_of_ok {a b : Algos} {s : Option Cipher} (h : selectAlgorithm a b = .ok s) : ∀ e, selectAlgorithm a b ≠ .error e := by
  intro e h'
  rw [h] at h'
  cases h'

/-- all hypotheses `RunHyps` for a toy instance, by evaluation -/
macro "toy_run_hyps" : tactic => `(tactic| exact
  { freshA := ⟨rfl, rfl, rfl, rfl, rfl⟩, freshB := ⟨rfl, rfl, rfl, rfl, rfl⟩, hashA := by decide, hashB := by decide,
    rand1 := ⟨by decide, by decide, by decide +kernel⟩, rand2 := ⟨by decide, by decide, by decide +kernel⟩,
    rand3 := ⟨by decide, by decide, by decide +kernel⟩, ecdh1 := ⟨by decide, by decide⟩, ecdh2 := ⟨by decide, by decide⟩,
    payloadA := by decide, payloadB := by decide, payloadOkA := by decide, payloadOkB := by decide, ct2 := by decide, ct3 := by decide,
    algosA := by unfold VpnCloud.Proofs.C16Init.algosWF; decide, algosB := by unfold VpnCloud.Proofs.C16Init.algosWF; decide,
    nodupA := by unfold VpnCloud.Spec.C06.NoDup; decide, nodupB := by unfold VpnCloud.Spec.C06.NoDup; decide,
    start2 := by decide, start3 := by decide,
    sig1 := by unfold VpnCloud.Proofs.C05Lockstep.SigOk; decide +kernel,
    sig2 := by unfold VpnCloud.Proofs.C05Lockstep.SigOk; decide +kernel,
    sig3 := by unfold VpnCloud.Proofs.C05Lockstep.SigOk; decide +kernel,
    opens2 := by unfold VpnCloud.Proofs.C05Lockstep.Opens; decide +kernel,
    opens3 := by unfold VpnCloud.Proofs.C05Lockstep.Opens; decide +kernel,
    hashNe := by decide +kernel, notSelfA := by decide, notSelfB := by decide,
    nego := nego_of_ok (s := some Cipher.chacha) rfl })

/-- the ideal hypotheses on the lock-step run of a toy instance (signature verification of `Toy.env` accepts exactly the three
    signatures of the loss-free run, list `L`), by evaluation -/
macro "toy_run_ideal" : tactic => `(tactic| exact
  { rnd1 := randOK _ _ (by decide) (by decide +kernel) (by decide) (by decide) (by decide),
    rnd2 := randOK _ _ (by decide) (by decide +kernel) (by decide) (by decide) (by decide),
    sig2 := toy_I1 env L (fun _ _ _ => rfl) _ _ _ (by decide +kernel),
    rnd3 := randOK _ _ (by decide) (by decide +kernel) (by decide) (by decide) (by decide),
    sig3 := toy_I1 env L (fun _ _ _ => rfl) _ _ _ (by decide +kernel),
    rnd4 := randOK _ _ (by decide) (by decide +kernel) (by decide) (by decide) (by decide),
    sig4 := toy_I1 env L (fun _ _ _ => rfl) _ _ _ (by decide +kernel) })

/-! ### (i) mutual trust: the run of `C05Agree.Toy` (`Toy.both_completed`) -/

theorem trust_mutual : s0.b.ownKey ∈ s0.a.trusted ∧ s0.a.ownKey ∈ s0.b.trusted := by decide

theorem hyps_mutual : RunHyps P.env P.bodyOf P.ok s0.a s0.b R1 R2 R3 := by toy_run_hyps

theorem ideal_mutual : RunIdeal P s0 R1 R2 R3 R4 := by toy_run_ideal

theorem nocoll_mutual : NoCollision P.env s0.b.trusted s0.a.ownKey R1.salt ∧ NoCollision P.env s0.a.trusted s0.b.ownKey R2.salt ∧
    NoCollision P.env s0.b.trusted s0.a.ownKey R3.salt := by
  unfold NoCollision; decide

/-- all hypotheses of `mutual_trust_iff` hold for the toy instance with mutual trust, and its lock-step run is the run of
    `C05Agree.Toy.both_completed`: both ends complete -/
theorem mutual_completes : (run4 P s0 R1 R2 R3 R4).doneA = [([20], true)] ∧ (run4 P s0 R1 R2 R3 R4).doneB = [([10, 11], false)] ∧
    (run4 P s0 R1 R2 R3 R4).sent = [w1, w2, w3] ∧ (run4 P s0 R1 R2 R3 R4).sent = s4.sent :=
  ⟨by decide +kernel, by decide +kernel, by decide +kernel, by decide +kernel⟩

example : (run4 P s0 R1 R2 R3 R4).doneA ≠ [] ∧ (run4 P s0 R1 R2 R3 R4).doneB ≠ [] :=
  (mutual_trust_iff P s0 R1 R2 R3 R4 init0 hyps_mutual nocoll_mutual.1 nocoll_mutual.2.1 nocoll_mutual.2.2 ideal_mutual).1.2 trust_mutual

/-- `completion_needs_mutual_trust` applies to the reachable state `s4` of `C05Agree.Toy.both_completed`, where both ends have completed -/
example : s0.b.ownKey ∈ s0.a.trusted ∧ s0.a.ownKey ∈ s0.b.trusted :=
  completion_needs_mutual_trust P s0 s4 init0 reach4 (Or.inl (by rw [both_completed.2.2.2.1]; simp))

/-! ### (ii) one-sided trust: B trusts A's key, A does not trust B's -/

/-- A without B's key `[9, 9, 9, 9]` among its trusted keys -/
def aU : InitSt := { a0 with trusted := [[8, 8, 8, 8]] }
def sU : Sys := { a := aU, b := b0 }

theorem one_sided : sU.a.ownKey ∈ sU.b.trusted ∧ sU.b.ownKey ∉ sU.a.trusted := by decide

theorem init0U : Init0 sU where
  a := ⟨rfl, rfl, rfl, rfl, by decide, by unfold algosWF; decide, by decide⟩
  b := ⟨rfl, rfl, rfl, rfl, by decide, by unfold algosWF; decide, by decide⟩
  hashNe := by decide +kernel
  sent := rfl
  sigs := rfl
  seals := rfl
  doneA := rfl
  doneB := rfl

theorem hyps_one_sided : RunHyps P.env P.bodyOf P.ok sU.a sU.b R1 R2 R3 := by toy_run_hyps

theorem ideal_one_sided : RunIdeal P sU R1 R2 R3 R4 := by toy_run_ideal

theorem nocoll_one_sided : NoCollision P.env sU.b.trusted sU.a.ownKey R1.salt ∧ NoCollision P.env sU.a.trusted sU.b.ownKey R2.salt ∧
    NoCollision P.env sU.b.trusted sU.a.ownKey R3.salt := by
  unfold NoCollision; decide

/-- the state after the lock-step schedule, and then `n` timer ticks at A -/
def uN (n : Nat) : Sys := ticksA n (run4 P sU R1 R2 R3 R4)

theorem reachU (n : Nat) : Reach P sU (uN n) := reach_ticksA n (run_reach P sU R1 R2 R3 R4 init0U ideal_one_sided)

/-- **the concrete run with one-sided trust**: A's ping `w1` is answered by B with the pong `w2` (B reaches stage PENG);
    `read_from` at A rejects the pong (`Error::Crypto`: no trusted key with that salted hash), so by `handleInit_reject_pure` A's object
    is unchanged and nothing is sent; the pong delivered again (to B) changes nothing either; then A retransmits its ping at each of
    120 timer ticks and gives up at the 121st (stage CLOSING, nothing sent); nobody ever completes. -/
theorem one_sided_run :
    (run2 P sU R1 R2).sent = [w1, w2] ∧ (run2 P sU R1 R2).b.stage = Generated.STAGE_PENG ∧
    readFrom P.env w2 (run2 P sU R1 R2).a.trusted = .error .crypto ∧
    (run3 P sU R1 R2 R3).sent = [w1, w2] ∧ (run3 P sU R1 R2 R3).a.stage = Generated.STAGE_PONG ∧
    (run3 P sU R1 R2 R3).a.last = some w1 ∧ (run3 P sU R1 R2 R3).a.retries = 0 ∧
    (run4 P sU R1 R2 R3 R4).sent = [w1, w2] ∧ (run4 P sU R1 R2 R3 R4).doneA = [] ∧ (run4 P sU R1 R2 R3 R4).doneB = [] ∧
    (uN 120).sent = [w1, w2] ++ List.replicate 120 w1 ∧ (uN 120).a.stage = Generated.STAGE_PONG ∧
    (uN 121).sent = [w1, w2] ++ List.replicate 120 w1 ∧ (uN 121).a.stage = Generated.CLOSING ∧
    (uN 121).doneA = [] ∧ (uN 121).doneB = [] :=
  ⟨by decide +kernel, by decide +kernel, by decide +kernel, by decide +kernel, by decide +kernel, by decide +kernel, by decide +kernel,
   by decide +kernel, by decide +kernel, by decide +kernel, by decide +kernel, by decide +kernel, by decide +kernel, by decide +kernel,
   by decide +kernel, by decide +kernel⟩

/-- `trusted_ping_is_answered` applies to B in that run (although A does not trust B) -/
example : ∃ b1 pl log, handleInit P.env P.bodyOf P.ok sU.b (sendPing P.env sU.a R1).2 R2 =
      .ok b1 (writeTo (.pong sU.b.hash R2.ecdhPub sU.b.algos pl) R2.salt (P.env.keyHash sU.b.ownKey R2.salt) R2.sig, .continue, log) ∧
    b1.stage = Generated.STAGE_PENG :=
  trusted_ping_is_answered P.env P.bodyOf P.ok sU.a sU.b R1 R2 rfl hyps_one_sided.hashA hyps_one_sided.rand1 hyps_one_sided.ecdh1
    hyps_one_sided.algosA hyps_one_sided.sig1 hyps_one_sided.hashNe hyps_one_sided.notSelfB
    (nego_of_ok (s := some Cipher.chacha) rfl) one_sided.1 nocoll_one_sided.1

/-- `handleInit_reject_pure` on that pong: A's object is returned unchanged, with the recoverable error, no reply -/
example : (match handleInit P.env P.bodyOf P.ok (run2 P sU R1 R2).a w2 R3 with
    | .err st' e' => st' = (run2 P sU R1 R2).a ∧ e' = .crypto | _ => False) :=
  (VpnCloud.Proofs.C01.handleInit_reject_pure P.env P.bodyOf P.ok (run2 P sU R1 R2).a w2 R3 .crypto one_sided_run.2.2.1).1

/-- the all-schedules theorems apply to every state of that run -/
example (n : Nat) : (uN n).doneA = [] ∧ (uN n).doneB = [] ∧ (∀ o ∈ (uN n).sent, IsPingOf sU.a o ∨ IsMsgOf sU.b o) ∧
    ∀ w rnd, I1 P.env (uN n).sigs (uN n).a.trusted w → ∃ e, handleInit P.env P.bodyOf P.ok (uN n).a w rnd = .err (uN n).a e :=
  one_sided_trust_is_silent P sU (uN n) init0U (reachU n) one_sided.2

/-- and `mutual_trust_iff` (all its hypotheses hold here): the lock-step run does not complete -/
example : ¬ ((run4 P sU R1 R2 R3 R4).doneA ≠ [] ∧ (run4 P sU R1 R2 R3 R4).doneB ≠ []) := fun h =>
  one_sided.2 ((mutual_trust_iff P sU R1 R2 R3 R4 init0U hyps_one_sided nocoll_one_sided.1 nocoll_one_sided.2.1
    nocoll_one_sided.2.2 ideal_one_sided).1.1 h).1

/-- `retransmit_until_give_up` applies to A's object after the rejected pong -/
example : (∀ i, i < Generated.MAX_FAILED_RETRIES →
      everySecond (tickN i (run3 P sU R1 R2 R3).a) = ({ (run3 P sU R1 R2 R3).a with retries := i + 1 }, .ok w1)) ∧
    everySecond (tickN Generated.MAX_FAILED_RETRIES (run3 P sU R1 R2 R3).a) =
      ({ (run3 P sU R1 R2 R3).a with retries := Generated.MAX_FAILED_RETRIES, stage := Generated.CLOSING }, .error .cryptoInitFatal) :=
  retransmit_until_give_up _ w1 (by rw [one_sided_run.2.2.2.2.1]; decide) (by rw [one_sided_run.2.2.2.2.1]; decide)
    one_sided_run.2.2.2.2.2.2.1 one_sided_run.2.2.2.2.2.1

/-! ### (iii) no trust at all -/

def bN : InitSt := { b0 with trusted := [] }
def sN : Sys := { a := aU, b := bN }

theorem no_trust : sN.a.ownKey ∉ sN.b.trusted ∧ sN.b.ownKey ∉ sN.a.trusted := by decide

theorem init0N : Init0 sN where
  a := ⟨rfl, rfl, rfl, rfl, by decide, by unfold algosWF; decide, by decide⟩
  b := ⟨rfl, rfl, rfl, rfl, by decide, by unfold algosWF; decide, by decide⟩
  hashNe := by decide +kernel
  sent := rfl
  sigs := rfl
  seals := rfl
  doneA := rfl
  doneB := rfl

theorem ideal_no_trust : RunIdeal P sN R1 R2 R3 R4 := by toy_run_ideal

/-- **the concrete run without trust**: B rejects A's ping (`Error::Crypto`), stays in stage PING and sends nothing; the schedule
    delivers A's own ping back to A (refused) and to B again (rejected again); nobody completes; only the ping was ever sent -/
theorem no_trust_run :
    readFrom P.env w1 sN.b.trusted = .error .crypto ∧
    (run2 P sN R1 R2).sent = [w1] ∧ (run2 P sN R1 R2).b.stage = Generated.STAGE_PING ∧
    (run4 P sN R1 R2 R3 R4).sent = [w1] ∧ (run4 P sN R1 R2 R3 R4).b.stage = Generated.STAGE_PING ∧
    (run4 P sN R1 R2 R3 R4).a.stage = Generated.STAGE_PONG ∧
    (run4 P sN R1 R2 R3 R4).doneA = [] ∧ (run4 P sN R1 R2 R3 R4).doneB = [] :=
  ⟨by decide +kernel, by decide +kernel, by decide +kernel, by decide +kernel, by decide +kernel, by decide +kernel, by decide +kernel,
   by decide +kernel⟩

/-- the all-schedules theorem applies to that run -/
example : (run4 P sN R1 R2 R3 R4).doneA = [] ∧ (run4 P sN R1 R2 R3 R4).doneB = [] ∧
    ∀ o ∈ (run4 P sN R1 R2 R3 R4).sent, IsMsgOf sN.a o ∨ IsPingOf sN.b o :=
  no_reply_without_trust P sN _ init0N (run_reach P sN R1 R2 R3 R4 init0N ideal_no_trust) no_trust.1

/-! ### shared key pair: both parties hold the key `[9, 9, 9, 9]` and trust it -/

def aS : InitSt := { a0 with ownKey := [9, 9, 9, 9], trusted := [[9, 9, 9, 9]] }
def bS : InitSt := { b0 with trusted := [[9, 9, 9, 9]] }
def sS : Sys := { a := aS, b := bS }
/-- (every signature verifies in this environment: `run_completes` needs no ideal-signature hypothesis) -/
def PS : Params := ⟨C05Lockstep.Toy.env, C05Lockstep.Toy.body aS bS, C05Lockstep.Toy.okP⟩

theorem init0S : Init0 sS where
  a := ⟨rfl, rfl, rfl, rfl, by decide, by unfold algosWF; decide, by decide⟩
  b := ⟨rfl, rfl, rfl, rfl, by decide, by unfold algosWF; decide, by decide⟩
  hashNe := by decide +kernel
  sent := rfl
  sigs := rfl
  seals := rfl
  doneA := rfl
  doneB := rfl

theorem hyps_shared : RunHyps PS.env PS.bodyOf PS.ok sS.a sS.b R1 R2 R3 := by toy_run_hyps

/-- with a shared key pair that both trust the handshake completes as usual (the nodes differ in their node-id hashes) -/
example : sS.a.ownKey = sS.b.ownKey ∧ (run4 PS sS R1 R2 R3 R4).doneA = [([20], true)] ∧
    (run4 PS sS R1 R2 R3 R4).doneB = [([10, 11], false)] := by
  obtain ⟨h1, h2, _⟩ := run_completes PS sS R1 R2 R3 R4 init0S hyps_shared (by decide) (by decide)
    (by unfold NoCollision; decide) (by unfold NoCollision; decide) (by unfold NoCollision; decide)
  exact ⟨rfl, h1, h2⟩

/-! ### colliding salted key hashes -/

/-- toy cryptography in which only the key `kA` verifies anything; the salted key hash is the first 4 bytes of key ++ salt, so the
    5-byte keys `kA` and `kC` collide for every salt -/
def kA : Bytes := [7, 7, 7, 7, 1]
def kC : Bytes := [7, 7, 7, 7, 2]
def envC : CryptoEnv :=
  { keyHash := fun k s => (k ++ s).take 4, nodeHash := fun s i => (s ++ i).take 16, sigVerify := fun k _ _ => k == kA }
def pingC : InitMsg := .ping (List.replicate 20 1) (List.replicate 32 5) C05Lockstep.Toy.algosA
def wC : Bytes := writeTo pingC [0, 0, 0, 1] (envC.keyHash kA [0, 0, 0, 1]) [1, 2, 3]

/-- **toy witness for `hash_collision_rejects`**: the genuine ping of `kA` is accepted when `kA` is the only or the first trusted key
    with that salted hash, and rejected (`Error::Crypto`, invalid signature) when the colliding key `kC` stands before it — although
    `kA` is trusted and its signature is valid -/
theorem collision_witness :
    readFrom envC wC [kA] = .ok (pingC, kA) ∧ readFrom envC wC [kA, kC] = .ok (pingC, kA) ∧
    readFrom envC wC [kC, kA] = .error .crypto ∧ kA ∈ [kC, kA] ∧ ¬ NoCollision envC [kC, kA] kA [0, 0, 0, 1] :=
  ⟨by decide +kernel, by decide +kernel, by decide +kernel, by decide, by unfold NoCollision; decide⟩

/-- the hypotheses of `hash_collision_rejects` hold for that witness -/
example : ∃ e, readFrom envC (writeTo pingC [0, 0, 0, 1] (envC.keyHash kA [0, 0, 0, 1]) [1, 2, 3] ++ []) [kC, kA] = .error e :=
  hash_collision_rejects envC pingC [0, 0, 0, 1] [1, 2, 3] [] kA kC [kC, kA] (by decide) (by decide) (by decide)
    (fun _ _ _ _ => rfl)

end Toy

end VpnCloud.Proofs.C01Mutual
