import VpnCloud.Model.PeerCrypto
import VpnCloud.Proofs.Lemmas.InitLemmas
/-
  C01 — the signed handshake: `read_from` accepts only windows signed by a trusted key, a rejected
  window leaves no trace, stale buffer bytes play no role, and a handshake completes only on an
  accepted window.  All statements are proved as given (no hypothesis added).
-/
namespace VpnCloud.Proofs.C01

open VpnCloud VpnCloud.InitMsg VpnCloud.Init
open VpnCloud.Proofs.InitLemmas

/-- `read_from` never reports a fatal error: a bad datagram cannot tear down a handshake -/
theorem readFrom_never_fatal (env : CryptoEnv) (w : Bytes) (T : List Bytes) (e : InitErr) (h : readFrom env w T = .error e) :
    e = .parse ∨ e = .crypto ∨ e = .cryptoInit :=
  readFrom_err env w T e h

/-- **readFrom_accept_genuine**: whatever is accepted carries the salted hash of a trusted key and a signature by that key over the
    bytes in front of it: the window starts with `signed ++ [sig.length] ++ sig` -/
theorem readFrom_accept_genuine (env : CryptoEnv) (w : Bytes) (T : List Bytes) (m : InitMsg) (k : Bytes)
    (h : readFrom env w T = .ok (m, k)) :
    k ∈ T ∧ env.keyHash k (w.take 4) = (w.drop 4).take 4 ∧
    ∃ signed sig rest, w = signed ++ [sig.length] ++ sig ++ rest ∧ env.sigVerify k signed sig = true := by
  obtain ⟨hf, hs⟩ := readFrom_ok_inv env w T m k h
  refine ⟨List.mem_of_find?_eq_some hf, ?_, hs⟩
  have := List.find?_some hf
  simpa using this

/-- with ideal signatures (I1: only logged genuine messages verify) an accepted window starts with the exact bytes of a message that a
    holder of a trusted key signed -/
theorem accepted_was_signed_by_trusted (env : CryptoEnv) (honest : List (Bytes × Bytes × Bytes))
    (I1 : ∀ k m s, env.sigVerify k m s = true → (k, m, s) ∈ honest)
    (w : Bytes) (T : List Bytes) (m : InitMsg) (k : Bytes) (h : readFrom env w T = .ok (m, k)) :
    k ∈ T ∧ ∃ signed sig rest, (k, signed, sig) ∈ honest ∧ w = signed ++ [sig.length] ++ sig ++ rest := by
  obtain ⟨hk, _, signed, sig, rest, hw, hv⟩ := readFrom_accept_genuine env w T m k h
  exact ⟨hk, signed, sig, rest, I1 _ _ _ hv, hw⟩

/-- **handleInit_reject_pure**: a window that `read_from` rejects leaves the handshake object untouched, produces no reply and no fatal
    error -/
theorem handleInit_reject_pure (env : CryptoEnv) (bodyOf : BodyOf) (ok : Bytes → Bool) (st : InitSt) (w : Bytes) (rnd : Rand) (e : InitErr)
    (h : readFrom env w st.trusted = .error e) :
    (match handleInit env bodyOf ok st w rnd with | .err st' e' => st' = st ∧ e' = e | _ => False) ∧ e ≠ .cryptoInitFatal := by
  constructor
  · rw [handleInit_eq, h]
    exact ⟨rfl, rfl⟩
  · rcases readFrom_never_fatal env w st.trusted e h with h | h | h <;> rw [h] <;> decide

/-- at `PeerCrypto` level: a handshake datagram whose content is rejected changes nothing and yields no datagram -/
theorem peerCrypto_reject_pure (env : CryptoEnv) (bodyOf : BodyOf) (ok : Bytes → Bool) (pc : PeerCrypto) (ist : InitSt)
    (rest tail : Bytes) (rnd : Rand) (rr : RotRand) (e : InitErr)
    (hi : pc.init = some ist) (hne : rest ≠ []) (h : readFrom env rest ist.trusted = .error e) :
    (match PeerCrypto.handleMessage env bodyOf ok pc (Generated.INIT_MESSAGE_FIRST_BYTE :: rest) tail rnd rr with
     | .err pc' e' => pc'.init = pc.init ∧ pc'.core = pc.core ∧ pc'.rot = pc.rot ∧ pc'.unencrypted = pc.unencrypted ∧ e' = e
     | _ => False) := by
  have hemp : rest.isEmpty = false := by cases rest with
    | nil => exact absurd rfl hne
    | cons => rfl
  have hh : handleInit env bodyOf ok ist rest rnd = .err ist e := by rw [handleInit_eq, h]
  simp only [PeerCrypto.handleMessage, if_true, hemp, Bool.false_eq_true, if_false, PeerCrypto.handleInitMessage, hi, hh, and_self]

set_option linter.unusedVariables false in
/-- stale bytes behind a handshake datagram in the receive buffer play no role (regression theorem for a repaired defect);
    the hypothesis `hne` of the given statement is not needed -/
theorem stale_tail_irrelevant (env : CryptoEnv) (bodyOf : BodyOf) (ok : Bytes → Bool) (pc : PeerCrypto)
    (rest t1 t2 : Bytes) (rnd : Rand) (rr : RotRand) (hne : rest ≠ []) :
    PeerCrypto.handleMessage env bodyOf ok pc (Generated.INIT_MESSAGE_FIRST_BYTE :: rest) t1 rnd rr =
    PeerCrypto.handleMessage env bodyOf ok pc (Generated.INIT_MESSAGE_FIRST_BYTE :: rest) t2 rnd rr := by
  simp only [PeerCrypto.handleMessage, if_true]

/-- a handshake can complete (peer becomes established) only on a window accepted by `read_from` under the object's trusted keys -/
theorem success_needs_trusted_signature (env : CryptoEnv) (bodyOf : BodyOf) (ok : Bytes → Bool) (st st' : InitSt) (w : Bytes) (rnd : Rand)
    (out p : Bytes) (ini : Bool) (log : SealLog)
    (h : handleInit env bodyOf ok st w rnd = .ok st' (out, .success p ini, log)) :
    ∃ m k, readFrom env w st.trusted = .ok (m, k) ∧ k ∈ st.trusted := by
  obtain ⟨m, k, hr, _, _⟩ := handleInit_success env bodyOf ok st st' w rnd out p ini log h
  exact ⟨m, k, hr, (readFrom_accept_genuine env w st.trusted m k hr).1⟩

/-! ## non-vacuity: concrete instances with the toy cryptography of `InitLemmas.Toy` -/

/-- a well-formed pong of the trusted peer is accepted, with arbitrary bytes behind it -/
example : readFrom Toy.env (Toy.pong Toy.algos 0 ++ [1, 2, 3]) [[8, 8, 8, 8], [9, 9, 9, 9]] =
    .ok (.pong (List.replicate 20 2) [6] Toy.algos (Toy.pl 0), [9, 9, 9, 9]) := by decide

/-- rejections: too short, untrusted key, altered signed byte, missing stage part -/
example : readFrom Toy.env [1, 2, 3] [[9, 9, 9, 9]] = .error .parse := by decide
example : readFrom Toy.env (Toy.pong Toy.algos 0) [[8, 8, 8, 8]] = .error .crypto := by decide
example : readFrom Toy.env ((Toy.pong Toy.algos 0).set 1 7) [[9, 9, 9, 9]] = .error .crypto := by decide
example : readFrom Toy.env [0, 0, 0, 1, 9, 9, 9, 9, 0, 4, 9, 9, 0, 0] [[9, 9, 9, 9]] = .error .cryptoInit := by decide

/-- the hypotheses of `handleInit_reject_pure` / `peerCrypto_reject_pure` are satisfiable -/
example : readFrom Toy.env ((Toy.pong Toy.algos 0).set 1 7) Toy.st.trusted = .error .crypto := by decide

example : (match PeerCrypto.handleMessage Toy.env (Toy.body 0) (fun _ => true) ({ init := some Toy.st } : PeerCrypto)
      (Generated.INIT_MESSAGE_FIRST_BYTE :: (Toy.pong Toy.algos 0).set 1 7) [5, 5] Toy.rnd {} with
     | .err pc' e' => pc'.init = some Toy.st ∧ pc'.core = none ∧ pc'.rot = none ∧ pc'.unencrypted = false ∧ e' = .crypto
     | _ => False) :=
  peerCrypto_reject_pure Toy.env (Toy.body 0) (fun _ => true) { init := some Toy.st } Toy.st ((Toy.pong Toy.algos 0).set 1 7) [5, 5]
    Toy.rnd {} .crypto rfl (by decide) (by decide)

/-- ideal signatures: an environment whose verification accepts exactly the logged signatures satisfies `I1`, and accepts the pong -/
example :
    let honest : List (Bytes × Bytes × Bytes) :=
      [([9, 9, 9, 9], signedRegion (.pong (List.replicate 20 2) [6] Toy.algos (Toy.pl 0)) [0, 0, 0, 1] [9, 9, 9, 9], [9, 9, 0, 0])]
    let env : CryptoEnv := { Toy.env with sigVerify := fun k m s => decide ((k, m, s) ∈ honest) }
    (∀ k m s, env.sigVerify k m s = true → (k, m, s) ∈ honest) ∧
    readFrom env (Toy.pong Toy.algos 0) [[9, 9, 9, 9]] = .ok (.pong (List.replicate 20 2) [6] Toy.algos (Toy.pl 0), [9, 9, 9, 9]) := by
  refine ⟨?_, by decide⟩
  intro k m s h
  simpa using h

/-- a handshake does complete on an accepted window -/
example : ∃ st' out log, handleInit Toy.env (Toy.body 0) (fun _ => true) { Toy.st with algos := Toy.algosPlain }
    (Toy.pong Toy.algosPlain 0) Toy.rnd = .ok st' (out, .success (Toy.pl 0) true, log) :=
  ⟨_, _, _, rfl⟩

end VpnCloud.Proofs.C01
