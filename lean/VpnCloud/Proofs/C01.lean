import VpnCloud.Model.PeerCrypto
namespace VpnCloud.Proofs.C01
end VpnCloud.Proofs.C01
