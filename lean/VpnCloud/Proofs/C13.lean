import VpnCloud.Model.Table
import VpnCloud.Spec.TableSpec
import VpnCloud.Proofs.Lemmas.TableLemmas
import VpnCloud.Proofs.C12
import VpnCloud.Proofs.C19
/-
  C13 — Learned addresses: last writer wins, silent addresses expire, a disconnect forgets.
  Property theorems.
-/
namespace VpnCloud.Proofs.C13
open VpnCloud VpnCloud.Table VpnCloud.Spec VpnCloud.Spec.TableSpec VpnCloud.Proofs.TableLemmas

theorem learn_cache (t : Table) (now : Int) (a : Addr) (p : PeerId) :
    (t.learn now a p).cache =
      ⟨a, p, now + t.cacheTimeout⟩ :: t.cache.filter (fun v => v.addr ≠ a) := rfl

theorem learn_spec (t : Table) (now : Int) (a : Addr) (p : PeerId) : learnOk t now a p (t.learn now a p) = true := by
  simp only [learnOk, Bool.and_eq_true, decide_eq_true_eq]
  refine ⟨⟨?_, rfl⟩, ?_⟩
  · simp [sameParams, learn]
  · rw [learn_cache]
    exact sameSet_refl _

/-- last writer wins: after learning, the address resolves to that peer, whatever was known before -/
theorem learn_last_writer (t : Table) (now now' : Int) (a : Addr) (p : PeerId) :
    ((t.learn now a p).lookup now' a).2 = some p := by
  have : (t.learn now a p).cache.find? (fun v => v.addr = a) = some ⟨a, p, now + t.cacheTimeout⟩ := by
    rw [learn_cache]
    simp
  simp only [lookup, this]

/-- a learned address that stays silent for longer than the switch timeout is gone after the next sweep -/
theorem learn_expiry (t : Table) (now now' : Int) (a : Addr) (p : PeerId) (h : now + t.cacheTimeout < now') :
    ((t.learn now a p).housekeep now').cache.find? (fun v => v.addr = a) = none := by
  rw [List.find?_eq_none]
  intro v hv
  simp only [housekeep, Generated.cacheLive, learn_cache, List.mem_filter, List.mem_cons, decide_eq_true_eq] at hv
  rcases hv with ⟨rfl | ⟨_, hne⟩, hto⟩
  · simp only at hto
    omega
  · simpa using hne

/-- a disconnect forgets everything learned from that peer -/
theorem disconnect_forgets (t : Table) (now : Int) (p : PeerId) (hnow : 0 < now) :
    ∀ v ∈ (t.removeClaims now p).cache, v.peer ≠ p := by
  intro v hv
  rw [C12.removeClaims_cache t now p hnow, List.mem_filter] at hv
  simp only [Bool.and_eq_true, decide_eq_true_eq] at hv
  exact hv.2.1

/-- on the concrete table: an address cached for peer 1 is re-learned from peer 2 at time 100 (last writer wins), is still
    known at the sweep at 400 = 100 + 300 and gone at the sweep at 401 (`100 + 300 < 401`); removing peer 2 at time 150
    (`0 < 150`) forgets it at once -/
example :
    (exTable.lookup 100 [10, 2, 0, 1]).2 = some 1 ∧
    ((exTable.learn 100 [10, 2, 0, 1] 2).lookup 100 [10, 2, 0, 1]).2 = some 2 ∧
    learnOk exTable 100 [10, 2, 0, 1] 2 (exTable.learn 100 [10, 2, 0, 1] 2) = true ∧
    (100 : Int) + exTable.cacheTimeout < 401 ∧
    ((exTable.learn 100 [10, 2, 0, 1] 2).housekeep 400).cache.find? (fun v => v.addr = [10, 2, 0, 1]) =
      some ⟨[10, 2, 0, 1], 2, 400⟩ ∧
    ((exTable.learn 100 [10, 2, 0, 1] 2).housekeep 401).cache.find? (fun v => v.addr = [10, 2, 0, 1]) = none ∧
    (0 : Int) < 150 ∧
    ((exTable.learn 100 [10, 2, 0, 1] 2).removeClaims 150 2).cache = [] := by
  decide

end VpnCloud.Proofs.C13

/-! ## Tag normalisation (frame level) -/
namespace VpnCloud.Proofs.C13
open VpnCloud VpnCloud.Spec.C19

/-- **vlan_normalised**: for every tag-control value behind ethertype `81 00` the dissected address
    pair depends only on the 12-bit VLAN id `vid`: id 0 (priority tag) yields the untagged 6-byte
    addresses, any other id prefixes both addresses with the two bytes of `vid`; the priority / DEI
    nibble and everything behind the tag (nested tags included) are ignored. -/
theorem vlan_normalised (dst src rest : Bytes) (t0 t1 : Nat)
    (hd : dst.length = 6) (hs : src.length = 6) (h0 : t0 < 256) (h1 : t1 < 256) :
    frameRef (dst ++ src ++ [0x81, 0x00, t0, t1] ++ rest) =
      (let vid := (t0 % 16) * 256 + t1
       if vid = 0 then some (src, dst)
       else some ([vid / 256, vid % 256] ++ src, [vid / 256, vid % 256] ++ dst)) := by
  rcases dst with _ | ⟨d0, _ | ⟨d1, _ | ⟨d2, _ | ⟨d3, _ | ⟨d4, _ | ⟨d5, _ | ⟨d6, dr⟩⟩⟩⟩⟩⟩⟩ <;> simp at hd
  rcases src with _ | ⟨s0, _ | ⟨s1, _ | ⟨s2, _ | ⟨s3, _ | ⟨s4, _ | ⟨s5, _ | ⟨s6, sr⟩⟩⟩⟩⟩⟩⟩ <;> simp at hs
  have e : (t0 * 256 + t1) % 4096 = t0 % 16 * 256 + t1 := by omega
  have hl1 : ¬ (rest.length + 16 < 14) := by omega
  have hl2 : ¬ (rest.length + 16 < 16) := by omega
  simp [frameRef, slice, e, hl1, hl2]

/-- the same for the model of `Frame::parse` (via `C19.frame_exact`) -/
theorem vlan_normalised_model (dst src rest : Bytes) (t0 t1 : Nat)
    (hd : dst.length = 6) (hs : src.length = 6) (h0 : t0 < 256) (h1 : t1 < 256)
    (hwf : Bytes.WF (dst ++ src ++ [0x81, 0x00, t0, t1] ++ rest)) :
    C19.toOpt (Payload.frameParse (dst ++ src ++ [0x81, 0x00, t0, t1] ++ rest)) =
      (let vid := (t0 % 16) * 256 + t1
       if vid = 0 then some (src, dst)
       else some ([vid / 256, vid % 256] ++ src, [vid / 256, vid % 256] ++ dst)) := by
  rw [C19.frame_exact _ hwf]; exact vlan_normalised dst src rest t0 t1 hd hs h0 h1

/-- different VLAN ids yield different addresses -/
theorem vlan_tag_injective (v w : Nat) (hv : v < 4096) (hw : w < 4096)
    (h : [v / 256, v % 256] = [w / 256, w % 256]) : v = w := by
  simp at h; omega

/-- an address with a VLAN prefix (8 bytes) never equals an untagged one (6 bytes) -/
theorem tagged_ne_untagged (tag a b : Bytes) (ht : tag.length = 2) (ha : a.length = 6) (hb : b.length = 6) :
    tag ++ a ≠ b := by
  intro h; have := congrArg List.length h; simp [ht, ha, hb] at this

example : frameRef ([2,0,0,0,0,1] ++ [2,0,0,0,0,2] ++ [0x81, 0x00, 0xe0, 0x00] ++ [8, 0]) =
    some ([2,0,0,0,0,2], [2,0,0,0,0,1]) := by decide
example : frameRef ([2,0,0,0,0,1] ++ [2,0,0,0,0,2] ++ [0x81, 0x00, 0xa0, 0x67] ++ [8, 0]) =
    some ([0, 0x67, 2,0,0,0,0,2], [0, 0x67, 2,0,0,0,0,1]) := by decide

/-- the newest observation wins and leaves no trace of the older one: learning `a` behind `q` at `now'` after having learned it behind
    `p` gives exactly the table that learning `(a, q)` alone gives (for every table, both peers, both times) — a station that moves is
    not remembered at its old place; with `p = q`, `now = now'`: learning is idempotent -/
theorem learn_overrides (t : Table) (now now' : Int) (a : Addr) (p q : PeerId) :
    ((t.learn now a p).learn now' a q).cache = (t.learn now' a q).cache ∧
    ((t.learn now a p).learn now' a q).claims = t.claims := by
  constructor
  · simp only [Table.learn, Table.cacheInsert, List.filter_cons, ne_eq, not_true_eq_false, decide_false, Bool.false_eq_true,
      if_false, List.filter_filter, Bool.and_self]
  · rfl

end VpnCloud.Proofs.C13
