import VpnCloud.Model.Table
import VpnCloud.Spec.TableSpec
namespace VpnCloud.Proofs.C13
end VpnCloud.Proofs.C13
