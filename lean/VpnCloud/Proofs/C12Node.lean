import VpnCloud.Model.Node
import VpnCloud.Proofs.Lemmas.NodeInvLemmas
/-
  C12 at node level, over ALL histories: the routing table (claims, cached and learned decisions) only ever names
  the id of a current peer.

  `TablePeers` alone is not inductive: a data message that a *pending* handshake session can open is handed to
  `handle_message` like the message of a peer, and in learning mode its source address is cached for the sender,
  which is not a peer.  A pending session cannot open anything as long as it has neither a crypto core nor the
  `unencrypted` flag, and that is what the node maintains (`PendFresh`): a session gets its core in the very call
  that moves it from `pending` to `peers`.  The inductive invariant is `Inv = TablePeers ∧ PendFresh`.

  Neither distinct keys of the association lists nor injectivity of `addrId` / `mappedAddr` are needed: removing a
  peer removes every entry of its address and every table entry of its id; what is left named another address.
-/
namespace VpnCloud.Proofs.C12Node

open VpnCloud VpnCloud.Node
open VpnCloud.Proofs.NodeLemmas VpnCloud.Proofs.NodeLemmas2 VpnCloud.Proofs.NodeInvLemmas

/-- every claim and every cached / learned decision of the table names the id of a current peer -/
def TablePeers (n : Node) : Prop :=
  (∀ e ∈ n.table.claims, ∃ a p, (a, p) ∈ n.peers ∧ addrId a = e.peer) ∧
  (∀ v ∈ n.table.cache,  ∃ a p, (a, p) ∈ n.peers ∧ addrId a = v.peer)

/-- the session of a pending handshake has no crypto core and is not in unencrypted mode (it cannot open payload messages) -/
def PendFresh (n : Node) : Prop := ∀ a pc, (a, pc) ∈ n.pending → pc.unencrypted = false ∧ pc.core = none

/-- the inductive invariant -/
def Inv (n : Node) : Prop := TablePeers n ∧ PendFresh n

theorem Inv.tablePeers {n : Node} (h : Inv n) : TablePeers n := h.1

theorem tablePeers_iff (n : Node) : TablePeers n ↔ TP (n.peers.map (·.1)) n.table := by
  have key : ∀ q : PeerId, (∃ a p, (a, p) ∈ n.peers ∧ addrId a = q) ↔ (∃ a ∈ n.peers.map (·.1), addrId a = q) := by
    intro q
    constructor
    · rintro ⟨a, p, hm, hq⟩
      exact ⟨a, mem_key hm, hq⟩
    · rintro ⟨a, ha, hq⟩
      rcases List.mem_map.1 ha with ⟨x, hx, rfl⟩
      exact ⟨x.1, x.2, hx, hq⟩
  unfold TablePeers TP
  constructor
  · rintro ⟨h1, h2⟩
    exact ⟨fun e he => (key _).1 (h1 e he), fun v hv => (key _).1 (h2 v hv)⟩
  · rintro ⟨h1, h2⟩
    exact ⟨fun e he => (key _).2 (h1 e he), fun v hv => (key _).2 (h2 v hv)⟩

/-! ## the instance of the generic invariant -/

/-- pending sessions are fresh, nothing is required of peer sessions, the table is tracked, the panic flag is not -/
def SA : SI where
  Q := FreshPC
  R := fun _ => True
  T := True
  P := False
  L := False
  q_new := by intro env n hash rnd ist _; exact ⟨rfl, rfl⟩
  q_att := fun _ _ => ⟨rfl, rfl⟩
  r_seal := fun _ _ _ _ _ => trivial

theorem inv_iff (c : Ctx) : Inv c.node ↔ GI SA c := by
  unfold Inv PendFresh GI GIx
  rw [tablePeers_iff]
  constructor
  · rintro ⟨ht, hp⟩
    exact ⟨fun a pc hm _ => hp a pc hm, fun _ _ _ => trivial, fun _ => ht, fun hf => hf.elim, fun hf => hf.elim⟩
  · rintro ⟨hp, _, ht, _, _⟩
    exact ⟨ht trivial, fun a pc hm => hp a pc hm (by simp)⟩

theorem sok (env : CryptoEnv) (bodyOf : Init.BodyOf) (pc : PeerCrypto) (inPeers : Bool) (data tail : Bytes) (rnd : Rand) (rr : RotRand)
    (h : if inPeers then SA.R pc else SA.Q pc) : SOK SA inPeers (PeerCrypto.handleMessage env bodyOf payloadOk pc data tail rnd rr) := by
  cases inPeers with
  | true =>
    exact { no_panic := fun hf => hf.elim, err_peers := fun _ _ _ _ => trivial, err_pend := (fun hf => by cases hf),
            ok_peers := fun _ _ _ _ _ _ => trivial, ok_pend := (fun hf => by cases hf), msg := fun _ _ _ _ _ _ _ => rfl, log_ok := fun hf => hf.elim }
  | false =>
    have hf : FreshPC pc := h
    have hfo := handleMessage_fresh env bodyOf payloadOk pc data tail rnd rr hf
    generalize PeerCrypto.handleMessage env bodyOf payloadOk pc data tail rnd rr = r at hfo
    refine { no_panic := fun hf => hf.elim, err_peers := (fun hf => by cases hf), err_pend := ?_, ok_peers := (fun hf => by cases hf), ok_pend := ?_, msg := ?_, log_ok := fun hf => hf.elim }
    · intro _ pc' e hr
      subst hr
      exact Or.inr hfo
    · intro _ pc' out res log hr
      subst hr
      rcases hfo with ⟨hres, hq⟩ | ⟨p, hp, hok⟩
      · subst hres
        refine Or.inl ⟨?_, hq⟩
        rintro ⟨p, hp | hp⟩ <;> cases hp
      · exact Or.inr ⟨p, hp, trivial, Or.inr hok⟩
    · intro _ pc' out ty d log hr
      subst hr
      rcases hfo with ⟨hres, _⟩ | ⟨p, hp, _⟩
      · cases hres
      · rcases hp with hp | hp <;> cases hp

theorem tok (pc : PeerCrypto) (rr : RotRand) :
    (SA.Q pc → TOK SA SA.Q (PeerCrypto.everySecond pc rr)) ∧ (SA.R pc → TOK SA SA.R (PeerCrypto.everySecond pc rr)) := by
  constructor
  · intro hq
    have hs := everySecond_spec pc rr
    generalize PeerCrypto.everySecond pc rr = r at hs
    refine { no_panic := fun hf => hf.elim, ok := ?_, log_ok := fun hf => hf.elim }
    intro pc' out res log hr
    subst hr
    exact hs.2.1 hq
  · intro _
    exact { no_panic := fun hf => hf.elim, ok := fun _ _ _ _ _ => trivial, log_ok := fun hf => hf.elim }

/-! ## the four operations keep the invariant -/

theorem tablePeers_handleNet (env : CryptoEnv) (bodyOf : Init.BodyOf) (o : Oracle) (n : Node) (now : Int) (src : NAddr) (data tail : Bytes)
    (hnow : 0 < now) (h : Inv n) : Inv (Node.handleNet env bodyOf o n now src data tail).1.node := by
  rw [inv_iff]
  exact handleNet_GI SA env bodyOf o n now src data tail ((inv_iff { node := n }).1 h)
    (fun pc inPeers rnd rr hpc => sok env bodyOf pc inPeers data tail rnd rr hpc) (fun _ => hnow)

theorem tablePeers_handleIface (o : Oracle) (n : Node) (now : Int) (data : Bytes) (h : Inv n) : Inv (Node.handleIface o n now data).node := by
  rw [inv_iff]
  exact handleIface_GI SA o n now data ((inv_iff { node := n }).1 h)

theorem tablePeers_housekeep (env : CryptoEnv) (o : Oracle) (n : Node) (now : Int) (hnow : 0 < now) (h : Inv n) :
    Inv (Node.housekeep env o n now).node := by
  rw [inv_iff]
  exact housekeep_GI SA env o n now ((inv_iff { node := n }).1 h) tok (fun _ => hnow)

theorem tablePeers_connect (env : CryptoEnv) (o : Oracle) (n : Node) (addrs : List NAddr) (h : Inv n) :
    Inv (Node.connect env o { node := n } addrs).node := by
  rw [inv_iff]
  exact connect_GI SA none env o { node := n } addrs ((inv_iff { node := n }).1 h)

/-- consequence: the "Sending to node that is not a peer" branch of `handle_interface_data` is dead code in every state that satisfies the invariant -/
theorem next_hop_is_peer (n : Node) (now : Int) (dst : Addr) (pid : PeerId) (h : TablePeers n) (hl : (n.table.lookup now dst).2 = some pid) :
    ∃ a, a ∈ n.peers.map (·.1) ∧ addrId a = pid :=
  ((tablePeers_iff n).1 h).lookup_result now dst pid hl

/-- … stated for `handleIface` itself: with the invariant, the search for the peer of the next hop always succeeds -/
theorem iface_finds_peer (n : Node) (now : Int) (dst : Addr) (pid : PeerId) (h : Inv n) (hl : (n.table.lookup now dst).2 = some pid) :
    ((n.peers.map (·.1)).find? (fun a => addrId a = pid)).isSome = true := by
  obtain ⟨a, ha, hp⟩ := next_hop_is_peer n now dst pid h.1 hl
  rw [List.find?_isSome]
  exact ⟨a, ha, by simpa using hp⟩

/-! ## all histories -/

/-- one of the four operations, for ANY cryptography / network / oracle / input, at ANY time `now > 0` -/
inductive Step : Node → Node → Prop
  | net (env : CryptoEnv) (bodyOf : Init.BodyOf) (o : Oracle) (n : Node) (now : Int) (src : NAddr) (data tail : Bytes) :
      0 < now → Step n (Node.handleNet env bodyOf o n now src data tail).1.node
  | iface (o : Oracle) (n : Node) (now : Int) (data : Bytes) : Step n (Node.handleIface o n now data).node
  | tick (env : CryptoEnv) (o : Oracle) (n : Node) (now : Int) : 0 < now → Step n (Node.housekeep env o n now).node
  | dial (env : CryptoEnv) (o : Oracle) (n : Node) (addrs : List NAddr) : Step n (Node.connect env o { node := n } addrs).node

inductive Reach (n0 : Node) : Node → Prop
  | init : Reach n0 n0
  | step {n n' : Node} : Reach n0 n → Step n n' → Reach n0 n'

theorem inv_step {n n' : Node} (h : Inv n) (hs : Step n n') : Inv n' := by
  cases hs with
  | net env bodyOf o _ now src data tail hnow => exact tablePeers_handleNet env bodyOf o n now src data tail hnow h
  | iface o _ now data => exact tablePeers_handleIface o n now data h
  | tick env o _ now hnow => exact tablePeers_housekeep env o n now hnow h
  | dial env o _ addrs => exact tablePeers_connect env o n addrs h

theorem inv_reach {n0 n : Node} (h0 : Inv n0) (h : Reach n0 n) : Inv n := by
  induction h with
  | init => exact h0
  | step _ hs ih => exact inv_step ih hs

/-- **the routing state never points to a non-peer**, in every state reachable from a node without peers, without pending handshakes and
    with an empty table.  (`n0.pending = []` is added to the hypothesis asked for: see the counterexample below.) -/
theorem table_points_to_peers (n0 n : Node) (h0 : n0.peers = [] ∧ n0.pending = [] ∧ n0.table.claims = [] ∧ n0.table.cache = [])
    (h : Reach n0 n) : TablePeers n := by
  apply Inv.tablePeers
  apply inv_reach _ h
  obtain ⟨_, h2, h3, h4⟩ := h0
  refine ⟨⟨?_, ?_⟩, ?_⟩
  · rw [h3]; intro e he; cases he
  · rw [h4]; intro v hv; cases hv
  · intro a pc hm; rw [h2] at hm; cases hm

/-- more generally from any state whose pending sessions are fresh and whose table names peers -/
theorem table_points_to_peers' (n0 n : Node) (h0 : Inv n0) (h : Reach n0 n) : TablePeers n := (inv_reach h0 h).1

/-! ## non-vacuity, and the counterexample to the statement without `n0.pending = []` -/
section NonVacuity
open VpnCloud.Proofs.InitLemmas

private def s : NAddr := .v6 (List.replicate 16 0) 1
private def cfg0 : NodeCfg :=
  { tap := false, learning := true, broadcast := false, peerTimeout := 300, peerTimeoutPublish := 300, updateFreq := 10,
    claims := [], key := [7, 7, 7, 7], trusted := [[9, 9, 9, 9]], algos := Toy.algos }
private def o0 : Oracle := { emitted := fun _ _ => [], rotProp := fun _ => 0, rotPend := fun _ => 0, starts := fun _ => [] }

/-- a node with one established peer (id 1) and one claim of that peer -/
private def n1 : Node :=
  { nodeId := List.replicate 16 9, addr := .v6 (List.replicate 16 0) 3, cfg := cfg0,
    peers := [(s, { addrs := [], timeout := 1000, peerTimeout := 300, nodeId := List.replicate 16 1, crypto := { init := none } })],
    table := { cacheTimeout := 300, claimTimeout := 300, claims := [⟨1, ⟨[10, 0, 0, 0], 8⟩, 2000⟩] } }

example : Inv n1 := by
  refine ⟨⟨?_, ?_⟩, ?_⟩
  · intro e he
    simp only [n1, List.mem_singleton] at he
    subst he
    exact ⟨s, _, List.mem_singleton.2 rfl, by decide⟩
  · intro v hv; cases hv
  · intro a pc hm; cases hm

/-- the empty node -/
private def n0 : Node :=
  { nodeId := List.replicate 16 9, addr := .v6 (List.replicate 16 0) 3, cfg := cfg0, table := { cacheTimeout := 300, claimTimeout := 300 } }

/-- a two-step history: dial `s`, then a tick -/
example : Reach n0 (housekeep Toy.env o0 (connect Toy.env o0 { node := n0 } [s]).node 100).node :=
  .step (.step .init (.dial Toy.env o0 n0 [s])) (.tick Toy.env o0 _ 100 (by decide))

/-- … in which something happens: after the dial there is a pending handshake with `s` -/
example : (connect Toy.env o0 { node := n0 } [s]).node.pending.map (·.1) = [s] := by decide

/-- counterexample to the statement without `n0.pending = []`: a node without peers and with an empty table, but with a pending session that
    is in unencrypted mode; in learning mode a data message from that address is cached for the sender, which is not a peer -/
private def nBad : Node := { n0 with pending := [(s, { init := none, unencrypted := true })] }
private def pkt : Bytes := 0 :: 69 :: (List.replicate 11 0 ++ [10, 0, 0, 1, 10, 0, 0, 2])

example : nBad.peers = [] ∧ nBad.table.claims = [] ∧ nBad.table.cache = [] ∧
    (handleNet Toy.env (fun _ => .garbage 0) o0 nBad 100 s pkt []).1.node.peers.map (·.1) = [] ∧
    (handleNet Toy.env (fun _ => .garbage 0) o0 nBad 100 s pkt []).1.node.table.cache = [⟨[10, 0, 0, 1], 1, 400⟩] := by
  decide

example : ∃ n, Reach nBad n ∧ ¬ TablePeers n := by
  refine ⟨_, .step .init (.net Toy.env (fun _ => .garbage 0) o0 nBad 100 s pkt [] (by decide)), ?_⟩
  intro h
  have hc : (handleNet Toy.env (fun _ => .garbage 0) o0 nBad 100 s pkt []).1.node.table.cache = [⟨[10, 0, 0, 1], 1, 400⟩] := by decide
  have hp : (handleNet Toy.env (fun _ => .garbage 0) o0 nBad 100 s pkt []).1.node.peers.map (·.1) = [] := by decide
  obtain ⟨a, p, hm, _⟩ := h.2 ⟨[10, 0, 0, 1], 1, 400⟩ (by rw [hc]; exact List.mem_singleton.2 rfl)
  have := mem_key hm
  rw [hp] at this
  cases this

end NonVacuity
end VpnCloud.Proofs.C12Node
