import VpnCloud.Proofs.C16
import VpnCloud.Proofs.C16Init
import VpnCloud.Proofs.Lemmas.InitLemmas
/-
  C16 — the remaining decoders.

  (a) `readRotMsg` on arbitrary bytes: `readRotMsg_none_iff` (it fails exactly when the input is shorter than the lengths it announces,
      `rotNeed`), `rotmsg_trailing_ignored` (bytes behind the message do not matter: the Rust hands `buffer.buffer()`, i.e. the message plus
      whatever is behind it, to the parser), `readRotMsg_bounded`.
  (b) `InitMsg.readFields` / `readFrom`: `readFields_fuel` / `init_decode_total` (the fuel `r.length + 1` that `readFrom` passes is enough for
      every input: the answer does not depend on the fuel beyond that, so `.error .parse` never means "out of fuel"),
      `unknown_init_parts_skipped_fields`, `unknown_init_parts_skipped` (an unknown part at any part boundary before the END marker does not
      change the decoded message — when the signature covers the region WITH the unknown part), `unknown_part_changes_signed_region`.
  (c) `decode_alloc_bounded`: every length taken from the wire is a u8 / u16 (≤ 255 / ≤ 65535 = MSG_BUFFER_SIZE) and `take?` / `takeLim`
      hand out exactly the requested number of bytes or fail — never more than the input holds.
-/
namespace VpnCloud.Proofs.C16More
open VpnCloud VpnCloud.Codec VpnCloud.InitMsg
open VpnCloud.Proofs.CodecLemmas VpnCloud.Proofs.InitMsgLemmas

/-! ## (a) rotation messages -/

theorem take?_eq (n : Nat) (r : Bytes) : take? n r = if n ≤ r.length then some (r.take n, r.drop n) else none := rfl

theorem readU8_drop (r : Bytes) (k : Nat) : readU8 (r.drop k) = r[k]?.map (fun b => (b, r.drop (k + 1))) := by
  by_cases h : k < r.length
  · rw [List.drop_eq_getElem_cons h, List.getElem?_eq_getElem h]; rfl
  · rw [List.drop_eq_nil_of_le (by omega), List.getElem?_eq_none (by omega)]; rfl

/-- the number of bytes a rotation message announces: 8 id bytes, the length byte of the proposed key, that many bytes, the length byte of
    the confirmed key, that many bytes — as far as the length bytes are present -/
def rotNeed (r : Bytes) : Nat :=
  match r[8]? with
  | none => 9
  | some kl =>
    match r[9 + kl]? with
    | none => 10 + kl
    | some cl => 10 + kl + cl

/-- `readRotMsg` in closed form -/
theorem readRotMsg_eq (r : Bytes) : readRotMsg r =
    if 8 ≤ r.length then
      match r[8]? with
      | none => none
      | some kl =>
        if kl ≤ r.length - 9 then
          match r[9 + kl]? with
          | none => none
          | some cl =>
            if cl > 0 then
              if cl ≤ r.length - (10 + kl) then
                some { id := Bytes.beVal (r.take 8), propose := (r.drop 9).take kl, confirm := some ((r.drop (10 + kl)).take cl) }
              else none
            else some { id := Bytes.beVal (r.take 8), propose := (r.drop 9).take kl, confirm := none }
        else none
    else none := by
  unfold readRotMsg
  rw [take?_eq]
  by_cases h8 : 8 ≤ r.length
  · simp only [h8, if_true, Option.bind_eq_bind, Option.bind_some, readU8_drop]
    cases hk : r[8]? with
    | none => rfl
    | some kl =>
      simp only [Option.map_some, Option.bind_some, take?_eq, List.length_drop]
      by_cases hkl : kl ≤ r.length - 9
      · simp only [hkl, if_true, Option.bind_some, List.drop_drop, readU8_drop]
        cases hc : r[9 + kl]? with
        | none => rfl
        | some cl =>
          simp only [Option.map_some, Option.bind_some, List.length_drop]
          by_cases hcl : cl > 0
          · simp only [hcl, if_true]
            have e : 9 + kl + 1 = 10 + kl := by omega
            rw [e]
            by_cases hcl2 : cl ≤ r.length - (10 + kl)
            · simp only [hcl2, if_true, Option.bind_some, Option.pure_def]
            · simp only [hcl2, if_false, Option.bind_none]
          · simp only [hcl, if_false, Option.pure_def]
      · simp only [hkl, if_false, Option.bind_none]
  · simp only [h8, if_false, Option.bind_eq_bind, Option.bind_none]

/-- **`readRotMsg` is total and fails exactly on short input**: on arbitrary bytes it returns `none` if and only if the input is shorter
    than the lengths it announces -/
theorem readRotMsg_none_iff (r : Bytes) : readRotMsg r = none ↔ r.length < rotNeed r := by
  rw [readRotMsg_eq]
  unfold rotNeed
  by_cases h8 : 8 ≤ r.length
  · simp only [h8, if_true]
    cases hk : r[8]? with
    | none =>
      have := List.getElem?_eq_none_iff.1 hk
      simp only [true_iff]; omega
    | some kl =>
      simp only []
      have h9 : 8 < r.length := by
        rcases Nat.lt_or_ge 8 r.length with h | h
        · exact h
        · rw [List.getElem?_eq_none (by omega)] at hk; cases hk
      by_cases hkl : kl ≤ r.length - 9
      · simp only [hkl, if_true]
        cases hc : r[9 + kl]? with
        | none =>
          have := List.getElem?_eq_none_iff.1 hc
          simp only [true_iff]; omega
        | some cl =>
          have h10 : 9 + kl < r.length := by
            rcases Nat.lt_or_ge (9 + kl) r.length with h | h
            · exact h
            · rw [List.getElem?_eq_none (by omega)] at hc; cases hc
          simp only []
          by_cases hcl : cl > 0
          · simp only [hcl, if_true]
            by_cases hcl2 : cl ≤ r.length - (10 + kl)
            · simp only [hcl2, if_true, reduceCtorEq, false_iff]; omega
            · simp only [hcl2, if_false, true_iff]; omega
          · simp only [hcl, if_false, reduceCtorEq, false_iff]; omega
      · simp only [hkl, if_false, true_iff]
        cases hc : r[9 + kl]? with
        | none => simp only []; omega
        | some cl =>
          have := (List.getElem?_eq_some_iff.1 hc).1
          omega
  · simp only [h8, if_false, true_iff]
    rw [List.getElem?_eq_none (by omega)]
    simp only []; omega

/-- … equivalently: it returns a message exactly when the input holds the announced number of bytes -/
theorem readRotMsg_isSome_iff (r : Bytes) : (readRotMsg r).isSome = true ↔ rotNeed r ≤ r.length := by
  rw [Option.isSome_iff_ne_none, ne_eq, readRotMsg_none_iff]; omega

theorem take?_append_of_some {n : Nat} {r a b : Bytes} (t : Bytes) (h : take? n r = some (a, b)) :
    take? n (r ++ t) = some (a, b ++ t) := by
  unfold take? at h ⊢
  split at h
  · rename_i hn
    simp only [Option.some.injEq, Prod.mk.injEq] at h
    have : n ≤ (r ++ t).length := by rw [List.length_append]; omega
    rw [if_pos this, List.take_append_of_le_length hn, List.drop_append_of_le_length hn, h.1, h.2]
  · cases h

theorem readU8_append_of_some {r b' : Bytes} {b : Nat} (t : Bytes) (h : readU8 r = some (b, b')) :
    readU8 (r ++ t) = some (b, b' ++ t) := by
  cases r with
  | nil => cases h
  | cons x xs =>
    simp only [readU8, Option.some.injEq, Prod.mk.injEq] at h
    simp only [List.cons_append, readU8, h.1, h.2]

/-- **rotmsg_trailing_ignored**: whatever follows a readable rotation message in the buffer (stale bytes of an earlier, longer datagram)
    does not change what is read -/
theorem rotmsg_trailing_ignored (r t : Bytes) (m : RotMsg) (h : readRotMsg r = some m) : readRotMsg (r ++ t) = some m := by
  unfold readRotMsg at h ⊢
  cases h1 : take? 8 r with
  | none => simp [h1] at h
  | some p1 =>
    obtain ⟨idb, r1⟩ := p1
    rw [take?_append_of_some t h1]
    simp only [h1, Option.bind_eq_bind, Option.bind_some] at h ⊢
    cases h2 : readU8 r1 with
    | none => simp [h2] at h
    | some p2 =>
      obtain ⟨kl, r2⟩ := p2
      rw [readU8_append_of_some t h2]
      simp only [h2, Option.bind_some] at h ⊢
      cases h3 : take? kl r2 with
      | none => simp [h3] at h
      | some p3 =>
        obtain ⟨pr, r3⟩ := p3
        rw [take?_append_of_some t h3]
        simp only [h3, Option.bind_some] at h ⊢
        cases h4 : readU8 r3 with
        | none => simp [h4] at h
        | some p4 =>
          obtain ⟨cl, r4⟩ := p4
          rw [readU8_append_of_some t h4]
          simp only [h4, Option.bind_some] at h ⊢
          split
          · rename_i hcl
            rw [if_pos hcl] at h
            cases h5 : take? cl r4 with
            | none => simp [h5] at h
            | some p5 =>
              obtain ⟨c, r5⟩ := p5
              rw [take?_append_of_some t h5]
              simpa [h5] using h
          · rename_i hcl
            rw [if_neg hcl] at h
            exact h

/-- what a successful read returns is bounded by the input: both keys are shorter than 256 bytes and the message lies within the input -/
theorem readRotMsg_bounded (r : Bytes) (m : RotMsg) (hr : Bytes.WF r) (h : readRotMsg r = some m) :
    m.propose.length < 256 ∧ (∀ c, m.confirm = some c → 0 < c.length ∧ c.length < 256) ∧
    10 + m.propose.length + (m.confirm.map List.length).getD 0 ≤ r.length := by
  rw [readRotMsg_eq] at h
  split at h
  · rename_i h8
    split at h
    · cases h
    · rename_i kl hk
      have hkl : kl < 256 := hr kl (List.mem_of_getElem? hk)
      split at h
      · rename_i hk2
        split at h
        · cases h
        · rename_i cl hc
          have hcl : cl < 256 := hr cl (List.mem_of_getElem? hc)
          have h10 := (List.getElem?_eq_some_iff.1 hc).1
          split at h
          · rename_i hpos
            split at h
            · rename_i hc2
              simp only [Option.some.injEq] at h
              subst h
              simp only [List.length_take, List.length_drop, Option.some.injEq, Option.map_some, Option.getD_some]
              refine ⟨by omega, ?_, by omega⟩
              intro c hc'; subst hc'
              simp only [List.length_take, List.length_drop]; omega
            · cases h
          · simp only [Option.some.injEq] at h
            subst h
            simp only [List.length_take, List.length_drop, reduceCtorEq, false_implies, implies_true, Option.map_none, Option.getD_none]
            refine ⟨by omega, trivial, by omega⟩
      · cases h
  · cases h

/-! ## (b) handshake messages -/

open VpnCloud.Proofs.InitLemmas in
/-- **the fuel of the field loop never runs out**: with any two amounts of fuel above the input length the loop gives the same answer
    (each iteration consumes at least the tag byte) -/
theorem readFields_fuel (f1 f2 : Nat) (r : Bytes) (acc : Fields) (h1 : r.length + 1 ≤ f1) (h2 : r.length + 1 ≤ f2) :
    readFields f1 r acc = readFields f2 r acc := by
  induction f1 generalizing f2 r acc with
  | zero => omega
  | succ f1 ih =>
    obtain ⟨g, rfl⟩ : ∃ g, f2 = g + 1 := ⟨f2 - 1, by omega⟩
    rw [readFields, readFields]
    split
    · rfl
    · rename_i field r1 e1
      have l1 : r.length = r1.length + 1 := by rw [readU8_some e1]; rfl
      split
      · rfl
      · split
        · rfl
        · rename_i len r2 e2
          obtain ⟨a, b, e2'⟩ := readU16_some e2
          have l2 : r1.length = r2.length + 2 := by rw [e2']; rfl
          have key : ∀ r3 acc', r3.length ≤ r2.length → readFields f1 r3 acc' = readFields g r3 acc' :=
            fun r3 acc' hl => ih g r3 acc' (by omega) (by omega)
          have htake : ∀ {n : Nat} {x r3 : Bytes}, take? n r2 = some (x, r3) → r3.length ≤ r2.length := by
            intro n x r3 h
            have := congrArg List.length (take?_some h).1
            rw [List.length_append] at this; omega
          repeat' split
          all_goals first
            | rfl
            | (rename_i h3; exact key _ _ (htake h3))
            | (rename_i h3; exact key _ _ (by rw [readU8_some h3]; simp))
            | (rename_i h3
               obtain ⟨pre, hp⟩ := readAlgos_suffix _ _ _ _ _ h3
               exact key _ _ (by rw [hp, List.length_append]; omega))

/-- **init_decode_total**: `readFrom` passes the fuel `r.length + 1` to the field loop; any larger amount gives the same result — so
    an `.error .parse` of the loop always means "malformed input" (missing tag, length or body bytes), never "out of fuel", on every input.
    Together with the structural recursion on the fuel: the decoder ends with a value or an error on arbitrary bytes. -/
theorem init_decode_total (r : Bytes) (acc : Fields) (extra : Nat) :
    readFields (r.length + 1 + extra) r acc = readFields (r.length + 1) r acc :=
  readFields_fuel _ _ r acc (by omega) (by omega)

/-- the loop with the fuel of `readFrom` is the loop "with unbounded fuel": no run with more fuel ever succeeds or fails differently -/
theorem init_decode_total' (r : Bytes) (acc : Fields) (fuel : Nat) (h : r.length + 1 ≤ fuel) :
    readFields fuel r acc = readFields (r.length + 1) r acc :=
  readFields_fuel _ _ r acc h (by omega)

/-- one iteration of the field loop consumes exactly `p` and takes the collected fields from `a` to `b` -/
def FStep (p : Bytes) (a b : Fields) : Prop := ∀ f rest, readFields (f + 1) (p ++ rest) a = readFields f rest b

/-- `FChain ps a c`: reading the parts `ps` one after the other takes the fields from `a` to `c` -/
inductive FChain : List Bytes → Fields → Fields → Prop
  | nil (a : Fields) : FChain [] a a
  | cons {p : Bytes} {ps : List Bytes} {a b c : Fields} : FStep p a b → FChain ps b c → FChain (p :: ps) a c

theorem FChain.run {ps : List Bytes} {a c : Fields} (h : FChain ps a c) (f : Nat) (rest : Bytes) :
    readFields (f + ps.length) (ps.flatten ++ rest) a = readFields f rest c := by
  induction h generalizing f with
  | nil a => simp
  | cons hs _ ih =>
    rw [List.flatten_cons, List.append_assoc, List.length_cons, ← Nat.add_assoc, hs]
    exact ih f

theorem FChain.insert {ps : List Bytes} {a c : Fields} (h : FChain ps a c) (u : Bytes) (hu : ∀ x, FStep u x x)
    (k : Nat) (hk : k ≤ ps.length) : FChain (ps.take k ++ [u] ++ ps.drop k) a c := by
  induction h generalizing k with
  | nil a =>
    have : k = 0 := by simpa using hk
    subst this
    exact FChain.cons (hu a) (FChain.nil a)
  | cons hs hc ih =>
    cases k with
    | zero => exact FChain.cons (hu _) (FChain.cons hs hc)
    | succ k =>
      have := ih k (by simpa using hk)
      simpa using FChain.cons hs this

/-- a part with an unknown tag is skipped as a whole -/
theorem fstep_unknown (tag : Nat) (body : Bytes) (ht : 6 ≤ tag) (hb : body.length < 65536) (a : Fields) :
    FStep (part tag body) a a := by
  intro f rest
  rw [part_append]
  simp only [readFields, readU8, readU16_ofU16 _ hb]
  have htk : take? body.length (body ++ rest) = some (body, rest) := take?_append _ _ _ rfl
  have h0 : ¬ tag = Generated.PART_END := by simp only [Generated.PART_END]; omega
  have h1 : ¬ tag = Generated.PART_STAGE := by simp only [Generated.PART_STAGE]; omega
  have h2 : ¬ tag = Generated.PART_SALTED_NODE_ID_HASH := by simp only [Generated.PART_SALTED_NODE_ID_HASH]; omega
  have h3 : ¬ tag = Generated.PART_ECDH_PUBLIC_KEY := by simp only [Generated.PART_ECDH_PUBLIC_KEY]; omega
  have h4 : ¬ tag = Generated.PART_ALGORITHMS := by simp only [Generated.PART_ALGORITHMS]; omega
  have h5 : ¬ tag = Generated.PART_PAYLOAD := by simp only [Generated.PART_PAYLOAD]; omega
  simp only [h0, h1, h2, h3, h4, h5, if_false, htk]

/-- the parts of a written handshake message, one list element per part (without the END marker) -/
def partList : InitMsg → List Bytes
  | .ping h e a => [part Generated.PART_STAGE [Generated.STAGE_PING], part Generated.PART_SALTED_NODE_ID_HASH h,
      part Generated.PART_ECDH_PUBLIC_KEY e, part Generated.PART_ALGORITHMS (algosBody a)]
  | .pong h e a p => [part Generated.PART_STAGE [Generated.STAGE_PONG], part Generated.PART_SALTED_NODE_ID_HASH h,
      part Generated.PART_ECDH_PUBLIC_KEY e, part Generated.PART_ALGORITHMS (algosBody a), part Generated.PART_PAYLOAD p]
  | .peng h p => [part Generated.PART_STAGE [Generated.STAGE_PENG], part Generated.PART_SALTED_NODE_ID_HASH h,
      part Generated.PART_PAYLOAD p]

theorem partList_flatten (m : InitMsg) : (partList m).flatten = partsOf m := by
  cases m <;> simp [partList, partsOf]

/-- the signed region of `write_to` is salt, key hash, the parts, the END marker -/
theorem signedRegion_parts (m : InitMsg) (salt khash : Bytes) :
    signedRegion m salt khash = salt ++ (khash ++ ((partList m).flatten ++ [Generated.PART_END])) := by
  rw [signedRegion_eq, partList_flatten]

open C16Init in
theorem fchain_parts (m : InitMsg) (hm : msgWF m) : FChain (partList m) {} (fieldsOf m) := by
  cases m with
  | ping h e a =>
    obtain ⟨hh, he, ha1, ha2⟩ := hm
    exact .cons (fun f rest => step_stage f _ rest _) (.cons (fun f rest => step_hash f h rest _ hh)
      (.cons (fun f rest => step_ecdh f e rest _ he) (.cons (fun f rest => step_algos f a rest _ ha1 ha2) (.nil _))))
  | pong h e a p =>
    obtain ⟨hh, he, ⟨ha1, ha2⟩, hp⟩ := hm
    exact .cons (fun f rest => step_stage f _ rest _) (.cons (fun f rest => step_hash f h rest _ hh)
      (.cons (fun f rest => step_ecdh f e rest _ he) (.cons (fun f rest => step_algos f a rest _ ha1 ha2)
      (.cons (fun f rest => step_payload f p rest _ hp) (.nil _)))))
  | peng h p =>
    obtain ⟨hh, hp⟩ := hm
    exact .cons (fun f rest => step_stage f _ rest _) (.cons (fun f rest => step_hash f h rest _ hh)
      (.cons (fun f rest => step_payload f p rest _ hp) (.nil _)))

/-- the parts of a written message with an unknown part (tag ≥ 6) inserted in front of the `k`-th part (`k = length`: directly
    before the END marker) -/
def withUnknown (m : InitMsg) (k tag : Nat) (body : Bytes) : Bytes :=
  ((partList m).take k ++ [part tag body] ++ (partList m).drop k).flatten

open C16Init in
/-- **unknown_init_parts_skipped (field loop)**: with an unknown part inserted at any part boundary before the END marker, the field
    loop collects exactly the fields of the original message and stops behind the END marker -/
theorem unknown_init_parts_skipped_fields (m : InitMsg) (hm : msgWF m) (k tag : Nat) (body rest : Bytes)
    (hk : k ≤ (partList m).length) (htag : 6 ≤ tag) (hb : body.length < 65536) (fuel : Nat) (hf : 7 ≤ fuel) :
    readFields fuel (withUnknown m k tag body ++ Generated.PART_END :: rest) {} = .ok (fieldsOf m, rest) := by
  have hc := (fchain_parts m hm).insert (part tag body) (fun x => fstep_unknown tag body htag hb x) k hk
  have hlen : ((partList m).take k ++ [part tag body] ++ (partList m).drop k).length = (partList m).length + 1 := by
    simp only [List.length_append, List.length_take, List.length_drop, List.length_cons, List.length_nil]; omega
  have hl6 : (partList m).length + 1 ≤ 6 := by cases m <;> simp [partList]
  obtain ⟨g, rfl⟩ : ∃ g, fuel = (g + 1) + ((partList m).take k ++ [part tag body] ++ (partList m).drop k).length :=
    ⟨fuel - 1 - ((partList m).length + 1), by rw [hlen]; omega⟩
  unfold withUnknown
  rw [hc.run (g + 1) (Generated.PART_END :: rest), step_end]

/-- the frame of `read_from` around the field loop, for any parts `P` that the loop reads with fuel `≥ F` -/
theorem readFrom_frame' (env : CryptoEnv) (salt kh P sig tail k : Bytes) (T : List Bytes) (f : Fields) (F : Nat)
    (hsalt : salt.length = 4) (hkh : kh.length = 4) (hsig : sig.length < 256)
    (hk : T.find? (fun tk => env.keyHash tk salt = kh) = some k)
    (hrf : ∀ fuel, F ≤ fuel → ∀ rest, readFields fuel (P ++ Generated.PART_END :: rest) {} = .ok (f, rest))
    (hP : F ≤ P.length + 2)
    (hv : env.sigVerify k (salt ++ (kh ++ (P ++ [Generated.PART_END]))) sig = true) :
    readFrom env (salt ++ (kh ++ (P ++ [Generated.PART_END])) ++ [sig.length % 256] ++ sig ++ tail) T = assemble f k := by
  have e0 : salt ++ (kh ++ (P ++ [Generated.PART_END])) ++ [sig.length % 256] ++ sig ++ tail =
      salt ++ (kh ++ (P ++ Generated.PART_END :: (sig.length :: (sig ++ tail)))) := by
    simp [Nat.mod_eq_of_lt hsig]
  have e1 : take? 4 (salt ++ (kh ++ (P ++ Generated.PART_END :: (sig.length :: (sig ++ tail))))) =
      some (salt, kh ++ (P ++ Generated.PART_END :: (sig.length :: (sig ++ tail)))) := take?_append 4 _ _ hsalt
  have e2 : take? 4 (kh ++ (P ++ Generated.PART_END :: (sig.length :: (sig ++ tail)))) =
      some (kh, P ++ Generated.PART_END :: (sig.length :: (sig ++ tail))) := take?_append 4 _ _ hkh
  have e3 := hrf ((P ++ Generated.PART_END :: (sig.length :: (sig ++ tail))).length + 1)
    (by simp only [List.length_append, List.length_cons]; omega) (sig.length :: (sig ++ tail))
  have e4 : take? sig.length (sig ++ tail) = some (sig, tail) := take?_append _ _ _ rfl
  have e5 : (salt ++ (kh ++ (P ++ Generated.PART_END :: (sig.length :: (sig ++ tail))))).take
      ((salt ++ (kh ++ (P ++ Generated.PART_END :: (sig.length :: (sig ++ tail))))).length - (sig.length :: (sig ++ tail)).length) =
      salt ++ (kh ++ (P ++ [Generated.PART_END])) := by
    have : salt ++ (kh ++ (P ++ Generated.PART_END :: (sig.length :: (sig ++ tail)))) =
        (salt ++ (kh ++ (P ++ [Generated.PART_END]))) ++ (sig.length :: (sig ++ tail)) := by simp
    rw [this, List.length_append, Nat.add_sub_cancel, List.take_left']
    rfl
  rw [e0]
  unfold readFrom
  simp only [e1, e2, hk, e3, readU8, e4, e5, hv, Bool.not_true, Bool.false_eq_true, if_false]
  rfl

/-- the signed region of a message with an unknown part: salt, key hash, the parts with the unknown one, the END marker -/
def signedRegionWith (m : InitMsg) (k tag : Nat) (body salt khash : Bytes) : Bytes :=
  salt ++ (khash ++ (withUnknown m k tag body ++ [Generated.PART_END]))

open C16Init in
/-- **unknown_init_parts_skipped**: a handshake message with an unknown part (tag ≥ 6, any body that fits the 16-bit length) inserted
    at any part boundary before the END marker is decoded to exactly the original message — PROVIDED the signature verifies over the
    region that contains the unknown part (`hv`).  Compatibility: a newer peer that adds a part and signs what it sends is understood by
    this decoder; nobody else can add (or strip) a part on the way, see `unknown_part_changes_signed_region`. -/
theorem unknown_init_parts_skipped (env : CryptoEnv) (m : InitMsg) (salt sig tail k : Bytes) (T : List Bytes)
    (pos tag : Nat) (body : Bytes)
    (hm : msgWF m) (hsalt : salt.length = 4) (hkh : (env.keyHash k salt).length = 4) (hsig : sig.length < 256)
    (hk : T.find? (fun tk => env.keyHash tk salt = env.keyHash k salt) = some k)
    (hpos : pos ≤ (partList m).length) (htag : 6 ≤ tag) (hb : body.length < 65536)
    (hv : env.sigVerify k (signedRegionWith m pos tag body salt (env.keyHash k salt)) sig = true) :
    readFrom env (signedRegionWith m pos tag body salt (env.keyHash k salt) ++ [sig.length % 256] ++ sig ++ tail) T = .ok (m, k) := by
  have hlen : 7 ≤ (withUnknown m pos tag body).length + 2 := by
    have h1 : (partList m).flatten.length ≤ (withUnknown m pos tag body).length := by
      unfold withUnknown
      conv => lhs; rw [← List.take_append_drop pos (partList m)]
      simp only [List.flatten_append, List.length_append]; omega
    have h2 := partsOf_length m
    rw [partList_flatten] at h1
    omega
  unfold signedRegionWith at hv ⊢
  rw [readFrom_frame' env salt _ (withUnknown m pos tag body) sig tail k T (fieldsOf m) 7 hsalt hkh hsig hk
    (fun fuel hf rest => unknown_init_parts_skipped_fields m hm pos tag body rest hpos htag hb fuel hf) hlen hv, assemble_fieldsOf]

/-- **the unknown part is inside the signed region**: the region the signature must cover differs from the one of the original
    message (it is longer by the inserted part), so the signature of the original message is not a signature of the extended one and
    vice versa — an unknown part can only come from the signer -/
theorem unknown_part_changes_signed_region (m : InitMsg) (k tag : Nat) (body salt khash : Bytes) :
    (signedRegionWith m k tag body salt khash).length = (signedRegion m salt khash).length + body.length + 3 ∧
    signedRegionWith m k tag body salt khash ≠ signedRegion m salt khash := by
  have h : (signedRegionWith m k tag body salt khash).length = (signedRegion m salt khash).length + body.length + 3 := by
    rw [signedRegion_parts]
    unfold signedRegionWith withUnknown
    conv => rhs; rw [← List.take_append_drop k (partList m)]
    simp only [List.flatten_append, List.length_append, List.flatten_cons, List.flatten_nil, part_length, List.length_cons,
      List.length_nil]
    omega
  refine ⟨h, fun e => ?_⟩
  rw [e] at h
  omega

/-! ## (c) no oversized allocation, no read beyond the input -/

theorem readU8_lt (r : Bytes) (h : Bytes.WF r) (v : Nat) (rest : Bytes) (hr : readU8 r = some (v, rest)) : v < 256 := by
  cases r with
  | nil => cases hr
  | cons b r' =>
    simp only [readU8, Option.some.injEq, Prod.mk.injEq] at hr
    simp only [Bytes.wf_cons] at h
    omega

/-- `take?` (`read_exact`) hands out exactly the requested number of bytes from the front of the input, or fails — exactly when the
    input is shorter — and never looks beyond the input -/
theorem take?_spec (n : Nat) (r : Bytes) :
    (n ≤ r.length ∧ ∃ a r', take? n r = some (a, r') ∧ r = a ++ r' ∧ a.length = n) ∨ (r.length < n ∧ take? n r = none) := by
  by_cases h : n ≤ r.length
  · left
    refine ⟨h, r.take n, r.drop n, by simp [take?, h], (List.take_append_drop n r).symm, by rw [List.length_take]; omega⟩
  · right
    exact ⟨by omega, by simp [take?, h]⟩

/-- the same for a read through a `Take` with limit `lim`: in addition the request must not exceed the limit -/
theorem takeLim_spec (n lim : Nat) (r : Bytes) :
    (n ≤ lim ∧ n ≤ r.length ∧ ∃ a r', takeLim n lim r = some (a, lim - n, r') ∧ r = a ++ r' ∧ a.length = n) ∨
    ((lim < n ∨ r.length < n) ∧ takeLim n lim r = none) := by
  by_cases h : n ≤ lim ∧ n ≤ r.length
  · left
    refine ⟨h.1, h.2, r.take n, r.drop n, by simp [takeLim, h], (List.take_append_drop n r).symm, by rw [List.length_take]; omega⟩
  · right
    exact ⟨by omega, by simp [takeLim, h]⟩

/-- **decode_alloc_bounded**: on well-formed bytes (`< 256` each) every length a decoder of `Model/NodeInfo.lean` / `Model/InitMsg.lean`
    takes from the wire comes from `readU8` (`≤ 255`) or `readU16` (`≤ 65535 = MSG_BUFFER_SIZE`, the size of the receive buffer), and every
    byte string it builds comes from `take?` / `takeLim`, which return exactly the requested number of bytes out of the input or fail.  So
    no buffer larger than the largest datagram is ever requested and nothing behind the input is read. -/
theorem decode_alloc_bounded (r : Bytes) (hr : Bytes.WF r) :
    (∀ v rest, readU8 r = some (v, rest) → v ≤ 255 ∧ r = v :: rest) ∧
    (∀ v rest, readU16 r = some (v, rest) → v ≤ Generated.MSG_BUFFER_SIZE ∧ rest.length + 2 = r.length) ∧
    (∀ n a rest, take? n r = some (a, rest) → a.length = n ∧ n ≤ r.length ∧ r = a ++ rest) ∧
    (∀ n lim a lim' rest, takeLim n lim r = some (a, lim', rest) → a.length = n ∧ n ≤ lim ∧ n ≤ r.length ∧ r = a ++ rest ∧ lim' = lim - n) := by
  refine ⟨?_, ?_, ?_, ?_⟩
  · intro v rest h
    have := readU8_lt r hr v rest h
    exact ⟨by omega, InitLemmas.readU8_some h⟩
  · intro v rest h
    have := C16.readU16_lt r hr v rest h
    obtain ⟨a, b, e⟩ := InitLemmas.readU16_some h
    exact ⟨by simp only [Generated.MSG_BUFFER_SIZE]; omega, by rw [e]; rfl⟩
  · intro n a rest h
    obtain ⟨e, l⟩ := InitLemmas.take?_some h
    refine ⟨l, ?_, e⟩
    have := congrArg List.length e
    rw [List.length_append] at this; omega
  · intro n lim a lim' rest h
    rcases takeLim_spec n lim r with ⟨h1, h2, a', r', e, e', l⟩ | ⟨_, e⟩
    · rw [e] at h
      simp only [Option.some.injEq, Prod.mk.injEq] at h
      obtain ⟨rfl, rfl, rfl⟩ := h
      exact ⟨l, h1, h2, e', rfl⟩
    · rw [e] at h; cases h

/-- the fields the handshake decoder returns lie within the input: each byte-string field is no longer than the input (and shorter than
    65536 bytes on well-formed input), the algorithm list has at most a fifth as many entries as the input has bytes -/
theorem readFields_bounded : ∀ (fuel : Nat) (r : Bytes) (acc f : Fields) (r' : Bytes) (B : Nat),
    readFields fuel r acc = .ok (f, r') → r.length ≤ B →
    (∀ x, acc.hash = some x → x.length ≤ B) → (∀ x, acc.ecdh = some x → x.length ≤ B) → (∀ x, acc.payload = some x → x.length ≤ B) →
    (∀ x, f.hash = some x → x.length ≤ B) ∧ (∀ x, f.ecdh = some x → x.length ≤ B) ∧ (∀ x, f.payload = some x → x.length ≤ B) := by
  intro fuel
  induction fuel with
  | zero => intro r acc f r' B h; cases h
  | succ n ih =>
    intro r acc f r' B h hB a1 a2 a3
    unfold readFields at h
    split at h
    · cases h
    · rename_i field r1 e1
      have l1 : r.length = r1.length + 1 := by rw [InitLemmas.readU8_some e1]; rfl
      split at h
      · simp only [Except.ok.injEq, Prod.mk.injEq] at h
        rw [← h.1]; exact ⟨a1, a2, a3⟩
      · split at h
        · cases h
        · rename_i len r2 e2
          obtain ⟨a, b, e2'⟩ := InitLemmas.readU16_some e2
          have l2 : r1.length = r2.length + 2 := by rw [e2']; rfl
          have htake : ∀ {k : Nat} {x r3 : Bytes}, take? k r2 = some (x, r3) → r3.length ≤ r2.length ∧ x.length ≤ r2.length := by
            intro k x r3 h
            have := congrArg List.length (InitLemmas.take?_some h).1
            rw [List.length_append] at this; omega
          repeat' split at h
          all_goals first
            | cases h
            | (rename_i h3
               have := htake h3
               exact ih _ _ _ _ B h (by omega) (by first | exact a1 | (intro x hx; simp only [Option.some.injEq] at hx; subst hx; omega))
                 (by first | exact a2 | (intro x hx; simp only [Option.some.injEq] at hx; subst hx; omega))
                 (by first | exact a3 | (intro x hx; simp only [Option.some.injEq] at hx; subst hx; omega)))
            | (rename_i h3
               have := congrArg List.length (InitLemmas.readU8_some h3)
               simp only [List.length_cons] at this
               exact ih _ _ _ _ B h (by omega) a1 a2 a3)
            | (rename_i h3
               obtain ⟨pre, hp⟩ := InitLemmas.readAlgos_suffix _ _ _ _ _ h3
               have := congrArg List.length hp
               rw [List.length_append] at this
               exact ih _ _ _ _ B h (by omega) a1 a2 a3)

/-! ## non-vacuity and witnesses -/
section Examples
open C16Init

/-- a rotation message followed by stale bytes; a truncated one; one whose confirm length byte announces more than there is -/
example : readRotMsg (writeRotMsg ⟨5, [1, 2, 3], some [4, 5]⟩ ++ [9, 9, 9]) = some ⟨5, [1, 2, 3], some [4, 5]⟩ := by decide +kernel
example : rotNeed (writeRotMsg ⟨5, [1, 2, 3], some [4, 5]⟩ ++ [9, 9, 9]) = 15 ∧ (writeRotMsg ⟨5, [1, 2, 3], some [4, 5]⟩ ++ [9, 9, 9]).length = 18 := by
  decide +kernel
example : readRotMsg ((writeRotMsg ⟨5, [1, 2, 3], some [4, 5]⟩).take 14) = none ∧
    rotNeed ((writeRotMsg ⟨5, [1, 2, 3], some [4, 5]⟩).take 14) = 15 := by decide +kernel
example : readRotMsg [0, 0, 0, 0, 0, 0, 0, 1, 200] = none ∧ rotNeed [0, 0, 0, 0, 0, 0, 0, 1, 200] = 210 := by decide +kernel
/-- stale bytes are NOT ignored when the message itself is truncated: the parser then reads into them.  (In the Rust, `buffer.buffer()` also
    covers what lies behind the decrypted plaintext, so a truncated sealed rotation message would be completed from those bytes; the model's
    `handleRotate` gets only the plaintext in the encrypted case.  The two agree whenever the plaintext itself parses —
    `rotmsg_trailing_ignored`, `C07Session.handleRotate_tail_irrelevant` — in particular for everything `write_to` produces.) -/
example : readRotMsg ((writeRotMsg ⟨5, [1, 2, 3], some [4, 5]⟩).take 14 ++ [7]) = some ⟨5, [1, 2, 3], some [4, 7]⟩ := by decide +kernel

/-- toy cryptography with a signature that depends on the whole signed region (its length and byte sum) -/
private def toyEnv : CryptoEnv :=
  { keyHash := fun k s => (k ++ s).take 4, nodeHash := fun s i => (s ++ i).take 16,
    sigVerify := fun _ m s => s = [m.length % 256, (m.foldl (· + ·) 0) % 256] }

private def h20 : Bytes := List.replicate 20 7
private def toyPong : InitMsg := .pong h20 [1, 2, 3] ⟨[(.aes256, 1000)], true⟩ [9, 9]
private def key5 : Bytes := [1, 2, 3, 4, 5]
private def salt4 : Bytes := [5, 6, 7, 8]
private def sigOf (m : Bytes) : Bytes := [m.length % 256, (m.foldl (· + ·) 0) % 256]

private theorem toyPong_wf : msgWF toyPong := by
  refine ⟨by decide, by decide, ⟨?_, by decide⟩, by decide⟩
  intro p hp
  simp at hp
  subst hp
  decide

private def isOk (r : Except InitErr (InitMsg × Bytes)) (m : InitMsg) (k : Bytes) : Bool :=
  match r with
  | .ok (m', k') => m' = m ∧ k' = k
  | .error _ => false

private def isErr (r : Except InitErr (InitMsg × Bytes)) (e : InitErr) : Bool :=
  match r with
  | .ok _ => false
  | .error e' => e' = e

/-- `unknown_init_parts_skipped` applies: an unknown part (tag 77, three body bytes) in front of the third part of a pong, signed by the
    sender with the part included — all hypotheses hold -/
example : readFrom toyEnv (signedRegionWith toyPong 2 77 [1, 2, 3] salt4 (toyEnv.keyHash key5 salt4) ++
      [(sigOf (signedRegionWith toyPong 2 77 [1, 2, 3] salt4 (toyEnv.keyHash key5 salt4))).length % 256] ++
      sigOf (signedRegionWith toyPong 2 77 [1, 2, 3] salt4 (toyEnv.keyHash key5 salt4)) ++ [42]) [[8, 8, 8, 8], key5] = .ok (toyPong, key5) :=
  unknown_init_parts_skipped toyEnv toyPong salt4 _ [42] key5 [[8, 8, 8, 8], key5] 2 77 [1, 2, 3] toyPong_wf (by decide) (by decide)
    (by decide) (by decide +kernel) (by decide) (by decide) (by decide) rfl

/-- … and by evaluation, at every part boundary (0 … 5; 5 = directly before the END marker) -/
example : ∀ pos, pos ≤ 5 → isOk (readFrom toyEnv (signedRegionWith toyPong pos 77 [1, 2, 3] salt4 (toyEnv.keyHash key5 salt4) ++
      [2] ++ sigOf (signedRegionWith toyPong pos 77 [1, 2, 3] salt4 (toyEnv.keyHash key5 salt4)) ++ [42]) [[8, 8, 8, 8], key5]) toyPong key5 = true := by
  decide +kernel

/-- the signature of the ORIGINAL message does not cover the extended one: inserting a part on the way makes the message invalid -/
example : isErr (readFrom toyEnv (signedRegionWith toyPong 2 77 [1, 2, 3] salt4 (toyEnv.keyHash key5 salt4) ++
      [2] ++ sigOf (signedRegion toyPong salt4 (toyEnv.keyHash key5 salt4)) ++ [42]) [[8, 8, 8, 8], key5]) .crypto = true := by
  decide +kernel

/-- the original message with its own signature is of course accepted -/
example : isOk (readFrom toyEnv (writeTo toyPong salt4 (toyEnv.keyHash key5 salt4) (sigOf (signedRegion toyPong salt4 (toyEnv.keyHash key5 salt4))) ++ [42])
    [[8, 8, 8, 8], key5]) toyPong key5 = true := by decide +kernel

/-- a known tag is NOT skipped (the hypothesis `6 ≤ tag` is needed): a second PAYLOAD part replaces the payload -/
example : isOk (readFrom toyEnv (signedRegionWith toyPong 5 5 [1, 2, 3] salt4 (toyEnv.keyHash key5 salt4) ++
      [2] ++ sigOf (signedRegionWith toyPong 5 5 [1, 2, 3] salt4 (toyEnv.keyHash key5 salt4)) ++ [42]) [[8, 8, 8, 8], key5])
    (.pong h20 [1, 2, 3] ⟨[(.aes256, 1000)], true⟩ [1, 2, 3]) key5 = true := by decide +kernel

/-- fuel: the field loop on 40 arbitrary bytes gives the same answer with the fuel of `readFrom` and with ten times as much -/
example : readFields (40 + 1 + 400) (List.replicate 40 9) {} = readFields (40 + 1) (List.replicate 40 9) {} :=
  init_decode_total (List.replicate 40 9) {} 400

end Examples

end VpnCloud.Proofs.C16More
