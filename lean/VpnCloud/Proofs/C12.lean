import VpnCloud.Model.Table
import VpnCloud.Spec.TableSpec
namespace VpnCloud.Proofs.C12
end VpnCloud.Proofs.C12
