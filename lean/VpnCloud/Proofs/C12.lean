import VpnCloud.Model.Table
import VpnCloud.Spec.TableSpec
import VpnCloud.Proofs.Lemmas.TableLemmas
/-
  C12 — Claims are exact, expire, and vanish with their peer.  Property theorems.
-/
namespace VpnCloud.Proofs.C12
open VpnCloud VpnCloud.Table VpnCloud.Spec VpnCloud.Spec.TableSpec VpnCloud.Proofs.TableLemmas

/-! ### `set_claims` -/

theorem setClaims_claims (t : Table) (now : Int) (p : PeerId) (cs : List Range) :
    (t.setClaims now p cs).claims =
      ((setClaimsLoop p (now + t.claimTimeout) t.claims cs false).1 ++
        (setClaimsLoop p (now + t.claimTimeout) t.claims cs false).2.1.map
          (fun c => ({ peer := p, claim := c, timeout := now + t.claimTimeout } : ClaimEntry))).filter
        (fun e => e.timeout ≥ now) := rfl

theorem setClaims_cache (t : Table) (now : Int) (p : PeerId) (cs : List Range) :
    (t.setClaims now p cs).cache =
      (if (setClaimsLoop p (now + t.claimTimeout) t.claims cs false).2.2 then
          t.cache.map (fun v => if v.peer = p then { v with timeout := 0 } else v)
        else t.cache).filter (fun v => v.timeout ≥ now) := rfl

/-- an entry of `p` after `set_claims` is fresh and was announced -/
theorem setClaims_mem_peer (t : Table) (now : Int) (p : PeerId) (cs : List Range) (hnow : 0 < now)
    (e : ClaimEntry) (he : e ∈ (t.setClaims now p cs).claims) (hp : e.peer = p) :
    e.timeout = now + t.claimTimeout ∧ e.claim ∈ cs := by
  rw [setClaims_claims, List.mem_filter, List.mem_append] at he
  rcases he with ⟨he | he, hto⟩
  · rcases loop_mem_peer p _ _ _ _ e he hp with h | h
    · exact h
    · simp only [h, ge_iff_le, decide_eq_true_eq] at hto
      omega
  · rcases List.mem_map.1 he with ⟨c, hc, rfl⟩
    exact ⟨rfl, loop_rest_subset p _ _ _ _ c hc⟩

/-- every announced range is attributed to `p` after `set_claims` -/
theorem setClaims_cover (t : Table) (now : Int) (p : PeerId) (cs : List Range)
    (x : Range) (hx : x ∈ cs) : ∃ e ∈ (t.setClaims now p cs).claims, e.peer = p ∧ e.claim = x := by
  rw [setClaims_claims]
  rcases loop_cover p (now + t.claimTimeout) t.claims cs false x hx with h | ⟨e, he, hp, hc, hto⟩
  · refine ⟨{ peer := p, claim := x, timeout := now + t.claimTimeout }, ?_, rfl, rfl⟩
    rw [List.mem_filter, List.mem_append]
    refine ⟨Or.inr (List.mem_map.2 ⟨x, h, rfl⟩), ?_⟩
    simp only [ge_iff_le, decide_eq_true_eq]
    omega
  · refine ⟨e, ?_, hp, hc⟩
    rw [List.mem_filter, List.mem_append]
    refine ⟨Or.inl he, ?_⟩
    simp only [hto, ge_iff_le, decide_eq_true_eq]
    omega

/-- entries of other peers are only swept -/
theorem setClaims_others (t : Table) (now : Int) (p : PeerId) (cs : List Range) :
    (t.setClaims now p cs).claims.filter (fun e => e.peer ≠ p) =
      (t.claims.filter (fun e => e.peer ≠ p)).filter (fun e => e.timeout ≥ now) := by
  rw [setClaims_claims, filter_comm, List.filter_append]
  have h2 : ((setClaimsLoop p (now + t.claimTimeout) t.claims cs false).2.1.map
      (fun c => ({ peer := p, claim := c, timeout := now + t.claimTimeout } : ClaimEntry))).filter
      (fun e => decide (e.peer ≠ p)) = [] := by
    rw [List.filter_eq_nil_iff]
    intro e he
    rcases List.mem_map.1 he with ⟨c, _, rfl⟩
    simp
  rw [h2, List.append_nil, loop_filter_ne]

/-- if a range of `p` is dropped, the flag of the loop is set -/
theorem setClaims_flag (t : Table) (now : Int) (p : PeerId) (cs : List Range)
    (h : (claimsOf t p).any (fun r => !cs.contains r) = true) :
    (setClaimsLoop p (now + t.claimTimeout) t.claims cs false).2.2 = true := by
  apply loop_flag
  right
  simp only [claimsOf, List.any_eq_true, List.mem_map, List.mem_filter, decide_eq_true_eq,
    Bool.not_eq_true'] at h
  rcases h with ⟨r, ⟨e, ⟨he, hp⟩, rfl⟩, hr⟩
  exact ⟨e, he, hp, by simpa using hr⟩

theorem setClaims_exact (t : Table) (now : Int) (p : PeerId) (cs : List Range) (hnow : 0 < now) :
    announceOk t now p cs (t.setClaims now p cs) = true := by
  simp only [announceOk, Bool.and_eq_true]
  refine ⟨⟨⟨⟨⟨?_, ?_⟩, ?_⟩, ?_⟩, ?_⟩, ?_⟩
  · simp [sameParams, setClaims, housekeep]
  · simp only [claimsOf, List.all_eq_true, List.mem_map, List.mem_filter, decide_eq_true_eq,
      List.contains_iff_mem]
    rintro r ⟨e, ⟨he, hp⟩, rfl⟩
    exact (setClaims_mem_peer t now p cs hnow e he hp).2
  · simp only [claimsOf, List.all_eq_true, List.contains_iff_mem, List.mem_map, List.mem_filter,
      decide_eq_true_eq]
    intro x hx
    rcases setClaims_cover t now p cs x hx with ⟨e, he, hp, hc⟩
    exact ⟨e, ⟨he, hp⟩, hc⟩
  · simp only [List.all_eq_true, List.mem_filter, decide_eq_true_eq]
    rintro e ⟨he, hp⟩
    exact (setClaims_mem_peer t now p cs hnow e he hp).1
  · simp only [decide_eq_true_eq]
    exact setClaims_others t now p cs
  · rw [setClaims_cache]
    cases hf : (setClaimsLoop p (now + t.claimTimeout) t.claims cs false).2.2 with
    | true =>
      simp only [if_true, Bool.or_eq_true]
      left
      rw [zero_filter_cache _ _ _ hnow, sameSet_iff]
      intro v
      simp only [List.mem_filter, Bool.and_eq_true, decide_eq_true_eq]
      exact ⟨fun ⟨a, b, c⟩ => ⟨a, c, b⟩, fun ⟨a, b, c⟩ => ⟨a, c, b⟩⟩
    | false =>
      simp only [Bool.false_eq_true, if_false, Bool.or_eq_true, Bool.and_eq_true]
      right
      refine ⟨?_, sameSet_refl _⟩
      cases hd : (claimsOf t p).any (fun r => !cs.contains r) with
      | false => rfl
      | true => rw [setClaims_flag t now p cs hd] at hf; cases hf

/-- peer 1 re-announces 10/8, drops 10.2/16 and adds 10.3/16 at time 100 (so `0 < now` holds) -/
example : (0 : Int) < 100 ∧
    (exTable.setClaims 100 1 [⟨[10, 0, 0, 0], 8⟩, ⟨[10, 3, 0, 0], 16⟩]).claims =
      [⟨1, ⟨[10, 0, 0, 0], 8⟩, 1900⟩, ⟨2, ⟨[10, 1, 0, 0], 16⟩, 2000⟩, ⟨1, ⟨[10, 3, 0, 0], 16⟩, 1900⟩] ∧
    (exTable.setClaims 100 1 [⟨[10, 0, 0, 0], 8⟩, ⟨[10, 3, 0, 0], 16⟩]).cache = [⟨[10, 1, 0, 1], 2, 400⟩] ∧
    announceOk exTable 100 1 [⟨[10, 0, 0, 0], 8⟩, ⟨[10, 3, 0, 0], 16⟩]
      (exTable.setClaims 100 1 [⟨[10, 0, 0, 0], 8⟩, ⟨[10, 3, 0, 0], 16⟩]) = true := by
  decide

/-! ### `remove_claims` -/

theorem removeClaims_claims (t : Table) (now : Int) (p : PeerId) (hnow : 0 < now) :
    (t.removeClaims now p).claims = t.claims.filter (fun e => e.peer ≠ p && e.timeout ≥ now) :=
  zero_filter_claims t.claims p now hnow

theorem removeClaims_cache (t : Table) (now : Int) (p : PeerId) (hnow : 0 < now) :
    (t.removeClaims now p).cache = t.cache.filter (fun v => v.peer ≠ p && v.timeout ≥ now) :=
  zero_filter_cache t.cache p now hnow

theorem removeClaims_clears (t : Table) (now : Int) (p : PeerId) (hnow : 0 < now) :
    disconnectOk t now p (t.removeClaims now p) = true := by
  simp only [disconnectOk, Bool.and_eq_true, decide_eq_true_eq]
  refine ⟨⟨?_, removeClaims_claims t now p hnow⟩, ?_⟩
  · simp [sameParams, removeClaims, housekeep]
  · rw [removeClaims_cache t now p hnow]
    exact sameSet_refl _

/-- removing peer 1 at time 100 leaves only the live claim and the cached decision of peer 2; afterwards an address
    formerly routed to peer 1 has no next hop -/
example : (0 : Int) < 100 ∧
    (exTable.removeClaims 100 1).claims = [⟨2, ⟨[10, 1, 0, 0], 16⟩, 2000⟩] ∧
    (exTable.removeClaims 100 1).cache = [⟨[10, 1, 0, 1], 2, 400⟩] ∧
    disconnectOk exTable 100 1 (exTable.removeClaims 100 1) = true ∧
    (exTable.lookup 101 [10, 2, 0, 1]).2 = some 1 ∧
    ((exTable.removeClaims 100 1).lookup 101 [10, 2, 0, 1]).2 = none ∧
    ((exTable.removeClaims 100 1).lookup 101 [10, 1, 0, 1]).2 = some 2 := by
  decide

/-- `0 < now` is needed: at time 0 (or before) the marker timeout `0` is not in the past, so the marked entries
    survive the sweep -/
example : disconnectOk exTable 0 1 (exTable.removeClaims 0 1) = false ∧
    ((exTable.removeClaims 0 1).lookup 0 [10, 2, 0, 1]).2 = some 1 := by
  decide

/-! ### `housekeep` -/

theorem housekeep_spec (t : Table) (now : Int) : sweepOk t now (t.housekeep now) = true := by
  simp only [sweepOk, Bool.and_eq_true, decide_eq_true_eq]
  refine ⟨⟨?_, rfl⟩, sameSet_refl _⟩
  simp [sameParams, housekeep]

/-- claims expire: after a sweep every remaining claim has a timeout that is not in the past, and a claim announced at `now`
    carries the timeout `now + claimTimeout` -/
theorem claims_expire (t : Table) (now : Int) : ∀ e ∈ (t.housekeep now).claims, e.timeout ≥ now := by
  intro e he
  simp only [housekeep, Generated.claimLive, List.mem_filter, decide_eq_true_eq] at he
  exact he.2

/-- the sweep at time 100 drops the claim that expired at 50 and nothing else -/
example : (exTable.housekeep 100).claims =
      [⟨1, ⟨[10, 0, 0, 0], 8⟩, 2000⟩, ⟨2, ⟨[10, 1, 0, 0], 16⟩, 2000⟩] ∧
    (exTable.housekeep 100).cache = exTable.cache ∧
    sweepOk exTable 100 (exTable.housekeep 100) = true := by
  decide

/-! ### sweeps compose: a late, skipped or repeated sweep neither loses a live entry nor keeps an expired one -/

/-- sweeping at `now` and then at a later `now'` leaves exactly what one sweep at `now'` leaves (for every table): the
    one-second housekeeping rhythm is not load-bearing for WHICH entries are live after a sweep -/
theorem housekeep_compose (t : Table) (now now' : Int) (h : now ≤ now') :
    (t.housekeep now).housekeep now' = t.housekeep now' := by
  simp only [housekeep, List.filter_filter, Generated.cacheLive, Generated.claimLive]
  congr 1
  · apply List.filter_congr
    intro v _
    by_cases h1 : now' ≤ v.timeout
    · have : now ≤ v.timeout := by omega
      simp [h1, this]
    · simp [h1]
  · apply List.filter_congr
    intro e _
    by_cases h1 : now' ≤ e.timeout
    · have : now ≤ e.timeout := by omega
      simp [h1, this]
    · simp [h1]

/-- a sweep is idempotent -/
theorem housekeep_idem (t : Table) (now : Int) : (t.housekeep now).housekeep now = t.housekeep now :=
  housekeep_compose t now now (Int.le_refl _)

/-- a sweep keeps every claim and learned entry that has not expired, in table order (claims are a sublist: the order that
    decides ties between equally long prefixes is untouched) -/
theorem housekeep_keeps_live (t : Table) (now : Int) :
    (∀ e ∈ t.claims, now ≤ e.timeout → e ∈ (t.housekeep now).claims) ∧
    (∀ v ∈ t.cache, now ≤ v.timeout → v ∈ (t.housekeep now).cache) ∧
    (t.housekeep now).claims.Sublist t.claims := by
  refine ⟨?_, ?_, List.filter_sublist⟩
  · intro e he hl
    simp only [housekeep, Generated.claimLive, List.mem_filter, decide_eq_true_eq]
    exact ⟨he, hl⟩
  · intro v hv hl
    simp only [housekeep, Generated.cacheLive, List.mem_filter, decide_eq_true_eq]
    exact ⟨hv, hl⟩

/-- a table in which nothing has expired is a fixed point of the sweep (a healthy mesh's table is not rewritten) -/
theorem housekeep_fixed (t : Table) (now : Int) (hc : ∀ e ∈ t.claims, now ≤ e.timeout) (hv : ∀ v ∈ t.cache, now ≤ v.timeout) :
    t.housekeep now = t := by
  cases t with
  | mk cache claims ct clt =>
    simp only [housekeep, Generated.cacheLive, Generated.claimLive, Table.mk.injEq, and_true]
    constructor
    · apply List.filter_eq_self.2
      intro v h; simpa using hv v h
    · apply List.filter_eq_self.2
      intro e h; simpa using hc e h

/-- premises are satisfiable and the order of the two sweeps matters: sweeping at 100 after 3000 is not sweeping at 100 -/
example : ((exTable.housekeep 100).housekeep 3000).claims = (exTable.housekeep 3000).claims ∧
    ((exTable.housekeep 3000).housekeep 100).claims ≠ (exTable.housekeep 100).claims := by
  decide


/-! ### `lookup` only returns peers present in the table -/

/-- a lookup can only return a peer that has a claim or a cached entry in the table -/
theorem lookup_result_mem (t : Table) (now : Int) (a : Addr) (q : PeerId) (h : (t.lookup now a).2 = some q) :
    (∃ v ∈ t.cache, v.peer = q) ∨ (∃ e ∈ t.claims, e.peer = q) := by
  unfold lookup at h
  split at h
  · rename_i v hv
    simp only [Option.some.injEq] at h
    exact Or.inl ⟨v, List.mem_of_find?_eq_some hv, h⟩
  · split at h
    · rename_i e he
      simp only [Option.some.injEq] at h
      rcases (scan_some a t.claims none e he).1 with ⟨hm, _⟩ | hn
      · exact Or.inr ⟨e, hm, h⟩
      · cases hn
    · cases h

/-- hence a removed peer is never selected as next hop -/
theorem removed_peer_unreachable (t : Table) (now now' : Int) (p : PeerId) (a : Addr) (hnow : 0 < now) :
    ((t.removeClaims now p).lookup now' a).2 ≠ some p := by
  intro h
  rcases lookup_result_mem _ now' a p h with ⟨v, hv, hp⟩ | ⟨e, he, hp⟩
  · rw [removeClaims_cache t now p hnow] at hv
    simp [List.mem_filter] at hv
    exact hv.2.1 hp
  · rw [removeClaims_claims t now p hnow] at he
    simp [List.mem_filter] at he
    exact he.2.1 hp

end VpnCloud.Proofs.C12
