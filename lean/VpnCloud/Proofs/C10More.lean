import VpnCloud.Model.Node
import VpnCloud.Proofs.Lemmas.C10MoreLemmas
import VpnCloud.Proofs.C10
import VpnCloud.Proofs.C11Node
import VpnCloud.Proofs.C12Node
/-
  C10 — forwarding isolation, exact once-only delivery — and the broadcast clause of C13 / C11, at node level, one step.

  * receive side: a frame is written to the interface only as the body of a DATA message that the session of the established
    peer with the sender's address opened from a datagram without handshake marker; at most one per datagram
    (`iface_write_only_from_peer_data`, `non_peer_never_reaches_iface`, `handshake_never_reaches_iface`, `at_most_one_iface_write`);
  * housekeeping and dialling never write to the interface and never send payload (`housekeep_no_iface`, `connect_no_iface`,
    `housekeep_sends_no_payload`, `housekeep_never_sends_data`);
  * send side: a frame for a known destination goes to exactly that peer, once (`emit_known`); a frame for an unknown destination goes
    to all peers once each in switch / hub mode (`emit_unknown_broadcast` and corollaries) and nowhere in router mode (`emit_unknown_router`);
  * two nodes: what A's session sealed for B and B's session opens arrives at B's interface byte-identical, exactly once, and causes
    no other output (`one_hop_exactly_once`, `one_hop_in_sync` with `session_roundtrip`).

  Hypothesis added (statement 1 is false without it, counterexample below): `PendFreshAt` — if the sender is not an established peer, the
  session of its pending handshake has neither a crypto core nor the `unencrypted` flag.  It holds in every reachable state
  (`C12Node.PendFresh`, `pendFreshAt_of_reach`).
-/
namespace VpnCloud.Proofs.C10More

open VpnCloud VpnCloud.Node
open VpnCloud.Proofs.NodeLemmas VpnCloud.Proofs.NodeLemmas2 VpnCloud.Proofs.NodeInvLemmas VpnCloud.Proofs.C10MoreLemmas

/-! ## 1. what reaches the interface while a datagram is processed -/

/-- if `a` is not an established peer, the session of its pending handshake (if any) has neither a crypto core nor the `unencrypted` flag,
    so it cannot open payload messages -/
def PendFreshAt (n : Node) (a : NAddr) : Prop :=
  ∀ pc, lookupA n.peers a = none → lookupA n.pending a = some pc → pc.unencrypted = false ∧ pc.core = none

/-- … which is part of the inductive invariant of `C12Node` -/
theorem pendFreshAt_of_pendFresh {n : Node} (h : C12Node.PendFresh n) (a : NAddr) : PendFreshAt n a :=
  fun pc _ hq => h a pc (lookupA_some_mem hq)

/-- … and so holds in every state reachable (by any sequence of the four node operations) from a state that satisfies that invariant,
    e.g. from a node without peers, pending handshakes and table entries -/
theorem pendFreshAt_of_reach {n0 n : Node} (h0 : C12Node.Inv n0) (h : C12Node.Reach n0 n) (a : NAddr) : PendFreshAt n a :=
  pendFreshAt_of_pendFresh (C12Node.inv_reach h0 h).2 a

/-- **iface_write_only_from_peer_data**: a node writes a frame to its interface only if the sender of the datagram is an established peer,
    the datagram has no handshake marker, and the peer's session opened it as a DATA message with exactly these bytes (which parse as a
    frame / packet).  Hypothesis `PendFreshAt` added, see the counterexample below. -/
theorem iface_write_only_from_peer_data (env : CryptoEnv) (bodyOf : Init.BodyOf) (o : Oracle) (n : Node) (now : Int) (src : NAddr)
    (data tail b : Bytes) (hfresh : PendFreshAt n (mappedAddr src))
    (h : Out.iface b ∈ (handleNet env bodyOf o n now src data tail).1.outs) :
    ∃ p, lookupA n.peers (mappedAddr src) = some p ∧ data.head? ≠ some Generated.INIT_MESSAGE_FIRST_BYTE ∧
      (∃ pc out log, PeerCrypto.handleMessage env bodyOf payloadOk p.crypto data tail
          (rndFor o { node := n } (mappedAddr src)).1 (rndFor o { node := n } (mappedAddr src)).2.1 =
        .ok pc out (.message Generated.MESSAGE_TYPE_DATA b) log) ∧
      (parseAddrs n b).isSome = true := by
  rw [handleNet_eq, finish_outs, ← mem_ifaces, dispatch_ifaces env bodyOf o n now _ data tail hfresh] at h
  cases hp : lookupA n.peers (mappedAddr src) with
  | none => rw [hp] at h; cases h
  | some p =>
    rw [hp] at h
    simp only [] at h
    by_cases hi : data.head? = some Generated.INIT_MESSAGE_FIRST_BYTE
    · rw [if_pos hi] at h; cases h
    · rw [if_neg hi] at h
      refine ⟨p, rfl, hi, ?_⟩
      generalize PeerCrypto.handleMessage env bodyOf payloadOk p.crypto data tail
        (rndFor o { node := n } (mappedAddr src)).1 (rndFor o { node := n } (mappedAddr src)).2.1 = r at h
      cases r with
      | panic => cases h
      | err _ _ => cases h
      | ok pc out res log =>
        obtain ⟨d, hres, hx, hpa⟩ := mem_resIface h
        cases hx
        exact ⟨⟨pc, out, log, by rw [hres]⟩, hpa⟩

/-- **non_peer_never_reaches_iface**: a datagram from an address that is not an established peer never reaches the interface -/
theorem non_peer_never_reaches_iface (env : CryptoEnv) (bodyOf : Init.BodyOf) (o : Oracle) (n : Node) (now : Int) (src : NAddr)
    (data tail : Bytes) (hfresh : PendFreshAt n (mappedAddr src)) (hp : lookupA n.peers (mappedAddr src) = none) :
    ∀ b, Out.iface b ∉ (handleNet env bodyOf o n now src data tail).1.outs := by
  intro b hb
  obtain ⟨p, hp', _⟩ := iface_write_only_from_peer_data env bodyOf o n now src data tail b hfresh hb
  rw [hp] at hp'
  cases hp'

/-- **handshake_never_reaches_iface**: a datagram with the handshake marker never reaches the interface, whoever sent it and whatever the
    state of the node (no hypothesis needed) -/
theorem handshake_never_reaches_iface (env : CryptoEnv) (bodyOf : Init.BodyOf) (o : Oracle) (n : Node) (now : Int) (src : NAddr)
    (data tail : Bytes) (hi : data.head? = some Generated.INIT_MESSAGE_FIRST_BYTE) :
    ∀ b, Out.iface b ∉ (handleNet env bodyOf o n now src data tail).1.outs := by
  intro b hb
  rw [handleNet_eq, finish_outs, ← mem_ifaces, dispatch_ifaces_init env bodyOf o n now _ data tail hi] at hb
  cases hb

/-- **at_most_one_iface_write**: one received datagram causes at most one write to the interface (no amplification; no hypothesis needed) -/
theorem at_most_one_iface_write (env : CryptoEnv) (bodyOf : Init.BodyOf) (o : Oracle) (n : Node) (now : Int) (src : NAddr)
    (data tail : Bytes) :
    ((handleNet env bodyOf o n now src data tail).1.outs.filter (fun x => match x with | .iface _ => true | _ => false)).length ≤ 1 := by
  rw [handleNet_eq, finish_outs]
  exact dispatch_ifaces_le env bodyOf o n now _ data tail

/-! ## 2. / 3. housekeeping and dialling -/

/-- **housekeep_no_iface**: the periodic housekeeping never writes to the interface -/
theorem housekeep_no_iface (env : CryptoEnv) (o : Oracle) (n : Node) (now : Int) : ∀ b, Out.iface b ∉ (housekeep env o n now).outs := by
  intro b hb
  obtain ⟨d, b', h⟩ := ((housekeep_hk env o n now).1 _ hb).isDgram
  cases h

/-- **connect_no_iface**: dialling peers never writes to the interface; all it emits are handshake datagrams -/
theorem connect_no_iface (env : CryptoEnv) (o : Oracle) (n : Node) (addrs : List NAddr) :
    (∀ b, Out.iface b ∉ (connect env o { node := n } addrs).outs) ∧
    ∀ x ∈ (connect env o { node := n } addrs).outs, IsHs x := by
  have hall : ∀ x ∈ (connect env o { node := n } addrs).outs, IsHs x := by
    intro x hx
    rcases (connect_ext env o { node := n } addrs).mem hx with h | h
    · cases h
    · exact h
  refine ⟨fun b hb => ?_, hall⟩
  obtain ⟨d, b', h⟩ := hall _ hb
  cases h

/-- **housekeep_sends_no_payload**: every datagram the housekeeping emits is a handshake datagram, the seal of a ROTATION message, or the
    seal (by `send_message … NODE_INFO`) of the node info of some node state (`HkOut`, with the seals recorded in the log of the step);
    and every genuine seal logged during the step has a plaintext that starts with the ROTATION or the NODE_INFO type byte.
    So the housekeeping never sends payload (`MESSAGE_TYPE_DATA`). -/
theorem housekeep_sends_no_payload (env : CryptoEnv) (o : Oracle) (n : Node) (now : Int) :
    (∀ x ∈ (housekeep env o n now).outs, HkOut (housekeep env o n now).log x) ∧
    ∀ ct b, (ct, b) ∈ (housekeep env o n now).log → ∀ k nn p, b = .sealed k nn p →
      p.head? = some Generated.MESSAGE_TYPE_ROTATION ∨ p.head? = some Generated.MESSAGE_TYPE_NODE_INFO :=
  housekeep_hk env o n now

/-- the same on the wire: a datagram emitted by the housekeeping starts with the handshake marker, or it is a message of type ROTATION or
    NODE_INFO — in the clear (session in unencrypted mode) or as 8 header bytes followed by a ciphertext whose seal, logged in this
    step, is the seal of that message.  None of the types is `MESSAGE_TYPE_DATA`. -/
theorem housekeep_never_sends_data (env : CryptoEnv) (o : Oracle) (n : Node) (now : Int) (d : NAddr) (bytes : Bytes)
    (h : Out.dgram d bytes ∈ (housekeep env o n now).outs) :
    bytes.head? = some Generated.INIT_MESSAGE_FIRST_BYTE ∨
    ∃ ty body, (ty = Generated.MESSAGE_TYPE_ROTATION ∨ ty = Generated.MESSAGE_TYPE_NODE_INFO) ∧ ty ≠ Generated.MESSAGE_TYPE_DATA ∧
      (bytes = ty :: body ∨
       ∃ hdr ct b, bytes = hdr ++ ct ∧ (ct, b) ∈ (housekeep env o n now).log ∧ ∀ k nn p, b = .sealed k nn p → p = ty :: body) := by
  have key : ∀ (pc pc' : PeerCrypto) (ty : Nat) (body ct : Bytes) (log : Init.SealLog),
      PeerCrypto.sealMsg pc (ty :: body) ct = (pc', .ok (bytes, log)) → (∀ e ∈ log, e ∈ (housekeep env o n now).log) →
      (bytes = ty :: body ∨
       ∃ hdr ct b, bytes = hdr ++ ct ∧ (ct, b) ∈ (housekeep env o n now).log ∧ ∀ k nn p, b = .sealed k nn p → p = ty :: body) := by
    intro pc pc' ty body ct log hs hm
    rcases sealMsg_wire pc pc' _ ct bytes log hs with ⟨_, hb, _⟩ | ⟨_, hdr, b, hb, hl, hp⟩
    · exact Or.inl hb
    · exact Or.inr ⟨hdr, ct, b, hb, hm _ (by rw [hl]; exact List.mem_singleton.2 rfl), hp⟩
  have hx := (housekeep_hk env o n now).1 _ h
  generalize hL : (housekeep env o n now).log = L at hx key
  cases hx with
  | hs d b => exact Or.inl rfl
  | rot d pc pc' body ct bytes log hs hm =>
    exact Or.inr ⟨_, body, Or.inl rfl, by decide, key pc pc' _ body ct log hs hm⟩
  | info d pc pc' m ct bytes log hs hm =>
    exact Or.inr ⟨_, _, Or.inr rfl, by decide, key pc pc' _ _ ct log hs hm⟩

/-! ## 4. / 5. what a frame read from the interface causes -/

/-- **emit_known**: a frame whose destination the table maps to peer `a` (the first peer address with that id) is sealed as a DATA message by
    the session stored for `a` and sent to `a` — exactly one datagram, no other destination — or nothing at all if that session cannot
    seal. -/
theorem emit_known (o : Oracle) (n : Node) (now : Int) (data : Bytes) (s dst : Addr) (pid : PeerId) (a : NAddr)
    (hp : parseAddrs n data = some (s, dst)) (hl : (n.table.lookup now dst).2 = some pid)
    (ha : (n.peers.map (·.1)).find? (fun a => addrId a = pid) = some a) :
    ∃ p, lookupA n.peers a = some p ∧
      (handleIface o n now data).outs =
        match (PeerCrypto.sendMessage p.crypto Generated.MESSAGE_TYPE_DATA data (rndFor o { node := n } a).2.1.ct).2 with
        | .ok (bytes, _) => [.dgram a bytes]
        | .error _ => [] := by
  have hmem : a ∈ n.peers.map (·.1) := List.mem_of_find?_eq_some ha
  have hsome := (lookupA_isSome_iff n.peers a).2 hmem
  cases hpa : lookupA n.peers a with
  | none => rw [hpa] at hsome; cases hsome
  | some p =>
    refine ⟨p, rfl, ?_⟩
    rcases hlk : n.table.lookup now dst with ⟨tb, r⟩
    rw [hlk] at hl
    simp only [] at hl
    subst hl
    simp only [handleIface, hp, hlk, ha]
    rw [sendMsg_outs]
    have hw : wireFor o { node := { n with table := tb } } Generated.MESSAGE_TYPE_DATA data a =
        sealFor o n Generated.MESSAGE_TYPE_DATA data a := wireFor_eq o n _ _ _ a rfl rfl
    rw [hw]
    simp only [sealFor, hpa]
    split <;> rename_i heq <;> simp [heq]

/-- the destination of an output (`none` for a frame written to the interface) -/
def dstOf : Out → Option NAddr
  | .dgram d _ => some d
  | .iface _ => none

/-- **emit_unknown_broadcast** (C13: "destinations unknown in their VLAN go to all peers"): in switch / hub mode a frame for which the table
    has no next hop causes exactly one datagram for every peer whose session can seal, in the order of the peer list, each being the DATA
    message sealed by that peer's session as stored in `n` (`sealFor`), and nothing else.  Peer addresses pairwise distinct. -/
theorem emit_unknown_broadcast (o : Oracle) (n : Node) (now : Int) (data : Bytes) (s dst : Addr)
    (hp : parseAddrs n data = some (s, dst)) (hl : (n.table.lookup now dst).2 = none) (hb : n.cfg.broadcast = true)
    (hnd : (n.peers.map (·.1)).Nodup) :
    (handleIface o n now data).outs =
      (n.peers.map (·.1)).filterMap (fun a => (sealFor o n Generated.MESSAGE_TYPE_DATA data a).map (Out.dgram a)) := by
  rcases hlk : n.table.lookup now dst with ⟨tb, r⟩
  rw [hlk] at hl
  simp only [] at hl
  subst hl
  simp only [handleIface, hp, hlk, hb, if_true]
  exact broadcastMsg_outs o { n with table := tb } Generated.MESSAGE_TYPE_DATA data hnd

/-- `sealFor` spelled out: the datagram for `a` is what `send_message(DATA, frame)` of the session stored for `a` returns -/
theorem sealFor_some (o : Oracle) (n : Node) (ty : Nat) (body : Bytes) (a : NAddr) (bytes : Bytes) :
    sealFor o n ty body a = some bytes ↔
      ∃ p pc' log, lookupA n.peers a = some p ∧
        PeerCrypto.sendMessage p.crypto ty body (rndFor o { node := n } a).2.1.ct = (pc', .ok (bytes, log)) := by
  unfold sealFor
  cases hpa : lookupA n.peers a with
  | none => simp
  | some p =>
    simp only [Option.some.injEq, exists_and_left, exists_eq_left']
    rcases hs : PeerCrypto.sendMessage p.crypto ty body (rndFor o { node := n } a).2.1.ct with ⟨pc', r⟩
    cases r with
    | error e => simp
    | ok x =>
      rcases x with ⟨bytes', log⟩
      simp only [Option.some.injEq, Prod.mk.injEq, Except.ok.injEq]
      constructor
      · rintro rfl; exact ⟨pc', log, rfl, rfl, rfl⟩
      · rintro ⟨_, _, _, h, _⟩; exact h

/-- the destinations of the flooded copies form a sublist of the peer list: every peer at most once, in order, nobody else -/
theorem broadcast_dests_sublist (o : Oracle) (n : Node) (now : Int) (data : Bytes) (s dst : Addr)
    (hp : parseAddrs n data = some (s, dst)) (hl : (n.table.lookup now dst).2 = none) (hb : n.cfg.broadcast = true)
    (hnd : (n.peers.map (·.1)).Nodup) :
    ((handleIface o n now data).outs.filterMap dstOf).Sublist (n.peers.map (·.1)) ∧
    ∀ x ∈ (handleIface o n now data).outs, (dstOf x).isSome = true := by
  rw [emit_unknown_broadcast o n now data s dst hp hl hb hnd, List.filterMap_filterMap]
  refine ⟨?_, ?_⟩
  · have : ∀ l : List NAddr, (l.filterMap (fun a => ((sealFor o n Generated.MESSAGE_TYPE_DATA data a).map (Out.dgram a)).bind dstOf)).Sublist l := by
      intro l
      induction l with
      | nil => exact List.Sublist.slnil
      | cons a l ih =>
        rw [List.filterMap_cons]
        cases sealFor o n Generated.MESSAGE_TYPE_DATA data a with
        | none => exact ih.cons _
        | some b => exact ih.cons_cons _
    exact this _
  · intro x hx
    rw [List.mem_filterMap] at hx
    obtain ⟨a, _, hx⟩ := hx
    cases hsf : sealFor o n Generated.MESSAGE_TYPE_DATA data a with
    | none => rw [hsf] at hx; cases hx
    | some b => rw [hsf] at hx; cases hx; rfl

/-- each flooded copy is the DATA message with exactly the frame's bytes, sealed by the session that `n` stores for its destination -/
theorem broadcast_each_is_seal (o : Oracle) (n : Node) (now : Int) (data : Bytes) (s dst : Addr)
    (hp : parseAddrs n data = some (s, dst)) (hl : (n.table.lookup now dst).2 = none) (hb : n.cfg.broadcast = true)
    (hnd : (n.peers.map (·.1)).Nodup) (a : NAddr) (bytes : Bytes) (h : Out.dgram a bytes ∈ (handleIface o n now data).outs) :
    ∃ p pc' log, lookupA n.peers a = some p ∧
      PeerCrypto.sendMessage p.crypto Generated.MESSAGE_TYPE_DATA data (rndFor o { node := n } a).2.1.ct = (pc', .ok (bytes, log)) := by
  rw [emit_unknown_broadcast o n now data s dst hp hl hb hnd, List.mem_filterMap] at h
  obtain ⟨a', _, hx⟩ := h
  cases hsf : sealFor o n Generated.MESSAGE_TYPE_DATA data a' with
  | none => rw [hsf] at hx; cases hx
  | some b =>
    rw [hsf] at hx
    cases hx
    exact (sealFor_some o n _ data a bytes).1 hsf

/-- **"go to all peers"**: if every peer's session can seal, the destinations of the flooded copies are exactly the peer list — one copy
    per peer -/
theorem broadcast_reaches_all (o : Oracle) (n : Node) (now : Int) (data : Bytes) (s dst : Addr)
    (hp : parseAddrs n data = some (s, dst)) (hl : (n.table.lookup now dst).2 = none) (hb : n.cfg.broadcast = true)
    (hnd : (n.peers.map (·.1)).Nodup)
    (hseal : ∀ a p, lookupA n.peers a = some p → ∀ ct, ∃ r, (PeerCrypto.sendMessage p.crypto Generated.MESSAGE_TYPE_DATA data ct).2 = .ok r) :
    (handleIface o n now data).outs.filterMap dstOf = n.peers.map (·.1) ∧
    (handleIface o n now data).outs.length = n.peers.length := by
  rw [emit_unknown_broadcast o n now data s dst hp hl hb hnd]
  have hall : ∀ a ∈ n.peers.map (·.1), ∃ b, sealFor o n Generated.MESSAGE_TYPE_DATA data a = some b := by
    intro a ha
    have hsome := (lookupA_isSome_iff n.peers a).2 ha
    cases hpa : lookupA n.peers a with
    | none => rw [hpa] at hsome; cases hsome
    | some p =>
      obtain ⟨r, hr⟩ := hseal a p hpa (rndFor o { node := n } a).2.1.ct
      rcases r with ⟨b, log⟩
      exact ⟨b, by simp only [sealFor, hpa, hr]⟩
  have key : ∀ l : List NAddr, (∀ a ∈ l, ∃ b, sealFor o n Generated.MESSAGE_TYPE_DATA data a = some b) →
      (l.filterMap (fun a => (sealFor o n Generated.MESSAGE_TYPE_DATA data a).map (Out.dgram a))).filterMap dstOf = l ∧
      (l.filterMap (fun a => (sealFor o n Generated.MESSAGE_TYPE_DATA data a).map (Out.dgram a))).length = l.length := by
    intro l
    induction l with
    | nil => intro _; exact ⟨rfl, rfl⟩
    | cons a l ih =>
      intro h
      obtain ⟨b, hb⟩ := h a (List.mem_cons_self ..)
      have ih' := ih (fun x hx => h x (List.mem_cons_of_mem _ hx))
      rw [List.filterMap_cons, hb]
      simp only [Option.map_some, List.filterMap_cons, dstOf, List.length_cons, ih'.1, ih'.2, and_self]
  have := key _ hall
  rw [List.length_map] at this
  exact this

/-- **emit_unknown_router**: in router mode (no broadcast) a packet for which the table has no next hop is sent nowhere and counted as dropped
    (re-export of `C11Node.unknown_dest_dropped`) -/
theorem emit_unknown_router (o : Oracle) (n : Node) (now : Int) (data : Bytes) (s d : Addr)
    (hp : parseAddrs n data = some (s, d)) (hl : (n.table.lookup now d).2 = none) (hb : n.cfg.broadcast = false) :
    (handleIface o n now data).outs = [] ∧ (handleIface o n now data).node.droppedOut = n.droppedOut + 1 :=
  C11Node.unknown_dest_dropped o n now data s d hp hl hb

/-! ## 6. two nodes, one hop -/

/-- the receiving side: if the session that node B holds for the sender's address opens the datagram as the DATA message `data`, then all
    B does is write `data` — byte-identical, exactly once — to its interface (nothing at all if `data` does not parse as a frame / packet
    at B); in particular no datagram goes to anybody (no relaying, no reply), and nothing else reaches the interface. -/
theorem delivered_exactly_once (env : CryptoEnv) (bodyOf : Init.BodyOf) (o : Oracle) (nB : Node) (now : Int) (srcA : NAddr)
    (bytes tail data : Bytes) (pB : Peer) (pc : PeerCrypto) (out : Bytes) (log' : Init.SealLog)
    (hpB : lookupA nB.peers (mappedAddr srcA) = some pB)
    (hopen : PeerCrypto.handleMessage env bodyOf payloadOk pB.crypto bytes tail
        (rndFor o { node := nB } (mappedAddr srcA)).1 (rndFor o { node := nB } (mappedAddr srcA)).2.1 =
      .ok pc out (.message Generated.MESSAGE_TYPE_DATA data) log') :
    (handleNet env bodyOf o nB now srcA bytes tail).1.outs = if (parseAddrs nB data).isSome = true then [Out.iface data] else [] := by
  have hi : ¬ bytes.head? = some Generated.INIT_MESSAGE_FIRST_BYTE := fun hi =>
    handleMessage_init_not_message env bodyOf payloadOk pB.crypto bytes tail _ _ hi pc out _ data log' hopen
  rw [handleNet_eq, finish_outs]
  simp only [dispatch, hpB, hi, decide_false, Bool.not_false, if_true]
  rw [hopen, applyOutcome_eq]
  simp only [handleResult, if_true]
  have hpa : parseAddrs (addLog log' (storePc { node := nB } (mappedAddr srcA) true pc)).node data = parseAddrs nB data :=
    parseAddrs_congr _ _ _ (by rw [addLog_node, storePc_cfg])
  rw [hpa]
  cases parseAddrs nB data with
  | none => simp [storePc_outs]
  | some r =>
    rcases r with ⟨sa, da⟩
    simp only [Option.isSome_some, if_true]
    split <;> simp [storePc_outs]

/-- **one_hop_exactly_once**: node A reads the frame `data` from its interface, its table names B's address as next hop and A's session for
    B seals it into `bytes`; the session B holds for A's address opens `bytes` as that DATA message.  Then A emits exactly the one
    datagram `bytes` to B, and all B does with it is write `data` byte-identical and exactly once to its interface (when `data` parses
    at B; otherwise nothing) — B sends no datagram to anyone. -/
theorem one_hop_exactly_once (env : CryptoEnv) (bodyOf : Init.BodyOf) (oA oB : Oracle) (nA nB : Node) (nowA nowB : Int)
    (data : Bytes) (s dst : Addr) (pid : PeerId) (addrA addrB : NAddr) (pA pB : Peer) (pA' : PeerCrypto)
    (bytes tail : Bytes) (log : Init.SealLog) (pc : PeerCrypto) (out : Bytes) (log' : Init.SealLog)
    (hp : parseAddrs nA data = some (s, dst)) (hl : (nA.table.lookup nowA dst).2 = some pid)
    (ha : (nA.peers.map (·.1)).find? (fun a => addrId a = pid) = some addrB)
    (hpA : lookupA nA.peers addrB = some pA)
    (hseal : PeerCrypto.sendMessage pA.crypto Generated.MESSAGE_TYPE_DATA data (rndFor oA { node := nA } addrB).2.1.ct = (pA', .ok (bytes, log)))
    (hpB : lookupA nB.peers (mappedAddr addrA) = some pB)
    (hopen : PeerCrypto.handleMessage env bodyOf payloadOk pB.crypto bytes tail
        (rndFor oB { node := nB } (mappedAddr addrA)).1 (rndFor oB { node := nB } (mappedAddr addrA)).2.1 =
      .ok pc out (.message Generated.MESSAGE_TYPE_DATA data) log') :
    (handleIface oA nA nowA data).outs = [.dgram addrB bytes] ∧
    (handleNet env bodyOf oB nB nowB addrA bytes tail).1.outs = (if (parseAddrs nB data).isSome = true then [Out.iface data] else []) ∧
    (∀ d b, Out.dgram d b ∉ (handleNet env bodyOf oB nB nowB addrA bytes tail).1.outs) ∧
    (∀ b, Out.iface b ∈ (handleNet env bodyOf oB nB nowB addrA bytes tail).1.outs → b = data) := by
  have hB := delivered_exactly_once env bodyOf oB nB nowB addrA bytes tail data pB pc out log' hpB hopen
  refine ⟨?_, hB, ?_, ?_⟩
  · obtain ⟨p, hp', ho⟩ := emit_known oA nA nowA data s dst pid addrB hp hl ha
    rw [hpA] at hp'
    cases hp'
    rw [ho, hseal]
  · intro d b hm
    rw [hB] at hm
    split at hm
    · simp at hm
    · cases hm
  · intro b hm
    rw [hB] at hm
    split at hm
    · simp only [List.mem_singleton, Out.iface.injEq] at hm; exact hm
    · cases hm

open VpnCloud.Spec.C04 in
/-- **one_hop_in_sync**: the same with the hypothesis "B opens what A sealed" discharged by `session_roundtrip`: the two sessions are
    encrypted, their cores are in sync (same key in A's current slot, opposite halves, B's window floor not above the nonce, counter within
    56 bits), the ideal AEAD opens the ciphertext A emitted as what A sealed (`hbody`), and both nodes run the same device type.  Then the
    frame A read is delivered to B's interface byte-identical and exactly once, and B emits nothing else. -/
theorem one_hop_in_sync (env : CryptoEnv) (bodyOf : Init.BodyOf) (oA oB : Oracle) (nA nB : Node) (nowA nowB : Int)
    (data : Bytes) (s dst : Addr) (pid : PeerId) (addrA addrB : NAddr) (pA pB : Peer) (pA' : PeerCrypto)
    (bytes tail : Bytes) (log : Init.SealLog) (cs cr : Core) (ks kr : SlotKey) (v : Nat)
    (hp : parseAddrs nA data = some (s, dst)) (hl : (nA.table.lookup nowA dst).2 = some pid)
    (ha : (nA.peers.map (·.1)).find? (fun a => addrId a = pid) = some addrB)
    (hpA : lookupA nA.peers addrB = some pA)
    (hseal : PeerCrypto.sendMessage pA.crypto Generated.MESSAGE_TYPE_DATA data (rndFor oA { node := nA } addrB).2.1.ct = (pA', .ok (bytes, log)))
    (hpB : lookupA nB.peers (mappedAddr addrA) = some pB)
    (huA : pA.crypto.unencrypted = false) (huB : pB.crypto.unencrypted = false)
    (hcA : pA.crypto.core = some cs) (hcB : pB.crypto.core = some cr)
    (hs : cs.slots[cs.cur]? = some ks) (hr : cr.slots[cs.cur]? = some kr) (hcur : cs.cur < 4) (hkey : kr.key = ks.key)
    (hhalf : cr.half = !cs.half) (hsend : ks.send + 1 = base cs.half + v) (hv : v < 2 ^ 56) (hmin : kr.min ≤ ks.send + 1)
    (hbody : ∀ e ∈ log, bodyOf e.1 = e.2) (hmode : nB.cfg.tap = nA.cfg.tap) :
    (handleIface oA nA nowA data).outs = [.dgram addrB bytes] ∧
    (handleNet env bodyOf oB nB nowB addrA bytes tail).1.outs = [Out.iface data] := by
  obtain ⟨pB', hopen⟩ := session_roundtrip env bodyOf payloadOk pA.crypto pB.crypto pA' cs cr ks kr v Generated.MESSAGE_TYPE_DATA data
    (rndFor oA { node := nA } addrB).2.1.ct bytes tail log (rndFor oB { node := nB } (mappedAddr addrA)).1
    (rndFor oB { node := nB } (mappedAddr addrA)).2.1 huA huB hcA hcB hs hr hcur hkey hhalf hsend hv hmin (by decide) hseal hbody
  have h := one_hop_exactly_once env bodyOf oA oB nA nB nowA nowB data s dst pid addrA addrB pA pB pA' bytes tail log pB' [] [] hp hl ha hpA
    hseal hpB hopen
  refine ⟨h.1, ?_⟩
  have hpar : parseAddrs nB data = some (s, dst) := by
    rw [← hp]; unfold parseAddrs; rw [hmode]
  rw [h.2.1, hpar]
  rfl

/-! ## non-vacuity (toy cryptography of `InitLemmas.Toy`), and the counterexample to statement 1 without `PendFreshAt` -/
section NonVacuity
open VpnCloud.Proofs.InitLemmas

private def aA : NAddr := .v6 (List.replicate 16 0) 1
private def aB : NAddr := .v6 (List.replicate 16 0) 2
private def aC : NAddr := .v6 (List.replicate 16 0) 3
private def cfg0 (bc : Bool) : NodeCfg :=
  { tap := false, learning := false, broadcast := bc, peerTimeout := 300, peerTimeoutPublish := 300, updateFreq := 10,
    claims := [], key := [7, 7, 7, 7], trusted := [[9, 9, 9, 9]], algos := Toy.algos }
/-- the ciphertext bytes of every emitted datagram are `[1, 2, 3]` -/
private def o0 : Oracle :=
  { emitted := fun _ _ => List.replicate 8 0 ++ [1, 2, 3], rotProp := fun _ => 0, rotPend := fun _ => 0, starts := fun _ => [] }
/-- an IPv4 packet 10.0.0.1 → 10.0.0.2 -/
private def pkt : Bytes := 69 :: (List.replicate 11 0 ++ [10, 0, 0, 1, 10, 0, 0, 2])
/-- A's session for B and B's session for A: same key 7 in slot 0, opposite halves -/
private def sessA : PeerCrypto := { init := none, core := some (Core.new 7 true 9 [5, 6, 7, 8]) }
private def sessB : PeerCrypto := { init := none, core := some (Core.new 7 false 8 [0, 0, 0, 0]) }
private def sessU : PeerCrypto := { init := none, unencrypted := true }
private def peerOf (pc : PeerCrypto) : Peer := { addrs := [], timeout := 1000, peerTimeout := 300, nodeId := List.replicate 16 1, crypto := pc }
private def tbl0 : Table := { cacheTimeout := 300, claimTimeout := 300 }
/-- node A (router mode): one peer B (id 2) that claims 10.0.0.0/8 -/
private def nA : Node :=
  { nodeId := List.replicate 16 8, addr := aA, cfg := cfg0 false, peers := [(aB, peerOf sessA)],
    table := { tbl0 with claims := [⟨2, ⟨[10, 0, 0, 0], 8⟩, 2000⟩] } }
/-- node B: one peer A -/
private def nB : Node := { nodeId := List.replicate 16 9, addr := aB, cfg := cfg0 false, peers := [(aA, peerOf sessB)], table := tbl0 }
/-- a switch-like node (broadcast on) with two peers and an empty table -/
private def nS : Node :=
  { nodeId := List.replicate 16 8, addr := aA, cfg := cfg0 true, peers := [(aB, peerOf sessA), (aC, peerOf sessU)], table := tbl0 }
/-- what A's session puts on the wire for `pkt`: key slot 0, counter HALF + 6, ciphertext `[1, 2, 3]` -/
private def wire : Bytes := 0 :: Bytes.ofBE 7 (HALF + 6) ++ [1, 2, 3]
/-- ideal AEAD: every ciphertext opens as the seal A produced -/
private def bodyAB : Init.BodyOf := fun _ => .sealed 7 (HALF + 6) (Generated.MESSAGE_TYPE_DATA :: pkt)

/-- statement 1, hypothesis and premise hold together: B gets `wire` from its peer A and writes `pkt` to the interface -/
example : PendFreshAt nB (mappedAddr aA) ∧ Out.iface pkt ∈ (handleNet Toy.env bodyAB o0 nB 100 aA wire []).1.outs :=
  ⟨fun _ hp _ => absurd hp (by decide), by decide⟩

/-- … and `PendFreshAt` holds with a pending handshake present: after dialling C, node B has a pending session for C, without core -/
example : (connect Toy.env o0 { node := nB } [aC]).node.pending.map (·.1) = [aC] ∧
    PendFreshAt (connect Toy.env o0 { node := nB } [aC]).node aC := by
  refine ⟨by decide, fun pc _ hq => ?_⟩
  have hm := lookupA_some_mem hq
  have hl : (connect Toy.env o0 { node := nB } [aC]).node.pending.map (fun x => (x.2.unencrypted, x.2.core)) = [(false, none)] := by decide
  have := List.mem_map_of_mem (f := fun x : NAddr × PeerCrypto => (x.2.unencrypted, x.2.core)) hm
  rw [hl] at this
  simp only [List.mem_singleton, Prod.mk.injEq] at this
  exact this

/-- COUNTEREXAMPLE to statement 1 without `PendFreshAt`: a node without peers whose pending session for `aA` is in unencrypted mode hands
    the body of a DATA datagram from `aA` to the interface, although `aA` is not a peer -/
private def nBad : Node := { nB with peers := [], pending := [(aA, sessU)] }

example : lookupA nBad.peers (mappedAddr aA) = none ∧
    Out.iface pkt ∈ (handleNet Toy.env bodyAB o0 nBad 100 aA (Generated.MESSAGE_TYPE_DATA :: pkt) []).1.outs := by decide

example : ¬ (∀ (env : CryptoEnv) (bodyOf : Init.BodyOf) (o : Oracle) (n : Node) (now : Int) (src : NAddr) (data tail b : Bytes),
    Out.iface b ∈ (handleNet env bodyOf o n now src data tail).1.outs → ∃ p, lookupA n.peers (mappedAddr src) = some p) := by
  intro h
  obtain ⟨p, hp⟩ := h Toy.env bodyAB o0 nBad 100 aA (Generated.MESSAGE_TYPE_DATA :: pkt) [] pkt (by decide)
  have : lookupA nBad.peers (mappedAddr aA) = none := by decide
  rw [this] at hp
  cases hp

/-- `emit_known`: the hypotheses hold for A and `pkt`, and A emits exactly `wire` to B -/
example : parseAddrs nA pkt = some ([10, 0, 0, 1], [10, 0, 0, 2]) ∧ (nA.table.lookup 100 [10, 0, 0, 2]).2 = some 2 ∧
    (nA.peers.map (·.1)).find? (fun a => addrId a = 2) = some aB ∧ (handleIface o0 nA 100 pkt).outs = [.dgram aB wire] := by decide

/-- `emit_unknown_broadcast` / `broadcast_reaches_all`: the hypotheses hold for the switch-like node, and the frame goes to both peers -/
example : parseAddrs nS pkt = some ([10, 0, 0, 1], [10, 0, 0, 2]) ∧ (nS.table.lookup 100 [10, 0, 0, 2]).2 = none ∧ nS.cfg.broadcast = true ∧
    (nS.peers.map (·.1)).Nodup ∧
    (∀ a p, lookupA nS.peers a = some p → ∀ ct, ∃ r, (PeerCrypto.sendMessage p.crypto Generated.MESSAGE_TYPE_DATA pkt ct).2 = .ok r) ∧
    (handleIface o0 nS 100 pkt).outs = [.dgram aB wire, .dgram aC (Generated.MESSAGE_TYPE_DATA :: pkt)] := by
  refine ⟨by decide, by decide, rfl, by decide, ?_, by decide⟩
  intro a p hp ct
  have hm := lookupA_some_mem hp
  simp only [nS, List.mem_cons, Prod.mk.injEq, List.not_mem_nil, or_false] at hm
  rcases hm with ⟨_, rfl⟩ | ⟨_, rfl⟩
  · exact ⟨_, rfl⟩
  · exact ⟨_, rfl⟩

/-- `emit_unknown_router`: the hypotheses hold for B (router mode, empty table) -/
example : parseAddrs nB pkt = some ([10, 0, 0, 1], [10, 0, 0, 2]) ∧ (nB.table.lookup 100 [10, 0, 0, 2]).2 = none ∧ nB.cfg.broadcast = false ∧
    (handleIface o0 nB 100 pkt).outs = [] := by decide

/-- `one_hop_in_sync` / `one_hop_exactly_once` / `session_roundtrip`: all hypotheses hold for A, B and `pkt` … -/
example : (handleIface o0 nA 100 pkt).outs = [.dgram aB wire] ∧ (handleNet Toy.env bodyAB o0 nB 200 aA wire []).1.outs = [Out.iface pkt] :=
  one_hop_in_sync Toy.env bodyAB o0 o0 nA nB 100 200 pkt [10, 0, 0, 1] [10, 0, 0, 2] 2 aA aB (peerOf sessA) (peerOf sessB)
    { sessA with core := some ((Core.new 7 true 9 [5, 6, 7, 8]).encrypt (Generated.MESSAGE_TYPE_DATA :: pkt)).1 }
    wire [] [([1, 2, 3], .sealed 7 (HALF + 6) (Generated.MESSAGE_TYPE_DATA :: pkt))]
    (Core.new 7 true 9 [5, 6, 7, 8]) (Core.new 7 false 8 [0, 0, 0, 0]) (SlotKey.new 7 true 5) (SlotKey.new 7 false 0) 6
    (by decide) (by decide) (by decide) rfl rfl rfl rfl rfl rfl rfl (by decide) (by decide) (by decide) rfl rfl
    (by decide) (by decide) (by decide)
    (by intro e he; simp only [List.mem_singleton] at he; subst he; rfl) rfl

/-- … and the result is what the model computes -/
example : (handleNet Toy.env bodyAB o0 nB 200 aA wire []).1.outs = [Out.iface pkt] := by decide

/-- housekeeping does emit something (so `housekeep_sends_no_payload` is not about an empty list): with the announcement due, node S sends
    its node info to both peers, and neither datagram is a DATA message -/
example : (housekeep Toy.env o0 nS 100).outs.length = 2 := by decide

/-- remark on the model (reported, not relied upon): `broadcastMsg` goes on with the next peer when a session cannot seal, whereas the `?`
    in the loop of `broadcast_msg` (src/cloud.rs) leaves the loop at the first failing `send_message`.  Witness: first peer without core
    (cannot seal), second peer in unencrypted mode — the model still emits the copy for the second peer.  A peer session that cannot seal
    does not occur in reachable states (a session enters `peers` with a core or the `unencrypted` flag), and all statements above that
    say "to all peers" assume that every session can seal. -/
example : (handleIface o0 { nS with peers := [(aB, peerOf { init := none }), (aC, peerOf sessU)] } 100 pkt).outs =
    [.dgram aC (Generated.MESSAGE_TYPE_DATA :: pkt)] := by decide

end NonVacuity

end VpnCloud.Proofs.C10More
