import VpnCloud.Proofs.Lemmas.LockstepLemmas
/-
  C05 "lockstep_completes" — the loss-free handshake completes with agreement.

  Two fresh handshake objects `a` (initiator) and `b` (responder) of two parties that trust each other's key;
  `(a1, ping) := sendPing env a r1`, then ping → `b`, pong → `a1`, peng → `b1`.  For every choice of the random parts
  `r1 … r4` all three deliveries succeed (stages PENG / WAITING_TO_CLOSE / CLOSING, each end reports the other's payload),
  and the ends agree: same selected cipher, slot 0 of both cores holds `masterKey c r1.ecdhPub r2.ecdhPub`, opposite
  halves; or both plain.  (`lockstep_completes`, `lockstep_completes_run`; the steps: `ping_accepted`,
  `pong_completes_initiator`, `peng_completes_responder`.)

  The messages and seal logs of the run are given in closed form (`pingMsg`, `pongMsg`, `pengMsg`, `log2`, `log3`, `wire`);
  that the model emits exactly these is part of the conclusion, so the hypotheses about them ((ii) signatures, (iv) ideal
  AEAD) are hypotheses about "the messages as the model builds them".

  Hypotheses (`Hyps`, = `HypsS (negotiated a b)` + `nego`), all of the kinds (i)–(vi):
  (i)   widths: hashes 20 bytes; per message salt 4 bytes, signature < 256 bytes, salted key hash 4 bytes (`RandWF`);
        ephemeral keys 32 proper bytes (`EcdhWF`); payloads < 65536 - 24 bytes and accepted by `ok`; ciphertexts at most
        payload + tag long; cipher lists with 32-bit speeds (`algosWF`) and without duplicates (`NoDup`); slot-0 counter
        starts < 2^48;
  (ii)  `env` verifies the three signatures (`SigOk`);
  (iii) each receiver finds exactly the sender's key under the salted key hash (`Finds`);
  (iv)  `bodyOf` maps `r2.ct`, `r3.ct` to what the seal logs record (`Opens … log2`, `Opens … log3`; empty logs when plain);
  (v)   the salted node-id hashes differ as numbers, neither is the salted hash of the other's node id;
  (vi)  the negotiation does not fail.
  Not needed (and not assumed): that the throw-away key reference `dummy` differs from the master key — the payloads of
  this run address key slot 0.  Of `Fresh` only `b.stage`, `a.crypto`, `b.crypto` are used.
  Non-vacuity: `Toy.hyps_cipher`, `Toy.hyps_plain` and the examples behind them.
-/
namespace VpnCloud.Proofs.C05Lockstep

open VpnCloud VpnCloud.Init VpnCloud.InitMsg VpnCloud.Spec.C04 VpnCloud.Spec.C06
open VpnCloud.Proofs.InitLemmas VpnCloud.Proofs.CoreLemmas VpnCloud.Proofs.LockstepLemmas
open VpnCloud.Proofs.C16Init (algosWF msgWF initmsg_roundtrip)

/-! ## the run in closed form -/

/-- a fresh handshake object -/
structure Fresh (st : InitSt) : Prop where
  stage : st.stage = Generated.STAGE_PING
  ecdh : st.ecdh = none
  last : st.last = none
  crypto : st.crypto = none
  retries : st.retries = 0

/-- nonce of the first seal of a fresh core of the given half whose slot-0 counter starts at `start` (increment before use) -/
def firstNonce (half : Bool) (start : Nat) : Nat := (if half then HALF else 0) + start + 1

/-- payload field of a pong / peng: sealed (key id 0, 7 counter bytes, ciphertext) if a cipher was selected, else the plain payload -/
def payloadField (sel : Option Cipher) (half : Bool) (r : Rand) (plain : Bytes) : Bytes :=
  match sel with
  | some _ => 0 :: Bytes.ofBE 7 (firstNonce half r.start) ++ r.ct
  | none => plain

/-- seal log of a pong / peng: the ciphertext bytes stand for `plain` sealed under the master key with the first nonce -/
def sealLog (sel : Option Cipher) (r1 r2 : Rand) (half : Bool) (r : Rand) (plain : Bytes) : SealLog :=
  match sel with
  | some c => [(r.ct, .sealed (masterKey c r1.ecdhPub r2.ecdhPub) (firstNonce half r.start) plain)]
  | none => []

def pingMsg (a : InitSt) (r1 : Rand) : InitMsg := .ping a.hash r1.ecdhPub a.algos
def pongMsgS (sel : Option Cipher) (a b : InitSt) (r2 : Rand) : InitMsg :=
  .pong b.hash r2.ecdhPub b.algos (payloadField sel (bytesGt b.hash a.hash) r2 b.payload)
def pengMsgS (sel : Option Cipher) (a b : InitSt) (r3 : Rand) : InitMsg :=
  .peng a.hash (payloadField sel (bytesGt a.hash b.hash) r3 a.payload)

/-- the datagram of message `m` sent by `sender` with the random parts `r` -/
def wire (env : CryptoEnv) (sender : InitSt) (m : InitMsg) (r : Rand) : Bytes :=
  writeTo m r.salt (env.keyHash sender.ownKey r.salt) r.sig

/-- the signature `r.sig` of `sender` on message `m` verifies -/
def SigOk (env : CryptoEnv) (sender : InitSt) (m : InitMsg) (r : Rand) : Prop :=
  env.sigVerify sender.ownKey (signedRegion m r.salt (env.keyHash sender.ownKey r.salt)) r.sig = true

/-- `receiver` finds exactly the sender's key under the salted key hash of a message salted with `r.salt` -/
def Finds (env : CryptoEnv) (receiver sender : InitSt) (r : Rand) : Prop :=
  receiver.trusted.find? (fun tk => env.keyHash tk r.salt = env.keyHash sender.ownKey r.salt) = some sender.ownKey

/-- `bodyOf` is the ideal AEAD on the entries of a seal log -/
def Opens (bodyOf : BodyOf) (log : SealLog) : Prop := ∀ e ∈ log, bodyOf e.1 = e.2

/-- widths of the random parts of one message -/
structure RandWF (env : CryptoEnv) (sender : InitSt) (r : Rand) : Prop where
  salt : r.salt.length = 4
  sig : r.sig.length < 256
  keyHash : (env.keyHash sender.ownKey r.salt).length = 4

/-- a 32-byte ephemeral public key -/
def EcdhWF (k : Bytes) : Prop := k.length = 32 ∧ Bytes.WF k

/-- hypotheses of the run except (vi), for the negotiation result `sel` -/
structure HypsS (sel : Option Cipher) (env : CryptoEnv) (bodyOf : BodyOf) (ok : Bytes → Bool) (a b : InitSt) (r1 r2 r3 : Rand) : Prop where
  freshA : Fresh a
  freshB : Fresh b
  -- (i) widths
  hashA : a.hash.length = 20
  hashB : b.hash.length = 20
  rand1 : RandWF env a r1
  rand2 : RandWF env b r2
  rand3 : RandWF env a r3
  ecdh1 : EcdhWF r1.ecdhPub
  ecdh2 : EcdhWF r2.ecdhPub
  payloadA : a.payload.length < 65536 - 24
  payloadB : b.payload.length < 65536 - 24
  payloadOkA : ok a.payload = true
  payloadOkB : ok b.payload = true
  ct2 : r2.ct.length ≤ b.payload.length + Generated.TAG_LEN
  ct3 : r3.ct.length ≤ a.payload.length + Generated.TAG_LEN
  algosA : algosWF a.algos
  algosB : algosWF b.algos
  nodupA : NoDup a.algos
  nodupB : NoDup b.algos
  start2 : r2.start < 2 ^ 48
  start3 : r3.start < 2 ^ 48
  -- (ii) signatures
  sig1 : SigOk env a (pingMsg a r1) r1
  sig2 : SigOk env b (pongMsgS sel a b r2) r2
  sig3 : SigOk env a (pengMsgS sel a b r3) r3
  -- (iii) trust
  finds1 : Finds env b a r1
  finds2 : Finds env a b r2
  finds3 : Finds env b a r3
  -- (iv) ideal AEAD
  opens2 : Opens bodyOf (sealLog sel r1 r2 (bytesGt b.hash a.hash) r2 b.payload)
  opens3 : Opens bodyOf (sealLog sel r1 r2 (bytesGt a.hash b.hash) r3 a.payload)
  -- (v) two different nodes
  hashNe : Bytes.beVal a.hash ≠ Bytes.beVal b.hash
  notSelfA : checkSaltedNodeIdHash env b.hash a.nodeId = false
  notSelfB : checkSaltedNodeIdHash env a.hash b.nodeId = false

/-! ## the three deliveries -/

/-- state of the responder after the negotiation, before the pong is built -/
def pingSt (st0 : InitSt) (h e : Bytes) (sel : Option Cipher) (rnd : Rand) : InitSt :=
  match sel with
  | some c =>
    { st0 with
      retries := 0
      selected := some c
      crypto := some (Core.new (masterKey c rnd.ecdhPub e) (bytesGt st0.hash h) rnd.dummy (rnd.start :: rnd.starts123)) }
  | none => { st0 with retries := 0, selected := none }

theorem handleMsg_ping_ok (env : CryptoEnv) (bodyOf : BodyOf) (ok : Bytes → Bool) (st0 : InitSt) (h e : Bytes) (algos : Algos) (rnd : Rand)
    (sel : Option Cipher) (hsel : selectAlgorithm st0.algos algos = .ok sel) :
    handleMsg env bodyOf ok st0 (.ping h e algos) rnd =
      .ok { (sendMessage env (pingSt st0 h e sel rnd) Generated.STAGE_PONG rnd).1 with stage := Generated.STAGE_PENG }
        ((sendMessage env (pingSt st0 h e sel rnd) Generated.STAGE_PONG rnd).2.1, .continue,
         (sendMessage env (pingSt st0 h e sel rnd) Generated.STAGE_PONG rnd).2.2) := by
  simp only [handleMsg, hsel]
  cases sel <;> rfl

/-- what the second and third delivery need to know about the responder after the first -/
structure RespReady (sel : Option Cipher) (a b : InitSt) (r1 r2 : Rand) (b1 : InitSt) : Prop where
  stage : b1.stage = Generated.STAGE_PENG
  hash : b1.hash = b.hash
  nodeId : b1.nodeId = b.nodeId
  trusted : b1.trusted = b.trusted
  selected : b1.selected = sel
  crypto : ∀ c, sel = some c → ∃ core, b1.crypto = some core ∧
    Slot0 core (masterKey c r1.ecdhPub r2.ecdhPub) (bytesGt b.hash a.hash) (firstNonce (bytesGt b.hash a.hash) r2.start)
  plain : sel = none → b1.crypto = none

section steps
variable {sel : Option Cipher} {env : CryptoEnv} {bodyOf : BodyOf} {ok : Bytes → Bool} {a b : InitSt} {r1 r2 r3 : Rand}

theorem HypsS.key_comm (H : HypsS sel env bodyOf ok a b r1 r2 r3) (c : Cipher) :
    masterKey c r2.ecdhPub r1.ecdhPub = masterKey c r1.ecdhPub r2.ecdhPub :=
  C05.masterKey_comm_wf c _ _ ⟨H.ecdh2.2, H.ecdh1.2⟩ (by rw [H.ecdh2.1, H.ecdh1.1])

theorem HypsS.half_opp (H : HypsS sel env bodyOf ok a b r1 r2 r3) : bytesGt a.hash b.hash = !bytesGt b.hash a.hash :=
  C05.halves_opposite _ _ H.hashNe

/-- the initiator after `sendPing` -/
def sentPing (env : CryptoEnv) (a : InitSt) (r1 : Rand) : InitSt :=
  { a with ecdh := some r1.ecdhPub, last := some (wire env a (pingMsg a r1) r1), stage := Generated.STAGE_PONG }

theorem sendPing_eq (env : CryptoEnv) (a : InitSt) (r1 : Rand) :
    sendPing env a r1 = (sentPing env a r1, wire env a (pingMsg a r1) r1) := rfl

/-- **first delivery**: the responder accepts the ping and answers with the pong -/
theorem ping_accepted_S (H : HypsS sel env bodyOf ok a b r1 r2 r3) (hnego : selectAlgorithm a.algos b.algos = .ok sel) :
    ∃ b1, handleInit env bodyOf ok b (wire env a (pingMsg a r1) r1) r2 =
        .ok b1 (wire env b (pongMsgS sel a b r2) r2, .continue, sealLog sel r1 r2 (bytesGt b.hash a.hash) r2 b.payload) ∧
      RespReady sel a b r1 r2 b1 := by
  have hr : readFrom env (wire env a (pingMsg a r1) r1) b.trusted = .ok (pingMsg a r1, a.ownKey) := by
    have := initmsg_roundtrip env (pingMsg a r1) r1.salt r1.sig [] a.ownKey b.trusted
      ⟨H.hashA, by rw [H.ecdh1.1]; decide, H.algosA⟩ H.rand1.salt H.rand1.keyHash H.rand1.sig H.finds1 H.sig1
    rwa [List.append_nil] at this
  have hne : b.hash ≠ (pingMsg a r1).hash := fun e => hash_ne_of_beVal H.hashNe e.symm
  rw [handleInit_accept env bodyOf ok b _ r2 _ _ hr hne H.notSelfB (by rw [H.freshB.stage]; rfl)]
  have hsel : selectAlgorithm b.algos a.algos = .ok sel := by
    rw [C06.select_symm _ _ H.nodupB H.nodupA]; exact hnego
  rw [pingMsg, handleMsg_ping_ok env bodyOf ok b _ _ _ r2 sel hsel, sendMessage_pong]
  cases sel with
  | none =>
    have hc : (pingSt b a.hash r1.ecdhPub none r2).crypto = none := H.freshB.crypto
    rw [encryptPayload_none _ _ hc]
    refine ⟨_, rfl, ?_⟩
    exact ⟨rfl, rfl, rfl, rfl, rfl, fun c h => (by cases h), fun _ => hc⟩
  | some c =>
    have hc : (pingSt b a.hash r1.ecdhPub (some c) r2).crypto =
        some (Core.new (masterKey c r2.ecdhPub r1.ecdhPub) (bytesGt b.hash a.hash) r2.dummy (r2.start :: r2.starts123)) := rfl
    rw [encryptPayload_some _ _ _ hc]
    have h0 := slot0_new (masterKey c r2.ecdhPub r1.ecdhPub) (bytesGt b.hash a.hash) r2.dummy r2.start r2.starts123
    rw [H.key_comm c] at h0 hc ⊢
    obtain ⟨e1, e2⟩ := slot0_encrypt (pingSt b a.hash r1.ecdhPub (some c) r2).payload h0 (first_nonce_lt _ _ H.start2)
    refine Exists.intro ?w ⟨?h1, ?h2⟩
    case h1 =>
      simp only [e1]
      rfl
    · refine ⟨rfl, rfl, rfl, rfl, rfl, ?_, fun h => (by cases h)⟩
      intro c' h
      cases h
      exact ⟨_, rfl, e2⟩

/-- state of the initiator's side after the second delivery -/
structure InitDone (sel : Option Cipher) (a b : InitSt) (r1 r2 r3 : Rand) (a2 : InitSt) : Prop where
  stage : a2.stage = Generated.WAITING_TO_CLOSE
  selected : a2.selected = sel
  crypto : ∀ c, sel = some c → ∃ core, a2.crypto = some core ∧
    Slot0 core (masterKey c r1.ecdhPub r2.ecdhPub) (bytesGt a.hash b.hash) (firstNonce (bytesGt a.hash b.hash) r3.start)
  plain : sel = none → a2.crypto = none

/-- state of the responder's side after the third delivery -/
structure RespDone (sel : Option Cipher) (a b : InitSt) (r1 r2 : Rand) (b2 : InitSt) : Prop where
  stage : b2.stage = Generated.CLOSING
  selected : b2.selected = sel
  crypto : ∀ c, sel = some c → ∃ core, b2.crypto = some core ∧
    Slot0 core (masterKey c r1.ecdhPub r2.ecdhPub) (bytesGt b.hash a.hash) (firstNonce (bytesGt b.hash a.hash) r2.start)
  plain : sel = none → b2.crypto = none

theorem handleMsg_pong_ok (env : CryptoEnv) (bodyOf : BodyOf) (ok : Bytes → Bool) (st0 : InitSt) (hb eb : Bytes) (ab : Algos) (pl : Bytes)
    (rnd : Rand) (own : Bytes) (sel : Option Cipher) (st5 : InitSt) (p : Bytes)
    (hown : st0.ecdh = some own) (hsel : selectAlgorithm st0.algos ab = .ok sel)
    (hd : decryptPayload (pongSt st0 own eb hb sel rnd) bodyOf pl = (st5, some p)) (hok : ok p = true) :
    handleMsg env bodyOf ok st0 (.pong hb eb ab pl) rnd =
      .ok { (sendMessage env st5 Generated.STAGE_PENG rnd).1 with stage := Generated.WAITING_TO_CLOSE, closeTime := Generated.CLOSE_TIME }
        ((sendMessage env st5 Generated.STAGE_PENG rnd).2.1, .success p true, (sendMessage env st5 Generated.STAGE_PENG rnd).2.2) := by
  simp only [handleMsg, hown, hsel, hd, hok]
  rfl

theorem handleMsg_peng_ok (env : CryptoEnv) (bodyOf : BodyOf) (ok : Bytes → Bool) (st0 : InitSt) (hb pl : Bytes) (rnd : Rand)
    (st2 : InitSt) (p : Bytes) (hd : decryptPayload { st0 with retries := 0 } bodyOf pl = (st2, some p)) (hok : ok p = true) :
    handleMsg env bodyOf ok st0 (.peng hb pl) rnd = .ok { st2 with stage := Generated.CLOSING } ([], .success p false, []) := by
  simp only [handleMsg, hd, hok]
  rfl

theorem sealed_take_drop (n : Nat) (ct : Bytes) :
    (0 :: Bytes.ofBE 7 n ++ ct).take 8 = 0 :: Bytes.ofBE 7 n ∧ (0 :: Bytes.ofBE 7 n ++ ct).drop 8 = ct := by
  have hl : (0 :: Bytes.ofBE 7 n).length = 8 := by simp [ofBE_length]
  exact ⟨List.take_left' hl, List.drop_left' hl⟩

theorem payloadField_length (sel : Option Cipher) (half : Bool) (r : Rand) (plain : Bytes)
    (hp : plain.length < 65536 - 24) (hct : r.ct.length ≤ plain.length + Generated.TAG_LEN) :
    (payloadField sel half r plain).length < 65536 := by
  cases sel with
  | none => simp only [payloadField]; omega
  | some c =>
    simp only [payloadField, List.length_append, List.length_cons, ofBE_length]
    simp only [Generated.TAG_LEN] at hct
    omega

theorem firstNonce_eq (half : Bool) (start : Nat) : firstNonce half start = base half + (start + 1) := by
  simp only [firstNonce, base, Nat.add_assoc]

/-- **second delivery**: the initiator accepts the pong, reports the responder's payload and answers with the peng -/
theorem pong_completes_initiator_S (H : HypsS sel env bodyOf ok a b r1 r2 r3) (hnego : selectAlgorithm a.algos b.algos = .ok sel) :
    ∃ a2, handleInit env bodyOf ok (sendPing env a r1).1 (wire env b (pongMsgS sel a b r2) r2) r3 =
        .ok a2 (wire env a (pengMsgS sel a b r3) r3, .success b.payload true, sealLog sel r1 r2 (bytesGt a.hash b.hash) r3 a.payload) ∧
      InitDone sel a b r1 r2 r3 a2 := by
  rw [sendPing_eq]
  simp only
  have hr : readFrom env (wire env b (pongMsgS sel a b r2) r2) (sentPing env a r1).trusted = .ok (pongMsgS sel a b r2, b.ownKey) := by
    show readFrom env (wire env b (pongMsgS sel a b r2) r2) a.trusted = _
    have := initmsg_roundtrip env (pongMsgS sel a b r2) r2.salt r2.sig [] b.ownKey a.trusted
      ⟨H.hashB, by rw [H.ecdh2.1]; decide, H.algosB, payloadField_length _ _ _ _ H.payloadB H.ct2⟩
      H.rand2.salt H.rand2.keyHash H.rand2.sig H.finds2 H.sig2
    rwa [List.append_nil] at this
  have hne : (sentPing env a r1).hash ≠ (pongMsgS sel a b r2).hash := hash_ne_of_beVal H.hashNe
  rw [handleInit_accept env bodyOf ok (sentPing env a r1) _ r3 _ _ hr hne H.notSelfA rfl]
  cases sel with
  | none =>
    have hd : decryptPayload (pongSt (sentPing env a r1) r1.ecdhPub r2.ecdhPub b.hash none r3) bodyOf b.payload = (_, some b.payload) :=
      decryptPayload_none _ _ _ H.freshA.crypto
    simp only [pongMsgS, payloadField]
    rw [handleMsg_pong_ok env bodyOf ok (sentPing env a r1) _ _ _ _ r3 r1.ecdhPub none _ b.payload rfl hnego hd H.payloadOkB, sendMessage_peng]
    have hc : (pongSt (sentPing env a r1) r1.ecdhPub r2.ecdhPub b.hash none r3).crypto = none := H.freshA.crypto
    rw [encryptPayload_none _ _ hc]
    refine ⟨_, rfl, ?_⟩
    exact ⟨rfl, rfl, fun c h => (by cases h), fun _ => hc⟩
  | some c =>
    have h0 := slot0_new (masterKey c r1.ecdhPub r2.ecdhPub) (bytesGt a.hash b.hash) r3.dummy r3.start r3.starts123
    obtain ⟨et, ed⟩ := sealed_take_drop (firstNonce (bytesGt b.hash a.hash) r2.start) r2.ct
    have hbody : bodyOf r2.ct = .sealed (masterKey c r1.ecdhPub r2.ecdhPub) (firstNonce (bytesGt b.hash a.hash) r2.start) b.payload :=
      H.opens2 _ (List.mem_singleton.2 rfl)
    have hopen := slot0_opens (h := bytesGt b.hash a.hash) (by rw [← H.half_opp]; exact h0) (r2.start + 1) (start_succ_lt _ H.start2) b.payload
    rw [← firstNonce_eq] at hopen
    have hd := decryptPayload_ok (pongSt (sentPing env a r1) r1.ecdhPub r2.ecdhPub b.hash (some c) r3) bodyOf (payloadField (some c) (bytesGt b.hash a.hash) r2 b.payload) _ b.payload rfl
        (by simp only [payloadField]; rw [et, ed, hbody]; exact hopen)
    rw [pongMsgS, handleMsg_pong_ok env bodyOf ok (sentPing env a r1) _ _ _ _ r3 r1.ecdhPub (some c) _ b.payload rfl hnego hd H.payloadOkB, sendMessage_peng]
    have h0' : Slot0 (Core.new (masterKey c r1.ecdhPub r2.ecdhPub) (bytesGt (sentPing env a r1).hash b.hash) r3.dummy (r3.start :: r3.starts123))
      (masterKey c r1.ecdhPub r2.ecdhPub) (bytesGt a.hash b.hash) (base (bytesGt a.hash b.hash) + r3.start) := h0
    have h1 := slot0_decrypt (Dgram.mk ((payloadField (some c) (bytesGt b.hash a.hash) r2 b.payload).take 8)
      (bodyOf ((payloadField (some c) (bytesGt b.hash a.hash) r2 b.payload).drop 8))) h0'
    rw [encryptPayload_some _ _ _ rfl]
    obtain ⟨e1, e2⟩ := slot0_encrypt (pongSt (sentPing env a r1) r1.ecdhPub r2.ecdhPub b.hash (some c) r3).payload h1
      (first_nonce_lt _ _ H.start3)
    refine Exists.intro ?w ⟨?h1, ?h2⟩
    case h1 =>
      simp only [e1]
      rfl
    · refine ⟨rfl, rfl, ?_, fun h => (by cases h)⟩
      intro c' h
      cases h
      exact ⟨_, rfl, e2⟩

/-- **third delivery**: the responder accepts the peng and reports the initiator's payload -/
theorem peng_completes_responder_S (H : HypsS sel env bodyOf ok a b r1 r2 r3) (b1 : InitSt) (hb1 : RespReady sel a b r1 r2 b1) (r4 : Rand) :
    ∃ b2, handleInit env bodyOf ok b1 (wire env a (pengMsgS sel a b r3) r3) r4 = .ok b2 ([], .success a.payload false, []) ∧
      RespDone sel a b r1 r2 b2 := by
  have hr : readFrom env (wire env a (pengMsgS sel a b r3) r3) b1.trusted = .ok (pengMsgS sel a b r3, a.ownKey) := by
    have := initmsg_roundtrip env (pengMsgS sel a b r3) r3.salt r3.sig [] a.ownKey b.trusted
      ⟨H.hashA, payloadField_length _ _ _ _ H.payloadA H.ct3⟩
      H.rand3.salt H.rand3.keyHash H.rand3.sig H.finds3 H.sig3
    rw [hb1.trusted]
    rwa [List.append_nil] at this
  have hne : b1.hash ≠ (pengMsgS sel a b r3).hash := by
    rw [hb1.hash]; exact fun e => hash_ne_of_beVal H.hashNe e.symm
  have hself : checkSaltedNodeIdHash env (pengMsgS sel a b r3).hash b1.nodeId = false := by
    rw [hb1.nodeId]; exact H.notSelfB
  rw [handleInit_accept env bodyOf ok b1 _ r4 _ _ hr hne hself (by rw [hb1.stage]; rfl)]
  cases sel with
  | none =>
    have hc : ({ b1 with retries := 0 } : InitSt).crypto = none := hb1.plain rfl
    simp only [pengMsgS, payloadField]
    rw [handleMsg_peng_ok env bodyOf ok b1 _ _ r4 _ a.payload (decryptPayload_none _ _ _ hc) H.payloadOkA]
    exact ⟨_, rfl, rfl, hb1.selected, fun c h => (by cases h), fun _ => hc⟩
  | some c =>
    obtain ⟨core, hcore, h0⟩ := hb1.crypto c rfl
    have hc : ({ b1 with retries := 0 } : InitSt).crypto = some core := hcore
    obtain ⟨et, ed⟩ := sealed_take_drop (firstNonce (bytesGt a.hash b.hash) r3.start) r3.ct
    have hbody : bodyOf r3.ct = .sealed (masterKey c r1.ecdhPub r2.ecdhPub) (firstNonce (bytesGt a.hash b.hash) r3.start) a.payload :=
      H.opens3 _ (List.mem_singleton.2 rfl)
    have hopen := slot0_opens (h := bytesGt a.hash b.hash) (by rw [H.half_opp, Bool.not_not]; exact h0) (r3.start + 1)
      (start_succ_lt _ H.start3) a.payload
    rw [← firstNonce_eq] at hopen
    have hd := decryptPayload_ok ({ b1 with retries := 0 } : InitSt) bodyOf (payloadField (some c) (bytesGt a.hash b.hash) r3 a.payload) core a.payload hc
        (by simp only [payloadField]; rw [et, ed, hbody]; exact hopen)
    rw [pengMsgS, handleMsg_peng_ok env bodyOf ok b1 _ _ r4 _ a.payload hd H.payloadOkA]
    refine ⟨_, rfl, rfl, hb1.selected, ?_, fun h => (by cases h)⟩
    intro c' h
    cases h
    exact ⟨_, rfl, slot0_decrypt _ h0⟩

end steps

/-! ## the statement -/

/-- what both ends select (`none` = plain; also `none` when the negotiation fails, which `Hyps.nego` excludes) -/
def negotiated (a b : InitSt) : Option Cipher :=
  match selectAlgorithm a.algos b.algos with
  | .ok s => s
  | .error _ => none

/-- the three messages and the two seal logs of the run, as the model builds them (this is part of the conclusion of `lockstep_completes`) -/
def pongMsg (a b : InitSt) (r2 : Rand) : InitMsg := pongMsgS (negotiated a b) a b r2
def pengMsg (a b : InitSt) (r3 : Rand) : InitMsg := pengMsgS (negotiated a b) a b r3
def log2 (a b : InitSt) (r1 r2 : Rand) : SealLog := sealLog (negotiated a b) r1 r2 (bytesGt b.hash a.hash) r2 b.payload
def log3 (a b : InitSt) (r1 r2 r3 : Rand) : SealLog := sealLog (negotiated a b) r1 r2 (bytesGt a.hash b.hash) r3 a.payload

/-- all hypotheses of `lockstep_completes`: those of `HypsS` for the negotiated cipher, and (vi) the negotiation does not fail -/
structure Hyps (env : CryptoEnv) (bodyOf : BodyOf) (ok : Bytes → Bool) (a b : InitSt) (r1 r2 r3 : Rand) : Prop
    extends HypsS (negotiated a b) env bodyOf ok a b r1 r2 r3 where
  nego : ∀ e, selectAlgorithm a.algos b.algos ≠ .error e

/-- the two ends agree -/
def Agreement (a b : InitSt) (r1 r2 r3 : Rand) (a2 b2 : InitSt) : Prop :=
  match selectAlgorithm a.algos b.algos with
  | .ok (some c) =>
    a2.selected = some c ∧ b2.selected = some c ∧
    ∃ ca cb, a2.crypto = some ca ∧ b2.crypto = some cb ∧
      (ca.slots[0]?.map (·.key)) = some (masterKey c r1.ecdhPub r2.ecdhPub) ∧
      (cb.slots[0]?.map (·.key)) = some (masterKey c r1.ecdhPub r2.ecdhPub) ∧
      ca.cur = 0 ∧ cb.cur = 0 ∧ ca.half = bytesGt a.hash b.hash ∧ cb.half = !ca.half
  | .ok none =>
    a2.selected = none ∧ b2.selected = none ∧ a2.crypto = none ∧ b2.crypto = none ∧
    pongMsg a b r2 = .pong b.hash r2.ecdhPub b.algos b.payload ∧ pengMsg a b r3 = .peng a.hash a.payload ∧
    log2 a b r1 r2 = [] ∧ log3 a b r1 r2 r3 = []
  | .error _ => False

theorem Hyps.nego_eq {env : CryptoEnv} {bodyOf : BodyOf} {ok : Bytes → Bool} {a b : InitSt} {r1 r2 r3 : Rand}
    (H : Hyps env bodyOf ok a b r1 r2 r3) : selectAlgorithm a.algos b.algos = .ok (negotiated a b) := by
  unfold negotiated
  cases h : selectAlgorithm a.algos b.algos with
  | ok s => rfl
  | error e => exact absurd h (H.nego e)

/-- **first delivery** -/
theorem ping_accepted (env : CryptoEnv) (bodyOf : BodyOf) (ok : Bytes → Bool) (a b : InitSt) (r1 r2 r3 : Rand)
    (H : Hyps env bodyOf ok a b r1 r2 r3) :
    ∃ b1, handleInit env bodyOf ok b (sendPing env a r1).2 r2 = .ok b1 (wire env b (pongMsg a b r2) r2, .continue, log2 a b r1 r2) ∧
      b1.stage = Generated.STAGE_PENG := by
  obtain ⟨b1, h, hb1⟩ := ping_accepted_S H.toHypsS H.nego_eq
  exact ⟨b1, h, hb1.stage⟩

/-- **second delivery** -/
theorem pong_completes_initiator (env : CryptoEnv) (bodyOf : BodyOf) (ok : Bytes → Bool) (a b : InitSt) (r1 r2 r3 : Rand)
    (H : Hyps env bodyOf ok a b r1 r2 r3) :
    ∃ a2, handleInit env bodyOf ok (sendPing env a r1).1 (wire env b (pongMsg a b r2) r2) r3 =
        .ok a2 (wire env a (pengMsg a b r3) r3, .success b.payload true, log3 a b r1 r2 r3) ∧
      a2.stage = Generated.WAITING_TO_CLOSE := by
  obtain ⟨a2, h, ha2⟩ := pong_completes_initiator_S H.toHypsS H.nego_eq
  exact ⟨a2, h, ha2.stage⟩

/-- **third delivery** (for the state `b1` the first delivery leaves behind) -/
theorem peng_completes_responder (env : CryptoEnv) (bodyOf : BodyOf) (ok : Bytes → Bool) (a b : InitSt) (r1 r2 r3 r4 : Rand)
    (H : Hyps env bodyOf ok a b r1 r2 r3) (b1 : InitSt) (out : Bytes) (log : SealLog)
    (h1 : handleInit env bodyOf ok b (sendPing env a r1).2 r2 = .ok b1 (out, .continue, log)) :
    ∃ b2, handleInit env bodyOf ok b1 (wire env a (pengMsg a b r3) r3) r4 = .ok b2 ([], .success a.payload false, []) ∧
      b2.stage = Generated.CLOSING := by
  obtain ⟨b1', h, hb1⟩ := ping_accepted_S H.toHypsS H.nego_eq
  have e : b1' = b1 := by
    rw [show (sendPing env a r1).2 = wire env a (pingMsg a r1) r1 from rfl, h] at h1
    simp only [Outcome.ok.injEq] at h1
    exact h1.1
  subst e
  obtain ⟨b2, h3, hb2⟩ := peng_completes_responder_S H.toHypsS b1' hb1 r4
  exact ⟨b2, h3, hb2.stage⟩

/-- **lockstep_completes**: the loss-free handshake completes, and the two ends agree -/
theorem lockstep_completes (env : CryptoEnv) (bodyOf : BodyOf) (ok : Bytes → Bool) (a b : InitSt) (r1 r2 r3 r4 : Rand)
    (H : Hyps env bodyOf ok a b r1 r2 r3) :
    ∃ b1 a2 b2 : InitSt,
      handleInit env bodyOf ok b (sendPing env a r1).2 r2 =
        .ok b1 (wire env b (pongMsg a b r2) r2, .continue, log2 a b r1 r2) ∧
      b1.stage = Generated.STAGE_PENG ∧
      handleInit env bodyOf ok (sendPing env a r1).1 (wire env b (pongMsg a b r2) r2) r3 =
        .ok a2 (wire env a (pengMsg a b r3) r3, .success b.payload true, log3 a b r1 r2 r3) ∧
      a2.stage = Generated.WAITING_TO_CLOSE ∧
      handleInit env bodyOf ok b1 (wire env a (pengMsg a b r3) r3) r4 = .ok b2 ([], .success a.payload false, []) ∧
      b2.stage = Generated.CLOSING ∧
      Agreement a b r1 r2 r3 a2 b2 := by
  have hn := H.nego_eq
  obtain ⟨b1, h1, hb1⟩ := ping_accepted_S H.toHypsS hn
  obtain ⟨a2, h2, ha2⟩ := pong_completes_initiator_S H.toHypsS hn
  obtain ⟨b2, h3, hb2⟩ := peng_completes_responder_S H.toHypsS b1 hb1 r4
  refine ⟨b1, a2, b2, h1, hb1.stage, h2, ha2.stage, h3, hb2.stage, ?_⟩
  unfold Agreement
  rw [hn]
  cases hs : negotiated a b with
  | none =>
    simp only
    refine ⟨by rw [ha2.selected, hs], by rw [hb2.selected, hs], ha2.plain hs, hb2.plain hs, ?_, ?_, ?_, ?_⟩
    · simp only [pongMsg, pongMsgS, hs, payloadField]
    · simp only [pengMsg, pengMsgS, hs, payloadField]
    · simp only [log2, hs, sealLog]
    · simp only [log3, hs, sealLog]
  | some c =>
    simp only
    obtain ⟨ca, hca, sa⟩ := ha2.crypto c hs
    obtain ⟨cb, hcb, sb⟩ := hb2.crypto c hs
    refine ⟨by rw [ha2.selected, hs], by rw [hb2.selected, hs], ca, cb, hca, hcb,
      (slot0_coreOK sa).1, (slot0_coreOK sb).1, sa.cur, sb.cur, sa.half, ?_⟩
    rw [sb.half, sa.half, H.half_opp, Bool.not_not]

/-- the same, in the form "run the model, whatever it returns" -/
theorem lockstep_completes_run (env : CryptoEnv) (bodyOf : BodyOf) (ok : Bytes → Bool) (a b : InitSt) (r1 r2 r3 r4 : Rand)
    (H : Hyps env bodyOf ok a b r1 r2 r3) (a1 : InitSt) (ping : Bytes) (hp : sendPing env a r1 = (a1, ping)) :
    ∃ b1 pong l2, handleInit env bodyOf ok b ping r2 = .ok b1 (pong, .continue, l2) ∧ b1.stage = Generated.STAGE_PENG ∧
    ∃ a2 peng l3, handleInit env bodyOf ok a1 pong r3 = .ok a2 (peng, .success b.payload true, l3) ∧
      a2.stage = Generated.WAITING_TO_CLOSE ∧
    ∃ b2, handleInit env bodyOf ok b1 peng r4 = .ok b2 ([], .success a.payload false, []) ∧ b2.stage = Generated.CLOSING ∧
      Opens bodyOf l2 ∧ Opens bodyOf l3 ∧ Agreement a b r1 r2 r3 a2 b2 := by
  obtain ⟨b1, a2, b2, h1, s1, h2, s2, h3, s3, hag⟩ := lockstep_completes env bodyOf ok a b r1 r2 r3 r4 H
  rw [hp] at h1 h2
  exact ⟨b1, _, _, h1, s1, a2, _, _, h2, s2, b2, h3, s3, H.opens2, H.opens3, hag⟩

/-! ## non-vacuity: a toy instance satisfying every hypothesis -/

namespace Toy

/-- toy cryptography: "hashes" are prefixes of the concatenation, every signature verifies -/
def env : CryptoEnv :=
  { keyHash := fun k s => (k ++ s).take 4, nodeHash := fun s i => (s ++ i).take 16, sigVerify := fun _ _ _ => true }

def okP : Bytes → Bool := fun p => p.length ≤ 2

def A (al : Algos) : InitSt :=
  { nodeId := [1], hash := List.replicate 20 1, payload := [10, 11], ownKey := [7, 7, 7, 7], trusted := [[8, 8, 8, 8], [9, 9, 9, 9]], algos := al }
def B (al : Algos) : InitSt :=
  { nodeId := [2], hash := List.replicate 20 2, payload := [20], ownKey := [9, 9, 9, 9], trusted := [[7, 7, 7, 7]], algos := al }

def algosA : Algos := ⟨[(.aes128, 10), (.chacha, 30)], false⟩
def algosB : Algos := ⟨[(.chacha, 20), (.aes128, 25)], true⟩
def plainA : Algos := ⟨[(.aes128, 10)], true⟩
def plainB : Algos := ⟨[], true⟩

def R1 : Rand := { salt := [0, 0, 0, 1], ecdhPub := List.replicate 32 5, sig := [1, 2, 3] }
def R2 : Rand := { salt := [0, 0, 0, 2], ecdhPub := List.replicate 32 6, start := 100, starts123 := [1, 2, 3],
                   ct := List.replicate 17 170, sig := [4, 5], dummy := 1 }
def R3 : Rand := { salt := [0, 0, 0, 3], start := 200, starts123 := [4, 5, 6], ct := List.replicate 18 187, sig := [6], dummy := 1 }
def R4 : Rand := {}

/-- the ideal AEAD of this run: the two ciphertexts stand for what the seal logs record, everything else is garbage -/
def body (a b : InitSt) : BodyOf := fun x =>
  match (log2 a b R1 R2 ++ log3 a b R1 R2 R3).find? (fun e => e.1 = x) with
  | some e => e.2
  | none => .garbage x.length

theorem sel_cipher : selectAlgorithm algosA algosB = .ok (some .chacha) := rfl
theorem sel_plain : selectAlgorithm plainA plainB = .ok none := rfl

/-- every hypothesis holds (cipher negotiated: chacha) -/
theorem hyps_cipher : Hyps env (body (A algosA) (B algosB)) okP (A algosA) (B algosB) R1 R2 R3 where
  freshA := ⟨rfl, rfl, rfl, rfl, rfl⟩
  freshB := ⟨rfl, rfl, rfl, rfl, rfl⟩
  hashA := by decide
  hashB := by decide
  rand1 := ⟨by decide, by decide, by decide⟩
  rand2 := ⟨by decide, by decide, by decide⟩
  rand3 := ⟨by decide, by decide, by decide⟩
  ecdh1 := ⟨by decide, by decide⟩
  ecdh2 := ⟨by decide, by decide⟩
  payloadA := by decide
  payloadB := by decide
  payloadOkA := by decide
  payloadOkB := by decide
  ct2 := by decide
  ct3 := by decide
  algosA := by unfold algosWF; decide
  algosB := by unfold algosWF; decide
  nodupA := by unfold NoDup; decide
  nodupB := by unfold NoDup; decide
  start2 := by decide
  start3 := by decide
  sig1 := rfl
  sig2 := rfl
  sig3 := rfl
  finds1 := by unfold Finds; decide
  finds2 := by unfold Finds; decide
  finds3 := by unfold Finds; decide
  opens2 := by unfold Opens; decide +kernel
  opens3 := by unfold Opens; decide +kernel
  hashNe := by decide +kernel
  notSelfA := by decide
  notSelfB := by decide
  nego := by
    intro e h
    rw [show selectAlgorithm (A algosA).algos (B algosB).algos = .ok (some .chacha) from rfl] at h
    cases h

/-- so the conclusion holds for this run -/
example : ∃ b1 a2 b2 : InitSt,
    handleInit env (body (A algosA) (B algosB)) okP (B algosB) (sendPing env (A algosA) R1).2 R2 =
      .ok b1 (wire env (B algosB) (pongMsg (A algosA) (B algosB) R2) R2, .continue, log2 (A algosA) (B algosB) R1 R2) ∧
    b1.stage = Generated.STAGE_PENG ∧
    handleInit env (body (A algosA) (B algosB)) okP (sendPing env (A algosA) R1).1 (wire env (B algosB) (pongMsg (A algosA) (B algosB) R2) R2) R3 =
      .ok a2 (wire env (A algosA) (pengMsg (A algosA) (B algosB) R3) R3, .success [20] true, log3 (A algosA) (B algosB) R1 R2 R3) ∧
    a2.stage = Generated.WAITING_TO_CLOSE ∧
    handleInit env (body (A algosA) (B algosB)) okP b1 (wire env (A algosA) (pengMsg (A algosA) (B algosB) R3) R3) R4 =
      .ok b2 ([], .success [10, 11] false, []) ∧
    b2.stage = Generated.CLOSING ∧
    Agreement (A algosA) (B algosB) R1 R2 R3 a2 b2 :=
  lockstep_completes _ _ _ _ _ _ _ _ R4 hyps_cipher

/-- and `Agreement` is the cipher branch there: both cores hold the chacha master key of the two ephemeral keys -/
example (a2 b2 : InitSt) (h : Agreement (A algosA) (B algosB) R1 R2 R3 a2 b2) :
    a2.selected = some .chacha ∧ b2.selected = some .chacha ∧
    ∃ ca cb, a2.crypto = some ca ∧ b2.crypto = some cb ∧
      (ca.slots[0]?.map (·.key)) = some (masterKey .chacha R1.ecdhPub R2.ecdhPub) ∧
      (cb.slots[0]?.map (·.key)) = some (masterKey .chacha R1.ecdhPub R2.ecdhPub) ∧
      ca.cur = 0 ∧ cb.cur = 0 ∧ ca.half = false ∧ cb.half = !ca.half := h

/-- the seal logs of that run are not empty: the ideal-AEAD hypotheses (iv) really constrain `bodyOf` -/
example : log2 (A algosA) (B algosB) R1 R2 = [(R2.ct, .sealed (masterKey .chacha R1.ecdhPub R2.ecdhPub) (HALF + 101) [20])] ∧
    log3 (A algosA) (B algosB) R1 R2 R3 = [(R3.ct, .sealed (masterKey .chacha R1.ecdhPub R2.ecdhPub) 201 [10, 11])] := by
  decide +kernel

/-- independent check by evaluation of the model on that run (results and final stages) -/
def runCheck (a b : InitSt) : Bool :=
  let (a1, w1) := sendPing env a R1
  match handleInit env (body a b) okP b w1 R2 with
  | .ok b1 (w2, .continue, _) =>
    match handleInit env (body a b) okP a1 w2 R3 with
    | .ok a2 (w3, .success p true, _) =>
      match handleInit env (body a b) okP b1 w3 R4 with
      | .ok b2 ([], .success q false, []) =>
        p == b.payload && q == a.payload && a2.stage == Generated.WAITING_TO_CLOSE && b2.stage == Generated.CLOSING &&
        (a2.crypto.map (fun c => c.slots[0]?.map (·.key))) == (b2.crypto.map (fun c => c.slots[0]?.map (·.key))) &&
        (a2.crypto.map (·.half)) == (b2.crypto.map (fun c => !c.half))
      | _ => false
    | _ => false
  | _ => false

example : runCheck (A algosA) (B algosB) = true := by decide +kernel
example : runCheck (A plainA) (B plainB) = true := by decide +kernel

/-- every hypothesis holds (plain negotiated) -/
theorem hyps_plain : Hyps env (body (A plainA) (B plainB)) okP (A plainA) (B plainB) R1 R2 R3 where
  freshA := ⟨rfl, rfl, rfl, rfl, rfl⟩
  freshB := ⟨rfl, rfl, rfl, rfl, rfl⟩
  hashA := by decide
  hashB := by decide
  rand1 := ⟨by decide, by decide, by decide⟩
  rand2 := ⟨by decide, by decide, by decide⟩
  rand3 := ⟨by decide, by decide, by decide⟩
  ecdh1 := ⟨by decide, by decide⟩
  ecdh2 := ⟨by decide, by decide⟩
  payloadA := by decide
  payloadB := by decide
  payloadOkA := by decide
  payloadOkB := by decide
  ct2 := by decide
  ct3 := by decide
  algosA := by unfold algosWF; decide
  algosB := by unfold algosWF; decide
  nodupA := by unfold NoDup; decide
  nodupB := by unfold NoDup; decide
  start2 := by decide
  start3 := by decide
  sig1 := rfl
  sig2 := rfl
  sig3 := rfl
  finds1 := by unfold Finds; decide
  finds2 := by unfold Finds; decide
  finds3 := by unfold Finds; decide
  opens2 := by unfold Opens; decide +kernel
  opens3 := by unfold Opens; decide +kernel
  hashNe := by decide +kernel
  notSelfA := by decide
  notSelfB := by decide
  nego := by
    intro e h
    rw [show selectAlgorithm (A plainA).algos (B plainB).algos = .ok none from rfl] at h
    cases h

example : ∃ b1 a2 b2 : InitSt,
    handleInit env (body (A plainA) (B plainB)) okP (B plainB) (sendPing env (A plainA) R1).2 R2 =
      .ok b1 (wire env (B plainB) (pongMsg (A plainA) (B plainB) R2) R2, .continue, log2 (A plainA) (B plainB) R1 R2) ∧
    b1.stage = Generated.STAGE_PENG ∧
    handleInit env (body (A plainA) (B plainB)) okP (sendPing env (A plainA) R1).1 (wire env (B plainB) (pongMsg (A plainA) (B plainB) R2) R2) R3 =
      .ok a2 (wire env (A plainA) (pengMsg (A plainA) (B plainB) R3) R3, .success [20] true, log3 (A plainA) (B plainB) R1 R2 R3) ∧
    a2.stage = Generated.WAITING_TO_CLOSE ∧
    handleInit env (body (A plainA) (B plainB)) okP b1 (wire env (A plainA) (pengMsg (A plainA) (B plainB) R3) R3) R4 =
      .ok b2 ([], .success [10, 11] false, []) ∧
    b2.stage = Generated.CLOSING ∧
    Agreement (A plainA) (B plainB) R1 R2 R3 a2 b2 :=
  lockstep_completes _ _ _ _ _ _ _ _ R4 hyps_plain

end Toy

end VpnCloud.Proofs.C05Lockstep
