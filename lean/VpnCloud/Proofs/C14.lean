import VpnCloud.Model.Node
import VpnCloud.Proofs.Lemmas.NodeLemmasAB
/-
  C14: self-connection detection in the handshake, and the abstract peer-exchange argument
  (every interval halves distances, so a connected bootstrap graph becomes a full mesh).
-/
namespace VpnCloud.Proofs.C14
open VpnCloud VpnCloud.Init VpnCloud.InitMsg

/-- **self_detect**: a handshake message whose salted node-id hash was derived from the receiver's own node id — with any salt, i.e. by any other handshake object of the
    same node, reached through any address — is refused with the fatal "connected to self" error and leaves the object unchanged -/
theorem self_detect (env : CryptoEnv) (bodyOf : BodyOf) (ok : Bytes → Bool) (st : InitSt) (w : Bytes) (rnd : Rand) (m : InitMsg) (k salt : Bytes)
    (hr : readFrom env w st.trusted = .ok (m, k)) (hs : salt.length = 4) (hh : m.hash = salt ++ env.nodeHash salt st.nodeId) :
    (match handleInit env bodyOf ok st w rnd with | .err st' e => st' = st ∧ e = .cryptoInitFatal | _ => False) := by
  have hc : checkSaltedNodeIdHash env m.hash st.nodeId = true := by
    simp [checkSaltedNodeIdHash, hh, ← hs]
  unfold handleInit
  simp [hr, hc]

/-! abstract peer exchange: in one interval every node learns its neighbours' neighbours -/
/-- symmetric graphs on the nodes `0 … n-1` as a decidable edge predicate -/
structure Graph (n : Nat) where
  adj : Fin n → Fin n → Bool
  symm : ∀ a b, adj a b = adj b a

/-- one peer-exchange interval: every node connects to the neighbours of its neighbours -/
def Graph.step {n : Nat} (g : Graph n) : Graph n :=
  { adj := fun a c => a ≠ c && (g.adj a c || (List.finRange n).any (fun b => g.adj a b && g.adj b c)),
    symm := by
      intro a c
      have h1 : (decide (a ≠ c)) = decide (c ≠ a) := by
        by_cases h : a = c
        · subst h; rfl
        · have h' : c ≠ a := fun e => h e.symm
          simp [h, h']
      have h2 : (fun b => g.adj a b && g.adj b c) = (fun b => g.adj c b && g.adj b a) := by
        funext b
        rw [g.symm a b, g.symm b c, Bool.and_comm]
      show (decide (a ≠ c) && (g.adj a c || (List.finRange n).any (fun b => g.adj a b && g.adj b c)))
         = (decide (c ≠ a) && (g.adj c a || (List.finRange n).any (fun b => g.adj c b && g.adj b a)))
      rw [h1, h2, g.symm a c] }

/-- there is a path of at most `k` edges from `a` to `c` -/
def Graph.reach {n : Nat} (g : Graph n) : Nat → Fin n → Fin n → Prop
  | 0, a, c => a = c
  | k + 1, a, c => a = c ∨ ∃ b, g.adj a b = true ∧ g.reach k b c

theorem Graph.reach_refl {n : Nat} (g : Graph n) (k : Nat) (a : Fin n) : g.reach k a a := by
  cases k with
  | zero => exact rfl
  | succ k => exact Or.inl rfl

theorem Graph.reach_succ {n : Nat} (g : Graph n) (k : Nat) (a c : Fin n) (h : g.reach k a c) : g.reach (k + 1) a c := by
  induction k generalizing a with
  | zero => exact Or.inl h
  | succ k ih =>
    rcases h with h | ⟨b, hab, hb⟩
    · exact Or.inl h
    · exact Or.inr ⟨b, hab, ih b hb⟩

theorem Graph.reach_mono {n : Nat} (g : Graph n) (k l : Nat) (hkl : k ≤ l) (a c : Fin n) (h : g.reach k a c) : g.reach l a c := by
  induction hkl with
  | refl => exact h
  | step _ ih => exact g.reach_succ _ a c ih

/-- the edges of the graph after one interval -/
theorem Graph.step_adj {n : Nat} (g : Graph n) (a c : Fin n) :
    g.step.adj a c = true ↔ a ≠ c ∧ (g.adj a c = true ∨ ∃ b, g.adj a b = true ∧ g.adj b c = true) := by
  simp [Graph.step]

/-- **mesh_closure**: distances halve with every interval, so from any connected bootstrap graph on `n` nodes the full mesh is reached after `k` intervals once `2^k ≥ n` -/
theorem mesh_halving {n : Nat} (g : Graph n) (k : Nat) (a c : Fin n) (h : g.reach (2 * k) a c) : g.step.reach k a c := by
  induction k generalizing a with
  | zero => exact h
  | succ k ih =>
    have h' : g.reach (2 * k + 1 + 1) a c := h
    rcases h' with h' | ⟨b, hab, hb⟩
    · exact Or.inl h'
    · by_cases hac : a = c
      · exact Or.inl hac
      · rcases hb with hb | ⟨b', hbb', hb'⟩
        · subst hb
          exact Or.inr ⟨b, (g.step_adj a b).2 ⟨hac, Or.inl hab⟩, g.step.reach_refl k b⟩
        · by_cases hab' : a = b'
          · subst hab'
            exact g.step.reach_succ k a c (ih a hb')
          · exact Or.inr ⟨b', (g.step_adj a b').2 ⟨hab', Or.inr ⟨b, hab, hbb'⟩⟩, ih b' hb'⟩

/-- `f` applied `k` times (the definition of Mathlib's `Nat.iterate`, which core Lean lacks; local to this namespace) -/
def Nat.iterate {α : Sort u} (op : α → α) : Nat → α → α
  | 0, a => a
  | k + 1, a => Nat.iterate op k (op a)

/-- the local `Nat.iterate` is core's `Nat.repeat` -/
theorem iterate_eq_repeat {α : Type u} (f : α → α) (k : Nat) (a : α) : Nat.iterate f k a = Nat.repeat f k a := by
  induction k generalizing a with
  | zero => rfl
  | succ k ih =>
    show Nat.iterate f k (f a) = f (Nat.repeat f k a)
    rw [ih]
    clear ih
    induction k with
    | zero => rfl
    | succ k ih => show f (Nat.repeat f k (f a)) = f (f (Nat.repeat f k a)); rw [ih]

theorem mesh_iterate {n : Nat} (k : Nat) : ∀ (g : Graph n), (∀ a c, g.reach (2 ^ k) a c) → ∀ a c, (Nat.iterate Graph.step k g).reach 1 a c := by
  induction k with
  | zero => intro g h a c; exact h a c
  | succ k ih =>
    intro g h a c
    show (Nat.iterate Graph.step k g.step).reach 1 a c
    apply ih g.step
    intro a c
    apply mesh_halving
    have : 2 * 2 ^ k = 2 ^ (k + 1) := by rw [Nat.pow_succ, Nat.mul_comm]
    rw [this]
    exact h a c

theorem mesh_closure {n : Nat} (g : Graph n) (hconn : ∀ a c, g.reach n a c) (k : Nat) (hk : n ≤ 2 ^ k) (a c : Fin n) (hne : a ≠ c) :
    (Nat.iterate Graph.step k g).adj a c = true := by
  have h := mesh_iterate k g (fun a c => g.reach_mono n (2 ^ k) hk a c (hconn a c)) a c
  rcases h with h | ⟨b, hab, hb⟩
  · exact absurd h hne
  · have hb' : b = c := hb
    rw [← hb']; exact hab

end VpnCloud.Proofs.C14
