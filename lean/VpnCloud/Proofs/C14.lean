import VpnCloud.Model.Node
namespace VpnCloud.Proofs.C14
end VpnCloud.Proofs.C14
