import VpnCloud.Model.Node
import VpnCloud.Proofs.Lemmas.C13MoreLemmas
/-
  C13 — "Switch learning is per VLAN and expires; hub and router learn nothing" — at node level (`handleNet`, `handleIface`, `housekeep`).

  1. `learned_then_unicast`      a frame with source `S` from peer `P`, then a frame for `S` from the interface goes to `P` only;
     `learned_survives_tick`     … also after housekeeping ticks up to the expiry `t + switch timeout` of the entry;
  2. `relearn_moves`             the same source from another peer `Q`: frames for `S` go to `Q` only (last writer wins);
  3. `vlan_isolated`, `vlan_same_unicast`, `priority_tag_directs_untagged`, `untagged_directs_priority_tag`
                                 the key is the MAC address with its 12-bit VLAN id; VLAN id 0 (priority tag) = untagged;
  4. `unknown_in_vlan_flooded`, `known_elsewhere_flooded`
                                 a destination without entry in its VLAN goes to all peers, one copy each;
  5. `disconnect_forgets_node` (`Dropped`: close message / expiry / session failure), `disconnect_then_flooded`, `silent_expires_node`;
  6. `no_learning_any_datagram`, `housekeep_adds_nothing`, `connect_table_same`, `iface_caches_own_lookup`, `hub_router_never_learn`
                                 with `learning = false` nothing is ever learned: over all histories every cache entry is the decision
                                 of a lookup;
     `hub_router_cache_backed`   … and with a clock that does not run backwards, as a state invariant: every cache entry is backed by a
                                 claim in the table (same peer, containing the address, living at least as long).

  Hypotheses added (counterexamples in the last section): `IdUnique` — no other peer address has the table id of `P` (`id_clash`; holds
  for well-formed socket addresses, `idUnique_of_wf`) —, and `0 < now` for the sub-list statements of 6 (`sublist_fails_at_zero`).
-/
namespace VpnCloud.Proofs.C13More

open VpnCloud VpnCloud.Node VpnCloud.Table
open VpnCloud.Proofs.NodeLemmas VpnCloud.Proofs.NodeLemmas2 VpnCloud.Proofs.NodeInvLemmas VpnCloud.Proofs.C10MoreLemmas
open VpnCloud.Proofs.C13MoreLemmas
open VpnCloud.Proofs.C15More (FromPeer)

/-- no other peer address of `n` has the table id of `a` (`addrId` is injective on well-formed socket addresses; the model does not
    bound ports and address bytes, see the counterexample `id_clash`) -/
def IdUnique (n : Node) (a : NAddr) : Prop := ∀ x ∈ n.peers.map (·.1), addrId x = addrId a → x = a

/-- `IdUnique` holds whenever the peer addresses are well-formed socket addresses (16 / 4 address bytes, 16-bit port): `addrId` is
    injective on those (`addrId_inj`) -/
theorem idUnique_of_wf (n : Node) (a : NAddr) (ha : AddrWF a) (h : ∀ x ∈ n.peers.map (·.1), AddrWF x) : IdUnique n a :=
  fun x hx e => addrId_inj (h x hx) ha e

/-- **learned_then_unicast**: a node in switch mode (learning, tap device) receives from its established peer `P` (address `src`) a datagram
    that P's session opens as the DATA message `f`, an Ethernet frame with source address `S` (VLAN included).  Afterwards the table has the
    entry `S ↦ P` with expiry `now + switch timeout`, and a frame `g` read from the interface with destination `S` (same VLAN) — at ANY time
    `now'`: the lookup does not consult the clock, an entry is used until a sweep removes it — is sealed by P's session and sent to P and to
    nobody else: exactly one datagram, or none if the session cannot seal.  (`IdUnique`: no other peer has the table id of P.) -/
theorem learned_then_unicast {env : CryptoEnv} {bodyOf : Init.BodyOf} {o : Oracle} {n : Node} {src : NAddr} {data tail : Bytes}
    {p : Peer} {pc : PeerCrypto} {f : Bytes}
    (h : FromPeer env bodyOf o n src data tail p pc Generated.MESSAGE_TYPE_DATA f)
    (hlearn : n.cfg.learning = true) (htap : n.cfg.tap = true) (now : Int) (S D : Addr) (hf : Payload.frameParse f = .ok (S, D))
    (hid : IdUnique n (mappedAddr src))
    (o' : Oracle) (now' : Int) (g : Bytes) (S' : Addr) (hg : Payload.frameParse g = .ok (S', S)) :
    let n' := (handleNet env bodyOf o n now src data tail).1.node
    n'.table.cache.find? (fun v => v.addr = S) = some ⟨S, addrId (mappedAddr src), now + n.table.cacheTimeout⟩ ∧
    lookupA n'.peers (mappedAddr src) = some { p with crypto := pc } ∧
    (handleIface o' n' now' g).outs =
      match (PeerCrypto.sendMessage pc Generated.MESSAGE_TYPE_DATA g (rndFor o' { node := n' } (mappedAddr src)).2.1.ct).2 with
      | .ok (bytes, _) => [.dgram (mappedAddr src) bytes]
      | .error _ => [] := by
  intro n'
  have hnode := (handleNet_data h now S D (parseAddrs_tap n htap f _ hf)).1
  have hn' : n' = _ := hnode
  rw [hlearn] at hn'
  simp only [if_true] at hn'
  have hcache : n'.table.cache.find? (fun v => v.addr = S) = some ⟨S, addrId (mappedAddr src), now + n.table.cacheTimeout⟩ := by
    rw [hn']
    show (n.table.learn now S (addrId (mappedAddr src))).cache.find? _ = _
    rw [C13.learn_cache]
    simp
  have hpeer : lookupA n'.peers (mappedAddr src) = some { p with crypto := pc } := by
    rw [hn']; exact lookupA_insertA_self _ _ _
  refine ⟨hcache, hpeer, ?_⟩
  have hkeys : n'.peers.map (·.1) = n.peers.map (·.1) := by
    rw [hn']; exact insertA_keys_of_some _ _ _ _ h.peer
  have hfind : (n'.peers.map (·.1)).find? (fun a => addrId a = addrId (mappedAddr src)) = some (mappedAddr src) := by
    rw [hkeys]
    exact find?_unique (mem_key (lookupA_some_mem h.peer)) hid
  have hpg : parseAddrs n' g = some (S', S) := by
    apply parseAddrs_tap _ _ g _ hg
    rw [hn']; exact htap
  have hlk : (n'.table.lookup now' S).2 = some (addrId (mappedAddr src)) := by
    rw [lookup_hit _ now' S _ hcache]
  obtain ⟨p', hp', ho⟩ := C10More.emit_known o' n' now' g S' S _ _ hpg hlk hfind
  rw [hpeer] at hp'
  cases hp'
  exact ho

/-- the frame `g` read from the interface of `n'` goes to `a` and to nobody else: one datagram, the DATA message sealed by the session `pc`,
    or nothing if that session cannot seal -/
def OnlyTo (o' : Oracle) (n' : Node) (now' : Int) (g : Bytes) (a : NAddr) (pc : PeerCrypto) : Prop :=
  (handleIface o' n' now' g).outs =
    match (PeerCrypto.sendMessage pc Generated.MESSAGE_TYPE_DATA g (rndFor o' { node := n' } a).2.1.ct).2 with
    | .ok (bytes, _) => [.dgram a bytes]
    | .error _ => []

theorem OnlyTo.dest {o' : Oracle} {n' : Node} {now' : Int} {g : Bytes} {a : NAddr} {pc : PeerCrypto} (h : OnlyTo o' n' now' g a pc) :
    ∀ x ∈ (handleIface o' n' now' g).outs, ∃ bytes, x = .dgram a bytes := by
  intro x hx
  unfold OnlyTo at h
  rw [h] at hx
  split at hx
  · exact ⟨_, List.mem_singleton.1 hx⟩
  · cases hx

/-- **relearn_moves** (last writer wins, at node level): `S` was learned from `P` (frame `f1` at time `t1`); then the established peer `Q`
    (another table id) sends a frame `f2` with the same source address `S` at time `t2`.  Before the second frame the table answers `P`
    for `S`; afterwards every entry for `S` names `Q` (expiry `t2 + switch timeout`), and a frame for `S` read from the interface is sealed
    by Q's session and sent to `Q` only — nothing goes to `P` any more. -/
theorem relearn_moves {env env2 : CryptoEnv} {bodyOf bodyOf2 : Init.BodyOf} {o o2 : Oracle} {n : Node} {srcP srcQ : NAddr}
    {data1 tail1 data2 tail2 : Bytes} {p q : Peer} {pc1 pc2 : PeerCrypto} {f1 f2 : Bytes} (t1 t2 : Int)
    (h1 : FromPeer env bodyOf o n srcP data1 tail1 p pc1 Generated.MESSAGE_TYPE_DATA f1)
    (hlearn : n.cfg.learning = true) (htap : n.cfg.tap = true) (S D1 D2 : Addr) (hf1 : Payload.frameParse f1 = .ok (S, D1))
    (h2 : FromPeer env2 bodyOf2 o2 (handleNet env bodyOf o n t1 srcP data1 tail1).1.node srcQ data2 tail2 q pc2 Generated.MESSAGE_TYPE_DATA f2)
    (hf2 : Payload.frameParse f2 = .ok (S, D2))
    (hne : addrId (mappedAddr srcQ) ≠ addrId (mappedAddr srcP)) (hid : IdUnique n (mappedAddr srcQ))
    (o' : Oracle) (now' : Int) (g : Bytes) (S' : Addr) (hg : Payload.frameParse g = .ok (S', S)) :
    let n1 := (handleNet env bodyOf o n t1 srcP data1 tail1).1.node
    let n2 := (handleNet env2 bodyOf2 o2 n1 t2 srcQ data2 tail2).1.node
    (n1.table.lookup now' S).2 = some (addrId (mappedAddr srcP)) ∧
    (n2.table.lookup now' S).2 = some (addrId (mappedAddr srcQ)) ∧
    (∀ v ∈ n2.table.cache, v.addr = S → v = ⟨S, addrId (mappedAddr srcQ), t2 + n.table.cacheTimeout⟩) ∧
    OnlyTo o' n2 now' g (mappedAddr srcQ) pc2 ∧
    ∀ bytes, Out.dgram (mappedAddr srcP) bytes ∉ (handleIface o' n2 now' g).outs := by
  intro n1 n2
  have hn1 : n1 = _ := (handleNet_data h1 t1 S D1 (parseAddrs_tap n htap f1 _ hf1)).1
  rw [hlearn] at hn1
  simp only [if_true] at hn1
  have hcfg : n1.cfg = n.cfg := by rw [hn1]
  have hkeys : n1.peers.map (·.1) = n.peers.map (·.1) := by rw [hn1]; exact insertA_keys_of_some _ _ _ _ h1.peer
  have hl1 : n1.cfg.learning = true := by rw [hcfg]; exact hlearn
  have ht1 : n1.cfg.tap = true := by rw [hcfg]; exact htap
  have hid1 : IdUnique n1 (mappedAddr srcQ) := by unfold IdUnique; rw [hkeys]; exact hid
  have hto : n1.table.cacheTimeout = n.table.cacheTimeout := by rw [hn1]; rfl
  have hB := learned_then_unicast h2 hl1 ht1 t2 S D2 hf2 hid1 o' now' g S' hg
  have hn2 : n2 = _ := (handleNet_data h2 t2 S D2 (parseAddrs_tap n1 ht1 f2 _ hf2)).1
  rw [hl1] at hn2
  simp only [if_true] at hn2
  obtain ⟨hB1, _, hB3⟩ := hB
  have hB1' : n2.table.cache.find? (fun v => v.addr = S) = some ⟨S, addrId (mappedAddr srcQ), t2 + n1.table.cacheTimeout⟩ := hB1
  have hB3' : OnlyTo o' n2 now' g (mappedAddr srcQ) pc2 := hB3
  refine ⟨?_, ?_, ?_, hB3', ?_⟩
  · rw [hn1]
    exact C13.learn_last_writer _ _ _ _ _
  · rw [lookup_hit _ now' S _ hB1']
  · intro v hv hvS
    rw [hn2] at hv
    have hv' : v ∈ (n1.table.learn t2 S (addrId (mappedAddr srcQ))).cache := hv
    rw [C13.learn_cache, List.mem_cons] at hv'
    rcases hv' with rfl | hv'
    · rw [hto]
    · have := (List.mem_filter.1 hv').2
      simp [hvS] at this
  · intro bytes hm
    obtain ⟨b', hb'⟩ := hB3'.dest _ hm
    have : mappedAddr srcP = mappedAddr srcQ := (Out.dgram.inj hb').1
    exact hne (by rw [this])

/-! ## 3. VLANs -/

/-- learning `S` changes the way of no frame whose destination (VLAN included) is not `S`: the node emits exactly what it would emit
    with the table it had before the frame from `P` arrived (all the rest of the state being that after the frame) -/
theorem learn_irrelevant_for_others {env : CryptoEnv} {bodyOf : Init.BodyOf} {o : Oracle} {n : Node} {src : NAddr} {data tail : Bytes}
    {p : Peer} {pc : PeerCrypto} {f : Bytes}
    (h : FromPeer env bodyOf o n src data tail p pc Generated.MESSAGE_TYPE_DATA f)
    (htap : n.cfg.tap = true) (now : Int) (S D : Addr) (hf : Payload.frameParse f = .ok (S, D))
    (o' : Oracle) (now' : Int) (g : Bytes) (hg : ∀ S' K, Payload.frameParse g = .ok (S', K) → K ≠ S) :
    let n' := (handleNet env bodyOf o n now src data tail).1.node
    (handleIface o' n' now' g).outs = (handleIface o' { n' with table := n.table } now' g).outs := by
  intro n'
  have hn' : n' = _ := (handleNet_data h now S D (parseAddrs_tap n htap f _ hf)).1
  have hcfg : n'.cfg = n.cfg := by rw [hn']
  have key := handleIface_outs_table o' { n' with table := n.table } n'.table now' g (by
    intro S' K hp
    have hp' : parseAddrs n g = some (S', K) := by rw [← hp]; exact parseAddrs_congr _ _ _ hcfg.symm
    have hK : K ≠ S := by
      apply hg S' K
      unfold parseAddrs at hp'
      rw [htap] at hp'
      simp only [if_true] at hp'
      cases hfp : Payload.frameParse g with
      | error e => rw [hfp] at hp'; cases hp'
      | ok r => rw [hfp] at hp'; cases hp'; rfl
    show (n'.table.lookup now' K).2 = (n.table.lookup now' K).2
    rw [hn']
    show ((if n.cfg.learning = true then n.table.learn now S (addrId (mappedAddr src)) else n.table).lookup now' K).2 = _
    split
    · exact lookup_learn_other _ _ _ _ _ _ hK
    · rfl)
  exact key

/-- **vlan_isolated**: `S0` is learned from a frame of `P` tagged with VLAN `v ≠ 0`.  A frame for the MAC address `S0` in another VLAN `w ≠ v`
    (also priority-tagged, `w = 0`) or without a tag is not affected: the node emits what it would have emitted had it not learned (the
    lookup key is the address with the VLAN prefix: `C13.vlan_tag_injective`, `C13.tagged_ne_untagged`). -/
theorem vlan_isolated {env : CryptoEnv} {bodyOf : Init.BodyOf} {o : Oracle} {n : Node} {src : NAddr} {data tail : Bytes}
    {p : Peer} {pc : PeerCrypto} (D0 S0 rest : Bytes) (pcp v : Nat)
    (h : FromPeer env bodyOf o n src data tail p pc Generated.MESSAGE_TYPE_DATA (taggedFrame D0 S0 pcp v rest))
    (htap : n.cfg.tap = true) (now : Int) (hD : D0.length = 6) (hS : S0.length = 6) (hv : v < 4096) (hv0 : v ≠ 0)
    (o' : Oracle) (now' : Int) (g : Bytes)
    (hg : (∃ X pcp' w rest', X.length = 6 ∧ w < 4096 ∧ w ≠ v ∧ g = taggedFrame S0 X pcp' w rest') ∨
          (∃ X proto rest', X.length = 6 ∧ proto.length = 2 ∧ proto ≠ [0x81, 0x00] ∧ g = plainFrame S0 X proto rest')) :
    let n' := (handleNet env bodyOf o n now src data tail).1.node
    (handleIface o' n' now' g).outs = (handleIface o' { n' with table := n.table } now' g).outs := by
  have hf := frameParse_tagged D0 S0 rest pcp v hD hS hv
  rw [if_neg hv0] at hf
  apply learn_irrelevant_for_others h htap now _ _ hf o' now' g
  intro S' K hp
  have huntag : S0 ≠ vlanKey v ++ S0 := fun e => C13.tagged_ne_untagged (vlanKey v) S0 S0 rfl hS hS e.symm
  rcases hg with ⟨X, pcp', w, rest', hX, hw, hwv, rfl⟩ | ⟨X, proto, rest', hX, hpl, hpne, rfl⟩
  · rw [frameParse_tagged S0 X rest' pcp' w hS hX hw] at hp
    by_cases hw0 : w = 0
    · rw [if_pos hw0] at hp
      cases hp
      exact huntag
    · rw [if_neg hw0] at hp
      cases hp
      intro e
      have e2 : vlanKey w = vlanKey v := List.append_inj_left e rfl
      exact hwv (C13.vlan_tag_injective w v hw hv e2)
  · rw [frameParse_plain S0 X proto rest' hS hX hpl hpne] at hp
    cases hp
    exact huntag

/-- **vlan_isolated, the other direction**: `S0` is learned from an untagged or priority-tagged frame of `P`: frames for the MAC address `S0`
    in a VLAN `w ≠ 0` are not affected. -/
theorem untagged_isolated {env : CryptoEnv} {bodyOf : Init.BodyOf} {o : Oracle} {n : Node} {src : NAddr} {data tail : Bytes}
    {p : Peer} {pc : PeerCrypto} {f : Bytes} (D0 S0 : Bytes)
    (h : FromPeer env bodyOf o n src data tail p pc Generated.MESSAGE_TYPE_DATA f)
    (htap : n.cfg.tap = true) (now : Int) (hD : D0.length = 6) (hS : S0.length = 6)
    (hf : (∃ pcp rest, f = taggedFrame D0 S0 pcp 0 rest) ∨
          (∃ proto rest, proto.length = 2 ∧ proto ≠ [0x81, 0x00] ∧ f = plainFrame D0 S0 proto rest))
    (o' : Oracle) (now' : Int) (X rest' : Bytes) (pcp' w : Nat) (hX : X.length = 6) (hw : w < 4096) (hw0 : w ≠ 0) :
    let n' := (handleNet env bodyOf o n now src data tail).1.node
    (handleIface o' n' now' (taggedFrame S0 X pcp' w rest')).outs =
      (handleIface o' { n' with table := n.table } now' (taggedFrame S0 X pcp' w rest')).outs := by
  have hfp : Payload.frameParse f = .ok (S0, D0) := by
    rcases hf with ⟨pcp, rest, rfl⟩ | ⟨proto, rest, hpl, hpne, rfl⟩
    · exact frameParse_tagged D0 S0 rest pcp 0 hD hS (by decide)
    · exact frameParse_plain D0 S0 proto rest hD hS hpl hpne
  apply learn_irrelevant_for_others h htap now _ _ hfp o' now' _
  intro S' K hp
  rw [frameParse_tagged S0 X rest' pcp' w hS hX hw, if_neg hw0] at hp
  cases hp
  exact C13.tagged_ne_untagged (vlanKey w) S0 S0 rfl hS hS

/-- **same VLAN, any priority**: `S0` learned from a frame of `P` tagged with VLAN `v ≠ 0`: a frame for `S0` tagged with the same VLAN id —
    whatever its priority / DEI bits — goes to `P` only. -/
theorem vlan_same_unicast {env : CryptoEnv} {bodyOf : Init.BodyOf} {o : Oracle} {n : Node} {src : NAddr} {data tail : Bytes}
    {p : Peer} {pc : PeerCrypto} (D0 S0 rest : Bytes) (pcp v : Nat)
    (h : FromPeer env bodyOf o n src data tail p pc Generated.MESSAGE_TYPE_DATA (taggedFrame D0 S0 pcp v rest))
    (hlearn : n.cfg.learning = true) (htap : n.cfg.tap = true) (now : Int) (hD : D0.length = 6) (hS : S0.length = 6) (hv : v < 4096)
    (hid : IdUnique n (mappedAddr src)) (o' : Oracle) (now' : Int) (X rest' : Bytes) (pcp' : Nat) (hX : X.length = 6) :
    OnlyTo o' (handleNet env bodyOf o n now src data tail).1.node now' (taggedFrame S0 X pcp' v rest') (mappedAddr src) pc := by
  have hf := frameParse_tagged D0 S0 rest pcp v hD hS hv
  have hg := frameParse_tagged S0 X rest' pcp' v hS hX hv
  by_cases hv0 : v = 0
  · rw [if_pos hv0] at hf hg
    exact (learned_then_unicast h hlearn htap now _ _ hf hid o' now' _ _ hg).2.2
  · rw [if_neg hv0] at hf hg
    exact (learned_then_unicast h hlearn htap now _ _ hf hid o' now' _ _ hg).2.2

/-- **priority-tagged counts as untagged (1)**: `S0` learned from a priority-tagged frame of `P` (tag with VLAN id 0, any priority):
    an UNTAGGED frame for `S0` goes to `P` only (`C13.vlan_normalised`). -/
theorem priority_tag_directs_untagged {env : CryptoEnv} {bodyOf : Init.BodyOf} {o : Oracle} {n : Node} {src : NAddr} {data tail : Bytes}
    {p : Peer} {pc : PeerCrypto} (D0 S0 rest : Bytes) (pcp : Nat)
    (h : FromPeer env bodyOf o n src data tail p pc Generated.MESSAGE_TYPE_DATA (taggedFrame D0 S0 pcp 0 rest))
    (hlearn : n.cfg.learning = true) (htap : n.cfg.tap = true) (now : Int) (hD : D0.length = 6) (hS : S0.length = 6)
    (hid : IdUnique n (mappedAddr src)) (o' : Oracle) (now' : Int) (X proto rest' : Bytes) (hX : X.length = 6)
    (hpl : proto.length = 2) (hpne : proto ≠ [0x81, 0x00]) :
    OnlyTo o' (handleNet env bodyOf o n now src data tail).1.node now' (plainFrame S0 X proto rest') (mappedAddr src) pc :=
  (learned_then_unicast h hlearn htap now _ _ (frameParse_tagged D0 S0 rest pcp 0 hD hS (by decide)) hid o' now' _ _
    (frameParse_plain S0 X proto rest' hS hX hpl hpne)).2.2

/-- **priority-tagged counts as untagged (2)**: `S0` learned from an untagged frame of `P`: a PRIORITY-TAGGED frame for `S0` goes to `P` only. -/
theorem untagged_directs_priority_tag {env : CryptoEnv} {bodyOf : Init.BodyOf} {o : Oracle} {n : Node} {src : NAddr} {data tail : Bytes}
    {p : Peer} {pc : PeerCrypto} (D0 S0 proto rest : Bytes)
    (h : FromPeer env bodyOf o n src data tail p pc Generated.MESSAGE_TYPE_DATA (plainFrame D0 S0 proto rest))
    (hlearn : n.cfg.learning = true) (htap : n.cfg.tap = true) (now : Int) (hD : D0.length = 6) (hS : S0.length = 6)
    (hpl : proto.length = 2) (hpne : proto ≠ [0x81, 0x00])
    (hid : IdUnique n (mappedAddr src)) (o' : Oracle) (now' : Int) (X rest' : Bytes) (pcp' : Nat) (hX : X.length = 6) :
    OnlyTo o' (handleNet env bodyOf o n now src data tail).1.node now' (taggedFrame S0 X pcp' 0 rest') (mappedAddr src) pc :=
  (learned_then_unicast h hlearn htap now _ _ (frameParse_plain D0 S0 proto rest hD hS hpl hpne) hid o' now' _ _
    (frameParse_tagged S0 X rest' pcp' 0 hS hX (by decide))).2.2

/-! ## 4. unknown destinations -/

/-- **unknown_in_vlan_flooded**: in a flooding mode (switch, hub: `broadcast`), a frame whose destination — the address with its VLAN prefix —
    has no table entry (none cached / learned, no claim contains it) is sent to ALL peers: one datagram each, in the order of the peer
    list, each the DATA message with the frame's bytes sealed by that peer's session; the table is left as it is.
    (Peer addresses pairwise distinct, every session can seal — as in `C10More.broadcast_reaches_all`.) -/
theorem unknown_in_vlan_flooded (o : Oracle) (n : Node) (now : Int) (g : Bytes) (S' K : Addr)
    (htap : n.cfg.tap = true) (hg : Payload.frameParse g = .ok (S', K)) (hb : n.cfg.broadcast = true)
    (hc : ∀ v ∈ n.table.cache, v.addr ≠ K) (hcl : ∀ e ∈ n.table.claims, e.claim.matches K = false)
    (hnd : (n.peers.map (·.1)).Nodup) (hseal : ∀ a p, lookupA n.peers a = some p → C15MoreLemmas.canSeal p.crypto) :
    (handleIface o n now g).outs.filterMap C10More.dstOf = n.peers.map (·.1) ∧
    (handleIface o n now g).outs.length = n.peers.length ∧
    (∀ a bytes, Out.dgram a bytes ∈ (handleIface o n now g).outs → ∃ p pc' log, lookupA n.peers a = some p ∧
      PeerCrypto.sendMessage p.crypto Generated.MESSAGE_TYPE_DATA g (rndFor o { node := n } a).2.1.ct = (pc', .ok (bytes, log))) ∧
    (handleIface o n now g).node.table = n.table := by
  have hp := parseAddrs_tap n htap g _ hg
  have hlk := lookup_unknown n.table now K hc hcl
  have hl : (n.table.lookup now K).2 = none := by rw [hlk]
  have hall := C10More.broadcast_reaches_all o n now g S' K hp hl hb hnd (by
    intro a p hpa ct
    obtain ⟨pc', bytes, log, hs, _⟩ := C15MoreLemmas.sendMessage_canSeal p.crypto Generated.MESSAGE_TYPE_DATA g ct (hseal a p hpa)
    exact ⟨(bytes, log), by rw [hs]⟩)
  refine ⟨hall.1, hall.2, fun a bytes hm => C10More.broadcast_each_is_seal o n now g S' K hp hl hb hnd a bytes hm, ?_⟩
  rw [handleIface_route o n now g S' K hp, hlk]
  rfl

/-- **known_elsewhere_flooded** ("in particular a destination known only in another VLAN"): `S` is learned from `P`; a frame whose destination key
    `K` differs from `S` (same MAC address in another VLAN, or untagged: `vlan_isolated`) and is not in the table of `n` is flooded to ALL
    peers — `P` included — one copy each. -/
theorem known_elsewhere_flooded {env : CryptoEnv} {bodyOf : Init.BodyOf} {o : Oracle} {n : Node} {src : NAddr} {data tail : Bytes}
    {p : Peer} {pc : PeerCrypto} {f : Bytes}
    (h : FromPeer env bodyOf o n src data tail p pc Generated.MESSAGE_TYPE_DATA f)
    (htap : n.cfg.tap = true) (hb : n.cfg.broadcast = true) (now : Int) (S D : Addr) (hf : Payload.frameParse f = .ok (S, D))
    (o' : Oracle) (now' : Int) (g : Bytes) (S' K : Addr) (hg : Payload.frameParse g = .ok (S', K)) (hKS : K ≠ S)
    (hc : ∀ v ∈ n.table.cache, v.addr ≠ K) (hcl : ∀ e ∈ n.table.claims, e.claim.matches K = false)
    (hnd : (n.peers.map (·.1)).Nodup) (hseal : ∀ a q, lookupA n.peers a = some q → C15MoreLemmas.canSeal q.crypto)
    (hpc : C15MoreLemmas.canSeal pc) :
    let n' := (handleNet env bodyOf o n now src data tail).1.node
    (handleIface o' n' now' g).outs.filterMap C10More.dstOf = n.peers.map (·.1) ∧
    (handleIface o' n' now' g).outs.length = n.peers.length ∧
    mappedAddr src ∈ n.peers.map (·.1) := by
  intro n'
  have hn' : n' = _ := (handleNet_data h now S D (parseAddrs_tap n htap f _ hf)).1
  have hkeys : n'.peers.map (·.1) = n.peers.map (·.1) := by rw [hn']; exact insertA_keys_of_some _ _ _ _ h.peer
  have hlen : n'.peers.length = n.peers.length := by
    have := congrArg List.length hkeys
    simpa using this
  have hcfg : n'.cfg = n.cfg := by rw [hn']
  have hclaims : n'.table.claims = n.table.claims := by
    rw [hn']
    show (if n.cfg.learning = true then n.table.learn now S (addrId (mappedAddr src)) else n.table).claims = _
    split <;> rfl
  have hcache : ∀ v ∈ n'.table.cache, v.addr ≠ K := by
    rw [hn']
    show ∀ v ∈ (if n.cfg.learning = true then n.table.learn now S (addrId (mappedAddr src)) else n.table).cache, _
    split
    · intro v hv
      rw [C13.learn_cache, List.mem_cons] at hv
      rcases hv with rfl | hv
      · exact fun e => hKS e.symm
      · exact hc v (List.mem_filter.1 hv).1
    · exact hc
  have hfl := unknown_in_vlan_flooded o' n' now' g S' K (by rw [hcfg]; exact htap) hg (by rw [hcfg]; exact hb) hcache
    (by rw [hclaims]; exact hcl) (by rw [hkeys]; exact hnd) (by
      intro a q hq
      rw [hn'] at hq
      by_cases ha : a = mappedAddr src
      · subst ha
        rw [show lookupA (insertA n.peers (mappedAddr src) { p with crypto := pc }) (mappedAddr src) = _ from lookupA_insertA_self _ _ _] at hq
        cases hq
        exact hpc
      · rw [show lookupA (insertA n.peers (mappedAddr src) { p with crypto := pc }) a = _ from C10MoreLemmas.lookupA_insertA_ne _ _ ha] at hq
        exact hseal a q hq)
  rw [hkeys, hlen] at hfl
  exact ⟨hfl.1, hfl.2.1, mem_key (lookupA_some_mem h.peer)⟩

/-! ## 5. a disconnect forgets; silence expires -/

/-- the three ways a node drops its peer `a` (state `n1` before, `n2` after), at a time `now > 0`:
    a CLOSE message of the peer; the peer's expiry has passed when `housekeep` runs; the peer's session fails in `every_second` during
    `housekeep` (peer addresses pairwise distinct in the last two cases) -/
inductive Dropped (a : NAddr) : Node → Node → Prop
  | close {env : CryptoEnv} {bodyOf : Init.BodyOf} {o : Oracle} {n1 : Node} {src : NAddr} {data tail : Bytes} {p : Peer} {pc : PeerCrypto}
      {body : Bytes} (now : Int) : 0 < now → mappedAddr src = a →
      FromPeer env bodyOf o n1 src data tail p pc Generated.MESSAGE_TYPE_CLOSE body →
      Dropped a n1 (handleNet env bodyOf o n1 now src data tail).1.node
  | expired (env : CryptoEnv) (o : Oracle) (n1 : Node) (now : Int) (p : Peer) : 0 < now → (n1.peers.map (·.1)).Nodup →
      lookupA n1.peers a = some p → p.timeout < now → Dropped a n1 (housekeep env o n1 now).node
  | failed (env : CryptoEnv) (o : Oracle) (n1 : Node) (now : Int) (p : Peer) : 0 < now → (n1.peers.map (·.1)).Nodup →
      lookupA n1.peers a = some p → ¬ p.timeout < now → (∀ rr, ∃ pc' e, PeerCrypto.everySecond p.crypto rr = .err pc' e) →
      Dropped a n1 (housekeep env o n1 now).node

/-- **disconnect_forgets_node**: after the node dropped its peer `P` (address `a`) in any of the three ways, `a` is no peer, no cached /
    learned entry and no claim names it, no lookup — of any address, at any time — answers `P`; the rest of the table is the old one
    with entries removed (nothing added or altered); the configuration is unchanged. -/
theorem disconnect_forgets_node {a : NAddr} {n1 n2 : Node} (h : Dropped a n1 n2) :
    a ∉ n2.peers.map (·.1) ∧ NoPeer (addrId a) n2.table ∧ TShrink n1.table n2.table ∧
    (∀ now' K, (n2.table.lookup now' K).2 ≠ some (addrId a)) ∧ n2.cfg = n1.cfg := by
  have key : ∀ n2 : Node, a ∉ n2.peers.map (·.1) → NoPeer (addrId a) n2.table → TShrink n1.table n2.table → n2.cfg = n1.cfg →
      a ∉ n2.peers.map (·.1) ∧ NoPeer (addrId a) n2.table ∧ TShrink n1.table n2.table ∧
      (∀ now' K, (n2.table.lookup now' K).2 ≠ some (addrId a)) ∧ n2.cfg = n1.cfg :=
    fun n2 h1 h2 h3 h4 => ⟨h1, h2, h3, fun now' K => h2.lookup now' K, h4⟩
  cases h with
  | close now hnow hsrc hfp =>
    subst hsrc
    apply key
    · rw [(handleNet_close hfp now).1]
      show _ ∉ (eraseA n1.peers (mappedAddr _)).map (·.1)
      rw [key_mem_eraseA_iff]
      exact fun h => h.2 rfl
    · rw [(handleNet_close hfp now).1]
      exact NoPeer.removeClaims _ now hnow _
    · rw [(handleNet_close hfp now).1]
      exact TShrink.removeClaims _ now hnow _
    · exact handleNet_cfg ..
  | expired env o _ now p hnow hnd hp hdead =>
    exact key _ (housekeep_not_peer env o n1 now a p hp hdead hnd)
      (housekeep_expired_noPeer env o n1 now hnow a p (lookupA_some_mem hp) hdead) (housekeep_shrink' env o n1 now hnow) (housekeep_cfg ..)
  | failed env o _ now p hnow hnd hp hlive hfail =>
    exact key _ (housekeep_failed_notPeer env o n1 now a p hp hlive hnd hfail)
      (housekeep_failed_noPeer env o n1 now hnow a p hp hlive hnd hfail) (housekeep_shrink' env o n1 now hnow) (housekeep_cfg ..)

/-- a table in which every entry for `S` names `pid` and no claim contains `S`, after entries were removed so that nothing names `pid`:
    `S` has no next hop -/
theorem forgotten_unknown {t1 t2 : Table} {S : Addr} {pid : PeerId} (hS : ∀ v ∈ t1.cache, v.addr = S → v.peer = pid)
    (hcl : ∀ e ∈ t1.claims, e.claim.matches S = false) (hs : TShrink t1 t2) (hno : NoPeer pid t2) (now : Int) :
    t2.lookup now S = (t2, none) :=
  lookup_unknown t2 now S (fun v hv e => hno.1 v hv (hS v (hs.1.subset hv) e)) (fun e he => hcl e (hs.2.1.subset he))

/-- **disconnect_then_flooded**: `S` is learned from `P`; then the node drops `P` (close message, expiry, or session failure).  If no claim
    contained `S`, frames for `S` are flooded again: the table has no next hop for `S` (at any time), and in a flooding mode a frame for `S`
    read from the interface goes to all remaining peers (one sealed copy for every peer whose session can seal, in the order of the
    peer list; `P` is not among them). -/
theorem disconnect_then_flooded {env : CryptoEnv} {bodyOf : Init.BodyOf} {o : Oracle} {n : Node} {src : NAddr} {data tail : Bytes}
    {p : Peer} {pc : PeerCrypto} {f : Bytes}
    (h : FromPeer env bodyOf o n src data tail p pc Generated.MESSAGE_TYPE_DATA f)
    (hlearn : n.cfg.learning = true) (htap : n.cfg.tap = true) (hb : n.cfg.broadcast = true) (now : Int) (S D : Addr)
    (hf : Payload.frameParse f = .ok (S, D)) (hcl : ∀ e ∈ n.table.claims, e.claim.matches S = false)
    (n2 : Node) (hdrop : Dropped (mappedAddr src) (handleNet env bodyOf o n now src data tail).1.node n2)
    (hnd2 : (n2.peers.map (·.1)).Nodup)
    (o' : Oracle) (now' : Int) (g : Bytes) (S' : Addr) (hg : Payload.frameParse g = .ok (S', S)) :
    n2.table.lookup now' S = (n2.table, none) ∧
    (handleIface o' n2 now' g).outs =
      (n2.peers.map (·.1)).filterMap (fun a => (sealFor o' n2 Generated.MESSAGE_TYPE_DATA g a).map (Out.dgram a)) ∧
    mappedAddr src ∉ n2.peers.map (·.1) ∧
    ∀ bytes, Out.dgram (mappedAddr src) bytes ∉ (handleIface o' n2 now' g).outs := by
  have hn1 := (handleNet_data h now S D (parseAddrs_tap n htap f _ hf)).1
  rw [hlearn] at hn1
  simp only [if_true] at hn1
  obtain ⟨hnp, hno, hsh, _, hcfg⟩ := disconnect_forgets_node hdrop
  generalize (handleNet env bodyOf o n now src data tail).1.node = n1 at hn1 hsh hcfg hdrop
  subst hn1
  have hlk : n2.table.lookup now' S = (n2.table, none) := by
    refine forgotten_unknown (t1 := n.table.learn now S (addrId (mappedAddr src))) ?_ hcl hsh hno now'
    intro v hv hvS
    rw [C13.learn_cache, List.mem_cons] at hv
    rcases hv with rfl | hv
    · rfl
    · have := (List.mem_filter.1 hv).2
      simp [hvS] at this
  have hp2 : parseAddrs n2 g = some (S', S) := parseAddrs_tap n2 (by rw [hcfg]; exact htap) g _ hg
  have hout := C10More.emit_unknown_broadcast o' n2 now' g S' S hp2 (by rw [hlk]) (by rw [hcfg]; exact hb) hnd2
  refine ⟨hlk, hout, hnp, ?_⟩
  intro bytes hm
  rw [hout, List.mem_filterMap] at hm
  obtain ⟨a, ha, hx⟩ := hm
  cases hsf : sealFor o' n2 Generated.MESSAGE_TYPE_DATA g a with
  | none => rw [hsf] at hx; cases hx
  | some b =>
    rw [hsf] at hx
    have : a = mappedAddr src := (Out.dgram.inj (Option.some.inj hx)).1
    exact hnp (this ▸ ha)

/-- **learned_survives_tick** (the time condition, positive half): `S` is learned from `P` at time `t`.  A housekeeping tick at a time
    `now' ≤ t + switch timeout` that does not drop `P` (its expiry has not passed, its session does not fail in `every_second`) leaves the
    entry `S ↦ P` (expiry `t + switch timeout`) in place, and frames for `S` still go to `P` only — sealed by P's session as it is after
    the tick. -/
theorem learned_survives_tick {env env' : CryptoEnv} {bodyOf : Init.BodyOf} {o oh : Oracle} {n : Node} {src : NAddr} {data tail : Bytes}
    {p : Peer} {pc : PeerCrypto} {f : Bytes}
    (h : FromPeer env bodyOf o n src data tail p pc Generated.MESSAGE_TYPE_DATA f)
    (hlearn : n.cfg.learning = true) (htap : n.cfg.tap = true) (t : Int) (S D : Addr) (hf : Payload.frameParse f = .ok (S, D))
    (hid : IdUnique n (mappedAddr src)) (hnd : (n.peers.map (·.1)).Nodup)
    (now' : Int) (hnow : 0 < now') (hearly : now' ≤ t + n.table.cacheTimeout) (hlive : ¬ p.timeout < now')
    (hok : ∀ rr pc' e, PeerCrypto.everySecond pc rr ≠ .err pc' e)
    (o' : Oracle) (now'' : Int) (g : Bytes) (S' : Addr) (hg : Payload.frameParse g = .ok (S', S)) :
    let n1 := (handleNet env bodyOf o n t src data tail).1.node
    let n2 := (housekeep env' oh n1 now').node
    n2.table.cache.find? (fun v => v.addr = S) = some ⟨S, addrId (mappedAddr src), t + n.table.cacheTimeout⟩ ∧
    ∃ p2, lookupA n2.peers (mappedAddr src) = some p2 ∧ OnlyTo o' n2 now'' g (mappedAddr src) p2.crypto := by
  intro n1 n2
  obtain ⟨hc1, hp1, _⟩ := learned_then_unicast h hlearn htap t S D hf hid o' now'' g S' hg
  have hn1 : n1 = _ := (handleNet_data h t S D (parseAddrs_tap n htap f _ hf)).1
  have hkeys : n1.peers.map (·.1) = n.peers.map (·.1) := by rw [hn1]; exact insertA_keys_of_some _ _ _ _ h.peer
  have hnd1 : (n1.peers.map (·.1)).Nodup := by rw [hkeys]; exact hnd
  have hid1 : ∀ x ∈ n1.peers.map (·.1), addrId x = addrId (mappedAddr src) → x = mappedAddr src := by rw [hkeys]; exact hid
  have hfinds : Finds S ⟨S, addrId (mappedAddr src), t + n.table.cacheTimeout⟩ n2.table :=
    housekeep_finds env' oh n1 now' hnow S _ hearly (mappedAddr src) { p with crypto := pc } hp1 hlive hnd1 hok rfl hid1 hc1
  refine ⟨hfinds, ?_⟩
  have hto := C09MoreLemmas.housekeep_keeps env' oh n1 now' (mappedAddr src) { p with crypto := pc } hp1 hlive hnd1 hok
  cases hp2 : lookupA n2.peers (mappedAddr src) with
  | none =>
    have : lookupA (housekeep env' oh n1 now').node.peers (mappedAddr src) = none := hp2
    rw [this] at hto; cases hto
  | some p2 =>
    refine ⟨p2, rfl, ?_⟩
    have hcfg : n2.cfg = n.cfg := (housekeep_cfg ..).trans (by rw [hn1])
    have hpg : parseAddrs n2 g = some (S', S) := parseAddrs_tap n2 (by rw [hcfg]; exact htap) g _ hg
    have hlk : (n2.table.lookup now'' S).2 = some (addrId (mappedAddr src)) := by rw [lookup_hit _ now'' S _ hfinds]
    have hfind : (n2.peers.map (·.1)).find? (fun a => addrId a = addrId (mappedAddr src)) = some (mappedAddr src) :=
      find?_unique (mem_key (lookupA_some_mem hp2)) (fun x hx => hid1 x (housekeep_keys_subset env' oh n1 now' x hx))
    obtain ⟨p', hp', ho⟩ := C10More.emit_known o' n2 now'' g S' S _ _ hpg hlk hfind
    rw [hp2] at hp'
    cases hp'
    exact ho

/-- **silent_expires_node**: `S` is learned from `P` at time `t`; no further frame with source `S` arrives.  The first `housekeep` at a time
    `now' > t + switch timeout` removes the entry (a `housekeep` at a time `≤ t + switch timeout` does not, see `learned_survives_tick`);
    afterwards — if no claim contained `S` — the table has no next hop for `S` and frames for `S` are flooded to all peers. -/
theorem silent_expires_node {env env' : CryptoEnv} {bodyOf : Init.BodyOf} {o oh : Oracle} {n : Node} {src : NAddr} {data tail : Bytes}
    {p : Peer} {pc : PeerCrypto} {f : Bytes}
    (h : FromPeer env bodyOf o n src data tail p pc Generated.MESSAGE_TYPE_DATA f)
    (hlearn : n.cfg.learning = true) (htap : n.cfg.tap = true) (hb : n.cfg.broadcast = true) (t : Int) (S D : Addr)
    (hf : Payload.frameParse f = .ok (S, D)) (hcl : ∀ e ∈ n.table.claims, e.claim.matches S = false)
    (now' : Int) (hnow : 0 < now') (hlate : t + n.table.cacheTimeout < now') (hnd : (n.peers.map (·.1)).Nodup)
    (o' : Oracle) (now'' : Int) (g : Bytes) (S' : Addr) (hg : Payload.frameParse g = .ok (S', S)) :
    let n1 := (handleNet env bodyOf o n t src data tail).1.node
    let n2 := (housekeep env' oh n1 now').node
    (n1.table.lookup now'' S).2 = some (addrId (mappedAddr src)) ∧
    (∀ v ∈ n2.table.cache, v.addr ≠ S) ∧
    n2.table.lookup now'' S = (n2.table, none) ∧
    (handleIface o' n2 now'' g).outs =
      (n2.peers.map (·.1)).filterMap (fun a => (sealFor o' n2 Generated.MESSAGE_TYPE_DATA g a).map (Out.dgram a)) := by
  intro n1 n2
  have hn1 : n1 = _ := (handleNet_data h t S D (parseAddrs_tap n htap f _ hf)).1
  rw [hlearn] at hn1
  simp only [if_true] at hn1
  have hkeys : n1.peers.map (·.1) = n.peers.map (·.1) := by rw [hn1]; exact insertA_keys_of_some _ _ _ _ h.peer
  have hsh : TShrink (n1.table.housekeep now') n2.table := housekeep_shrink env' oh n1 now' hnow
  have hcfg : n2.cfg = n.cfg := (housekeep_cfg ..).trans (by rw [hn1])
  have hgone : ∀ v ∈ n2.table.cache, v.addr ≠ S := by
    intro v hv hvS
    have hv1 := hsh.1.subset hv
    have hfind := C13.learn_expiry n.table t now' S (addrId (mappedAddr src)) hlate
    rw [List.find?_eq_none] at hfind
    rw [hn1] at hv1
    exact hfind v hv1 (by simpa using hvS)
  have hlk : n2.table.lookup now'' S = (n2.table, none) := by
    apply lookup_unknown _ _ _ hgone
    intro e he
    have he1 := (List.mem_filter.1 (hsh.2.1.subset he)).1
    rw [hn1] at he1
    exact hcl e he1
  refine ⟨?_, hgone, hlk, ?_⟩
  · rw [hn1]; exact C13.learn_last_writer _ _ _ _ _
  · have hp2 : parseAddrs n2 g = some (S', S) := parseAddrs_tap n2 (by rw [hcfg]; exact htap) g _ hg
    exact C10More.emit_unknown_broadcast o' n2 now'' g S' S hp2 (by rw [hlk]) (by rw [hcfg]; exact hb)
      (housekeep_keysNodup env' oh n1 now' (by rw [hkeys]; exact hnd))

/-! ## 6. hub and router modes never learn -/

open VpnCloud.Proofs.C01MoreLemmas (TblCase) in
/-- **no learning without the flag — every datagram** (strengthens `C13Node.no_learning_unless_flag`, which is about the DATA arm of
    `handle_message`): whatever datagram a node with `learning = false` receives, from whomever, in whatever session state — its table
    afterwards is the old one, or the old one after `set_claims` / `remove_claims` for the sender's id; and (at a time `now > 0`) the cache
    is a sub-list of the old cache: no entry is added or altered. -/
theorem no_learning_any_datagram (env : CryptoEnv) (bodyOf : Init.BodyOf) (o : Oracle) (n : Node) (now : Int) (src : NAddr)
    (data tail : Bytes) (hl : n.cfg.learning = false) :
    let t' := (handleNet env bodyOf o n now src data tail).1.node.table
    (t' = n.table ∨ (∃ cs, t' = n.table.setClaims now (addrId (mappedAddr src)) cs) ∨
      t' = n.table.removeClaims now (addrId (mappedAddr src))) ∧
    (0 < now → t'.cache.Sublist n.table.cache) := by
  intro t'
  cases handleNet_tblNL env bodyOf o n now src data tail hl with
  | same h => exact ⟨Or.inl h, fun _ => by rw [show t' = n.table from h]; exact List.Sublist.refl _⟩
  | learn a h l => exact l.elim
  | set cs h k => exact ⟨Or.inr (Or.inl ⟨cs, h⟩), fun hnow => by rw [show t' = _ from h]; exact setClaims_cache_sublist _ now hnow _ _⟩
  | remove h => exact ⟨Or.inr (Or.inr h), fun hnow => by rw [show t' = _ from h]; exact (TShrink.removeClaims _ now hnow _).1⟩

/-- `housekeep` (any mode) adds nothing to the table: cache and claims afterwards are sub-lists of the swept old cache / claims -/
theorem housekeep_adds_nothing (env : CryptoEnv) (o : Oracle) (n : Node) (now : Int) (hnow : 0 < now) :
    (housekeep env o n now).node.table.cache.Sublist (n.table.cache.filter (fun v => Generated.cacheLive v.timeout now)) ∧
    (housekeep env o n now).node.table.claims.Sublist (n.table.claims.filter (fun e => Generated.claimLive e.timeout now)) :=
  ⟨(housekeep_shrink env o n now hnow).1, (housekeep_shrink env o n now hnow).2.1⟩

/-- `connect` does not touch the table -/
theorem connect_table_same (env : CryptoEnv) (o : Oracle) (n : Node) (addrs : List NAddr) :
    (connect env o { node := n } addrs).node.table = n.table :=
  C09MoreLemmas.connect_table env o { node := n } addrs

/-- `handle_interface_data` (any mode) changes the table only by caching the decision of its own lookup: the table afterwards is the old one,
    or the old one plus ONE cache entry — for the destination `dst` of the frame, which had no entry, naming the owner of the claim `e`
    that the scan selected (`e` is in the table and contains `dst`), expiring with that claim or after the cache timeout. -/
theorem iface_caches_own_lookup (o : Oracle) (n : Node) (now : Int) (data : Bytes) :
    let t' := (handleIface o n now data).node.table
    t' = n.table ∨
    ∃ s dst e, parseAddrs n data = some (s, dst) ∧ n.table.cache.find? (fun v => v.addr = dst) = none ∧
      scan dst n.table.claims none = some e ∧ e ∈ n.table.claims ∧ e.claim.matches dst = true ∧
      t' = { n.table with cache := cacheInsert n.table.cache ⟨dst, e.peer, min (now + n.table.cacheTimeout) e.timeout⟩ } := by
  intro t'
  cases hp : parseAddrs n data with
  | none =>
    left
    show (handleIface o n now data).node.table = n.table
    rw [handleIface_eq, hp]
  | some x =>
    rcases x with ⟨s, dst⟩
    have ht : t' = (n.table.lookup now dst).1 := by
      show (handleIface o n now data).node.table = _
      rw [handleIface_route o n now data s dst hp]
      rfl
    rw [ht]
    unfold lookup
    cases hc : n.table.cache.find? (fun v => v.addr = dst) with
    | some v => exact Or.inl rfl
    | none =>
      simp only []
      cases hs : scan dst n.table.claims none with
      | none => exact Or.inl rfl
      | some e =>
        right
        rcases (TableLemmas.scan_some dst n.table.claims none e hs).1 with ⟨hm, hmatch⟩ | hacc
        · exact ⟨s, dst, e, rfl, hc, hs, hm, hmatch, rfl⟩
        · cases hacc

/-- a cache entry that is the decision of a lookup in a state `m` reachable from `n0`: when it was cached (time `now`), the address had no
    entry, the scan over the claims of `m` selected the claim `e` — a claim of the entry's peer that contains the entry's address — and
    the entry expires with that claim or after the cache timeout -/
def Justified (n0 : Node) (v : CacheEntry) : Prop :=
  ∃ (m : Node) (now : Int) (e : ClaimEntry), C12Node.Reach n0 m ∧ m.table.cache.find? (fun w => w.addr = v.addr) = none ∧
    scan v.addr m.table.claims none = some e ∧ e ∈ m.table.claims ∧ e.claim.matches v.addr = true ∧ e.peer = v.peer ∧
    v.timeout = min (now + m.table.cacheTimeout) e.timeout

/-- **hub_router_never_learn**: in EVERY state a node with `learning = false` reaches (any sequence of datagrams, frames from the
    interface, housekeeping ticks and dials; times `> 0`), every cache entry that was not in the start state is the decision of a lookup:
    its peer owned — at the time the entry was cached — a claim containing the entry's address, selected by the scan of `lookup`.
    Nothing is ever learned from traffic. -/
theorem hub_router_never_learn {n0 n : Node} (hl : n0.cfg.learning = false) (h : C12Node.Reach n0 n) :
    n.cfg = n0.cfg ∧ ∀ v ∈ n.table.cache, v ∈ n0.table.cache ∨ Justified n0 v := by
  induction h with
  | init => exact ⟨rfl, fun v hv => Or.inl hv⟩
  | step hr hs ih =>
    rename_i m m'
    obtain ⟨hcfg, ihc⟩ := ih
    have hlm : m.cfg.learning = false := by rw [hcfg]; exact hl
    cases hs with
    | net env bodyOf o _ now src data tail hnow =>
      refine ⟨(handleNet_cfg ..).trans hcfg, fun v hv => ?_⟩
      exact ihc v (((no_learning_any_datagram env bodyOf o m now src data tail hlm).2 hnow).subset hv)
    | iface o _ now data =>
      refine ⟨(handleIface_cfg ..).trans hcfg, fun v hv => ?_⟩
      rcases iface_caches_own_lookup o m now data with ht | ⟨s, dst, e, _, hc, hsc, hm, hmatch, ht⟩
      · rw [ht] at hv; exact ihc v hv
      · rw [ht] at hv
        rcases List.mem_cons.1 hv with rfl | hv
        · exact Or.inr ⟨m, now, e, hr, hc, hsc, hm, hmatch, rfl, rfl⟩
        · exact ihc v (List.mem_filter.1 hv).1
    | tick env o _ now hnow =>
      refine ⟨(housekeep_cfg ..).trans hcfg, fun v hv => ?_⟩
      exact ihc v ((housekeep_shrink' env o m now hnow).1.subset hv)
    | dial env o _ addrs =>
      refine ⟨(connect_cfg ..).trans hcfg, fun v hv => ?_⟩
      rw [connect_table_same] at hv
      exact ihc v hv

/-- from an empty cache: every entry is justified -/
theorem hub_router_never_learn' {n0 n : Node} (hl : n0.cfg.learning = false) (h0 : n0.table.cache = []) (h : C12Node.Reach n0 n) :
    ∀ v ∈ n.table.cache, Justified n0 v := by
  intro v hv
  rcases (hub_router_never_learn hl h).2 v hv with h1 | h1
  · rw [h0] at h1; cases h1
  · exact h1

/-! ### … as a state invariant, with a clock that does not run backwards -/

/-- histories with time stamps: every operation happens at a time that is not before the time of the previous one (datagrams and ticks at
    times `> 0`; `connect` has no time argument) -/
inductive ReachT (n0 : Node) (T0 : Int) : Node → Int → Prop
  | init : ReachT n0 T0 n0 T0
  | net {n : Node} {T : Int} (env : CryptoEnv) (bodyOf : Init.BodyOf) (o : Oracle) (now : Int) (src : NAddr) (data tail : Bytes) :
      ReachT n0 T0 n T → T ≤ now → 0 < now → ReachT n0 T0 (handleNet env bodyOf o n now src data tail).1.node now
  | iface {n : Node} {T : Int} (o : Oracle) (now : Int) (data : Bytes) :
      ReachT n0 T0 n T → T ≤ now → ReachT n0 T0 (handleIface o n now data).node now
  | tick {n : Node} {T : Int} (env : CryptoEnv) (o : Oracle) (now : Int) :
      ReachT n0 T0 n T → T ≤ now → 0 < now → ReachT n0 T0 (housekeep env o n now).node now
  | dial {n : Node} {T : Int} (env : CryptoEnv) (o : Oracle) (addrs : List NAddr) :
      ReachT n0 T0 n T → ReachT n0 T0 (connect env o { node := n } addrs).node T

/-- the state invariant of a node that does not learn, at clock `T`: every cached entry is backed by a claim IN THE TABLE — same peer,
    containing the entry's address, not expiring before the entry —, and no claim expires later than `T + claim timeout` -/
def NLInv (T : Int) (n : Node) : Prop := CacheBacked n.table ∧ ClaimsBounded T n.table

open VpnCloud.Proofs.C01MoreLemmas (TblCase) in
/-- **hub_router_cache_backed**: with `learning = false` and a clock that does not run backwards, in every reachable state every cache
    entry names a peer that owns, in the same table, a claim containing the entry's address which lives at least as long as the entry:
    the cache of a hub / router is nothing but remembered claim decisions.  (Start state: e.g. empty table; any state with `NLInv`.) -/
theorem hub_router_cache_backed {n0 n : Node} {T0 T : Int} (hl : n0.cfg.learning = false) (h0 : NLInv T0 n0) (h : ReachT n0 T0 n T) :
    n.cfg = n0.cfg ∧ NLInv T n := by
  induction h with
  | init => exact ⟨rfl, h0⟩
  | @net m Tm env bodyOf o now src data tail _ hT hnow ih =>
    obtain ⟨hcfg, hcb, hbd⟩ := ih
    have hlm : m.cfg.learning = false := by rw [hcfg]; exact hl
    have hbd' := hbd.mono hT
    refine ⟨(handleNet_cfg ..).trans hcfg, ?_⟩
    cases handleNet_tblNL env bodyOf o m now src data tail hlm with
    | same ht => unfold NLInv; rw [ht]; exact ⟨hcb, hbd'⟩
    | learn a ht l => exact l.elim
    | set cs ht k => unfold NLInv; rw [ht]; exact ⟨hcb.setClaims now hnow hbd' _ cs, ClaimsBounded.setClaims now hnow hbd' _ cs⟩
    | remove ht =>
      unfold NLInv; rw [ht]
      exact ⟨hcb.removeClaims now hnow _, hbd'.of_shrink (TShrink.removeClaims _ now hnow _)⟩
  | @iface m Tm o now data _ hT ih =>
    obtain ⟨hcfg, hcb, hbd⟩ := ih
    refine ⟨(handleIface_cfg ..).trans hcfg, ?_⟩
    cases hp : parseAddrs m data with
    | none =>
      have : (handleIface o m now data).node.table = m.table := by rw [handleIface_eq, hp]
      unfold NLInv; rw [this]; exact ⟨hcb, hbd.mono hT⟩
    | some x =>
      rcases x with ⟨s, dst⟩
      have : (handleIface o m now data).node.table = (m.table.lookup now dst).1 := by
        rw [handleIface_route o m now data s dst hp]; rfl
      unfold NLInv; rw [this]
      refine ⟨hcb.lookup now dst, ?_⟩
      intro e he
      rw [(lookup_claims m.table now dst).1] at he
      rw [(lookup_claims m.table now dst).2]
      exact hbd.mono hT e he
  | @tick m Tm env o now _ hT hnow ih =>
    obtain ⟨hcfg, hcb, hbd⟩ := ih
    refine ⟨(housekeep_cfg ..).trans hcfg, ?_, (hbd.mono hT).of_shrink (housekeep_shrink' env o m now hnow)⟩
    exact housekeep_table_pres CacheBacked env o m now (fun t q ht => ht.removeClaims now hnow q) (fun t ht => ht.housekeep now) hcb
  | @dial m Tm env o addrs _ ih =>
    obtain ⟨hcfg, hinv⟩ := ih
    refine ⟨(connect_cfg ..).trans hcfg, ?_⟩
    unfold NLInv; rw [connect_table_same]; exact hinv

/-! ## non-vacuity (sessions of the toy configuration), and the counterexamples for the added hypotheses -/
section NonVacuity
open VpnCloud.Proofs.InitLemmas

private def aP : NAddr := .v6 (List.replicate 16 0) 1
private def aQ : NAddr := .v6 (List.replicate 16 0) 2
private def cfgOf (learning broadcast : Bool) : NodeCfg :=
  { tap := true, learning := learning, broadcast := broadcast, peerTimeout := 300, peerTimeoutPublish := 300, updateFreq := 10,
    claims := [], key := [7, 7, 7, 7], trusted := [[9, 9, 9, 9]], algos := Toy.algos }
private def o0 : Oracle := { emitted := fun _ _ => [], rotProp := fun _ => 0, rotPend := fun _ => 0, starts := fun _ => [] }
private def bo : Init.BodyOf := fun _ => .garbage 0
private def sessU : PeerCrypto := { init := none, unencrypted := true }
private def peerOf (pc : PeerCrypto) (timeout : Int) : Peer :=
  { addrs := [], timeout := timeout, peerTimeout := 300, nodeId := List.replicate 16 1, crypto := pc }
private def tbl0 : Table := { cacheTimeout := 300, claimTimeout := 300 }
/-- a switch with the two peers `P` (id 1, expiry `tP`) and `Q` (id 2), sessions in plain mode, empty table -/
private def nSw (tP : Int) : Node :=
  { nodeId := List.replicate 16 8, addr := .v6 (List.replicate 16 0) 9, cfg := cfgOf true true,
    peers := [(aP, peerOf sessU tP), (aQ, peerOf sessU 1000)], table := tbl0, nextPeers := 5000 }
private def nS : Node := nSw 1000
private def macA : Bytes := [2, 0, 0, 0, 0, 10]
private def macB : Bytes := [2, 0, 0, 0, 0, 11]
/-- frames: `A → B` untagged, `B → A` untagged; `A → B` in VLAN 100 (priority 5), `B → A` in VLAN 100 (priority 0) and in VLAN 200;
    `A → B` priority-tagged -/
private def fAB : Bytes := plainFrame macB macA [8, 0] [1, 2, 3]
private def fBA : Bytes := plainFrame macA macB [8, 0] [4, 5]
private def fAB100 : Bytes := taggedFrame macB macA 10 100 [8, 0, 1]
private def fBA100 : Bytes := taggedFrame macA macB 0 100 [8, 0, 2]
private def fBA200 : Bytes := taggedFrame macA macB 0 200 [8, 0, 2]
private def fAB0 : Bytes := taggedFrame macB macA 14 0 [8, 0, 1]
/-- a DATA message in plain mode: type byte, then the frame -/
private def msg (f : Bytes) : Bytes := Generated.MESSAGE_TYPE_DATA :: f

private theorem fromP (tP : Int) (f : Bytes) :
    FromPeer Toy.env bo o0 (nSw tP) aP (msg f) [] (peerOf sessU tP) sessU Generated.MESSAGE_TYPE_DATA f :=
  ⟨rfl, by simp [msg, Generated.MESSAGE_TYPE_DATA, Generated.INIT_MESSAGE_FIRST_BYTE], [], [], rfl⟩

private theorem idU : IdUnique nS aP ∧ IdUnique nS aQ := by
  unfold IdUnique; decide

/-- `idUnique_of_wf`: the peer addresses of `nS` are well-formed -/
example : IdUnique nS aP := idUnique_of_wf nS aP ⟨rfl, by decide, by decide⟩ (by
  intro x hx
  simp only [nS, nSw, List.map_cons, List.map_nil, List.mem_cons, List.not_mem_nil, or_false] at hx
  rcases hx with rfl | rfl <;> exact ⟨rfl, by decide, by decide⟩)

/-- `learned_then_unicast`: all hypotheses hold for `nS` and the frame `A → B` from `P`; the theorem gives … -/
example : OnlyTo o0 (handleNet Toy.env bo o0 nS 100 aP (msg fAB) []).1.node 5000 fBA aP sessU :=
  (learned_then_unicast (fromP 1000 fAB) rfl rfl 100 macA macB (by decide) idU.1 o0 5000 fBA macB (by decide)).2.2

/-- … and this is what the model computes: before the frame from `P`, `B → A` is flooded to both peers; afterwards it goes to `P` only
    (long after the expiry 400 of the entry, as long as no sweep ran) -/
example : (handleIface o0 nS 5000 fBA).outs = [.dgram aP (msg fBA), .dgram aQ (msg fBA)] ∧
    (handleIface o0 (handleNet Toy.env bo o0 nS 100 aP (msg fAB) []).1.node 5000 fBA).outs = [.dgram aP (msg fBA)] ∧
    (handleNet Toy.env bo o0 nS 100 aP (msg fAB) []).1.node.table.cache = [⟨macA, 1, 400⟩] := by decide

/-- `relearn_moves`: the second frame with source `A` comes from `Q` (hypotheses hold, `addrId aQ = 2 ≠ 1 = addrId aP`) -/
private theorem fromQ2 : FromPeer Toy.env bo o0 (handleNet Toy.env bo o0 nS 100 aP (msg fAB) []).1.node aQ (msg fAB) []
    (peerOf sessU 1000) sessU Generated.MESSAGE_TYPE_DATA fAB :=
  ⟨rfl, by decide, [], [], rfl⟩

example : (handleIface o0 (handleNet Toy.env bo o0 (handleNet Toy.env bo o0 nS 100 aP (msg fAB) []).1.node 150 aQ (msg fAB) []).1.node
      5000 fBA).outs = [.dgram aQ (msg fBA)] := by
  have h := (relearn_moves 100 150 (fromP 1000 fAB) rfl rfl macA macB macB (by decide) fromQ2 (by decide) (by decide) idU.2 o0 5000 fBA macB
    (by decide)).2.2.2.1
  unfold OnlyTo at h
  exact h.trans rfl

/-- `vlan_isolated` / `vlan_same_unicast` / `known_elsewhere_flooded`: `A` learned from `P` in VLAN 100 (priority 5): `B → A` in VLAN 100
    (priority 0) goes to `P` only, `B → A` in VLAN 200 and untagged are flooded as before -/
example : (handleNet Toy.env bo o0 nS 100 aP (msg fAB100) []).1.node.table.cache = [⟨[0, 100] ++ macA, 1, 400⟩] ∧
    (handleIface o0 (handleNet Toy.env bo o0 nS 100 aP (msg fAB100) []).1.node 200 fBA100).outs = [.dgram aP (msg fBA100)] ∧
    (handleIface o0 (handleNet Toy.env bo o0 nS 100 aP (msg fAB100) []).1.node 200 fBA200).outs =
      [.dgram aP (msg fBA200), .dgram aQ (msg fBA200)] ∧
    (handleIface o0 (handleNet Toy.env bo o0 nS 100 aP (msg fAB100) []).1.node 200 fBA).outs = [.dgram aP (msg fBA), .dgram aQ (msg fBA)] := by
  decide

example : let n' := (handleNet Toy.env bo o0 nS 100 aP (msg fAB100) []).1.node
    (handleIface o0 n' 200 fBA200).outs = (handleIface o0 { n' with table := nS.table } 200 fBA200).outs :=
  vlan_isolated macB macA [8, 0, 1] 10 100 (fromP 1000 fAB100) rfl 100 rfl rfl (by decide) (by decide) o0 200 fBA200
    (Or.inl ⟨macB, 0, 200, [8, 0, 2], rfl, by decide, by decide, rfl⟩)

/-- `untagged_isolated`: `A` learned from the untagged frame; `B → A` in VLAN 200 is not affected -/
example : let n' := (handleNet Toy.env bo o0 nS 100 aP (msg fAB) []).1.node
    (handleIface o0 n' 200 fBA200).outs = (handleIface o0 { n' with table := nS.table } 200 fBA200).outs :=
  untagged_isolated macB macA (fromP 1000 fAB) rfl 100 rfl rfl (Or.inr ⟨[8, 0], [1, 2, 3], rfl, by decide, rfl⟩) o0 200 macB [8, 0, 2] 0 200
    rfl (by decide) (by decide)

/-- `priority_tag_directs_untagged`: `A` learned from the priority-tagged frame (VLAN id 0, priority 7): the entry is the untagged one, and
    the untagged `B → A` goes to `P` only -/
example : (handleNet Toy.env bo o0 nS 100 aP (msg fAB0) []).1.node.table.cache = [⟨macA, 1, 400⟩] ∧
    (handleIface o0 (handleNet Toy.env bo o0 nS 100 aP (msg fAB0) []).1.node 200 fBA).outs = [.dgram aP (msg fBA)] := by decide

example : OnlyTo o0 (handleNet Toy.env bo o0 nS 100 aP (msg fAB0) []).1.node 200 fBA aP sessU :=
  priority_tag_directs_untagged macB macA [8, 0, 1] 14 (fromP 1000 fAB0) rfl rfl 100 rfl rfl idU.1 o0 200 macB [8, 0] [4, 5] rfl rfl (by decide)

/-- `unknown_in_vlan_flooded`: hypotheses hold for `nS` (empty table) -/
example : (handleIface o0 nS 200 fBA100).outs.filterMap C10More.dstOf = [aP, aQ] :=
  (unknown_in_vlan_flooded o0 nS 200 fBA100 ([0, 100] ++ macB) ([0, 100] ++ macA) rfl (by decide) rfl (by intro v hv; cases hv)
    (by intro e he; cases he) (by decide) (by
      intro a p hp
      have hm := lookupA_some_mem hp
      simp only [nS, nSw, List.mem_cons, Prod.mk.injEq, List.not_mem_nil, or_false] at hm
      rcases hm with ⟨_, rfl⟩ | ⟨_, rfl⟩ <;> exact Or.inl rfl)).1

/-- `Dropped.expired` / `disconnect_then_flooded`: the expiry of `P` is second 300; `A` is learned from `P` at second 100 (entry until 400);
    the tick at second 350 drops `P`, and with it the entry (which had not expired): `B → A` is flooded again, to the remaining peer -/
private def n1 (tP : Int) : Node := (handleNet Toy.env bo o0 (nSw tP) 100 aP (msg fAB) []).1.node

private theorem dropExpired : Dropped aP (n1 300) (housekeep Toy.env o0 (n1 300) 350).node :=
  .expired Toy.env o0 (n1 300) 350 (peerOf sessU 300) (by decide) (by decide) rfl (by decide)

example : (n1 300).table.cache = [⟨macA, 1, 400⟩] ∧ (housekeep Toy.env o0 (n1 300) 350).node.table.cache = [] ∧
    (housekeep Toy.env o0 (n1 300) 350).node.peers.map (·.1) = [aQ] ∧
    (handleIface o0 (housekeep Toy.env o0 (n1 300) 350).node 360 fBA).outs = [.dgram aQ (msg fBA)] := by decide

example : (housekeep Toy.env o0 (n1 300) 350).node.table.lookup 360 macA = ((housekeep Toy.env o0 (n1 300) 350).node.table, none) :=
  (disconnect_then_flooded (fromP 300 fAB) rfl rfl rfl 100 macA macB (by decide) (by intro e he; cases he) _ dropExpired (by decide)
    o0 360 fBA macB (by decide)).1

/-- `Dropped.failed`: the session of `P` still carries a handshake object that has used up its retries: `every_second` fails, whatever
    the randomness -/
private def sessF : PeerCrypto :=
  { init := some { nodeId := [1], hash := [], payload := [], ownKey := [], trusted := [], algos := Toy.algos, stage := Generated.STAGE_PENG,
                   retries := Generated.MAX_FAILED_RETRIES },
    unencrypted := true }
private def nF : Node := { nS with peers := [(aP, peerOf sessF 1000), (aQ, peerOf sessU 1000)], table := { tbl0 with cache := [⟨macA, 1, 400⟩] } }

example : Dropped aP nF (housekeep Toy.env o0 nF 150).node :=
  .failed Toy.env o0 nF 150 (peerOf sessF 1000) (by decide) (by decide) rfl (by decide) (fun _ => ⟨_, _, rfl⟩)

example : (housekeep Toy.env o0 nF 150).node.table.cache = [] ∧ (housekeep Toy.env o0 nF 150).node.peers.map (·.1) = [aQ] := by decide

/-- `Dropped.close`: a CLOSE message can only be opened by an ENCRYPTED session (in plain mode its type byte `ff` is the handshake marker,
    see the remark below).  `P` has a session with a crypto core (toy key 7); the ideal AEAD opens the datagram as the CLOSE message. -/
private def sessB : PeerCrypto := { init := none, core := some (Core.new 7 false 8 [0, 0, 0, 0]) }
private def nC : Node := { nS with peers := [(aP, peerOf sessB 1000), (aQ, peerOf sessU 1000)], table := { tbl0 with cache := [⟨macA, 1, 400⟩] } }
private def wire : Bytes := 0 :: Bytes.ofBE 7 (HALF + 6) ++ [1, 2, 3]
private def boClose : Init.BodyOf := fun _ => .sealed 7 (HALF + 6) [Generated.MESSAGE_TYPE_CLOSE]
private def sessB' : PeerCrypto :=
  match PeerCrypto.handleMessage Toy.env boClose payloadOk sessB wire [] (rndFor o0 { node := nC } aP).1 (rndFor o0 { node := nC } aP).2.1 with
  | .ok pc _ _ _ => pc
  | _ => sessB

example : Dropped aP nC (handleNet Toy.env boClose o0 nC 150 aP wire []).1.node :=
  .close 150 (by decide) rfl (p := peerOf sessB 1000) (pc := sessB') (body := []) ⟨rfl, by decide, [], [], rfl⟩

example : (handleNet Toy.env boClose o0 nC 150 aP wire []).1.node.table.cache = [] ∧
    (handleNet Toy.env boClose o0 nC 150 aP wire []).1.node.peers.map (·.1) = [aQ] := by decide

/-- remark on the protocol (reported): `MESSAGE_TYPE_CLOSE = 0xff = INIT_MESSAGE_FIRST_BYTE`.  In plain mode a CLOSE message is the single
    byte `ff`, which the receiver takes for an (empty) handshake message: it is counted as invalid and the peer is NOT dropped. -/
example : (handleNet Toy.env bo o0 nS 150 aP [Generated.MESSAGE_TYPE_CLOSE] []).1.node.peers.map (·.1) = [aP, aQ] ∧
    (handleNet Toy.env bo o0 nS 150 aP [Generated.MESSAGE_TYPE_CLOSE] []).1.node.droppedIn = 1 := by decide

/-- `learned_survives_tick` / `silent_expires_node`: `A` learned from `P` at second 100 (expiry 400): the tick at 400 keeps the entry, the
    tick at 401 removes it, and `B → A` is flooded again (all hypotheses hold: peer expiry 1000, plain sessions never fail) -/
example : (housekeep Toy.env o0 (n1 1000) 400).node.table.cache = [⟨macA, 1, 400⟩] ∧
    (handleIface o0 (housekeep Toy.env o0 (n1 1000) 400).node 400 fBA).outs = [.dgram aP (msg fBA)] ∧
    (housekeep Toy.env o0 (n1 1000) 401).node.table.cache = [] ∧
    (handleIface o0 (housekeep Toy.env o0 (n1 1000) 401).node 401 fBA).outs = [.dgram aP (msg fBA), .dgram aQ (msg fBA)] := by decide

example : ∃ p2, lookupA (housekeep Toy.env o0 (n1 1000) 400).node.peers aP = some p2 ∧
    OnlyTo o0 (housekeep Toy.env o0 (n1 1000) 400).node 400 fBA aP p2.crypto :=
  (learned_survives_tick (fromP 1000 fAB) rfl rfl 100 macA macB (by decide) idU.1 (by decide) 400 (by decide) (by decide) (by decide)
    (C09MoreLemmas.everySecond_healthy sessU rfl (Or.inl rfl)) o0 400 fBA macB (by decide)).2

example : (housekeep Toy.env o0 (n1 1000) 401).node.table.lookup 401 macA = ((housekeep Toy.env o0 (n1 1000) 401).node.table, none) :=
  (silent_expires_node (env' := Toy.env) (oh := o0) (fromP 1000 fAB) rfl rfl rfl 100 macA macB (by decide) (by intro e he; cases he) 401
    (by decide) (by decide) (by decide) o0 401 fBA macB (by decide)).2.2.1

/-- COUNTEREXAMPLE for `learned_then_unicast` without `IdUnique`: the model does not bound port numbers, and the address `aX` (port
    `6 · 256^18 + 65541`, not a 16-bit value) has the table id of the well-formed address `aY` (`::1` port 5).  `A` is learned from `aY`,
    but the frame for `A` goes to `aX`, the first peer with that id.  (`addrId` is injective on well-formed socket addresses.) -/
private def aY : NAddr := .v6 (List.replicate 15 0 ++ [1]) 5
private def aX : NAddr := .v6 (List.replicate 16 0) (6 * 256 ^ 18 + 65541)
private def nX : Node := { nS with peers := [(aX, peerOf sessU 1000), (aY, peerOf sessU 1000)] }

theorem id_clash : addrId aX = addrId aY ∧ aX ≠ aY ∧
    FromPeer Toy.env bo o0 nX aY (msg fAB) [] (peerOf sessU 1000) sessU Generated.MESSAGE_TYPE_DATA fAB ∧
    (handleIface o0 (handleNet Toy.env bo o0 nX 100 aY (msg fAB) []).1.node 200 fBA).outs = [.dgram aX (msg fBA)] :=
  ⟨by decide, by decide, ⟨rfl, by decide, [], [], rfl⟩, by decide⟩

/-! ### hub / router -/

/-- a hub (no learning, flooding) with the peers `P`, `Q` and a claim of `Q` for the MAC address `A` -/
private def nH : Node :=
  { nS with cfg := cfgOf false true, table := { tbl0 with claims := [⟨2, ⟨macA, 48⟩, 2000⟩] } }

/-- `no_learning_any_datagram`: the frame `A → B` from `P` is delivered, the table stays as it is -/
example : (handleNet Toy.env bo o0 nH 100 aP (msg fAB) []).1.outs = [.iface fAB] ∧
    (handleNet Toy.env bo o0 nH 100 aP (msg fAB) []).1.node.table.cache = [] := by decide

/-- `iface_caches_own_lookup` / `hub_router_never_learn`: a two-step history of the hub (a datagram, then a frame from the interface);
    the only cache entry is the decision of the lookup: `A` is claimed by `Q` -/
example : C12Node.Reach nH (handleIface o0 (handleNet Toy.env bo o0 nH 100 aP (msg fAB) []).1.node 200 fBA).node :=
  .step (.step .init (.net Toy.env bo o0 nH 100 aP (msg fAB) [] (by decide))) (.iface o0 _ 200 fBA)

example : (handleIface o0 (handleNet Toy.env bo o0 nH 100 aP (msg fAB) []).1.node 200 fBA).node.table.cache = [⟨macA, 2, 500⟩] ∧
    (handleIface o0 (handleNet Toy.env bo o0 nH 100 aP (msg fAB) []).1.node 200 fBA).outs = [.dgram aQ (msg fBA)] := by decide

/-- `hub_router_cache_backed`: the hub with a claim of `Q` that expires at second 250 satisfies `NLInv` at clock 50; the same two-step
    history with time stamps; the cached entry `A ↦ Q` expires with the claim (`min (200 + 300) 250`) -/
private def nH' : Node := { nH with table := { tbl0 with claims := [⟨2, ⟨macA, 48⟩, 250⟩] } }

example : NLInv 50 nH' := by
  constructor
  · intro v hv
    cases hv
  · intro e he
    simp only [nH', List.mem_singleton] at he
    subst he
    decide

example : ReachT nH' 50 (handleIface o0 (handleNet Toy.env bo o0 nH' 100 aP (msg fAB) []).1.node 200 fBA).node 200 :=
  .iface o0 200 fBA (.net Toy.env bo o0 100 aP (msg fAB) [] .init (by decide) (by decide)) (by decide)

example : (handleIface o0 (handleNet Toy.env bo o0 nH' 100 aP (msg fAB) []).1.node 200 fBA).node.table.cache = [⟨macA, 2, 250⟩] := by decide

/-- COUNTEREXAMPLE for the sub-list statement at `now = 0` (`P` with the encrypted session sends CLOSE): `remove_claims` marks the entries of
    the sender with expiry 0 and the sweep at time 0 keeps them — the cache entry is ALTERED (expiry 400 → 0), so the new cache is not a
    sub-list of the old one -/
private def nZ : Node := { nC with cfg := cfgOf false true }

theorem sublist_fails_at_zero : nZ.cfg.learning = false ∧
    (handleNet Toy.env boClose o0 nZ 0 aP wire []).1.node.table.cache = [⟨macA, 1, 0⟩] ∧
    ¬ ([⟨macA, 1, 0⟩] : List CacheEntry).Sublist nZ.table.cache := by
  refine ⟨rfl, by decide, ?_⟩
  intro h
  have := h.subset (List.mem_singleton.2 rfl)
  revert this
  decide

end NonVacuity

end VpnCloud.Proofs.C13More
