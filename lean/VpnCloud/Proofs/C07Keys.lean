import VpnCloud.Proofs.Lemmas.C07KeysLemmas
/-
  C07 (keys) — rotated-in keys are separate keys.

  The model side of the correspondence check "different key exchanges install different key material, one
  exchange installs the same material at both ends".  The two-party rotation system `Sys`/`Step` of
  `Model/Rotation.lean` is instrumented with a ghost log per end (`GSys`, `GStep`, `GReach` in
  `Lemmas/C07KeysLemmas.lean`): every `(message id, key)` handed to `rotate_key` is recorded.  The
  instrumentation is exact (`step_installs_logged`) and refines the existing system in both directions
  (`greach_sound`, `greach_complete`).

  Nothing in the statements of the task turned out to be false of the model: a duplicate delivery does NOT
  re-install a key (the first delivery clears `proposed`, so the second one only replaces the pending
  reply), hence the plain `Nodup` statement holds.
-/
namespace VpnCloud.Rot

/-! ### 1. the symbolic keys -/

/-- Two ECDH results are the same key material exactly when they come from the same unordered pair of
ephemeral key pairs (idealisation I3). -/
theorem keys_K_inj (a b c d : Nat) : K a b = K c d ↔ (a = c ∧ b = d) ∨ (a = d ∧ b = c) := K_inj a b c d

/-- A rotated-in key is never the key of the handshake. -/
theorem keys_K_ne_init (a b : Nat) : K a b ≠ .init := K_ne_init a b

/-- A rotated-in key is never the filler of an unused slot. -/
theorem keys_K_ne_dummy (a b side slot : Nat) : K a b ≠ .dummy side slot := K_ne_dummy a b side slot

/-! ### refinement: the instrumented system is the existing system plus a log -/

/-- every instrumented step is a step of the existing system -/
theorem gstep_sound {g g' : GSys} (st : GStep g g') : Step g.sys g'.sys := by
  cases st with
  | cycleX => exact Step.cycleX _
  | cycleY => exact Step.cycleY _
  | delivX m hm => exact Step.delivX _ m hm
  | delivY m hm => exact Step.delivY _ m hm

/-- every step of the existing system is matched by an instrumented step, whatever the logs are -/
theorem gstep_complete {s t : Sys} (st : Step s t) (lx ly : List (Nat × Key)) :
    ∃ lx' ly', GStep ⟨s, lx, ly⟩ ⟨t, lx', ly'⟩ := by
  cases st with
  | cycleX => exact ⟨_, _, GStep.cycleX ⟨s, lx, ly⟩⟩
  | cycleY => exact ⟨_, _, GStep.cycleY ⟨s, lx, ly⟩⟩
  | delivX m hm => exact ⟨_, _, GStep.delivX ⟨s, lx, ly⟩ m hm⟩
  | delivY m hm => exact ⟨_, _, GStep.delivY ⟨s, lx, ly⟩ m hm⟩

/-- The projection of the instrumented runs is contained in the runs of `Rot.Reachable` … -/
theorem greach_sound {g : GSys} (h : GReach g) : Reachable g.sys := by
  induction h with
  | init => exact Reachable.init
  | step _ st ih => exact Reachable.step ih (gstep_sound st)

/-- … and every reachable state of the existing system is the projection of an instrumented run:
the ghost logs restrict nothing. -/
theorem greach_complete {s : Sys} (h : Reachable s) : ∃ lx ly, GReach ⟨s, lx, ly⟩ := by
  induction h with
  | init => exact ⟨[], [], GReach.init⟩
  | step _ st ih =>
    obtain ⟨lx, ly, hg⟩ := ih
    obtain ⟨lx', ly', st'⟩ := gstep_complete st lx ly
    exact ⟨lx', ly', GReach.step hg st'⟩

/-- The ghost log is exact: in one step each end's log grows by a (possibly empty) list of new entries,
and the end's key slots after the step are the slots before with exactly these entries installed. -/
theorem step_installs_logged {g g' : GSys} (st : GStep g g') :
    ∃ nx ny, g'.logX = nx ++ g.logX ∧ g'.logY = ny ++ g.logY ∧
      g'.sys.x.slots = installAll g.sys.x.slots nx ∧ g'.sys.y.slots = installAll g.sys.y.slots ny := by
  cases st with
  | cycleX => exact ⟨_, [], rfl, rfl, cycle_slots _ _, rfl⟩
  | cycleY => exact ⟨[], _, rfl, rfl, rfl, cycle_slots _ _⟩
  | delivX m hm => exact ⟨_, [], rfl, rfl, process_slots _ _ _, rfl⟩
  | delivY m hm => exact ⟨[], _, rfl, rfl, rfl, process_slots _ _ _⟩

/-! ### 2. no key is installed twice at one end -/

/-- **Installed rotation keys never repeat.**  In every reachable state of the two-party system — cycles
at either end in any order, delivery of any message ever sent any number of times, or never — the
sequence of keys an end has installed by rotation (over all four slots) has no repetition: a node never
re-uses the key material of an earlier rotation, not even after duplicated or replayed rotation messages.
The ephemeral numbers are fresh as the system draws them (`Sys.fresh`). -/
theorem installed_keys_fresh {g : GSys} (h : GReach g) :
    (g.logX.map Prod.snd).Nodup ∧ (g.logY.map Prod.snd).Nodup := by
  obtain ⟨ox, oy, _, _, _, hx, hy⟩ := kinv_reach h
  exact ⟨hx.nodup, hy.nodup⟩

/-- The same per step: whatever a step installs into a slot of an end (`nx`/`ny` are exactly the installs of
the step, see `step_installs_logged`) differs from every key that end has installed before, and two installs
of the same step differ as well. -/
theorem installed_keys_fresh_step {g g' : GSys} (h : GReach g) (st : GStep g g')
    {nx ny : List (Nat × Key)} (hx : g'.logX = nx ++ g.logX) (hy : g'.logY = ny ++ g.logY) :
    (∀ r ∈ nx, ∀ r' ∈ g.logX, r.2 ≠ r'.2) ∧ (∀ r ∈ ny, ∀ r' ∈ g.logY, r.2 ≠ r'.2) ∧
    (nx.map Prod.snd).Nodup ∧ (ny.map Prod.snd).Nodup := by
  obtain ⟨h1, h2⟩ := installed_keys_fresh (GReach.step h st)
  rw [hx, List.map_append, List.nodup_append] at h1
  rw [hy, List.map_append, List.nodup_append] at h2
  refine ⟨?_, ?_, h1.1, h2.1⟩
  · intro r hr r' hr'
    exact h1.2.2 _ (List.mem_map_of_mem hr) _ (List.mem_map_of_mem hr')
  · intro r hr r' hr'
    exact h2.2.2 _ (List.mem_map_of_mem hr) _ (List.mem_map_of_mem hr')

/-- Every key installed by rotation is an ECDH result `.dh lo hi` of two different ephemeral key pairs
(never the handshake key, never a slot filler). -/
theorem installed_keys_dh {g : GSys} (h : GReach g) :
    (∀ r ∈ g.logX, ∃ lo hi, r.2 = .dh lo hi ∧ lo < hi) ∧ (∀ r ∈ g.logY, ∃ lo hi, r.2 = .dh lo hi ∧ lo < hi) := by
  obtain ⟨ox, oy, _, _, hd, hx, hy⟩ := kinv_reach h
  have key : ∀ a c : Nat, a ≠ c → ∃ lo hi, K a c = .dh lo hi ∧ lo < hi := by
    intro a c hne
    unfold K; split
    · exact ⟨a, c, rfl, by omega⟩
    · exact ⟨c, a, rfl, by omega⟩
  constructor
  · intro r hr
    obtain ⟨a, c, h1, h2, h3, _, _⟩ := hx.logd r hr
    rw [h1]; exact key a c (fun heq => hd a h2 (heq ▸ h3))
  · intro r hr
    obtain ⟨a, c, h1, h2, h3, _, _⟩ := hy.logd r hr
    rw [h1]; exact key a c (fun heq => hd a (heq ▸ h3) h2)

/-! ### 3. one exchange installs the same key at both ends -/

/-- **One exchange, one key.**  Whatever the two ends ever installed for the same message id is the same
key material — for every schedule, loss, duplication and reordering. -/
theorem both_ends_same_exchange_log {g : GSys} (h : GReach g) {i : Nat} {k1 k2 : Key}
    (hx : (i, k1) ∈ g.logX) (hy : (i, k2) ∈ g.logY) : k1 = k2 := by
  rcases ginv_reach h with ⟨_, l⟩ | ⟨_, l⟩
  · exact l.agree i k1 k2 hx hy
  · exact (l.agree i k2 k1 hy hx).symm

/-- The statement of the task: whenever both ends hold a `.dh` key under the same slot index which they
installed for the same message id, it is the same key: packets sealed under that key id by one end open at
the other. -/
theorem both_ends_same_exchange {g : GSys} (h : GReach g) {i lo1 hi1 lo2 hi2 : Nat}
    (hx : g.sys.x.slots (i % 4) = .dh lo1 hi1) (hy : g.sys.y.slots (i % 4) = .dh lo2 hi2)
    (lx : (i, g.sys.x.slots (i % 4)) ∈ g.logX) (ly : (i, g.sys.y.slots (i % 4)) ∈ g.logY) :
    g.sys.x.slots (i % 4) = g.sys.y.slots (i % 4) ∧ lo1 = lo2 ∧ hi1 = hi2 := by
  have := both_ends_same_exchange_log h lx ly
  refine ⟨this, ?_⟩
  rw [hx, hy] at this
  injection this with h1 h2
  exact ⟨h1, h2⟩

/-- Different exchanges install different keys at both ends: a key installed by `X` for id `i` and a key
installed by `Y` for a different id `j` differ, provided `X` itself also installed something for `j`
(the exchange `j` was completed at both ends). -/
theorem different_exchanges_different_keys {g : GSys} (h : GReach g) {i j : Nat} {k1 k2 k : Key}
    (hi : (i, k1) ∈ g.logX) (hj : (j, k2) ∈ g.logY) (hjx : (j, k) ∈ g.logX) (hij : i ≠ j) : k1 ≠ k2 := by
  have hk : k = k2 := both_ends_same_exchange_log h hjx hj
  subst hk
  intro heq
  subst heq
  have hnd := (installed_keys_fresh h).1
  -- two entries of `logX` with the same key are the same entry
  have : ∀ (l : List (Nat × Key)), (l.map Prod.snd).Nodup → ∀ a b : Nat, ∀ k : Key,
      (a, k) ∈ l → (b, k) ∈ l → a = b := by
    intro l
    induction l with
    | nil => intro _ a b k ha; cases ha
    | cons r l ih =>
      intro hn a b k ha hb
      rw [List.map_cons, List.nodup_cons] at hn
      rcases List.mem_cons.1 ha with ha1 | ha1 <;> rcases List.mem_cons.1 hb with hb1 | hb1
      · rw [← hb1] at ha1; cases ha1; rfl
      · subst ha1; exact absurd (List.mem_map_of_mem (f := Prod.snd) hb1) hn.1
      · subst hb1; exact absurd (List.mem_map_of_mem (f := Prod.snd) ha1) hn.1
      · exact ih hn.2 a b k ha1 hb1
  exact hij (this _ hnd i j k1 hi hjx)

/-! ### non-vacuity: a concrete schedule with two completed rotations -/

def gCycleX (g : GSys) : GSys :=
  ⟨{ g.sys with x := (cycle g.sys.x g.sys.fresh).1, sentX := addMsg g.sys.sentX (cycle g.sys.x g.sys.fresh).2,
                fresh := g.sys.fresh + 1 }, cycleLog g.sys.x ++ g.logX, g.logY⟩
def gCycleY (g : GSys) : GSys :=
  ⟨{ g.sys with y := (cycle g.sys.y g.sys.fresh).1, sentY := addMsg g.sys.sentY (cycle g.sys.y g.sys.fresh).2,
                fresh := g.sys.fresh + 1 }, g.logX, cycleLog g.sys.y ++ g.logY⟩
def gDelivX (g : GSys) (m : Msg) : GSys :=
  ⟨{ g.sys with x := process g.sys.x m g.sys.fresh, fresh := g.sys.fresh + 1 }, processLog g.sys.x m ++ g.logX, g.logY⟩
def gDelivY (g : GSys) (m : Msg) : GSys :=
  ⟨{ g.sys with y := process g.sys.y m g.sys.fresh, fresh := g.sys.fresh + 1 }, g.logX, processLog g.sys.y m ++ g.logY⟩

/-- init message to Y, Y rotates (id 2), X receives and rotates (id 3), Y receives; then the message of id 2
is delivered to X a second time (a duplicate), which installs nothing. -/
def demo : GSys :=
  gDelivX (gDelivY (gCycleX (gDelivX (gCycleY (gDelivY ginit ⟨1, 0, none⟩)) ⟨2, 2, some 1⟩)) ⟨3, 4, some 3⟩) ⟨2, 2, some 1⟩

theorem demo_reach : GReach demo := by
  refine GReach.step (GReach.step (GReach.step (GReach.step (GReach.step (GReach.step GReach.init
    (GStep.delivY _ ⟨1, 0, none⟩ ?_)) (GStep.cycleY _)) (GStep.delivX _ ⟨2, 2, some 1⟩ ?_)) (GStep.cycleX _))
    (GStep.delivY _ ⟨3, 4, some 3⟩ ?_)) (GStep.delivX _ ⟨2, 2, some 1⟩ ?_) <;> decide

/-- two completed rotations: two different keys at each end, the same ones at both ends -/
example : GReach demo ∧ demo.logX = [(3, .dh 2 3), (2, .dh 0 1)] ∧ demo.logY = [(3, .dh 2 3), (2, .dh 0 1)] ∧
    demo.sys.x.slots 2 = .dh 0 1 ∧ demo.sys.x.slots 3 = .dh 2 3 ∧
    demo.sys.y.slots 2 = .dh 0 1 ∧ demo.sys.y.slots 3 = .dh 2 3 :=
  ⟨demo_reach, by decide, by decide, by decide, by decide, by decide, by decide⟩

/-- the hypotheses of `both_ends_same_exchange` and of `different_exchanges_different_keys` are met in `demo` -/
example : demo.sys.x.slots (3 % 4) = .dh 2 3 ∧ demo.sys.y.slots (3 % 4) = .dh 2 3 ∧
    (3, demo.sys.x.slots (3 % 4)) ∈ demo.logX ∧ (3, demo.sys.y.slots (3 % 4)) ∈ demo.logY ∧
    (2, Key.dh 0 1) ∈ demo.logX ∧ (3, Key.dh 2 3) ∈ demo.logY ∧ (3, Key.dh 2 3) ∈ demo.logX :=
  ⟨by decide, by decide, by decide, by decide, by decide, by decide, by decide⟩

end VpnCloud.Rot
