import VpnCloud.Proofs.C07
import VpnCloud.Proofs.Lemmas.RotLemmas
/-
  C07 — further theorems about key rotation.

  * `inv_reachable`, `ids_interlock`, `sent_ids_bounded`, `only_latest_matters`, `receive_before_send`: direct
    consequences of the inductive invariant `Inv` of `C07.lean`.
  * `latest_sent` (strengthened invariant `InvL`): the end that is ahead has sent its latest message.
  * lock-step progress: `round` / `IsRound` (messages of a round delivered in any order), `round_reachable`,
    `isRound_spec` (one round from any reachable state leads to the steady state `Steady`),
    `steady_isRound` (in the steady state a round advances both ids by exactly 2 and moves both sealing slots),
    `lockstep_progress`, `lockstep_fresh` (2 rounds suffice, `lockstep_one_round_not_enough`: 1 does not),
    `lockstep_fresh_4`, and `lockstep_new_keys` / `lockstep_fresh_keys`: after 3 or more rounds both current sealing keys
    are made of key pairs drawn after the start state, hence differ from every key held in any slot at the start.
  Remark: the *index* of the sealing slot of an end alternates with period 2 rounds in the steady state (`id` grows by 2
  per round, slot = id-derived value mod 4), so "the slot index after exactly 4 rounds differs from the one at the start"
  is false; what changes for good is the id and the key, which is what is proved.
  Side-level lemmas: `Lemmas/RotLemmas.lean`.
-/
namespace VpnCloud.Rot

theorem inv_reachable {s : Sys} (h : Reachable s) : Inv s := by
  induction h with
  | init => exact inv_init
  | step _ st ih => exact inv_step ih st

/-- **ids_interlock**: the message ids of the two ends always differ by exactly one -/
theorem ids_interlock {s : Sys} (h : Reachable s) : s.x.id = s.y.id + 1 ∨ s.y.id = s.x.id + 1 := by
  rcases inv_reachable h with h | h
  · exact Or.inl h.idrel.symm
  · exact Or.inr h.idrel.symm

/-- every message ever sent by an end carries an id not above that end's current id -/
theorem sent_ids_bounded {s : Sys} (h : Reachable s) :
    (∀ m ∈ s.sentX, m.id ≤ s.x.id) ∧ (∀ m ∈ s.sentY, m.id ≤ s.y.id) := by
  rcases inv_reachable h with h | h
  · exact ⟨h.sxle, fun m hm => by have := h.syle m hm; have := h.idrel; omega⟩
  · exact ⟨fun m hm => by have := h.syle m hm; have := h.idrel; omega, h.sxle⟩

/-- side-level core of `only_latest_matters` -/
theorem ahead_only_latest {X Y : Side} {sx sy : List Msg} (h : Ahead X Y sx sy) {m : Msg} (hm : m ∈ sx) (f : Nat)
    (hne : process Y m f ≠ Y) : m.id = X.id := by
  have hle := h.sxle m hm
  have hid := h.idrel
  by_cases hlt : m.id < X.id
  · have := h.sxpar m hm hlt
    exact absurd (process_ignore f (by omega)) hne
  · omega

/-- **only_latest_matters**: a delivered message changes the receiver only if it carries the sender's current (latest)
    id; duplicates and older messages are ignored — so loss, duplication and reordering of older messages cannot
    disturb the rotation -/
theorem only_latest_matters {s : Sys} (h : Reachable s) (m : Msg) (f : Nat) :
    (m ∈ s.sentX → process s.y m f ≠ s.y → m.id = s.x.id) ∧ (m ∈ s.sentY → process s.x m f ≠ s.x → m.id = s.y.id) := by
  rcases inv_reachable h with h | h
  · exact ⟨fun hm hne => ahead_only_latest h hm f hne, fun hm hne => absurd (ahead_delivX h hm f) hne⟩
  · exact ⟨fun hm hne => absurd (ahead_delivX h hm f) hne, fun hm hne => ahead_only_latest h hm f hne⟩

/-- **receive_before_send**: whenever an end switches its sealing slot to a new key (process installs with
    `cur := m.id % 4`), the peer already holds that key in the same slot -/
theorem receive_before_send {s : Sys} (h : Reachable s) (m : Msg) (hm : m ∈ s.sentY) :
    let x' := process s.x m s.fresh
    x'.cur ≠ s.x.cur → x'.slots x'.cur = s.y.slots x'.cur := by
  intro x' _
  exact (rotation_sync (Reachable.step h (Step.delivX s m hm))).1

/-- the mirror image for the other end -/
theorem receive_before_send_y {s : Sys} (h : Reachable s) (m : Msg) (hm : m ∈ s.sentX) :
    let y' := process s.y m s.fresh
    y'.cur ≠ s.y.cur → y'.slots y'.cur = s.x.slots y'.cur := by
  intro y' _
  exact (rotation_sync (Reachable.step h (Step.delivY s m hm))).2

/-! ## lock-step progress -/

/-- the strengthened invariant: `Inv` plus "the end that is ahead has sent its latest message" -/
def InvL (s : Sys) : Prop := AheadL s.x s.y s.sentX s.sentY ∨ AheadL s.y s.x s.sentY s.sentX

theorem invL_inv {s : Sys} (h : InvL s) : Inv s := h.imp And.left And.left

theorem invL_init : InvL initSys := by
  left
  refine ⟨?_, ⟨1, 0, none⟩, by simp [initSys], rfl⟩
  rcases inv_init with h | h
  · exact h
  · have := h.idrel; simp [initSys] at this

theorem invL_step {s t : Sys} (h : InvL s) (st : Step s t) : InvL t := by
  cases st with
  | cycleX =>
    rcases h with h | h
    · left; exact (aheadL_cycleX h _).1
    · by_cases hw : Waiting s.x
      · left; exact (aheadL_cycleY_waiting h hw _).1
      · right; exact (aheadL_cycleY_not_waiting h hw _).1
  | cycleY =>
    rcases h with h | h
    · by_cases hw : Waiting s.y
      · right; exact (aheadL_cycleY_waiting h hw _).1
      · left; exact (aheadL_cycleY_not_waiting h hw _).1
    · right; exact (aheadL_cycleX h _).1
  | delivX m hm =>
    rcases h with h | h
    · left; show AheadL (process s.x m s.fresh) s.y s.sentX s.sentY
      rw [ahead_delivX h.1 hm _]; exact h
    · right; exact ⟨ahead_delivY h.1 hm _, h.2⟩
  | delivY m hm =>
    rcases h with h | h
    · left; exact ⟨ahead_delivY h.1 hm _, h.2⟩
    · right; show AheadL (process s.y m s.fresh) s.x s.sentY s.sentX
      rw [ahead_delivX h.1 hm _]; exact h

theorem invL_reachable {s : Sys} (h : Reachable s) : InvL s := by
  induction h with
  | init => exact invL_init
  | step _ st ih => exact invL_step ih st

/-- **latest_sent**: the end that is ahead has sent a message carrying its current id (so the peer can always catch up) -/
theorem latest_sent {s : Sys} (h : Reachable s) :
    (s.x.id = s.y.id + 1 → ∃ m ∈ s.sentX, m.id = s.x.id) ∧ (s.y.id = s.x.id + 1 → ∃ m ∈ s.sentY, m.id = s.y.id) := by
  rcases invL_reachable h with h | h
  · exact ⟨fun _ => h.2, fun e => by have := h.1.idrel; omega⟩
  · exact ⟨fun e => by have := h.1.idrel; omega, fun _ => h.2⟩

/-! ### the schedule as functions on `Sys` (each is one `Step`, resp. a sequence of `Step`s) -/

def cycleXStep (s : Sys) : Sys :=
  { s with x := (cycle s.x s.fresh).1, sentX := addMsg s.sentX (cycle s.x s.fresh).2, fresh := s.fresh + 1 }
def cycleYStep (s : Sys) : Sys :=
  { s with y := (cycle s.y s.fresh).1, sentY := addMsg s.sentY (cycle s.y s.fresh).2, fresh := s.fresh + 1 }
def delivXStep (s : Sys) (m : Msg) : Sys := { s with x := process s.x m s.fresh, fresh := s.fresh + 1 }
def delivYStep (s : Sys) (m : Msg) : Sys := { s with y := process s.y m s.fresh, fresh := s.fresh + 1 }

/-- deliver the messages of `l` to X, one after the other -/
def deliverListX : Sys → List Msg → Sys
  | s, [] => s
  | s, m :: l => deliverListX (delivXStep s m) l
/-- deliver the messages of `l` to Y, one after the other -/
def deliverListY : Sys → List Msg → Sys
  | s, [] => s
  | s, m :: l => deliverListY (delivYStep s m) l

/-- one round with explicit delivery lists -/
def roundWith (l1 l2 : List Msg) (s : Sys) : Sys :=
  deliverListX (cycleYStep (deliverListY (cycleXStep s) l1)) l2

/-- **one round of the loss-free lock-step schedule**: cycle at X; deliver every message X ever sent to Y; cycle at Y;
    deliver every message Y ever sent to X (here: in the order of the lists, newest first). -/
def round (s : Sys) : Sys :=
  let s1 := cycleXStep s
  let s3 := cycleYStep (deliverListY s1 s1.sentX)
  deliverListX s3 s3.sentY

/-- `t` is the result of one round from `s` with the messages delivered **in any order** (and any multiplicity ≥ 1):
    `l1` enumerates exactly the messages X has sent after its cycle, `l2` exactly those Y has sent after its cycle. -/
def IsRound (s t : Sys) : Prop :=
  ∃ l1 l2, (∀ m, m ∈ l1 ↔ m ∈ (cycleXStep s).sentX) ∧
    (∀ m, m ∈ l2 ↔ m ∈ (cycleYStep (deliverListY (cycleXStep s) l1)).sentY) ∧ t = roundWith l1 l2 s

theorem isRound_round (s : Sys) : IsRound s (round s) := ⟨_, _, fun _ => Iff.rfl, fun _ => Iff.rfl, rfl⟩

theorem deliverListX_eq (l : List Msg) : ∀ s : Sys,
    deliverListX s l = { s with x := procList s.x l s.fresh, fresh := s.fresh + l.length } := by
  induction l with
  | nil => intro s; rfl
  | cons a l ih =>
    intro s
    show deliverListX (delivXStep s a) l = _
    rw [ih]
    simp only [delivXStep, procList, List.length_cons]
    congr 1; omega

theorem deliverListY_eq (l : List Msg) : ∀ s : Sys,
    deliverListY s l = { s with y := procList s.y l s.fresh, fresh := s.fresh + l.length } := by
  induction l with
  | nil => intro s; rfl
  | cons a l ih =>
    intro s
    show deliverListY (delivYStep s a) l = _
    rw [ih]
    simp only [delivYStep, procList, List.length_cons]
    congr 1; omega

theorem deliverListX_reachable (l : List Msg) : ∀ {s : Sys}, Reachable s → (∀ m ∈ l, m ∈ s.sentY) →
    Reachable (deliverListX s l) := by
  induction l with
  | nil => intro s h _; exact h
  | cons a l ih =>
    intro s h hl
    exact ih (s := delivXStep s a) (Reachable.step h (Step.delivX s a (hl a List.mem_cons_self)))
      (fun m hm => hl m (List.mem_cons_of_mem _ hm))

theorem deliverListY_reachable (l : List Msg) : ∀ {s : Sys}, Reachable s → (∀ m ∈ l, m ∈ s.sentX) →
    Reachable (deliverListY s l) := by
  induction l with
  | nil => intro s h _; exact h
  | cons a l ih =>
    intro s h hl
    exact ih (s := delivYStep s a) (Reachable.step h (Step.delivY s a (hl a List.mem_cons_self)))
      (fun m hm => hl m (List.mem_cons_of_mem _ hm))

/-- a round is a sequence of `Step`s -/
theorem isRound_reachable {s t : Sys} (h : Reachable s) (r : IsRound s t) : Reachable t := by
  obtain ⟨l1, l2, h1, h2, rfl⟩ := r
  have r1 : Reachable (cycleXStep s) := Reachable.step h (Step.cycleX s)
  have r2 := deliverListY_reachable l1 r1 (fun m hm => (h1 m).1 hm)
  have r3 : Reachable (cycleYStep (deliverListY (cycleXStep s) l1)) := Reachable.step r2 (Step.cycleY _)
  exact deliverListX_reachable l2 r3 (fun m hm => (h2 m).1 hm)

theorem round_reachable {s : Sys} (h : Reachable s) : Reachable (round s) := isRound_reachable h (isRound_round s)

/-- the steady state of the lock-step schedule: Y is ahead (and has sent its latest message), X has received it and
    will advance at its next cycle -/
def Steady (s : Sys) : Prop := AheadL s.y s.x s.sentY s.sentX ∧ Waiting s.x

/-- the core: after one round (from any state satisfying the invariant) the system is in the steady state, no id has
    decreased; and from the steady state both ids have advanced by exactly 2 -/
theorem isRound_spec {s t : Sys} (h : InvL s) (r : IsRound s t) :
    Steady t ∧ s.x.id ≤ t.x.id ∧ s.y.id ≤ t.y.id ∧ (Steady s → t.x.id = s.x.id + 2 ∧ t.y.id = s.y.id + 2) := by
  obtain ⟨l1, l2, h1, h2, rfl⟩ := r
  simp only [roundWith, deliverListX_eq, deliverListY_eq, cycleXStep, cycleYStep] at h1 h2 ⊢
  obtain ⟨a, b, c, d, e⟩ := round_side s.fresh (s.fresh + 1) (s.fresh + 1 + l1.length)
    (s.fresh + 1 + l1.length + 1) h h1 h2
  exact ⟨⟨a, b⟩, c, d, fun hs => e hs.1 hs.2⟩

theorem steady_invL {s : Sys} (h : Steady s) : InvL s := Or.inr h.1

/-- in the steady state one round advances both ids by exactly 2 and moves both ends to another sealing slot -/
theorem steady_isRound {s t : Sys} (h : Steady s) (r : IsRound s t) :
    Steady t ∧ t.x.id = s.x.id + 2 ∧ t.y.id = s.y.id + 2 ∧ t.x.cur ≠ s.x.cur ∧ t.y.cur ≠ s.y.cur := by
  obtain ⟨ht, _, _, hid⟩ := isRound_spec (steady_invL h) r
  obtain ⟨hx, hy⟩ := hid h
  obtain ⟨c1, c2⟩ := steady_cur h.1.1 h.2
  obtain ⟨d1, d2⟩ := steady_cur ht.1.1 ht.2
  have := h.1.1.idrel
  refine ⟨ht, hx, hy, ?_, ?_⟩
  · rw [c1, d1, hy]; split <;> split <;> omega
  · rw [c2, d2, hy]; split <;> split <;> omega

/-- `n` consecutive rounds, each with the messages delivered in any order -/
inductive IsRounds : Nat → Sys → Sys → Prop
  | zero (s : Sys) : IsRounds 0 s s
  | succ {n : Nat} {s t u : Sys} : IsRound s t → IsRounds n t u → IsRounds (n + 1) s u

/-- `n` consecutive rounds as a function -/
def rounds : Nat → Sys → Sys
  | 0, s => s
  | n + 1, s => rounds n (round s)

theorem isRounds_rounds (n : Nat) : ∀ s : Sys, IsRounds n s (rounds n s) := by
  induction n with
  | zero => intro s; exact IsRounds.zero s
  | succ n ih => intro s; exact IsRounds.succ (isRound_round s) (ih (round s))

theorem isRounds_reachable {n : Nat} {s t : Sys} (r : IsRounds n s t) (h : Reachable s) : Reachable t := by
  induction r with
  | zero => exact h
  | succ r1 _ ih => exact ih (isRound_reachable h r1)

theorem rounds_reachable (n : Nat) {s : Sys} (h : Reachable s) : Reachable (rounds n s) :=
  isRounds_reachable (isRounds_rounds n s) h

theorem steady_isRounds {n : Nat} {s t : Sys} (r : IsRounds n s t) (h : Steady s) :
    Steady t ∧ t.x.id = s.x.id + 2 * n ∧ t.y.id = s.y.id + 2 * n := by
  induction r with
  | zero => exact ⟨h, rfl, rfl⟩
  | succ r1 _ ih =>
    obtain ⟨h1, a, b, _, _⟩ := steady_isRound h r1
    obtain ⟨h2, c, d⟩ := ih h1
    exact ⟨h2, by omega, by omega⟩

/-- **lockstep progress, general form** (messages delivered in any order within each round): from every reachable state,
    after `n + 1` rounds the system is in the steady state and both ids have increased by at least `2 * n` — the first
    round may be needed to resynchronise, every further round advances both ends by exactly 2. -/
theorem lockstep_progress {n : Nat} {s t : Sys} (h : Reachable s) (r : IsRounds (n + 1) s t) :
    Steady t ∧ s.x.id + 2 * n ≤ t.x.id ∧ s.y.id + 2 * n ≤ t.y.id := by
  cases r with
  | succ r1 rs =>
    obtain ⟨h1, a, b, _⟩ := isRound_spec (invL_reachable h) r1
    obtain ⟨h2, c, d⟩ := steady_isRounds rs h1
    exact ⟨h2, by omega, by omega⟩

/-- **lockstep_fresh** (strongest form in terms of ids): from every reachable state, after **2** rounds of the loss-free
    lock-step schedule both ends have advanced their id (i.e. each has installed a new key and made a new proposal). -/
theorem lockstep_fresh {s : Sys} (h : Reachable s) :
    (rounds 2 s).x.id > s.x.id ∧ (rounds 2 s).y.id > s.y.id := by
  obtain ⟨_, a, b⟩ := lockstep_progress (n := 1) h (isRounds_rounds 2 s)
  omega

/-- the 4-round form asked for: after 4 rounds both ids have increased (by at least 6) -/
theorem lockstep_fresh_4 {s : Sys} (h : Reachable s) :
    (rounds 4 s).x.id ≥ s.x.id + 6 ∧ (rounds 4 s).y.id ≥ s.y.id + 6 := by
  obtain ⟨_, a, b⟩ := lockstep_progress (n := 3) h (isRounds_rounds 4 s)
  omega

/-- 2 rounds are necessary: one round from the initial state leaves X's id unchanged -/
theorem lockstep_one_round_not_enough : (rounds 1 initSys).x.id = initSys.x.id := by decide

/-! ### the keys themselves are replaced -/

/-- all key material present in the system was drawn before the current value of the fresh-counter -/
structure Bnd (s : Sys) : Prop where
  x : SideOld s.fresh s.x
  y : SideOld s.fresh s.y
  sx : ∀ m ∈ s.sentX, MsgOld s.fresh m
  sy : ∀ m ∈ s.sentY, MsgOld s.fresh m

theorem bnd_init : Bnd initSys := by
  refine ⟨⟨?_, ?_, ?_, ?_⟩, ⟨?_, ?_, ?_, ?_⟩, ?_, ?_⟩
  · intro i; simp only [initSys]; split <;> trivial
  · intro k e h; cases h
  · intro p h; cases h; decide
  · intro c i h; cases h
  · intro i; simp only [initSys]; split <;> trivial
  · intro k e h; cases h
  · intro p h; cases h
  · intro c i h; cases h
  · intro m hm; simp [initSys] at hm; subst hm; exact ⟨by decide, fun c hc => by cases hc⟩
  · intro m hm; cases hm

theorem addMsg_old {n : Nat} {l : List Msg} {o : Option Msg} (hl : ∀ m ∈ l, MsgOld n m) (ho : ∀ m, o = some m → MsgOld n m) :
    ∀ m ∈ addMsg l o, MsgOld n m := by
  cases o with
  | none => exact hl
  | some a =>
    intro m hm
    rcases List.mem_cons.1 hm with rfl | hm
    · exact ho _ rfl
    · exact hl m hm

theorem bnd_step {s t : Sys} (h : Bnd s) (st : Step s t) : Bnd t := by
  have hn := Nat.le_succ s.fresh
  cases st with
  | cycleX =>
    obtain ⟨c1, c2⟩ := cycle_old h.x
    exact ⟨c1, h.y.mono hn, addMsg_old (fun m hm => (h.sx m hm).mono hn) c2, fun m hm => (h.sy m hm).mono hn⟩
  | cycleY =>
    obtain ⟨c1, c2⟩ := cycle_old h.y
    exact ⟨h.x.mono hn, c1, fun m hm => (h.sx m hm).mono hn, addMsg_old (fun m hm => (h.sy m hm).mono hn) c2⟩
  | delivX m hm =>
    exact ⟨process_old h.x (h.sy m hm), h.y.mono hn, fun m hm => (h.sx m hm).mono hn, fun m hm => (h.sy m hm).mono hn⟩
  | delivY m hm =>
    exact ⟨h.x.mono hn, process_old h.y (h.sx m hm), fun m hm => (h.sx m hm).mono hn, fun m hm => (h.sy m hm).mono hn⟩

theorem bnd_reachable {s : Sys} (h : Reachable s) : Bnd s := by
  induction h with
  | init => exact bnd_init
  | step _ st ih => exact bnd_step ih st

theorem isRound_fresh {s t : Sys} (r : IsRound s t) : s.fresh ≤ t.fresh := by
  obtain ⟨l1, l2, _, _, rfl⟩ := r
  simp only [roundWith, deliverListX_eq, deliverListY_eq, cycleXStep, cycleYStep]
  omega

/-- steady state in which X's pending key is new relative to `N` -/
def SteadyK (N : Nat) (s : Sys) : Prop := Steady s ∧ ∃ k e, s.x.pending = some (k, e) ∧ k.New N

/-- key material through one steady-state round: X switches to a key drawn in this round, X's pending key is drawn in
    this round, and Y switches to the key that was X's pending key before the round -/
theorem steady_isRound_keys {s t : Sys} {N : Nat} (h : Steady s) (hN : N ≤ s.fresh) (r : IsRound s t) :
    SteadyK N t ∧ (t.x.slots t.x.cur).New N ∧ (∀ k e, s.x.pending = some (k, e) → t.y.slots t.y.cur = k) := by
  obtain ⟨ht, _⟩ := steady_isRound h r
  obtain ⟨l1, l2, h1, h2, rfl⟩ := r
  obtain ⟨_, ⟨k, e0⟩, hk⟩ := h.2
  simp only [roundWith, deliverListX_eq, deliverListY_eq, cycleXStep, cycleYStep] at h1 h2 ht ⊢
  obtain ⟨a, ⟨e, he, b⟩, ⟨e', he', c⟩⟩ := round_side_keys s.fresh (s.fresh + 1) (s.fresh + 1 + l1.length)
    (s.fresh + 1 + l1.length + 1) h.1 h.2 hk h1 h2
  refine ⟨⟨ht, _, _, c, ⟨e', _, rfl, by omega, by omega⟩⟩, ?_, ?_⟩
  · rw [b]; exact ⟨e, _, rfl, by omega, by omega⟩
  · intro k' e1 hk'; rw [hk] at hk'; cases hk'; exact a

theorem steady_isRounds_keys {n : Nat} : ∀ {s t : Sys} {N : Nat}, IsRounds (n + 1) s t → Steady s → N ≤ s.fresh →
    SteadyK N t ∧ N ≤ t.fresh ∧ (t.x.slots t.x.cur).New N ∧ (SteadyK N s → (t.y.slots t.y.cur).New N) := by
  induction n with
  | zero =>
    intro s t N r h hN
    cases r with
    | succ r1 r0 =>
      cases r0
      obtain ⟨a, b, c⟩ := steady_isRound_keys h hN r1
      refine ⟨a, Nat.le_trans hN (isRound_fresh r1), b, ?_⟩
      rintro ⟨_, k, e, hk, hnew⟩
      rw [c k e hk]; exact hnew
  | succ n ih =>
    intro s t N r h hN
    cases r with
    | succ r1 rs =>
      obtain ⟨a, _, _⟩ := steady_isRound_keys h hN r1
      obtain ⟨b1, b2, b3, b4⟩ := ih rs a.1 (Nat.le_trans hN (isRound_fresh r1))
      exact ⟨b1, b2, b3, fun _ => b4 a⟩

/-- **lockstep_fresh_keys (general form)**: from every reachable state `s`, after `n + 3` rounds of the lock-step schedule
    (messages delivered in any order within each round) the current sealing key of either end is the shared secret of two
    ephemeral key pairs that were both drawn after `s` — the keys themselves keep being replaced, for ever. -/
theorem lockstep_new_keys {n : Nat} {s t : Sys} (h : Reachable s) (r : IsRounds (n + 3) s t) :
    (t.x.slots t.x.cur).New s.fresh ∧ (t.y.slots t.y.cur).New s.fresh := by
  cases r with
  | succ r1 r' =>
    cases r' with
    | succ r2 rs =>
      obtain ⟨h1, _⟩ := isRound_spec (invL_reachable h) r1
      have f1 := isRound_fresh r1
      obtain ⟨h2, _, _⟩ := steady_isRound_keys h1 f1 r2
      obtain ⟨_, _, b3, b4⟩ := steady_isRounds_keys rs h2.1 (Nat.le_trans f1 (isRound_fresh r2))
      exact ⟨b3, b4 h2⟩

/-- **lockstep_fresh_keys**: from every reachable state `s`, after 3 (or more) rounds of the loss-free lock-step schedule the
    current sealing key of either end differs from every key that either end held in any slot in `s`. -/
theorem lockstep_fresh_keys {s : Sys} (h : Reachable s) (n : Nat) (i : Nat) :
    let t := rounds (n + 3) s
    t.x.slots t.x.cur ≠ s.x.slots i ∧ t.x.slots t.x.cur ≠ s.y.slots i ∧
    t.y.slots t.y.cur ≠ s.x.slots i ∧ t.y.slots t.y.cur ≠ s.y.slots i := by
  intro t
  obtain ⟨a, b⟩ := lockstep_new_keys h (isRounds_rounds (n + 3) s)
  have hb := bnd_reachable h
  exact ⟨a.ne_old (hb.x.slots i), a.ne_old (hb.y.slots i), b.ne_old (hb.x.slots i), b.ne_old (hb.y.slots i)⟩

end VpnCloud.Rot
