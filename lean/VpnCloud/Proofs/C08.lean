import VpnCloud.Model.Node
import VpnCloud.Proofs.Lemmas.NodeLemmas
/-
  C08 — unauthenticated datagrams: a handshake datagram that `read_from` rejects under the node's trusted
  keys, and a non-handshake datagram from an unknown address, are dropped without panic, output or change
  of peers / pending handshakes / routes.  Both statements are proved as given (no hypothesis added).
-/
namespace VpnCloud.Proofs.C08

open VpnCloud VpnCloud.Node
open VpnCloud.Proofs.NodeLemmas

/-- a node state is *regular* if every session it holds verifies handshake messages against the node's trusted keys -/
def Regular (n : Node) : Prop :=
  (∀ a p, (a, p) ∈ n.peers → ∀ i, p.crypto.init = some i → i.trusted = n.cfg.trusted) ∧
  (∀ a pc, (a, pc) ∈ n.pending → ∀ i, pc.init = some i → i.trusted = n.cfg.trusted)

/-- the outcome of the session layer for a rejected handshake datagram, applied to a stored session: nothing but counters changes -/
private theorem applyOutcome_reject (env : CryptoEnv) (bodyOf : Init.BodyOf) (o : Oracle) (n : Node) (now : Int) (src : NAddr)
    (rest tail : Bytes) (e : InitErr) (rnd : Rand) (rr : RotRand) (inPeers : Bool) (pc : PeerCrypto)
    (htr : ∀ i, pc.init = some i → i.trusted = n.cfg.trusted)
    (hin : if inPeers = true then (lookupA n.peers src).isSome = true else (lookupA n.pending src).isSome = true)
    (hne : rest ≠ []) (h : InitMsg.readFrom env rest n.cfg.trusted = .error e) :
    let r := applyOutcome env o { node := n } now src inPeers
      (PeerCrypto.handleMessage env bodyOf payloadOk pc (Generated.INIT_MESSAGE_FIRST_BYTE :: rest) tail rnd rr)
    Quiet n (finish src r).1 := by
  obtain ⟨pc', e', hm, hnf⟩ := handleMessage_reject env bodyOf payloadOk pc n.cfg.trusted rest tail rnd rr e htr hne h
  intro r
  have hr : r = applyOutcome env o { node := n } now src inPeers (.err pc' e') := by
    show applyOutcome _ _ _ _ _ _ _ = _
    rw [hm]
  obtain ⟨h2, hq⟩ := applyOutcome_err_quiet env o n now src inPeers pc' e' hin
  rw [← hr] at h2 hq
  have : finish src r = r := by
    rcases r with ⟨c, e2⟩
    apply finish_of_not_fatal
    simp only at h2
    rw [h2]
    intro h3
    exact hnf (Option.some.inj h3)
  rw [this]
  exact hq

private theorem responder_reject (env : CryptoEnv) (bodyOf : Init.BodyOf) (o : Oracle) (n : Node) (now : Int) (src : NAddr)
    (rest tail : Bytes) (e : InitErr) (rnd : Rand) (rr : RotRand) (hash : Option Bytes)
    (hne : rest ≠ []) (h : InitMsg.readFrom env rest n.cfg.trusted = .error e) :
    Quiet n (finish src (responder env bodyOf o n now src (Generated.INIT_MESSAGE_FIRST_BYTE :: rest) tail rnd rr hash)).1 := by
  obtain ⟨pc', e', hm, hnf⟩ := handleMessage_reject env bodyOf payloadOk (newAttempt n (hash.getD [])) n.cfg.trusted rest tail rnd rr e
    (by intro i hi; simp only [newAttempt] at hi; cases hi; rfl) hne h
  unfold responder
  simp only [hm]
  rw [finish_of_not_fatal _ _ _ (by intro h3; exact hnf (Option.some.inj h3))]
  exact ⟨rfl, rfl, rfl, rfl, rfl, rfl⟩

/-- **unauth_no_panic** (handshake datagrams): a datagram with the handshake marker whose content `read_from` rejects under the node's trusted keys is dropped:
    no panic, nothing sent, nothing written to the interface, peers / pending handshakes / routes unchanged -/
theorem node_reject_pure (env : CryptoEnv) (bodyOf : Init.BodyOf) (o : Oracle) (n : Node) (now : Int) (src : NAddr) (rest tail : Bytes) (e : InitErr)
    (hreg : Regular n) (hne : rest ≠ []) (h : InitMsg.readFrom env rest n.cfg.trusted = .error e) :
    let r := handleNet env bodyOf o n now src (Generated.INIT_MESSAGE_FIRST_BYTE :: rest) tail
    r.1.panicked = false ∧ r.1.outs = [] ∧ r.1.node.table = n.table ∧
    r.1.node.peers.map (·.1) = n.peers.map (·.1) ∧ r.1.node.pending.map (·.1) = n.pending.map (·.1) ∧ r.1.node.own = n.own := by
  show Quiet n (handleNet env bodyOf o n now src (Generated.INIT_MESSAGE_FIRST_BYTE :: rest) tail).1
  rw [handleNet_eq]
  unfold dispatch
  simp only [List.head?_cons, if_true]
  cases hp : lookupA n.peers (mappedAddr src) with
  | some p =>
    have hpm := lookupA_some_mem hp
    cases hq : lookupA n.pending (mappedAddr src) with
    | some pc =>
      simp only []
      exact applyOutcome_reject env bodyOf o n now _ rest tail e _ _ false pc (hreg.2 _ _ (lookupA_some_mem hq))
        (by simp [hq]) hne h
    | none =>
      simp only []
      by_cases hc : p.crypto.init.isSome = true
      · rw [if_pos hc]
        exact applyOutcome_reject env bodyOf o n now _ rest tail e _ _ true p.crypto (hreg.1 _ _ hpm)
          (by simp [hp]) hne h
      · rw [if_neg hc]
        exact responder_reject env bodyOf o n now _ rest tail e _ _ _ hne h
  | none =>
    cases hq : lookupA n.pending (mappedAddr src) with
    | some pc =>
      simp only []
      exact applyOutcome_reject env bodyOf o n now _ rest tail e _ _ false pc (hreg.2 _ _ (lookupA_some_mem hq))
        (by simp [hq]) hne h
    | none =>
      simp only []
      exact responder_reject env bodyOf o n now _ rest tail e _ _ _ hne h

/-- a datagram without the handshake marker from an address that is neither a peer nor has a handshake pending is ignored -/
theorem unknown_sender_ignored (env : CryptoEnv) (bodyOf : Init.BodyOf) (o : Oracle) (n : Node) (now : Int) (src : NAddr) (data tail : Bytes)
    (hinit : data.head? ≠ some Generated.INIT_MESSAGE_FIRST_BYTE)
    (hp : lookupA n.peers (mappedAddr src) = none) (hq : lookupA n.pending (mappedAddr src) = none) :
    let r := handleNet env bodyOf o n now src data tail
    r.1.panicked = false ∧ r.1.outs = [] ∧ r.1.node = { n with droppedIn := n.droppedIn + 1 } := by
  rw [handleNet_eq]
  unfold dispatch
  simp only [hp, hq, hinit, if_false]
  rw [finish_of_not_fatal _ _ _ (by simp)]
  exact ⟨rfl, rfl, rfl⟩

/-! ## non-vacuity: the hypotheses are satisfiable (toy cryptography of `InitLemmas.Toy`) -/
section NonVacuity
open VpnCloud.Proofs.InitLemmas

private def s : NAddr := .v6 (List.replicate 16 0) 1
/-- a node with one established peer whose session still holds a handshake object, and one pending handshake -/
private def n : Node :=
  { nodeId := List.replicate 16 9, addr := .v6 (List.replicate 16 0) 3,
    cfg := { tap := false, learning := false, broadcast := false, peerTimeout := 300, peerTimeoutPublish := 300, updateFreq := 10,
             claims := [], key := [7, 7, 7, 7], trusted := [[9, 9, 9, 9]], algos := Toy.algos },
    peers := [(s, { addrs := [], timeout := 0, peerTimeout := 300, nodeId := List.replicate 16 1, crypto := { init := some Toy.st } })],
    pending := [(.v6 (List.replicate 16 0) 2, { init := some Toy.st })],
    table := { cacheTimeout := 300, claimTimeout := 300 } }

example : Regular n := by
  constructor
  · intro a p hm i hi
    simp only [n, List.mem_singleton, Prod.mk.injEq] at hm
    obtain ⟨_, rfl⟩ := hm
    cases hi; rfl
  · intro a pc hm i hi
    simp only [n, List.mem_singleton, Prod.mk.injEq] at hm
    obtain ⟨_, rfl⟩ := hm
    cases hi; rfl

/-- a pong with an altered signed byte is rejected under the node's trusted keys -/
example : InitMsg.readFrom Toy.env ((Toy.pong Toy.algos 0).set 1 7) n.cfg.trusted = .error .crypto := by decide

end NonVacuity

end VpnCloud.Proofs.C08
