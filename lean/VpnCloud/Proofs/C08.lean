import VpnCloud.Model.Node
namespace VpnCloud.Proofs.C08
end VpnCloud.Proofs.C08
