import VpnCloud.Proofs.Lemmas.C04SessionLemmas
import VpnCloud.Proofs.Lemmas.C04SessionRecvLemmas
/-
  C04 "no (key, nonce) pair is ever used twice" and C03 "replay window", lifted from one key /
  one slot (`Proofs/C04.lean`, `Proofs/C03.lean`) to whole sessions of a `CryptoCore` with key
  rotation: traces of seal / tick / rotate / open operations (`SOp`, `run` in
  `Lemmas/C04SessionLemmas.lean`).
-/
namespace VpnCloud.Proofs.C04Session

open VpnCloud VpnCloud.Spec.C04 VpnCloud.Spec.C03
open VpnCloud.Proofs.CoreLemmas

/-! ## 1. sender traces: no (key, nonce) pair twice -/

/-- the sender invariant holds at the end of every session trace that meets the hypotheses of
    `session_seal_log_nodup` -/
theorem session_sinv (key : KeyRef) (half : Bool) (dummy : KeyRef) (starts : List Nat) (ops : List SOp)
    (hfresh : Fresh [key, dummy] ops)
    (hstarts : (∀ s ∈ starts, s < 2 ^ 48) ∧ StartsOK ops)
    (hcount : ∀ K, sealsUnder K (run (Core.new key half dummy starts) ops).2 < 2 ^ 95 - 2 ^ 48) :
    SInv half ([key, dummy] ++ rotatedKeys ops) (run (Core.new key half dummy starts) ops).1
      (run (Core.new key half dummy starts) ops).2 := by
  have := sinv_run (half := half) ops [key, dummy] (Core.new key half dummy starts) []
    (sinv_new key half dummy starts hstarts.1) hfresh hstarts.2 (by rw [List.nil_append]; exact hcount)
  rwa [List.nil_append] at this

/-- **session_seal_log_nodup**: over the whole life of a connection — any interleaving of sealing,
    housekeeping ticks, key rotations and received datagrams — a node never seals two datagrams under
    the same (key, nonce) pair, provided (a) `Fresh`: every rotated-in key is new (differs from the
    handshake key, the dummy key and all keys rotated in earlier; hypothesis I3), and (b) fewer than
    `2^95 - 2^48` datagrams are sealed per key and all random start values are 48-bit values. -/
theorem session_seal_log_nodup (key : KeyRef) (half : Bool) (dummy : KeyRef) (starts : List Nat) (ops : List SOp)
    (hfresh : Fresh [key, dummy] ops)
    (hstarts : (∀ s ∈ starts, s < 2 ^ 48) ∧ StartsOK ops)
    (hcount : ∀ K, sealsUnder K (run (Core.new key half dummy starts) ops).2 < 2 ^ 95 - 2 ^ 48) :
    ((run (Core.new key half dummy starts) ops).2.map sealedWith).Nodup :=
  nodup_of_sinv (session_sinv key half dummy starts ops hfresh hstarts hcount)

/-- example trace: seal, receive, tick, two rotations (one not yet used for sending), more seals -/
def exOps : List SOp :=
  [.seal [1], .open { hdr := [0, 0, 0, 0, 0, 0, 0, 9], body := .sealed 7 9 [4] }, .tick, .rotate 9 1 true 3,
   .seal [2], .rotate 10 2 false 4, .seal [3]]

/-- non-vacuity of `session_seal_log_nodup`: the hypotheses hold of `exOps`, which emits under two keys -/
example : Fresh [7, 8] exOps ∧ ((∀ s ∈ [5, 6, 7, 8], s < 2 ^ 48) ∧ StartsOK exOps) ∧
    (run (Core.new 7 true 8 [5, 6, 7, 8]) exOps).2.map sealedWith =
      [some (7, HALF + 6), some (9, HALF + 4), some (9, HALF + 5)] := by
  decide

example : ∀ K, sealsUnder K (run (Core.new 7 true 8 [5, 6, 7, 8]) exOps).2 < 2 ^ 95 - 2 ^ 48 :=
  fun K => Nat.lt_of_le_of_lt (sealsUnder_le_length K _) (by decide)

/-- hypothesis (a) is necessary: a key rotated in a second time (here with the same random start
    value) repeats a (key, nonce) pair although (b) holds; likewise rotating the handshake key in again -/
example :
    (¬ Fresh [7, 8] [.rotate 9 1 true 3, .seal [1], .rotate 9 2 true 3, .seal [1]] ∧
      StartsOK [.rotate 9 1 true 3, .seal [1], .rotate 9 2 true 3, .seal [1]] ∧
      ¬ ((run (Core.new 7 true 8 [5, 6, 7, 8]) [.rotate 9 1 true 3, .seal [1], .rotate 9 2 true 3, .seal [1]]).2.map
          sealedWith).Nodup) ∧
    (¬ Fresh [7, 8] [.seal [1], .rotate 7 1 true 5, .seal [1]] ∧
      ¬ ((run (Core.new 7 true 8 [5, 6, 7, 8]) [.seal [1], .rotate 7 1 true 5, .seal [1]]).2.map sealedWith).Nodup) := by
  decide

/-! ## 2. the two ends of a connection -/

/-- **session_halves_disjoint**: the two ends of one handshake (same key, opposite halves) never
    emit two datagrams with the same (key, nonce) pair between them, whatever each of them does and
    whenever each of them rotates: the joint log has no duplicates.  Each side rotates in fresh keys
    (I3) — in particular both may rotate in the same keys in the same order at different times, the
    theorem does not need to know — and stays below `2^95 - 2^48` seals per key with 48-bit starts. -/
theorem session_halves_disjoint (key dA dB : KeyRef) (startsA startsB : List Nat) (opsA opsB : List SOp)
    (hfA : Fresh [key, dA] opsA) (hfB : Fresh [key, dB] opsB)
    (hsA : (∀ s ∈ startsA, s < 2 ^ 48) ∧ StartsOK opsA) (hsB : (∀ s ∈ startsB, s < 2 ^ 48) ∧ StartsOK opsB)
    (hcA : ∀ K, sealsUnder K (run (Core.new key true dA startsA) opsA).2 < 2 ^ 95 - 2 ^ 48)
    (hcB : ∀ K, sealsUnder K (run (Core.new key false dB startsB) opsB).2 < 2 ^ 95 - 2 ^ 48) :
    (((run (Core.new key true dA startsA) opsA).2 ++ (run (Core.new key false dB startsB) opsB).2).map
      sealedWith).Nodup := by
  have iA := session_sinv key true dA startsA opsA hfA hsA hcA
  have iB := session_sinv key false dB startsB opsB hfB hsB hcB
  rw [List.map_append, List.nodup_append]
  refine ⟨nodup_of_sinv iA, nodup_of_sinv iB, ?_⟩
  intro a ha b hb heq
  obtain ⟨da, hda, rfl⟩ := List.mem_map.1 ha
  obtain ⟨db, hdb, rfl⟩ := List.mem_map.1 hb
  obtain ⟨_, K1, s1, m1, _, _, hs1, hm1, rfl⟩ := iA.form da hda
  obtain ⟨_, K2, s2, m2, _, _, hs2, hm2, rfl⟩ := iB.form db hdb
  simp only [sealedWith, Option.some.injEq, Prod.mk.injEq] at heq
  exact C04.halves_disjoint K1 s1 s2 m1 m2 hs1 hs2 hm1 hm2 heq.2

/-- non-vacuity: both ends rotate in keys 9 and 10, in this order, at different times -/
def exOpsB : List SOp := [.seal [1], .seal [2], .rotate 9 1 false 3, .tick, .seal [5], .rotate 10 2 true 4, .seal [3]]

example : Fresh [7, 8] exOps ∧ Fresh [7, 11] exOpsB ∧ rotatedKeys exOps = rotatedKeys exOpsB ∧
    ((∀ s ∈ [5, 6, 7, 8], s < 2 ^ 48) ∧ StartsOK exOps) ∧ ((∀ s ∈ [5, 1, 2, 3], s < 2 ^ 48) ∧ StartsOK exOpsB) ∧
    (run (Core.new 7 false 11 [5, 1, 2, 3]) exOpsB).2.map sealedWith =
      [some (7, 6), some (7, 7), some (7, 8), some (10, 5)] := by
  decide

example : ∀ K, sealsUnder K (run (Core.new 7 false 11 [5, 1, 2, 3]) exOpsB).2 < 2 ^ 95 - 2 ^ 48 :=
  fun K => Nat.lt_of_le_of_lt (sealsUnder_le_length K _) (by decide)

/-- the bound on the start values is necessary: a "start" of `2^95 + 5` on the lower-half side lands on
    the nonce of the upper-half side -/
example :
    ¬ (((run (Core.new 7 true 8 [5]) [.seal [1]]).2 ++ (run (Core.new 7 false 8 [2 ^ 95 + 5]) [.seal [1]]).2).map
        sealedWith).Nodup := by
  decide

/-! ## 3. the counter never wraps -/

/-- receiving does not disturb the send side: opening any datagram (accepted or not) leaves the
    current slot, and the key and send counter of every slot, as they were -/
theorem open_keeps_send (c : Core) (d : Dgram) :
    (c.decrypt d).1.cur = c.cur ∧ (c.decrypt d).1.slots.length = c.slots.length ∧
    ∀ (j : Nat) (k' : SlotKey), (c.decrypt d).1.slots[j]? = some k' →
      ∃ k : SlotKey, c.slots[j]? = some k ∧ k'.key = k.key ∧ k'.send = k.send :=
  ⟨(sendEq_open c d).cur, (sendEq_open c d).len, (sendEq_open c d).slot⟩

/-- **send_monotone_between_rotations**: between two rotations of a slot (no operation of the trace
    installs a key in slot `j`) the slot keeps its key and its send counter only grows — by at most
    one per seal — whatever else happens (ticks, received datagrams, rotations of other slots), as
    long as the 96-bit counter itself does not overflow. -/
theorem send_monotone_between_rotations (c : Core) (ops : List SOp) (j : Nat) (k : SlotKey)
    (hk : c.slots[j]? = some k)
    (hnorot : ∀ K id use start, SOp.rotate K id use start ∈ ops → id % 4 ≠ j)
    (hnowrap : k.send + numSeals ops < NONCE_MOD) :
    ∃ k', (run c ops).1.slots[j]? = some k' ∧ k'.key = k.key ∧ k.send ≤ k'.send ∧
      k'.send ≤ k.send + numSeals ops := by
  induction ops generalizing c k with
  | nil => exact ⟨k, hk, rfl, Nat.le_refl _, Nat.le_refl _⟩
  | cons op ops ih =>
    rw [numSeals_cons] at hnowrap ⊢
    obtain ⟨k1, hk1, hkey1, hlo1, hhi1⟩ := step_send_mono c op j k hk
      (fun K id use start h => hnorot K id use start (by rw [h]; exact List.mem_cons_self)) (by omega)
    obtain ⟨k2, hk2, hkey2, hlo2, hhi2⟩ := ih (step c op).1 k1 hk1
      (fun K id use start h => hnorot K id use start (List.mem_cons_of_mem _ h)) (by omega)
    exact ⟨k2, by rw [run_cons]; exact hk2, by rw [hkey2, hkey1], by omega, by omega⟩

/-- non-vacuity: slot 0 of the example trace is never rotated; two of the three seals go through it -/
example : (∀ K id use start, SOp.rotate K id use start ∈ exOps → id % 4 ≠ 0) ∧
    (Core.new 7 true 8 [5, 6, 7, 8]).slots[0]? = some (SlotKey.new 7 true 5) ∧
    ((run (Core.new 7 true 8 [5, 6, 7, 8]) exOps).1.slots[0]?).map SlotKey.send = some (HALF + 6) ∧
    (SlotKey.new 7 true 5).send + numSeals exOps < NONCE_MOD := by
  refine ⟨?_, by decide, by decide, by decide⟩
  intro K id use start h
  simp only [exOps, List.mem_cons, reduceCtorEq, SOp.rotate.injEq, List.not_mem_nil, or_false, false_or] at h
  rcases h with ⟨_, rfl, _, _⟩ | ⟨_, rfl, _, _⟩ <;> decide

/-- **counter_never_wraps**: along every session trace (hypotheses of `session_seal_log_nodup`)
    (1) the nonces used under one key strictly increase in emission order, (2) every nonce stays inside
    the sender's own half of the nonce space — the 96-bit counter never wraps —, and (3) once the counter
    of a key no longer fits the 56 transmitted bits, that datagram and every later datagram under that
    key is rejected by the peer (any core of the opposite half, in any state): the 56-bit wire counter
    cannot wrap onto values that were used before. -/
theorem counter_never_wraps (key : KeyRef) (half : Bool) (dummy : KeyRef) (starts : List Nat) (ops : List SOp)
    (hfresh : Fresh [key, dummy] ops)
    (hstarts : (∀ s ∈ starts, s < 2 ^ 48) ∧ StartsOK ops)
    (hcount : ∀ K, sealsUnder K (run (Core.new key half dummy starts) ops).2 < 2 ^ 95 - 2 ^ 48) :
    Increasing (run (Core.new key half dummy starts) ops).2 ∧
    (∀ d ∈ (run (Core.new key half dummy starts) ops).2,
      ∃ K n, sealedWith d = some (K, n) ∧ base half < n ∧ n < base half + 2 ^ 95) ∧
    (∀ pre d1 post, (run (Core.new key half dummy starts) ops).2 = pre ++ d1 :: post →
      ∀ K n1, sealedWith d1 = some (K, n1) → base half + 2 ^ 56 ≤ n1 →
      ∀ d2 ∈ d1 :: post, keyOf d2 = some K →
      ∀ r : Core, r.half = !half → ∃ e, (r.decrypt d2).2 = .error e) := by
  have inv := session_sinv key half dummy starts ops hfresh hstarts hcount
  refine ⟨inv.incr, ?_, ?_⟩
  · intro d hd
    obtain ⟨kid, K, s, m, p, _, hs, hm, rfl⟩ := inv.form d hd
    refine ⟨K, _, rfl, ?_⟩
    have := C04.stays_in_half K half s m hs hm
    simp only [SlotKey.new] at this
    exact this
  · intro pre d1 post hlog K n1 hd1 hbig d2 hd2 hkey r hr
    have hd2mem : d2 ∈ (run (Core.new key half dummy starts) ops).2 := by
      rw [hlog]; exact List.mem_append_right _ hd2
    obtain ⟨kid, K2, s, m, p, _, hs, hm, rfl⟩ := inv.form d2 hd2mem
    simp only [keyOf, sealedWith, Option.map_some, Option.some.injEq] at hkey
    subst hkey
    -- the nonce of `d2` is at least that of `d1`
    have hge : n1 ≤ base half + s + 1 + m := by
      rcases List.mem_cons.1 hd2 with heq | hpost
      · rw [← heq] at hd1
        simp only [sealedWith, Option.some.injEq, Prod.mk.injEq, true_and] at hd1
        omega
      · have hinc := inv.incr
        unfold Increasing at hinc
        rw [hlog, List.pairwise_append] at hinc
        have := (List.pairwise_cons.1 hinc.2.1).1 _ hpost K2 n1 _ hd1 rfl
        omega
    have hm' := hm
    rw [limit_eq] at hm'
    rw [pow48] at hs
    rw [pow56] at hbig
    have hr' : (!r.half) = half := by rw [hr, Bool.not_not]
    refine C04.beyond_56_bits_rejected r K2 (base half + s + 1 + m) (s + 1 + m) p kid ?_ ?_ ?_
    · rw [hr']; omega
    · rw [pow56]; omega
    · rw [pow95]; omega

/-- non-vacuity of (1), (2): the example trace meets the hypotheses -/
example : Increasing (run (Core.new 7 true 8 [5, 6, 7, 8]) exOps).2 :=
  (counter_never_wraps 7 true 8 [5, 6, 7, 8] exOps (by decide) (by decide)
    (fun K => Nat.lt_of_le_of_lt (sealsUnder_le_length K _) (by decide))).1

/-- non-vacuity of (3): the trace of `2^56` seals from a new core meets all hypotheses of
    `counter_never_wraps` (`2^56` is far below the limit of `2^95 - 2^48` seals per key) and its last
    datagram carries a counter that no longer fits 56 bits -/
example : ∃ ops : List SOp,
    Fresh [7, 8] ops ∧ ((∀ s ∈ [5], s < 2 ^ 48) ∧ StartsOK ops) ∧
    (∀ K, sealsUnder K (run (Core.new 7 true 8 [5]) ops).2 < 2 ^ 95 - 2 ^ 48) ∧
    ∃ d ∈ (run (Core.new 7 true 8 [5]) ops).2, ∃ K n, sealedWith d = some (K, n) ∧ base true + 2 ^ 56 ≤ n := by
  obtain ⟨h1, h2, h3, d, hd, hsw⟩ := seals_only 7 true 8 5 (2 ^ 56) (by decide) (by decide) (by decide)
  exact ⟨_, h1, ⟨by decide, h2⟩, h3, d, hd, 7, _, hsw, by omega⟩

/-! ## 4. receiver traces with rotation (C03 for the whole core) -/

/-- the slots of a new core -/
theorem new_slot (key : KeyRef) (half : Bool) (dummy : KeyRef) (starts : List Nat) (i : Nat) (hi : i < 4) :
    (Core.new key half dummy starts).slots[i]? =
      some (SlotKey.new (if i = 0 then key else dummy) half (starts.getD i 0)) := by
  match i, hi with
  | 0, _ => rfl
  | 1, _ => rfl
  | 2, _ => rfl
  | 3, _ => rfl

/-- **session_window_refines**: `C03.window_refines` for the whole core and whole sessions.  After any
    trace of seals, ticks, rotations and received datagrams (arbitrary ones: genuine, replayed, forged),
    each of the four slots holds the key that was rotated into it last (the handshake / dummy key if
    none was) and its window floor is the `threshold` of the slot's own history since that key was
    installed.  Hypothesis `DeliveredWF`: received datagrams consist of bytes (header elements `< 256`);
    without it the statement is false of the model, see the counterexample below. -/
theorem session_window_refines (key : KeyRef) (half : Bool) (dummy : KeyRef) (starts : List Nat) (ops : List SOp)
    (hwf : DeliveredWF ops) (i : Nat) (hi : i < 4) :
    ∃ k, (run (Core.new key half dummy starts) ops).1.slots[i]? = some k ∧
      k.key = slotKeyAfter i (if i = 0 then key else dummy) ops ∧
      k.min = threshold (slotHist i (Core.new key half dummy starts) [] ops) := by
  obtain ⟨k, hk, w, hkey⟩ := win_run i hi ops (Core.new key half dummy starts) [] _ rfl
    (new_slot key half dummy starts i hi) (w_new _ _ _) hwf
  exact ⟨k, hk, hkey, w.1⟩

/-- **session_history_admissible**: the link to the one-slot theory.  The history of each slot of a
    session is an admissible history in the sense of `Spec/C03Slot.lean` (every recorded accept passed
    the window test of its time), so `C03.window_refines` applies slot by slot: the floor of the slot is
    the floor `slotRun` computes from a fresh slot over the slot's own history. -/
theorem session_history_admissible (key : KeyRef) (half : Bool) (dummy : KeyRef) (starts : List Nat) (ops : List SOp)
    (hwf : DeliveredWF ops) (i : Nat) (hi : i < 4) (K : KeyRef) (start : Nat) :
    Admissible (SlotKey.new K half start) (slotHist i (Core.new key half dummy starts) [] ops) ∧
    ∃ k, (run (Core.new key half dummy starts) ops).1.slots[i]? = some k ∧
      k.min = (slotRun (SlotKey.new K half start) (slotHist i (Core.new key half dummy starts) [] ops)).min := by
  have a := adm_run i hi K half start ops (Core.new key half dummy starts) [] _ rfl
    (new_slot key half dummy starts i hi) (w_new _ _ _) trivial hwf
  obtain ⟨k, hk, _, hmin⟩ := session_window_refines key half dummy starts ops hwf i hi
  exact ⟨a, k, hk, by rw [hmin, C03.window_refines K half start _ a]⟩

/-- **session_accept_iff**: the decision of the receiver as a function of the trace alone.  A
    well-formed datagram with key id `i` whose body is a seal of `p` under key `K` and nonce `n` is
    accepted iff `K` is the key slot `i` currently holds (the one installed there last), the
    transmitted counter is the nonce's (`n` = other half's base + counter), and `n` is at least the
    `threshold` of the history of slot `i` since that key was installed. -/
theorem session_accept_iff (key : KeyRef) (half : Bool) (dummy : KeyRef) (starts : List Nat) (ops : List SOp)
    (hwf : DeliveredWF ops) (d : Dgram) (K : KeyRef) (n : Nat) (p : Bytes)
    (hlen : d.len ≥ 24) (hid : d.keyId < 4) (hb : d.body = .sealed K n p) :
    ((run (Core.new key half dummy starts) ops).1.decrypt d).2 = .ok p ↔
      slotKeyAfter d.keyId (if d.keyId = 0 then key else dummy) ops = K ∧
      n = base (!half) + d.counter ∧
      threshold (slotHist d.keyId (Core.new key half dummy starts) [] ops) ≤ n := by
  obtain ⟨k, hk, hkey, hmin⟩ := session_window_refines key half dummy starts ops hwf d.keyId hid
  have hrec : (run (Core.new key half dummy starts) ops).1.reconstruct d.counter = base (!half) + d.counter := by
    rw [C04.reconstruct_eq, run_half]; rfl
  rw [← hkey, ← hmin, ← hrec]
  constructor
  · intro hacc
    rcases decrypt_cases (run (Core.new key half dummy starts) ops).1 d with ⟨e, he⟩ | ⟨k0, p', _, _, hk0, hmin0, hb0, _⟩
    · rw [he] at hacc; cases hacc
    · rw [hk] at hk0
      cases hk0
      rw [hb] at hb0
      simp only [Body.sealed.injEq] at hb0
      exact ⟨hb0.1.symm, hb0.2.1, by rw [hb0.2.1]; exact hmin0⟩
  · rintro ⟨h1, h2, h3⟩
    exact ((C03.decrypt_authentic _ d k p hlen hid hk (by rw [hb, h1, h2])).1 (by rw [← h2]; exact h3)).1

/-- a receiver trace: two datagrams accepted out of order in slot 0, ticks, a rotation into slot 1 and a
    datagram under the new key -/
def exRecv : List SOp :=
  [.open { hdr := [0, 0, 0, 0, 0, 0, 0, 9], body := .sealed 7 9 [4] },
   .open { hdr := [0, 0, 0, 0, 0, 0, 0, 6], body := .sealed 7 6 [4] }, .tick,
   .rotate 9 5 false 3, .open { hdr := [1, 0, 0, 0, 0, 0, 0, 2], body := .sealed 9 2 [4] }, .tick]

/-- non-vacuity: the histories of slots 0 and 1 of `exRecv`, and the resulting verdicts -/
example : DeliveredWF exRecv ∧
    slotHist 0 (Core.new 7 true 8 [5, 6, 7, 8]) [] exRecv = [.accept 9, .accept 6, .tick, .tick] ∧
    slotHist 1 (Core.new 7 true 8 [5, 6, 7, 8]) [] exRecv = [.accept 2, .tick] ∧
    slotKeyAfter 1 8 exRecv = 9 ∧
    threshold [.accept 9, .accept 6, .tick, .tick] = 10 ∧
    ((run (Core.new 7 true 8 [5, 6, 7, 8]) exRecv).1.decrypt
      { hdr := [0, 0, 0, 0, 0, 0, 0, 9], body := .sealed 7 9 [4] }).2 = .error .oldNonce ∧
    ((run (Core.new 7 true 8 [5, 6, 7, 8]) exRecv).1.decrypt
      { hdr := [0, 0, 0, 0, 0, 0, 0, 10], body := .sealed 7 10 [4] }).2 = .ok [4] ∧
    ((run (Core.new 7 true 8 [5, 6, 7, 8]) exRecv).1.decrypt
      { hdr := [1, 0, 0, 0, 0, 0, 0, 1], body := .sealed 9 1 [4] }).2 = .ok [4] := by
  decide

/-- `DeliveredWF` is necessary: a "datagram" whose counter field holds the non-byte `2^96 - 1` drives
    `seen + 1` to `2^96`, which wraps to 0; two ticks later the model's floor is 0 while the threshold of
    the history is `2^96` -/
example :
    ¬ DeliveredWF [.open { hdr := [0, 0, 0, 0, 0, 0, 0, 2 ^ 96 - 1], body := .sealed 7 (2 ^ 96 - 1) [4] }, .tick, .tick] ∧
    ((run (Core.new 7 true 8 [5, 6, 7, 8])
        [.open { hdr := [0, 0, 0, 0, 0, 0, 0, 2 ^ 96 - 1], body := .sealed 7 (2 ^ 96 - 1) [4] }, .tick, .tick]).1.slots[0]?).map SlotKey.min
      = some 0 ∧
    threshold (slotHist 0 (Core.new 7 true 8 [5, 6, 7, 8]) []
        [.open { hdr := [0, 0, 0, 0, 0, 0, 0, 2 ^ 96 - 1], body := .sealed 7 (2 ^ 96 - 1) [4] }, .tick, .tick]) = 2 ^ 96 := by
  decide

/-- **per_slot_independent**: the replay windows of the four slots are independent.  Operations that
    do not touch slot `i` — seals, datagrams addressed to other slots (accepted or not), rotations into
    other slots; everything except ticks, which age all four slots — change neither the verdict on any
    datagram addressed to slot `i` nor the slot's history. -/
theorem per_slot_independent (c : Core) (ops : List SOp) (i : Nat) (hna : ∀ op ∈ ops, ¬ affects op i)
    (d : Dgram) (hd : d.keyId = i) (h : List Ev) :
    ((run c ops).1.decrypt d).2 = (c.decrypt d).2 ∧ slotHist i c h ops = h := by
  refine ⟨?_, slotHist_unaffected i c h ops hna⟩
  apply decrypt_congr _ _ _ (run_half c ops)
  rw [hd]
  have := congrArg (Option.map (fun t : KeyRef × Nat × Nat × Nat => (t.1, t.2.1))) (run_unaffected c ops i hna)
  rw [Option.map_map, Option.map_map] at this
  exact this

/-- the exception: a tick ages every slot -/
theorem tick_ages_every_slot (c : Core) (j : Nat) :
    (step c .tick).1.slots[j]? = (c.slots[j]?).map SlotKey.updateMinNonce := tick_slots c j

/-- non-vacuity: traffic and a rotation on slots 1 and 2, and seals, between two looks at slot 0 -/
example : (∀ op ∈ [SOp.open { hdr := [1, 0, 0, 0, 0, 0, 0, 2], body := .sealed 8 2 [4] }, .rotate 9 2 true 3, .seal [1]],
    ¬ affects op 0) := by
  decide

/-- **rotate_resets_slot** (first half): `rotate_key` puts the new key into slot `id % 4` with the
    initial window (floor = `threshold []` = 0): every genuine datagram under the new key is accepted,
    whatever was accepted under the key that was there before. -/
theorem rotate_resets_slot (c : Core) (K : KeyRef) (id : Nat) (use : Bool) (start : Nat) (h4 : c.slots.length = 4) :
    (c.rotateKey K id use start).slots[id % 4]? = some (SlotKey.new K c.half start) ∧
    (SlotKey.new K c.half start).min = threshold [] ∧
    (∀ d p, d.len ≥ 24 → d.keyId = id % 4 →
      d.body = .sealed K ((c.rotateKey K id use start).reconstruct d.counter) p →
      ((c.rotateKey K id use start).decrypt d).2 = .ok p) := by
  have hslot : (c.rotateKey K id use start).slots[id % 4]? = some (SlotKey.new K c.half start) :=
    (C04.rotate_fresh c K id use start h4).1
  refine ⟨hslot, rfl, ?_⟩
  intro d p hlen hid hb
  have hid4 : d.keyId < 4 := by rw [hid]; omega
  rw [← hid] at hslot
  exact ((C03.decrypt_authentic _ d _ p hlen hid4 hslot hb).1 (Nat.zero_le _)).1

/-- non-vacuity: slot 0 has a floor of 10 under key 7; after key 9 is rotated into it (id 4) nonce 1 under key 9 is accepted -/
example :
    (run (Core.new 7 true 8 [5, 6, 7, 8]) exRecv).1.slots.length = 4 ∧
    ((run (Core.new 7 true 8 [5, 6, 7, 8]) exRecv).1.slots[0]?).map SlotKey.min = some 10 ∧
    (((run (Core.new 7 true 8 [5, 6, 7, 8]) exRecv).1.rotateKey 9 4 false 3).decrypt
      { hdr := [0, 0, 0, 0, 0, 0, 0, 1], body := .sealed 9 1 [4] }).2 = .ok [4] := by
  decide

/-- in a trace, a rotation into slot `i` makes the slot's history start afresh: what happened before is forgotten -/
theorem rotate_resets_history (i : Nat) (c : Core) (h : List Ev) (pre post : List SOp)
    (K : KeyRef) (id : Nat) (use : Bool) (start : Nat) (hid : id % 4 = i) :
    slotHist i c h (pre ++ .rotate K id use start :: post) =
      slotHist i (run c (pre ++ [.rotate K id use start])).1 [] post := by
  induction pre generalizing c h with
  | nil => simp only [List.nil_append, slotHist, histStep, if_pos hid, run_cons, run_nil]
  | cons op pre ih =>
    simp only [List.cons_append, slotHist, run_cons]
    exact ih _ _

/-- **rotate_resets_slot** (second half), with the ideal AEAD as in `C02.accepted_is_genuine`: once a
    key `K` has been rotated into slot `id % 4`, a datagram addressed to that slot and sealed under any
    other key `Kold` — in particular the overwritten one — is rejected, and stays rejected forever,
    provided `Kold` is never rotated in again (key freshness, I3). -/
theorem overwritten_key_rejected_forever (c : Core) (K Kold : KeyRef) (id : Nat) (use : Bool) (start : Nat)
    (post : List SOp) (hne : K ≠ Kold) (hpost : Kold ∉ rotatedKeys post)
    (d : Dgram) (n : Nat) (p : Bytes) (hid : d.keyId = id % 4) (hb : d.body = .sealed Kold n p) :
    ∃ e, ((run (c.rotateKey K id use start) post).1.decrypt d).2 = .error e := by
  apply rejected_of_other_key _ d Kold n p hb
  rw [hid]
  apply slot_avoids_key Kold (id % 4) post _ _ hpost
  intro k hk
  rw [rotate_slots, if_pos rfl] at hk
  split at hk
  · cases hk; exact hne
  · cases hk

/-- the session form: in a session whose rotated-in keys are fresh (I3), the key that a rotation
    overwrites is dead in that slot from then on -/
theorem overwritten_key_rejected_forever_session (key : KeyRef) (half : Bool) (dummy : KeyRef) (starts : List Nat)
    (pre post : List SOp) (K : KeyRef) (id : Nat) (use : Bool) (start : Nat)
    (hfresh : Fresh [key, dummy] (pre ++ .rotate K id use start :: post))
    (kold : SlotKey) (hold : (run (Core.new key half dummy starts) pre).1.slots[id % 4]? = some kold)
    (d : Dgram) (n : Nat) (p : Bytes) (hid : d.keyId = id % 4) (hb : d.body = .sealed kold.key n p) :
    ∃ e, ((run (Core.new key half dummy starts) (pre ++ .rotate K id use start :: post)).1.decrypt d).2 = .error e := by
  have hused : kold.key ∈ [key, dummy] ++ rotatedKeys pre := by
    apply slot_keys_used pre (Core.new key half dummy starts) [key, dummy] _ (id % 4) kold hold
    intro j k hj
    by_cases hj4 : j < 4
    · rw [new_slot key half dummy starts j hj4] at hj
      cases hj
      simp only [SlotKey.new]
      split <;> simp
    · have : (Core.new key half dummy starts).slots[j]? = none := by
        rw [List.getElem?_eq_none_iff]; simp only [Core.new, List.length_cons, List.length_nil]; omega
      rw [this] at hj; cases hj
  obtain ⟨hnd, hu⟩ := hfresh
  rw [rotatedKeys_append] at hnd hu
  simp only [rotatedKeys] at hnd hu
  obtain ⟨_, hnd2, hdisj⟩ := List.nodup_append.1 hnd
  have hK : K ≠ kold.key ∧ kold.key ∉ rotatedKeys post := by
    rcases List.mem_append.1 hused with h1 | h1
    · have := hu _ h1
      simp only [List.mem_append, List.mem_cons, not_or] at this
      exact ⟨fun h => this.2.1 h.symm, this.2.2⟩
    · refine ⟨fun h => hdisj _ h1 _ List.mem_cons_self h.symm, fun h => hdisj _ h1 _ (List.mem_cons_of_mem _ h) rfl⟩
  rw [run_append, run_cons]
  exact overwritten_key_rejected_forever _ K kold.key id use start post hK.1 hK.2 d n p hid hb

/-- non-vacuity: key 7 (slot 0) is overwritten by key 9 (id 4); the datagram accepted before is rejected after -/
example :
    Fresh [7, 8] ([.tick] ++ .rotate 9 4 true 3 :: [.tick, .seal [1]]) ∧
    ((run (Core.new 7 true 8 [5, 6, 7, 8]) [.tick]).1.slots[4 % 4]?).map SlotKey.key = some 7 ∧
    ((run (Core.new 7 true 8 [5, 6, 7, 8]) [.tick]).1.decrypt
      { hdr := [0, 0, 0, 0, 0, 0, 0, 9], body := .sealed 7 9 [4] }).2 = .ok [4] ∧
    ((run (Core.new 7 true 8 [5, 6, 7, 8]) ([.tick] ++ .rotate 9 4 true 3 :: [.tick, .seal [1]])).1.decrypt
      { hdr := [0, 0, 0, 0, 0, 0, 0, 9], body := .sealed 7 9 [4] }).2 = .error .openFailed := by
  decide

/-! ## 5. a captured datagram dies within two ticks -/

/-- **dies_in_two_ticks_session**: the headline of C03 for whole sessions.  Once a core has accepted a
    datagram with nonce `n'` under key `K`, then after two further ticks — with any other operations in
    between and after: seals, further datagrams, rotations — every datagram for the same slot under `K`
    with a nonce `n ≤ n'` (in particular a replay of the accepted one) is rejected, forever.
    Hypotheses: received datagrams consist of bytes (`DeliveredWF`), and `K` is not rotated in again
    later (key freshness, I3) — without the latter the statement is false, see below. -/
theorem dies_in_two_ticks_session (key : KeyRef) (half : Bool) (dummy : KeyRef) (starts : List Nat)
    (pre more : List SOp) (d' d : Dgram) (K : KeyRef) (n n' : Nat) (p p' : Bytes)
    (hwf : DeliveredWF (pre ++ .open d' :: more))
    (hacc : ((run (Core.new key half dummy starts) pre).1.decrypt d').2 = .ok p')
    (hb' : d'.body = .sealed K n' p') (hb : d.body = .sealed K n p) (hid : d.keyId = d'.keyId) (hle : n ≤ n')
    (hfresh : K ∉ rotatedKeys more) (h2 : 2 ≤ numTicks more) :
    ∃ e, ((run (Core.new key half dummy starts) (pre ++ .open d' :: more)).1.decrypt d).2 = .error e := by
  have hwfpre : DeliveredWF pre := fun x hx => hwf x (by rw [delivered_append]; exact List.mem_append_left _ hx)
  have hwfd' : Bytes.WF d'.hdr := hwf d' (by rw [delivered_append]; simp [delivered])
  have hwfmore : DeliveredWF more := fun x hx => hwf x (by rw [delivered_append]; simp [delivered, hx])
  obtain ⟨_, hid4, k, hk, _⟩ := C02.accepted_is_genuine _ d' p' hacc
  obtain ⟨k1, hk1, w, _⟩ := win_run d'.keyId hid4 pre (Core.new key half dummy starts) [] _ rfl
    (new_slot key half dummy starts d'.keyId hid4) (w_new _ _ _) hwfpre
  rw [hk] at hk1
  cases hk1
  obtain ⟨k2, hk2, st2⟩ := stage_zero _ d' K n' p' k hk w.2.2.2 hwfd' hacc hb'
  obtain ⟨k3, hk3, st3⟩ := stage_run K n' d'.keyId more 0 _ k2 hk2 st2 hfresh hwfmore
  rw [run_append, run_cons]
  rw [← hid] at hk3
  exact stage_rejects K n' _ _ d k3 n p hk3 st3 (by omega) hb hle

/-- non-vacuity: datagram 9 accepted, then tick, a seal, a rotation of another slot, tick: 9 and the older 6 are dead -/
example :
    DeliveredWF ([.tick] ++ .open { hdr := [0, 0, 0, 0, 0, 0, 0, 9], body := .sealed 7 9 [4] } ::
      [.tick, .seal [1], .rotate 9 1 true 3, .tick]) ∧
    ((run (Core.new 7 true 8 [5, 6, 7, 8]) [.tick]).1.decrypt
      { hdr := [0, 0, 0, 0, 0, 0, 0, 9], body := .sealed 7 9 [4] }).2 = .ok [4] ∧
    7 ∉ rotatedKeys [.tick, .seal [1], .rotate 9 1 true 3, .tick] ∧
    2 ≤ numTicks [.tick, .seal [1], .rotate 9 1 true 3, .tick] ∧
    ((run (Core.new 7 true 8 [5, 6, 7, 8]) ([.tick] ++ .open { hdr := [0, 0, 0, 0, 0, 0, 0, 9], body := .sealed 7 9 [4] } ::
      [.tick, .seal [1], .rotate 9 1 true 3, .tick])).1.decrypt
      { hdr := [0, 0, 0, 0, 0, 0, 0, 6], body := .sealed 7 6 [4] }).2 = .error .oldNonce := by
  decide

/-- key freshness is necessary: if the same key is rotated into the slot again, the window restarts and the
    captured datagram is accepted a second time, long after two ticks -/
example :
    ((run (Core.new 7 true 8 [5, 6, 7, 8]) ([] ++ .open { hdr := [0, 0, 0, 0, 0, 0, 0, 9], body := .sealed 7 9 [4] } ::
      [.tick, .tick, .rotate 7 0 false 1])).1.decrypt
      { hdr := [0, 0, 0, 0, 0, 0, 0, 9], body := .sealed 7 9 [4] }).2 = .ok [4] ∧
    ((run (Core.new 7 true 8 [5, 6, 7, 8]) ([] ++ .open { hdr := [0, 0, 0, 0, 0, 0, 0, 9], body := .sealed 7 9 [4] } ::
      [.tick, .tick])).1.decrypt
      { hdr := [0, 0, 0, 0, 0, 0, 0, 9], body := .sealed 7 9 [4] }).2 = .error .oldNonce := by
  decide

end VpnCloud.Proofs.C04Session
