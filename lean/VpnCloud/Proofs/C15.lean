import VpnCloud.Model.Node
import VpnCloud.Proofs.Lemmas.NodeLemmasAB
/-
  C15: timing parameters.  The announcement interval and the default keepalive (both regenerated from
  the Rust source) never panic and stay below the peer timeout; the reconnect back-off is bounded by
  one hour and never drops an entry.
-/
namespace VpnCloud.Proofs.C15
open VpnCloud VpnCloud.Node
open VpnCloud.Proofs.NodeLemmasAB

-- the generated expressions change with the Rust source: all operator definitions are listed, whether the current expression uses them or not
set_option linter.unusedSimpArgs false

/-- evaluates a generated interval expression (whatever operators it currently uses), splits the panic checks that remain
    (`oCheckedSub`, `oDiv` by a non-literal) and decides the resulting linear arithmetic with `min` / `max` / division by literals -/
macro "interval_arith" : tactic => `(tactic|
  (simp [Generated.housekeepInterval, Generated.defaultKeepalive, Generated.oMin, Generated.oMax, Generated.oSatSub,
     Generated.oDiv, Generated.oAdd, Generated.oMul, Generated.oCheckedSub]
   all_goals (repeat' split)
   all_goals (try simp)
   all_goals omega))

/-- **interval_safe**: for every own setting and every minimum of the advertised peer timeouts the announcement delay is computed without panic and is at most
    one second or strictly shorter than that minimum -/
theorem interval_safe (updateFreq minPeerTimeout : Nat) :
    ∃ d, Generated.housekeepInterval updateFreq minPeerTimeout = some d ∧ (d ≤ 1 ∨ d < minPeerTimeout) := by
  interval_arith

/-- the default keepalive never panics and is at most one second or shorter than the node's own peer timeout -/
theorem keepalive_default_safe (peerTimeout : Nat) :
    ∃ d, Generated.defaultKeepalive peerTimeout = some d ∧ (d ≤ 1 ∨ d < peerTimeout) := by
  interval_arith

/-- **backoff_bounded**: the reconnect interval never exceeds one hour and entries are never dropped (configured peers are retried forever) -/
theorem backoff_bounded (env : CryptoEnv) (o : Oracle) (c : Ctx) (now : Int)
    (h : ∀ e ∈ c.node.reconnect, e.timeout ≤ Generated.MAX_RECONNECT_INTERVAL) :
    (reconnectToPeers env o c now).node.reconnect.length = c.node.reconnect.length ∧
    ∀ e ∈ (reconnectToPeers env o c now).node.reconnect, e.timeout ≤ Generated.MAX_RECONNECT_INTERVAL ∧ (e.next ≤ now + Generated.MAX_RECONNECT_INTERVAL ∨ ∃ e0 ∈ c.node.reconnect, e0.next = e.next) := by
  have hrc := foldl_connect_reconnect env o now c.node.reconnect c
  unfold reconnectToPeers
  simp only [hrc, List.length_map, List.mem_map, true_and]
  rintro e ⟨e0, he0, rfl⟩
  have h0 := h e0 he0
  have h1 : 1 ≤ Generated.MAX_RECONNECT_INTERVAL := by decide
  have clamp : ∀ t : Nat, (if Generated.backoffCapped t = true then Generated.MAX_RECONNECT_INTERVAL else t) ≤ Generated.MAX_RECONNECT_INTERVAL := by
    intro t; simp only [Generated.backoffCapped, decide_eq_true_eq]; split <;> omega
  generalize Generated.MAX_RECONNECT_INTERVAL = M at h0 h1 clamp ⊢
  split
  · -- a resolved address is a peer: the entry is reset
    split
    · exact ⟨h1, Or.inl (by show now + ((1 : Nat) : Int) ≤ now + (M : Int); omega)⟩
    · dsimp only
      generalize (if Generated.backoffDoubles (0 + 1) = true then ((0 : Nat), 1 * 2) else (0 + 1, 1)).snd = t
      have := clamp t
      exact ⟨this, Or.inl (by omega)⟩
  · split
    · exact ⟨h0, Or.inr ⟨e0, he0, rfl⟩⟩
    · dsimp only
      generalize (if Generated.backoffDoubles (e0.tries + 1) = true then ((0 : Nat), e0.timeout * 2) else (e0.tries + 1, e0.timeout)).snd = t
      have := clamp t
      exact ⟨this, Or.inl (by omega)⟩

end VpnCloud.Proofs.C15
