import VpnCloud.Model.Node
namespace VpnCloud.Proofs.C15
end VpnCloud.Proofs.C15
