import VpnCloud.Model.PeerCrypto
import VpnCloud.Proofs.Lemmas.InitLemmas
/-
  C05 — key binding of the handshake: both ends derive the same symbolic master key, distinct
  (cipher, key pair) give distinct keys, the two ends use opposite nonce halves, the initiator's core
  is bound to its own pending ephemeral key and the one in the pong, and a handshake object reports
  success at most once.

  Statements changed with respect to the task (each with a counterexample to the original below):
  * `masterKey_comm`: hypothesis `hab : beVal a = beVal b → a = b` added (holds for well-formed keys of
    equal length, `masterKey_comm_wf`).  The symbolic key orders the pair by big-endian *value*; two
    different strings of the same value (`[0]`, `[0, 0]`) are ordered by argument position.
  * `initiator_success_binds`: hypotheses `hcr : st.crypto = none` (an initiator waiting for the pong has
    no core yet; otherwise, with plain negotiated, the old core opens the payload) and
    `hdummy : ∀ x n q, bodyOf x ≠ .sealed rnd.dummy n q` (nothing is ever sealed under the throw-away key
    of slots 1..3 of a new core; otherwise a payload addressed to key id 1 opens under that key).
  `masterKey_inj`, `halves_opposite`, `no_second_success`, `success_stage` are proved as given.
-/
namespace VpnCloud.Proofs.C05

open VpnCloud VpnCloud.Init
open VpnCloud.Proofs.InitLemmas

/-! ## the symbolic master key -/

/-- both ends derive the same key.  Hypothesis added: `a` and `b` are equal if their big-endian values are (true for well-formed
    strings of equal length, see `masterKey_comm_wf`); without it the statement is false, see the counterexample below. -/
theorem masterKey_comm (c : Cipher) (a b : Bytes) (hab : Bytes.beVal a = Bytes.beVal b → a = b) :
    masterKey c a b = masterKey c b a :=
  masterKey_comm_of c a b hab

/-- the form used for real keys: byte strings of equal length (32 for X25519) -/
theorem masterKey_comm_wf (c : Cipher) (a b : Bytes) (hw : Bytes.WF a ∧ Bytes.WF b) (hl : a.length = b.length) :
    masterKey c a b = masterKey c b a :=
  masterKey_comm c a b (beVal_inj a b hw.1 hw.2 hl)

/-- counterexample to the original `masterKey_comm` (no hypothesis): `[0]` and `[0, 0]` have the same value -/
example : ¬ (∀ (c : Cipher) (a b : Bytes), masterKey c a b = masterKey c b a) := by
  intro h
  exact absurd (h .aes128 [0] [0, 0]) (by decide)

/-- non-vacuity -/
example : masterKey .chacha [1, 2] [3, 4] = masterKey .chacha [3, 4] [1, 2] := masterKey_comm_wf _ _ _ (by decide) rfl

/-- distinct (cipher, unordered pair of 32-byte ephemeral keys) give distinct key references (symbolic counterpart of I3) -/
theorem masterKey_inj (c c' : Cipher) (a b a' b' : Bytes) (hw : Bytes.WF a ∧ Bytes.WF b ∧ Bytes.WF a' ∧ Bytes.WF b')
    (hl : a.length = 32 ∧ b.length = 32 ∧ a'.length = 32 ∧ b'.length = 32)
    (h : masterKey c a b = masterKey c' a' b') : c = c' ∧ ((a = a' ∧ b = b') ∨ (a = b' ∧ b = a')) :=
  masterKey_inj_of c c' a b a' b' hw hl h

/-- non-vacuity: the hypotheses are satisfiable, and different ciphers give different keys for the same pair -/
example : masterKey .aes128 (List.replicate 32 1) (List.replicate 32 2) ≠ masterKey .aes256 (List.replicate 32 2) (List.replicate 32 1) := by
  intro h
  have := (masterKey_inj _ _ _ _ _ _ (by decide) (by decide) h).1
  cases this

/-- the two ends evaluate `own hash > peer hash` on the same two values: opposite halves unless the hashes are equal (then "connected to self") -/
theorem halves_opposite (h1 h2 : Bytes) (hne : Bytes.beVal h1 ≠ Bytes.beVal h2) : bytesGt h1 h2 = !bytesGt h2 h1 :=
  bytesGt_opposite h1 h2 hne

example : bytesGt [1, 2] [1, 3] = false ∧ bytesGt [1, 3] [1, 2] = true := by decide

/-! ## the initiator's key binding -/

/-- **initiator key binding**: when the initiator completes on a pong, its core was created for exactly the key derived from its own
    pending ephemeral key and the one in the pong, with the cipher the negotiation selects, and the payload it reports was sealed under
    that key.

    Two hypotheses added (counterexamples to the statement without them below):
    * `hcr`: the object has no core yet.  (Reachable states in stage PONG satisfy this: `crypto` is only set by the ping and pong
      handlers, which leave stage PONG.)  Without it and with plain negotiated, the left-over core is used to open the payload.
    * `hdummy`: nothing is ever sealed under the throw-away key of slots 1..3 of the new core (the implementation draws these keys at
      random and never uses or reveals them).  Without it a payload with key id 1..3 sealed under that key is accepted. -/
theorem initiator_success_binds (env : CryptoEnv) (bodyOf : BodyOf) (ok : Bytes → Bool) (st st' : InitSt) (w : Bytes) (rnd : Rand)
    (out p : Bytes) (log : SealLog) (own : Bytes)
    (hstage : st.stage = Generated.STAGE_PONG) (hown : st.ecdh = some own)
    (hcr : st.crypto = none)
    (hdummy : ∀ x n q, bodyOf x ≠ .sealed rnd.dummy n q)
    (h : handleInit env bodyOf ok st w rnd = .ok st' (out, .success p true, log)) :
    ∃ hb eb ab pl k, InitMsg.readFrom env w st.trusted = .ok (.pong hb eb ab pl, k) ∧
      st'.stage = Generated.WAITING_TO_CLOSE ∧ st'.ecdh = none ∧
      (match selectAlgorithm st.algos ab with
       | .ok (some c) => st'.selected = some c ∧
           ∃ core n, st'.crypto = some core ∧ (core.slots[0]?.map (·.key)) = some (masterKey c own eb) ∧ core.half = bytesGt st.hash hb ∧
             bodyOf (pl.drop 8) = .sealed (masterKey c own eb) n p
       | .ok none => st'.selected = none ∧ p = pl
       | .error _ => False) := by
  obtain ⟨m, k, hr, hms, hm⟩ := handleInit_success env bodyOf ok st st' w rnd out p true log h
  rw [hstage] at hms
  cases m with
  | ping => simp [InitMsg.stage, Generated.STAGE_PONG, Generated.STAGE_PING] at hms
  | peng => simp [InitMsg.stage, Generated.STAGE_PONG, Generated.STAGE_PENG] at hms
  | pong hb eb ab pl =>
    obtain ⟨_, own', sel, st5, hown', hsel, hd, _, hst'⟩ := handleMsg_pong env bodyOf ok st st' hb eb ab pl rnd out p true log hm
    rw [hown] at hown'
    simp only [Option.some.injEq] at hown'
    subst hown'
    obtain ⟨l, hsm⟩ := sendMessage_peng_fst env st5 rnd
    rw [hsm, encryptPayload_fst] at hst'
    obtain ⟨cr, hfr⟩ := decryptPayload_frame _ _ _ _ _ hd
    have hecdh : st5.ecdh = none := by rw [hfr]; exact pongSt_ecdh ..
    have hselected : st5.selected = sel := by rw [hfr]; exact pongSt_selected ..
    refine ⟨hb, eb, ab, pl, k, hr, by rw [hst'], by rw [hst']; exact hecdh, ?_⟩
    rw [hsel]
    cases sel with
    | none =>
      refine ⟨by rw [hst']; exact hselected, ?_⟩
      have hnone : (pongSt st own eb hb none rnd).crypto = none := hcr
      rw [decryptPayload_none _ _ _ hnone] at hd
      simp only [Prod.mk.injEq, Option.some.injEq] at hd
      exact hd.2.symm
    | some c =>
      refine ⟨by rw [hst']; exact hselected, ?_⟩
      have hsome : (pongSt st own eb hb (some c) rnd).crypto =
          some (Core.new (masterKey c own eb) (bytesGt st.hash hb) rnd.dummy (rnd.start :: rnd.starts123)) := rfl
      obtain ⟨hdec, hs5⟩ := decryptPayload_some _ _ _ _ hsome _ _ hd
      obtain ⟨n, hn | hn⟩ := new_decrypt_ok _ _ _ _ _ _ hdec
      · have hok := CoreOK_encrypt _ _ _ st5.payload (CoreOK_decrypt _ _ _
          { hdr := pl.take 8, body := bodyOf (pl.drop 8) } (CoreOK_new (masterKey c own eb) (bytesGt st.hash hb) rnd.dummy (rnd.start :: rnd.starts123)))
        refine ⟨_, n, ?_, hok.1, hok.2, hn⟩
        rw [hst', hs5]; rfl
      · exact absurd hn (hdummy _ _ _)


/-- the statement of `initiator_success_binds` as originally given (without `hcr` and `hdummy`) -/
def OriginalBinds : Prop :=
  ∀ (env : CryptoEnv) (bodyOf : BodyOf) (ok : Bytes → Bool) (st st' : InitSt) (w : Bytes) (rnd : Rand)
    (out p : Bytes) (log : SealLog) (own : Bytes),
    st.stage = Generated.STAGE_PONG → st.ecdh = some own →
    handleInit env bodyOf ok st w rnd = .ok st' (out, .success p true, log) →
    ∃ hb eb ab pl k, InitMsg.readFrom env w st.trusted = .ok (.pong hb eb ab pl, k) ∧
      st'.stage = Generated.WAITING_TO_CLOSE ∧ st'.ecdh = none ∧
      (match selectAlgorithm st.algos ab with
       | .ok (some c) => st'.selected = some c ∧
           ∃ core n, st'.crypto = some core ∧ (core.slots[0]?.map (·.key)) = some (masterKey c own eb) ∧ core.half = bytesGt st.hash hb ∧
             bodyOf (pl.drop 8) = .sealed (masterKey c own eb) n p
       | .ok none => st'.selected = none ∧ p = pl
       | .error _ => False)

/-- counterexample 1 (`hdummy` is needed; `hcr` holds here): the pong payload is addressed to key id 1 and sealed under the throw-away
    key `rnd.dummy = 1`; the initiator accepts it although it was not sealed under the master key -/
example : ¬ OriginalBinds := by
  intro H
  obtain ⟨st', out, log, h⟩ : ∃ st' out log,
      handleInit Toy.env (Toy.body 1) (fun _ => true) Toy.st (Toy.pong Toy.algos 1) Toy.rnd = .ok st' (out, .success [42] true, log) :=
    ⟨_, _, _, rfl⟩
  obtain ⟨hb, eb, ab, pl, k, hr, _, _, hm⟩ := H _ _ _ _ _ _ _ _ _ _ [5] rfl rfl h
  have e : InitMsg.readFrom Toy.env (Toy.pong Toy.algos 1) Toy.st.trusted =
      .ok (.pong (List.replicate 20 2) [6] Toy.algos (Toy.pl 1), [9, 9, 9, 9]) := by decide
  rw [e] at hr
  simp only [Except.ok.injEq, Prod.mk.injEq, InitMsg.pong.injEq] at hr
  obtain ⟨⟨rfl, rfl, rfl, rfl⟩, rfl⟩ := hr
  have e2 : selectAlgorithm Toy.st.algos Toy.algos = .ok (some .aes128) := by decide
  rw [e2] at hm
  obtain ⟨_, core, n, _, _, _, hbody⟩ := hm
  simp only [Toy.body, Body.sealed.injEq] at hbody
  exact absurd hbody.1 (by decide)

/-- counterexample 2 (`hcr` is needed; `hdummy` holds here): the object carries a left-over core with key 7, both ends allow plain:
    the payload is opened with the left-over core, the reported payload `[42]` is not the transmitted one -/
example : ¬ OriginalBinds := by
  intro H
  obtain ⟨st', out, log, h⟩ : ∃ st' out log,
      handleInit Toy.env (Toy.body 7) (fun _ => true) { Toy.st with algos := Toy.algosPlain, crypto := some (Core.new 7 false 8 []) }
        (Toy.pong Toy.algosPlain 0) Toy.rnd = .ok st' (out, .success [42] true, log) :=
    ⟨_, _, _, rfl⟩
  obtain ⟨hb, eb, ab, pl, k, hr, _, _, hm⟩ := H _ _ _ _ _ _ _ _ _ _ [5] rfl rfl h
  have e : InitMsg.readFrom Toy.env (Toy.pong Toy.algosPlain 0) Toy.st.trusted =
      .ok (.pong (List.replicate 20 2) [6] Toy.algosPlain (Toy.pl 0), [9, 9, 9, 9]) := by decide
  rw [e] at hr
  simp only [Except.ok.injEq, Prod.mk.injEq, InitMsg.pong.injEq] at hr
  obtain ⟨⟨rfl, rfl, rfl, rfl⟩, rfl⟩ := hr
  have e2 : selectAlgorithm Toy.algosPlain Toy.algosPlain = .ok none := by decide
  rw [e2] at hm
  exact absurd hm.2 (by decide)

/-- non-vacuity (cipher negotiated): all hypotheses of `initiator_success_binds` hold and the handshake succeeds -/
example : Toy.st.stage = Generated.STAGE_PONG ∧ Toy.st.ecdh = some [5] ∧ Toy.st.crypto = none ∧
    (∀ x n q, Toy.body (masterKey .aes128 [5] [6]) x ≠ .sealed Toy.rnd.dummy n q) ∧
    ∃ st' out log, handleInit Toy.env (Toy.body (masterKey .aes128 [5] [6])) (fun _ => true) Toy.st (Toy.pong Toy.algos 0) Toy.rnd =
      .ok st' (out, .success [42] true, log) := by
  refine ⟨rfl, rfl, rfl, ?_, _, _, _, rfl⟩
  intro x n q hh
  simp only [Toy.body, Body.sealed.injEq] at hh
  exact absurd hh.1 (by decide)

/-- non-vacuity (plain negotiated): the reported payload is the transmitted one -/
example : ∃ st' out log, handleInit Toy.env (Toy.body 0) (fun _ => true) { Toy.st with algos := Toy.algosPlain }
    (Toy.pong Toy.algosPlain 0) Toy.rnd = .ok st' (out, .success (Toy.pl 0) true, log) :=
  ⟨_, _, _, rfl⟩

/-! ## success at most once -/

/-- a handshake object reports success at most once: after a success its stage is WAITING_TO_CLOSE or CLOSING, and from there no further
    success is possible -/
theorem no_second_success (env : CryptoEnv) (bodyOf : BodyOf) (ok : Bytes → Bool) (st : InitSt) (w : Bytes) (rnd : Rand)
    (hs : st.stage = Generated.WAITING_TO_CLOSE ∨ st.stage = Generated.CLOSING) :
    ∀ st' out p ini log, handleInit env bodyOf ok st w rnd ≠ .ok st' (out, .success p ini, log) := by
  intro st' out p ini log h
  obtain ⟨m, k, _, hms, _⟩ := handleInit_success env bodyOf ok st st' w rnd out p ini log h
  cases m <;> rcases hs with hs | hs <;> rw [hs] at hms <;>
    simp [InitMsg.stage, Generated.STAGE_PING, Generated.STAGE_PONG, Generated.STAGE_PENG, Generated.WAITING_TO_CLOSE,
      Generated.CLOSING] at hms

theorem success_stage (env : CryptoEnv) (bodyOf : BodyOf) (ok : Bytes → Bool) (st st' : InitSt) (w : Bytes) (rnd : Rand)
    (out p : Bytes) (ini : Bool) (log : SealLog) (h : handleInit env bodyOf ok st w rnd = .ok st' (out, .success p ini, log)) :
    st'.stage = Generated.WAITING_TO_CLOSE ∨ st'.stage = Generated.CLOSING := by
  obtain ⟨m, k, _, _, hm⟩ := handleInit_success env bodyOf ok st st' w rnd out p ini log h
  cases m with
  | ping hb e a => exact absurd hm (handleMsg_ping _ _ _ _ _ _ _ _ _ _ _ _ _)
  | pong hb eb ab pl =>
    obtain ⟨_, _, _, _, _, _, _, _, hst'⟩ := handleMsg_pong _ _ _ _ _ _ _ _ _ _ _ _ _ _ hm
    exact Or.inl (by rw [hst'])
  | peng hb pl =>
    obtain ⟨_, _, _, _, hst'⟩ := handleMsg_peng _ _ _ _ _ _ _ _ _ _ _ _ hm
    exact Or.inr (by rw [hst'])

/-- non-vacuity: the state after the success above is in stage WAITING_TO_CLOSE and the same pong again gives no success -/
example : ∃ st' out log, handleInit Toy.env (Toy.body 0) (fun _ => true) { Toy.st with algos := Toy.algosPlain }
    (Toy.pong Toy.algosPlain 0) Toy.rnd = .ok st' (out, .success (Toy.pl 0) true, log) ∧ st'.stage = Generated.WAITING_TO_CLOSE ∧
    ∃ out', handleInit Toy.env (Toy.body 0) (fun _ => true) st' (Toy.pong Toy.algosPlain 0) Toy.rnd = .ok st' (out', .continue, []) :=
  ⟨_, _, _, rfl, rfl, _, rfl⟩

end VpnCloud.Proofs.C05
