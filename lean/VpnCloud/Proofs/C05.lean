import VpnCloud.Model.PeerCrypto
namespace VpnCloud.Proofs.C05
end VpnCloud.Proofs.C05
