import VpnCloud.Model.Node
import VpnCloud.Proofs.Lemmas.C09MoreLemmas
import VpnCloud.Proofs.C09
/-
  C09 — "established connections survive forged and replayed traffic", node level, one step.

  `a` is the (mapped) address of an established peer: `lookupA n.peers a = some p`.

  1. `other_source_keeps_session` / `other_source_keeps_claims`: a datagram from any other source.
  2. `rejected_keeps_session` (+ `rejected_session_fields`, `rejected_by_core_keeps_session`): a datagram without the
     handshake marker from `a` that the session rejects.
  3. `replayed_handshake_keeps_session` (+ `fresh_attempt_never_completes`, `pending_handles_handshake`): a datagram with the
     handshake marker from `a`.
  4. `pending_expiry_keeps_peer` (+ `pendLoop_touches_only_pending`): housekeeping and pending attempts.
-/
namespace VpnCloud.Proofs.C09More

open VpnCloud VpnCloud.Node
open VpnCloud.Proofs.NodeLemmas VpnCloud.Proofs.NodeLemmas2 VpnCloud.Proofs.NodeInvLemmas VpnCloud.Proofs.C09MoreLemmas

/-! ## 1. datagrams from another source -/

/-- **other_source_keeps_session**: whatever arrives from a source other than `a` — arbitrary bytes, genuine, replayed — the node keeps the
    very same peer record for `a`: session object, expiry, addresses. -/
theorem other_source_keeps_session (env : CryptoEnv) (bodyOf : Init.BodyOf) (o : Oracle) (n : Node) (now : Int) (src : NAddr) (data tail : Bytes)
    (a : NAddr) (p : Peer) (hp : lookupA n.peers a = some p) (hsrc : mappedAddr src ≠ a) :
    lookupA (handleNet env bodyOf o n now src data tail).1.node.peers a = some p :=
  handleNet_PC src (pres_lookup (mappedAddr src) a now p (fun h => hsrc h.symm)) env bodyOf o n data tail hp

/-- the claims attributed to `a` after a datagram from another source (other peer id): exactly the ones before, or the ones before with
    the entries that have expired at `now` dropped (`set_claims` / `remove_claims` for the sender end with the sweep of the whole table).
    No hypothesis on the table. -/
theorem other_source_claims_swept (env : CryptoEnv) (bodyOf : Init.BodyOf) (o : Oracle) (n : Node) (now : Int) (src : NAddr) (data tail : Bytes)
    (a : NAddr) (hid : addrId (mappedAddr src) ≠ addrId a) :
    let c := (handleNet env bodyOf o n now src data tail).1
    c.node.table.claims.filter (fun e => e.peer = addrId a) = n.table.claims.filter (fun e => e.peer = addrId a) ∨
    c.node.table.claims.filter (fun e => e.peer = addrId a) =
      (n.table.claims.filter (fun e => e.peer = addrId a)).filter (fun e => e.timeout ≥ now) :=
  handleNet_PC src (pres_claims (mappedAddr src) (addrId a) now (claimsOf (addrId a) n.table) hid) env bodyOf o n data tail (Or.inl rfl)

/-- **other_source_keeps_session** (routes): a datagram from another source (other peer id) leaves the claims attributed to `a` unchanged.
    Hypothesis added (`hlive`): none of the claims of `a` has expired at `now` — an expired entry is dropped by the sweep at the end of
    `set_claims` / `remove_claims` of ANY peer (`original_claims_false` below); the next `housekeep` would drop it anyway. -/
theorem other_source_keeps_claims (env : CryptoEnv) (bodyOf : Init.BodyOf) (o : Oracle) (n : Node) (now : Int) (src : NAddr) (data tail : Bytes)
    (a : NAddr) (hid : addrId (mappedAddr src) ≠ addrId a)
    (hlive : ∀ e ∈ n.table.claims, e.peer = addrId a → now ≤ e.timeout) :
    (handleNet env bodyOf o n now src data tail).1.node.table.claims.filter (fun e => e.peer = addrId a) =
      n.table.claims.filter (fun e => e.peer = addrId a) := by
  rcases other_source_claims_swept env bodyOf o n now src data tail a hid with h | h
  · exact h
  · rw [h]
    apply sweep_id
    intro e he
    rw [List.mem_filter] at he
    exact hlive e he.1 (by simpa using he.2)

/-! ### the claim statement without `hlive` is false; non-vacuity -/
namespace Cex1
open VpnCloud.Proofs.InitLemmas

def s : NAddr := .v6 (List.replicate 16 0) 1
def a : NAddr := .v6 (List.replicate 16 0) 2
def ps : Peer := { addrs := [], timeout := 100, peerTimeout := 300, nodeId := List.replicate 16 1, crypto := { init := none, unencrypted := true } }
def pa : Peer := { addrs := [], timeout := 100, peerTimeout := 300, nodeId := List.replicate 16 2, crypto := { init := none, unencrypted := true } }
def claimA (t : Int) : ClaimEntry := { peer := 2, claim := { base := [10, 0, 0, 2], prefixLen := 32 }, timeout := t }
/-- two established peers `s`, `a`; the table holds one claim of `a` with expiry `t` -/
def n (t : Int) : Node :=
  { nodeId := List.replicate 16 9, addr := .v6 (List.replicate 16 0) 3,
    cfg := { tap := false, learning := false, broadcast := false, peerTimeout := 300, peerTimeoutPublish := 300, updateFreq := 10,
             claims := [], key := [7, 7, 7, 7], trusted := [[9, 9, 9, 9]], algos := Toy.algos },
    peers := [(s, ps), (a, pa)], table := { cacheTimeout := 300, claimTimeout := 300, claims := [claimA t] } }
def o : Oracle := { emitted := fun _ _ => [], rotProp := fun _ => 0, rotPend := fun _ => 0, starts := fun _ => [] }
/-- a genuine node-information message of `s` (no peers, no claims) -/
def info : NodeInfo := { nodeId := List.replicate 16 1, peers := [], claims := [], peerTimeout := none, addrs := [] }
def data : Bytes := Generated.MESSAGE_TYPE_NODE_INFO :: Codec.encodeNodeInfo info

theorem hp (t : Int) : lookupA (n t).peers a = some pa := rfl
theorem hsrc : mappedAddr s ≠ a := by decide
theorem hid : addrId (mappedAddr s) ≠ addrId a := by decide

/-- at time 10 the claim of `a` that expired at 5 disappears when `s` announces itself -/
theorem claims_differ :
    (handleNet Toy.env (Toy.body 0) o (n 5) 10 s data []).1.node.table.claims.filter (fun e => e.peer = addrId a) ≠
      (n 5).table.claims.filter (fun e => e.peer = addrId a) := by decide

/-- non-vacuity of `other_source_keeps_claims`: the same node with a live claim of `a` (expiry 50 at time 10) -/
example : ∀ e ∈ (n 50).table.claims, e.peer = addrId a → (10 : Int) ≤ e.timeout := by
  intro e he _
  simp only [n, List.mem_singleton] at he
  subst he
  decide

example : (handleNet Toy.env (Toy.body 0) o (n 50) 10 s data []).1.node.table.claims.filter (fun e => e.peer = addrId a) = [claimA 50] := by
  decide

end Cex1

/-- the claim statement as given in the task (without `hlive`) is false -/
theorem original_claims_false :
    ¬ (∀ (env : CryptoEnv) (bodyOf : Init.BodyOf) (o : Oracle) (n : Node) (now : Int) (src : NAddr) (data tail : Bytes) (a : NAddr) (p : Peer)
        (_ : lookupA n.peers a = some p) (_ : mappedAddr src ≠ a) (_ : addrId (mappedAddr src) ≠ addrId a),
        (handleNet env bodyOf o n now src data tail).1.node.table.claims.filter (fun e => e.peer = addrId a) =
          n.table.claims.filter (fun e => e.peer = addrId a)) :=
  fun h => Cex1.claims_differ (h _ _ Cex1.o (Cex1.n 5) 10 Cex1.s Cex1.data [] Cex1.a Cex1.pa (Cex1.hp 5) Cex1.hsrc Cex1.hid)

/-! ## 2. a rejected datagram without the handshake marker from `a` itself -/

/-- **rejected_keeps_session** (node level): a datagram without the handshake marker from the address of an established peer that the
    peer's session rejects changes nothing but the counter of invalid packets and the stored session object: nothing is sent or written to
    the interface, no panic, routes / pending attempts / own addresses / the set of peers are untouched, the error is reported (and is not
    the fatal one, so no pending attempt is closed). -/
theorem rejected_keeps_session (env : CryptoEnv) (bodyOf : Init.BodyOf) (o : Oracle) (n : Node) (now : Int) (src : NAddr) (data tail : Bytes)
    (p : Peer) (pc : PeerCrypto) (e : InitErr)
    (hp : lookupA n.peers (mappedAddr src) = some p)
    (hinit : data.head? ≠ some Generated.INIT_MESSAGE_FIRST_BYTE)
    (hrej : PeerCrypto.handleMessage env bodyOf payloadOk p.crypto data tail
      (rndFor o { node := n } (mappedAddr src)).1 (rndFor o { node := n } (mappedAddr src)).2.1 = .err pc e) :
    let r := handleNet env bodyOf o n now src data tail
    r.2 = some e ∧ e ≠ .cryptoInitFatal ∧ r.1.outs = [] ∧ r.1.panicked = false ∧
    r.1.node.table = n.table ∧ r.1.node.pending = n.pending ∧ r.1.node.own = n.own ∧
    r.1.node = { n with peers := insertA n.peers (mappedAddr src) { p with crypto := pc }, droppedIn := n.droppedIn + 1 } ∧
    r.1.node.peers.map (·.1) = n.peers.map (·.1) ∧
    lookupA r.1.node.peers (mappedAddr src) = some { p with crypto := pc } := by
  intro r
  have hne : e ≠ .cryptoInitFatal := by
    rcases (handleMessage_plain_err env bodyOf payloadOk p.crypto pc data tail _ _ e hinit hrej).1 with h | h <;> rw [h] <;> decide
  have hd : dispatch env bodyOf o n now (mappedAddr src) data tail =
      applyOutcome env o { node := n } now (mappedAddr src) true
        (PeerCrypto.handleMessage env bodyOf payloadOk p.crypto data tail
          (rndFor o { node := n } (mappedAddr src)).1 (rndFor o { node := n } (mappedAddr src)).2.1) := by
    unfold dispatch
    simp only [hp, hinit, decide_false, Bool.not_false, if_true]
  have hao : applyOutcome env o { node := n } now (mappedAddr src) true (.err pc e) =
      (countInvalid { node := { n with peers := insertA n.peers (mappedAddr src) { p with crypto := pc } } }, some e) := by
    unfold applyOutcome
    simp only [hp, if_true]
  have hr : r = (countInvalid { node := { n with peers := insertA n.peers (mappedAddr src) { p with crypto := pc } } }, some e) := by
    show handleNet env bodyOf o n now src data tail = _
    rw [handleNet_eq, hd, hrej, hao, finish_of_not_fatal _ _ _ (by simpa using hne)]
  rw [hr]
  refine ⟨rfl, hne, rfl, rfl, rfl, rfl, rfl, rfl, ?_, ?_⟩
  · exact insertA_keys_of_some _ _ _ _ hp
  · exact lookupA_insertA_self _ _ _

/-- what `Core.decrypt` can change: nothing but the `seen` mark of the addressed slot — current slot, half, and of every slot the key, the
    send counter and both replay thresholds stay -/
theorem decrypt_frame (c : Core) (d : Dgram) :
    (c.decrypt d).1.cur = c.cur ∧ (c.decrypt d).1.half = c.half ∧
    (c.decrypt d).1.slots.map (fun k => (k.key, k.send, k.min, k.nextMin)) = c.slots.map (fun k => (k.key, k.send, k.min, k.nextMin)) := by
  rcases CoreLemmas.decrypt_cases c d with ⟨e, he⟩ | ⟨k, p, _, _, hk, _, _, hd⟩
  · rw [he]; exact ⟨rfl, rfl, rfl⟩
  · rw [hd]
    refine ⟨rfl, rfl, ?_⟩
    simp only []
    apply List.ext_getElem?
    intro j
    simp only [List.getElem?_map, List.getElem?_set]
    by_cases hj : d.keyId = j
    · subst hj
      rw [hk]
      by_cases hl : d.keyId < c.slots.length
      · simp only [hl, if_true, Option.map_some]
        unfold Spec.C03.slotStep
        simp only []
        split <;> rfl
      · simp only [hl, if_false]
        rw [List.getElem?_eq_none (by omega)] at hk
        cases hk
    · simp only [hj, if_false]

/-- **rejected_keeps_session** (the session object): after a rejected datagram without the handshake marker every field of the session
    object except `core` is as before (lingering handshake, rotation state and counter, plain flag, master key, cipher); the error is not the
    fatal one; and the core is EXACTLY as before unless it accepted the datagram — then the datagram is a genuine seal of a rotation message
    under the key of the addressed slot with the reconstructed nonce, and of the core only the `seen` mark of that slot moved (`decrypt_frame`:
    key slots, send counters, current slot, both replay thresholds stay). -/
theorem rejected_session_fields (env : CryptoEnv) (bodyOf : Init.BodyOf) (ok : Bytes → Bool) (pc pc' : PeerCrypto) (data tail : Bytes)
    (rnd : Rand) (rr : RotRand) (e : InitErr) (hinit : data.head? ≠ some Generated.INIT_MESSAGE_FIRST_BYTE)
    (h : PeerCrypto.handleMessage env bodyOf ok pc data tail rnd rr = .err pc' e) :
    e ≠ .cryptoInitFatal ∧
    pc'.init = pc.init ∧ pc'.rot = pc.rot ∧ pc'.unencrypted = pc.unencrypted ∧ pc'.rotateCounter = pc.rotateCounter ∧
    pc'.master = pc.master ∧ pc'.cipher = pc.cipher ∧
    (pc' = pc ∨ ∃ core body k, pc.unencrypted = false ∧ pc.core = some core ∧
      core.slots[(dgramOf bodyOf data).keyId]? = some k ∧
      (dgramOf bodyOf data).body = .sealed k.key (core.reconstruct (dgramOf bodyOf data).counter) (Generated.MESSAGE_TYPE_ROTATION :: body) ∧
      pc'.core = some (core.decrypt (dgramOf bodyOf data)).1) := by
  obtain ⟨he, hpc⟩ := handleMessage_plain_err env bodyOf ok pc pc' data tail rnd rr e hinit h
  have hne : e ≠ .cryptoInitFatal := by rcases he with h | h <;> rw [h] <;> decide
  rcases hpc with rfl | ⟨core, body, hu, hc, hdec, rfl⟩
  · exact ⟨hne, rfl, rfl, rfl, rfl, rfl, rfl, Or.inl rfl⟩
  · obtain ⟨_, _, k, hk, hb⟩ := C02.accepted_is_genuine core _ _ hdec
    exact ⟨hne, rfl, rfl, rfl, rfl, rfl, rfl, Or.inr ⟨core, body, k, hu, hc, hk, hb, rfl⟩⟩

/-- **forged / stale datagrams leave the session object itself unchanged**: if the core of the session rejects the datagram (tampered or
    fabricated ciphertext `C02.garbage_rejected`, a seal under another key `C02.cross_connection_rejected`, a nonce below the window floor,
    a reflected datagram `C02.reflection_rejected`, …), the session layer answers with an error and the unchanged session object. -/
theorem rejected_by_core_keeps_session (env : CryptoEnv) (bodyOf : Init.BodyOf) (ok : Bytes → Bool) (pc : PeerCrypto) (core : Core) (data tail : Bytes)
    (rnd : Rand) (rr : RotRand) (hinit : data.head? ≠ some Generated.INIT_MESSAGE_FIRST_BYTE)
    (hu : pc.unencrypted = false) (hc : pc.core = some core) (hrej : ∃ e', (core.decrypt (dgramOf bodyOf data)).2 = .error e') :
    ∃ e, PeerCrypto.handleMessage env bodyOf ok pc data tail rnd rr = .err pc e ∧ e ≠ .cryptoInitFatal := by
  rw [handleMessage_eq]
  cases data with
  | nil => exact ⟨.state, rfl, by decide⟩
  | cons b0 rest =>
    have hb : ¬ b0 = Generated.INIT_MESSAGE_FIRST_BYTE := by
      intro hb; apply hinit; rw [hb]; rfl
    simp only [hb, if_false]
    obtain ⟨e', he'⟩ := hrej
    rcases decMsg_cases bodyOf pc (b0 :: rest) with ⟨hu', _⟩ | ⟨_, hc', _⟩ | ⟨c, _, hc', ⟨_, _, hd⟩ | ⟨plain, hp, _⟩⟩
    · rw [hu] at hu'; cases hu'
    · rw [hc] at hc'; cases hc'
    · rw [hd]
      exact ⟨.crypto, rfl, by decide⟩
    · rw [hc] at hc'
      cases hc'
      rw [he'] at hp
      cases hp

/-- node level, combined: a datagram without the handshake marker from `a` that the core of `a`'s session rejects leaves the peer record of
    `a` exactly as it was (session object included); only the counter of invalid packets moves. -/
theorem forged_data_keeps_peer (env : CryptoEnv) (bodyOf : Init.BodyOf) (o : Oracle) (n : Node) (now : Int) (src : NAddr) (data tail : Bytes)
    (p : Peer) (core : Core)
    (hp : lookupA n.peers (mappedAddr src) = some p)
    (hinit : data.head? ≠ some Generated.INIT_MESSAGE_FIRST_BYTE)
    (hu : p.crypto.unencrypted = false) (hc : p.crypto.core = some core) (hrej : ∃ e', (core.decrypt (dgramOf bodyOf data)).2 = .error e') :
    let r := handleNet env bodyOf o n now src data tail
    lookupA r.1.node.peers (mappedAddr src) = some p ∧ r.1.outs = [] ∧ r.1.panicked = false ∧
    r.1.node.table = n.table ∧ r.1.node.pending = n.pending ∧ r.1.node.own = n.own ∧
    r.1.node.peers.map (·.1) = n.peers.map (·.1) ∧ r.1.node.droppedIn = n.droppedIn + 1 := by
  obtain ⟨e, he, _⟩ := rejected_by_core_keeps_session env bodyOf payloadOk p.crypto core data tail
    (rndFor o { node := n } (mappedAddr src)).1 (rndFor o { node := n } (mappedAddr src)).2.1 hinit hu hc hrej
  obtain ⟨_, _, h3, h4, h5, h6, h7, h8, h9, h10⟩ := rejected_keeps_session env bodyOf o n now src data tail p p.crypto e hp hinit he
  refine ⟨h10, h3, h4, h5, h6, h7, h9, ?_⟩
  rw [h8]

/-! ### non-vacuity for section 2 -/
namespace Ex2
open VpnCloud.Proofs.InitLemmas

def s : NAddr := .v6 (List.replicate 16 0) 1
def core : Core := Core.new 7 false 8 [0, 0, 0, 0]
/-- an established peer with an encrypted session and no lingering handshake -/
def p : Peer := { addrs := [], timeout := 100, peerTimeout := 300, nodeId := List.replicate 16 1,
                  crypto := { init := none, core := some core, rot := some (PeerCrypto.initSide false 0) } }
def n : Node :=
  { nodeId := List.replicate 16 9, addr := .v6 (List.replicate 16 0) 3,
    cfg := { tap := false, learning := false, broadcast := false, peerTimeout := 300, peerTimeoutPublish := 300, updateFreq := 10,
             claims := [], key := [7, 7, 7, 7], trusted := [[9, 9, 9, 9]], algos := Toy.algos },
    peers := [(s, p)], table := { cacheTimeout := 300, claimTimeout := 300 } }
/-- 30 fabricated bytes: key id 0, some counter, a body that is no intact seal -/
def data : Bytes := List.replicate 30 0
def forged : Init.BodyOf := fun b => .garbage b.length

example : lookupA n.peers (mappedAddr s) = some p := rfl
example : data.head? ≠ some Generated.INIT_MESSAGE_FIRST_BYTE := by decide
example : (core.decrypt (dgramOf forged data)).2 = .error .openFailed := by decide
example : PeerCrypto.handleMessage Toy.env forged payloadOk p.crypto data [] (rndFor Cex1.o { node := n } (mappedAddr s)).1
    (rndFor Cex1.o { node := n } (mappedAddr s)).2.1 = .err p.crypto .crypto := rfl

/-- "`pc = p.crypto`" is NOT true of every rejected datagram: a GENUINE seal (here: key 7 of slot 0, the reconstructed nonce) of a
    rotation message that is too short is accepted by the core — its `seen` mark moves — and then rejected by `handle_rotate_message`
    (`Error::Crypto`).  Only a holder of the session key can make such a datagram; this is the second alternative of
    `rejected_session_fields`. -/
def genuineShortRotation : Init.BodyOf := fun _ => .sealed 7 (HALF + 5) [Generated.MESSAGE_TYPE_ROTATION]
def data5 : Bytes := [0, 0, 0, 0, 0, 0, 0, 5] ++ List.replicate 17 0

def errPc : POutcome MsgResult → Option PeerCrypto
  | .err pc _ => some pc
  | _ => none

theorem session_object_can_change :
    ∃ pc', errPc (PeerCrypto.handleMessage Toy.env genuineShortRotation payloadOk p.crypto data5 [] {} {}) = some pc' ∧
      pc'.core ≠ p.crypto.core ∧ pc'.core = some (core.decrypt (dgramOf genuineShortRotation data5)).1 :=
  ⟨_, rfl, by decide, rfl⟩

end Ex2

/-! ## 3. a datagram WITH the handshake marker from `a` -/

/-- **key lemma**: a FRESH attempt (`Crypto::peer_instance`, the throw-away responder of `handle_net_message`) that handles ONE message —
    any bytes — never reports a completed handshake (`.initialized` / `.initializedWithReply`): it is in the initial stage, and a single
    message can at most produce a reply.  It does not panic either. -/
theorem fresh_attempt_never_completes (env : CryptoEnv) (bodyOf : Init.BodyOf) (ok : Bytes → Bool) (n : Node) (hash : Bytes) (data tail : Bytes)
    (rnd : Rand) (rr : RotRand) :
    PeerCrypto.handleMessage env bodyOf ok (newAttempt n hash) data tail rnd rr ≠ .panic ∧
    ∀ pc' out res log, PeerCrypto.handleMessage env bodyOf ok (newAttempt n hash) data tail rnd rr = .ok pc' out res log → res = .reply :=
  ⟨freshAttempt_no_panic env bodyOf ok _ data tail rnd rr (newAttempt_fresh n hash),
   fun pc' out res log h => freshAttempt_only_reply env bodyOf ok _ pc' data tail rnd rr out res log (newAttempt_fresh n hash) h⟩

/-- the throw-away responder: the node's peers, routes and own addresses stay, no panic, at most one datagram back to the sender -/
theorem responder_keeps (env : CryptoEnv) (bodyOf : Init.BodyOf) (o : Oracle) (n : Node) (now : Int) (a : NAddr) (data tail : Bytes)
    (rnd : Rand) (rr : RotRand) (hash : Option Bytes) :
    let c := (responder env bodyOf o n now a data tail rnd rr hash).1
    c.node.peers = n.peers ∧ c.node.table = n.table ∧ c.node.own = n.own ∧ c.panicked = false ∧
    (c.outs = [] ∨ ∃ b, c.outs = [.dgram a b]) := by
  obtain ⟨hnp, hrep⟩ := fresh_attempt_never_completes env bodyOf payloadOk n (hash.getD []) data tail rnd rr
  unfold responder
  simp only []
  cases hm : PeerCrypto.handleMessage env bodyOf payloadOk (newAttempt n (hash.getD [])) data tail rnd rr with
  | panic => exact absurd hm hnp
  | err pc e => exact ⟨rfl, rfl, rfl, rfl, Or.inl rfl⟩
  | ok pc' out res log =>
    have := hrep pc' out res log hm
    subst this
    exact ⟨rfl, rfl, rfl, rfl, Or.inr ⟨out, rfl⟩⟩

/-- **replayed_handshake_keeps_session** (the repaired defect F-C09): a datagram WITH the handshake marker from the address of an established
    peer whose session has no lingering handshake, while no attempt is pending for that address — whatever the bytes are, in particular a
    verbatim replay of a genuine ping — is handled by a throw-away responder: the whole peer list (so the peer record of `a`: session,
    expiry, addresses), the routing table and the own addresses are unchanged, the node does not panic, nothing is written to the interface;
    all the node may emit is one datagram back to `a`. -/
theorem replayed_handshake_keeps_session (env : CryptoEnv) (bodyOf : Init.BodyOf) (o : Oracle) (n : Node) (now : Int) (src : NAddr) (data tail : Bytes)
    (p : Peer)
    (hp : lookupA n.peers (mappedAddr src) = some p)
    (hinit : data.head? = some Generated.INIT_MESSAGE_FIRST_BYTE)
    (hi : p.crypto.init = none) (hq : lookupA n.pending (mappedAddr src) = none) :
    let c := (handleNet env bodyOf o n now src data tail).1
    lookupA c.node.peers (mappedAddr src) = some p ∧ c.node.peers = n.peers ∧ c.node.table = n.table ∧ c.node.own = n.own ∧
    c.panicked = false ∧ (c.outs = [] ∨ ∃ b, c.outs = [.dgram (mappedAddr src) b]) ∧ (∀ b, Out.iface b ∉ c.outs) := by
  intro c
  have hd : dispatch env bodyOf o n now (mappedAddr src) data tail =
      responder env bodyOf o n now (mappedAddr src) data tail (rndFor o { node := n } (mappedAddr src)).1
        (rndFor o { node := n } (mappedAddr src)).2.1 (rndFor o { node := n } (mappedAddr src)).2.2 := by
    unfold dispatch
    simp only [hp, hq, hinit, hi, decide_true, Bool.not_true, Bool.false_eq_true, if_false, Option.isSome_none]
  obtain ⟨h1, h2, h3, h4, h5⟩ := responder_keeps env bodyOf o n now (mappedAddr src) data tail (rndFor o { node := n } (mappedAddr src)).1
    (rndFor o { node := n } (mappedAddr src)).2.1 (rndFor o { node := n } (mappedAddr src)).2.2
  have hc : c = (finish (mappedAddr src) (responder env bodyOf o n now (mappedAddr src) data tail (rndFor o { node := n } (mappedAddr src)).1
        (rndFor o { node := n } (mappedAddr src)).2.1 (rndFor o { node := n } (mappedAddr src)).2.2)).1 := by
    show (handleNet env bodyOf o n now src data tail).1 = _
    rw [handleNet_eq, hd]
  rw [hc]
  simp only [finish_peers, finish_table, finish_own, finish_panicked, finish_outs]
  refine ⟨by rw [h1]; exact hp, h1, h2, h3, h4, h5, ?_⟩
  intro b hb
  rcases h5 with h5 | ⟨b', h5⟩
  · rw [h5] at hb; cases hb
  · rw [h5] at hb
    simp at hb

/-- the peer record `add_new_peer` writes for `a` when the pending attempt of `a` reports a completed handshake -/
def newPeerRecord (n : Node) (now : Int) (a : NAddr) (info : NodeInfo) (pc : PeerCrypto) : Peer :=
  { addrs := info.addrs.foldl (fun l x => if l.contains x then l else l ++ [x]) [a],
    timeout := now + n.cfg.peerTimeout,
    peerTimeout := info.peerTimeout.getD Generated.DEFAULT_PEER_TIMEOUT,
    nodeId := info.nodeId,
    crypto := pc }

theorem addNewPeer_lookup (env : CryptoEnv) (o : Oracle) (c : Ctx) (now : Int) (a : NAddr) (info : NodeInfo) (pc : PeerCrypto)
    (h : lookupA c.node.pending a = some pc) :
    lookupA (addNewPeer env o c now a info).node.peers a = some (newPeerRecord c.node now a info pc) := by
  unfold addNewPeer
  simp only [h]
  unfold updatePeerInfo
  simp only [lookupA_insertA_self]
  rw [connectToPeers_peers]
  exact lookupA_insertA_self _ _ _

theorem isHs_not_iface {x : Out} (h : IsHs x) (b : Bytes) : x ≠ .iface b := by
  obtain ⟨d, b', rfl⟩ := h
  intro h; cases h

/-- a session-layer outcome of the pending attempt of `a`, applied by the node -/
theorem pendingOutcome_applied (env : CryptoEnv) (o : Oracle) (n : Node) (now : Int) (a : NAddr) (p : Peer) (r : POutcome MsgResult)
    (hp : lookupA n.peers a = some p)
    (hmk : ∀ pc out res log, r = .ok pc out res log →
      res = .reply ∨ ∃ pl, (res = .initialized pl ∨ res = .initializedWithReply pl) ∧ payloadOk pl = true) :
    let c := (finish a (applyOutcome env o { node := n } now a false r)).1
    (∀ b, Out.iface b ∉ c.outs) ∧
    ((∀ pc out res log, r = .ok pc out res log → res = .reply) →
      lookupA c.node.peers a = some p ∧ c.node.peers = n.peers ∧ c.node.table = n.table) ∧
    (∀ pc out res log pl, r = .ok pc out res log → res = .initialized pl ∨ res = .initializedWithReply pl →
      ∃ info, Codec.decodeNodeInfo pl = some info ∧ lookupA c.node.peers a = some (newPeerRecord n now a info pc)) := by
  intro c
  have hc : c = (finish a (applyOutcome env o { node := n } now a false r)).1 := rfl
  rw [hc]
  simp only [finish_peers, finish_table, finish_outs]
  rw [applyOutcome_eq]
  cases r with
  | panic =>
    exact ⟨fun b hb => (by simp at hb), fun _ => ⟨hp, rfl, rfl⟩, fun pc out res log pl h => (by cases h)⟩
  | err pc e =>
    exact ⟨fun b hb => (by simp [storePc, countInvalid] at hb), fun _ => ⟨hp, rfl, rfl⟩, fun pc out res log pl h => (by cases h)⟩
  | ok pc out res log =>
    rcases hmk pc out res log rfl with hrep | ⟨pl, hres, hok⟩
    · subst hrep
      refine ⟨fun b hb => ?_, fun _ => ⟨hp, rfl, rfl⟩, fun pc' out' res' log' pl' h h' => ?_⟩
      · simp [handleResult, storePc] at hb
      · simp only [POutcome.ok.injEq] at h
        rw [← h.2.2.1] at h'
        rcases h' with h' | h' <;> cases h'
    · unfold payloadOk at hok
      cases hdec : Codec.decodeNodeInfo pl with
      | none => rw [hdec] at hok; cases hok
      | some info =>
        have hlk : lookupA (addLog log (storePc { node := n } a false pc)).node.pending a = some pc :=
          lookupA_insertA_self _ _ _
        have hext := addNewPeer_ext env o (addLog log (storePc { node := n } a false pc)) now a info
        have hl := addNewPeer_lookup env o (addLog log (storePc { node := n } a false pc)) now a info pc hlk
        have hno : ∀ b, Out.iface b ∉ (addNewPeer env o (addLog log (storePc { node := n } a false pc)) now a info).outs := by
          intro b hb
          rcases hext.mem hb with h | h
          · cases h
          · exact isHs_not_iface h b rfl
        refine ⟨?_, fun hall => ?_, fun pc' out' res' log' pl' h h' => ?_⟩
        · intro b hb
          rcases hres with rfl | rfl
          · simp only [handleResult, hdec] at hb
            exact hno b hb
          · simp only [handleResult, hdec, send_outs, List.mem_append, List.mem_singleton] at hb
            rcases hb with hb | hb
            · exact hno b hb
            · cases hb
        · have := hall pc out res log rfl
          subst this
          rcases hres with h | h <;> cases h
        · simp only [POutcome.ok.injEq] at h
          obtain ⟨h1, _, h3, _⟩ := h
          subst h1 h3
          have hpl : pl' = pl := by
            rcases hres with rfl | rfl <;> rcases h' with h' | h' <;> cases h' <;> rfl
          subst hpl
          refine ⟨info, hdec, ?_⟩
          rcases hres with rfl | rfl
          · simp only [handleResult, hdec]
            exact hl
          · simp only [handleResult, hdec, send_node]
            exact hl

/-- **variant with an attempt pending for `a`**: a datagram with the handshake marker from `a` is handled by the pending attempt `q`, never
    by the established session.  Unless `q` reports a completed handshake the whole peer list and the routing table are unchanged; if it
    does (`.initialized` / `.initializedWithReply` with the peer's node information `info`), the record of `a` is replaced by
    `newPeerRecord`: the session object `q` has become, a fresh expiry, the announced addresses.  Nothing is written to the interface. -/
theorem pending_handles_handshake (env : CryptoEnv) (bodyOf : Init.BodyOf) (o : Oracle) (n : Node) (now : Int) (src : NAddr) (data tail : Bytes)
    (p : Peer) (q : PeerCrypto)
    (hp : lookupA n.peers (mappedAddr src) = some p)
    (hinit : data.head? = some Generated.INIT_MESSAGE_FIRST_BYTE)
    (hq : lookupA n.pending (mappedAddr src) = some q) :
    let r := PeerCrypto.handleMessage env bodyOf payloadOk q data tail
      (rndFor o { node := n } (mappedAddr src)).1 (rndFor o { node := n } (mappedAddr src)).2.1
    let c := (handleNet env bodyOf o n now src data tail).1
    (∀ b, Out.iface b ∉ c.outs) ∧
    ((∀ pc out res log, r = .ok pc out res log → res = .reply) →
      lookupA c.node.peers (mappedAddr src) = some p ∧ c.node.peers = n.peers ∧ c.node.table = n.table) ∧
    (∀ pc out res log pl, r = .ok pc out res log → res = .initialized pl ∨ res = .initializedWithReply pl →
      ∃ info, Codec.decodeNodeInfo pl = some info ∧
        lookupA c.node.peers (mappedAddr src) = some (newPeerRecord n now (mappedAddr src) info pc)) := by
  have hd : dispatch env bodyOf o n now (mappedAddr src) data tail = applyOutcome env o { node := n } now (mappedAddr src) false
      (PeerCrypto.handleMessage env bodyOf payloadOk q data tail
        (rndFor o { node := n } (mappedAddr src)).1 (rndFor o { node := n } (mappedAddr src)).2.1) := by
    unfold dispatch
    simp only [hp, hq, hinit, decide_true, Bool.not_true, Bool.false_eq_true, if_false]
  have hc : (handleNet env bodyOf o n now src data tail).1 = (finish (mappedAddr src) (applyOutcome env o { node := n } now (mappedAddr src) false
      (PeerCrypto.handleMessage env bodyOf payloadOk q data tail
        (rndFor o { node := n } (mappedAddr src)).1 (rndFor o { node := n } (mappedAddr src)).2.1))).1 := by
    rw [handleNet_eq, hd]
  simp only [hc]
  apply pendingOutcome_applied env o n now (mappedAddr src) p _ hp
  intro pc out res log hr
  rcases handleMessage_marker_ok env bodyOf payloadOk q pc data tail _ _ out res log hinit hr with hrep | ⟨pl, ist, st', o', ini, lg, _, hs, hres⟩
  · exact Or.inl hrep
  · exact Or.inr ⟨pl, hres, handleInit_success_ok env bodyOf payloadOk ist st' _ _ o' pl ini lg hs⟩

/-! ### non-vacuity for section 3 -/
namespace Ex3
open VpnCloud.Proofs.InitLemmas

/-- the node of `Ex2` (one established peer `s`, encrypted session, no lingering handshake, nothing pending) receives replayed
    handshake bytes from `s` -/
def replay : Bytes := Generated.INIT_MESSAGE_FIRST_BYTE :: Toy.pong Toy.algos 0

example : lookupA Ex2.n.peers (mappedAddr Ex2.s) = some Ex2.p := rfl
example : replay.head? = some Generated.INIT_MESSAGE_FIRST_BYTE := rfl
example : Ex2.p.crypto.init = none := rfl
example : lookupA Ex2.n.pending (mappedAddr Ex2.s) = none := rfl
/-- … and the same node with an attempt pending for `s` (hypotheses of `pending_handles_handshake`) -/
example : lookupA ({ Ex2.n with pending := [(Ex2.s, { init := some Toy.st })] } : Node).pending (mappedAddr Ex2.s) = some { init := some Toy.st } := rfl

end Ex3

/-! ## 4. housekeeping and pending attempts -/

/-- **pending_expiry_keeps_peer**: housekeeping never removes an established peer whose expiry has not passed because of pending attempts.
    If the keys of the peer list are distinct and the peer's session does not fail in its own `every_second` (whatever randomness it is
    given: `hok`), the peer is still there after `housekeep` with the same expiry — for EVERY value `q` of the list of pending attempts.
    (`hok` holds for every session without lingering handshake that can seal: `everySecond_healthy`.) -/
theorem pending_expiry_keeps_peer (env : CryptoEnv) (o : Oracle) (n : Node) (now : Int) (a : NAddr) (p : Peer)
    (hp : lookupA n.peers a = some p) (hlive : ¬ p.timeout < now) (hnd : (n.peers.map (·.1)).Nodup)
    (hok : ∀ rr pc' e, PeerCrypto.everySecond p.crypto rr ≠ .err pc' e) :
    (lookupA (housekeep env o n now).node.peers a).isSome = true ∧
    (lookupA (housekeep env o n now).node.peers a).map (·.timeout) = some p.timeout ∧
    ∀ q : List (NAddr × PeerCrypto),
      (lookupA (housekeep env o { n with pending := q } now).node.peers a).map (·.timeout) =
        (lookupA (housekeep env o n now).node.peers a).map (·.timeout) := by
  have h1 := housekeep_keeps env o n now a p hp hlive hnd hok
  refine ⟨?_, h1, fun q => ?_⟩
  · cases hl : lookupA (housekeep env o n now).node.peers a with
    | none => rw [hl] at h1; cases h1
    | some _ => rfl
  · rw [h1]
    exact housekeep_keeps env o { n with pending := q } now a p hp hlive hnd hok

/-- the same for a healthy session, stated on the session object: no lingering handshake, and plain or with a core -/
theorem pending_expiry_keeps_healthy_peer (env : CryptoEnv) (o : Oracle) (n : Node) (now : Int) (a : NAddr) (p : Peer)
    (hp : lookupA n.peers a = some p) (hlive : ¬ p.timeout < now) (hnd : (n.peers.map (·.1)).Nodup)
    (hi : p.crypto.init = none) (hs : p.crypto.unencrypted = true ∨ p.crypto.core.isSome = true)
    (q : List (NAddr × PeerCrypto)) :
    (lookupA (housekeep env o { n with pending := q } now).node.peers a).map (·.timeout) = some p.timeout :=
  housekeep_keeps env o { n with pending := q } now a p hp hlive hnd (everySecond_healthy p.crypto hi hs)

/-- **the pending loop of `crypto_housekeep` touches only `pending` and the outputs**: `crypto_housekeep` is the loop over the peers run
    after the loop over the pending attempts, and the latter leaves every component of the node except `pending` as it was — in
    particular peers and table are the same before and after the first fold. -/
theorem pendLoop_touches_only_pending (env : CryptoEnv) (o : Oracle) (c : Ctx) (now : Int) :
    cryptoHousekeep env o c now = peerLoop env o (pendLoop o c) now ∧
    (pendLoop o c).node = { c.node with pending := (pendLoop o c).node.pending } ∧
    (pendLoop o c).node.peers = c.node.peers ∧ (pendLoop o c).node.table = c.node.table := by
  refine ⟨rfl, ?_, pendLoop_peers o c, pendLoop_table o c⟩
  have h := pendLoop_node o c
  unfold noPending at h
  generalize (pendLoop o c).node = n1 at h ⊢
  generalize c.node = n0 at h ⊢
  cases n1
  cases n0
  simp only [Node.mk.injEq] at h ⊢
  simp_all

/-! ### non-vacuity for section 4: the two-peer node of `Cex1` (plain sessions, no lingering handshake), any pending list -/
namespace Ex4

example : lookupA (Cex1.n 50).peers Cex1.a = some Cex1.pa := rfl
example : ¬ Cex1.pa.timeout < 10 := by decide
example : ((Cex1.n 50).peers.map (·.1)).Nodup := by decide
example : ∀ rr pc' e, PeerCrypto.everySecond Cex1.pa.crypto rr ≠ .err pc' e := everySecond_healthy _ rfl (Or.inl rfl)

end Ex4

end VpnCloud.Proofs.C09More
