import VpnCloud.Model.Node
import VpnCloud.Proofs.Lemmas.C02MoreLemmas
import VpnCloud.Proofs.C02
import VpnCloud.Proofs.C02Node
import VpnCloud.Proofs.C06
import VpnCloud.Proofs.C08
import VpnCloud.Proofs.C08Node
import VpnCloud.Proofs.C09More
import VpnCloud.Proofs.C01More
/-
  C02 / C06 at node level — "everything a node emits after the handshake is sealed unless BOTH ends enabled plain" — and C08 for
  sequences of rejected datagrams.

  Steps and histories are those of `C08Node` (`StepAny` / `ReachAny`: any cryptography, oracle, input, time).

  1. `node_wire_is_sealed` (any state, no hypothesis), `node_wire_is_sealed_X` (generic: the sealing session satisfies every closed
     address-indexed session invariant), `node_wire_is_sealed_reach` / `no_plain_all_sealed_cur` (all histories: seal under the CURRENT
     slot key), `wire_sealed_if_session_encrypted` / `…_net` (the mode of the sessions held for the destination decides),
     `iface_wire_is_sealed` (`handle_interface_data`: the sealing session is the record in `peers` before the step),
     `cleartext_not_on_wire` (non-interference of the frame contents with the wire bytes).
  2. `plain_only_if_both` (own side: invariant over all histories; peer side: `session_plain_needs_peer_flag`,
     `responder_plain_needs_ping_flag`, `plain_peer_only_by_plain_handshake`, `mode_kept_other_address`, `mode_kept_without_datagram`).
  3. `tampered_dropped_node` and its instances (`altered_ciphertext_dropped`, `truncated_dropped`, `bad_key_id_dropped`,
     `altered_counter_dropped`, `reflected_dropped`, `cross_connection_dropped`); `core_rejected_dropped`.
  4. `sequence_no_state` (+ `rejected_no_state`, `allRejected_of_forall`, `sequence_no_state_reach`, `nodup_reach`).

  Hypotheses added: `NodupKeys` (pairwise distinct addresses in `peers` / `pending`) wherever the WHOLE node state is claimed unchanged
  (`Ex3.needs_nodup`); it is an invariant of all histories (`nodup_reach`).  The conclusion of `node_wire_is_sealed` has the extra case
  "empty datagram" excluded by `bytes ≠ []`: the node does emit empty datagrams to peers (`Ex1.empty_datagram_emitted`).
-/
namespace VpnCloud.Proofs.C02More

open VpnCloud VpnCloud.Node
open VpnCloud.Proofs.NodeLemmas VpnCloud.Proofs.NodeLemmas2 VpnCloud.Proofs.NodeInvLemmas VpnCloud.Proofs.InitLemmas
open VpnCloud.Proofs.C09MoreLemmas VpnCloud.Proofs.C10MoreLemmas VpnCloud.Proofs.C02MoreLemmas
open VpnCloud.Proofs.C08 (Regular)
open VpnCloud.Proofs.C08Node (StepAny ReachAny)

/-! ## 1. what a node puts on the wire -/

/-- the generic step invariant over one step of any kind -/
theorem wi_step {K : NodeCfg} (S : WS K) (hmsg : ∀ env bodyOf src data tail, MsgClosed S.X env bodyOf src data tail)
    {n : Node} {c : Ctx} (hs : StepAny n c) (h : WI S { node := n }) : WI S c := by
  cases hs with
  | net env bodyOf o _ now src data tail => exact handleNet_WI env bodyOf o n now src data tail h (hmsg env bodyOf (mappedAddr src) data tail)
  | iface o _ now data => exact handleIface_WI o n now data h
  | tick env o _ now => exact housekeep_WI env o n now h
  | dial env o _ addrs => exact connect_WI env o { node := n } addrs h

/-- `bytes` is what the ENCRYPTED session `pc` puts on the wire for the message `ty :: body` with the oracle ciphertext `ct`: the header
    of its crypto core followed by `ct`, with the seal of `ty :: body` recorded in `L`; if the core has a current key slot `k` (it
    always has: `cur < 4`), the header is the 8 bytes key id ++ low 7 bytes of the incremented send counter, and the recorded seal is the
    ideal seal of exactly `ty :: body` under the key of that slot with that counter as nonce -/
def SealedBy (pc : PeerCrypto) (L : Init.SealLog) (bytes : Bytes) : Prop :=
  ∃ core ty body ct, pc.unencrypted = false ∧ pc.core = some core ∧
    bytes = (core.encrypt (ty :: body)).2.hdr ++ ct ∧ (ct, (core.encrypt (ty :: body)).2.body) ∈ L ∧
    ∀ k, core.slots[core.cur]? = some k →
      ∃ hdr, bytes = hdr ++ ct ∧ hdr.length = 8 ∧ hdr = core.cur :: Bytes.ofBE 7 ((k.send + 1) % NONCE_MOD) ∧
        (ct, Body.sealed k.key ((k.send + 1) % NONCE_MOD) (ty :: body)) ∈ L

/-- `bytes` is the cleartext message a session in plain mode puts on the wire -/
def PlainBy (pc : PeerCrypto) (bytes : Bytes) : Prop := pc.unencrypted = true ∧ ∃ ty body, bytes = ty :: body

theorem sealMsg_shape (pc pc' : PeerCrypto) (plain ct bytes : Bytes) (log : Init.SealLog) (L : Init.SealLog)
    (hs : PeerCrypto.sealMsg pc plain ct = (pc', .ok (bytes, log))) (hp : plain ≠ []) (hl : ∀ e ∈ log, e ∈ L) :
    pc'.unencrypted = pc.unencrypted ∧ (PlainBy pc bytes ∨ SealedBy pc L bytes) := by
  refine ⟨sealMsg_ok_unenc pc pc' plain ct bytes log hs, ?_⟩
  cases plain with
  | nil => exact absurd rfl hp
  | cons ty body =>
    unfold PeerCrypto.sealMsg at hs
    split at hs
    · rename_i hu
      simp only [Prod.mk.injEq, Except.ok.injEq] at hs
      exact Or.inl ⟨hu, ty, body, hs.2.1.symm⟩
    · rename_i hu
      split at hs
      · simp only [Prod.mk.injEq] at hs
        cases hs.2
      · rename_i core hc
        simp only [Prod.mk.injEq, Except.ok.injEq] at hs
        obtain ⟨_, hb, hlog⟩ := hs
        have hmem : (ct, (core.encrypt (ty :: body)).2.body) ∈ L := hl _ (by rw [← hlog]; exact List.mem_singleton.2 rfl)
        refine Or.inr ⟨core, ty, body, ct, by simpa using hu, hc, hb.symm, hmem, ?_⟩
        intro k hk
        have he : (core.encrypt (ty :: body)).2 =
            { hdr := core.cur :: Bytes.ofBE 7 ((k.send + 1) % NONCE_MOD), body := .sealed k.key ((k.send + 1) % NONCE_MOD) (ty :: body) } := by
          simp only [Core.encrypt, hk]
        rw [he] at hb hmem
        exact ⟨_, hb.symm, by simp only [List.length_cons, CoreLemmas.ofBE_length], rfl, hmem⟩

/-- **node_wire_is_sealed** (generic form): in every step of a node — `handle_net_message`, `handle_interface_data`, `housekeep`, `connect`,
    any input, oracle and cryptography — every datagram it emits that is neither empty nor a handshake datagram (first byte 0xff) is the
    product of `encrypt_message` of a session `pc`; the session `pc'` that results (the record the node stores for the destination `d` at
    that moment) has the same mode and satisfies EVERY address-indexed session invariant `X` (closed under the session layer: `WS`,
    `MsgClosed`) that the sessions stored before the step satisfy; if `pc` is encrypted, the bytes are header ++ oracle ciphertext and
    the cleartext `ty :: body` enters only as the argument of the ideal seal logged in this step, under the current key of `pc`
    (`SealedBy`); only a session in plain mode emits cleartext (`PlainBy`). -/
theorem node_wire_is_sealed_X {K : NodeCfg} (S : WS K) (hmsg : ∀ env bodyOf src data tail, MsgClosed S.X env bodyOf src data tail)
    {n : Node} {c : Ctx} (hs : StepAny n c) (h : WI S { node := n })
    (d : NAddr) (bytes : Bytes) (hm : Out.dgram d bytes ∈ c.outs) (hne : bytes ≠ [])
    (hnh : bytes.head? ≠ some Generated.INIT_MESSAGE_FIRST_BYTE) :
    ∃ pc pc', S.X d pc' ∧ pc'.unencrypted = pc.unencrypted ∧ (PlainBy pc bytes ∨ SealedBy pc c.log bytes) := by
  have hw := (wi_step S hmsg hs h).outs _ hm
  rcases hw with h0 | ⟨b, hb⟩ | ⟨pc, pc', plain, ct, log, hseal, hp, hl, hx⟩
  · exact absurd h0 hne
  · rw [hb] at hnh
    exact absurd rfl hnh
  · obtain ⟨h1, h2⟩ := sealMsg_shape pc pc' plain ct bytes log c.log hseal hp hl
    exact ⟨pc, pc', hx, h1, h2⟩

/-- the trivial instance of the generic invariant: nothing is required of the sessions -/
def trivWS (K : NodeCfg) (N : Prop) : WS K where
  X := fun _ _ => True
  N := N
  att := fun _ _ _ _ => trivial
  ping := fun _ _ _ _ _ _ _ _ => trivial
  tick_ok := fun _ _ _ _ _ _ _ _ _ => trivial
  x_seal := fun _ _ _ _ _ _ => trivial

theorem trivWS_msgClosed (K : NodeCfg) (N : Prop) (env : CryptoEnv) (bodyOf : Init.BodyOf) (src : NAddr) (data tail : Bytes) :
    MsgClosed (trivWS K N).X env bodyOf src data tail := by
  intro pc rnd rr _
  cases PeerCrypto.handleMessage env bodyOf payloadOk pc data tail rnd rr <;> trivial

/-- **node_wire_is_sealed**: from ANY node state, in every step, every emitted datagram that is neither empty nor a handshake datagram is
    the product of `encrypt_message` of a session `pc`: cleartext `ty :: body` if (and only if) `pc` is in plain mode, otherwise
    8 header bytes ++ oracle ciphertext, the cleartext being only the argument of the ideal seal under the current slot key of `pc`,
    recorded in the log of the step.  No hypothesis.  (The node CAN emit an empty datagram to a peer, also an encrypted one: `handle_init`
    clears the buffer and answers `Continue` when the stage does not match, and `handle_net_message` sends the empty buffer — see
    `Ex1.empty_datagram_emitted`; it carries no cleartext.) -/
theorem node_wire_is_sealed {n : Node} {c : Ctx} (hs : StepAny n c)
    (d : NAddr) (bytes : Bytes) (hm : Out.dgram d bytes ∈ c.outs) (hne : bytes ≠ [])
    (hnh : bytes.head? ≠ some Generated.INIT_MESSAGE_FIRST_BYTE) :
    ∃ pc, PlainBy pc bytes ∨ SealedBy pc c.log bytes := by
  obtain ⟨pc, _, _, _, h⟩ := node_wire_is_sealed_X (trivWS n.cfg False) (trivWS_msgClosed n.cfg False) hs
    (WI.init n rfl (fun _ _ _ => trivial) (fun _ _ _ => trivial) (fun hf => hf.elim) (fun hf => hf.elim)) d bytes hm hne hnh
  exact ⟨pc, h⟩

/-! ### the session "held for `d`": per-address mode -/

/-- the instance "the sessions stored under the address `a0` are encrypted" (closed under everything but a completed handshake) -/
def encWS (K : NodeCfg) (a0 : NAddr) : WS K where
  X := fun a pc => a = a0 → pc.unencrypted = false
  N := False
  att := fun _ _ _ _ _ => rfl
  ping := fun _ _ _ _ _ _ _ _ _ => rfl
  tick_ok := by
    intro a pc rr pc' out res log hx h ha
    have := everySecond_unenc pc rr
    rw [h] at this
    exact this.trans (hx ha)
  x_seal := fun _ pc ty body ct hx ha => (sealMsg_iu pc (ty :: body) ct).2.trans (hx ha)

/-- the steps in which no datagram is received: `handle_interface_data`, `housekeep`, `connect` -/
inductive StepLocal : Node → Ctx → Prop
  | iface (o : Oracle) (n : Node) (now : Int) (data : Bytes) : StepLocal n (Node.handleIface o n now data)
  | tick (env : CryptoEnv) (o : Oracle) (n : Node) (now : Int) : StepLocal n (Node.housekeep env o n now)
  | dial (env : CryptoEnv) (o : Oracle) (n : Node) (addrs : List NAddr) : StepLocal n (Node.connect env o { node := n } addrs)

theorem StepLocal.stepAny {n : Node} {c : Ctx} (h : StepLocal n c) : StepAny n c := by
  cases h with
  | iface o _ now data => exact .iface o n now data
  | tick env o _ now => exact .tick env o n now
  | dial env o _ addrs => exact .dial env o n addrs

theorem wi_stepLocal {K : NodeCfg} (S : WS K) {n : Node} {c : Ctx} (hs : StepLocal n c) (h : WI S { node := n }) : WI S c := by
  cases hs with
  | iface o _ now data => exact handleIface_WI o n now data h
  | tick env o _ now => exact housekeep_WI env o n now h
  | dial env o _ addrs => exact connect_WI env o { node := n } addrs h

/-- **the session held for `d` decides** (steps without a received datagram): in a step of `handle_interface_data`, `housekeep` or
    `connect`, if every session the node stores under `d` before the step — in `peers` or in `pending` — is encrypted, then every
    non-empty non-handshake datagram emitted to `d` is sealed (`SealedBy`): header ++ oracle ciphertext, cleartext only inside the logged
    ideal seal. -/
theorem wire_sealed_if_session_encrypted {n : Node} {c : Ctx} (hs : StepLocal n c)
    (d : NAddr) (hp : ∀ p, (d, p) ∈ n.peers → p.crypto.unencrypted = false) (hq : ∀ pc, (d, pc) ∈ n.pending → pc.unencrypted = false)
    (bytes : Bytes) (hm : Out.dgram d bytes ∈ c.outs) (hne : bytes ≠ [])
    (hnh : bytes.head? ≠ some Generated.INIT_MESSAGE_FIRST_BYTE) :
    ∃ pc, SealedBy pc c.log bytes := by
  have h0 : WI (encWS n.cfg d) { node := n } :=
    WI.init n rfl (fun a pc hm ha => hq pc (ha ▸ hm)) (fun a p hm ha => hp p (ha ▸ hm)) (fun hf => hf.elim) (fun hf => hf.elim)
  have hwi : WI (encWS n.cfg d) c := wi_stepLocal _ hs h0
  rcases hwi.outs _ hm with h1 | ⟨b, hb⟩ | ⟨pc, pc', plain, ct, log, hseal, hpl, hl, hx⟩
  · exact absurd h1 hne
  · rw [hb] at hnh
    exact absurd rfl hnh
  · obtain ⟨h1, h2⟩ := sealMsg_shape pc pc' plain ct bytes log c.log hseal hpl hl
    rcases h2 with ⟨hu, _⟩ | h2
    · have : pc'.unencrypted = false := hx rfl
      rw [h1, hu] at this
      cases this
    · exact ⟨pc, h2⟩

/-! ### `handle_interface_data`, precisely: the sealing session is the record in `peers` before the step -/

/-- every datagram emitted so far was sealed (as message `ty :: body`) by the session that `n` stores for its destination, and the seal is
    in the log of the step -/
def IfaceP (n : Node) (ty : Nat) (body : Bytes) (c : Ctx) : Prop :=
  ∀ x ∈ c.outs, ∃ a bytes p ct pc' lg, x = .dgram a bytes ∧ lookupA n.peers a = some p ∧
    PeerCrypto.sendMessage p.crypto ty body ct = (pc', .ok (bytes, lg)) ∧ ∀ e ∈ lg, e ∈ c.log

theorem foldl_sendMsg_precise (o : Oracle) (n : Node) (ty : Nat) (body : Bytes) :
    ∀ (l : List NAddr) (c : Ctx), l.Nodup → (∀ a ∈ l, lookupA c.node.peers a = lookupA n.peers a) → IfaceP n ty body c →
      IfaceP n ty body (l.foldl (fun c a => (sendMsg o c a ty body).getD c) c)
  | [], _, _, _, h => h
  | a :: l, c, hnd, hc, h => by
    have hnd' := List.nodup_cons.1 hnd
    simp only [List.foldl_cons]
    apply foldl_sendMsg_precise o n ty body l _ hnd'.2
    · intro b hb
      have hba : b ≠ a := fun e => hnd'.1 (e ▸ hb)
      exact (sendMsg_other o c a b ty body hba).1.trans (hc b (List.mem_cons_of_mem _ hb))
    · have ha := hc a (List.mem_cons_self ..)
      unfold sendMsg
      split
      · exact h
      · rename_i p hp
        simp only []
        split
        · rename_i pc' bytes log hs
          simp only [Option.getD_some]
          intro x hx
          simp only [send_outs, addLog_outs, List.mem_append, List.mem_singleton] at hx
          rcases hx with hx | hx
          · obtain ⟨a', b', p', ct, pc'', lg, h1, h2, h3, h4⟩ := h x hx
            exact ⟨a', b', p', ct, pc'', lg, h1, h2, h3, fun e he => List.mem_append_left _ (h4 e he)⟩
          · exact ⟨a, bytes, p, _, pc', log, hx, ha ▸ hp, hs, fun e he => List.mem_append_right _ he⟩
        · exact h

/-- **iface_wire_is_sealed** (`handle_interface_data`, the session is the record in `peers` BEFORE the step): with pairwise distinct peer
    addresses (`nodup_reach`), every datagram the node emits for a frame read from its interface goes to a peer `d`, and is what the session
    `p.crypto` that the node holds for `d` before the step makes of `DATA :: frame`: if that session is encrypted, 8 header bytes ++ oracle
    ciphertext with the ideal seal of exactly `DATA :: frame` under its current slot key logged in this step (`SealedBy p.crypto`); the
    frame travels in the clear only if that session is in plain mode. -/
theorem iface_wire_is_sealed (o : Oracle) (n : Node) (now : Int) (data : Bytes) (hnd : (n.peers.map (·.1)).Nodup)
    (x : Out) (hm : x ∈ (handleIface o n now data).outs) :
    ∃ d bytes p, x = .dgram d bytes ∧ lookupA n.peers d = some p ∧
      (PlainBy p.crypto bytes ∨ SealedBy p.crypto (handleIface o n now data).log bytes) := by
  have key : IfaceP n Generated.MESSAGE_TYPE_DATA data (handleIface o n now data) := by
    have h0 : ∀ tb, IfaceP n Generated.MESSAGE_TYPE_DATA data { node := { n with table := tb } } := fun tb x hx => by cases hx
    unfold handleIface
    simp only []
    split
    · exact fun x hx => by cases hx
    · split
      · split
        · rename_i a _
          exact foldl_sendMsg_precise o n _ data [a] _ (by simp) (fun _ _ => rfl) (h0 _)
        · exact h0 _
      · split
        · exact foldl_sendMsg_precise o n _ data _ _ hnd (fun _ _ => rfl) (h0 _)
        · exact fun x hx => by cases hx
  obtain ⟨d, bytes, p, ct, pc', lg, hx, hp, hs, hl⟩ := key x hm
  exact ⟨d, bytes, p, hx, hp, (sealMsg_shape p.crypto pc' _ ct bytes lg _ hs (by simp) hl).2⟩

/-! ### non-interference: the frame contents do not reach the wire of an encrypted peer -/

/-- **cleartext_not_on_wire**: with the ideal AEAD (ciphertext bytes chosen by the oracle), two runs of `handle_interface_data` from the
    same state with the same oracle on two frames that parse to the same addresses — ANY contents otherwise, of any length — emit the same
    sequence of destinations, bit-identical datagram bytes to every destination in `enc` (a set of addresses whose sessions are
    encrypted), and end in the same node state: the payload content does not interfere with the wire bytes (`redact enc` keeps the
    destination of every datagram and the bytes of those to `enc`).  (Same length is not needed in the model: the ciphertext is the
    oracle's; in the implementation its length is the frame's length + 16.) -/
theorem cleartext_not_on_wire (o : Oracle) (n : Node) (now : Int) (d1 d2 : Bytes) (enc : NAddr → Bool)
    (hpa : parseAddrs n d1 = parseAddrs n d2)
    (henc : ∀ a p, (a, p) ∈ n.peers → enc a = true → p.crypto.unencrypted = false) :
    (handleIface o n now d1).outs.map (redact enc) = (handleIface o n now d2).outs.map (redact enc) ∧
    (handleIface o n now d1).node = (handleIface o n now d2).node := by
  have h := handleIface_sim o enc n now d1 d2 hpa henc
  exact ⟨h.outs, h.node⟩

/-- … in particular, if all peers' sessions are encrypted, the two runs emit exactly the same outputs -/
theorem cleartext_not_on_wire_all (o : Oracle) (n : Node) (now : Int) (d1 d2 : Bytes)
    (hpa : parseAddrs n d1 = parseAddrs n d2) (henc : ∀ a p, (a, p) ∈ n.peers → p.crypto.unencrypted = false) :
    (handleIface o n now d1).outs = (handleIface o n now d2).outs := by
  have h := (cleartext_not_on_wire o n now d1 d2 (fun _ => true) hpa (fun a p hm _ => henc a p hm)).1
  have hid : ∀ l : List Out, l.map (redact (fun _ => true)) = l := by
    intro l
    induction l with
    | nil => rfl
    | cons x l ih =>
      rw [List.map_cons, ih]
      cases x <;> rfl
  rw [hid, hid] at h
  exact h

/-! ## 2. plain only if both -/

/-- the own side of "plain only if both", as a state invariant: every stored session is `PlainOK` for the node's configuration (it is in
    plain mode only if the node enabled plain; its handshake object advertises the node's algorithm list) -/
def PlainInv (n : Node) : Prop :=
  (∀ a p, (a, p) ∈ n.peers → PlainOK n.cfg p.crypto) ∧ (∀ a pc, (a, pc) ∈ n.pending → PlainOK n.cfg pc)

theorem plainInv_wi (n : Node) (h : PlainInv n) : WI (plainWS n.cfg False) { node := n } :=
  WI.init n rfl h.2 h.1 (fun hf => hf.elim) (fun hf => hf.elim)

theorem plainInv_step {n : Node} {c : Ctx} (hs : StepAny n c) (h : PlainInv n) : PlainInv c.node ∧ c.node.cfg = n.cfg := by
  have hw := wi_step (plainWS n.cfg False) (plainWS_msgClosed n.cfg False) hs (plainInv_wi n h)
  refine ⟨⟨?_, ?_⟩, hw.cfg⟩
  · intro a p hm
    rw [hw.cfg]
    exact hw.peers a p hm
  · intro a pc hm
    rw [hw.cfg]
    exact hw.pend a pc hm

theorem plainInv_reach {n0 n : Node} (h0 : PlainInv n0) (h : ReachAny n0 n) : PlainInv n := by
  induction h with
  | init => exact h0
  | step _ hs ih => exact (plainInv_step hs ih).1

/-- **plain_only_if_both** (own side, all histories): in every state reachable from a node without sessions — whatever the network sends —
    a session in `peers` (or a pending one) is in plain mode (`unencrypted = true`) only if the node's own configuration enables plain.
    So a node that did not enable plain never holds an unencrypted session. -/
theorem plain_only_if_both (n0 n : Node) (h0 : n0.peers = [] ∧ n0.pending = []) (h : ReachAny n0 n) :
    (∀ a p, (a, p) ∈ n.peers → p.crypto.unencrypted = true → n.cfg.algos.allowUnencrypted = true) ∧
    (∀ a pc, (a, pc) ∈ n.pending → pc.unencrypted = true → n.cfg.algos.allowUnencrypted = true) := by
  have hinv : PlainInv n := by
    apply plainInv_reach _ h
    obtain ⟨h1, h2⟩ := h0
    exact ⟨fun a p hm => (by rw [h1] at hm; cases hm), fun a pc hm => (by rw [h2] at hm; cases hm)⟩
  exact ⟨fun a p hm hu => (hinv.1 a p hm).1 hu, fun a pc hm hu => (hinv.2 a pc hm).1 hu⟩

/-- **C02 for a node that did not enable plain** (all histories): every non-empty non-handshake datagram it ever emits is sealed — header ++
    oracle ciphertext, the cleartext only inside the logged ideal seal under the current key of the sealing session. -/
theorem no_plain_all_sealed (n0 n : Node) (c : Ctx) (h0 : n0.peers = [] ∧ n0.pending = []) (h : ReachAny n0 n) (hs : StepAny n c)
    (hcfg : n0.cfg.algos.allowUnencrypted = false)
    (d : NAddr) (bytes : Bytes) (hm : Out.dgram d bytes ∈ c.outs) (hne : bytes ≠ [])
    (hnh : bytes.head? ≠ some Generated.INIT_MESSAGE_FIRST_BYTE) :
    ∃ pc, SealedBy pc c.log bytes := by
  have hinv : PlainInv n := by
    apply plainInv_reach _ h
    obtain ⟨h1, h2⟩ := h0
    exact ⟨fun a p hm => (by rw [h1] at hm; cases hm), fun a pc hm => (by rw [h2] at hm; cases hm)⟩
  obtain ⟨pc, pc', hx, hu, hb⟩ := node_wire_is_sealed_X (plainWS n.cfg False) (plainWS_msgClosed n.cfg False) hs (plainInv_wi n hinv)
    d bytes hm hne hnh
  rcases hb with ⟨hpl, _⟩ | hb
  · have : n.cfg.algos.allowUnencrypted = true := hx.1 (hu.trans hpl)
    rw [(C01More.cfg_const h).1, hcfg] at this
    cases this
  · exact ⟨pc, hb⟩

/-! ### all histories: the current key slot exists, so the seal is always under the current key of the sealing session -/

/-- all crypto cores the node holds (of sessions and of their handshake objects) have four slots and a current slot among them -/
def CoresWF (n : Node) : Prop :=
  (∀ a p, (a, p) ∈ n.peers → PCWF p.crypto) ∧ (∀ a pc, (a, pc) ∈ n.pending → PCWF pc)

theorem coresWF_wi (n : Node) (h : CoresWF n) : WI (coreWS n.cfg) { node := n } :=
  WI.init n rfl h.2 h.1 (fun hf => hf.elim) (fun hf => hf.elim)

theorem coresWF_step {n : Node} {c : Ctx} (hs : StepAny n c) (h : CoresWF n) : CoresWF c.node := by
  have hw := wi_step (coreWS n.cfg) (coreWS_msgClosed n.cfg) hs (coresWF_wi n h)
  exact ⟨hw.peers, hw.pend⟩

theorem coresWF_reach {n0 n : Node} (h0 : n0.peers = [] ∧ n0.pending = []) (h : ReachAny n0 n) : CoresWF n := by
  induction h with
  | init =>
    obtain ⟨h1, h2⟩ := h0
    exact ⟨fun a p hm => (by rw [h1] at hm; cases hm), fun a pc hm => (by rw [h2] at hm; cases hm)⟩
  | step _ hs ih => exact coresWF_step hs ih

theorem CoreWF_of_encrypt (c : Core) (p : Bytes) (h : CoreWF (c.encrypt p).1) : CoreWF c := by
  unfold Core.encrypt at h
  split at h
  · exact h
  · exact ⟨by have := h.1; simp only [List.length_set] at this; exact this, h.2⟩

/-- `bytes` is what the ENCRYPTED session `pc` puts on the wire for a message `ty :: body`: the 8 header bytes (id of the current key slot,
    low 7 bytes of its incremented send counter) followed by the oracle ciphertext `ct`, and `L` records `ct` as the ideal seal of exactly
    `ty :: body` under the key `k` of the CURRENT slot of `pc`, with that counter as nonce -/
def SealedCur (pc : PeerCrypto) (L : Init.SealLog) (bytes : Bytes) : Prop :=
  ∃ core k ty body ct, pc.unencrypted = false ∧ pc.core = some core ∧ core.slots[core.cur]? = some k ∧
    bytes = (core.cur :: Bytes.ofBE 7 ((k.send + 1) % NONCE_MOD)) ++ ct ∧
    (core.cur :: Bytes.ofBE 7 ((k.send + 1) % NONCE_MOD)).length = 8 ∧
    (ct, Body.sealed k.key ((k.send + 1) % NONCE_MOD) (ty :: body)) ∈ L

theorem sealedCur_of_sealedBy {pc pc' : PeerCrypto} {plain ct bytes : Bytes} {log L : Init.SealLog}
    (hs : PeerCrypto.sealMsg pc plain ct = (pc', .ok (bytes, log))) (hwf : PCWF pc') (h : SealedBy pc L bytes) : SealedCur pc L bytes := by
  obtain ⟨core, ty, body, ct', hu, hc, _, _, hk⟩ := h
  have hcore : CoreWF core := by
    unfold PeerCrypto.sealMsg at hs
    simp only [hu, Bool.false_eq_true, if_false, hc, Prod.mk.injEq] at hs
    apply CoreWF_of_encrypt core plain
    apply hwf.1
    rw [← hs.1]
  obtain ⟨k, hk'⟩ : ∃ k, core.slots[core.cur]? = some k := by
    have hlt : core.cur < core.slots.length := by rw [hcore.1]; exact hcore.2
    exact ⟨core.slots[core.cur], List.getElem?_eq_getElem hlt⟩
  obtain ⟨hdr, hb, hlen, hh, hm⟩ := hk k hk'
  subst hh
  exact ⟨core, k, ty, body, ct', hu, hc, hk', hb, hlen, hm⟩

/-- **node_wire_is_sealed in all histories**: in every state reachable from a node without sessions, in every step, every emitted datagram
    that is neither empty nor a handshake datagram is either the cleartext message of a session in plain mode, or `hdr ++ ct` with `hdr`
    the 8 header bytes and `(ct, .sealed k nonce (ty :: body))` in the log of the step for the CURRENT slot key `k` of the (encrypted)
    sealing session — unconditionally: the current slot always exists (`CoresWF`). -/
theorem node_wire_is_sealed_reach (n0 n : Node) (c : Ctx) (h0 : n0.peers = [] ∧ n0.pending = []) (h : ReachAny n0 n) (hs : StepAny n c)
    (d : NAddr) (bytes : Bytes) (hm : Out.dgram d bytes ∈ c.outs) (hne : bytes ≠ [])
    (hnh : bytes.head? ≠ some Generated.INIT_MESSAGE_FIRST_BYTE) :
    ∃ pc, PlainBy pc bytes ∨ SealedCur pc c.log bytes := by
  have hw := (wi_step (coreWS n.cfg) (coreWS_msgClosed n.cfg) hs (coresWF_wi n (coresWF_reach h0 h))).outs _ hm
  rcases hw with h1 | ⟨b, hb⟩ | ⟨pc, pc', plain, ct, log, hseal, hp, hl, hx⟩
  · exact absurd h1 hne
  · rw [hb] at hnh
    exact absurd rfl hnh
  · rcases (sealMsg_shape pc pc' plain ct bytes log c.log hseal hp hl).2 with h2 | h2
    · exact ⟨pc, Or.inl h2⟩
    · exact ⟨pc, Or.inr (sealedCur_of_sealedBy hseal hx h2)⟩

/-- the conjunction of two closed session predicates is closed -/
def andWS {K : NodeCfg} (S1 S2 : WS K) : WS K where
  X := fun a pc => S1.X a pc ∧ S2.X a pc
  N := S1.N ∧ S2.N
  att := fun n hash a h => ⟨S1.att n hash a h, S2.att n hash a h⟩
  ping := fun env n hash rnd ist a h hi => ⟨S1.ping env n hash rnd ist a h hi, S2.ping env n hash rnd ist a h hi⟩
  tick_ok := fun a pc rr pc' out res log hx h => ⟨S1.tick_ok a pc rr pc' out res log hx.1 h, S2.tick_ok a pc rr pc' out res log hx.2 h⟩
  x_seal := fun a pc ty body ct hx => ⟨S1.x_seal a pc ty body ct hx.1, S2.x_seal a pc ty body ct hx.2⟩

theorem andWS_msgClosed {K : NodeCfg} (S1 S2 : WS K) (env : CryptoEnv) (bodyOf : Init.BodyOf) (src : NAddr) (data tail : Bytes)
    (h1 : MsgClosed S1.X env bodyOf src data tail) (h2 : MsgClosed S2.X env bodyOf src data tail) :
    MsgClosed (andWS S1 S2).X env bodyOf src data tail := by
  intro pc rnd rr hx
  have a := h1 pc rnd rr hx.1
  have b := h2 pc rnd rr hx.2
  generalize PeerCrypto.handleMessage env bodyOf payloadOk pc data tail rnd rr = r at a b
  cases r with
  | panic => trivial
  | err pc' e => exact ⟨a, b⟩
  | ok pc' out res log => exact ⟨a, b⟩

/-- **C02 for a node that did not enable plain, all histories, current key**: every non-empty non-handshake datagram such a node ever
    emits is `hdr ++ ct` (8 header bytes, oracle ciphertext) with the cleartext only inside the ideal seal, logged in the step, under the
    CURRENT slot key of the sealing session. -/
theorem no_plain_all_sealed_cur (n0 n : Node) (c : Ctx) (h0 : n0.peers = [] ∧ n0.pending = []) (h : ReachAny n0 n) (hs : StepAny n c)
    (hcfg : n0.cfg.algos.allowUnencrypted = false)
    (d : NAddr) (bytes : Bytes) (hm : Out.dgram d bytes ∈ c.outs) (hne : bytes ≠ [])
    (hnh : bytes.head? ≠ some Generated.INIT_MESSAGE_FIRST_BYTE) :
    ∃ pc, SealedCur pc c.log bytes := by
  have hinv : PlainInv n := by
    apply plainInv_reach _ h
    obtain ⟨h1, h2⟩ := h0
    exact ⟨fun a p hm => (by rw [h1] at hm; cases hm), fun a pc hm => (by rw [h2] at hm; cases hm)⟩
  have hcw := coresWF_reach h0 h
  have hinit : WI (andWS (plainWS n.cfg False) (coreWS n.cfg)) { node := n } :=
    WI.init n rfl (fun a pc hm => ⟨hinv.2 a pc hm, hcw.2 a pc hm⟩) (fun a p hm => ⟨hinv.1 a p hm, hcw.1 a p hm⟩)
      (fun hf => hf.1.elim) (fun hf => hf.1.elim)
  have hw := (wi_step (andWS (plainWS n.cfg False) (coreWS n.cfg))
    (fun env bodyOf src data tail => andWS_msgClosed _ _ env bodyOf src data tail (plainWS_msgClosed n.cfg False env bodyOf src data tail)
      (coreWS_msgClosed n.cfg env bodyOf src data tail)) hs hinit).outs _ hm
  rcases hw with h1 | ⟨b, hb⟩ | ⟨pc, pc', plain, ct, log, hseal, hp, hl, hx⟩
  · exact absurd h1 hne
  · rw [hb] at hnh
    exact absurd rfl hnh
  · obtain ⟨hu1, h2⟩ := sealMsg_shape pc pc' plain ct bytes log c.log hseal hp hl
    rcases h2 with ⟨hpl, _⟩ | h2
    · have : n.cfg.algos.allowUnencrypted = true := hx.1.1 (hu1.trans hpl)
      rw [(C01More.cfg_const h).1, hcfg] at this
      cases this
    · exact ⟨pc, sealedCur_of_sealedBy hseal hx.2 h2⟩

/-! ### the peer's side -/

/-- `select_algorithm` answers "plain" exactly if both lists carry the plain flag (`C06.plain_iff_both` for the reference, here directly for
    the model function, no `NoDup` needed) -/
theorem select_plain_iff_both (own peer : Algos) :
    Init.selectAlgorithm own peer = .ok none ↔ (own.allowUnencrypted = true ∧ peer.allowUnencrypted = true) :=
  ⟨selectAlgorithm_none own peer, NegoLemmas.selectAlgorithm_plain own peer⟩

/-- **peer side, initiator and responder, at the session**: a session that was encrypted (or not yet established) comes out of
    `handle_message` in plain mode only for a datagram `0xff :: w` where `read_from` accepts `w` under the trusted keys of the session's
    handshake object, and `w` is
    * a PONG whose advertised algorithm list carries the plain flag — and the object's own list carries it too (initiator), or
    * a PENG, closing a handshake in which this object had answered the ping without installing a key (responder; by
      `responder_plain_needs_ping_flag` it had then chosen plain because the PING advertised it). -/
theorem session_plain_needs_peer_flag (env : CryptoEnv) (bodyOf : Init.BodyOf) (ok : Bytes → Bool) (pc pc' : PeerCrypto) (data tail : Bytes)
    (rnd : Rand) (rr : RotRand) (out : Bytes) (res : MsgResult) (log : Init.SealLog)
    (h : PeerCrypto.handleMessage env bodyOf ok pc data tail rnd rr = .ok pc' out res log)
    (hu : pc.unencrypted = false) (hu' : pc'.unencrypted = true) :
    ∃ w ist m k, data = Generated.INIT_MESSAGE_FIRST_BYTE :: w ∧ pc.init = some ist ∧ InitMsg.readFrom env w ist.trusted = .ok (m, k) ∧
      ((∃ hb eb A pl, m = .pong hb eb A pl ∧ ist.algos.allowUnencrypted = true ∧ A.allowUnencrypted = true) ∨
       (∃ hb pl, m = .peng hb pl ∧ ist.stage = Generated.STAGE_PENG ∧ ist.crypto = none)) := by
  have hc := handleMessage_unenc_cases env bodyOf ok pc data tail rnd rr hu
  rw [h] at hc
  obtain ⟨w, ist, ist', o', p, ini, l, hd, hi, hh, hcn⟩ := hc hu'
  obtain ⟨m, k, hr, hst, hcase⟩ := handleInit_plain_success env bodyOf ok ist ist' w rnd o' p ini l hh hcn
  refine ⟨w, ist, m, k, hd, hi, hr, ?_⟩
  rcases hcase with ⟨hb, eb, A, pl, rfl, hsel⟩ | ⟨hb, pl, rfl, hcr⟩
  · obtain ⟨h1, h2⟩ := selectAlgorithm_none _ _ hsel
    exact Or.inl ⟨hb, eb, A, pl, rfl, h1, h2⟩
  · exact Or.inr ⟨hb, pl, rfl, hst.symm, hcr⟩

/-- **peer side, responder**: a handshake object comes to the stage "ping answered, waiting for the peng" WITHOUT a key only by
    processing a PING (accepted by `read_from` under its trusted keys) whose advertised algorithm list carries the plain flag — and its
    own list carries it too. -/
theorem responder_plain_needs_ping_flag (env : CryptoEnv) (bodyOf : Init.BodyOf) (ok : Bytes → Bool) (st st' : InitSt) (w : Bytes) (rnd : Rand)
    (x : Bytes × InitResult × Init.SealLog)
    (h : Init.handleInit env bodyOf ok st w rnd = .ok st' x) (hst : st.stage ≠ Generated.STAGE_PENG)
    (hst' : st'.stage = Generated.STAGE_PENG) (hc : st'.crypto = none) :
    ∃ k hb eb A, InitMsg.readFrom env w st.trusted = .ok (.ping hb eb A, k) ∧
      st.algos.allowUnencrypted = true ∧ A.allowUnencrypted = true := by
  obtain ⟨k, hb, eb, A, hr, hsel⟩ := handleInit_ping_plain env bodyOf ok st st' w rnd x h hst hst' hc
  obtain ⟨h1, h2⟩ := selectAlgorithm_none _ _ hsel
  exact ⟨k, hb, eb, A, hr, h1, h2⟩

/-- the datagram is a handshake message that can end a handshake in plain mode: `0xff :: w` with `w` accepted by `read_from` (under some
    list `T` of trusted keys — that of the handshake object that processed it) as a PONG that advertises plain, or as a PENG -/
def PlainHandshake (env : CryptoEnv) (data : Bytes) : Prop :=
  ∃ w T m k, data = Generated.INIT_MESSAGE_FIRST_BYTE :: w ∧ InitMsg.readFrom env w T = .ok (m, k) ∧
    ((∃ hb eb A pl, m = .pong hb eb A pl ∧ A.allowUnencrypted = true) ∨ (∃ hb pl, m = .peng hb pl))

/-- the instance "a session stored under `s` is in plain mode only if `Φ`" -/
def flipWS (K : NodeCfg) (s : NAddr) (Φ : Prop) : WS K where
  X := fun a pc => a = s → pc.unencrypted = true → Φ
  N := False
  att := fun _ _ _ _ _ hu => by cases hu
  ping := fun _ _ _ _ _ _ _ _ _ hu => by cases hu
  tick_ok := by
    intro a pc rr pc' out res log hx h ha hu
    have := everySecond_unenc pc rr
    rw [h] at this
    exact hx ha (this ▸ hu)
  x_seal := fun _ pc ty body ct hx ha hu => hx ha ((sealMsg_iu pc (ty :: body) ct).2 ▸ hu)

theorem flipWS_msgClosed (K : NodeCfg) (env : CryptoEnv) (bodyOf : Init.BodyOf) (s : NAddr) (data tail : Bytes) (Φ : Prop)
    (hΦ : PlainHandshake env data → Φ) : MsgClosed (flipWS K s Φ).X env bodyOf s data tail := by
  intro pc rnd rr hx
  cases hu : pc.unencrypted with
  | true =>
    have hphi : Φ := hx rfl hu
    cases PeerCrypto.handleMessage env bodyOf payloadOk pc data tail rnd rr with
    | panic => trivial
    | err pc' e => exact fun _ _ => hphi
    | ok pc' out res log => exact fun _ _ => hphi
  | false =>
    have hc := handleMessage_unenc_cases env bodyOf payloadOk pc data tail rnd rr hu
    cases hm : PeerCrypto.handleMessage env bodyOf payloadOk pc data tail rnd rr with
    | panic => trivial
    | err pc' e =>
      rw [hm] at hc
      intro _ hu'
      have : pc'.unencrypted = false := hc
      rw [this] at hu'
      cases hu'
    | ok pc' out res log =>
      intro _ hu'
      obtain ⟨w, ist, m, k, hd, _, hr, hcase⟩ := session_plain_needs_peer_flag env bodyOf payloadOk pc pc' data tail rnd rr out res log hm hu hu'
      refine hΦ ⟨w, ist.trusted, m, k, hd, hr, ?_⟩
      rcases hcase with ⟨hb, eb, A, pl, rfl, _, h2⟩ | ⟨hb, pl, rfl, _⟩
      · exact Or.inl ⟨hb, eb, A, pl, rfl, h2⟩
      · exact Or.inr ⟨hb, pl, rfl⟩

/-- **plain_peer_only_by_plain_handshake** (the step that adds / replaces the peer): if the node holds no plain-mode session for the
    sender's address before a datagram is processed — neither in `peers` nor in `pending` — and afterwards the session stored for the
    sender in `peers` (or in `pending`) is in plain mode, then the datagram is a handshake message `0xff :: w` that `read_from` accepted
    and that is a PONG advertising plain in its algorithm list, or a PENG (closing a handshake whose PING had advertised plain,
    `responder_plain_needs_ping_flag`).  Together with the own side (`plain_only_if_both`): plain only if BOTH advertised it. -/
theorem plain_peer_only_by_plain_handshake (env : CryptoEnv) (bodyOf : Init.BodyOf) (o : Oracle) (n : Node) (now : Int) (src : NAddr)
    (data tail : Bytes)
    (hp : ∀ p, (mappedAddr src, p) ∈ n.peers → p.crypto.unencrypted = false)
    (hq : ∀ pc, (mappedAddr src, pc) ∈ n.pending → pc.unencrypted = false) :
    let c := (handleNet env bodyOf o n now src data tail).1
    (∀ p', (mappedAddr src, p') ∈ c.node.peers → p'.crypto.unencrypted = true → PlainHandshake env data) ∧
    (∀ pc', (mappedAddr src, pc') ∈ c.node.pending → pc'.unencrypted = true → PlainHandshake env data) := by
  intro c
  have h0 : WI (flipWS n.cfg (mappedAddr src) (PlainHandshake env data)) { node := n } :=
    WI.init n rfl (fun a pc hm ha hu => by rw [hq pc (ha ▸ hm)] at hu; cases hu)
      (fun a p hm ha hu => by rw [hp p (ha ▸ hm)] at hu; cases hu) (fun hf => hf.elim) (fun hf => hf.elim)
  have hw := handleNet_WI env bodyOf o n now src data tail h0 (flipWS_msgClosed n.cfg env bodyOf (mappedAddr src) data tail _ id)
  exact ⟨fun p' hm hu => hw.peers _ p' hm rfl hu, fun pc' hm hu => hw.pend _ pc' hm rfl hu⟩

/-- **mode_kept_other_address**: a datagram from `src` never changes the mode of the sessions stored under another address -/
theorem mode_kept_other_address (env : CryptoEnv) (bodyOf : Init.BodyOf) (o : Oracle) (n : Node) (now : Int) (src : NAddr) (data tail : Bytes)
    (a : NAddr) (ha : a ≠ mappedAddr src)
    (hp : ∀ p, (a, p) ∈ n.peers → p.crypto.unencrypted = false) (hq : ∀ pc, (a, pc) ∈ n.pending → pc.unencrypted = false) :
    let c := (handleNet env bodyOf o n now src data tail).1
    (∀ p', (a, p') ∈ c.node.peers → p'.crypto.unencrypted = false) ∧ (∀ pc', (a, pc') ∈ c.node.pending → pc'.unencrypted = false) := by
  intro c
  have h0 : WI (encWS n.cfg a) { node := n } :=
    WI.init n rfl (fun b pc hm hb => hq pc (hb ▸ hm)) (fun b p hm hb => hp p (hb ▸ hm)) (fun hf => hf.elim) (fun hf => hf.elim)
  have hcl : MsgClosed (encWS n.cfg a).X env bodyOf (mappedAddr src) data tail := by
    intro pc rnd rr _
    cases PeerCrypto.handleMessage env bodyOf payloadOk pc data tail rnd rr with
    | panic => trivial
    | err pc' e => exact fun h => absurd h.symm ha
    | ok pc' out res log => exact fun h => absurd h.symm ha
  have hw := handleNet_WI env bodyOf o n now src data tail h0 hcl
  exact ⟨fun p' hm => hw.peers _ p' hm rfl, fun pc' hm => hw.pend _ pc' hm rfl⟩

/-- **mode_kept_without_datagram**: `handle_interface_data`, `housekeep` and `connect` never turn an encrypted (or pending) session into a
    plain one: if all sessions stored under `a` are encrypted before, they are afterwards -/
theorem mode_kept_without_datagram {n : Node} {c : Ctx} (hs : StepLocal n c) (a : NAddr)
    (hp : ∀ p, (a, p) ∈ n.peers → p.crypto.unencrypted = false) (hq : ∀ pc, (a, pc) ∈ n.pending → pc.unencrypted = false) :
    (∀ p', (a, p') ∈ c.node.peers → p'.crypto.unencrypted = false) ∧ (∀ pc', (a, pc') ∈ c.node.pending → pc'.unencrypted = false) := by
  have h0 : WI (encWS n.cfg a) { node := n } :=
    WI.init n rfl (fun b pc hm hb => hq pc (hb ▸ hm)) (fun b p hm hb => hp p (hb ▸ hm)) (fun hf => hf.elim) (fun hf => hf.elim)
  have hw : WI (encWS n.cfg a) c := wi_stepLocal _ hs h0
  exact ⟨fun p' hm => hw.peers _ p' hm rfl, fun pc' hm => hw.pend _ pc' hm rfl⟩

/-- **the session held for `d` decides** (`handle_net_message`): if every session the node stores under `d` before the datagram is
    processed is encrypted, then every non-empty non-handshake datagram it emits to `d` while processing it is sealed (`SealedBy`) —
    unless `d` is the sender and the datagram is a handshake message that ends a handshake in plain mode (`PlainHandshake`: a PONG
    advertising plain, or a PENG), the only way the session for `d` can have become a plain one. -/
theorem wire_sealed_if_session_encrypted_net (env : CryptoEnv) (bodyOf : Init.BodyOf) (o : Oracle) (n : Node) (now : Int) (src : NAddr)
    (data tail : Bytes) (d : NAddr)
    (hp : ∀ p, (d, p) ∈ n.peers → p.crypto.unencrypted = false) (hq : ∀ pc, (d, pc) ∈ n.pending → pc.unencrypted = false)
    (bytes : Bytes) (hm : Out.dgram d bytes ∈ (handleNet env bodyOf o n now src data tail).1.outs) (hne : bytes ≠ [])
    (hnh : bytes.head? ≠ some Generated.INIT_MESSAGE_FIRST_BYTE) :
    (∃ pc, SealedBy pc (handleNet env bodyOf o n now src data tail).1.log bytes) ∨ (d = mappedAddr src ∧ PlainHandshake env data) := by
  have h0 : WI (flipWS n.cfg d (d = mappedAddr src ∧ PlainHandshake env data)) { node := n } :=
    WI.init n rfl (fun a pc hm ha hu => by rw [hq pc (ha ▸ hm)] at hu; cases hu)
      (fun a p hm ha hu => by rw [hp p (ha ▸ hm)] at hu; cases hu) (fun hf => hf.elim) (fun hf => hf.elim)
  have hcl : MsgClosed (flipWS n.cfg d (d = mappedAddr src ∧ PlainHandshake env data)).X env bodyOf (mappedAddr src) data tail := by
    by_cases hd : d = mappedAddr src
    · subst hd
      exact flipWS_msgClosed n.cfg env bodyOf (mappedAddr src) data tail _ (fun h => ⟨rfl, h⟩)
    · intro pc rnd rr _
      cases PeerCrypto.handleMessage env bodyOf payloadOk pc data tail rnd rr with
      | panic => trivial
      | err pc' e => exact fun h => absurd h.symm hd
      | ok pc' out res log => exact fun h => absurd h.symm hd
  have hw := handleNet_WI env bodyOf o n now src data tail h0 hcl
  rcases hw.outs _ hm with h1 | ⟨b, hb⟩ | ⟨pc, pc', plain, ct, log, hseal, hpl, hl, hx⟩
  · exact absurd h1 hne
  · rw [hb] at hnh
    exact absurd rfl hnh
  · obtain ⟨h1, h2⟩ := sealMsg_shape pc pc' plain ct bytes log _ hseal hpl hl
    rcases h2 with ⟨hu, _⟩ | h2
    · exact Or.inr (hx rfl (h1.trans hu))
    · exact Or.inl ⟨pc, h2⟩

/-! ## 3. tampered, truncated, reflected and foreign datagrams are dropped -/

/-- node level: a datagram without the handshake marker from the address of an established ENCRYPTED peer that the peer's crypto core
    rejects produces no output (nothing to the interface, nothing on the wire), no panic, and leaves the node state — peers with their
    sessions, routing table, pending handshakes, own addresses, timers — exactly as it was, except for the counter of invalid packets.
    Hypothesis `hnd` (keys of the peer list pairwise distinct) is needed for the equality of the peer LIST (`Ex3.needs_nodup`); it holds in
    every reachable state (`nodup_reach`).  Without it `C09More.forged_data_keeps_peer` still gives the unchanged peer record. -/
theorem core_rejected_dropped (env : CryptoEnv) (bodyOf : Init.BodyOf) (o : Oracle) (n : Node) (now : Int) (src : NAddr) (data tail : Bytes)
    (p : Peer) (core : Core)
    (hp : lookupA n.peers (mappedAddr src) = some p)
    (hinit : data.head? ≠ some Generated.INIT_MESSAGE_FIRST_BYTE)
    (hu : p.crypto.unencrypted = false) (hc : p.crypto.core = some core) (hnd : (n.peers.map (·.1)).Nodup)
    (hrej : ∃ e', (core.decrypt (dgramOf bodyOf data)).2 = .error e') :
    let r := handleNet env bodyOf o n now src data tail
    r.1.outs = [] ∧ r.1.panicked = false ∧ r.1.node = { n with droppedIn := n.droppedIn + 1 } := by
  obtain ⟨e, he, _⟩ := C09More.rejected_by_core_keeps_session env bodyOf payloadOk p.crypto core data tail
    (rndFor o { node := n } (mappedAddr src)).1 (rndFor o { node := n } (mappedAddr src)).2.1 hinit hu hc hrej
  obtain ⟨_, _, h3, h4, _, _, _, h8, _, _⟩ := C09More.rejected_keeps_session env bodyOf o n now src data tail p p.crypto e hp hinit he
  refine ⟨h3, h4, ?_⟩
  rw [h8]
  have : insertA n.peers (mappedAddr src) { p with crypto := p.crypto } = n.peers := insertA_self_of_nodup n.peers (mappedAddr src) p hnd hp
  rw [this]

/-- the datagram (header bytes, body as the ideal AEAD sees it) is a genuine seal for this core: long enough, a valid key id, and the body
    is an intact seal under the key of the addressed slot with exactly the nonce reconstructed from the transmitted counter -/
def GenuineFor (core : Core) (d : Dgram) : Prop :=
  d.len ≥ 24 ∧ d.keyId < 4 ∧ ∃ k plain, core.slots[d.keyId]? = some k ∧ d.body = .sealed k.key (core.reconstruct d.counter) plain

theorem not_genuine_rejected (core : Core) (d : Dgram) (h : ¬ GenuineFor core d) : ∃ e', (core.decrypt d).2 = .error e' := by
  cases hd : (core.decrypt d).2 with
  | error e => exact ⟨e, rfl⟩
  | ok p =>
    obtain ⟨h1, h2, k, hk, hb⟩ := C02.accepted_is_genuine core d p hd
    exact absurd ⟨h1, h2, k, p, hk, hb⟩ h

/-- **tampered_dropped_node**: a datagram without the handshake marker from the address of an established encrypted peer that is NOT a
    genuine seal of that connection — intact ideal seal under the key of the addressed slot with the nonce its counter bytes stand for —
    is dropped: no interface write, no output, no panic, node state unchanged except the invalid-packet counter.  (Any bit altered in key
    id, counter, ciphertext or tag, truncation, reflection and foreign seals are instances, below.) -/
theorem tampered_dropped_node (env : CryptoEnv) (bodyOf : Init.BodyOf) (o : Oracle) (n : Node) (now : Int) (src : NAddr) (data tail : Bytes)
    (p : Peer) (core : Core)
    (hp : lookupA n.peers (mappedAddr src) = some p)
    (hinit : data.head? ≠ some Generated.INIT_MESSAGE_FIRST_BYTE)
    (hu : p.crypto.unencrypted = false) (hc : p.crypto.core = some core) (hnd : (n.peers.map (·.1)).Nodup)
    (hng : ¬ GenuineFor core (dgramOf bodyOf data)) :
    let r := handleNet env bodyOf o n now src data tail
    r.1.outs = [] ∧ r.1.panicked = false ∧ r.1.node = { n with droppedIn := n.droppedIn + 1 } :=
  core_rejected_dropped env bodyOf o n now src data tail p core hp hinit hu hc hnd (not_genuine_rejected core _ hng)

/-- ciphertext or tag altered in any bit: the ideal AEAD sees no intact seal -/
theorem altered_ciphertext_dropped (env : CryptoEnv) (bodyOf : Init.BodyOf) (o : Oracle) (n : Node) (now : Int) (src : NAddr) (data tail : Bytes)
    (p : Peer) (core : Core) (m : Nat)
    (hp : lookupA n.peers (mappedAddr src) = some p) (hinit : data.head? ≠ some Generated.INIT_MESSAGE_FIRST_BYTE)
    (hu : p.crypto.unencrypted = false) (hc : p.crypto.core = some core) (hnd : (n.peers.map (·.1)).Nodup)
    (hb : bodyOf (data.drop 8) = .garbage m) :
    let r := handleNet env bodyOf o n now src data tail
    r.1.outs = [] ∧ r.1.panicked = false ∧ r.1.node = { n with droppedIn := n.droppedIn + 1 } := by
  apply tampered_dropped_node env bodyOf o n now src data tail p core hp hinit hu hc hnd
  rintro ⟨_, _, k, plain, _, hbody⟩
  have : bodyOf (data.drop 8) = .sealed k.key (core.reconstruct (dgramOf bodyOf data).counter) plain := hbody
  rw [hb] at this
  cases this

/-- truncated below header + tag -/
theorem truncated_dropped (env : CryptoEnv) (bodyOf : Init.BodyOf) (o : Oracle) (n : Node) (now : Int) (src : NAddr) (data tail : Bytes)
    (p : Peer) (core : Core)
    (hp : lookupA n.peers (mappedAddr src) = some p) (hinit : data.head? ≠ some Generated.INIT_MESSAGE_FIRST_BYTE)
    (hu : p.crypto.unencrypted = false) (hc : p.crypto.core = some core) (hnd : (n.peers.map (·.1)).Nodup)
    (hlen : (dgramOf bodyOf data).len < 24) :
    let r := handleNet env bodyOf o n now src data tail
    r.1.outs = [] ∧ r.1.panicked = false ∧ r.1.node = { n with droppedIn := n.droppedIn + 1 } := by
  apply tampered_dropped_node env bodyOf o n now src data tail p core hp hinit hu hc hnd
  rintro ⟨h1, _⟩
  omega

/-- key-id byte altered to a value that is no slot -/
theorem bad_key_id_dropped (env : CryptoEnv) (bodyOf : Init.BodyOf) (o : Oracle) (n : Node) (now : Int) (src : NAddr) (data tail : Bytes)
    (p : Peer) (core : Core)
    (hp : lookupA n.peers (mappedAddr src) = some p) (hinit : data.head? ≠ some Generated.INIT_MESSAGE_FIRST_BYTE)
    (hu : p.crypto.unencrypted = false) (hc : p.crypto.core = some core) (hnd : (n.peers.map (·.1)).Nodup)
    (hid : (dgramOf bodyOf data).keyId ≥ 4) :
    let r := handleNet env bodyOf o n now src data tail
    r.1.outs = [] ∧ r.1.panicked = false ∧ r.1.node = { n with droppedIn := n.droppedIn + 1 } := by
  apply tampered_dropped_node env bodyOf o n now src data tail p core hp hinit hu hc hnd
  rintro ⟨_, h2, _⟩
  omega

/-- counter bytes altered: the body is an intact seal, but for another nonce than the one the transmitted counter stands for -/
theorem altered_counter_dropped (env : CryptoEnv) (bodyOf : Init.BodyOf) (o : Oracle) (n : Node) (now : Int) (src : NAddr) (data tail : Bytes)
    (p : Peer) (core : Core) (key nonce : Nat) (plain : Bytes)
    (hp : lookupA n.peers (mappedAddr src) = some p) (hinit : data.head? ≠ some Generated.INIT_MESSAGE_FIRST_BYTE)
    (hu : p.crypto.unencrypted = false) (hc : p.crypto.core = some core) (hnd : (n.peers.map (·.1)).Nodup)
    (hb : bodyOf (data.drop 8) = .sealed key nonce plain) (hne : nonce ≠ core.reconstruct (dgramOf bodyOf data).counter) :
    let r := handleNet env bodyOf o n now src data tail
    r.1.outs = [] ∧ r.1.panicked = false ∧ r.1.node = { n with droppedIn := n.droppedIn + 1 } := by
  apply tampered_dropped_node env bodyOf o n now src data tail p core hp hinit hu hc hnd
  rintro ⟨_, _, k, plain', _, hbody⟩
  have : bodyOf (data.drop 8) = .sealed k.key (core.reconstruct (dgramOf bodyOf data).counter) plain' := hbody
  rw [hb] at this
  simp only [Body.sealed.injEq] at this
  exact hne this.2.1

/-- sealed for a different connection (or key id altered to another slot): an intact seal, but under another key than the one in the
    addressed slot (`C02.cross_connection_rejected`) -/
theorem cross_connection_dropped (env : CryptoEnv) (bodyOf : Init.BodyOf) (o : Oracle) (n : Node) (now : Int) (src : NAddr) (data tail : Bytes)
    (p : Peer) (core : Core) (k : SlotKey) (key nonce : Nat) (plain : Bytes)
    (hp : lookupA n.peers (mappedAddr src) = some p) (hinit : data.head? ≠ some Generated.INIT_MESSAGE_FIRST_BYTE)
    (hu : p.crypto.unencrypted = false) (hc : p.crypto.core = some core) (hnd : (n.peers.map (·.1)).Nodup)
    (hk : core.slots[(dgramOf bodyOf data).keyId]? = some k)
    (hb : bodyOf (data.drop 8) = .sealed key nonce plain) (hne : key ≠ k.key) :
    let r := handleNet env bodyOf o n now src data tail
    r.1.outs = [] ∧ r.1.panicked = false ∧ r.1.node = { n with droppedIn := n.droppedIn + 1 } :=
  core_rejected_dropped env bodyOf o n now src data tail p core hp hinit hu hc hnd
    (C02.cross_connection_rejected core (dgramOf bodyOf data) k key nonce plain hk hb hne)

/-- reflected back to its own sender: the datagram is what the peer's session itself has just sealed (`C02.reflection_rejected`: its
    nonce lies in the sender's own half) -/
theorem reflected_dropped (env : CryptoEnv) (bodyOf : Init.BodyOf) (o : Oracle) (n : Node) (now : Int) (src : NAddr) (data tail : Bytes)
    (p : Peer) (core0 : Core) (plain : Bytes) (k : SlotKey) (v : Nat)
    (hp : lookupA n.peers (mappedAddr src) = some p) (hinit : data.head? ≠ some Generated.INIT_MESSAGE_FIRST_BYTE)
    (hu : p.crypto.unencrypted = false) (hc : p.crypto.core = some (core0.encrypt plain).1) (hnd : (n.peers.map (·.1)).Nodup)
    (hd : dgramOf bodyOf data = (core0.encrypt plain).2)
    (hk : core0.slots[core0.cur]? = some k) (hsend : k.send + 1 = Spec.C04.base core0.half + v) (hv : v < 2 ^ 95) :
    let r := handleNet env bodyOf o n now src data tail
    r.1.outs = [] ∧ r.1.panicked = false ∧ r.1.node = { n with droppedIn := n.droppedIn + 1 } :=
  core_rejected_dropped env bodyOf o n now src data tail p _ hp hinit hu hc hnd
    (by rw [hd]; exact C02.reflection_rejected core0 plain k v hk hsend hv)

/-! ## 4. C08 for sequences: rejected datagrams leave no state behind -/

/-- distinct keys are kept by every step -/
def NodupKeys (n : Node) : Prop := (n.peers.map (·.1)).Nodup ∧ (n.pending.map (·.1)).Nodup

theorem nodup_step {n : Node} {c : Ctx} (hs : StepAny n c) (h : NodupKeys n) : NodupKeys c.node := by
  have hw := wi_step (trivWS n.cfg True) (trivWS_msgClosed n.cfg True) hs
    (WI.init n rfl (fun _ _ _ => trivial) (fun _ _ _ => trivial) (fun _ => h.1) (fun _ => h.2))
  exact ⟨hw.ndp trivial, hw.ndq trivial⟩

/-- **nodup_reach**: in every state reachable from a node without sessions, the addresses in `peers` are pairwise distinct, and so are
    those in `pending` -/
theorem nodup_reach {n0 n : Node} (h0 : n0.peers = [] ∧ n0.pending = []) (h : ReachAny n0 n) : NodupKeys n := by
  induction h with
  | init => rw [NodupKeys, h0.1, h0.2]; exact ⟨List.nodup_nil, List.nodup_nil⟩
  | step _ hs ih => exact nodup_step hs ih

/-- a handshake-marked datagram whose content `read_from` rejects under trusted keys `T` is answered by a session whose handshake object
    (if any) uses `T` with a non-fatal error and the UNCHANGED session object -/
theorem handleMessage_reject_exact (env : CryptoEnv) (bodyOf : Init.BodyOf) (ok : Bytes → Bool) (pc : PeerCrypto) (T : List Bytes)
    (rest tail : Bytes) (rnd : Rand) (rr : RotRand) (e : InitErr)
    (htr : ∀ i, pc.init = some i → i.trusted = T) (h : InitMsg.readFrom env rest T = .error e) :
    ∃ e', PeerCrypto.handleMessage env bodyOf ok pc (Generated.INIT_MESSAGE_FIRST_BYTE :: rest) tail rnd rr = .err pc e' ∧
      e' ≠ .cryptoInitFatal := by
  rw [handleMessage_eq]
  simp only [if_true]
  split
  · exact ⟨.parse, rfl, by decide⟩
  · rw [handleInitMessage_eq]
    cases hi : pc.init with
    | none => exact ⟨.state, rfl, by decide⟩
    | some ist =>
      have h' : InitMsg.readFrom env rest ist.trusted = .error e := by rw [htr ist hi]; exact h
      have hh : Init.handleInit env bodyOf ok ist rest rnd = .err ist e := by rw [handleInit_eq, h']
      simp only [hh]
      have hpc : ({ pc with init := some ist } : PeerCrypto) = pc := by
        cases pc
        simp only at hi
        subst hi
        rfl
      rw [hpc]
      exact ⟨e, rfl, (C01.handleInit_reject_pure env bodyOf ok ist rest rnd e h').2⟩

/-- a session-layer error with the unchanged session, applied to the node: only the counter moves -/
theorem applyOutcome_err_same (env : CryptoEnv) (o : Oracle) (n : Node) (now : Int) (s : NAddr) (inPeers : Bool) (pc : PeerCrypto) (e : InitErr)
    (hnd : NodupKeys n)
    (hst : if inPeers = true then ∃ p, lookupA n.peers s = some p ∧ p.crypto = pc else lookupA n.pending s = some pc) :
    applyOutcome env o { node := n } now s inPeers (.err pc e) = ({ node := { n with droppedIn := n.droppedIn + 1 } }, some e) := by
  rw [applyOutcome_eq]
  cases inPeers with
  | true =>
    simp only [if_true] at hst
    obtain ⟨p, hp, hpc⟩ := hst
    subst hpc
    simp only [storePc, if_true, hp, countInvalid]
    have : insertA n.peers s { p with crypto := p.crypto } = n.peers := insertA_self_of_nodup n.peers s p hnd.1 hp
    rw [this]
  | false =>
    simp only [Bool.false_eq_true, if_false] at hst
    simp only [storePc, Bool.false_eq_true, if_false, countInvalid]
    rw [insertA_self_of_nodup n.pending s pc hnd.2 hst]

/-- one received datagram with the inputs of the step (oracle, time, source, bytes, stale bytes behind it in the receive buffer) -/
structure NetIn where
  o : Oracle
  now : Int
  src : NAddr
  data : Bytes
  tail : Bytes

/-- the datagram is REJECTED by the node in state `n` (the cases of C08):
    1. it carries the handshake marker and `read_from` rejects its content under the node's trusted keys (this includes the bare marker);
    2. no handshake marker, and the sender is neither a peer nor has a handshake pending;
    3. no handshake marker, the sender is an encrypted peer whose crypto core rejects the datagram;
    4. no handshake marker, the sender is no peer but has a handshake pending, whose session is not in plain mode and has no core yet
       (every pending session of a reachable state, `C12Node.PendFresh`) or has one that rejects the datagram. -/
def Rejected (env : CryptoEnv) (bodyOf : Init.BodyOf) (n : Node) (i : NetIn) : Prop :=
  (∃ rest e, i.data = Generated.INIT_MESSAGE_FIRST_BYTE :: rest ∧ InitMsg.readFrom env rest n.cfg.trusted = .error e) ∨
  (i.data.head? ≠ some Generated.INIT_MESSAGE_FIRST_BYTE ∧
    ((lookupA n.peers (mappedAddr i.src) = none ∧ lookupA n.pending (mappedAddr i.src) = none) ∨
     (∃ p core, lookupA n.peers (mappedAddr i.src) = some p ∧ p.crypto.unencrypted = false ∧ p.crypto.core = some core ∧
        ∃ e', (core.decrypt (dgramOf bodyOf i.data)).2 = .error e') ∨
     (∃ pc, lookupA n.peers (mappedAddr i.src) = none ∧ lookupA n.pending (mappedAddr i.src) = some pc ∧ pc.unencrypted = false ∧
        (pc.core = none ∨ ∃ core e', pc.core = some core ∧ (core.decrypt (dgramOf bodyOf i.data)).2 = .error e'))))

/-- `Rejected` does not look at the counters -/
theorem rejected_counter (env : CryptoEnv) (bodyOf : Init.BodyOf) (n : Node) (k : Nat) (i : NetIn) :
    Rejected env bodyOf { n with droppedIn := k } i ↔ Rejected env bodyOf n i := Iff.rfl

/-- the state after a rejected datagram -/
def bump (n : Node) (k : Nat) : Node := { n with droppedIn := n.droppedIn + k }

theorem session_rejects (env : CryptoEnv) (bodyOf : Init.BodyOf) (pc : PeerCrypto) (data tail : Bytes) (rnd : Rand) (rr : RotRand)
    (hinit : data.head? ≠ some Generated.INIT_MESSAGE_FIRST_BYTE) (hu : pc.unencrypted = false)
    (hc : pc.core = none ∨ ∃ core e', pc.core = some core ∧ (core.decrypt (dgramOf bodyOf data)).2 = .error e') :
    ∃ e, PeerCrypto.handleMessage env bodyOf payloadOk pc data tail rnd rr = .err pc e ∧ e ≠ .cryptoInitFatal := by
  rcases hc with hc | ⟨core, e', hc, hd⟩
  · cases data with
    | nil => exact ⟨.state, rfl, by decide⟩
    | cons b0 rest =>
      exact ⟨.state, C02Node.pending_session_carries_nothing env bodyOf payloadOk pc (b0 :: rest) tail rnd rr hu hc (by simp) hinit, by decide⟩
  · exact C09More.rejected_by_core_keeps_session env bodyOf payloadOk pc core data tail rnd rr hinit hu hc ⟨e', hd⟩

/-- **rejected_no_state** (one datagram): a rejected datagram causes no panic and no output and leaves the node state EXACTLY as it was,
    except that the counter of invalid packets is one higher: no `seen` mark, no retry counter, no timer, no table entry, no pending
    handshake.  Hypotheses: the state is regular (handshake objects use the node's trusted keys; holds in all reachable states,
    `C01More.regular_reach`) and the keys of `peers` / `pending` are distinct (`nodup_reach`). -/
theorem rejected_no_state (env : CryptoEnv) (bodyOf : Init.BodyOf) (n : Node) (i : NetIn)
    (hreg : Regular n) (hnd : NodupKeys n) (hrej : Rejected env bodyOf n i) :
    (handleNet env bodyOf i.o n i.now i.src i.data i.tail).1 = { node := bump n 1 } := by
  obtain ⟨o, now, src, data, tail⟩ := i
  simp only [] at hrej ⊢
  have hfin : ∀ (c : Ctx) (e : InitErr), e ≠ .cryptoInitFatal → (finish (mappedAddr src) (c, some e)).1 = c := by
    intro c e he
    rw [finish_of_not_fatal _ _ _ (by simpa using he)]
  -- a session-layer error with unchanged session, in each place a session can be taken from
  have hstored : ∀ (inPeers : Bool) (pc : PeerCrypto) (r : POutcome MsgResult),
      (if inPeers = true then ∃ p, lookupA n.peers (mappedAddr src) = some p ∧ p.crypto = pc else lookupA n.pending (mappedAddr src) = some pc) →
      (∃ e, r = .err pc e ∧ e ≠ .cryptoInitFatal) →
      (finish (mappedAddr src) (applyOutcome env o { node := n } now (mappedAddr src) inPeers r)).1 = { node := bump n 1 } := by
    intro inPeers pc r hst ⟨e, hr, he⟩
    rw [hr, applyOutcome_err_same env o n now (mappedAddr src) inPeers pc e hnd hst, hfin _ _ he]
    rfl
  have hresp : ∀ (rnd : Rand) (rr : RotRand) (hash : Option Bytes),
      (∃ e, PeerCrypto.handleMessage env bodyOf payloadOk (newAttempt n (hash.getD [])) data tail rnd rr = .err (newAttempt n (hash.getD [])) e ∧
        e ≠ .cryptoInitFatal) →
      (finish (mappedAddr src) (responder env bodyOf o n now (mappedAddr src) data tail rnd rr hash)).1 = { node := bump n 1 } := by
    intro rnd rr hash ⟨e, hr, he⟩
    unfold responder
    simp only [hr]
    rw [hfin _ _ he]
    rfl
  rw [handleNet_eq]
  rcases hrej with ⟨rest, e, hdata, hread⟩ | ⟨hinit, hcase⟩
  · -- handshake marker, rejected by `read_from`
    subst hdata
    have hsess : ∀ (pc : PeerCrypto) (rnd : Rand) (rr : RotRand), (∀ i, pc.init = some i → i.trusted = n.cfg.trusted) →
        ∃ e', PeerCrypto.handleMessage env bodyOf payloadOk pc (Generated.INIT_MESSAGE_FIRST_BYTE :: rest) tail rnd rr = .err pc e' ∧
          e' ≠ .cryptoInitFatal :=
      fun pc rnd rr htr => handleMessage_reject_exact env bodyOf payloadOk pc n.cfg.trusted rest tail rnd rr e htr hread
    have hatt : ∀ hash, ∀ i, (newAttempt n hash).init = some i → i.trusted = n.cfg.trusted := by
      intro hash i hi
      simp only [newAttempt, Option.some.injEq] at hi
      subst hi
      rfl
    unfold dispatch
    simp only [List.head?_cons, decide_true, Bool.not_true, Bool.false_eq_true, if_false, if_true]
    cases hp : lookupA n.peers (mappedAddr src) with
    | some p =>
      cases hq : lookupA n.pending (mappedAddr src) with
      | some pc =>
        simp only []
        exact hstored false pc _ (by simpa using hq) (hsess pc _ _ (hreg.2 _ _ (lookupA_some_mem hq)))
      | none =>
        simp only []
        by_cases hi : p.crypto.init.isSome = true
        · rw [if_pos hi]
          exact hstored true p.crypto _ (by simp only [if_true]; exact ⟨p, hp, rfl⟩) (hsess p.crypto _ _ (hreg.1 _ _ (lookupA_some_mem hp)))
        · rw [if_neg hi]
          exact hresp _ _ _ (hsess _ _ _ (hatt _))
    | none =>
      cases hq : lookupA n.pending (mappedAddr src) with
      | some pc =>
        simp only []
        exact hstored false pc _ (by simpa using hq) (hsess pc _ _ (hreg.2 _ _ (lookupA_some_mem hq)))
      | none =>
        simp only []
        exact hresp _ _ _ (hsess _ _ _ (hatt _))
  · rcases hcase with ⟨hp, hq⟩ | ⟨p, core, hp, hu, hc, hd⟩ | ⟨pc, hp, hq, hu, hc⟩
    · -- unknown sender
      unfold dispatch
      simp only [hp, hq, hinit, if_false]
      rw [finish_of_not_fatal _ _ _ (by simp)]
      rfl
    · -- encrypted peer, core rejects
      unfold dispatch
      simp only [hp, hinit, decide_false, Bool.not_false, if_true]
      exact hstored true p.crypto _ (by simp only [if_true]; exact ⟨p, hp, rfl⟩)
        (session_rejects env bodyOf p.crypto data tail _ _ hinit hu (Or.inr (by obtain ⟨e', hd⟩ := hd; exact ⟨core, e', hc, hd⟩)))
    · -- pending handshake, no peer
      unfold dispatch
      simp only [hp, hq]
      exact hstored false pc _ (by simpa using hq) (session_rejects env bodyOf pc data tail _ _ hinit hu hc)

/-- processing a list of received datagrams one after the other: final state, all outputs, whether any step panicked -/
def runNet (env : CryptoEnv) (bodyOf : Init.BodyOf) : Node → List NetIn → Node × List Out × Bool
  | n, [] => (n, [], false)
  | n, i :: is =>
    let c := (handleNet env bodyOf i.o n i.now i.src i.data i.tail).1
    let r := runNet env bodyOf c.node is
    (r.1, c.outs ++ r.2.1, c.panicked || r.2.2)

/-- each datagram of the list is rejected at its turn, i.e. in the state the node is in when it arrives -/
def AllRejected (env : CryptoEnv) (bodyOf : Init.BodyOf) : Node → List NetIn → Prop
  | _, [] => True
  | n, i :: is => Rejected env bodyOf n i ∧ AllRejected env bodyOf (handleNet env bodyOf i.o n i.now i.src i.data i.tail).1.node is

theorem bump_bump (n : Node) (a b : Nat) : bump (bump n a) b = bump n (a + b) := by
  unfold bump
  simp only [Nat.add_assoc]

/-- **sequence_no_state** (C08 for sequences): for ANY list of datagrams each of which is rejected at its turn, of any length, processing
    the whole list never panics, emits nothing (no datagram, no interface write), and the final node state equals the initial one except
    that the counter of invalid packets has grown by the number of datagrams: nothing else is left behind — no `seen` mark, no retry
    counter, no timer, no session change, no table entry. -/
theorem sequence_no_state (env : CryptoEnv) (bodyOf : Init.BodyOf) (n : Node) (is : List NetIn)
    (hreg : Regular n) (hnd : NodupKeys n) (hall : AllRejected env bodyOf n is) :
    runNet env bodyOf n is = (bump n is.length, [], false) := by
  induction is generalizing n with
  | nil => rfl
  | cons i is ih =>
    obtain ⟨h1, h2⟩ := hall
    have hstep := rejected_no_state env bodyOf n i hreg hnd h1
    rw [hstep] at h2
    simp only [runNet]
    rw [hstep]
    simp only []
    rw [ih (bump n 1) hreg hnd h2, bump_bump, List.length_cons, Nat.add_comm 1]
    rfl

/-- since a rejected datagram only moves the counter, "rejected at its turn" is the same as "rejected in the initial state" -/
theorem allRejected_of_forall (env : CryptoEnv) (bodyOf : Init.BodyOf) (n : Node) (is : List NetIn)
    (hreg : Regular n) (hnd : NodupKeys n) (h : ∀ i ∈ is, Rejected env bodyOf n i) : AllRejected env bodyOf n is := by
  induction is generalizing n with
  | nil => trivial
  | cons i is ih =>
    have h1 := h i (List.mem_cons_self ..)
    refine ⟨h1, ?_⟩
    rw [rejected_no_state env bodyOf n i hreg hnd h1]
    exact ih (bump n 1) hreg hnd (fun j hj => h j (List.mem_cons_of_mem _ hj))

/-- **sequence_no_state** in all histories: in every state reachable from a node without sessions, any sequence of datagrams that the
    state rejects — whatever their number, sources, bytes and timing — leaves the node as it was up to the invalid-packet counter. -/
theorem sequence_no_state_reach (env : CryptoEnv) (bodyOf : Init.BodyOf) (n0 n : Node) (is : List NetIn)
    (h0 : n0.peers = [] ∧ n0.pending = []) (h : ReachAny n0 n) (hall : ∀ i ∈ is, Rejected env bodyOf n i) :
    runNet env bodyOf n is = (bump n is.length, [], false) :=
  sequence_no_state env bodyOf n is (C01More.regular_reach h0 h).1 (nodup_reach h0 h)
    (allRejected_of_forall env bodyOf n is (C01More.regular_reach h0 h).1 (nodup_reach h0 h) hall)

/-! ## non-vacuity, witnesses, and the role of the hypotheses (toy cryptography of `InitLemmas.Toy`) -/

namespace Ex1

def s : NAddr := .v6 (List.replicate 16 0) 1
def cfg0 : NodeCfg :=
  { tap := false, learning := false, broadcast := true, peerTimeout := 300, peerTimeoutPublish := 300, updateFreq := 10,
    claims := [], key := [7, 7, 7, 7], trusted := [[9, 9, 9, 9]], algos := Toy.algos }
def o0 : Oracle := { emitted := fun _ _ => [0, 0, 0, 0, 0, 0, 0, 0, 201, 202, 203], rotProp := fun _ => 0, rotPend := fun _ => 0, starts := fun _ => [] }
/-- a node in hub mode with one established peer whose session is encrypted (core with key 5) -/
def n1 : Node :=
  { nodeId := List.replicate 16 9, addr := .v6 (List.replicate 16 0) 3, cfg := cfg0, table := { cacheTimeout := 300, claimTimeout := 300 },
    peers := [(s, { addrs := [], timeout := 1000, peerTimeout := 300, nodeId := List.replicate 16 1,
                    crypto := { init := none, core := some (Core.new 5 false 1 []) } })] }
/-- two IPv4 packets with the same addresses and different contents -/
def frame1 : Bytes := 69 :: (List.replicate 11 0 ++ [10, 0, 0, 1, 10, 0, 0, 2])
def frame2 : Bytes := 69 :: ([0, 0, 0, 0, 0, 0, 0, 7, 7, 7, 7] ++ [10, 0, 0, 1, 10, 0, 0, 2])

/-- the hypotheses of `node_wire_is_sealed` are met by a step: the packet is flooded to the peer as 8 header bytes ++ the oracle's
    ciphertext `[201, 202, 203]`; the log holds the ideal seal of `DATA :: packet` under key 5 -/
example : StepAny n1 (handleIface o0 n1 100 frame1) := .iface o0 n1 100 frame1
example : (handleIface o0 n1 100 frame1).outs = [.dgram s ([0, 0, 0, 0, 0, 0, 0, 1] ++ [201, 202, 203])] := by decide
example : (handleIface o0 n1 100 frame1).log = [([201, 202, 203], .sealed 5 1 (0 :: frame1))] := by decide

/-- non-vacuity of `cleartext_not_on_wire`: same addresses, different contents, peer encrypted — and indeed the same bytes on the wire -/
example : parseAddrs n1 frame1 = parseAddrs n1 frame2 := by decide
example : frame1 ≠ frame2 := by decide
example : ∀ a p, (a, p) ∈ n1.peers → p.crypto.unencrypted = false := by
  intro a p hm
  simp only [n1, List.mem_singleton, Prod.mk.injEq] at hm
  obtain ⟨_, rfl⟩ := hm
  rfl
example : (handleIface o0 n1 100 frame2).outs = [.dgram s ([0, 0, 0, 0, 0, 0, 0, 1] ++ [201, 202, 203])] := by decide
/-- … while the recorded cleartext differs -/
example : (handleIface o0 n1 100 frame2).log = [([201, 202, 203], .sealed 5 1 (0 :: frame2))] := by decide

/-- the clause "`bytes ≠ []`" is needed: a node DOES emit an empty datagram to an encrypted peer.  The peer's session still holds a
    handshake object in stage CLOSING; a (genuine, replayed) pong arrives: `handle_init` clears the buffer, finds the stage not matching
    and answers `Continue`, `handle_net_message` sends the (empty) buffer back. -/
def n2 : Node :=
  { n1 with peers := [(s, { addrs := [], timeout := 1000, peerTimeout := 300, nodeId := List.replicate 16 1,
                            crypto := { init := some { Toy.st with stage := Generated.CLOSING }, core := some (Core.new 5 false 1 []) } })] }

theorem empty_datagram_emitted :
    (handleNet Toy.env (Toy.body 0) o0 n2 100 s (Generated.INIT_MESSAGE_FIRST_BYTE :: Toy.pong Toy.algos 0) []).1.outs = [.dgram s []] := by
  decide

end Ex1

namespace Ex2

def s : NAddr := .v6 (List.replicate 16 0) 1
def o0 : Oracle := { emitted := fun _ _ => [], rotProp := fun _ => 0, rotPend := fun _ => 0, starts := fun _ => [] }
/-- a node that enabled plain, without sessions -/
def n0 : Node :=
  { nodeId := List.replicate 16 9, addr := .v6 (List.replicate 16 0) 3, table := { cacheTimeout := 300, claimTimeout := 300 },
    cfg := { tap := false, learning := false, broadcast := false, peerTimeout := 300, peerTimeoutPublish := 300, updateFreq := 10,
             claims := [], key := [7, 7, 7, 7], trusted := [[9, 9, 9, 9]], algos := Toy.algosPlain } }
/-- node information of the peer -/
def info : NodeInfo := { nodeId := List.replicate 16 1, peers := [], claims := [], peerTimeout := none, addrs := [] }
/-- a pong of the trusted peer that advertises plain and carries its node information in the clear -/
def pongPlain : Bytes :=
  InitMsg.writeTo (.pong (List.replicate 20 2) [6] Toy.algosPlain (Codec.encodeNodeInfo info)) [0, 0, 0, 1] [9, 9, 9, 9] [9, 9, 0, 0]

/-- the node dials `s` and receives the pong -/
def n2 : Node := (handleNet Toy.env (Toy.body 0) o0 (connect Toy.env o0 { node := n0 } [s]).node 100 s (Generated.INIT_MESSAGE_FIRST_BYTE :: pongPlain) []).1.node

example : n0.peers = [] ∧ n0.pending = [] := ⟨rfl, rfl⟩
theorem n2_reach : ReachAny n0 n2 := .step (.step .init (.dial Toy.env o0 n0 [s])) (.net Toy.env (Toy.body 0) o0 _ 100 s _ [])

/-- non-vacuity of `plain_only_if_both`: a reachable state with an established peer whose session IS in plain mode (both ends advertised
    plain) — the premise of the invariant is attainable, and its conclusion holds -/
theorem n2_has_plain_peer : n2.peers.map (fun x => (x.1, x.2.crypto.unencrypted)) = [(s, true)] := by decide
example : n2.cfg.algos.allowUnencrypted = true := rfl

/-- the same handshake with a node that did NOT enable plain: no peer (the handshake fails: no common algorithm) -/
def n0' : Node := { n0 with cfg := { n0.cfg with algos := Toy.algos } }
example : (handleNet Toy.env (Toy.body 0) o0 (connect Toy.env o0 { node := n0' } [s]).node 100 s (Generated.INIT_MESSAGE_FIRST_BYTE :: pongPlain) []).1.node.peers.length = 0 := by
  decide

/-- the hypotheses of `session_plain_needs_peer_flag` are satisfiable: an initiator session, not yet established, receives the pong and
    ends in plain mode -/
def unencOf : POutcome MsgResult → Option Bool
  | .ok pc' _ _ _ => some pc'.unencrypted
  | _ => none

example : unencOf (PeerCrypto.handleMessage Toy.env (Toy.body 0) (fun _ => true) ({ init := some { Toy.st with algos := Toy.algosPlain } } : PeerCrypto)
    (Generated.INIT_MESSAGE_FIRST_BYTE :: Toy.pong Toy.algosPlain 0) [] Toy.rnd {}) = some true := by decide

/-- `PlainHandshake` holds of that datagram -/
example : PlainHandshake Toy.env (Generated.INIT_MESSAGE_FIRST_BYTE :: Toy.pong Toy.algosPlain 0) :=
  ⟨_, [[9, 9, 9, 9]], .pong (List.replicate 20 2) [6] Toy.algosPlain (Toy.pl 0), [9, 9, 9, 9], rfl, by decide,
    Or.inl ⟨_, _, _, _, rfl, rfl⟩⟩

end Ex2

namespace Ex3
open C09More.Ex2

/-- non-vacuity of `tampered_dropped_node` and its instances: the node `C09More.Ex2.n` (one established peer `s` with an encrypted
    session) receives 30 fabricated bytes whose body is no intact seal -/
example : lookupA n.peers (mappedAddr s) = some p := rfl
example : data.head? ≠ some Generated.INIT_MESSAGE_FIRST_BYTE := by decide
example : p.crypto.unencrypted = false ∧ p.crypto.core = some core := ⟨rfl, rfl⟩
example : (n.peers.map (·.1)).Nodup := by decide
example : forged (data.drop 8) = .garbage 22 := rfl
example : ¬ GenuineFor core (dgramOf forged data) := by
  rintro ⟨_, _, k, plain, _, hb⟩
  cases hb
/-- a truncated datagram (10 bytes) -/
example : (dgramOf forged (List.replicate 10 0)).len < 24 := by decide
/-- a reflected datagram: hypotheses of `reflected_dropped` for the core of `C02`'s example -/
example : (Core.new 7 true 9 [5, 6, 7, 8]).slots[(Core.new 7 true 9 [5, 6, 7, 8]).cur]? = some (SlotKey.new 7 true 5) := rfl
example : (SlotKey.new 7 true 5).send + 1 = Spec.C04.base (Core.new 7 true 9 [5, 6, 7, 8]).half + 6 := by decide

/-- `hnd` is needed for the equality of the whole node state: with the same address twice in `peers` (unreachable, `nodup_reach`), the
    rejected datagram makes the node write the first record over the second -/
def nDup : Node := { n with peers := [(s, p), (s, { p with timeout := 200 })] }

theorem needs_nodup :
    (handleNet Toy.env forged C09More.Cex1.o nDup 10 s data []).1.node.peers.map (fun x => x.2.timeout) ≠ nDup.peers.map (fun x => x.2.timeout) := by
  decide

end Ex3

namespace Ex4
open C09More.Ex2

/-- three rejected datagrams for the node `C09More.Ex2.n`: handshake-marked bytes that `read_from` rejects (from anybody), a datagram
    without marker from an unknown address, fabricated bytes from the encrypted peer `s` -/
def u : NAddr := .v6 (List.replicate 16 0) 77
def i1 : NetIn := { o := C09More.Cex1.o, now := 10, src := u, data := [Generated.INIT_MESSAGE_FIRST_BYTE, 1, 2, 3], tail := [] }
def i2 : NetIn := { o := C09More.Cex1.o, now := 11, src := u, data := [1, 2, 3], tail := [9] }
def i3 : NetIn := { o := C09More.Cex1.o, now := 12, src := s, data := data, tail := [] }

theorem regular_n : Regular n := by
  constructor
  · intro a q hm i hi
    simp only [n, List.mem_singleton, Prod.mk.injEq] at hm
    obtain ⟨_, rfl⟩ := hm
    cases hi
  · intro a pc hm
    cases hm

theorem nodup_n : NodupKeys n := ⟨by decide, by decide⟩

theorem rej1 : Rejected Toy.env forged n i1 := Or.inl ⟨[1, 2, 3], .parse, rfl, by decide⟩
theorem rej2 : Rejected Toy.env forged n i2 := Or.inr ⟨by decide, Or.inl ⟨rfl, rfl⟩⟩
theorem rej3 : Rejected Toy.env forged n i3 := Or.inr ⟨by decide, Or.inr (Or.inl ⟨p, core, rfl, rfl, rfl, .openFailed, by decide⟩)⟩

/-- non-vacuity of `sequence_no_state`: all hypotheses hold for a sequence that mixes the three kinds (any repetition of them too) -/
example : runNet Toy.env forged n [i1, i2, i3, i1, i3] = (bump n 5, [], false) :=
  sequence_no_state Toy.env forged n _ regular_n nodup_n
    (allRejected_of_forall Toy.env forged n _ regular_n nodup_n (by
      intro i hi
      simp only [List.mem_cons, List.not_mem_nil, or_false] at hi
      rcases hi with rfl | rfl | rfl | rfl | rfl
      · exact rej1
      · exact rej2
      · exact rej3
      · exact rej1
      · exact rej3))

/-- what DOES leave a trace besides the counter: a datagram that the crypto core ACCEPTS — a genuine seal under the session key — and the
    layers above reject (here a too short ROTATION message: `Error::Crypto`, counted as invalid): the `seen` mark of the key slot has
    moved.  Only a holder of the session key can produce it (`C09More.rejected_session_fields`). -/
example : ∃ pc', C09More.Ex2.errPc (PeerCrypto.handleMessage Toy.env genuineShortRotation payloadOk p.crypto data5 [] {} {}) = some pc' ∧
    pc'.core ≠ p.crypto.core := by
  obtain ⟨pc', h1, h2, _⟩ := session_object_can_change
  exact ⟨pc', h1, h2⟩

end Ex4

end VpnCloud.Proofs.C02More
