import VpnCloud.Model.Node
import VpnCloud.Proofs.Lemmas.NodeInvLemmas
import VpnCloud.Proofs.Lemmas.RotPanicLemmas
/-
  C08 at node level, over ALL histories: no operation of the node panics.

  The model marks these panic sites:
  * `ecdh_private_key.take().unwrap()` when a pong arrives (`Init.handleInit`): excluded by the session invariant
    "a handshake object that awaits a pong holds its ephemeral key" (`InitWF`);
  * `take_prefix` on an empty opened message (`PeerCrypto.handleMessage`): excluded by the hypothesis `NonEmptySeals`
    on the ideal AEAD.  Nothing the receiving node does excludes it: from a well-formed state, a 24-byte datagram that
    opens as the seal of the EMPTY plaintext under the session key panics (example at the end) — only the holder of the
    session key can produce it;
  * `derive_key(..).unwrap()` in `RotationState::process_message` (`PeerCrypto.rotatePanics`, checked by `PeerCrypto.handleMessage`
    before `handleRotate`): X25519 agreement fails on a peer key that is not 32 bytes long, and `RotationMessage::read_from` accepts
    any key length.  Excluded by the hypothesis `ValidRotKeys` on the ideal AEAD (what opens as a genuine seal of a ROTATION message
    carries 32-byte keys).  Again nothing the receiving node does excludes it: from a well-formed state, a datagram that opens as the
    seal of a rotation message with a 5-byte proposed key panics (example at the end; `Proofs/RotPanic.lean`: `keyholder_can_panic`) —
    only the holder of the session key can produce it (`RotPanic.panic_needs_session_seal`, `RotPanic.outsider_cannot_reach_site`);
  * the interval expression of `housekeep`: never panics, for every configuration and every advertised peer timeout
    (`C15.interval_safe`), so no range condition on the configuration is needed;
  * the `.inl none` branch of the stage check in `handleInit` is syntactically dead; `every_second` has no panic site.

  `NodeWF` is `InitWF` for the session of every pending handshake, and the stronger "does not await a pong at all" for
  the session of every peer: `InitWF` alone is not inductive for peers, because a session in `peers` that fails after
  `take()` (no common algorithm, payload rejected) is kept — only a *pending* session is closed by the fatal error.
  Sessions enter `peers` only after a completed handshake, when they wait to close, so the stronger statement holds.

  `NonEmptySeals` also speaks about the seals of honest nodes (payload and rotation messages, and the handshake payload
  sealed in pong / peng).  The last section proves that a node of this model never produces an empty seal
  (`own_seals_nonempty`), so the hypothesis is consistent with every run in which all key holders run this code.
  Likewise `ValidRotKeys`: every rotation message the session layer seals is written from 32-byte keys
  (`RotPanic.own_rotation_messages_valid`, at session level).
-/
namespace VpnCloud.Proofs.C08Node

open VpnCloud VpnCloud.Node
open VpnCloud.Proofs.NodeLemmas VpnCloud.Proofs.NodeLemmas2 VpnCloud.Proofs.NodeInvLemmas

/-- hypothesis on the ideal AEAD: what opens as a genuine seal contains at least the type byte -/
abbrev NonEmptySeals (bodyOf : Init.BodyOf) : Prop := NodeInvLemmas.NonEmptySeals bodyOf

example (bodyOf : Init.BodyOf) : NonEmptySeals bodyOf ↔ ∀ ct k n p, bodyOf ct = .sealed k n p → p ≠ [] := Iff.rfl

/-- hypothesis on the ideal AEAD: what opens as a genuine seal of a ROTATION message carries X25519 public keys, i.e. if its body parses
    (`RotationMessage::read_from`) the proposed key and the confirmed key (if present) have exactly 32 bytes -/
abbrev ValidRotKeys (bodyOf : Init.BodyOf) : Prop := NodeInvLemmas.ValidRotKeys bodyOf

example (bodyOf : Init.BodyOf) : ValidRotKeys bodyOf ↔ ∀ ct k n body, bodyOf ct = .sealed k n (Generated.MESSAGE_TYPE_ROTATION :: body) →
    ∀ bm, Codec.readRotMsg body = some bm → bm.propose.length = 32 ∧ ∀ c, bm.confirm = some c → c.length = 32 := Iff.rfl

/-- well-formed sessions: a pending handshake that awaits a pong holds its ephemeral key; the handshake object of an established peer
    (if it still has one) does not await a pong -/
def NodeWF (n : Node) : Prop :=
  (∀ a pc, (a, pc) ∈ n.pending → ∀ i, pc.init = some i → i.stage = Generated.STAGE_PONG → i.ecdh.isSome = true) ∧
  (∀ a p, (a, p) ∈ n.peers → ∀ i, p.crypto.init = some i → i.stage ≠ Generated.STAGE_PONG)

/-! ## the instance of the generic invariant -/

theorem sendPing_wf (env : CryptoEnv) (ist : InitSt) (rnd : Rand) : InitWF (Init.sendPing env ist rnd).1 := fun _ => rfl

def SB : SI where
  Q := PendOK
  R := PeerOK
  T := False
  P := True
  L := False
  q_new := by
    intro env n hash rnd ist _ i hi
    simp only [Option.some.injEq] at hi
    subst hi
    exact sendPing_wf env ist rnd
  q_att := by
    intro n hash i hi
    simp only [newAttempt, Option.some.injEq] at hi
    subst hi
    intro hp
    exact absurd hp (by decide : Generated.STAGE_PING ≠ Generated.STAGE_PONG)
  r_seal := fun pc ty body ct h => h.of_init (sealMsg_init pc (ty :: body) ct)

theorem wf_iff (c : Ctx) : (c.panicked = false ∧ NodeWF c.node) ↔ GI SB c := by
  unfold NodeWF GI GIx
  constructor
  · rintro ⟨hp, hq, hr⟩
    exact ⟨fun a pc hm _ => hq a pc hm, hr, fun hf => hf.elim, fun _ => hp, fun hf => hf.elim⟩
  · rintro ⟨hq, hr, _, hp, _⟩
    exact ⟨hp trivial, fun a pc hm => hq a pc hm (by simp), hr⟩

theorem sok (env : CryptoEnv) (bodyOf : Init.BodyOf) (hb : NonEmptySeals bodyOf) (hv : ValidRotKeys bodyOf) (pc : PeerCrypto) (inPeers : Bool) (data tail : Bytes)
    (rnd : Rand) (rr : RotRand) (h : if inPeers then SB.R pc else SB.Q pc) :
    SOK SB inPeers (PeerCrypto.handleMessage env bodyOf payloadOk pc data tail rnd rr) := by
  have hpend : PendOK pc := by
    cases inPeers with
    | true => exact PeerOK.pendOK h
    | false => exact h
  have hg := handleMessage_good env bodyOf payloadOk pc data tail rnd rr hb hv hpend
  generalize PeerCrypto.handleMessage env bodyOf payloadOk pc data tail rnd rr = r at hg
  refine { no_panic := ?_, err_peers := ?_, err_pend := ?_, ok_peers := ?_, ok_pend := ?_, msg := fun hf => hf.elim, log_ok := fun hf => hf.elim }
  · intro _ hr
    subst hr
    exact hg
  · intro hi pc' e hr
    subst hr hi
    exact hg.2 h
  · intro _ pc' e hr
    subst hr
    exact hg.1
  · intro hi pc' out res log hr
    subst hr hi
    exact hg.2.1 h
  · intro _ pc' out res log hr
    subst hr
    by_cases hres : IsInitRes res
    · obtain ⟨p, hp⟩ := hres
      exact Or.inr ⟨p, hp, hg.2.2 p hp, Or.inl hg.1⟩
    · exact Or.inl ⟨hres, hg.1⟩

theorem tok (pc : PeerCrypto) (rr : RotRand) :
    (SB.Q pc → TOK SB SB.Q (PeerCrypto.everySecond pc rr)) ∧ (SB.R pc → TOK SB SB.R (PeerCrypto.everySecond pc rr)) := by
  have hs := everySecond_spec pc rr
  generalize PeerCrypto.everySecond pc rr = r at hs
  constructor
  · intro hq
    refine { no_panic := ?_, ok := ?_, log_ok := fun hf => hf.elim }
    · intro _ hr; subst hr; exact hs
    · intro pc' out res log hr
      subst hr
      intro i hi
      rw [hs.1] at hi
      exact tickInit_pendOK pc hq i hi
  · intro hq
    refine { no_panic := ?_, ok := ?_, log_ok := fun hf => hf.elim }
    · intro _ hr; subst hr; exact hs
    · intro pc' out res log hr
      subst hr
      intro i hi
      rw [hs.1] at hi
      exact tickInit_peerOK pc hq i hi

/-! ## no operation panics, and each keeps the sessions well-formed -/

theorem handleNet_no_panic (env : CryptoEnv) (bodyOf : Init.BodyOf) (o : Oracle) (n : Node) (now : Int) (src : NAddr) (data tail : Bytes)
    (hwf : NodeWF n) (hb : NonEmptySeals bodyOf) (hv : ValidRotKeys bodyOf) :
    (Node.handleNet env bodyOf o n now src data tail).1.panicked = false ∧ NodeWF (Node.handleNet env bodyOf o n now src data tail).1.node := by
  rw [wf_iff]
  exact handleNet_GI SB env bodyOf o n now src data tail ((wf_iff { node := n }).1 ⟨rfl, hwf⟩)
    (fun pc inPeers rnd rr hpc => sok env bodyOf hb hv pc inPeers data tail rnd rr hpc) (fun hf => hf.elim)

theorem handleIface_no_panic (o : Oracle) (n : Node) (now : Int) (data : Bytes) (hwf : NodeWF n) :
    (Node.handleIface o n now data).panicked = false ∧ NodeWF (Node.handleIface o n now data).node := by
  rw [wf_iff]
  exact handleIface_GI SB o n now data ((wf_iff { node := n }).1 ⟨rfl, hwf⟩)

theorem housekeep_no_panic (env : CryptoEnv) (o : Oracle) (n : Node) (now : Int) (hwf : NodeWF n) :
    (Node.housekeep env o n now).panicked = false ∧ NodeWF (Node.housekeep env o n now).node := by
  rw [wf_iff]
  exact housekeep_GI SB env o n now ((wf_iff { node := n }).1 ⟨rfl, hwf⟩) tok (fun hf => hf.elim)

theorem connect_no_panic (env : CryptoEnv) (o : Oracle) (n : Node) (addrs : List NAddr) (hwf : NodeWF n) :
    (Node.connect env o { node := n } addrs).panicked = false ∧ NodeWF (Node.connect env o { node := n } addrs).node := by
  rw [wf_iff]
  exact connect_GI SB none env o { node := n } addrs ((wf_iff { node := n }).1 ⟨rfl, hwf⟩)

/-! ## all histories -/

/-- one operation of the node and the step context it ends in (outputs, panic flag, new state): ANY cryptography, oracle, input and time;
    the network's view of ciphertexts is only required to have non-empty genuine seals -/
inductive Step : Node → Ctx → Prop
  | net (env : CryptoEnv) (bodyOf : Init.BodyOf) (o : Oracle) (n : Node) (now : Int) (src : NAddr) (data tail : Bytes) :
      NonEmptySeals bodyOf → ValidRotKeys bodyOf → Step n (Node.handleNet env bodyOf o n now src data tail).1
  | iface (o : Oracle) (n : Node) (now : Int) (data : Bytes) : Step n (Node.handleIface o n now data)
  | tick (env : CryptoEnv) (o : Oracle) (n : Node) (now : Int) : Step n (Node.housekeep env o n now)
  | dial (env : CryptoEnv) (o : Oracle) (n : Node) (addrs : List NAddr) : Step n (Node.connect env o { node := n } addrs)

inductive Reach (n0 : Node) : Node → Prop
  | init : Reach n0 n0
  | step {n : Node} {c : Ctx} : Reach n0 n → Step n c → Reach n0 c.node

theorem step_no_panic {n : Node} {c : Ctx} (h : NodeWF n) (hs : Step n c) : c.panicked = false ∧ NodeWF c.node := by
  cases hs with
  | net env bodyOf o _ now src data tail hb hv => exact handleNet_no_panic env bodyOf o n now src data tail h hb hv
  | iface o _ now data => exact handleIface_no_panic o n now data h
  | tick env o _ now => exact housekeep_no_panic env o n now h
  | dial env o _ addrs => exact connect_no_panic env o n addrs h

theorem wf_reach {n0 n : Node} (h0 : NodeWF n0) (h : Reach n0 n) : NodeWF n := by
  induction h with
  | init => exact h0
  | step _ hs ih => exact (step_no_panic ih hs).2

/-- **never panics**: in every history that starts from a node without sessions, no step panics (for every configuration: the interval
    expression of `housekeep` has no panicking input) -/
theorem never_panics (n0 n : Node) (c : Ctx) (h0 : n0.peers = [] ∧ n0.pending = []) (h : Reach n0 n) (hs : Step n c) : c.panicked = false := by
  refine (step_no_panic (wf_reach ?_ h) hs).1
  obtain ⟨h1, h2⟩ := h0
  refine ⟨?_, ?_⟩
  · intro a pc hm; rw [h2] at hm; cases hm
  · intro a p hm; rw [h1] at hm; cases hm

/-- … and more generally from every well-formed node -/
theorem never_panics' (n0 n : Node) (c : Ctx) (h0 : NodeWF n0) (h : Reach n0 n) (hs : Step n c) : c.panicked = false :=
  (step_no_panic (wf_reach h0 h) hs).1

/-! ## `NonEmptySeals` is consistent with what the node itself seals

  `NonEmptySeals` speaks about every ciphertext, hence also about the seals an honest node produces.  Those are: payload messages
  (`type :: body`), rotation messages (`MESSAGE_TYPE_ROTATION :: …`) and the handshake payload (`InitSt.payload`) in pong / peng.
  The handshake payload of every handshake object the node creates is `encodeNodeInfo (createNodeInfo n)`, which starts with the tag
  byte of the node-id part, and `handle_init` / `every_second` never change it.  So every seal in the log of every step is non-empty:
  a node of this model never violates `NonEmptySeals` itself.  (A peer that holds the session key but does not run this code can.) -/

theorem encodeNodeInfo_ne_nil (i : NodeInfo) : Codec.encodeNodeInfo i ≠ [] := by
  simp [Codec.encodeNodeInfo, Codec.encodePart]

theorem sendPing_payload (env : CryptoEnv) (ist : InitSt) (rnd : Rand) : (Init.sendPing env ist rnd).1.payload = ist.payload :=
  init_sendMessage_payload env { ist with ecdh := some rnd.ecdhPub } Generated.STAGE_PING rnd

/-- the own payload of every handshake object of the node is non-empty -/
def PayWF (n : Node) : Prop :=
  (∀ a pc, (a, pc) ∈ n.pending → ∀ i, pc.init = some i → i.payload ≠ []) ∧
  (∀ a p, (a, p) ∈ n.peers → ∀ i, p.crypto.init = some i → i.payload ≠ [])

def SC : SI where
  Q := PayOK
  R := PayOK
  T := False
  P := False
  L := True
  q_new := by
    intro env n hash rnd ist hist i hi
    simp only [Option.some.injEq] at hi
    subst hi
    rw [sendPing_payload]
    simp only [newAttempt, Option.some.injEq] at hist
    subst hist
    exact encodeNodeInfo_ne_nil _
  q_att := by
    intro n hash i hi
    simp only [newAttempt, Option.some.injEq] at hi
    subst hi
    exact encodeNodeInfo_ne_nil _
  r_seal := fun pc ty body ct h => h.of_init (sealMsg_init pc (ty :: body) ct)

theorem pay_iff (c : Ctx) : (LogNE c.log ∧ PayWF c.node) ↔ GI SC c := by
  unfold PayWF GI GIx
  constructor
  · rintro ⟨hl, hq, hr⟩
    exact ⟨fun a pc hm _ => hq a pc hm, hr, fun hf => hf.elim, fun hf => hf.elim, fun _ => hl⟩
  · rintro ⟨hq, hr, _, _, hl⟩
    exact ⟨hl trivial, fun a pc hm => hq a pc hm (by simp), hr⟩

theorem sokC (env : CryptoEnv) (bodyOf : Init.BodyOf) (pc : PeerCrypto) (inPeers : Bool) (data tail : Bytes)
    (rnd : Rand) (rr : RotRand) (h : if inPeers then SC.R pc else SC.Q pc) :
    SOK SC inPeers (PeerCrypto.handleMessage env bodyOf payloadOk pc data tail rnd rr) := by
  have hp : PayOK pc := by cases inPeers <;> exact h
  have hg := handleMessage_pay env bodyOf payloadOk pc data tail rnd rr
  generalize PeerCrypto.handleMessage env bodyOf payloadOk pc data tail rnd rr = r at hg
  refine { no_panic := fun hf => hf.elim, err_peers := ?_, err_pend := ?_, ok_peers := ?_, ok_pend := ?_, msg := fun hf => hf.elim, log_ok := ?_ }
  · intro _ pc' e hr
    subst hr
    exact hg hp
  · intro _ pc' e hr
    subst hr
    exact Or.inr (hg hp)
  · intro _ pc' out res log hr
    subst hr
    exact (hg hp).1
  · intro _ pc' out res log hr
    subst hr
    by_cases hres : IsInitRes res
    · obtain ⟨p, hp'⟩ := hres
      exact Or.inr ⟨p, hp', (hg hp).1, Or.inl (hg hp).1⟩
    · exact Or.inl ⟨hres, (hg hp).1⟩
  · intro _ pc' out res log hr
    subst hr
    exact (hg hp).2

theorem tokC (pc : PeerCrypto) (rr : RotRand) :
    (SC.Q pc → TOK SC SC.Q (PeerCrypto.everySecond pc rr)) ∧ (SC.R pc → TOK SC SC.R (PeerCrypto.everySecond pc rr)) := by
  have hs := everySecond_spec pc rr
  generalize PeerCrypto.everySecond pc rr = r at hs
  have key : PayOK pc → TOK SC PayOK r := by
    intro hq
    refine { no_panic := fun hf => hf.elim, ok := ?_, log_ok := ?_ }
    · intro pc' out res log hr
      subst hr
      intro i hi
      rw [hs.1] at hi
      exact tickInit_payOK pc hq i hi
    · intro _ pc' out res log hr
      subst hr
      exact hs.2.2
  exact ⟨key, key⟩

theorem handleNet_seals_nonempty (env : CryptoEnv) (bodyOf : Init.BodyOf) (o : Oracle) (n : Node) (now : Int) (src : NAddr) (data tail : Bytes)
    (h : PayWF n) : LogNE (Node.handleNet env bodyOf o n now src data tail).1.log ∧ PayWF (Node.handleNet env bodyOf o n now src data tail).1.node := by
  rw [pay_iff]
  exact handleNet_GI SC env bodyOf o n now src data tail ((pay_iff { node := n }).1 ⟨logNE_nil, h⟩)
    (fun pc inPeers rnd rr hpc => sokC env bodyOf pc inPeers data tail rnd rr hpc) (fun hf => hf.elim)

theorem handleIface_seals_nonempty (o : Oracle) (n : Node) (now : Int) (data : Bytes) (h : PayWF n) :
    LogNE (Node.handleIface o n now data).log ∧ PayWF (Node.handleIface o n now data).node := by
  rw [pay_iff]
  exact handleIface_GI SC o n now data ((pay_iff { node := n }).1 ⟨logNE_nil, h⟩)

theorem housekeep_seals_nonempty (env : CryptoEnv) (o : Oracle) (n : Node) (now : Int) (h : PayWF n) :
    LogNE (Node.housekeep env o n now).log ∧ PayWF (Node.housekeep env o n now).node := by
  rw [pay_iff]
  exact housekeep_GI SC env o n now ((pay_iff { node := n }).1 ⟨logNE_nil, h⟩) tokC (fun hf => hf.elim)

theorem connect_seals_nonempty (env : CryptoEnv) (o : Oracle) (n : Node) (addrs : List NAddr) (h : PayWF n) :
    LogNE (Node.connect env o { node := n } addrs).log ∧ PayWF (Node.connect env o { node := n } addrs).node := by
  rw [pay_iff]
  exact connect_GI SC none env o { node := n } addrs ((pay_iff { node := n }).1 ⟨logNE_nil, h⟩)

/-- one operation, for ANY view of the ciphertexts (no hypothesis on the AEAD here) -/
inductive StepAny : Node → Ctx → Prop
  | net (env : CryptoEnv) (bodyOf : Init.BodyOf) (o : Oracle) (n : Node) (now : Int) (src : NAddr) (data tail : Bytes) :
      StepAny n (Node.handleNet env bodyOf o n now src data tail).1
  | iface (o : Oracle) (n : Node) (now : Int) (data : Bytes) : StepAny n (Node.handleIface o n now data)
  | tick (env : CryptoEnv) (o : Oracle) (n : Node) (now : Int) : StepAny n (Node.housekeep env o n now)
  | dial (env : CryptoEnv) (o : Oracle) (n : Node) (addrs : List NAddr) : StepAny n (Node.connect env o { node := n } addrs)

inductive ReachAny (n0 : Node) : Node → Prop
  | init : ReachAny n0 n0
  | step {n : Node} {c : Ctx} : ReachAny n0 n → StepAny n c → ReachAny n0 c.node

theorem stepAny_seals {n : Node} {c : Ctx} (h : PayWF n) (hs : StepAny n c) : LogNE c.log ∧ PayWF c.node := by
  cases hs with
  | net env bodyOf o _ now src data tail => exact handleNet_seals_nonempty env bodyOf o n now src data tail h
  | iface o _ now data => exact handleIface_seals_nonempty o n now data h
  | tick env o _ now => exact housekeep_seals_nonempty env o n now h
  | dial env o _ addrs => exact connect_seals_nonempty env o n addrs h

theorem payWF_reach {n0 n : Node} (h0 : PayWF n0) (h : ReachAny n0 n) : PayWF n := by
  induction h with
  | init => exact h0
  | step _ hs ih => exact (stepAny_seals ih hs).2

/-- **every seal a node ever produces has a non-empty plaintext**: in every history from a node without sessions, whatever the
    network does, every entry of the seal log of every step is the seal of a non-empty plaintext -/
theorem own_seals_nonempty (n0 n : Node) (c : Ctx) (h0 : n0.peers = [] ∧ n0.pending = []) (h : ReachAny n0 n) (hs : StepAny n c) :
    ∀ ct k nonce p, (ct, Body.sealed k nonce p) ∈ c.log → p ≠ [] := by
  have hwf0 : PayWF n0 := by
    obtain ⟨h1, h2⟩ := h0
    refine ⟨?_, ?_⟩
    · intro a pc hm; rw [h2] at hm; cases hm
    · intro a p hm; rw [h1] at hm; cases hm
  intro ct k nonce p hm
  exact (stepAny_seals (payWF_reach hwf0 h) hs).1 ct _ hm k nonce p rfl

/-! ## non-vacuity; the invariant and the hypothesis on the AEAD are both needed -/
section Examples
open VpnCloud.Proofs.InitLemmas

private def s : NAddr := .v6 (List.replicate 16 0) 1
private def s2 : NAddr := .v6 (List.replicate 16 0) 2
private def cfg0 : NodeCfg :=
  { tap := false, learning := false, broadcast := false, peerTimeout := 300, peerTimeoutPublish := 300, updateFreq := 10,
    claims := [], key := [7, 7, 7, 7], trusted := [[9, 9, 9, 9]], algos := Toy.algos }
private def o0 : Oracle := { emitted := fun _ _ => [], rotProp := fun _ => 0, rotPend := fun _ => 0, starts := fun _ => [] }
private def n0 : Node :=
  { nodeId := List.replicate 16 9, addr := .v6 (List.replicate 16 0) 3, cfg := cfg0, table := { cacheTimeout := 300, claimTimeout := 300 } }

/-- non-vacuity: a node with an established peer (session with core, no handshake object) and a pending handshake that awaits a pong and
    holds its key is well-formed -/
private def n1 : Node :=
  { n0 with
    peers := [(s, { addrs := [], timeout := 1000, peerTimeout := 300, nodeId := List.replicate 16 1,
                    crypto := { init := none, core := some (Core.new 5 false 1 []) } })],
    pending := [(s2, { init := some Toy.st })] }

example : NodeWF n1 := by
  constructor
  · intro a pc hm i hi _
    simp only [n1, List.mem_singleton, Prod.mk.injEq] at hm
    obtain ⟨_, rfl⟩ := hm
    cases hi; rfl
  · intro a p hm i hi
    simp only [n1, List.mem_singleton, Prod.mk.injEq] at hm
    obtain ⟨_, rfl⟩ := hm
    cases hi

/-- the invariant is needed: a pending handshake that awaits a pong WITHOUT holding its key panics on a valid pong of a trusted peer
    (`ecdh_private_key.take().unwrap()`) -/
private def nNoKey : Node := { n0 with pending := [(s2, { init := some { Toy.st with ecdh := none } })] }

example : (handleNet Toy.env (Toy.body 0) o0 nNoKey 100 s2 (Generated.INIT_MESSAGE_FIRST_BYTE :: Toy.pong Toy.algos 0) []).1.panicked = true := by
  decide

/-- `NonEmptySeals` is needed: if the peer that holds the session key seals an EMPTY plaintext (8 header bytes + 16 tag bytes on the wire),
    the receiving node opens it and panics in `take_prefix` — from a well-formed state -/
private def emptySeal : Init.BodyOf := fun _ => .sealed 5 (HALF + 5) []
private def dgram24 : Bytes := [0, 0, 0, 0, 0, 0, 0, 5] ++ List.replicate 16 170

example : NodeWF n1 ∧ (handleNet Toy.env emptySeal o0 n1 100 s dgram24 []).1.panicked = true := by
  refine ⟨?_, by decide⟩
  constructor
  · intro a pc hm i hi _
    simp only [n1, List.mem_singleton, Prod.mk.injEq] at hm
    obtain ⟨_, rfl⟩ := hm
    cases hi; rfl
  · intro a p hm i hi
    simp only [n1, List.mem_singleton, Prod.mk.injEq] at hm
    obtain ⟨_, rfl⟩ := hm
    cases hi

/-- a node whose established peer has a rotation state (the one of the handshake initiator: id 0, nothing proposed) -/
private def n2 : Node :=
  { n0 with
    peers := [(s, { addrs := [], timeout := 1000, peerTimeout := 300, nodeId := List.replicate 16 1,
                    crypto := { init := none, core := some (Core.new 5 false 1 []), rot := some (PeerCrypto.initSide false 0) } })] }

private theorem n2_wf : NodeWF n2 := by
  constructor
  · intro a pc hm; cases hm
  · intro a p hm i hi
    simp only [n2, List.mem_singleton, Prod.mk.injEq] at hm
    obtain ⟨_, rfl⟩ := hm
    cases hi

/-- `ValidRotKeys` is needed: if the peer that holds the session key seals a ROTATION message with id 1 whose proposed key has FIVE bytes
    (plaintext `10 | 00 00 00 00 00 00 00 01 | 05 | 01 02 03 04 05 | 00`), the receiving node opens it and panics in
    `derive_key(private_key, msg.propose)` — from a well-formed state, and although no genuine seal is empty -/
private def shortKey : Init.BodyOf := fun _ => .sealed 5 (HALF + 5) [Generated.MESSAGE_TYPE_ROTATION, 0, 0, 0, 0, 0, 0, 0, 1, 5, 1, 2, 3, 4, 5, 0]

example : NodeWF n2 ∧ NonEmptySeals shortKey ∧ ¬ ValidRotKeys shortKey ∧ (handleNet Toy.env shortKey o0 n2 100 s dgram24 []).1.panicked = true := by
  refine ⟨n2_wf, ?_, ?_, by decide⟩
  · intro ct k n p h
    simp only [shortKey, Body.sealed.injEq] at h
    rw [← h.2.2]; decide
  · intro hv
    have h := hv [] 5 (HALF + 5) [0, 0, 0, 0, 0, 0, 0, 1, 5, 1, 2, 3, 4, 5, 0] rfl ⟨1, [1, 2, 3, 4, 5], none⟩ (by decide)
    exact absurd h.1 (by decide)

/-- non-vacuity of `NonEmptySeals` and `ValidRotKeys` together: an AEAD view with a genuine seal of a rotation message as `write_to` writes
    it (id 1, public key number 5) satisfies both, and the node hands it to `handle_rotate_message` without panic -/
private def goodRot : Init.BodyOf := fun ct =>
  if ct = List.replicate 16 170 then .sealed 5 (HALF + 5) (Generated.MESSAGE_TYPE_ROTATION :: Codec.writeRotMsg (PeerCrypto.rotMsgToBytes ⟨1, 5, none⟩))
  else .garbage ct.length

example : NonEmptySeals goodRot ∧ ValidRotKeys goodRot ∧ NodeWF n2 ∧ (handleNet Toy.env goodRot o0 n2 100 s dgram24 []).1.panicked = false ∧
    (handleNet Toy.env goodRot o0 n2 100 s dgram24 []).2 = none := by
  have h1 : NonEmptySeals goodRot := by
    intro ct k n p h
    unfold goodRot at h
    split at h
    · simp only [Body.sealed.injEq] at h
      rw [← h.2.2]; simp
    · cases h
  have h2 : ValidRotKeys goodRot := by
    intro ct k n body h
    unfold goodRot at h
    split at h
    · simp only [Body.sealed.injEq, List.cons.injEq, true_and] at h
      rw [← h.2.2]
      exact VpnCloud.Proofs.RotPanicLemmas.written_keysOK _
    · cases h
  exact ⟨h1, h2, n2_wf, (handleNet_no_panic Toy.env goodRot o0 n2 100 s dgram24 [] n2_wf h1 h2).1, by decide +kernel⟩

/-- the seal log is not trivially empty: a broadcast frame is sealed once for the peer, and the logged plaintext is `type :: frame` -/
example : (handleIface o0 { n1 with cfg := { cfg0 with broadcast := true } } 100 (69 :: (List.replicate 11 0 ++ [10, 0, 0, 1, 10, 0, 0, 2]))).log.map (·.2) =
    [.sealed 5 1 (0 :: 69 :: (List.replicate 11 0 ++ [10, 0, 0, 1, 10, 0, 0, 2]))] := by
  decide

/-- a two-step history from the empty node -/
example : Reach n0 (housekeep Toy.env o0 (connect Toy.env o0 { node := n0 } [s]).node 100).node :=
  .step (.step .init (.dial Toy.env o0 n0 [s])) (.tick Toy.env o0 _ 100)

end Examples
end VpnCloud.Proofs.C08Node
