import VpnCloud.Model.Node
import VpnCloud.Proofs.Lemmas.NodeLemmas2
/-
  C01 at node level: peers are created only by `add_new_peer`, i.e. by a completed handshake with the
  sender of the datagram being processed.  Both statements proved as given (no hypothesis added);
  `housekeep_creates_no_peer` is an additional theorem for the second half of the docstring of
  `iface_creates_no_peer`.
-/
namespace VpnCloud.Proofs.C01Node
open VpnCloud VpnCloud.Node
open VpnCloud.Proofs.NodeLemmas VpnCloud.Proofs.NodeLemmas2

/-- processing a datagram can make at most its sender a new peer -/
theorem only_sender_becomes_peer (env : CryptoEnv) (bodyOf : Init.BodyOf) (o : Oracle) (n : Node) (now : Int) (src : NAddr) (data tail : Bytes) :
    ∀ a, (lookupA (handleNet env bodyOf o n now src data tail).1.node.peers a).isSome → (lookupA n.peers a).isSome ∨ a = mappedAddr src := by
  intro a ha
  rw [lookupA_isSome_iff] at ha
  rcases handleNet_keysSub env bodyOf o n now src data tail a ha with h | h
  · exact Or.inl ((lookupA_isSome_iff _ _).2 h)
  · exact Or.inr h

/-- a frame read from the interface and housekeeping never create peers -/
theorem iface_creates_no_peer (o : Oracle) (n : Node) (now : Int) (data : Bytes) :
    (handleIface o n now data).node.peers.map (·.1) = n.peers.map (·.1) :=
  (handleIface_toPeers o n now data).2

/-- housekeeping never creates peers: every peer address after the tick was one before -/
theorem housekeep_creates_no_peer (env : CryptoEnv) (o : Oracle) (n : Node) (now : Int) :
    ∀ a, (lookupA (housekeep env o n now).node.peers a).isSome → (lookupA n.peers a).isSome := by
  intro a ha
  cases hl : lookupA (housekeep env o n now).node.peers a with
  | none => rw [hl] at ha; cases ha
  | some p =>
    obtain ⟨p0, h0, _⟩ := housekeep_keptC env o n now a p (lookupA_some_mem hl)
    unfold alive at h0
    rw [List.mem_filter] at h0
    rw [lookupA_isSome_iff]
    exact List.mem_map.2 ⟨(a, p0), h0.1, rfl⟩

end VpnCloud.Proofs.C01Node
