import VpnCloud.Model.Node
import VpnCloud.Proofs.Lemmas.NodeLemmas
/-
  C10 — no relaying: a frame read from the interface goes only to current peers and never back to an
  interface; whatever is emitted while a received datagram is processed is a handshake datagram or goes
  back to the sender.  All statements are proved as given (no hypothesis added).
-/
namespace VpnCloud.Proofs.C10

open VpnCloud VpnCloud.Node
open VpnCloud.Proofs.NodeLemmas

/-- a frame read from the interface never comes back to an interface -/
theorem iface_read_no_iface_write (o : Oracle) (n : Node) (now : Int) (data : Bytes) :
    ∀ b, Out.iface b ∉ (handleIface o n now data).outs := by
  intro b hb
  obtain ⟨d, b', h, _⟩ := (handleIface_toPeers o n now data).1 _ hb
  cases h

/-- every datagram caused by an interface read goes to a current peer -/
theorem iface_read_only_to_peers (o : Oracle) (n : Node) (now : Int) (data : Bytes) :
    ∀ d b, Out.dgram d b ∈ (handleIface o n now data).outs → (lookupA n.peers d).isSome := by
  intro d b hb
  obtain ⟨d', b', h, hk⟩ := (handleIface_toPeers o n now data).1 _ hb
  cases h
  exact (lookupA_isSome_iff n.peers d).2 hk

/-- **net_never_relays**: whatever a node emits while processing a received datagram is either a handshake datagram or goes back to the sender -/
theorem net_never_relays (env : CryptoEnv) (bodyOf : Init.BodyOf) (o : Oracle) (n : Node) (now : Int) (src : NAddr) (data tail : Bytes) :
    ∀ d b, Out.dgram d b ∈ (handleNet env bodyOf o n now src data tail).1.outs →
      d = mappedAddr src ∨ b.head? = some Generated.INIT_MESSAGE_FIRST_BYTE := by
  intro d b h
  rcases (handleNet_ext env bodyOf o n now src data tail).mem h with h | h | h | h
  · simp at h
  · obtain ⟨b', hb⟩ := h
    cases hb
    exact Or.inl rfl
  · obtain ⟨d', b', hb⟩ := h
    cases hb
    exact Or.inr rfl
  · obtain ⟨b', hb⟩ := h
    cases hb

end VpnCloud.Proofs.C10
