import VpnCloud.Model.Node
namespace VpnCloud.Proofs.C10
end VpnCloud.Proofs.C10
