import VpnCloud.Model.Core
namespace VpnCloud.Proofs.C02
end VpnCloud.Proofs.C02
