import VpnCloud.Model.Core
import VpnCloud.Spec.C04
import VpnCloud.Proofs.Lemmas.CoreLemmas
import VpnCloud.Proofs.C04
import VpnCloud.Proofs.C03
/-
  C02 — authenticated framing: round trip, and everything that is accepted is genuine (so tampering,
  truncation, reflection and cross-connection datagrams are rejected, leaving no state behind).
  All statements are proved as given (no hypothesis added).
-/
namespace VpnCloud.Proofs.C02

open VpnCloud VpnCloud.Spec.C04
open VpnCloud.Proofs.CoreLemmas

/-- `base half + v` is a proper 96-bit nonce when `v < 2^95` -/
theorem base_add_lt (half : Bool) (v : Nat) (hv : v < 2 ^ 95) : base half + v < NONCE_MOD := by
  rw [pow95] at hv
  rw [nonce_mod_eq]
  cases half <;> simp only [base, half_eq, if_true, Bool.false_eq_true, if_false] <;> omega

/-- **roundtrip**: sender and receiver hold the same key in the sender's current slot, opposite halves, receiver window floor not above the
    nonce, counter within 56 bits: the receiver gets exactly the plaintext, for every payload -/
theorem roundtrip (s r : Core) (p : Bytes) (ks kr : SlotKey) (v : Nat)
    (hs : s.slots[s.cur]? = some ks) (hr : r.slots[s.cur]? = some kr) (hcur : s.cur < 4) (hkey : kr.key = ks.key)
    (hhalf : r.half = !s.half) (hsend : ks.send + 1 = base s.half + v) (hv : v < 2 ^ 56) (hmin : kr.min ≤ ks.send + 1) :
    (r.decrypt (s.encrypt p).2).2 = .ok p := by
  have hv95 : v < 2 ^ 95 := by rw [pow56] at hv; rw [pow95]; omega
  have hlt : ks.send + 1 < NONCE_MOD := by rw [hsend]; exact base_add_lt _ _ hv95
  have hhalf' : s.half = !r.half := by rw [hhalf, Bool.not_not]
  have hrec : r.reconstruct (Bytes.beVal (Bytes.ofBE 7 (ks.send + 1))) = ks.send + 1 :=
    (C04.reconstruct_iff r (ks.send + 1) v (by rw [hsend, hhalf']) hv95).2 hv
  rw [(C04.encrypt_spec s p ks hs hlt).1]
  obtain ⟨f1, f2, f3⟩ := C04.sealed_fields s.cur (ks.send + 1) (.sealed ks.key (ks.send + 1) p)
  rw [← beVal_ofBE7] at f2
  have hd := (C03.decrypt_authentic r _ kr p (by rw [f3]; simp only [Body.len, Generated.TAG_LEN]; omega)
    (by rw [f1]; exact hcur) (by rw [f1]; exact hr) (by rw [f2, hrec, hkey])).1
  rw [f2, hrec] at hd
  exact (hd hmin).1

/-- non-vacuity: a fresh pair of cores, three payloads in a row -/
example : ((Core.new 7 false 8 [0, 0, 0, 0]).decrypt ((Core.new 7 true 9 [5, 6, 7, 8]).encrypt [1, 2, 3]).2).2 = .ok [1, 2, 3] := by
  decide

/-- **accepted_is_genuine**: whatever is accepted was sealed under the key of the addressed slot with exactly the reconstructed nonce and
    carries exactly the sealed plaintext (so any alteration of key id, counter, ciphertext or tag, and any truncation, is rejected) -/
theorem accepted_is_genuine (c : Core) (d : Dgram) (p : Bytes) (h : (c.decrypt d).2 = .ok p) :
    d.len ≥ 24 ∧ d.keyId < 4 ∧ ∃ k, c.slots[d.keyId]? = some k ∧ d.body = .sealed k.key (c.reconstruct d.counter) p := by
  rcases decrypt_cases c d with ⟨e, he⟩ | ⟨k, p', hlen, hid, hk, _, hb, hd⟩
  · rw [he] at h; cases h
  · rw [hd] at h
    simp only [Except.ok.injEq] at h
    exact ⟨hlen, hid, k, hk, by rw [hb, h]⟩

/-- a rejected datagram leaves no state behind -/
theorem reject_no_state (c : Core) (d : Dgram) (e : CoreErr) (h : (c.decrypt d).2 = .error e) : (c.decrypt d).1 = c := by
  rcases decrypt_cases c d with ⟨e', he⟩ | ⟨k, p', _, _, _, _, _, hd⟩
  · rw [he]
  · rw [hd] at h; cases h

/-- tampered ciphertext / tag (any body that is not an intact seal) is rejected -/
theorem garbage_rejected (c : Core) (hdr : Bytes) (n : Nat) : ∃ e, (c.decrypt { hdr := hdr, body := .garbage n }).2 = .error e := by
  rcases decrypt_cases c { hdr := hdr, body := .garbage n } with ⟨e, he⟩ | ⟨k, p', _, _, _, _, hb, _⟩
  · exact ⟨e, by rw [he]⟩
  · cases hb

/-- **reflection_rejected**: a datagram reflected back to its own sender is rejected (its nonce lies in the sender's own half) -/
theorem reflection_rejected (c : Core) (p : Bytes) (k : SlotKey) (v : Nat) (hk : c.slots[c.cur]? = some k)
    (hsend : k.send + 1 = base c.half + v) (hv : v < 2 ^ 95) :
    ∃ e, ((c.encrypt p).1.decrypt (c.encrypt p).2).2 = .error e := by
  have hlt : k.send + 1 < NONCE_MOD := by rw [hsend]; exact base_add_lt _ _ hv
  obtain ⟨e2, e1⟩ := C04.encrypt_spec c p k hk hlt
  rw [e2]
  apply C04.decrypt_wrong_nonce _ _ k.key (k.send + 1) p rfl
  rw [(C04.sealed_fields c.cur (k.send + 1) _).2.1, C04.reconstruct_eq, e1]
  show k.send + 1 ≠ base (!c.half) + (k.send + 1) % 2 ^ 56
  have hm := Nat.mod_lt (k.send + 1) (show 2 ^ 56 > 0 by decide)
  rw [hsend] at hm ⊢
  rw [pow95] at hv
  rw [pow56] at hm
  cases c.half <;> simp only [base, half_eq, Bool.not_true, Bool.not_false, if_true, Bool.false_eq_true, if_false] at hm ⊢ <;> omega

/-- non-vacuity: the datagram a core just produced, fed back to the same core -/
example : (((Core.new 7 true 9 [5, 6, 7, 8]).encrypt [1, 2, 3]).1.decrypt ((Core.new 7 true 9 [5, 6, 7, 8]).encrypt [1, 2, 3]).2).2
    = .error .openFailed := by
  decide

/-- a datagram sealed for a different connection (different key in the addressed slot) is rejected -/
theorem cross_connection_rejected (c : Core) (d : Dgram) (k : SlotKey) (key n : Nat) (p : Bytes)
    (hk : c.slots[d.keyId]? = some k) (hb : d.body = .sealed key n p) (hne : key ≠ k.key) :
    ∃ e, (c.decrypt d).2 = .error e := by
  rcases decrypt_cases c d with ⟨e, he⟩ | ⟨k', p', _, _, hk', _, hb', _⟩
  · exact ⟨e, by rw [he]⟩
  · rw [hk] at hk'
    cases hk'
    rw [hb] at hb'
    cases hb'
    exact absurd rfl hne

/-- non-vacuity: same nonce, other key -/
example : ((Core.new 7 false 8 [0, 0, 0, 0]).decrypt { hdr := 0 :: Bytes.ofBE 7 (HALF + 6), body := .sealed 9 (HALF + 6) [1] }).2
    = .error .openFailed := by
  decide

end VpnCloud.Proofs.C02
