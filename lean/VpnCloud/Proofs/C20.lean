import VpnCloud.Generated.ConfigRules
import VpnCloud.Spec.C20
namespace VpnCloud.Proofs.C20
end VpnCloud.Proofs.C20
