import VpnCloud.Generated.ConfigRules
import VpnCloud.Spec.C20
import VpnCloud.Proofs.Lemmas.ConfigLemmas
/-
  C20 — configuration sources combine as documented.

  All statements about the regenerated rule table `Generated.configRules` go through decidable
  checks (`rulesMatch`, `scopeOK`, `rtOK`, `nodupB`) that are discharged by `decide`, i.e. re-checked
  against whatever table the translator produced on this run; the reasoning itself is generic in
  the table.

  Two statements needed an explicit extra hypothesis (see `rule_eq_spec`, `merge_eq_spec_generic`):
  `ruleMatches` does not stop a rule from *reading the file* for an option that the documentation
  declares not expressible in the file (`inFile := false`), whereas `specField` ignores the file for
  such an option.  The hypothesis "an option that is not in the file format has file rule `.none`"
  (`scopeOK`, decidable) closes that gap; it holds for the extracted table (`scope_ok`), so
  `merge_eq_spec`, `roundtrip` etc. are unchanged.
-/
namespace VpnCloud.Proofs.C20
open VpnCloud VpnCloud.Config VpnCloud.Spec.C20
open VpnCloud.Proofs.ConfigLemmas

/-! ### checks on the concrete tables (re-run on every regeneration) -/

/-- the regenerated rule table implements the documented kind of every option (re-checked on every run) -/
theorem rules_match : rulesMatch Generated.configRules docTable = true := by decide

/-- options outside the file format (`daemonize`) are not read from the file -/
theorem scope_ok : scopeOK Generated.configRules docTable = true := by decide

/-- every option of the file format is written by `into_config_file`, and the defaults of accumulating
    options are empty (otherwise writing out and reading back would duplicate them) -/
theorem rt_ok : rtOK Generated.configRules docTable = true := by decide

/-- option names are distinct -/
theorem names_nodup : nodupB (Generated.configRules.map (·.name)) = true := by decide

/-- keys of the file format are distinct -/
theorem fileKeys_nodup : nodupB (Generated.configRules.map (·.fileKey)) = true := by decide

/-- the documented defaults of accumulating options are empty lists and all of them are in the file format -/
theorem accumulate_defaults :
    docTable.all (fun e => decide (e.kind ≠ .accumulate) || (decide (e.default = .list []) && e.inFile)) = true := by
  decide

/-! ### one rule -/

/-- Counterexample to `rule_eq_spec` without the scope hypothesis: a plain setting that the documentation
    declares not expressible in the file, with a rule that nevertheless reads the file.  `ruleMatches`
    accepts the pair, the source is well-typed, but the rule takes the file value and the documentation
    the default. -/
example :
    let r : FieldRule := { name := "x", default := .scalar "d", file := .override, fileKey := "k",
                           arg := .override, argKey := "a", toFile := .absent }
    let e : DocEntry := { name := "x", fileKey := "k", argKey := "a", kind := .scalar,
                          default := .scalar "d", inFile := false }
    let file : Source := [("k", .str "v")]
    ruleMatches r e = true ∧ sourceOK [e] file [] = true ∧
      applyArg r (applyFile r r.default file) [] = .scalar "v" ∧ specField e file [] = .scalar "d" := by
  decide

/-- one rule that matches its documentation entry computes the documented value, for every well-typed pair of sources.

    ADDED HYPOTHESIS `hscope`: if the documentation says the option is not part of the file format, the rule
    must not read the file (`r.file = .none`).  Without it the statement is false (example above): `ruleMatches`
    only relaxes the file-key comparison for such options but does not force the file rule to be `.none`
    (it does so only for `switchOn`, and even there `.override` is accepted). -/
theorem rule_eq_spec (r : FieldRule) (e : DocEntry) (file args : Source) (h : ruleMatches r e = true)
    (hscope : e.inFile = false → r.file = .none)
    (hs : sourceOK [e] file args = true) :
    applyArg r (applyFile r r.default file) args = specField e file args :=
  rule_eq_spec' r e file args h hscope hs

/-! ### the whole table -/

/-- Counterexample to `merge_eq_spec_generic` without `scopeOK`: the one-entry tables of the example above. -/
example :
    let rules : List FieldRule := [{ name := "x", default := .scalar "d", file := .override, fileKey := "k",
                                     arg := .override, argKey := "a", toFile := .absent }]
    let doc : List DocEntry := [{ name := "x", fileKey := "k", argKey := "a", kind := .scalar,
                                  default := .scalar "d", inFile := false }]
    let file : Source := [("k", .str "v")]
    rulesMatch rules doc = true ∧ sourceOK doc file [] = true ∧
      merge rules file [] ≠ doc.map (fun e => (e.name, specField e file [])) := by
  decide

theorem merge_eq_spec_aux : ∀ (rules : List FieldRule) (doc : List DocEntry),
    rules.length = doc.length →
    (∀ p ∈ rules.zip doc, ruleMatches p.1 p.2 = true) →
    (∀ p ∈ rules.zip doc, (p.2.inFile || decide (p.1.file = .none)) = true) →
    ∀ (file args : Source), sourceOK doc file args = true →
    merge rules file args = doc.map (fun e => (e.name, specField e file args))
  | [], [], _, _, _, _, _, _ => rfl
  | [], _ :: _, h, _, _, _, _, _ => by simp at h
  | _ :: _, [], h, _, _, _, _, _ => by simp at h
  | r :: rules, e :: doc, hl, hm, hsc, file, args, hs => by
    have hs2 := sourceOK_cons hs
    have hre : (r, e) ∈ (r :: rules).zip (e :: doc) := by simp
    have hm1 : ruleMatches r e = true := hm (r, e) hre
    have hsc1 := hsc (r, e) hre
    have hname : r.name = e.name := by
      rw [ruleMatches_eq] at hm1
      simp only [Bool.and_eq_true, decide_eq_true_eq] at hm1
      exact hm1.1.1.1.1
    have hscope : e.inFile = false → r.file = .none := by
      intro hi
      simpa [hi] using hsc1
    have ih := merge_eq_spec_aux rules doc (by simpa using hl)
      (fun p hp => hm p (by simp only [List.zip_cons_cons]; exact List.mem_cons_of_mem _ hp))
      (fun p hp => hsc p (by simp only [List.zip_cons_cons]; exact List.mem_cons_of_mem _ hp))
      file args hs2.2
    unfold merge at ih ⊢
    rw [List.map_cons, List.map_cons, ih, rule_eq_spec r e file args hm1 hscope hs2.1, hname]

/-- **merge_eq_spec** (generic): any rule table that matches the documentation combines defaults, file and command line as documented.

    ADDED HYPOTHESIS `hscope : scopeOK rules doc = true` (decidable; every option that the documentation keeps out of
    the file format has file rule `.none`), for the reason given at `rule_eq_spec`; counterexample to the original above. -/
theorem merge_eq_spec_generic (rules : List FieldRule) (doc : List DocEntry) (h : rulesMatch rules doc = true)
    (hscope : scopeOK rules doc = true)
    (file args : Source) (hs : sourceOK doc file args = true) :
    merge rules file args = doc.map (fun e => (e.name, specField e file args)) := by
  unfold rulesMatch at h
  simp only [Bool.and_eq_true, decide_eq_true_eq, List.all_eq_true] at h
  unfold scopeOK at hscope
  rw [List.all_eq_true] at hscope
  exact merge_eq_spec_aux rules doc h.1 h.2 hscope file args hs

/-- … in particular the table extracted from the current source -/
theorem merge_eq_spec (file args : Source) (hs : sourceOK docTable file args = true) :
    merge Generated.configRules file args = specMerge file args :=
  merge_eq_spec_generic Generated.configRules docTable rules_match scope_ok file args hs

/-! ### the documented combination, spelled out -/

/-- **precedence**: a plain setting takes the command-line value if given, else the file value, else the documented default -/
theorem precedence (e : DocEntry) (he : e ∈ docTable) (hk : e.kind = .scalar ∨ e.kind = .optional) (file args : Source) :
    specField e file args =
      (match strOf args e.argKey, strOf (if e.inFile then file else []) e.fileKey with
       | some a, _ => (if e.kind = .scalar then .scalar a else .opt (some a))
       | none, some f => (if e.kind = .scalar then .scalar f else .opt (some f))
       | none, none => e.default) := by
  have _ := he  -- membership in the table is not needed for this one
  unfold specField
  rcases hk with hk | hk <;> rw [hk] <;> simp only [] <;> split <;> simp_all

/-- **lists_accumulate**: peers, claims, trusted keys and advertised addresses are default ++ file ++ command line -/
theorem lists_accumulate (e : DocEntry) (he : e ∈ docTable) (hk : e.kind = .accumulate) (file args : Source) :
    specField e file args = .list (listOf file e.fileKey ++ listOf args e.argKey) := by
  have h := (List.all_eq_true.1 accumulate_defaults) e he
  simp only [hk, ne_eq, not_true_eq_false, decide_false, Bool.false_or, Bool.and_eq_true,
    decide_eq_true_eq] at h
  unfold specField
  simp only [hk, h.1, h.2, if_true, List.nil_append]

/-! ### the netmask -/

theorem netmask_le : ∀ p, p < 33 → netmaskBits p = netmaskRef p := by decide

/-- **netmask_exact**: for every prefix length 0..32 the mask has that many leading one bits; longer prefixes are an error; never a panic -/
theorem netmask_exact (p : Nat) : netmaskBits p = netmaskRef p := by
  by_cases h : p < 33
  · exact netmask_le p h
  · have h1 : p > 32 := by omega
    have h2 : ¬ p ≤ 32 := by omega
    simp [netmaskBits, netmaskRef, h1, h2]

/-! ### round trip through the file form -/

/-- **roundtrip**: turning an effective configuration (any result of `merge` on well-typed sources) back into file form and merging it into the defaults reproduces
    every setting the file format can express.

    No extra hypothesis is needed for hook maps: an effective hook map never has duplicate event names, because it is
    built by `mapInsert` (`HashMap::insert`) from the empty default (`keysNodup_foldl_*`). -/
theorem roundtrip (file args : Source) (hs : sourceOK docTable file args = true) (e : DocEntry) (he : e ∈ docTable) (hf : e.inFile = true) :
    (merge Generated.configRules (intoFile Generated.configRules (merge Generated.configRules file args)) []).lookup e.name =
    (merge Generated.configRules file args).lookup e.name :=
  roundtrip_generic Generated.configRules docTable rules_match rt_ok names_nodup fileKeys_nodup file args hs e he hf

/-! ### non-vacuity: a concrete file and command line with several options -/

def exFile : Source :=
  [("listen", .str "4000"), ("peers", .list ["a:1"]), ("device.name", .str "tun7"),
   ("hooks", .map [("peer_connected", "x.sh"), ("peer_connected", "x2.sh"), ("startup", "s.sh")]), ("hook", .str "file.sh"),
   ("auto_claim", .flag false), ("algorithms", .list ["aes128"]), ("trusted_keys", .list ["k1"]),
   ("device.fix_rp_filter", .flag true), ("password", .str "filepw")]

def exArgs : Source :=
  [("listen", .str "5000"), ("peers", .list ["b:2", "c:3"]), ("daemon", .flag true),
   ("password", .str "pw"), ("trusted_keys", .list ["k2"]), ("no_port_forwarding", .flag true),
   ("claims", .list ["10.0.0.0/8"])]

example : sourceOK docTable exFile exArgs = true := by decide
example : (merge Generated.configRules exFile exArgs).lookup "listen" = some (.scalar "5000") := by decide
example : (merge Generated.configRules exFile exArgs).lookup "device_name" = some (.scalar "tun7") := by decide
example : (merge Generated.configRules exFile exArgs).lookup "mode" = some (.scalar "normal") := by decide
example : (merge Generated.configRules exFile exArgs).lookup "peers" = some (.list ["a:1", "b:2", "c:3"]) := by decide
example : (merge Generated.configRules exFile exArgs).lookup "trusted_keys" = some (.list ["k1", "k2"]) := by decide
example : (merge Generated.configRules exFile exArgs).lookup "algorithms" = some (.list ["aes128"]) := by decide
example : (merge Generated.configRules exFile exArgs).lookup "password" = some (.opt (some "pw")) := by decide
example : (merge Generated.configRules exFile exArgs).lookup "hook" = some (.opt (some "file.sh")) := by decide
example : (merge Generated.configRules exFile exArgs).lookup "hooks" =
    some (.map [("peer_connected", "x2.sh"), ("startup", "s.sh")]) := by decide
example : (merge Generated.configRules exFile exArgs).lookup "auto_claim" = some (.flag false) := by decide
example : (merge Generated.configRules exFile exArgs).lookup "port_forwarding" = some (.flag false) := by decide
example : (merge Generated.configRules exFile exArgs).lookup "daemonize" = some (.flag true) := by decide
example : merge Generated.configRules exFile exArgs = specMerge exFile exArgs := by decide
/-- the file form of the example, and the round trip on it (everything but `daemonize` comes back) -/
example : (intoFile Generated.configRules (merge Generated.configRules exFile exArgs)).get "peers" =
    some (.list ["a:1", "b:2", "c:3"]) := by decide
example : (merge Generated.configRules (intoFile Generated.configRules (merge Generated.configRules exFile exArgs)) []).lookup "daemonize"
    = some (.flag false) := by decide
example : ∀ e ∈ docTable, e.inFile = true →
    (merge Generated.configRules (intoFile Generated.configRules (merge Generated.configRules exFile exArgs)) []).lookup e.name =
    (merge Generated.configRules exFile exArgs).lookup e.name := by decide
/-- `--hook` on the command line (with and without an event name) is a well-typed source too, so `merge_eq_spec` and
    `roundtrip` apply to it (`splitHook` is `String.splitOn`, which the kernel does not evaluate, hence no `decide` on the values) -/
def exArgsHook : Source := [("hook", .list ["peer_connected:y.sh", "all.sh"]), ("ifup", .str "up.sh")]
example : sourceOK docTable exFile exArgsHook = true := by decide
example : merge Generated.configRules exFile exArgsHook = specMerge exFile exArgsHook :=
  merge_eq_spec exFile exArgsHook (by decide)
example : (merge Generated.configRules (intoFile Generated.configRules (merge Generated.configRules exFile exArgsHook)) []).lookup "hooks" =
    (merge Generated.configRules exFile exArgsHook).lookup "hooks" :=
  roundtrip exFile exArgsHook (by decide) _ (by decide : (⟨"hooks", "hooks", "hook", .hookMap, .map [], true⟩ : DocEntry) ∈ docTable) rfl
/-- the hypotheses of `precedence` / `lists_accumulate` are inhabited -/
example : ∃ e ∈ docTable, e.kind = .scalar := by decide
example : ∃ e ∈ docTable, e.kind = .optional := by decide
example : (docTable.filter (fun e => e.kind = .accumulate)).map (·.name) =
    ["advertise_addresses", "trusted_keys", "peers", "claims"] := by decide
example : netmaskBits 0 = some 0 ∧ netmaskBits 24 = some 0xFFFFFF00 ∧ netmaskBits 32 = some 0xFFFFFFFF ∧ netmaskBits 33 = none := by
  decide

end VpnCloud.Proofs.C20
