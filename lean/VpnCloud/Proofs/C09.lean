import VpnCloud.Model.Node
namespace VpnCloud.Proofs.C09
end VpnCloud.Proofs.C09
