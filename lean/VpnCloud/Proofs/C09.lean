import VpnCloud.Model.Node
import VpnCloud.Proofs.Lemmas.NodeLemmas
/-
  C09 — dispatch: a datagram without the handshake marker from the address of an established peer is
  processed by that peer's session, whatever handshake is pending for that address.

  The statement as given (arbitrary `q1`, `q2`) is FALSE in its first conjunct (the outputs; the second
  conjunct, the peers, does hold for arbitrary `q1`, `q2`): when the session delivers a node-information
  message, `update_peer_info` → `connect_to_peers` → `connect` dials the peers listed in it unless a
  handshake with them is already pending, so the handshake datagrams emitted depend on the pending
  handshakes of *other* addresses (counterexample: `dispatch_original_false` below).  This is no
  dispatch defect: it is the intended behaviour of `connect`.

  Hypothesis added to `dispatch_reaches_session`: `hq`, the two pending lists agree off the sender's
  address (`eraseA q1 src = eraseA q2 src`) — exactly "whatever pending handshakes exist for that
  address".  In addition `dispatch_any_pending` proves for ARBITRARY `q1`, `q2` (no hypothesis) that the
  peers agree and the outputs agree up to handshake datagrams.
-/
namespace VpnCloud.Proofs.C09

open VpnCloud VpnCloud.Node
open VpnCloud.Proofs.NodeLemmas

/-- both runs of `handleNet` end in contexts that differ at most in the pending handshake stored for the sender's address -/
theorem dispatch_sim (env : CryptoEnv) (bodyOf : Init.BodyOf) (o : Oracle) (n : Node) (now : Int) (src : NAddr) (data tail : Bytes) (p : Peer)
    (hinit : data.head? ≠ some Generated.INIT_MESSAGE_FIRST_BYTE) (hp : lookupA n.peers (mappedAddr src) = some p)
    (q1 q2 : List (NAddr × PeerCrypto)) (hq : eraseA q1 (mappedAddr src) = eraseA q2 (mappedAddr src)) :
    Sim (mappedAddr src) (handleNet env bodyOf o { n with pending := q1 } now src data tail).1
      (handleNet env bodyOf o { n with pending := q2 } now src data tail).1 := by
  rw [handleNet_eq, handleNet_eq]
  have hd : ∀ q, dispatch env bodyOf o { n with pending := q } now (mappedAddr src) data tail =
      applyOutcome env o { node := { n with pending := q } } now (mappedAddr src) true
        (PeerCrypto.handleMessage env bodyOf payloadOk p.crypto data tail
          (rndFor o { node := n } (mappedAddr src)).1 (rndFor o { node := n } (mappedAddr src)).2.1) := by
    intro q
    unfold dispatch
    simp only [hp, hinit, decide_false, Bool.not_false, if_true]
    rfl
  rw [hd q1, hd q2]
  have hs : SimP (mappedAddr src) { node := { n with pending := q1 } } { node := { n with pending := q2 } } :=
    ⟨⟨q1, rfl, hq⟩, by simp [hp]⟩
  obtain ⟨h2, h1⟩ := applyOutcome_sim env o (mappedAddr src) _ _ now _
    (fun pc out res log h => handleMessage_plain env bodyOf payloadOk p.crypto data tail _ _ hinit pc out res log h) hs
  exact finish_sim _ _ _ h2 h1

/-- **dispatch_reaches_session**: a datagram without the handshake marker from the address of an established peer is processed by that
    peer's session, whatever pending handshakes exist for that address.
    Added hypothesis `hq`: the two pending lists differ only in what is stored for the sender's address (see the header and
    `dispatch_original_false` for why the statement is false without it). -/
theorem dispatch_reaches_session (env : CryptoEnv) (bodyOf : Init.BodyOf) (o : Oracle) (n : Node) (now : Int) (src : NAddr) (data tail : Bytes) (p : Peer)
    (hinit : data.head? ≠ some Generated.INIT_MESSAGE_FIRST_BYTE) (hp : lookupA n.peers (mappedAddr src) = some p)
    (q1 q2 : List (NAddr × PeerCrypto)) (hq : eraseA q1 (mappedAddr src) = eraseA q2 (mappedAddr src)) :
    (handleNet env bodyOf o { n with pending := q1 } now src data tail).1.outs = (handleNet env bodyOf o { n with pending := q2 } now src data tail).1.outs ∧
    (handleNet env bodyOf o { n with pending := q1 } now src data tail).1.node.peers = (handleNet env bodyOf o { n with pending := q2 } now src data tail).1.node.peers :=
  have h := dispatch_sim env bodyOf o n now src data tail p hinit hp q1 q2 hq
  ⟨h.outs, h.peers⟩

/-- for ARBITRARY pending handshakes (no hypothesis on `q1`, `q2`): the peers after the step agree, and the outputs agree up to handshake
    datagrams (`nonHs` removes the datagrams starting with the handshake marker; everything written to the interface and every
    sealed datagram is kept) -/
theorem dispatch_any_pending (env : CryptoEnv) (bodyOf : Init.BodyOf) (o : Oracle) (n : Node) (now : Int) (src : NAddr) (data tail : Bytes) (p : Peer)
    (hinit : data.head? ≠ some Generated.INIT_MESSAGE_FIRST_BYTE) (hp : lookupA n.peers (mappedAddr src) = some p)
    (q1 q2 : List (NAddr × PeerCrypto)) :
    nonHs (handleNet env bodyOf o { n with pending := q1 } now src data tail).1.outs =
      nonHs (handleNet env bodyOf o { n with pending := q2 } now src data tail).1.outs ∧
    (handleNet env bodyOf o { n with pending := q1 } now src data tail).1.node.peers = (handleNet env bodyOf o { n with pending := q2 } now src data tail).1.node.peers := by
  rw [handleNet_eq, handleNet_eq]
  have hd : ∀ q, dispatch env bodyOf o { n with pending := q } now (mappedAddr src) data tail =
      applyOutcome env o { node := { n with pending := q } } now (mappedAddr src) true
        (PeerCrypto.handleMessage env bodyOf payloadOk p.crypto data tail
          (rndFor o { node := n } (mappedAddr src)).1 (rndFor o { node := n } (mappedAddr src)).2.1) := by
    intro q
    unfold dispatch
    simp only [hp, hinit, decide_false, Bool.not_false, if_true]
    rfl
  rw [hd q1, hd q2, finish_outs, finish_outs, finish_peers, finish_peers]
  have h := applyOutcome_weak env o (mappedAddr src) { node := { n with pending := q1 } } { node := { n with pending := q2 } } now
    (PeerCrypto.handleMessage env bodyOf payloadOk p.crypto data tail
      (rndFor o { node := n } (mappedAddr src)).1 (rndFor o { node := n } (mappedAddr src)).2.1)
    (fun pc out res log h => handleMessage_plain env bodyOf payloadOk p.crypto data tail _ _ hinit pc out res log h) rfl rfl rfl
  exact ⟨h.2, h.1⟩

/-! ## counterexample to the statement without `hq`, and non-vacuity

  Node `n` has one established peer at `s` with an unencrypted session.  The peer sends a node-information
  message that lists a third node at address `a`.  Without a pending handshake for `a` the node dials `a`
  (one handshake datagram); with one pending it does not. -/
namespace Cex
open VpnCloud.Proofs.InitLemmas

def s : NAddr := .v6 (List.replicate 16 0) 1
def a : NAddr := .v6 (List.replicate 16 0) 2
def p : Peer := { addrs := [], timeout := 0, peerTimeout := 300, nodeId := List.replicate 16 1, crypto := { init := none, unencrypted := true } }
def n : Node :=
  { nodeId := List.replicate 16 9, addr := .v6 (List.replicate 16 0) 3,
    cfg := { tap := false, learning := false, broadcast := false, peerTimeout := 300, peerTimeoutPublish := 300, updateFreq := 10,
             claims := [], key := [7, 7, 7, 7], trusted := [[9, 9, 9, 9]], algos := Toy.algos },
    peers := [(s, p)], table := { cacheTimeout := 300, claimTimeout := 300 } }
def o : Oracle := { emitted := fun _ _ => [], rotProp := fun _ => 0, rotPend := fun _ => 0, starts := fun _ => [] }
def info : NodeInfo := { nodeId := List.replicate 16 1, peers := [{ nodeId := none, addrs := [a] }], claims := [], peerTimeout := none, addrs := [] }
def data : Bytes := Generated.MESSAGE_TYPE_NODE_INFO :: Codec.encodeNodeInfo info
def q2 : List (NAddr × PeerCrypto) := [(a, { init := none })]

theorem hinit : data.head? ≠ some Generated.INIT_MESSAGE_FIRST_BYTE := by decide
theorem hp : lookupA n.peers (mappedAddr s) = some p := rfl

/-- the first conjunct of the original statement fails for `q1 = []`, `q2 = [(a, _)]` -/
theorem outs_differ :
    (handleNet Toy.env (Toy.body 0) o { n with pending := [] } 0 s data []).1.outs ≠
    (handleNet Toy.env (Toy.body 0) o { n with pending := q2 } 0 s data []).1.outs := by decide

/-- … while the conclusions of `dispatch_any_pending` hold there, and `hq` of `dispatch_reaches_session` is satisfiable with different
    pending handshakes for the sender's address -/
example : eraseA ([] : List (NAddr × PeerCrypto)) (mappedAddr s) = eraseA [(s, ({ init := none } : PeerCrypto))] (mappedAddr s) := rfl

end Cex

/-- the statement as given in the task (without `hq`) is false -/
theorem dispatch_original_false :
    ¬ (∀ (env : CryptoEnv) (bodyOf : Init.BodyOf) (o : Oracle) (n : Node) (now : Int) (src : NAddr) (data tail : Bytes) (p : Peer)
        (_ : data.head? ≠ some Generated.INIT_MESSAGE_FIRST_BYTE) (_ : lookupA n.peers (mappedAddr src) = some p)
        (q1 q2 : List (NAddr × PeerCrypto)),
        (handleNet env bodyOf o { n with pending := q1 } now src data tail).1.outs = (handleNet env bodyOf o { n with pending := q2 } now src data tail).1.outs ∧
        (handleNet env bodyOf o { n with pending := q1 } now src data tail).1.node.peers = (handleNet env bodyOf o { n with pending := q2 } now src data tail).1.node.peers) :=
  fun h => Cex.outs_differ (h _ _ Cex.o Cex.n 0 Cex.s Cex.data [] Cex.p Cex.hinit Cex.hp [] Cex.q2).1

end VpnCloud.Proofs.C09
