import VpnCloud.Model.Node
/-
  C13 at node level: the forwarding table learns from traffic exactly when the `learning` flag of the
  mode is set (switch mode); hub and router modes never do.  Both statements proved as given.
-/
namespace VpnCloud.Proofs.C13Node
open VpnCloud VpnCloud.Node

/-- hub and router modes never learn from traffic -/
theorem no_learning_unless_flag (env : CryptoEnv) (o : Oracle) (c : Ctx) (now : Int) (src : NAddr) (data out : Bytes) (hl : c.node.cfg.learning = false) :
    (handleResult env o c now src (.message Generated.MESSAGE_TYPE_DATA data) out).1.node.table = c.node.table := by
  simp only [handleResult, if_true]
  cases parseAddrs c.node data with
  | none => rfl
  | some r =>
    rcases r with ⟨s, d⟩
    simp only [hl, Bool.false_eq_true, if_false]

/-- in learning mode a payload from peer `src` with source address `s` makes `src` the next hop for `s` -/
theorem learning_records_source (env : CryptoEnv) (o : Oracle) (c : Ctx) (now : Int) (src : NAddr) (data out : Bytes) (s d : Addr)
    (hl : c.node.cfg.learning = true) (hp : parseAddrs c.node data = some (s, d)) :
    (handleResult env o c now src (.message Generated.MESSAGE_TYPE_DATA data) out).1.node.table = c.node.table.learn now s (addrId src) := by
  simp only [handleResult, if_true, hp, hl]

end VpnCloud.Proofs.C13Node
