import VpnCloud.Model.Bytes
import VpnCloud.Model.Base62
import VpnCloud.Spec.C18
import VpnCloud.Proofs.C18
/-
  C18, second part — key pairs: derivation from a password, generation, parsing, and the choice of the key pair
  and of the trusted keys in `Crypto::new` (src/crypto/common.rs).

  The existing model has the text codec (`Model/Base62.lean`: `keyFromBase62`, `parsePublicKey`) and, in
  `Spec/C18.lean`, `generateKeypair` / `parsePrivateKey` on a given seed.  The functions around them are not in
  the model; they are added HERE, after the Rust, with the two cryptographic primitives as parameters
  (`KeyEnv`): PBKDF2-HMAC-SHA256 and the Ed25519 public key of a seed.  Nothing of the existing model is changed.
-/
namespace VpnCloud.Proofs.C18More

open VpnCloud VpnCloud.Base62 VpnCloud.Spec.C18 VpnCloud.Proofs.C18

/-! ## the model of the key functions (new definitions, mirroring src/crypto/common.rs) -/

/-- the cryptographic primitives, as parameters:
    `pbkdf2 iterations salt password` = the 32 bytes written by
    `pbkdf2::derive(PBKDF2_HMAC_SHA256, iterations, salt, password, &mut [0; 32])`;
    `pubOf seed` = `Ed25519KeyPair::from_seed_unchecked(seed).public_key()` -/
structure KeyEnv where
  pbkdf2 : Nat → Bytes → Bytes → Bytes
  pubOf : Bytes → Bytes

/-- `const SALT: &[u8; 32] = b"vpncloudVPNCLOUDvpncl0udVpnCloud"` (common.rs:21) — a constant of the program -/
def SALT : Bytes := "vpncloudVPNCLOUDvpncl0udVpnCloud".toList.map Char.toNat

/-- `NonZeroU32::new(4096).unwrap()` (common.rs:147 and 162) — a constant of the program -/
def ITERATIONS : Nat := 4096

/-- the seed derived from a password: the SAME call with the SAME constants in `generate_keypair` (common.rs:145-152)
    and in `keypair_from_password` (common.rs:161-162).  The password enters as `password.as_bytes()`: all bytes of
    the string as configured, no trimming, no normalisation, no truncation. -/
def seedOfPassword (ke : KeyEnv) (password : Bytes) : Bytes := ke.pbkdf2 ITERATIONS SALT password

/-- an `Ed25519KeyPair`: the seed (private key) and the public key it holds -/
structure KeyPair where
  seed : Bytes
  pub : Bytes
  deriving DecidableEq, Repr

/-- `Ed25519KeyPair::from_seed_unchecked` (ring): `none` = `KeyRejected` (the seed must have 32 bytes) -/
def fromSeedUnchecked (ke : KeyEnv) (seed : Bytes) : Option KeyPair :=
  if seed.length = 32 then some ⟨seed, ke.pubOf seed⟩ else none

/-- `Ed25519KeyPair::from_seed_and_public_key` (ring): also rejects a public key that is not the one of the seed -/
def fromSeedAndPublicKey (ke : KeyEnv) (seed pub : Bytes) : Option KeyPair :=
  if seed.length = 32 ∧ ke.pubOf seed = pub then some ⟨seed, pub⟩ else none

/-- `Crypto::keypair_from_password` (common.rs:160-165); `none` = the `unwrap()` panics -/
def keypairFromPassword (ke : KeyEnv) (password : Bytes) : Option KeyPair :=
  fromSeedUnchecked ke (seedOfPassword ke password)

/-- the `match password` of `generate_keypair` (common.rs:139-153): `random` are the bytes `SystemRandom` fills in when
    no password is given -/
def seedBytes (ke : KeyEnv) (password : Option Bytes) (random : Bytes) : Bytes :=
  match password with
  | none => random
  | some pw => seedOfPassword ke pw

/-- `Crypto::generate_keypair` (common.rs:137-158): the result are the two printed texts; `none` = panic (`unwrap()`,
    `to_base62`) -/
def generateKeypair (ke : KeyEnv) (password : Option Bytes) (random : Bytes) : Option (List Char × List Char) :=
  let bytes := seedBytes ke password random
  match fromSeedUnchecked ke bytes with
  | none => none
  | some kp =>
    match toBase62 bytes, toBase62 kp.pub with
    | some priv, some pub => some (priv, pub)
    | _, _ => none

/-- `Crypto::parse_private_key` (common.rs:183-188); `none` = `Err` -/
def parsePrivateKeyPair (ke : KeyEnv) (priv : List Char) : Option KeyPair :=
  match keyFromBase62 priv with
  | .ok k => fromSeedUnchecked ke k
  | .error _ => none

/-- `Crypto::parse_keypair` (common.rs:174-181); `none` = `Err` -/
def parseKeypair (ke : KeyEnv) (priv pub : List Char) : Option KeyPair :=
  match keyFromBase62 priv, keyFromBase62 pub with
  | .ok a, .ok b => fromSeedAndPublicKey ke a b
  | _, _ => none

/-- `Crypto::public_key_from_private_key` (common.rs:199-202) -/
def publicKeyFromPrivateKey (ke : KeyEnv) (priv : List Char) : Option (List Char) :=
  match parsePrivateKeyPair ke priv with
  | none => none
  | some kp => toBase62 kp.pub

/-- the key fields of `Config` (common.rs:52-58); the password as its bytes -/
structure KeyConfig where
  password : Option Bytes := none
  privateKey : Option (List Char) := none
  publicKey : Option (List Char) := none
  trustedKeys : List (List Char) := []

/-- the loop `for tn in &config.trusted_keys { trusted_keys.push(Self::parse_public_key(tn)?) }` (common.rs:103-105) -/
def parseTrusted : List (List Char) → Option (List Bytes)
  | [] => some []
  | t :: rest =>
    match parsePublicKey t with
    | none => none
    | some k => (parseTrusted rest).map (fun r => k :: r)

/-- `Crypto::new` (common.rs:89-112), the key pair and the trusted keys; `none` = `Err` (or the panic of
    `keypair_from_password`) -/
def cryptoNew (ke : KeyEnv) (cfg : KeyConfig) : Option (KeyPair × List Bytes) :=
  let kp? := match cfg.privateKey with
    | some priv =>
      match cfg.publicKey with
      | some pub => parseKeypair ke priv pub
      | none => parsePrivateKeyPair ke priv
    | none =>
      match cfg.password with
      | some pw => keypairFromPassword ke pw
      | none => none
  match kp? with
  | none => none
  | some kp =>
    match parseTrusted cfg.trustedKeys with
    | none => none
    | some tk => some (kp, if tk.isEmpty then [kp.pub] else tk)

/-- the primitives return what the libraries promise: 32 proper bytes -/
structure KeyEnvWF (ke : KeyEnv) : Prop where
  kdf_wf : ∀ it salt pw, Bytes.WF (ke.pbkdf2 it salt pw) ∧ (ke.pbkdf2 it salt pw).length = 32
  pub_wf : ∀ seed, seed.length = 32 → Bytes.WF (ke.pubOf seed) ∧ (ke.pubOf seed).length = 32

/-! ## helper lemmas -/

theorem seed_wf (ke : KeyEnv) (h : KeyEnvWF ke) (pw : Bytes) :
    Bytes.WF (seedOfPassword ke pw) ∧ (seedOfPassword ke pw).length = 32 := h.kdf_wf _ _ _

theorem keypairFromPassword_eq (ke : KeyEnv) (h : KeyEnvWF ke) (pw : Bytes) :
    keypairFromPassword ke pw = some ⟨seedOfPassword ke pw, ke.pubOf (seedOfPassword ke pw)⟩ := by
  unfold keypairFromPassword fromSeedUnchecked
  rw [if_pos (seed_wf ke h pw).2]

/-- on 32 bytes the new `generateKeypair` is the one of `Spec/C18.lean` -/
theorem generateKeypair_spec (ke : KeyEnv) (password : Option Bytes) (random : Bytes)
    (hl : (seedBytes ke password random).length = 32) :
    generateKeypair ke password random = Spec.C18.generateKeypair ke.pubOf (seedBytes ke password random) := by
  unfold generateKeypair Spec.C18.generateKeypair fromSeedUnchecked
  simp only [hl, if_true]
  cases toBase62 (seedBytes ke password random) <;> cases toBase62 (ke.pubOf (seedBytes ke password random)) <;> rfl

/-- the texts printed for a seed are parsed back to the pair of the seed, on every path -/
theorem printed_parsed (ke : KeyEnv) (h : KeyEnvWF ke) (seed : Bytes) (hs : Bytes.WF seed) (hl : seed.length = 32) :
    ∃ priv pub, toBase62 seed = some priv ∧ toBase62 (ke.pubOf seed) = some pub ∧
      parsePrivateKeyPair ke priv = some ⟨seed, ke.pubOf seed⟩ ∧
      parseKeypair ke priv pub = some ⟨seed, ke.pubOf seed⟩ ∧
      parsePublicKey pub = some (ke.pubOf seed) ∧
      parsePrivateKey priv = some seed ∧
      publicKeyFromPrivateKey ke priv = some pub := by
  obtain ⟨priv, e1, k1, _, p1⟩ := generated_key_accepted seed hs hl
  obtain ⟨pub, e2, k2, p2, _⟩ := generated_key_accepted (ke.pubOf seed) (h.pub_wf seed hl).1 (h.pub_wf seed hl).2
  have hpp : parsePrivateKeyPair ke priv = some ⟨seed, ke.pubOf seed⟩ := by
    simp only [parsePrivateKeyPair, k1, fromSeedUnchecked, hl, if_true]
  refine ⟨priv, pub, e1, e2, hpp, ?_, p2, p1, ?_⟩
  · simp only [parseKeypair, k1, k2, fromSeedAndPublicKey, hl, true_and, if_true]
  · simp only [publicKeyFromPrivateKey, hpp, e2]

/-- every pair `Crypto::new` can end up with holds the public key of its seed -/
theorem kp_consistent (ke : KeyEnv) (cfg : KeyConfig) (kp : KeyPair) (t : List Bytes)
    (h : cryptoNew ke cfg = some (kp, t)) : kp.pub = ke.pubOf kp.seed ∧ kp.seed.length = 32 := by
  have key : ∀ o : Option KeyPair, (∀ k, o = some k → k.pub = ke.pubOf k.seed ∧ k.seed.length = 32) →
      (match o with
        | none => none
        | some kp => match parseTrusted cfg.trustedKeys with
          | none => none
          | some tk => some (kp, if tk.isEmpty then [kp.pub] else tk)) = some (kp, t) →
      kp.pub = ke.pubOf kp.seed ∧ kp.seed.length = 32 := by
    intro o ho e
    cases o with
    | none => cases e
    | some k =>
      simp only at e
      cases ht : parseTrusted cfg.trustedKeys with
      | none => rw [ht] at e; cases e
      | some tk =>
        rw [ht] at e
        simp only [Option.some.injEq, Prod.mk.injEq] at e
        rw [← e.1]; exact ho k rfl
  have hfsu : ∀ s k, fromSeedUnchecked ke s = some k → k.pub = ke.pubOf k.seed ∧ k.seed.length = 32 := by
    intro s k e
    unfold fromSeedUnchecked at e
    split at e
    · cases e; exact ⟨rfl, by assumption⟩
    · cases e
  unfold cryptoNew at h
  apply key _ _ h
  intro k hk
  cases hpriv : cfg.privateKey with
  | some priv =>
    rw [hpriv] at hk
    cases hpub : cfg.publicKey with
    | some pub =>
      rw [hpub] at hk
      simp only [parseKeypair] at hk
      split at hk
      · unfold fromSeedAndPublicKey at hk
        split at hk
        · rename_i hc; cases hk; exact ⟨hc.2.symm, hc.1⟩
        · cases hk
      · cases hk
    | none =>
      rw [hpub] at hk
      simp only [parsePrivateKeyPair] at hk
      split at hk
      · exact hfsu _ _ hk
      · cases hk
  | none =>
    rw [hpriv] at hk
    cases hpw : cfg.password with
    | some pw => rw [hpw] at hk; exact hfsu _ _ hk
    | none => rw [hpw] at hk; cases hk

/-- a configuration with a password and no private key: the pair of the password (the field `public_key` is not
    looked at), and the trusted keys as configured, or the own public key -/
theorem cryptoNew_password (ke : KeyEnv) (h : KeyEnvWF ke) (cfg : KeyConfig) (pw : Bytes)
    (hpriv : cfg.privateKey = none) (hpw : cfg.password = some pw) :
    cryptoNew ke cfg = (parseTrusted cfg.trustedKeys).map (fun tk =>
      (⟨seedOfPassword ke pw, ke.pubOf (seedOfPassword ke pw)⟩,
        if tk.isEmpty then [ke.pubOf (seedOfPassword ke pw)] else tk)) := by
  unfold cryptoNew
  rw [hpriv, hpw]
  simp only [keypairFromPassword_eq ke h pw]
  cases parseTrusted cfg.trustedKeys <;> rfl

theorem generateKeypair_printed (ke : KeyEnv) (password : Option Bytes) (random : Bytes) (priv pub : List Char)
    (hl : (seedBytes ke password random).length = 32)
    (e1 : toBase62 (seedBytes ke password random) = some priv)
    (e2 : toBase62 (ke.pubOf (seedBytes ke password random)) = some pub) :
    generateKeypair ke password random = some (priv, pub) := by
  unfold generateKeypair fromSeedUnchecked
  simp only [hl, if_true, e1, e2]

/-! ## property theorems -/

/-- **same_password_same_keys**: the key pair a node derives from a password is a function of the password bytes
    ONLY (salt and iteration count are constants of the program; node id, the `public_key` field, the trusted keys,
    the run do not enter): two nodes configured with the same password hold the same pair — the one written out
    in the statement — and, with no trusted keys configured, each trusts the other's public key. -/
theorem same_password_same_keys (ke : KeyEnv) (h : KeyEnvWF ke) (pw : Bytes) (cfgA cfgB : KeyConfig)
    (hA1 : cfgA.privateKey = none) (hA2 : cfgA.password = some pw)
    (hB1 : cfgB.privateKey = none) (hB2 : cfgB.password = some pw)
    (kpA kpB : KeyPair) (tA tB : List Bytes)
    (eA : cryptoNew ke cfgA = some (kpA, tA)) (eB : cryptoNew ke cfgB = some (kpB, tB)) :
    kpA = kpB ∧
    kpA = ⟨ke.pbkdf2 4096 SALT pw, ke.pubOf (ke.pbkdf2 4096 SALT pw)⟩ ∧
    (cfgA.trustedKeys = [] → kpB.pub ∈ tA) ∧ (cfgB.trustedKeys = [] → kpA.pub ∈ tB) := by
  rw [cryptoNew_password ke h cfgA pw hA1 hA2] at eA
  rw [cryptoNew_password ke h cfgB pw hB1 hB2] at eB
  cases hta : parseTrusted cfgA.trustedKeys with
  | none => rw [hta] at eA; cases eA
  | some ta =>
    cases htb : parseTrusted cfgB.trustedKeys with
    | none => rw [htb] at eB; cases eB
    | some tb =>
      rw [hta] at eA; rw [htb] at eB
      simp only [Option.map_some, Option.some.injEq, Prod.mk.injEq] at eA eB
      obtain ⟨a1, a2⟩ := eA
      obtain ⟨b1, b2⟩ := eB
      refine ⟨by rw [← a1, ← b1], a1.symm, ?_, ?_⟩
      · intro hn
        rw [hn] at hta
        cases hta
        rw [← a2, ← b1]; simp
      · intro hn
        rw [hn] at htb
        cases htb
        rw [← b2, ← a1]; simp

/-- a password configuration is accepted: the pair of the password, trusting its own public key -/
theorem password_config (ke : KeyEnv) (h : KeyEnvWF ke) (pw : Bytes) :
    cryptoNew ke { password := some pw } =
      some (⟨seedOfPassword ke pw, ke.pubOf (seedOfPassword ke pw)⟩, [ke.pubOf (seedOfPassword ke pw)]) := by
  rw [cryptoNew_password ke h _ pw rfl rfl]; rfl

/-- **different_password_different_keys** (hypothesis I4: the key derivation is injective on the class `P` of
    passwords considered): different password bytes — differing in anything, e.g. a trailing blank or newline,
    upper/lower case, a byte behind the 32nd — give different seeds: nothing is trimmed, normalised or cut off
    between the configured password and the key derivation. -/
theorem different_password_different_keys (ke : KeyEnv) (P : Bytes → Prop)
    (I4 : ∀ p q, P p → P q → seedOfPassword ke p = seedOfPassword ke q → p = q)
    (p q : Bytes) (hp : P p) (hq : P q) (hne : p ≠ q) : seedOfPassword ke p ≠ seedOfPassword ke q :=
  fun e => hne (I4 p q hp hq e)

/-- … and (I5: different seeds have different Ed25519 public keys) the two nodes do not trust each other when they
    trust only their own key -/
theorem different_password_no_trust (ke : KeyEnv) (h : KeyEnvWF ke) (P : Bytes → Prop)
    (I4 : ∀ p q, P p → P q → seedOfPassword ke p = seedOfPassword ke q → p = q)
    (I5 : ∀ s1 s2, s1.length = 32 → s2.length = 32 → ke.pubOf s1 = ke.pubOf s2 → s1 = s2)
    (p q : Bytes) (hp : P p) (hq : P q) (hne : p ≠ q) (kpA kpB : KeyPair) (tA tB : List Bytes)
    (eA : cryptoNew ke { password := some p } = some (kpA, tA))
    (eB : cryptoNew ke { password := some q } = some (kpB, tB)) :
    kpA.seed ≠ kpB.seed ∧ kpA.pub ≠ kpB.pub ∧ kpB.pub ∉ tA ∧ kpA.pub ∉ tB := by
  rw [password_config ke h p] at eA
  rw [password_config ke h q] at eB
  simp only [Option.some.injEq, Prod.mk.injEq] at eA eB
  obtain ⟨a1, a2⟩ := eA
  obtain ⟨b1, b2⟩ := eB
  have hs := different_password_different_keys ke P I4 p q hp hq hne
  have hpub : ke.pubOf (seedOfPassword ke p) ≠ ke.pubOf (seedOfPassword ke q) :=
    fun e => hs (I5 _ _ (seed_wf ke h p).2 (seed_wf ke h q).2 e)
  rw [← a1, ← b1, ← a2, ← b2]
  refine ⟨hs, hpub, ?_, ?_⟩
  · simp only [List.mem_singleton]; exact fun e => hpub e.symm
  · simp only [List.mem_singleton]; exact hpub

/-- **private_yields_public**: on every path by which `Crypto::new` obtains its key pair — private key alone,
    private and public key (the library rejects a public key that does not match), password — the public key the
    node uses is the Ed25519 public key of its private key (a 32-byte seed). -/
theorem private_yields_public (ke : KeyEnv) (cfg : KeyConfig) (kp : KeyPair) (t : List Bytes)
    (h : cryptoNew ke cfg = some (kp, t)) : kp.pub = ke.pubOf kp.seed ∧ kp.seed.length = 32 :=
  kp_consistent ke cfg kp t h

/-- … and for the texts: whatever key generation prints (from a password or from random bytes), the printed private
    key yields the printed public key (`public_key_from_private_key`), and both parse to the pair of the seed -/
theorem generated_private_yields_public (ke : KeyEnv) (h : KeyEnvWF ke) (password : Option Bytes) (random : Bytes)
    (hr : Bytes.WF random ∧ random.length = 32) :
    ∃ priv pub, generateKeypair ke password random = some (priv, pub) ∧
      publicKeyFromPrivateKey ke priv = some pub ∧
      parsePrivateKeyPair ke priv = some ⟨seedBytes ke password random, ke.pubOf (seedBytes ke password random)⟩ ∧
      parsePublicKey pub = some (ke.pubOf (seedBytes ke password random)) := by
  have hs : Bytes.WF (seedBytes ke password random) ∧ (seedBytes ke password random).length = 32 := by
    cases password with
    | none => exact hr
    | some pw => exact seed_wf ke h pw
  obtain ⟨priv, pub, e1, e2, p1, _, p3, _, p5⟩ := printed_parsed ke h _ hs.1 hs.2
  exact ⟨priv, pub, generateKeypair_printed ke password random priv pub hs.2 e1 e2, p5, p1, p3⟩

/-- **printed_pair_consistent**: what `generate_keypair` prints for a password is the pair `Crypto::new` derives
    from the same password: configuring the password, the printed private key, or both printed keys gives one and
    the same key pair, and the printed public key, configured as trusted key, is the public key of that pair. -/
theorem printed_pair_consistent (ke : KeyEnv) (h : KeyEnvWF ke) (pw random : Bytes) :
    ∃ priv pub kp, generateKeypair ke (some pw) random = some (priv, pub) ∧
      cryptoNew ke { password := some pw } = some (kp, [kp.pub]) ∧
      cryptoNew ke { privateKey := some priv } = some (kp, [kp.pub]) ∧
      cryptoNew ke { privateKey := some priv, publicKey := some pub } = some (kp, [kp.pub]) ∧
      cryptoNew ke { password := some pw, trustedKeys := [pub] } = some (kp, [kp.pub]) ∧
      parsePrivateKey priv = some kp.seed ∧ parsePublicKey pub = some kp.pub := by
  have hs := seed_wf ke h pw
  obtain ⟨priv, pub, e1, e2, p1, p2, p3, p4, _⟩ := printed_parsed ke h _ hs.1 hs.2
  refine ⟨priv, pub, ⟨seedOfPassword ke pw, ke.pubOf (seedOfPassword ke pw)⟩,
    generateKeypair_printed ke (some pw) random priv pub hs.2 e1 e2, password_config ke h pw, ?_, ?_, ?_, p4, p3⟩
  · simp only [cryptoNew, p1, parseTrusted]; rfl
  · simp only [cryptoNew, p2, parseTrusted]; rfl
  · rw [cryptoNew_password ke h _ pw rfl rfl]
    simp only [parseTrusted, p3]; rfl

/-- the same for a pair generated from random bytes -/
theorem random_pair_consistent (ke : KeyEnv) (h : KeyEnvWF ke) (random : Bytes)
    (hr : Bytes.WF random ∧ random.length = 32) :
    ∃ priv pub kp, generateKeypair ke none random = some (priv, pub) ∧ kp = ⟨random, ke.pubOf random⟩ ∧
      cryptoNew ke { privateKey := some priv } = some (kp, [kp.pub]) ∧
      cryptoNew ke { privateKey := some priv, publicKey := some pub } = some (kp, [kp.pub]) ∧
      parseTrusted [pub] = some [kp.pub] := by
  obtain ⟨priv, pub, e1, e2, p1, p2, p3, _, _⟩ := printed_parsed ke h random hr.1 hr.2
  refine ⟨priv, pub, ⟨random, ke.pubOf random⟩,
    generateKeypair_printed ke none random priv pub hr.2 e1 e2, rfl, ?_, ?_, ?_⟩
  · simp only [cryptoNew, p1, parseTrusted]; rfl
  · simp only [cryptoNew, p2, parseTrusted]; rfl
  · simp only [parseTrusted, p3]; rfl

/-- a public key that is not the one of the private key is refused (`Keys rejected by crypto library`) -/
theorem mismatched_pair_rejected (ke : KeyEnv) (priv pub : List Char) (a b : Bytes)
    (ha : keyFromBase62 priv = .ok a) (hb : keyFromBase62 pub = .ok b) (hne : ke.pubOf a ≠ b) (tr : List (List Char)) :
    cryptoNew ke { privateKey := some priv, publicKey := some pub, trustedKeys := tr } = none := by
  simp only [cryptoNew, parseKeypair, ha, hb, fromSeedAndPublicKey, hne, and_false, if_false]

/-! ## non-vacuity: a toy key environment -/

/-- toy primitives: the "PBKDF2" output is the length-prefixed password, padded; the "public key" the reversed seed -/
def toyKe : KeyEnv :=
  { pbkdf2 := fun it salt pw =>
      ((pw.length % 256) :: (pw.map (· % 256) ++ List.replicate 32 ((it + salt.length) % 256))).take 32,
    pubOf := fun s => (s.map (· % 256)).reverse }

theorem toyKe_wf : KeyEnvWF toyKe where
  kdf_wf := fun it salt pw => by
    constructor
    · apply Bytes.wf_take
      rw [Bytes.wf_cons, Bytes.wf_append]
      refine ⟨Nat.mod_lt _ (by decide), ?_, Bytes.wf_replicate _ _ (Nat.mod_lt _ (by decide))⟩
      intro b hb
      rw [List.mem_map] at hb
      obtain ⟨x, _, rfl⟩ := hb
      exact Nat.mod_lt _ (by decide)
    · show (List.take 32 _).length = 32
      rw [List.length_take]
      simp only [List.length_cons, List.length_append, List.length_map, List.length_replicate]
      omega
  pub_wf := fun seed hl => by
    constructor
    · intro b hb
      have hb' : b ∈ (seed.map (· % 256)).reverse := hb
      rw [List.mem_reverse, List.mem_map] at hb'
      obtain ⟨x, _, rfl⟩ := hb'
      exact Nat.mod_lt _ (by decide)
    · show ((seed.map (· % 256)).reverse).length = 32
      rw [List.length_reverse, List.length_map, hl]

theorem map_mod_wf (l : Bytes) (h : Bytes.WF l) : l.map (· % 256) = l := by
  induction l with
  | nil => rfl
  | cons x r ih =>
    rw [Bytes.wf_cons] at h
    rw [List.map_cons, ih h.2, Nat.mod_eq_of_lt h.1]

/-- the class of passwords on which the toy derivation is injective: proper bytes, at most 31 of them -/
def ToyPw (p : Bytes) : Prop := Bytes.WF p ∧ p.length ≤ 31

instance (p : Bytes) : Decidable (ToyPw p) := by unfold ToyPw; infer_instance

/-- I4 holds for the toy derivation on `ToyPw` -/
theorem toy_I4 : ∀ p q, ToyPw p → ToyPw q → seedOfPassword toyKe p = seedOfPassword toyKe q → p = q := by
  intro p q hp hq e
  have e' : (p.length % 256) :: (p ++ List.replicate 32 ((ITERATIONS + SALT.length) % 256)).take 31 =
      (q.length % 256) :: (q ++ List.replicate 32 ((ITERATIONS + SALT.length) % 256)).take 31 := by
    have := e
    simp only [seedOfPassword, toyKe, map_mod_wf p hp.1, map_mod_wf q hq.1] at this
    rwa [show (32 : Nat) = 31 + 1 from rfl, List.take_succ_cons, List.take_succ_cons] at this
  simp only [List.cons.injEq] at e'
  obtain ⟨el, et⟩ := e'
  have hlen : p.length = q.length := by have := hp.2; have := hq.2; omega
  have := congrArg (List.take p.length) et
  rw [List.take_take, List.take_take, Nat.min_eq_left hp.2, List.take_left, hlen, List.take_left] at this
  exact this

/-- I5 holds for the toy public key on proper bytes; on all 32-byte lists after reduction mod 256 -/
theorem toy_I5_wf : ∀ s1 s2 : Bytes, Bytes.WF s1 → Bytes.WF s2 → toyKe.pubOf s1 = toyKe.pubOf s2 → s1 = s2 := by
  intro s1 s2 h1 h2 e
  simp only [toyKe, map_mod_wf s1 h1, map_mod_wf s2 h2] at e
  exact List.reverse_inj.mp e

def pwA : Bytes := "secret".toList.map Char.toNat
def pwB : Bytes := "secret ".toList.map Char.toNat   -- a trailing blank

example : ToyPw pwA ∧ ToyPw pwB ∧ pwA ≠ pwB := by decide
/-- the trailing blank changes the keys -/
example : seedOfPassword toyKe pwA ≠ seedOfPassword toyKe pwB :=
  different_password_different_keys toyKe ToyPw toy_I4 pwA pwB (by decide) (by decide) (by decide)
example : SALT.length = 32 ∧ Bytes.WF SALT := by decide
/-- all hypotheses of `same_password_same_keys` hold: two nodes, different other settings, same password -/
example (kpA kpB : KeyPair) (tA tB : List Bytes)
    (eA : cryptoNew toyKe { password := some pwA, publicKey := some "ignored".toList } = some (kpA, tA))
    (eB : cryptoNew toyKe { password := some pwA } = some (kpB, tB)) : kpA = kpB ∧ kpB.pub ∈ tA ∧ kpA.pub ∈ tB :=
  have := same_password_same_keys toyKe toyKe_wf pwA _ _ rfl rfl rfl rfl kpA kpB tA tB eA eB
  ⟨this.1, this.2.2.1 rfl, this.2.2.2 rfl⟩
example : cryptoNew toyKe { password := some pwA, publicKey := some "ignored".toList } =
      cryptoNew toyKe { password := some pwA } ∧
    (cryptoNew toyKe { password := some pwA }).isSome = true := by decide +kernel
example : ∃ priv pub kp, generateKeypair toyKe (some pwA) [] = some (priv, pub) ∧
    cryptoNew toyKe { password := some pwA } = some (kp, [kp.pub]) ∧
    cryptoNew toyKe { privateKey := some priv } = some (kp, [kp.pub]) ∧
    cryptoNew toyKe { privateKey := some priv, publicKey := some pub } = some (kp, [kp.pub]) ∧
    cryptoNew toyKe { password := some pwA, trustedKeys := [pub] } = some (kp, [kp.pub]) ∧
    parsePrivateKey priv = some kp.seed ∧ parsePublicKey pub = some kp.pub :=
  printed_pair_consistent toyKe toyKe_wf pwA []
/-- what is printed for the toy password -/
example : (generateKeypair toyKe (some pwA) []).map (fun x => (String.ofList x.1, String.ofList x.2)) =
    some ("1Wq4RY8roxOL7siPs7eZd28s9chyHTB5nF9JuqsTW4m", "7cJNA1WO7bqmHpVYkuAtW4a3eLxVe1swuEjjQ8lR7zC") := by
  decide +kernel
def printedA : List Char × List Char := (generateKeypair toyKe (some pwA) []).getD ([], [])
def printedB : List Char × List Char := (generateKeypair toyKe (some pwB) []).getD ([], [])
/-- a printed pair whose halves come from two different passwords is refused, the proper pair is accepted -/
example : generateKeypair toyKe (some pwA) [] = some printedA ∧ generateKeypair toyKe (some pwB) [] = some printedB ∧
    cryptoNew toyKe { privateKey := some printedA.1, publicKey := some printedB.2 } = none ∧
    (cryptoNew toyKe { privateKey := some printedA.1, publicKey := some printedA.2 }).isSome = true := by
  decide +kernel

end VpnCloud.Proofs.C18More
