import VpnCloud.Model.Table
import VpnCloud.Spec.C11
import VpnCloud.Spec.TableSpec
import VpnCloud.Proofs.Lemmas.RangeBits
/-
  C11 — Routing follows the most specific live claim.  Property theorems.
-/
namespace VpnCloud.Proofs.C11
open VpnCloud VpnCloud.Range VpnCloud.Spec.C11 VpnCloud.Proofs.RangeBits

/-- **matches_iff_prefix**: for every address length and every prefix length (over-long ones
    included) `Range::matches` decides exactly "same length and the first `prefix_len` bits agree". -/
theorem matches_iff_prefix (r : Range) (a : Addr) (hr : Bytes.WF r.base) (ha : Bytes.WF a) :
    r.matches a = matchesRef r.base r.prefixLen a := by
  unfold Range.matches matchesRef
  by_cases hl : r.base.length = a.length
  · have hl' : a.length = r.base.length := hl.symm
    simp only [hl, ne_eq, not_true_eq_false, if_false, decide_true, Bool.true_and]
    rw [matchLen_eq_cpl a r.base ha hr hl']
    have h := cpl_ge_iff (bitsOf a) (bitsOf r.base) r.prefixLen (by rw [bitsOf_length, bitsOf_length, hl'])
    rw [bitsOf_length] at h
    by_cases hc : cpl (bitsOf a) (bitsOf r.base) ≥ r.prefixLen
    · have := h.1 hc
      simp [hc, this.1, this.2]
    · have hn : ¬ (r.prefixLen ≤ 8 * a.length ∧ (bitsOf a).take r.prefixLen = (bitsOf r.base).take r.prefixLen) :=
        fun x => hc (h.2 x)
      simp only [hc, decide_false]
      by_cases hp : r.prefixLen ≤ 8 * a.length
      · have : ¬ (bitsOf r.base).take r.prefixLen = (bitsOf a).take r.prefixLen := fun e => hn ⟨hp, e.symm⟩
        simp [hp, this]
      · simp [hp]
  · simp [hl]

/-- **no_u8_overflow**: the `u8` accumulator of the loop never exceeds 128 for addresses of at
    most 16 bytes (the only ones the decoders construct), so `match_len += …` cannot overflow. -/
theorem no_u8_overflow (a b : Bytes) (ha : Bytes.WF a) (hb : Bytes.WF b) (hl : a.length = b.length)
    (h16 : a.length ≤ 16) : matchLen a b ≤ 128 := by
  rw [matchLen_eq_cpl a b ha hb hl]
  have := cpl_le_left (bitsOf a) (bitsOf b)
  rw [bitsOf_length] at this
  omega

example : matchesRef [10, 0, 0, 0] 8 [10, 1, 2, 3] = true := by decide
example : matchesRef [10, 0, 0, 0] 9 [10, 128, 2, 3] = false := by decide
example : matchesRef [10, 0, 0, 0] 33 [10, 0, 0, 0] = false := by decide

end VpnCloud.Proofs.C11
