import VpnCloud.Model.Table
import VpnCloud.Spec.C11
import VpnCloud.Spec.TableSpec
import VpnCloud.Proofs.Lemmas.RangeBits
import VpnCloud.Proofs.Lemmas.TableLemmas
/-
  C11 — Routing follows the most specific live claim.  Property theorems.
-/
namespace VpnCloud.Proofs.C11
open VpnCloud VpnCloud.Range VpnCloud.Spec.C11 VpnCloud.Proofs.RangeBits

/-- **matches_iff_prefix**: for every address length and every prefix length (over-long ones
    included) `Range::matches` decides exactly "same length and the first `prefix_len` bits agree". -/
theorem matches_iff_prefix (r : Range) (a : Addr) (hr : Bytes.WF r.base) (ha : Bytes.WF a) :
    r.matches a = matchesRef r.base r.prefixLen a := by
  unfold Range.matches matchesRef
  by_cases hl : r.base.length = a.length
  · have hl' : a.length = r.base.length := hl.symm
    simp only [hl, ne_eq, not_true_eq_false, if_false, decide_true, Bool.true_and]
    rw [matchLen_eq_cpl a r.base ha hr hl']
    have h := cpl_ge_iff (bitsOf a) (bitsOf r.base) r.prefixLen (by rw [bitsOf_length, bitsOf_length, hl'])
    rw [bitsOf_length] at h
    by_cases hc : cpl (bitsOf a) (bitsOf r.base) ≥ r.prefixLen
    · have := h.1 hc
      simp [hc, this.1, this.2]
    · have hn : ¬ (r.prefixLen ≤ 8 * a.length ∧ (bitsOf a).take r.prefixLen = (bitsOf r.base).take r.prefixLen) :=
        fun x => hc (h.2 x)
      simp only [hc, decide_false]
      by_cases hp : r.prefixLen ≤ 8 * a.length
      · have : ¬ (bitsOf r.base).take r.prefixLen = (bitsOf a).take r.prefixLen := fun e => hn ⟨hp, e.symm⟩
        simp [hp, this]
      · simp [hp]
  · simp [hl]

/-- **no_u8_overflow**: the `u8` accumulator of the loop never exceeds 128 for addresses of at
    most 16 bytes (the only ones the decoders construct), so `match_len += …` cannot overflow. -/
theorem no_u8_overflow (a b : Bytes) (ha : Bytes.WF a) (hb : Bytes.WF b) (hl : a.length = b.length)
    (h16 : a.length ≤ 16) : matchLen a b ≤ 128 := by
  rw [matchLen_eq_cpl a b ha hb hl]
  have := cpl_le_left (bitsOf a) (bitsOf b)
  rw [bitsOf_length] at this
  omega

example : matchesRef [10, 0, 0, 0] 8 [10, 1, 2, 3] = true := by decide
example : matchesRef [10, 0, 0, 0] 9 [10, 128, 2, 3] = false := by decide
example : matchesRef [10, 0, 0, 0] 33 [10, 0, 0, 0] = false := by decide

/-! ### `lookup` -/

section Lookup
open VpnCloud.Table VpnCloud.Spec VpnCloud.Spec.TableSpec VpnCloud.Proofs.TableLemmas

theorem lookup_hit (t : Table) (now : Int) (a : Addr) (v : CacheEntry)
    (hc : t.cache.find? (fun v => v.addr = a) = some v) : t.lookup now a = (t, some v.peer) := by
  simp only [lookup, hc]

theorem lookup_miss_none (t : Table) (now : Int) (a : Addr)
    (hc : t.cache.find? (fun v => v.addr = a) = none) (hs : scan a t.claims none = none) :
    t.lookup now a = (t, none) := by
  simp only [lookup, hc, hs]

theorem lookup_miss_some (t : Table) (now : Int) (a : Addr) (e : ClaimEntry)
    (hc : t.cache.find? (fun v => v.addr = a) = none) (hs : scan a t.claims none = some e) :
    t.lookup now a =
      ({ t with cache := cacheInsert t.cache ⟨a, e.peer, min (now + t.cacheTimeout) e.timeout⟩ },
        some e.peer) := by
  simp only [lookup, hc, hs]

/-- the result of a scan from an empty accumulator is an entry of the list that matches -/
theorem scan_some_mem (a : Addr) (l : List ClaimEntry) (e : ClaimEntry)
    (hs : scan a l none = some e) : e ∈ l ∧ e.claim.matches a = true := by
  rcases (scan_some a l none e hs).1 with h | h
  · exact h
  · cases h

/-- inserting a decision for an address without cached decision only adds it -/
theorem cacheInsert_fresh (c : List CacheEntry) (x : CacheEntry)
    (hc : c.find? (fun v => v.addr = x.addr) = none) : cacheInsert c x = x :: c := by
  unfold cacheInsert
  congr 1
  rw [List.filter_eq_self]
  intro v hv
  have := List.find?_eq_none.1 hc v hv
  simpa using this

/-- one-step specification of lookup holds for the model; `hwf` : all stored ranges and the address are proper byte strings -/
theorem lookup_spec (t : Table) (now : Int) (a : Addr)
    (hwf : ∀ e ∈ t.claims, Bytes.WF e.claim.base) (ha : Bytes.WF a) :
    lookupOk t now a (t.lookup now a).2 (t.lookup now a).1 = true := by
  have hm : ∀ e ∈ t.claims, e.claim.matches a = matchesRef e.claim.base e.claim.prefixLen a :=
    fun e he => matches_iff_prefix e.claim a (hwf e he) ha
  cases hc : t.cache.find? (fun v => v.addr = a) with
  | some v =>
    rw [lookup_hit t now a v hc]
    simp [lookupOk, hc, sameParams, sameSet_refl]
  | none =>
    cases hs : scan a t.claims none with
    | none =>
      rw [lookup_miss_none t now a hc hs]
      have hnone := (scan_none a t.claims none hs).2
      have : matching t a = [] := by
        unfold matching
        rw [List.filter_eq_nil_iff]
        intro e he
        rw [← hm e he, hnone e he]
        simp
      simp [lookupOk, hc, sameParams, sameSet_refl, this]
    | some e =>
      rw [lookup_miss_some t now a e hc hs]
      have ⟨hmem, hmatch⟩ := scan_some_mem a t.claims e hs
      have hmax := (scan_some a t.claims none e hs).2.1
      have hems : e ∈ matching t a := by
        unfold matching
        rw [List.mem_filter]
        exact ⟨hmem, by rw [← hm e hmem]; exact hmatch⟩
      have hmp : maxPrefix (matching t a) = e.claim.prefixLen := by
        apply maxPrefix_eq _ e hems
        intro e' he'
        unfold matching at he'
        rw [List.mem_filter] at he'
        exact hmax e' he'.1 (by rw [hm e' he'.1]; exact he'.2)
      simp only [lookupOk, hc, sameParams, decide_true, Bool.and_self, Bool.true_and,
        List.any_eq_true, Bool.and_eq_true, decide_eq_true_eq]
      refine ⟨e, hems, ⟨hmp.symm, rfl⟩, ?_⟩
      rw [cacheInsert_fresh _ _ hc]
      exact sameSet_refl _

/-- Prop form: with no cached decision the selected peer announced a longest-prefix claim containing the address;
    `none` iff no claim contains it -/
theorem lookup_most_specific (t : Table) (now : Int) (a : Addr)
    (hwf : ∀ e ∈ t.claims, Bytes.WF e.claim.base) (ha : Bytes.WF a)
    (hc : t.cache.find? (fun v => v.addr = a) = none) :
    match (t.lookup now a).2 with
    | some q => ∃ e ∈ t.claims, e.peer = q ∧ matchesRef e.claim.base e.claim.prefixLen a = true ∧
        ∀ e' ∈ t.claims, matchesRef e'.claim.base e'.claim.prefixLen a = true → e'.claim.prefixLen ≤ e.claim.prefixLen
    | none => ∀ e ∈ t.claims, matchesRef e.claim.base e.claim.prefixLen a = false := by
  have hm : ∀ e ∈ t.claims, e.claim.matches a = matchesRef e.claim.base e.claim.prefixLen a :=
    fun e he => matches_iff_prefix e.claim a (hwf e he) ha
  cases hs : scan a t.claims none with
  | none =>
    rw [lookup_miss_none t now a hc hs]
    intro e he
    rw [← hm e he]
    exact (scan_none a t.claims none hs).2 e he
  | some e =>
    rw [lookup_miss_some t now a e hc hs]
    have ⟨hmem, hmatch⟩ := scan_some_mem a t.claims e hs
    refine ⟨e, hmem, rfl, by rw [← hm e hmem]; exact hmatch, ?_⟩
    intro e' he' hm'
    exact (scan_some a t.claims none e hs).2.1 e' he' (by rw [hm e' he']; exact hm')

/-- a decision cached by a lookup lives no longer than the switch timeout and no longer than the claim it came from -/
theorem cache_lifetime (t : Table) (now : Int) (a : Addr) :
    ∀ v ∈ (t.lookup now a).1.cache, v ∉ t.cache →
      v.addr = a ∧ v.timeout ≤ now + t.cacheTimeout ∧ ∃ e ∈ t.claims, e.peer = v.peer ∧ v.timeout ≤ e.timeout := by
  intro v hv hnew
  cases hc : t.cache.find? (fun v => v.addr = a) with
  | some w =>
    rw [lookup_hit t now a w hc] at hv
    exact absurd hv hnew
  | none =>
    cases hs : scan a t.claims none with
    | none =>
      rw [lookup_miss_none t now a hc hs] at hv
      exact absurd hv hnew
    | some e =>
      rw [lookup_miss_some t now a e hc hs] at hv
      simp only [cacheInsert, List.mem_cons, List.mem_filter] at hv
      rcases hv with rfl | hv
      · refine ⟨rfl, ?_, e, (scan_some_mem a t.claims e hs).1, rfl, ?_⟩
        · exact Int.min_le_left _ _
        · exact Int.min_le_right _ _
      · exact absurd hv.1 hnew

/-- the hypotheses of `lookup_spec` / `lookup_most_specific` hold on a concrete table (two peers, three claims) and an
    address without cached decision; the lookup selects the /16 of peer 2 over the /8 of peer 1 and caches that decision
    for the switch timeout -/
example : (∀ e ∈ exTable.claims, Bytes.WF e.claim.base) ∧ Bytes.WF [10, 1, 2, 3] ∧
    exTable.cache.find? (fun v => v.addr = [10, 1, 2, 3]) = none ∧
    (exTable.lookup 100 [10, 1, 2, 3]).2 = some 2 ∧
    (exTable.lookup 100 [10, 1, 2, 3]).1.cache = ⟨[10, 1, 2, 3], 2, 400⟩ :: exTable.cache ∧
    lookupOk exTable 100 [10, 1, 2, 3] (exTable.lookup 100 [10, 1, 2, 3]).2 (exTable.lookup 100 [10, 1, 2, 3]).1 = true := by
  decide

/-- a cached decision wins over the claims; an address outside every claim has no next hop -/
example : (exTable.lookup 100 [10, 2, 0, 1]).2 = some 1 ∧ (exTable.lookup 100 [11, 0, 0, 1]).2 = none ∧
    (exTable.lookup 100 [10, 0, 0]).2 = none := by
  decide

end Lookup

end VpnCloud.Proofs.C11
