import VpnCloud.Model.Core
import VpnCloud.Spec.C03
import VpnCloud.Spec.C03Slot
import VpnCloud.Proofs.Lemmas.CoreLemmas
/-
  C03 — the replay window: the per-slot state of `CryptoCore::decrypt` / `every_second` refines the
  history-only `threshold`, and the consequences of that for replays and reordering.
  All statements are proved as given (no hypothesis added).
-/
namespace VpnCloud.Proofs.C03

open VpnCloud VpnCloud.Spec.C03
open VpnCloud.Proofs.CoreLemmas

/-- **window_refines**: for every admissible history of a fresh slot the window floor equals the threshold of the history -/
theorem window_refines (key : KeyRef) (half : Bool) (start : Nat) (h : List Ev)
    (hadm : Admissible (SlotKey.new key half start) h) :
    (slotRun (SlotKey.new key half start) h).min = threshold h :=
  (run_inv key half start h (admissible_bound _ h hadm)).1

/-- non-vacuity: an admissible history with accepts, reordering and three ticks; floor 8 = threshold -/
example :
    Admissible (SlotKey.new 1 true 5) [.accept 7, .accept 3, .tick, .accept 9, .tick, .tick] ∧
    (slotRun (SlotKey.new 1 true 5) [.accept 7, .accept 3, .tick, .accept 9, .tick]).min = 8 ∧
    threshold [.accept 7, .accept 3, .tick, .accept 9, .tick] = 8 ∧
    threshold [.accept 7, .accept 3, .tick, .accept 9, .tick, .tick] = 10 := by
  decide

-- all four generated guards of `decrypt` are listed in each `simp only`, whether the branch at hand needs them or not
set_option linter.unusedSimpArgs false in
/-- what `decrypt` does to the addressed slot on an authentic, decryptable datagram: accept iff nonce ≥ window floor, and then `slotStep (.accept nonce)` -/
theorem decrypt_authentic (c : Core) (d : Dgram) (k : SlotKey) (p : Bytes)
    (hlen : d.len ≥ 24) (hid : d.keyId < 4) (hk : c.slots[d.keyId]? = some k)
    (hb : d.body = .sealed k.key (c.reconstruct d.counter) p) :
    (k.min ≤ c.reconstruct d.counter →
        (c.decrypt d).2 = .ok p ∧ (c.decrypt d).1 = { c with slots := c.slots.set d.keyId (slotStep k (.accept (c.reconstruct d.counter))) }) ∧
    (c.reconstruct d.counter < k.min → (c.decrypt d).2 = .error .oldNonce ∧ (c.decrypt d).1 = c) := by
  have h1 : ¬ d.len < Generated.EXTRA_LEN + Generated.TAG_LEN := by
    simp only [Generated.EXTRA_LEN, Generated.TAG_LEN]; omega
  have h2 : ¬ d.keyId ≥ 4 := by omega
  constructor
  · intro hmin
    have h3 : ¬ c.reconstruct d.counter < k.min := by omega
    simp only [Core.decrypt, Generated.datagramTooShort, Generated.keyIdInvalid, Generated.nonceTooOld,
      Generated.seenAdvances, decide_eq_true_eq, h1, h2, hk, hb, h3, if_false, and_self, if_true, slotStep]
  · intro hmin
    simp only [Core.decrypt, Generated.datagramTooShort, Generated.keyIdInvalid, Generated.nonceTooOld,
      Generated.seenAdvances, decide_eq_true_eq, h1, h2, hk, hmin, if_false, if_true, and_self]

/-- example core for the non-vacuity checks -/
def exCore : Core :=
  { slots := [{ key := 7, send := 0, min := 3 }, { key := 8, send := 0 }, { key := 8, send := 0 }, { key := 8, send := 0 }],
    cur := 0, half := true }

example :
    (exCore.decrypt { hdr := [0, 0, 0, 0, 0, 0, 0, 5], body := .sealed 7 5 [1, 2] }).2 = .ok [1, 2] ∧
    (exCore.decrypt { hdr := [0, 0, 0, 0, 0, 0, 0, 2], body := .sealed 7 2 [1, 2] }).2 = .error .oldNonce := by
  decide

/-- a tick is `slotStep .tick` on every slot -/
theorem everySecond_slots (c : Core) : c.everySecond.slots = c.slots.map (fun k => slotStep k .tick) := rfl

/-- the threshold never decreases as the history grows -/
theorem threshold_mono (h : List Ev) (e : Ev) : threshold h ≤ threshold (h ++ [e]) := by
  cases e with
  | accept n => rw [threshold_snoc_accept]; exact Nat.le_refl _
  | tick => rw [threshold_snoc_tick]; exact threshold_le_pending h

/-- **dies_in_two_ticks**: once some n' ≥ n was accepted, n is below the threshold after two further ticks, and forever after -/
theorem dies_in_two_ticks (h more : List Ev) (n n' : Nat) (hacc : Ev.accept n' ∈ h) (hge : n ≤ n') (h2 : 2 ≤ countTicks more) :
    n < threshold (h ++ more) := by
  have h3 := (top_propagates h more).2.2 h2
  have h4 : n' < maxAcceptedSucc h := (mas_le_iff h _).1 (Nat.le_refl _) n' hacc
  have h5 : maxAcceptedSucc h ≤ top h := by unfold top; omega
  omega

/-- non-vacuity: 5 was accepted, 4 is dead after two ticks but not after one -/
example : 4 < threshold ([.accept 5] ++ [.tick, .accept 6, .tick]) ∧ ¬ 4 < threshold ([.accept 5] ++ [.tick, .accept 6]) := by
  decide

/-- **newest_always_accepted**: a datagram newer than everything accepted so far (and nonces are ≥ 1) is at least the threshold -/
theorem newest_always_accepted (h : List Ev) (n : Nat) (hn : 1 ≤ n) (hnew : ∀ m, Ev.accept m ∈ h → m < n) : threshold h ≤ n := by
  have h1 := threshold_le_pending h
  have h2 := pending_le_top h
  have h3 : maxAcceptedSucc h ≤ n := (mas_le_iff h n).2 hnew
  have h4 : top h ≤ n := by unfold top; omega
  omega

/-- inside the window the order does not matter: anything at least the threshold is acceptable, whatever was accepted after the last-but-one tick -/
theorem any_order_inside_window (h : List Ev) (n : Nat) (old : List Ev)
    (hold : beforeLastButOneTick h = some old) (hn : 1 ≤ n) (hgt : ∀ m, Ev.accept m ∈ old → m < n) : threshold h ≤ n := by
  have h3 : maxAcceptedSucc old ≤ n := (mas_le_iff old n).2 hgt
  simp only [threshold, hold]
  omega

/-- non-vacuity: 4 is acceptable although 9 and 6 were accepted after the last-but-one tick -/
example : beforeLastButOneTick [.accept 3, .tick, .accept 9, .tick, .accept 6] = some [.accept 3] ∧
    threshold [.accept 3, .tick, .accept 9, .tick, .accept 6] ≤ 4 := by
  decide

end VpnCloud.Proofs.C03
