import VpnCloud.Model.Core
namespace VpnCloud.Proofs.C03
end VpnCloud.Proofs.C03
