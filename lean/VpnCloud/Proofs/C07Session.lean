import VpnCloud.Proofs.Lemmas.C07SessionLemmas
import VpnCloud.Proofs.Lemmas.C10MoreLemmas
import VpnCloud.Proofs.C16More
/-
  C07 at the level of `PeerCrypto` sessions.

  The theorem `Rot.rotation_sync` (`C07.lean`) is about the symbolic two-party system `Rot.Sys`.  Here it is tied to the session
  layer (`Model/PeerCrypto.lean`): two established sessions, each with its rotation state (`rot = some sd`) and crypto core
  (`core = some c`), the datagrams each has emitted, and the session operations `every_second`, `handle_message`, `send_message`.

  * `abs`: the abstraction to `Rot.Sys`; `refinement`: every session-level step is a step `StepF` of the symbolic system (a `cycle` of
    one end, the delivery (`process`) of a message the other end has sent, or nothing) and keeps the coupling invariant `Good`;
    `core_slots_are_rot_slots`: the key slots of the core (`slots[id % 4]`) are the slots of the rotation state.
  * `session_rotation_sync`: in every state reachable from a completed handshake by ticks, deliveries (any order, any multiplicity, or
    never) and payload traffic, the slot a session seals with holds at the peer the same key reference under the same index;
    `fresh_payload_opens`: so `session_roundtrip` applies at every instant.
  * `completion_responder` / `completion_initiator`: `handle_init_message` at the end of the handshake creates the initial states.
  * `rotation_period`, `lockstep_session`, `lost_message_only_delays`.

  Hypotheses (all in `Op` / `InitPair`, discussed in the report):
  - A1 (log consistency, ideal AEAD `L1`): the ciphertext bytes a session emitted are viewed by `bodyOf` as what was sealed;
  - the two sessions start with the same master key reference (`L2`: the handshake's key agreement commutes, `masterKey_comm_of`);
  - public keys are 32-byte numbers (`< 2^256`), rotation ids stay below `2^64`.
  Panics: the steps of the two-session system (`Op`) are the `.ok` / `.err` outcomes of the session operations; a panicking
  `handle_message` (`take_prefix` on an empty plaintext; `derive_key(..).unwrap()` on a rotation message whose keys are not 32 bytes
  long, `PeerCrypto.rotatePanics`) ends the run and is no step.  `RotPanic.honest_sessions_never_panic` shows that no datagram one of
  the two sessions has emitted makes the other panic, so nothing is lost.
  NOT needed: freshness / injectivity of key material (`I3`): synchronisation needs only that equal symbolic keys get equal
  references; commutativity of the rotation key agreement is built into `Rot.K` (`K_comm`).
-/
namespace VpnCloud.Proofs.C07Session

open VpnCloud VpnCloud.Rot VpnCloud.Codec
open VpnCloud.Proofs.NodeInvLemmas VpnCloud.Proofs.C07SessionLemmas

/-! ## the two-session system -/

/-- two sessions (one at each node, for each other) and the sealed datagrams each has emitted so far -/
structure SSys where
  x : PeerCrypto
  y : PeerCrypto
  sentX : List Bytes
  sentY : List Bytes

section
variable (env : CryptoEnv) (bodyOf : Init.BodyOf) (payloadOk : Bytes → Bool)

/-- one operation of the session `pc` (`own`: datagrams it has emitted, `peer`: datagrams the other session has emitted):
    * `tick`: `every_second` (any randomness with a 32-byte public key); a sealed output is added to `own`;
    * `recv`: `handle_message` on ANY datagram the peer ever emitted (any number of times, any order; never = loss), any stale buffer tail;
    * `send`: `send_message` of a payload message (any type but ROTATION).
    Operations that end in an error still change the session (`tickErr`, `recvErr`). -/
inductive Op (pc : PeerCrypto) (own peer : List Bytes) : PeerCrypto → List Bytes → Prop
  | tick (rr : RotRand) (pc' : PeerCrypto) (out : Bytes) (res : MsgResult) (log : Init.SealLog)
      (hf : rr.freshProp < 2 ^ 256) (hid : ∀ sd, pc.rot = some sd → sd.id + 2 < 2 ^ 64)
      (h : PeerCrypto.everySecond pc rr = .ok pc' out res log) (hlog : ∀ e ∈ log, bodyOf e.1 = e.2) :
      Op pc own peer pc' (if log.isEmpty then own else out :: own)
  | tickErr (rr : RotRand) (pc' : PeerCrypto) (e : InitErr) (hf : rr.freshProp < 2 ^ 256)
      (h : PeerCrypto.everySecond pc rr = .err pc' e) : Op pc own peer pc' own
  | recv (d : Bytes) (hd : d ∈ peer) (tail : Bytes) (rnd : Rand) (rr : RotRand) (hf : rr.freshPend < 2 ^ 256)
      (pc' : PeerCrypto) (out : Bytes) (res : MsgResult) (log : Init.SealLog)
      (h : PeerCrypto.handleMessage env bodyOf payloadOk pc d tail rnd rr = .ok pc' out res log) : Op pc own peer pc' own
  | recvErr (d : Bytes) (hd : d ∈ peer) (tail : Bytes) (rnd : Rand) (rr : RotRand) (hf : rr.freshPend < 2 ^ 256)
      (pc' : PeerCrypto) (e : InitErr)
      (h : PeerCrypto.handleMessage env bodyOf payloadOk pc d tail rnd rr = .err pc' e) : Op pc own peer pc' own
  | send (ty : Nat) (body ct : Bytes) (pc' : PeerCrypto) (bytes : Bytes) (log : Init.SealLog)
      (hty : ty ≠ Generated.MESSAGE_TYPE_ROTATION)
      (h : PeerCrypto.sendMessage pc ty body ct = (pc', .ok (bytes, log))) (hlog : ∀ e ∈ log, bodyOf e.1 = e.2) :
      Op pc own peer pc' (bytes :: own)

/-- a step of the two-session system: an operation of either session -/
inductive SStep : SSys → SSys → Prop
  | x (s : SSys) (pc' : PeerCrypto) (own' : List Bytes) (o : Op env bodyOf payloadOk s.x s.sentX s.sentY pc' own') :
      SStep s { s with x := pc', sentX := own' }
  | y (s : SSys) (pc' : PeerCrypto) (own' : List Bytes) (o : Op env bodyOf payloadOk s.y s.sentY s.sentX pc' own') :
      SStep s { s with y := pc', sentY := own' }

/-! ## the abstraction to the symbolic system -/

/-- the rotation state of a session (all statements below are about sessions with `rot = some _`, see `Good`) -/
def sideOf (pc : PeerCrypto) : Side := pc.rot.getD (PeerCrypto.initSide false 0)

/-- **the abstraction**: the two rotation states and the rotation messages among the emitted datagrams -/
def abs (s : SSys) : Sys :=
  { x := sideOf s.x, y := sideOf s.y, sentX := absSent bodyOf s.sentX, sentY := absSent bodyOf s.sentY, fresh := 0 }

theorem sideOf_sess {pc : PeerCrypto} {sd : Side} {c : Core} (h : Sess pc sd c) : sideOf pc = sd := by
  simp [sideOf, h.rot]

/-- emitted transport datagrams never carry the handshake marker -/
def NoMarker (l : List Bytes) : Prop := ∀ d ∈ l, d.head? ≠ some Generated.INIT_MESSAGE_FIRST_BYTE

/-- the coupling invariant: both sessions are established and encrypted with rotation state and core coupled (`Sess`), they agree on
    the master key reference, their cores use opposite halves of the nonce space, and the abstraction satisfies the inductive invariant
    `Rot.Inv` of `C07.lean` -/
structure Good (s : SSys) : Prop where
  ex : ∃ cx cy, Sess s.x (sideOf s.x) cx ∧ Sess s.y (sideOf s.y) cy ∧ cy.half = !cx.half
  master : s.x.master = s.y.master
  hdrX : NoMarker s.sentX
  hdrY : NoMarker s.sentY
  invL : InvL4 (sideOf s.x) (sideOf s.y) (absSent bodyOf s.sentX) (absSent bodyOf s.sentY)

/-- in particular the abstraction satisfies the inductive invariant of `C07.lean` -/
theorem Good.inv {s : SSys} (h : Good bodyOf s) : Inv (abs bodyOf s) := invL4_inv4 h.invL

theorem head_ne_marker {hdr ct : Bytes} {cur : Nat} (hh : hdr.head? = some cur) (hc : cur < 4) :
    (hdr ++ ct).head? ≠ some Generated.INIT_MESSAGE_FIRST_BYTE := by
  cases hdr with
  | nil => cases hh
  | cons b r =>
    simp only [List.head?_cons, Option.some.injEq] at hh
    subst hh
    simp only [List.cons_append, List.head?_cons, Option.some.injEq, Generated.INIT_MESSAGE_FIRST_BYTE, ne_eq]
    omega

theorem absSent_cons (d : Bytes) (l : List Bytes) :
    absSent bodyOf (d :: l) = addMsg (absSent bodyOf l) (rotOf bodyOf d) := by
  unfold absSent
  rw [List.filterMap_cons]
  cases rotOf bodyOf d <;> rfl

/-- **one session operation is one operation of the symbolic end** (`cycle`, `process` of a message the peer sent, or nothing), and it
    keeps the session established and coupled -/
theorem op_refines {pc pc' : PeerCrypto} {own peer own' : List Bytes} {sd : Side} {c : Core} (h : Sess pc sd c)
    (hpeer : NoMarker peer) (hown : NoMarker own) (o : Op env bodyOf payloadOk pc own peer pc' own') :
    ∃ sd' c', Sess pc' sd' c' ∧ pc'.master = pc.master ∧ c'.half = c.half ∧ NoMarker own' ∧
      ROp sd (absSent bodyOf own) (absSent bodyOf peer) sd' (absSent bodyOf own') := by
  cases o with
  | tick rr pc' out res log hf hid he hlog =>
    have := everySecond_eff h rr hf
    rw [he] at this
    obtain ⟨hm, c', hh, hcase⟩ := this
    rcases hcase with ⟨hs, hl⟩ | ⟨hs, hout⟩
    · subst hl
      exact ⟨sd, c', hs, hm, hh, hown, ROp.stutter⟩
    · cases hcy : (cycle sd rr.freshProp).2 with
      | none =>
        rw [hcy] at hout
        obtain ⟨hl, _⟩ := hout
        subst hl
        refine ⟨_, c', hs, hm, hh, hown, ?_⟩
        have := ROp.cycle (A := sd) (sa := absSent bodyOf own) (sb := absSent bodyOf peer) rr.freshProp
        rw [hcy] at this
        exact this
      | some m =>
        rw [hcy] at hout
        obtain ⟨hdr, key, n, hl8, hhd, ho, hl⟩ := hout
        subst hl ho
        have hb : bodyOf rr.ct = .sealed key n (Generated.MESSAGE_TYPE_ROTATION :: writeRotMsg (PeerCrypto.rotMsgToBytes m)) :=
          hlog (rr.ct, _) (List.mem_singleton.2 rfl)
        obtain ⟨b1, b2, b3⟩ := cycle_msg_small h.ok hf (hid sd h.rot) hcy
        have hrot : rotOf bodyOf (hdr ++ rr.ct) = some m := by
          rw [rotOf_sealed bodyOf hdr rr.ct key n _ hl8 hb]
          simp only [if_true]
          exact rotMsg_wire_roundtrip m b1 b2 b3
        refine ⟨_, c', hs, hm, hh, ?_, ?_⟩
        · intro d hd
          simp only [List.isEmpty_cons, Bool.false_eq_true, if_false, List.mem_cons] at hd
          rcases hd with rfl | hd
          · exact head_ne_marker hhd h.ok.curlt
          · exact hown d hd
        · simp only [List.isEmpty_cons, Bool.false_eq_true, if_false]
          rw [absSent_cons, hrot, ← hcy]
          exact ROp.cycle rr.freshProp
  | tickErr rr pc' e hf he =>
    have := everySecond_eff h rr hf
    rw [he] at this
    obtain ⟨c', hs, hm, hh⟩ := this
    exact ⟨sd, c', hs, hm, hh, hown, ROp.stutter⟩
  | recv d hd tail rnd rr hf pc' out res log he =>
    have := handleMessage_eff h env bodyOf payloadOk d tail rnd rr hf (hpeer d hd)
    rw [he] at this
    obtain ⟨_, hm, c', hh, hcase⟩ := this
    rcases hcase with ⟨_, hs⟩ | ⟨_, m, hrot, hs⟩
    · exact ⟨sd, c', hs, hm, hh, hown, ROp.stutter⟩
    · refine ⟨_, c', hs, hm, hh, hown, ROp.deliver m ?_ rr.freshPend⟩
      exact List.mem_filterMap.2 ⟨d, hd, hrot⟩
  | recvErr d hd tail rnd rr hf pc' e he =>
    have := handleMessage_eff h env bodyOf payloadOk d tail rnd rr hf (hpeer d hd)
    rw [he] at this
    obtain ⟨c', hs, hm, hh⟩ := this
    exact ⟨sd, c', hs, hm, hh, hown, ROp.stutter⟩
  | send ty body ct pc' bytes log hty he hlog =>
    obtain ⟨c', hdr, key, n, hs, hsame, hl8, hhd⟩ := sendMessage_eff h ty body ct
    rw [hs] at he
    simp only [Prod.mk.injEq, Except.ok.injEq] at he
    obtain ⟨rfl, rfl, rfl⟩ := he
    have hb : bodyOf ct = .sealed key n (ty :: body) := hlog (ct, _) (List.mem_singleton.2 rfl)
    have hrot : rotOf bodyOf (hdr ++ ct) = none := by
      rw [rotOf_sealed bodyOf hdr ct key n _ hl8 hb]
      simp only [hty, if_false]
    refine ⟨sd, c', h.withCore hsame, rfl, hsame.half, ?_, ?_⟩
    · intro d hd
      rcases List.mem_cons.1 hd with rfl | hd
      · exact head_ne_marker hhd h.ok.curlt
      · exact hown d hd
    · rw [absSent_cons, hrot]
      exact ROp.stutter

/-- **refinement `PeerCrypto` ⊑ `Rot`**: every step of the two-session system — a tick of either session (in particular the one on which
    the rotate counter reaches `ROTATE_INTERVAL` and a rotation message is sealed), the handling of any datagram the peer ever emitted (in
    particular a genuine sealed rotation message → `handle_rotate_message` → `rotate_key`), a payload send — is a step of the symbolic
    system on the abstraction (`cycle`, resp. `deliver`, resp. no change), and the coupling invariant is kept -/
theorem refinement {s t : SSys} (h : Good bodyOf s) (st : SStep env bodyOf payloadOk s t) :
    Good bodyOf t ∧ StepF (abs bodyOf s) (abs bodyOf t) := by
  obtain ⟨cx, cy, hx, hy, hhalf⟩ := h.ex
  cases st with
  | x pc' own' o =>
    obtain ⟨sd', c', hs, hm, hh, hno, hr⟩ := op_refines env bodyOf payloadOk hx h.hdrY h.hdrX o
    have e : sideOf pc' = sd' := sideOf_sess hs
    have hstep : StepF (abs bodyOf s) (abs bodyOf { s with x := pc', sentX := own' }) := by
      left
      refine ⟨?_, rfl, rfl⟩
      simp only [abs, e]
      exact hr
    refine ⟨⟨⟨c', cy, by rw [e]; exact hs, hy, by rw [hh]; exact hhalf⟩, hm.trans h.master, hno, h.hdrY, ?_⟩, hstep⟩
    show InvL4 (sideOf pc') _ _ _
    rw [e, ← sideOf_sess hx] at *
    exact invL4_rop h.invL hr
  | y pc' own' o =>
    obtain ⟨sd', c', hs, hm, hh, hno, hr⟩ := op_refines env bodyOf payloadOk hy h.hdrX h.hdrY o
    have e : sideOf pc' = sd' := sideOf_sess hs
    have hstep : StepF (abs bodyOf s) (abs bodyOf { s with y := pc', sentY := own' }) := by
      right
      refine ⟨?_, rfl, rfl⟩
      simp only [abs, e]
      exact hr
    refine ⟨⟨⟨cx, c', hx, by rw [e]; exact hs, by rw [hh]; exact hhalf⟩, h.master.trans hm.symm, h.hdrX, hno, ?_⟩, hstep⟩
    show InvL4 _ (sideOf pc') _ _
    rw [e, ← sideOf_sess hy] at *
    exact invL4_symm (invL4_rop (invL4_symm h.invL) hr)

/-- **the key slots of the `Core` are the `Rot` slots**: in a good state the core of a session has four slots, seals with the slot the
    rotation state names, and every slot `i = id % 4` in which the rotation state holds agreed key material holds the reference
    `keyRefOf master` of exactly that material -/
theorem core_slots_are_rot_slots {s : SSys} (h : Good bodyOf s) :
    ∃ cx cy, s.x.core = some cx ∧ s.y.core = some cy ∧ cx.slots.length = 4 ∧ cy.slots.length = 4 ∧
      cx.cur = (abs bodyOf s).x.cur ∧ cy.cur = (abs bodyOf s).y.cur ∧
      (∀ i, i < 4 → NonDummy ((abs bodyOf s).x.slots i) →
        cx.slots[i]?.map (·.key) = some (PeerCrypto.keyRefOf s.x.master ((abs bodyOf s).x.slots i))) ∧
      (∀ i, i < 4 → NonDummy ((abs bodyOf s).y.slots i) →
        cy.slots[i]?.map (·.key) = some (PeerCrypto.keyRefOf s.y.master ((abs bodyOf s).y.slots i))) := by
  obtain ⟨cx, cy, hx, hy, _⟩ := h.ex
  refine ⟨cx, cy, hx.core, hy.core, hx.cpl.len, hy.cpl.len, hx.cpl.cur, hy.cpl.cur, ?_, ?_⟩
  · intro i hi hn
    have := hx.cpl.keys i hi hn
    simpa [keysOf, abs] using this
  · intro i hi hn
    have := hy.cpl.keys i hi hn
    simpa [keysOf, abs] using this

/-! ## reachable states -/

/-- the pair of sessions right after a completed handshake (`completion_responder` / `completion_initiator` below show that
    `handle_init_message` produces them): `x` is the session of the handshake RESPONDER — it starts the rotation (`initSide true p`, having
    sealed the first rotation message `⟨1, p, none⟩`) — `y` the one of the handshake initiator; both cores hold the master key in slot 0
    and seal with it -/
structure InitPair (s : SSys) : Prop where
  ex : ∃ p cx cy, p < 2 ^ 256 ∧ Sess s.x (PeerCrypto.initSide true p) cx ∧ Sess s.y (PeerCrypto.initSide false 0) cy ∧
    cy.half = !cx.half ∧ absSent bodyOf s.sentX = [⟨1, p, none⟩]
  master : s.x.master = s.y.master
  hdrX : NoMarker s.sentX
  sentY : s.sentY = []

theorem inv4_init (p : Nat) : Inv4 (PeerCrypto.initSide true p) (PeerCrypto.initSide false 0) [⟨1, p, none⟩] [] := by
  left
  refine ⟨rfl, ⟨p, rfl⟩, rfl, Or.inl ⟨rfl, rfl⟩, ?_, ?_, ?_, ?_, Or.inl ⟨rfl, by simp [PeerCrypto.initSide]⟩, ?_, ?_, ?_, ?_, ?_, ?_⟩
  all_goals simp [PeerCrypto.initSide]

theorem good_init {s : SSys} (h : InitPair bodyOf s) : Good bodyOf s := by
  obtain ⟨p, cx, cy, _, hx, hy, hh, hsx⟩ := h.ex
  have ex : sideOf s.x = PeerCrypto.initSide true p := sideOf_sess hx
  have ey : sideOf s.y = PeerCrypto.initSide false 0 := sideOf_sess hy
  refine ⟨⟨cx, cy, by rw [ex]; exact hx, by rw [ey]; exact hy, hh⟩, h.master, h.hdrX, (by rw [h.sentY]; intro d hd; cases hd), ?_⟩
  rw [ex, ey, hsx, h.sentY]
  rcases inv4_init p with ha | ha
  · exact Or.inl ⟨ha, _, List.mem_singleton.2 rfl, rfl⟩
  · have := ha.idrel; simp [PeerCrypto.initSide] at this

/-- states reachable from a completed handshake by any sequence of session operations -/
inductive SReachable : SSys → Prop
  | init {s : SSys} (h : InitPair bodyOf s) : SReachable s
  | step {s t : SSys} (h : SReachable s) (st : SStep env bodyOf payloadOk s t) : SReachable t

theorem good_reachable {s : SSys} (h : SReachable env bodyOf payloadOk s) : Good bodyOf s := by
  induction h with
  | init h => exact good_init bodyOf h
  | step _ st ih => exact (refinement env bodyOf payloadOk ih st).1

/-- the symbolic invariant, hence `Rot.Sync`, holds of the abstraction of every reachable state -/
theorem abs_sync {s : SSys} (h : SReachable env bodyOf payloadOk s) : Sync (abs bodyOf s) :=
  inv_sync (good_reachable env bodyOf payloadOk h).inv

theorem slot_of_keys {c : Core} {i : Nat} {r : KeyRef} (h : (keysOf c)[i]? = some r) : ∃ k, c.slots[i]? = some k ∧ k.key = r := by
  simp only [keysOf, List.getElem?_map, Option.map_eq_some_iff] at h
  exact h

/-- the conclusion of `session_rotation_sync`, from the invariant -/
theorem good_sync {s : SSys} (h : Good bodyOf s) :
    ∃ cx cy kx ky kx' ky', s.x.core = some cx ∧ s.y.core = some cy ∧ s.x.unencrypted = false ∧ s.y.unencrypted = false ∧
      cx.cur < 4 ∧ cy.cur < 4 ∧ cy.half = !cx.half ∧
      cx.slots[cx.cur]? = some kx ∧ cy.slots[cx.cur]? = some ky' ∧ ky'.key = kx.key ∧
      cy.slots[cy.cur]? = some ky ∧ cx.slots[cy.cur]? = some kx' ∧ kx'.key = ky.key := by
  obtain ⟨cx, cy, hx, hy, hh⟩ := h.ex
  obtain ⟨s1, s2⟩ := inv_sync h.inv
  simp only [abs] at s1 s2
  have cxc : cx.cur = (sideOf s.x).cur := hx.cpl.cur
  have cyc : cy.cur = (sideOf s.y).cur := hy.cpl.cur
  have nx := hx.ok.curnd
  have ny := hy.ok.curnd
  obtain ⟨kx, hkx, ekx⟩ := slot_of_keys (hx.cpl.keys _ hx.ok.curlt nx)
  obtain ⟨ky', hky', eky'⟩ := slot_of_keys (hy.cpl.keys _ hx.ok.curlt (by rw [← s1]; exact nx))
  obtain ⟨ky, hky, eky⟩ := slot_of_keys (hy.cpl.keys _ hy.ok.curlt ny)
  obtain ⟨kx', hkx', ekx'⟩ := slot_of_keys (hx.cpl.keys _ hy.ok.curlt (by rw [← s2]; exact ny))
  refine ⟨cx, cy, kx, ky, kx', ky', hx.core, hy.core, hx.enc, hy.enc, by rw [cxc]; exact hx.ok.curlt, by rw [cyc]; exact hy.ok.curlt, hh,
    by rw [cxc]; exact hkx, by rw [cxc]; exact hky', ?_, by rw [cyc]; exact hky, by rw [cyc]; exact hkx', ?_⟩
  · rw [eky', ekx, ← s1, h.master]
  · rw [ekx', eky, ← s2, h.master]

/-- **session_rotation_sync** (C07 at session level): in every state of two sessions reachable from a completed handshake by ticks at
    either side, delivery — in any order, any number of times, or never — of the datagrams they sealed (rotation messages and payload),
    and payload sends, with any relative timing: both sessions are encrypted and have a core, and the slot a session currently seals with
    (`core.cur`) holds at the PEER a key with the same key reference (= identical key material) under the same slot index.  So the
    key-related hypotheses `hs hr hcur hkey hhalf` of `session_roundtrip` hold at every instant, in both directions. -/
theorem session_rotation_sync {s : SSys} (h : SReachable env bodyOf payloadOk s) :
    ∃ cx cy kx ky kx' ky', s.x.core = some cx ∧ s.y.core = some cy ∧ s.x.unencrypted = false ∧ s.y.unencrypted = false ∧
      cx.cur < 4 ∧ cy.cur < 4 ∧ cy.half = !cx.half ∧
      cx.slots[cx.cur]? = some kx ∧ cy.slots[cx.cur]? = some ky' ∧ ky'.key = kx.key ∧
      cy.slots[cy.cur]? = some ky ∧ cx.slots[cy.cur]? = some kx' ∧ kx'.key = ky.key :=
  good_sync bodyOf (good_reachable env bodyOf payloadOk h)

open VpnCloud.Spec.C04 in
/-- **fresh payload is always decryptable by the peer**: in every reachable state, what `x` seals now (`send_message`, any type but
    ROTATION) is opened by `y` as exactly that message — provided the nonce is acceptable (`hsend hv hmin`: the counter of `x`'s sealing
    slot fits 56 bits and is not below the floor of the replay window of `y`'s slot; these are the subject of C02/C04, not of the
    rotation) and the AEAD view is consistent (`hbody`).  Which slot and which keys: supplied by `session_rotation_sync`. -/
theorem fresh_payload_opens {s : SSys} (h : SReachable env bodyOf payloadOk s) (ty : Nat) (data ct bytes tail : Bytes)
    (x' : PeerCrypto) (log : Init.SealLog) (rnd : Rand) (rr : RotRand) (hty : ty ≠ Generated.MESSAGE_TYPE_ROTATION)
    (hsm : PeerCrypto.sendMessage s.x ty data ct = (x', .ok (bytes, log))) (hbody : ∀ e ∈ log, bodyOf e.1 = e.2)
    (hnonce : ∀ cx cy kx ky, s.x.core = some cx → s.y.core = some cy → cx.slots[cx.cur]? = some kx → cy.slots[cx.cur]? = some ky →
      ∃ v, kx.send + 1 = base cx.half + v ∧ v < 2 ^ 56 ∧ ky.min ≤ kx.send + 1) :
    ∃ y', PeerCrypto.handleMessage env bodyOf payloadOk s.y bytes tail rnd rr = .ok y' [] (.message ty data) [] := by
  obtain ⟨cx, cy, kx, ky, kx', ky', hcx, hcy, hux, huy, hcur, _, hhalf, hkx, hky', hkey, _⟩ := session_rotation_sync env bodyOf payloadOk h
  obtain ⟨v, hsend, hv, hmin⟩ := hnonce cx cy kx ky' hcx hcy hkx hky'
  exact C10MoreLemmas.session_roundtrip env bodyOf payloadOk s.x s.y x' cx cy kx ky' v ty data ct bytes tail log rnd rr hux huy hcx hcy hkx hky'
    hcur hkey hhalf hsend hv hmin hty hsm hbody

/-! ## the handshake creates the initial states -/

/-- **the handshake responder starts the rotation at completion**: when `handle_init_message` completes the handshake at the responder
    (`Init.handleInit` reports `success … false`, its core `c0` has four slots and seals with slot 0), the session becomes an established,
    coupled session with rotation state `initSide true p` (`p` = the public key of a new ephemeral pair) and the reply is the first rotation
    message `⟨1, p, none⟩`, sealed as type `MESSAGE_TYPE_ROTATION` -/
theorem completion_responder (pc : PeerCrypto) (ist ist' : InitSt) (w out payload : Bytes) (ilog : Init.SealLog) (rnd : Rand) (rr : RotRand)
    (c0 : Core) (hi : pc.init = some ist)
    (hh : Init.handleInit env bodyOf payloadOk ist w rnd = .ok ist' (out, .success payload false, ilog))
    (hc : ist'.crypto = some c0) (hlen : c0.slots.length = 4) (hcur : c0.cur = 0) (hp : rr.freshProp < 2 ^ 256) :
    ∃ pc2 c' bytes log, PeerCrypto.handleInitMessage env bodyOf payloadOk pc w rnd rr =
        .ok pc2 bytes (.initializedWithReply payload) (ilog ++ log) ∧
      Sess pc2 (PeerCrypto.initSide true rr.freshProp) c' ∧ c'.half = c0.half ∧
      pc2.master = (c0.slots[0]?.map (·.key)).getD 0 ∧ pc2.rotateCounter = pc.rotateCounter ∧ NoMarker [bytes] ∧
      ((∀ e ∈ log, bodyOf e.1 = e.2) → absSent bodyOf [bytes] = [⟨1, rr.freshProp, none⟩]) := by
  rw [handleInitMessage_eq]
  simp only [hi, hh]
  have hs0 : Sess { successPc pc ist' with rot := some (PeerCrypto.initSide true rr.freshProp) } (PeerCrypto.initSide true rr.freshProp) c0 :=
    sess_initSide true rr.freshProp hp rfl (by simp [successPc, hc]) (by simp [successPc, hc]) (by simp [successPc, hc]) hlen hcur
  obtain ⟨c', hdr, key, n, hs, hsame, hl8, hhd⟩ := sealMsg_sess hs0
    (Generated.MESSAGE_TYPE_ROTATION :: writeRotMsg (PeerCrypto.rotMsgToBytes ⟨1, rr.freshProp, none⟩)) rr.ct
  unfold successOut
  simp only [hc, Option.isNone_some, Bool.false_eq_true, if_false, Bool.not_false, if_true, hs]
  refine ⟨_, c', _, _, rfl, hs0.withCore hsame, hsame.half, by simp [successPc, hc], rfl, ?_, ?_⟩
  · intro d hd
    rw [List.mem_singleton] at hd
    subst hd
    exact head_ne_marker hhd (by simp [PeerCrypto.initSide])
  · intro hlog
    have hb := hlog (rr.ct, _) (List.mem_singleton.2 rfl)
    simp only [] at hb
    have hrot : rotOf bodyOf (hdr ++ rr.ct) = some ⟨1, rr.freshProp, none⟩ := by
      rw [rotOf_sealed bodyOf hdr rr.ct key n _ hl8 hb]
      simp only [if_true]
      exact rotMsg_wire_roundtrip _ (by simp only []; omega) hp (fun c hc' => by cases hc')
    simp only [absSent, List.filterMap_cons, hrot, List.filterMap_nil]

/-- **… and the handshake initiator waits for it**: at the initiator (`success … true`) the session becomes an established, coupled session
    with rotation state `initSide false 0` (no proposal of its own, id 0); no rotation message is emitted -/
theorem completion_initiator (pc : PeerCrypto) (ist ist' : InitSt) (w out payload : Bytes) (ilog : Init.SealLog) (rnd : Rand) (rr : RotRand)
    (c0 : Core) (hi : pc.init = some ist)
    (hh : Init.handleInit env bodyOf payloadOk ist w rnd = .ok ist' (out, .success payload true, ilog))
    (hc : ist'.crypto = some c0) (hlen : c0.slots.length = 4) (hcur : c0.cur = 0) :
    ∃ pc2 bytes, PeerCrypto.handleInitMessage env bodyOf payloadOk pc w rnd rr = .ok pc2 bytes (.initializedWithReply payload) ilog ∧
      Sess pc2 (PeerCrypto.initSide false 0) c0 ∧ pc2.master = (c0.slots[0]?.map (·.key)).getD 0 ∧
      pc2.rotateCounter = pc.rotateCounter := by
  rw [handleInitMessage_eq]
  simp only [hi, hh]
  unfold successOut
  simp only [hc, Option.isNone_some, Bool.false_eq_true, if_false, Bool.not_true]
  refine ⟨_, _, rfl, ?_, by simp [successPc, hc], rfl⟩
  exact sess_initSide false 0 (by decide) rfl (by simp [successPc, hc]) (by simp [successPc, hc]) (by simp [successPc, hc]) hlen hcur

/-- in the encrypted case the model hands `handle_rotate_message` the decrypted plaintext only, the Rust `buffer.buffer()` (the plaintext
    and whatever lies behind it in the buffer).  Whenever the plaintext itself parses this makes no difference (`rotmsg_trailing_ignored`) -/
theorem handleRotate_tail_irrelevant (pc : PeerCrypto) (body t : Bytes) (rr : RotRand) (m : RotMsg) (h : readRotMsg body = some m) :
    PeerCrypto.handleRotate pc (body ++ t) rr = PeerCrypto.handleRotate pc body rr := by
  unfold PeerCrypto.handleRotate
  rw [C16More.rotmsg_trailing_ignored body t m h, h]

/-! ## the rotation period -/

/-- `ticks l pc`: `every_second` once per element of `l` (the randomness of that tick); result: the session and the outputs, oldest first;
    `none` if a tick fails -/
def ticks : List RotRand → PeerCrypto → Option (PeerCrypto × List Bytes)
  | [], pc => some (pc, [])
  | rr :: l, pc =>
    match PeerCrypto.everySecond pc rr with
    | .ok pc' out _ _ => (ticks l pc').map (fun p => (p.1, out :: p.2))
    | _ => none

/-- while the rotate counter stays below `ROTATE_INTERVAL` the ticks of a quiet established session emit nothing and leave the rotation
    state alone; the counter counts them -/
theorem quiet_ticks (l : List RotRand) : ∀ {pc : PeerCrypto} {sd : Side} {c : Core}, Sess pc sd c → Quiet pc →
    pc.rotateCounter + l.length < Generated.ROTATE_INTERVAL → (∀ rr ∈ l, rr.freshProp < 2 ^ 256) →
    ∃ pc' c', ticks l pc = some (pc', List.replicate l.length []) ∧ Sess pc' sd c' ∧ Quiet pc' ∧
      pc'.rotateCounter = pc.rotateCounter + l.length ∧ pc'.master = pc.master ∧ c'.half = c.half := by
  induction l with
  | nil => intro pc sd c h hq _ _; exact ⟨pc, c, rfl, h, hq, rfl, rfl, rfl⟩
  | cons rr l ih =>
    intro pc sd c h hq hc hf
    simp only [List.length_cons] at hc
    obtain ⟨pc1, out, res, log, c1, he, hq1, hm1, hh1, hif⟩ := quiet_tick h hq rr (hf rr List.mem_cons_self)
    rw [if_pos (by omega)] at hif
    obtain ⟨hs1, _, hout, hcnt⟩ := hif
    obtain ⟨pc', c', ht, hs', hq', hcnt', hm', hh'⟩ := ih hs1 hq1 (by omega) (fun r hr => hf r (List.mem_cons_of_mem _ hr))
    refine ⟨pc', c', ?_, hs', hq', by rw [hcnt', hcnt, List.length_cons]; omega, hm'.trans hm1, hh'.trans hh1⟩
    simp only [ticks, he, ht, Option.map_some, hout, List.length_cons, List.replicate_succ]

/-- **rotation_period**: a quiet established session whose rotate counter is 0 — as right after the handshake, and after every
    cycle — emits nothing and keeps its rotation state during the next `ROTATE_INTERVAL - 1` ticks; the `ROTATE_INTERVAL`-th tick
    performs exactly one `Rot.cycle` (with the public key drawn in that tick), emits the sealed rotation message of that cycle if there
    is one (`CycOut`), and resets the counter to 0 — so the statement applies again: one cycle exactly every `ROTATE_INTERVAL` ticks. -/
theorem rotation_period {pc : PeerCrypto} {sd : Side} {c : Core} (h : Sess pc sd c) (hq : Quiet pc) (h0 : pc.rotateCounter = 0)
    (l : List RotRand) (rr : RotRand) (hl : l.length + 1 = Generated.ROTATE_INTERVAL)
    (hf : ∀ r ∈ l, r.freshProp < 2 ^ 256) (hfr : rr.freshProp < 2 ^ 256) :
    ∃ pc1 c1, ticks l pc = some (pc1, List.replicate l.length []) ∧ Sess pc1 sd c1 ∧
      ∃ pc2 out res log c2, PeerCrypto.everySecond pc1 rr = .ok pc2 out res log ∧
        Sess pc2 (cycle sd rr.freshProp).1 c2 ∧ Quiet pc2 ∧ pc2.rotateCounter = 0 ∧ pc2.master = pc.master ∧ c2.half = c.half ∧
        CycOut sd rr (cycle sd rr.freshProp).2 out log := by
  obtain ⟨pc1, c1, ht, hs1, hq1, hcnt, hm1, hh1⟩ := quiet_ticks l h hq (by omega) hf
  obtain ⟨pc2, out, res, log, c2, he, hq2, hm2, hh2, hif⟩ := quiet_tick hs1 hq1 rr hfr
  rw [if_neg (by omega)] at hif
  exact ⟨pc1, c1, ht, hs1, pc2, out, res, log, c2, he, hif.2.1, hq2, hif.1, hm2.trans hm1, hh2.trans hh1, hif.2.2⟩

end

/-! ## a lost rotation message only postpones the next key change -/

/-- **no deadlock (symbolic ends, arbitrary numbers for new key pairs)**: in any state of the invariant with `X` the end that is ahead —
    whatever messages were lost before — two further cycles of `X` (re-)send a message carrying `X`'s current id and leave `X`'s id
    unchanged; when that message reaches `Y`, the next cycle of `Y` advances `Y`'s id by 2 (a new key is installed, a new proposal made) -/
theorem ahead_progress {X Y : Side} {sx sy : List Msg} (h : Ahead X Y sx sy) (f g e f' : Nat) :
    ∃ m, m ∈ addMsg (addMsg sx (cycle X f).2) (cycle (cycle X f).1 g).2 ∧
      ((cycle X f).2 = some m ∨ (cycle (cycle X f).1 g).2 = some m) ∧ m.id = X.id ∧
      (cycle (cycle X f).1 g).1.id = X.id ∧ (cycle (process Y m e) f').1.id = Y.id + 2 := by
  have h1 := ahead_cycleX h f
  have h2 := ahead_cycleX h1 g
  have i1 : (cycle X f).1.id = X.id := cycle_id_of_not_waiting (ahead_not_waiting h) f
  have i2 : (cycle (cycle X f).1 g).1.id = X.id := (cycle_id_of_not_waiting (ahead_not_waiting h1) g).trans i1
  obtain ⟨p, hp⟩ := h.xprop
  -- the message a re-sending cycle emits carries the current id
  have emit : ∀ {Z : Side} {q : Nat}, Z.proposed = some q → Z.timeout = true → Z.id = X.id →
      ((Z.id = 1 ∧ Z.confirmed = none) ∨ (Z.id > 1 ∧ ∃ c, Z.confirmed = some (c, Z.id))) → ∀ k, ∃ m, (cycle Z k).2 = some m ∧ m.id = X.id := by
    intro Z q hq ht hid hconf k
    rw [cycle_proposed_timeout hq ht]
    rcases hconf with ⟨a, b⟩ | ⟨a, c, b⟩
    · rw [b]; exact ⟨_, rfl, by simp only []; omega⟩
    · rw [b]; exact ⟨_, rfl, by simp only []; omega⟩
  have key : ∃ m, ((cycle X f).2 = some m ∨ (cycle (cycle X f).1 g).2 = some m) ∧ m.id = X.id := by
    cases ht : X.timeout
    · obtain ⟨q, hq⟩ := h1.xprop
      have ht1 : (cycle X f).1.timeout = true := by rw [cycle_proposed_notimeout hp ht]
      obtain ⟨m, hm, hmid⟩ := emit hq ht1 i1 h1.xconf g
      exact ⟨m, Or.inr hm, hmid⟩
    · obtain ⟨m, hm, hmid⟩ := emit hp ht rfl h.xconf f
      exact ⟨m, Or.inl hm, hmid⟩
  obtain ⟨m, hm, hmid⟩ := key
  have hmem : m ∈ addMsg (addMsg sx (cycle X f).2) (cycle (cycle X f).1 g).2 := by
    rcases hm with hm | hm
    · exact mem_addMsg _ (by rw [hm]; exact List.mem_cons_self)
    · rw [hm]; exact List.mem_cons_self
  have hw : Waiting (process Y m e) := process_latest h2 hmem (hmid.trans i2.symm) e
  obtain ⟨key', e', hc⟩ := cycle_waiting hw f'
  exact ⟨m, hmem, hm, hmid, i2, by rw [hc]; simp only [process_id]⟩

section
variable (env : CryptoEnv) (bodyOf : Init.BodyOf) (payloadOk : Bytes → Bool)

/-- **lost_message_only_delays** (session level): take ANY reachable state of the two sessions — in particular one reached while rotation
    messages were dropped (never delivered), duplicated or reordered.  Then (1) the two sessions are in sync (`session_rotation_sync`: each
    seals with a key the peer holds under the same index), and stay so whatever happens next (every continuation is reachable); (2) the
    abstraction satisfies the invariant, one end is ahead, and for that end `ahead_progress` holds: its next two cycles — by
    `rotation_period` the ticks number `ROTATE_INTERVAL` and `2 * ROTATE_INTERVAL` from now at the latest, which by `refinement` are `cycle`
    steps whose sealed output is the datagram carrying that message — re-send its latest rotation message, and once that is delivered the
    other end's next cycle installs a new key and makes a new proposal.  A loss therefore costs at most two intervals; there is no deadlock. -/
theorem lost_message_only_delays {s : SSys} (h : SReachable env bodyOf payloadOk s) :
    Sync (abs bodyOf s) ∧
    ((Ahead (abs bodyOf s).x (abs bodyOf s).y (abs bodyOf s).sentX (abs bodyOf s).sentY ∧
        ∀ f g e f', ∃ m, ((cycle (abs bodyOf s).x f).2 = some m ∨ (cycle (cycle (abs bodyOf s).x f).1 g).2 = some m) ∧
          m.id = (abs bodyOf s).x.id ∧ (cycle (process (abs bodyOf s).y m e) f').1.id = (abs bodyOf s).y.id + 2) ∨
     (Ahead (abs bodyOf s).y (abs bodyOf s).x (abs bodyOf s).sentY (abs bodyOf s).sentX ∧
        ∀ f g e f', ∃ m, ((cycle (abs bodyOf s).y f).2 = some m ∨ (cycle (cycle (abs bodyOf s).y f).1 g).2 = some m) ∧
          m.id = (abs bodyOf s).y.id ∧ (cycle (process (abs bodyOf s).x m e) f').1.id = (abs bodyOf s).x.id + 2)) := by
  have hg := good_reachable env bodyOf payloadOk h
  refine ⟨inv_sync hg.inv, ?_⟩
  rcases hg.inv with ha | ha
  · left
    refine ⟨ha, fun f g e f' => ?_⟩
    obtain ⟨m, _, h1, h2, _, h3⟩ := ahead_progress ha f g e f'
    exact ⟨m, h1, h2, h3⟩
  · right
    refine ⟨ha, fun f g e f' => ?_⟩
    obtain ⟨m, _, h1, h2, _, h3⟩ := ahead_progress ha f g e f'
    exact ⟨m, h1, h2, h3⟩

end

section
variable (env : CryptoEnv) (bodyOf : Init.BodyOf) (payloadOk : Bytes → Bool)

/-- … and the same for the panic check that precedes it (`derive_key(..).unwrap()`, `PeerCrypto.rotatePanics`) -/
theorem rotatePanics_tail_irrelevant (pc : PeerCrypto) (body t : Bytes) (m : RotMsg) (h : readRotMsg body = some m) :
    PeerCrypto.rotatePanics pc (body ++ t) = PeerCrypto.rotatePanics pc body := by
  unfold PeerCrypto.rotatePanics
  rw [C16More.rotmsg_trailing_ignored body t m h, h]

/-- **lockstep_session** (`C07More.lockstep_fresh` lifted to sessions, i.e. to arbitrary randomness): let `s` be reachable and let the
    sessions then run two rounds of the loss-free lock-step schedule — per round: the tick of `x` on which its rotate counter reaches
    `ROTATE_INTERVAL` (a `cycle`, by `rotation_period` / `refinement`), every rotation datagram `x` has emitted is handled by `y` (a `process`
    each, by `refinement`), the same with the roles exchanged; `t`, `u` are the states after the first and the second round, the schedule is
    expressed on the abstractions (`RoundF`, all numbers for new key pairs arbitrary, deliveries in any order and multiplicity).  Then each
    direction's rotation id has advanced: each end has installed a new key and made a new proposal — at least every second interval. -/
theorem lockstep_session {s t u : SSys} (h : SReachable env bodyOf payloadOk s)
    (r1 : RoundF (abs bodyOf s).x (abs bodyOf s).y (abs bodyOf s).sentX (abs bodyOf s).sentY
      (abs bodyOf t).x (abs bodyOf t).y (abs bodyOf t).sentX (abs bodyOf t).sentY)
    (r2 : RoundF (abs bodyOf t).x (abs bodyOf t).y (abs bodyOf t).sentX (abs bodyOf t).sentY
      (abs bodyOf u).x (abs bodyOf u).y (abs bodyOf u).sentX (abs bodyOf u).sentY) :
    (abs bodyOf u).x.id > (abs bodyOf s).x.id ∧ (abs bodyOf u).y.id > (abs bodyOf s).y.id :=
  lockstepF_fresh (good_reachable env bodyOf payloadOk h).invL r1 r2

/-- a sequence of `handle_message` calls of one session on datagrams the peer emitted, each of which is opened as a rotation message
    (`res = .none`): on the abstraction this is `procF` of the carried messages with the public keys drawn — the deliveries of `RoundF` -/
theorem recv_is_process {pc pc' : PeerCrypto} {sd : Side} {c : Core} (h : Sess pc sd c) (d tail : Bytes) (rnd : Rand) (rr : RotRand)
    (hf : rr.freshPend < 2 ^ 256) (hd : d.head? ≠ some Generated.INIT_MESSAGE_FIRST_BYTE) (out : Bytes) (log : Init.SealLog)
    (he : PeerCrypto.handleMessage env bodyOf payloadOk pc d tail rnd rr = .ok pc' out .none log) :
    ∃ m c', rotOf bodyOf d = some m ∧ Sess pc' (procF sd [(m, rr.freshPend)]) c' := by
  have := handleMessage_eff h env bodyOf payloadOk d tail rnd rr hf hd
  rw [he] at this
  obtain ⟨_, _, c', _, hcase⟩ := this
  rcases hcase with ⟨hne, _⟩ | ⟨_, m, hm, hs⟩
  · exact absurd rfl hne
  · exact ⟨m, c', hm, hs⟩

end

/-! ## non-vacuity -/
section NonVacuity
open VpnCloud.Proofs.InitLemmas

/-- the session of the handshake responder (it starts the rotation with public key 5) and the one of the initiator: master key reference 7
    in slot 0 of both cores, opposite halves -/
private def sX : PeerCrypto :=
  { init := none, rot := some (PeerCrypto.initSide true 5), core := some (Core.new 7 true 9 [1, 2, 3, 4]), master := 7 }
private def sY : PeerCrypto :=
  { init := none, rot := some (PeerCrypto.initSide false 0), core := some (Core.new 7 false 8 [0, 0, 0, 0]), master := 7 }
private def plain0 : Bytes := Generated.MESSAGE_TYPE_ROTATION :: writeRotMsg (PeerCrypto.rotMsgToBytes ⟨1, 5, none⟩)
/-- the first rotation datagram of `sX`: slot 0, counter `HALF + 2`, ciphertext bytes `[1, 2, 3]` -/
private def d0 : Bytes := 0 :: Bytes.ofBE 7 (HALF + 2) ++ [1, 2, 3]
/-- ideal AEAD view: the ciphertext `[1, 2, 3]` is the seal of that rotation message, everything else is garbage -/
private def bodyT : Init.BodyOf := fun ct => if ct = [1, 2, 3] then .sealed 7 (HALF + 2) plain0 else .garbage 0
private def s0 : SSys := ⟨sX, sY, [d0], []⟩
private def okT : Bytes → Bool := fun _ => true

private theorem sessX : Sess sX (PeerCrypto.initSide true 5) (Core.new 7 true 9 [1, 2, 3, 4]) :=
  sess_initSide true 5 (by decide) rfl rfl rfl rfl rfl rfl
private theorem sessY : Sess sY (PeerCrypto.initSide false 0) (Core.new 7 false 8 [0, 0, 0, 0]) :=
  sess_initSide false 0 (by decide) rfl rfl rfl rfl rfl rfl

/-- the hypotheses of `InitPair` (hence of `SReachable.init`, `session_rotation_sync`, …) are satisfiable -/
private theorem initPair0 : InitPair bodyT s0 := by
  refine ⟨⟨5, _, _, by decide, sessX, sessY, rfl, by decide +kernel⟩, rfl, ?_, rfl⟩
  intro d hd
  simp only [s0, List.mem_singleton] at hd
  subst hd
  decide

/-- … and so are those of the steps: `sY` receives `d0`, opens it as the rotation message and stores its reply — a reachable state that is
    not an initial one (the abstraction's `y` now has a pending key) -/
example : ∃ t, SReachable Toy.env bodyT okT t ∧ (abs bodyT t).y.pending.isSome = true ∧ (abs bodyT s0).y.pending.isSome = false := by
  have hev : (match PeerCrypto.handleMessage Toy.env bodyT okT sY d0 [] {} { freshPend := 6 } with
      | .ok pc' _ _ _ => (sideOf pc').pending.isSome
      | _ => false) = true := by decide +kernel
  cases hr : PeerCrypto.handleMessage Toy.env bodyT okT sY d0 [] {} { freshPend := 6 } with
  | ok pc' out res log =>
    rw [hr] at hev
    refine ⟨{ s0 with y := pc', sentY := [] }, SReachable.step (SReachable.init initPair0)
      (SStep.y s0 pc' [] (Op.recv d0 (List.mem_singleton.2 rfl) [] {} { freshPend := 6 } (by decide) pc' out res log hr)), hev, rfl⟩
  | err _ _ => rw [hr] at hev; cases hev
  | panic => rw [hr] at hev; cases hev

/-- the hypotheses of `rotation_period` / `quiet_ticks` hold of `sX` -/
example : Sess sX (PeerCrypto.initSide true 5) (Core.new 7 true 9 [1, 2, 3, 4]) ∧ Quiet sX ∧ sX.rotateCounter = 0 :=
  ⟨sessX, (fun _ h => by cases h), rfl⟩

/-- by evaluation: 240 ticks of `sX` (nothing is delivered): 119 silent ticks, tick 120 is the cycle that only arms the timeout, 119
    silent ticks, tick 240 re-sends the first rotation message (8 header bytes + 1 ciphertext byte) -/
example : (ticks (List.replicate 240 { freshProp := 9, ct := [4] }) sX).map (fun p => p.2.map List.length) =
    some (List.replicate 239 0 ++ [9]) := by decide +kernel

/-- test used below: the handshake step succeeded in the given role with a core of four slots that seals with slot 0 -/
private def chk (ini : Bool) : Outcome (Bytes × InitResult × Init.SealLog) → Bool
  | .ok ist' (_, .success _ i, _) =>
    i == ini && (match ist'.crypto with | some c0 => c0.slots.length == 4 && c0.cur == 0 | none => false)
  | _ => false

private theorem chk_elim {ini : Bool} {o : Outcome (Bytes × InitResult × Init.SealLog)} (h : chk ini o = true) :
    ∃ ist' out payload ilog c0, o = .ok ist' (out, .success payload ini, ilog) ∧ ist'.crypto = some c0 ∧ c0.slots.length = 4 ∧ c0.cur = 0 := by
  cases o with
  | ok ist' r =>
    obtain ⟨out, res, ilog⟩ := r
    cases res with
    | «continue» => simp [chk] at h
    | success payload i =>
      cases hc : ist'.crypto with
      | none => simp [chk, hc] at h
      | some c0 =>
        simp only [chk, hc, Bool.and_eq_true, beq_iff_eq] at h
        obtain ⟨rfl, h1, h2⟩ := h
        exact ⟨ist', out, payload, ilog, c0, rfl, hc, h1, h2⟩
  | err _ _ => simp [chk] at h
  | panic => simp [chk] at h

/-- the hypotheses of `completion_initiator` hold for the toy initiator `Toy.st` receiving the pong of its trusted peer -/
example : ∃ pc2 bytes payload ilog c0,
    PeerCrypto.handleInitMessage Toy.env (Toy.body (masterKey .aes128 [5] [6])) okT { init := some Toy.st } (Toy.pong Toy.algos 0) Toy.rnd {} =
      .ok pc2 bytes (.initializedWithReply payload) ilog ∧ Sess pc2 (PeerCrypto.initSide false 0) c0 := by
  have hev : chk true (Init.handleInit Toy.env (Toy.body (masterKey .aes128 [5] [6])) okT Toy.st (Toy.pong Toy.algos 0) Toy.rnd) = true := by
    decide +kernel
  obtain ⟨ist', out, payload, ilog, c0, hr, hc, h1, h2⟩ := chk_elim hev
  obtain ⟨pc2, bytes, e, hs, _⟩ := completion_initiator Toy.env (Toy.body (masterKey .aes128 [5] [6])) okT { init := some Toy.st } Toy.st ist'
    (Toy.pong Toy.algos 0) out payload ilog Toy.rnd {} c0 rfl hr hc h1 h2
  exact ⟨pc2, bytes, payload, ilog, c0, e, hs⟩

/-- a toy responder that has sent its pong (core with key 77) and the peng of its trusted peer -/
private def stR : InitSt := { Toy.st with stage := Generated.STAGE_PENG, ecdh := none, crypto := some (Core.new 77 false 1 [0, 0, 0, 0]) }
private def peng : Bytes := InitMsg.writeTo (.peng (List.replicate 20 2) (Toy.pl 0)) [0, 0, 0, 1] [9, 9, 9, 9] [9, 9, 0, 0]

/-- the hypotheses of `completion_responder` hold for it: the handshake completes, the session is established with rotation state
    `initSide true 5`, and the reply carries the first rotation message -/
example : ∃ pc2 c' bytes payload log,
    PeerCrypto.handleInitMessage Toy.env (Toy.body 77) okT { init := some stR } peng Toy.rnd { freshProp := 5, ct := [1, 2, 3] } =
      .ok pc2 bytes (.initializedWithReply payload) log ∧ Sess pc2 (PeerCrypto.initSide true 5) c' := by
  have hev : chk false (Init.handleInit Toy.env (Toy.body 77) okT stR peng Toy.rnd) = true := by decide +kernel
  obtain ⟨ist', out, payload, ilog, c0, hr, hc, h1, h2⟩ := chk_elim hev
  obtain ⟨pc2, c', bytes, log, e, hs, _⟩ := completion_responder Toy.env (Toy.body 77) okT { init := some stR } stR ist' peng out payload ilog
    Toy.rnd { freshProp := 5, ct := [1, 2, 3] } c0 rfl hr hc h1 h2 (by decide)
  exact ⟨pc2, c', bytes, payload, _, e, hs⟩

/-- WITNESS: "the key slots of the core are the slots of the rotation state" is false for the unused slots — the rotation state of the model
    names the throw-away key of slot 1 `.dummy 0 1` at BOTH ends (reference 3), the cores hold their own throw-away references (9 and 8);
    hence the restriction of `Cpl.keys` / `core_slots_are_rot_slots` to slots with agreed key material (`NonDummy`).  Harmless: a session
    never seals with such a slot (`SideOK.curnd`). -/
example : (keysOf (Core.new 7 true 9 [1, 2, 3, 4]))[1]? = some 9 ∧ (keysOf (Core.new 7 false 8 [0, 0, 0, 0]))[1]? = some 8 ∧
    PeerCrypto.keyRefOf 7 ((PeerCrypto.initSide true 5).slots 1) = 3 ∧ PeerCrypto.keyRefOf 7 ((PeerCrypto.initSide false 0).slots 1) = 3 := by
  decide

/-- WITNESS: the bounds in `Op.tick` / `SideOK` are needed — a public-key number that does not fit 32 bytes, or an id that does not fit a
    `u64`, is not read back from the wire -/
example : (readRotMsg (writeRotMsg (PeerCrypto.rotMsgToBytes ⟨1, 2 ^ 256, none⟩))).map PeerCrypto.rotMsgOfBytes = some ⟨1, 0, none⟩ ∧
    (readRotMsg (writeRotMsg (PeerCrypto.rotMsgToBytes ⟨2 ^ 64 + 3, 5, none⟩))).map PeerCrypto.rotMsgOfBytes = some ⟨3, 5, none⟩ := by
  decide +kernel

end NonVacuity

end VpnCloud.Proofs.C07Session
