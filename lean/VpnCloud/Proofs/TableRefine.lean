import VpnCloud.Proofs.Lemmas.TableRefineSpec
import VpnCloud.Proofs.Lemmas.TableRefineLemmas
import VpnCloud.Proofs.C12
/-
  C11 / C12 / C13 over whole histories: the model of `ClaimTable` (src/table.rs) refines the abstract
  routing state of `Lemmas/TableRefineSpec.lean` (`Abs`, `Abs.step`) for EVERY sequence of timed
  operations, and what follows from that for histories.
-/
namespace VpnCloud.Proofs.TableRefine
open VpnCloud VpnCloud.Table VpnCloud.Spec.TableSpec VpnCloud.Proofs.TableLemmas

/-! ## 1. What "live" means in the code -/

/-- a table with an expired claim of peer 2 (expiry 50) below a live claim of peer 1, and an expired
    cached decision -/
def staleTable : Table :=
  { cacheTimeout := 300, claimTimeout := 1800
    claims := [⟨1, ⟨[10, 0, 0, 0], 8⟩, 2000⟩, ⟨2, ⟨[10, 2, 0, 0], 16⟩, 50⟩]
    cache := [⟨[10, 9, 9, 9], 2, 60⟩] }

/-- **expired_claim_still_routes**: `lookup` does not look at the clock.  At time 100 the claim of peer 2
    that expired at 50 is still used for routing (and the decision is cached with the expiry 50, which is in
    the past); only after a sweep the packet goes to peer 1.  So "live" in C11 means "not removed by a sweep
    yet". -/
theorem expired_claim_still_routes :
    (staleTable.lookup 100 [10, 2, 0, 9]).2 = some 2 ∧
    (staleTable.lookup 100 [10, 2, 0, 9]).1.cache.head? = some ⟨[10, 2, 0, 9], 2, 50⟩ ∧
    ((staleTable.housekeep 100).lookup 100 [10, 2, 0, 9]).2 = some 1 := by
  decide

/-- **expired_cache_still_used**: the same for cached / learned entries: the decision for 10.9.9.9 expired
    at 60 and is returned at time 100; after a sweep the claims decide. -/
theorem expired_cache_still_used :
    (staleTable.lookup 100 [10, 9, 9, 9]).2 = some 2 ∧
    ((staleTable.housekeep 100).lookup 100 [10, 9, 9, 9]).2 = some 1 := by
  decide

/-! ## 2. Refinement -/

/-- **table_refines**: for every list of timed operations with positive times, running the model
    (`set_claims`, `remove_claims`, `cache`, `lookup`, `housekeep`) and running the abstract step function
    from related states gives the same answers to all lookups and ends in related states.  (The times need
    not even be ordered.) -/
theorem table_refines {t : Table} {s : Abs} (h : Rel t s) (ops : List (Int × TOp))
    (hpos : ∀ o ∈ ops, 0 < o.1) :
    (runT t ops).2 = (s.run ops).2 ∧ Rel (runT t ops).1 (s.run ops).1 := by
  induction ops generalizing t s with
  | nil => exact ⟨rfl, h⟩
  | cons o ops ih =>
    rcases o with ⟨now, op⟩
    have h1 := step_refines h now (hpos _ List.mem_cons_self) op
    have h2 := ih h1.2 (fun o ho => hpos o (List.mem_cons_of_mem _ ho))
    simp only [runT, Abs.run]
    exact ⟨by rw [h1.1, h2.1], h2.2⟩

/-- the same from the abstraction of the start table -/
theorem table_refines_abs (t : Table) (ops : List (Int × TOp)) (hpos : ∀ o ∈ ops, 0 < o.1) :
    (runT t ops).2 = ((abs t).run ops).2 ∧ Rel (runT t ops).1 ((abs t).run ops).1 :=
  table_refines (Rel.abs t) ops hpos

/-- `0 < now` is needed: at time 0 the deletion mark `0` is not in the past, `remove_claims` removes
    nothing, and the removed peer is still selected -/
theorem refinement_fails_at_zero :
    (runT exTable [(0, .disconnect 1), (0, .lookup [10, 5, 0, 1])]).2 = [none, some 1] ∧
    ((abs exTable).run [(0, .disconnect 1), (0, .lookup [10, 5, 0, 1])]).2 = [none, none] := by
  decide

/-- why claim lists are compared up to `CEq` and not by `=`: `set_claims` appends the new ranges in the order
    left by `swap_remove` (here `C, B`), the abstract step in the announced order (`B, C`).  The two blocks have
    the same peer and expiry, so no lookup can tell them apart (`best_ceq`). -/
theorem swap_remove_order_differs :
    let t : Table := { cacheTimeout := 300, claimTimeout := 1800, claims := [⟨1, ⟨[10, 0, 0, 0], 8⟩, 500⟩] }
    let cs : List Range := [⟨[10, 0, 0, 0], 8⟩, ⟨[10, 1, 0, 0], 16⟩, ⟨[10, 2, 0, 0], 16⟩]
    ((t.setClaims 100 1 cs).claims.map (fun e => e.claim) =
      [⟨[10, 0, 0, 0], 8⟩, ⟨[10, 2, 0, 0], 16⟩, ⟨[10, 1, 0, 0], 16⟩]) ∧
    ((((abs t).step 100 (.announce 1 cs)).1.claims.map (fun e => e.claim)) =
      [⟨[10, 0, 0, 0], 8⟩, ⟨[10, 1, 0, 0], 16⟩, ⟨[10, 2, 0, 0], 16⟩]) := by
  decide

/-- why ranges are counted with multiplicity: peer 2 announces the same range twice, then once.  The second
    entry is "dropped", and with it everything learned from peer 2 — although the set of its ranges did not
    change.  The abstract step says the same. -/
theorem duplicate_announce_flushes :
    let ops : List (Int × TOp) :=
      [(10, .announce 1 [⟨[10, 0, 0, 0], 8⟩]), (20, .announce 2 [⟨[10, 1, 0, 0], 16⟩, ⟨[10, 1, 0, 0], 16⟩]),
       (30, .learn [10, 7, 7, 7] 2), (40, .lookup [10, 7, 7, 7]), (50, .announce 2 [⟨[10, 1, 0, 0], 16⟩]),
       (60, .lookup [10, 7, 7, 7])]
    (runT { cacheTimeout := 300, claimTimeout := 1800 } ops).2 = [none, none, none, some 2, none, some 1] ∧
    ((abs { cacheTimeout := 300, claimTimeout := 1800 }).run ops).2 = [none, none, none, some 2, none, some 1] := by
  decide

/-! ### a concrete history -/

def r8 : Range := ⟨[10, 0, 0, 0], 8⟩
def r16 : Range := ⟨[10, 1, 0, 0], 16⟩
def r24 : Range := ⟨[10, 1, 2, 0], 24⟩

/-- two peers, nested ranges, ten operations -/
def exHistory : List (Int × TOp) :=
  [(10, .announce 1 [r8, r24]), (20, .announce 2 [r16]), (30, .lookup [10, 1, 2, 3]),
   (40, .lookup [10, 1, 9, 9]), (50, .learn [10, 7, 7, 7] 2), (60, .announce 1 [r8]),
   (70, .lookup [10, 1, 2, 3]), (80, .lookup [10, 7, 7, 7]), (90, .disconnect 2),
   (100, .lookup [10, 1, 9, 9]), (2000, .sweep), (2001, .lookup [10, 1, 9, 9])]

def exStart : Table := { cacheTimeout := 300, claimTimeout := 1800 }

/-- both sides evaluated: the /24 of peer 1 wins, then the /16 of peer 2; after peer 1 withdraws the /24 its
    cached decision is flushed and the /16 of peer 2 decides; after peer 2 left, the /8 of peer 1; after the
    claims expired, nothing -/
example : (∀ o ∈ exHistory, 0 < o.1) ∧
    (runT exStart exHistory).2 =
      [none, none, some 1, some 2, none, none, some 2, some 2, none, some 1, none, none] ∧
    ((abs exStart).run exHistory).2 =
      [none, none, some 1, some 2, none, none, some 2, some 2, none, some 1, none, none] ∧
    (runT exStart exHistory).1.claims = [] ∧ ((abs exStart).run exHistory).1.claims = [] := by
  decide

/-! ## 3. Corollaries over histories -/

/-- operations that end with a sweep of the expired entries -/
def sweeps : TOp → Bool
  | .announce _ _ => true
  | .disconnect _ => true
  | .sweep => true
  | _ => false

/-- operations that can make `p` a next hop (again): an announcement of `p`, a frame learned from `p` -/
def reintroduces (p : PeerId) : TOp → Bool
  | .announce q _ => q = p
  | .learn _ q => q = p
  | _ => false

/-! ### C12: a removed peer is unreachable -/

/-- nothing in the abstract state points to `p` -/
def NoP (p : PeerId) (s : Abs) : Prop :=
  (∀ e ∈ s.claims, e.peer ≠ p) ∧ (∀ v ∈ s.learned, v.peer ≠ p)

theorem abs_disconnect_noP (s : Abs) (now : Int) (p : PeerId) : NoP p (s.step now (.disconnect p)).1 := by
  constructor
  · intro e he
    simp only [Abs.step, Abs.sweep, List.mem_filter, decide_eq_true_eq] at he
    exact he.1.2
  · intro v hv
    simp only [Abs.step, Abs.sweep, List.mem_filter, decide_eq_true_eq] at hv
    exact hv.1.2

theorem abs_step_noP {s : Abs} {p : PeerId} (h : NoP p s) (now : Int) (op : TOp)
    (hop : reintroduces p op = false) :
    NoP p (s.step now op).1 ∧ (s.step now op).2 ≠ some p := by
  cases op with
  | announce q cs =>
    have hq : q ≠ p := by simpa [reintroduces] using hop
    refine ⟨⟨?_, ?_⟩, by simp [Abs.step]⟩
    · intro e he
      rcases (abs_announce_claims_mem s now q cs e he).2 with ⟨h1, _⟩ | ⟨h1, _⟩
      · exact h.1 e h1
      · rw [h1]; exact hq
    · intro v hv
      exact h.2 v (abs_announce_learned_mem s now q cs v hv).1
  | disconnect q =>
    refine ⟨⟨?_, ?_⟩, by simp [Abs.step]⟩
    · intro e he
      simp only [Abs.step, Abs.sweep, List.mem_filter] at he
      exact h.1 e he.1.1
    · intro v hv
      simp only [Abs.step, Abs.sweep, List.mem_filter] at hv
      exact h.2 v hv.1.1
  | learn a q =>
    have hq : q ≠ p := by simpa [reintroduces] using hop
    refine ⟨⟨h.1, ?_⟩, by simp [Abs.step]⟩
    intro v hv
    simp only [Abs.step, List.mem_cons, List.mem_filter] at hv
    rcases hv with rfl | hv
    · exact hq
    · exact h.2 v hv.1
  | sweep =>
    refine ⟨⟨?_, ?_⟩, by simp [Abs.step]⟩
    · intro e he
      simp only [Abs.step, Abs.sweep, List.mem_filter] at he
      exact h.1 e he.1
    · intro v hv
      simp only [Abs.step, Abs.sweep, List.mem_filter] at hv
      exact h.2 v hv.1
  | lookup a =>
    cases hc : s.learned.find? (fun v => v.addr = a) with
    | some v =>
      rw [abs_lookup_hit s now a v hc]
      refine ⟨h, ?_⟩
      intro he
      exact h.2 v (List.mem_of_find?_eq_some hc) (Option.some.inj he)
    | none =>
      cases hb : best a s.claims with
      | none =>
        rw [abs_lookup_none s now a hc hb]
        exact ⟨h, by simp⟩
      | some e =>
        rw [abs_lookup_some s now a e hc hb]
        have hep : e.peer ≠ p := h.1 e (best_mem hb).1
        refine ⟨⟨h.1, ?_⟩, fun he => hep (Option.some.inj he)⟩
        intro v hv
        rcases List.mem_cons.1 hv with rfl | hv
        · exact hep
        · exact h.2 v hv

theorem abs_run_noP {s : Abs} {p : PeerId} (h : NoP p s) (ops : List (Int × TOp))
    (hops : ∀ o ∈ ops, reintroduces p o.2 = false) :
    NoP p (s.run ops).1 ∧ ∀ r ∈ (s.run ops).2, r ≠ some p := by
  induction ops generalizing s with
  | nil => exact ⟨h, by simp [Abs.run]⟩
  | cons o ops ih =>
    rcases o with ⟨now, op⟩
    have h1 := abs_step_noP h now op (hops _ List.mem_cons_self)
    have h2 := ih h1.1 (fun o ho => hops o (List.mem_cons_of_mem _ ho))
    simp only [Abs.run]
    refine ⟨h2.1, ?_⟩
    intro r hr
    rcases List.mem_cons.1 hr with rfl | hr
    · exact h1.2
    · exact h2.2 r hr

/-- **disconnected_peer_unreachable** (C12): after peer `p` was removed from ANY table (so: after any
    history) at a positive time, and as long as `p` does not announce itself again and no frame is learned from
    it, no lookup returns `p`, and no claim and no learned / cached entry points to `p` — whatever else happens
    (announcements and removals of other peers, learning, lookups, sweeps, in any order and at any positive
    times). -/
theorem disconnected_peer_unreachable (t : Table) (now : Int) (hnow : 0 < now) (p : PeerId)
    (post : List (Int × TOp)) (hpos : ∀ o ∈ post, 0 < o.1)
    (hpost : ∀ o ∈ post, reintroduces p o.2 = false) :
    (∀ r ∈ (runT (t.removeClaims now p) post).2, r ≠ some p) ∧
    (∀ e ∈ (runT (t.removeClaims now p) post).1.claims, e.peer ≠ p) ∧
    (∀ v ∈ (runT (t.removeClaims now p) post).1.cache, v.peer ≠ p) := by
  have h0 : Rel (t.removeClaims now p) ((abs t).step now (.disconnect p)).1 :=
    step_disconnect (Rel.abs t) now hnow p
  have href := table_refines h0 post hpos
  have hno := abs_run_noP (abs_disconnect_noP (abs t) now p) post hpost
  refine ⟨?_, ?_, ?_⟩
  · rw [href.1]; exact hno.2
  · intro e he
    exact hno.1.1 e ((href.2.claims.mem_iff e).1 he)
  · intro v hv
    exact hno.1.2 v (href.2.learned ▸ hv)

/-- the removal inside a history: the answers of the whole history are those before, `none` for the removal,
    and those of `disconnected_peer_unreachable` -/
theorem history_split (t : Table) (pre post : List (Int × TOp)) (now : Int) (p : PeerId) :
    (runT t (pre ++ (now, .disconnect p) :: post)).2 =
      (runT t pre).2 ++ none :: (runT ((runT t pre).1.removeClaims now p) post).2 := by
  rw [runT_append]
  rfl

/-- non-vacuity: peer 2 is removed at time 90 of `exHistory`; the operations behind do not reintroduce it -/
example : (∀ o ∈ exHistory.drop 9, 0 < o.1 ∧ reintroduces 2 o.2 = false) ∧
    exHistory = exHistory.take 8 ++ (90, .disconnect 2) :: exHistory.drop 9 := by
  decide

/-! ### C12: the claims of a peer are those of its last announcement -/

/-- operations that replace or remove the claims of `p` -/
def retouches (p : PeerId) : TOp → Bool
  | .announce q _ => q = p
  | .disconnect q => q = p
  | _ => false

/-- the entries of `p` in the abstract state -/
def pclaims (p : PeerId) (s : Abs) : List ClaimEntry := s.claims.filter (fun e => e.peer = p)

theorem abs_step_pclaims (s : Abs) (p : PeerId) (now : Int) (op : TOp) (hop : retouches p op = false) :
    pclaims p (s.step now op).1 =
      (pclaims p s).filter (fun e => !sweeps op || decide (e.timeout ≥ now)) := by
  cases op with
  | announce q cs =>
    have hq : p ≠ q := by
      have : ¬ q = p := by simpa [retouches] using hop
      exact fun h => this h.symm
    simp only [pclaims, Abs.step, Abs.sweep, sweeps, Bool.not_true, Bool.false_or]
    rw [filter_comm, List.filter_append, refresh_filter_other p q hq]
    have : (List.map (fun c => ({ peer := q, claim := c, timeout := now + s.claimTimeout } : ClaimEntry))
        (refresh q (now + s.claimTimeout) s.claims cs).2.1).filter (fun e => e.peer = p) = [] := by
      rw [List.filter_eq_nil_iff]
      intro e he
      rcases List.mem_map.1 he with ⟨c, _, rfl⟩
      simpa using fun h => hq h.symm
    rw [this, List.append_nil]
  | disconnect q =>
    have hq : ¬ q = p := by simpa [retouches] using hop
    simp only [pclaims, Abs.step, Abs.sweep, sweeps, Bool.not_true, Bool.false_or]
    rw [filter_comm]
    congr 1
    rw [filter_comm, List.filter_eq_self]
    intro e he
    have := (List.mem_filter.1 he).2
    simp only [decide_eq_true_eq] at this
    simpa [this] using fun h => hq h.symm
  | learn a q => simp [pclaims, Abs.step, sweeps]
  | sweep =>
    simp only [pclaims, Abs.step, Abs.sweep, sweeps, Bool.not_true, Bool.false_or]
    rw [filter_comm]
  | lookup a =>
    have : (s.step now (.lookup a)).1.claims = s.claims := by
      simp only [Abs.step]
      split
      · rfl
      · split <;> rfl
    simp [pclaims, this, sweeps]

theorem abs_run_pclaims (s : Abs) (p : PeerId) (post : List (Int × TOp))
    (hpost : ∀ o ∈ post, retouches p o.2 = false) :
    pclaims p (s.run post).1 =
      (pclaims p s).filter (fun e => post.all (fun o => !sweeps o.2 || decide (e.timeout ≥ o.1))) := by
  induction post generalizing s with
  | nil =>
    simp only [Abs.run, List.all_nil]
    exact (List.filter_eq_self.2 (fun _ _ => rfl)).symm
  | cons o post ih =>
    rcases o with ⟨now, op⟩
    simp only [Abs.run]
    rw [ih _ (fun o ho => hpost o (List.mem_cons_of_mem _ ho)),
      abs_step_pclaims s p now op (hpost _ List.mem_cons_self), List.filter_filter]
    congr 1
    funext e
    simp only [List.all_cons]
    exact Bool.and_comm _ _

/-- **claims_are_last_announcement** (C12): take ANY table (any history before), let `p` announce `cs` at a
    positive time `now`, and let anything happen afterwards except a new announcement or the removal of `p`.
    Then the ranges attributed to `p` are exactly those of that announcement — all of them as long as no sweep
    came later than their expiry `now + claimTimeout`, none of them afterwards — and every entry of `p` carries
    that expiry.  (A sweep is part of `housekeep`, `set_claims` and `remove_claims`.) -/
theorem claims_are_last_announcement (t : Table) (now : Int) (hnow : 0 < now) (p : PeerId) (cs : List Range)
    (post : List (Int × TOp)) (hpos : ∀ o ∈ post, 0 < o.1)
    (hpost : ∀ o ∈ post, retouches p o.2 = false) :
    (∀ r, r ∈ claimsOf (runT (t.setClaims now p cs) post).1 p ↔
      r ∈ cs ∧ ∀ o ∈ post, sweeps o.2 = true → o.1 ≤ now + t.claimTimeout) ∧
    (∀ e ∈ (runT (t.setClaims now p cs) post).1.claims, e.peer = p → e.timeout = now + t.claimTimeout) := by
  have href := table_refines (Rel.abs (t.setClaims now p cs)) post hpos
  have hcl := abs_run_pclaims (abs (t.setClaims now p cs)) p post hpost
  -- entries of `p` in the final table, in terms of the table after the announcement
  have key : ∀ e, (e ∈ (runT (t.setClaims now p cs) post).1.claims ∧ e.peer = p) ↔
      (e ∈ (t.setClaims now p cs).claims ∧ e.peer = p) ∧
        ∀ o ∈ post, sweeps o.2 = true → o.1 ≤ e.timeout := by
    intro e
    rw [href.2.claims.mem_iff e]
    have : (e ∈ ((abs (t.setClaims now p cs)).run post).1.claims ∧ e.peer = p) ↔
        e ∈ pclaims p ((abs (t.setClaims now p cs)).run post).1 := by
      simp [pclaims]
    rw [this, hcl]
    simp only [pclaims, abs, List.mem_filter, decide_eq_true_eq, List.all_eq_true, Bool.or_eq_true,
      Bool.not_eq_true', ge_iff_le]
    constructor
    · rintro ⟨h1, h2⟩
      refine ⟨h1, fun o ho hs => ?_⟩
      rcases h2 o ho with h | h
      · rw [hs] at h; cases h
      · exact h
    · rintro ⟨h1, h2⟩
      refine ⟨h1, fun o ho => ?_⟩
      cases hs : sweeps o.2 with
      | false => exact Or.inl rfl
      | true => exact Or.inr (h2 o ho hs)
  constructor
  · intro r
    simp only [claimsOf, List.mem_map, List.mem_filter, decide_eq_true_eq]
    constructor
    · rintro ⟨e, he, rfl⟩
      have := (key e).1 he
      have hm := C12.setClaims_mem_peer t now p cs hnow e this.1.1 this.1.2
      exact ⟨hm.2, fun o ho hs => hm.1 ▸ this.2 o ho hs⟩
    · rintro ⟨hr, hs⟩
      rcases C12.setClaims_cover t now p cs r hr with ⟨e, he, hp, hc⟩
      have hm := C12.setClaims_mem_peer t now p cs hnow e he hp
      exact ⟨e, (key e).2 ⟨⟨he, hp⟩, fun o ho h => hm.1 ▸ hs o ho h⟩, hc⟩
  · intro e he hp
    have := (key e).1 ⟨he, hp⟩
    exact (C12.setClaims_mem_peer t now p cs hnow e this.1.1 this.1.2).1

/-- non-vacuity: in `exHistory` peer 1 announces `[r8]` at time 60 and is not touched afterwards; the sweeps
    at 90 (removal of peer 2) and 2000 follow: at the end (2000 > 60 + 1800) nothing is attributed to it, after
    the first four of the later operations (last sweep at 90) exactly `r8` -/
example : (∀ o ∈ exHistory.drop 6, 0 < o.1 ∧ retouches 1 o.2 = false) ∧
    claimsOf (runT ((runT exStart (exHistory.take 5)).1.setClaims 60 1 [r8]) (exHistory.drop 6)).1 1 = [] ∧
    claimsOf (runT ((runT exStart (exHistory.take 5)).1.setClaims 60 1 [r8])
      ((exHistory.drop 6).take 4)).1 1 = [r8] := by
  decide

/-! ### C11: routing follows the most specific claim that survived the last sweep -/

/-- what `best` selects: a claim containing the address, at least as long as every claim containing it, and
    strictly longer than every claim containing the address that stands before it in the table -/
theorem best_some {a : Addr} {cl : List ClaimEntry} {e : ClaimEntry} (h : best a cl = some e) :
    e ∈ cl ∧ e.claim.matches a = true ∧
    (∀ e' ∈ cl, e'.claim.matches a = true → e'.claim.prefixLen ≤ e.claim.prefixLen) ∧
    ∃ before after, cl.filter (fun e => e.claim.matches a) = before ++ e :: after ∧
      ∀ e' ∈ before, e'.claim.prefixLen < e.claim.prefixLen := by
  have hm := best_mem h
  unfold best at h
  rcases List.find?_eq_some_iff_append.1 h with ⟨hP, as, bs, hsplit, has⟩
  simp only [List.all_eq_true, decide_eq_true_eq, List.mem_filter, and_imp] at hP
  refine ⟨hm.1, hm.2, hP, as, bs, hsplit, ?_⟩
  intro e' he'
  have hn := has e' he'
  simp only [Bool.not_eq_eq_eq_not, Bool.not_true, List.all_eq_false, decide_eq_true_eq,
    List.mem_filter] at hn
  rcases hn with ⟨x, ⟨hx1, hx2⟩, hx3⟩
  have := hP x hx1 hx2
  omega

theorem best_none {a : Addr} {cl : List ClaimEntry} :
    best a cl = none ↔ ∀ e ∈ cl, e.claim.matches a = false := by
  unfold best
  constructor
  · intro h e he
    cases hm : e.claim.matches a with
    | false => rfl
    | true =>
      have hne : cl.filter (fun e => e.claim.matches a) ≠ [] :=
        List.ne_nil_of_mem (List.mem_filter.2 ⟨he, hm⟩)
      rcases exists_max _ hne with ⟨m, hm1, hm2⟩
      have := List.find?_eq_none.1 h m hm1
      simp only [List.all_eq_true, decide_eq_true_eq] at this
      exact absurd hm2 this
  · intro h
    have : cl.filter (fun e => e.claim.matches a) = [] := by
      rw [List.filter_eq_nil_iff]
      intro e he
      simp [h e he]
    simp [this]

/-- the time of the last sweep of a history (`cur`: the one before the history, if known) -/
def lastSweep (cur : Option Int) : List (Int × TOp) → Option Int
  | [] => cur
  | o :: os => lastSweep (if sweeps o.2 then some o.1 else cur) os

theorem abs_step_claims_live (s : Abs) (now : Int) (op : TOp) :
    if sweeps op then ∀ e ∈ (s.step now op).1.claims, now ≤ e.timeout
    else (s.step now op).1.claims = s.claims := by
  cases op with
  | announce q cs =>
    simp only [sweeps, if_true]
    intro e he
    exact (abs_announce_claims_mem s now q cs e he).1
  | disconnect q =>
    simp only [sweeps, if_true]
    intro e he
    simp only [Abs.step, Abs.sweep, List.mem_filter, decide_eq_true_eq] at he
    exact he.2
  | learn a q => simp [sweeps, Abs.step]
  | sweep =>
    simp only [sweeps, if_true]
    intro e he
    simp only [Abs.step, Abs.sweep, List.mem_filter, decide_eq_true_eq] at he
    exact he.2
  | lookup a =>
    simp only [sweeps, Bool.false_eq_true, if_false, Abs.step]
    split
    · rfl
    · split <;> rfl

theorem abs_run_claims_live (s : Abs) (cur : Option Int) (ops : List (Int × TOp))
    (h : ∀ u, cur = some u → ∀ e ∈ s.claims, u ≤ e.timeout) :
    ∀ u, lastSweep cur ops = some u → ∀ e ∈ (s.run ops).1.claims, u ≤ e.timeout := by
  induction ops generalizing s cur with
  | nil => exact h
  | cons o ops ih =>
    rcases o with ⟨now, op⟩
    simp only [lastSweep, Abs.run]
    apply ih
    have hs := abs_step_claims_live s now op
    cases hsw : sweeps op with
    | true =>
      simp only [hsw, if_true] at hs ⊢
      intro u hu
      cases hu
      exact hs
    | false =>
      simp only [hsw, Bool.false_eq_true, if_false] at hs ⊢
      rw [hs]
      exact h

/-- **lookup_longest_live_prefix** (C11): after ANY history with positive times, a lookup of an address without
    learned / cached entry returns the peer of `best`: the longest-prefix claim containing the address among the
    claims in the table, the first announced among equally long ones (`best_some`), and `none` iff no claim
    contains the address (`best_none`); and the claims in the table are live in the sense that all of them had
    not expired at the time of the last sweep (`expired_claim_still_routes` shows that this is all one can say). -/
theorem lookup_longest_live_prefix (t : Table) (ops : List (Int × TOp)) (hpos : ∀ o ∈ ops, 0 < o.1)
    (now : Int) (a : Addr)
    (hc : (runT t ops).1.cache.find? (fun v => v.addr = a) = none) :
    ((runT t ops).1.lookup now a).2 = (best a (runT t ops).1.claims).map (fun e => e.peer) ∧
    (((runT t ops).1.lookup now a).2 = none ↔ ∀ e ∈ (runT t ops).1.claims, e.claim.matches a = false) ∧
    (∀ u, lastSweep none ops = some u → ∀ e ∈ (runT t ops).1.claims, u ≤ e.timeout) := by
  have h1 : ((runT t ops).1.lookup now a).2 = (best a (runT t ops).1.claims).map (fun e => e.peer) := by
    cases hb : best a (runT t ops).1.claims with
    | none => rw [t_lookup_none _ now a hc hb]; rfl
    | some e => rw [t_lookup_some _ now a e hc hb]; rfl
  refine ⟨h1, ?_, ?_⟩
  · rw [h1, ← best_none]
    cases best a (runT t ops).1.claims <;> simp
  · intro u hu e he
    have href := table_refines_abs t ops hpos
    exact abs_run_claims_live (abs t) none ops (by simp) u hu e ((href.2.claims.mem_iff e).1 he)

/-- non-vacuity on `exHistory`: after the first two announcements (last sweep at 20) 10.1.2.3 has no cached
    entry, three claims contain it, and the /24 of peer 1 is selected -/
example : (runT exStart (exHistory.take 2)).1.cache.find? (fun v => v.addr = [10, 1, 2, 3]) = none ∧
    lastSweep none (exHistory.take 2) = some 20 ∧
    best [10, 1, 2, 3] (runT exStart (exHistory.take 2)).1.claims = some ⟨1, r24, 1810⟩ ∧
    ((runT exStart (exHistory.take 2)).1.claims.filter (fun e => e.claim.matches [10, 1, 2, 3])).length = 3 := by
  decide

/-! ### C11: a cached decision does not outlive its expiry by more than one sweep, nor its peer -/

/-- every claim and every learned / cached entry has an expiry `≥ u` -/
def Live (u : Int) (s : Abs) : Prop :=
  (∀ e ∈ s.claims, u ≤ e.timeout) ∧ (∀ v ∈ s.learned, u ≤ v.timeout)

theorem abs_step_sweeps_live (s : Abs) (now : Int) (op : TOp) (hs : sweeps op = true) :
    Live now (s.step now op).1 := by
  have hc := abs_step_claims_live s now op
  simp only [hs, if_true] at hc
  refine ⟨hc, ?_⟩
  cases op with
  | announce q cs => exact fun v hv => (abs_announce_learned_mem s now q cs v hv).2
  | disconnect q =>
    intro v hv
    simp only [Abs.step, Abs.sweep, List.mem_filter, decide_eq_true_eq] at hv
    exact hv.2
  | sweep =>
    intro v hv
    simp only [Abs.step, Abs.sweep, List.mem_filter, decide_eq_true_eq] at hv
    exact hv.2
  | learn a q => cases hs
  | lookup a => cases hs

theorem abs_step_live {s : Abs} {u : Int} (h : Live u s) (now : Int) (hu : u ≤ now) (op : TOp) :
    Live u (s.step now op).1 := by
  cases hs : sweeps op with
  | true =>
    have := abs_step_sweeps_live s now op hs
    exact ⟨fun e he => Int.le_trans hu (this.1 e he), fun v hv => Int.le_trans hu (this.2 v hv)⟩
  | false =>
    cases op with
    | announce q cs => cases hs
    | disconnect q => cases hs
    | sweep => cases hs
    | learn a q =>
      refine ⟨h.1, ?_⟩
      intro v hv
      simp only [Abs.step, List.mem_cons, List.mem_filter] at hv
      rcases hv with rfl | hv
      · show u ≤ now + (s.cacheTimeout : Int)
        omega
      · exact h.2 v hv.1
    | lookup a =>
      cases hc : s.learned.find? (fun v => v.addr = a) with
      | some v => rw [abs_lookup_hit s now a v hc]; exact h
      | none =>
        cases hb : best a s.claims with
        | none => rw [abs_lookup_none s now a hc hb]; exact h
        | some e =>
          rw [abs_lookup_some s now a e hc hb]
          refine ⟨h.1, ?_⟩
          intro v hv
          rcases List.mem_cons.1 hv with rfl | hv
          · have := h.1 e (best_mem hb).1
            show u ≤ min (now + (s.cacheTimeout : Int)) e.timeout
            omega
          · exact h.2 v hv

theorem abs_run_live {s : Abs} {u : Int} (h : Live u s) (ops : List (Int × TOp))
    (hge : ∀ o ∈ ops, u ≤ o.1) : Live u (s.run ops).1 := by
  induction ops generalizing s with
  | nil => exact h
  | cons o ops ih =>
    rcases o with ⟨now, op⟩
    simp only [Abs.run]
    exact ih (abs_step_live h now (hge _ List.mem_cons_self) op)
      (fun o ho => hge o (List.mem_cons_of_mem _ ho))

/-- **live_after_sweep**: in any history, once a sweep (`housekeep`, `set_claims`, `remove_claims`) has run at
    time `u`, and as long as the clock does not go back behind `u`, every claim and every learned / cached
    entry of the table has an expiry `≥ u`: nothing that had expired before `u` is left or comes back. -/
theorem live_after_sweep (t : Table) (a1 a2 : List (Int × TOp)) (u : Int) (op : TOp)
    (hs : sweeps op = true) (hp1 : ∀ o ∈ a1, 0 < o.1) (hu : 0 < u) (hge : ∀ o ∈ a2, u ≤ o.1) :
    (∀ e ∈ (runT t (a1 ++ (u, op) :: a2)).1.claims, u ≤ e.timeout) ∧
    (∀ v ∈ (runT t (a1 ++ (u, op) :: a2)).1.cache, u ≤ v.timeout) := by
  have hpos : ∀ o ∈ a1 ++ (u, op) :: a2, 0 < o.1 := by
    intro o ho
    rcases List.mem_append.1 ho with h | h
    · exact hp1 o h
    · rcases List.mem_cons.1 h with rfl | h
      · exact hu
      · exact Int.lt_of_lt_of_le hu (hge o h)
  have href := table_refines_abs t _ hpos
  have hl : Live u ((abs t).run (a1 ++ (u, op) :: a2)).1 := by
    rw [abs_run_append]
    exact abs_run_live (abs_step_sweeps_live _ u op hs) a2 hge
  exact ⟨fun e he => hl.1 e ((href.2.claims.mem_iff e).1 he), fun v hv => hl.2 v (href.2.learned ▸ hv)⟩

/-- **cache_bounded** (C11): a decision for `a` that a lookup at time `now` takes from the claims (no entry for
    `a` before) comes from the most specific claim `e`, and is cached with the expiry
    `exp = min (now + cacheTimeout) (expiry of e)`.  In every later history
    (i) after the first sweep at a time `u > exp` (clock not going back behind `u` afterwards) the cache holds
        only entries with an expiry `> exp`, so that decision is gone: from then on `a` is resolved anew;
    (ii) after the removal of the peer `q`, until `q` announces itself again or a frame is learned from it, no
        cached entry points to `q` and no lookup returns `q`. -/
theorem cache_bounded (t : Table) (now : Int) (a : Addr) (q : PeerId)
    (hc : t.cache.find? (fun v => v.addr = a) = none) (hq : (t.lookup now a).2 = some q) :
    ∃ e exp, best a t.claims = some e ∧ e.peer = q ∧ exp = min (now + t.cacheTimeout) e.timeout ∧
      (t.lookup now a).1.cache = ⟨a, q, exp⟩ :: t.cache ∧
      (∀ (a1 a2 : List (Int × TOp)) (u : Int) (op : TOp), sweeps op = true → exp < u →
        (∀ o ∈ a1, 0 < o.1) → 0 < u → (∀ o ∈ a2, u ≤ o.1) →
        (∀ v ∈ (runT (t.lookup now a).1 (a1 ++ (u, op) :: a2)).1.cache, exp < v.timeout) ∧
        ⟨a, q, exp⟩ ∉ (runT (t.lookup now a).1 (a1 ++ (u, op) :: a2)).1.cache) ∧
      (∀ (a1 a2 : List (Int × TOp)) (u : Int), 0 < u → (∀ o ∈ a2, 0 < o.1) →
        (∀ o ∈ a2, reintroduces q o.2 = false) →
        (∀ v ∈ (runT (t.lookup now a).1 (a1 ++ (u, .disconnect q) :: a2)).1.cache, v.peer ≠ q) ∧
        (∀ r ∈ ((runT (t.lookup now a).1 (a1 ++ (u, .disconnect q) :: a2)).2).drop (a1.length + 1),
          r ≠ some q)) := by
  cases hb : best a t.claims with
  | none => rw [t_lookup_none t now a hc hb] at hq; cases hq
  | some e =>
    have hl := t_lookup_some t now a e hc hb
    have heq : e.peer = q := by rw [hl] at hq; exact Option.some.inj hq
    refine ⟨e, _, rfl, heq, rfl, by rw [hl, heq], ?_, ?_⟩
    · generalize (t.lookup now a).1 = t1
      intro a1 a2 u op hs hlt hp1 hu hge
      have := (live_after_sweep t1 a1 a2 u op hs hp1 hu hge).2
      refine ⟨fun v hv => Int.lt_of_lt_of_le hlt (this v hv), ?_⟩
      intro hmem
      have := this _ hmem
      simp only at this
      omega
    · generalize (t.lookup now a).1 = t1
      intro a1 a2 u hu hp2 hre
      rw [runT_append]
      have := disconnected_peer_unreachable (runT t1 a1).1 u hu q a2 hp2 hre
      refine ⟨this.2.2, ?_⟩
      intro r hr
      apply this.1 r
      have hlen : ∀ (t : Table) (l : List (Int × TOp)), (runT t l).2.length = l.length := by
        intro t l
        induction l generalizing t with
        | nil => rfl
        | cons o l ih => rcases o with ⟨n, op⟩; simp [runT, ih]
      simp only [runT] at hr
      rw [List.drop_append, List.drop_of_length_le (by rw [hlen]; omega)] at hr
      simpa [hlen, stepT] using hr

/-- non-vacuity on `exHistory`: the lookup of 10.1.9.9 at time 40 caches peer 2 until `min 340 1820 = 340`; the
    removal of peer 2 at time 90 flushes it; had peer 2 stayed, the sweep at 2000 would have -/
example : (runT exStart (exHistory.take 3)).1.cache.find? (fun v => v.addr = [10, 1, 9, 9]) = none ∧
    ((runT exStart (exHistory.take 3)).1.lookup 40 [10, 1, 9, 9]).2 = some 2 ∧
    ((runT exStart (exHistory.take 3)).1.lookup 40 [10, 1, 9, 9]).1.cache.head? =
      some ⟨[10, 1, 9, 9], 2, 340⟩ ∧
    (runT exStart (exHistory.take 9)).1.cache.find? (fun v => v.addr = [10, 1, 9, 9]) = none := by
  decide

/-! ### C13: a learned address stays with its peer until one of four things happens -/

/-- the announcement `cs` of `p` drops a claim of `p`: some range is attributed to `p` more often than it is
    announced (in particular: a range attributed to `p` that is not announced at all) -/
def dropsClaim (t : Table) (p : PeerId) (cs : List Range) : Prop :=
  ∃ r, (claimsOf t p).count r > cs.count r

/-- the events that end "`S` is reached via `P`, learned with expiry `exp`": the same source address seen from
    another peer; a sweep later than `exp` (`remove_claims` and `set_claims` of ANY peer sweep as well); the
    removal of `P`; an announcement of `P` that drops one of its claims (the code then flushes everything
    learned from `P`, not only cached decisions) -/
def Breaks (S : Addr) (P : PeerId) (t : Table) (exp now : Int) : TOp → Prop
  | .learn a q => a = S ∧ q ≠ P
  | .sweep => exp < now
  | .disconnect q => q = P ∨ exp < now
  | .announce q cs => exp < now ∨ (q = P ∧ dropsClaim t P cs)
  | .lookup _ => False

/-- a further frame with source `S` from `P` refreshes the expiry -/
def nextExp (S : Addr) (P : PeerId) (t : Table) (exp now : Int) : TOp → Int
  | .learn a q => if a = S ∧ q = P then now + t.cacheTimeout else exp
  | _ => exp

/-- none of the operations is such an event (at the moment it is applied) -/
def NoBreak (S : Addr) (P : PeerId) : Table → Int → List (Int × TOp) → Prop
  | _, _, [] => True
  | t, exp, (now, op) :: os =>
    ¬ Breaks S P t exp now op ∧ NoBreak S P (stepT t now op).1 (nextExp S P t exp now op) os

/-- the table resolves `S` to `P` by an entry with expiry `exp` -/
def HasT (S : Addr) (P : PeerId) (exp : Int) (t : Table) : Prop :=
  ∃ v, t.cache.find? (fun v => v.addr = S) = some v ∧ v.peer = P ∧ v.timeout = exp

theorem stepT_cacheTimeout (t : Table) (now : Int) (op : TOp) :
    (stepT t now op).1.cacheTimeout = t.cacheTimeout := by
  cases op with
  | announce q cs => rfl
  | disconnect q => rfl
  | learn a q => rfl
  | sweep => rfl
  | lookup a =>
    simp only [stepT, lookup]
    split
    · rfl
    · split <;> rfl

theorem step_keeps {S : Addr} {P : PeerId} {t : Table} {exp : Int} (h : HasT S P exp t) (now : Int)
    (hnow : 0 < now) (op : TOp) (hb : ¬ Breaks S P t exp now op) :
    HasT S P (nextExp S P t exp now op) (stepT t now op).1 := by
  rcases h with ⟨v, hv, hvp, hvt⟩
  cases op with
  | learn a q =>
    simp only [Breaks, not_and, Decidable.not_not] at hb
    by_cases ha : a = S
    · have hq := hb ha
      subst ha hq
      refine ⟨⟨a, q, now + t.cacheTimeout⟩, ?_, rfl, by simp [nextExp]⟩
      simp [stepT, learn, cacheInsert]
    · refine ⟨v, ?_, hvp, by simp [nextExp, ha, hvt]⟩
      have hva : v.addr = S := by simpa using List.find?_some hv
      simp only [stepT, learn, cacheInsert]
      rw [List.find?_cons]
      simp only [ha, decide_false]
      exact find?_filter_keep hv (by simpa [hva] using fun h => ha h.symm)
  | sweep =>
    simp only [Breaks, Int.not_lt] at hb
    refine ⟨v, ?_, hvp, hvt⟩
    simp only [stepT, housekeep]
    exact find?_filter_keep hv (by simpa [hvt] using hb)
  | disconnect q =>
    simp only [Breaks, not_or, Int.not_lt] at hb
    refine ⟨v, ?_, hvp, hvt⟩
    simp only [stepT]
    rw [C12.removeClaims_cache t now q hnow]
    refine find?_filter_keep hv ?_
    simp only [hvp, hvt, Bool.and_eq_true, decide_eq_true_eq]
    exact ⟨fun h => hb.1 h.symm, hb.2⟩
  | announce q cs =>
    simp only [Breaks, not_or, Int.not_lt, not_and] at hb
    refine ⟨v, ?_, hvp, hvt⟩
    simp only [stepT]
    rw [C12.setClaims_cache]
    cases hf : (setClaimsLoop q (now + t.claimTimeout) t.claims cs false).2.2 with
    | false =>
      simp only [Bool.false_eq_true, if_false]
      exact find?_filter_keep hv (by simpa [hvt] using hb.1)
    | true =>
      simp only [if_true]
      rw [zero_filter_cache _ _ _ hnow]
      refine find?_filter_keep hv ?_
      simp only [hvp, hvt, Bool.and_eq_true, decide_eq_true_eq]
      refine ⟨?_, hb.1⟩
      intro hPq
      subst hPq
      apply hb.2 rfl
      have hl := (loop_refresh P (now + t.claimTimeout) now hnow t.claims cs cs false
        (List.Perm.refl _)).2.2
      rw [hf, Bool.false_or] at hl
      exact refresh_flag_count P _ _ _ hl.symm
  | lookup a =>
    refine ⟨v, ?_, hvp, hvt⟩
    simp only [stepT]
    cases hc : t.cache.find? (fun v => v.addr = a) with
    | some w => rw [t_lookup_hit t now a w hc]; exact hv
    | none =>
      cases hbst : best a t.claims with
      | none => rw [t_lookup_none t now a hc hbst]; exact hv
      | some e =>
        rw [t_lookup_some t now a e hc hbst]
        have ha : ¬ a = S := by
          intro h
          subst h
          rw [hc] at hv
          cases hv
        simp only [List.find?_cons, ha, decide_false]
        exact hv

theorem run_keeps {S : Addr} {P : PeerId} (post : List (Int × TOp)) :
    ∀ {t : Table} {exp : Int}, HasT S P exp t → (∀ o ∈ post, 0 < o.1) → NoBreak S P t exp post →
      ∃ exp', HasT S P exp' (runT t post).1 := by
  induction post with
  | nil => intro t exp h _ _; exact ⟨exp, h⟩
  | cons o post ih =>
    intro t exp h hpos hnb
    rcases o with ⟨now, op⟩
    simp only [runT]
    exact ih (step_keeps h now (hpos _ List.mem_cons_self) op hnb.1)
      (fun o ho => hpos o (List.mem_cons_of_mem _ ho)) hnb.2

theorem NoBreak_prefix {S : Addr} {P : PeerId} (a b : List (Int × TOp)) :
    ∀ {t : Table} {exp : Int}, NoBreak S P t exp (a ++ b) → NoBreak S P t exp a := by
  induction a with
  | nil => intro t exp _; trivial
  | cons o a ih =>
    intro t exp h
    rcases o with ⟨now, op⟩
    exact ⟨h.1, ih h.2⟩

/-- **learned_until** (C13): a frame with source `S` received from `P` at time `t0` is recorded in ANY table.
    Whatever happens afterwards (positive times), as long as none of the following occurs — `S` is learned from
    another peer; a sweep runs later than the current expiry (`t0 + cacheTimeout`, moved on by every further
    frame with source `S` from `P`); `P` is removed; `P` announces claims and thereby drops one of its own (the
    code then flushes everything learned from `P`) — every lookup of `S`, inside the history and at its end,
    returns `P`. -/
theorem learned_until (t : Table) (t0 : Int) (S : Addr) (P : PeerId) (post : List (Int × TOp))
    (hpos : ∀ o ∈ post, 0 < o.1)
    (h : NoBreak S P (t.learn t0 S P) (t0 + t.cacheTimeout) post) :
    (∀ now, ((runT (t.learn t0 S P) post).1.lookup now S).2 = some P) ∧
    (∀ a b u, post = a ++ (u, .lookup S) :: b →
      (stepT (runT (t.learn t0 S P) a).1 u (.lookup S)).2 = some P) := by
  have h0 : HasT S P (t0 + t.cacheTimeout) (t.learn t0 S P) :=
    ⟨⟨S, P, t0 + t.cacheTimeout⟩, by simp [learn, cacheInsert], rfl, rfl⟩
  constructor
  · intro now
    rcases run_keeps post h0 hpos h with ⟨_, v, hv, hvp, _⟩
    rw [t_lookup_hit _ now S v hv, hvp]
  · intro a b u hsplit
    subst hsplit
    rcases run_keeps a h0 (fun o ho => hpos o (List.mem_append_left _ ho)) (NoBreak_prefix a _ h) with
      ⟨_, v, hv, hvp, _⟩
    simp only [stepT]
    rw [t_lookup_hit _ u S v hv, hvp]

/-- the flush on a dropped claim is real: 10.7.7.7 is learned from peer 2, which then announces a different
    range: the address is forgotten (and resolved from the claims: peer 1) although peer 2 is still connected
    and the entry had not expired -/
theorem announce_drop_flushes_learned :
    ((runT exStart [(10, .announce 1 [r8]), (20, .announce 2 [r16]), (50, .learn [10, 7, 7, 7] 2)]).1.lookup
      60 [10, 7, 7, 7]).2 = some 2 ∧
    ((runT exStart [(10, .announce 1 [r8]), (20, .announce 2 [r16]), (50, .learn [10, 7, 7, 7] 2),
      (55, .announce 2 [r24])]).1.lookup 60 [10, 7, 7, 7]).2 = some 1 := by
  decide

/-- non-vacuity: after the first four operations of `exHistory`, 10.7.7.7 is learned from peer 2 at time 50
    (expiry 350).  Peer 2 re-announces its range (nothing dropped), a lookup, a sweep at 340, a further frame at
    345 (expiry now 645), a sweep at 600: none of these is such an event -/
example : NoBreak [10, 7, 7, 7] 2 ((runT exStart (exHistory.take 4)).1.learn 50 [10, 7, 7, 7] 2) (50 + 300)
    [(60, .announce 2 [r16]), (70, .lookup [10, 7, 7, 7]), (340, .sweep), (345, .learn [10, 7, 7, 7] 2),
     (600, .sweep)] := by
  refine ⟨?_, ?_, ?_, ?_, ?_, trivial⟩
  · rintro (h | ⟨_, r, hr⟩)
    · omega
    · rw [show claimsOf ((runT exStart (exHistory.take 4)).1.learn 50 [10, 7, 7, 7] 2) 2 = [r16] from by
        decide] at hr
      exact absurd hr (Nat.lt_irrefl _)
  · exact fun h => h
  · show ¬ ((50 : Int) + 300 < 340)
    omega
  · rintro ⟨_, h⟩
    exact h rfl
  · show ¬ ((345 : Int) + (300 : Nat) < 600)
    omega

/-! ### the learned / cached entries form a map -/

/-- **learned_is_a_map**: if the cache of the start table has at most one entry per address (as the `HashMap`
    of the code has), so has the table after every history — the "at most one entry per address" of the
    abstract state. -/
theorem learned_is_a_map (t : Table) (ops : List (Int × TOp))
    (h : (t.cache.map (fun v => v.addr)).Nodup) : ((runT t ops).1.cache.map (fun v => v.addr)).Nodup := by
  have hf : ∀ (l : List CacheEntry) (f : CacheEntry → Bool), (l.map (fun v => v.addr)).Nodup →
      ((l.filter f).map (fun v => v.addr)).Nodup :=
    fun l f hl => List.Nodup.sublist (List.Sublist.map _ List.filter_sublist) hl
  have hm : ∀ (l : List CacheEntry) (p : PeerId),
      (l.map (fun v => if v.peer = p then { v with timeout := 0 } else v)).map (fun v => v.addr) =
        l.map (fun v => v.addr) := by
    intro l p
    rw [List.map_map]
    apply List.map_congr_left
    intro v _
    simp only [Function.comp]
    split <;> rfl
  have hins : ∀ (l : List CacheEntry) (x : CacheEntry), (l.map (fun v => v.addr)).Nodup →
      ((cacheInsert l x).map (fun v => v.addr)).Nodup := by
    intro l x hl
    simp only [cacheInsert, List.map_cons, List.nodup_cons]
    refine ⟨?_, hf l _ hl⟩
    simp only [List.mem_map, List.mem_filter, decide_eq_true_eq, not_exists, not_and]
    intro v hv hx
    exact hv.2 hx
  induction ops generalizing t with
  | nil => exact h
  | cons o ops ih =>
    rcases o with ⟨now, op⟩
    simp only [runT]
    apply ih
    cases op with
    | announce p cs =>
      simp only [stepT]
      rw [C12.setClaims_cache]
      apply hf
      split
      · rw [hm]; exact h
      · exact h
    | disconnect p =>
      show (((t.cache.map (fun v => if v.peer = p then { v with timeout := 0 } else v)).filter _).map _).Nodup
      apply hf
      rw [hm]; exact h
    | learn a p => exact hins _ _ h
    | sweep => exact hf _ _ h
    | lookup a =>
      simp only [stepT, lookup]
      split
      · exact h
      · split
        · exact hins _ _ h
        · exact h

end VpnCloud.Proofs.TableRefine
