import VpnCloud.Proofs.Lemmas.C10NetLemmas
/-
  C10 / C02 end to end: "each frame read from an interface is delivered byte-identical and exactly once" over whole traffic
  histories between two nodes.

  1. Session level (`PeerCrypto`): two sessions in sync (`InSync`, `Lemmas/C10NetLemmas.lean`), histories of sends (each delivered at
     once: a loss-free, in-order, non-duplicating link) and housekeeping ticks at either end without a rotation falling due
     (`LOp`, `runL`, `RunOK`): `stream_delivered_exactly_once`.  What a duplicating network would do:
     `duplicate_within_window_accepted`, `duplicate_rejected_after_two_ticks` (via the trace lemmas of `C04Session`).
  2. Node level (`Node`): frames read at A for destinations routed to B: `frames_delivered_exactly_once`.
  3. `no_other_node`: the datagrams go to B only; misdelivered to a third node they never reach its interface.

  Key rotation is kept out by hypothesis (`TickOK`): that the two ends agree on the key of the sending slot at every instant of a
  rotation is `C07Session.session_rotation_sync` / `fresh_payload_opens`.
-/
namespace VpnCloud.Proofs.C10Net

open VpnCloud VpnCloud.Node VpnCloud.Spec.C04 VpnCloud.Spec.C03
open VpnCloud.Proofs.CoreLemmas VpnCloud.Proofs.NodeLemmas VpnCloud.Proofs.NodeLemmas2 VpnCloud.Proofs.NodeInvLemmas
open VpnCloud.Proofs.C10MoreLemmas VpnCloud.Proofs.C10NetLemmas VpnCloud.Proofs.C04Session

/-! ## 1. session level -/

section
variable (env : CryptoEnv) (bodyOf : Init.BodyOf) (ok : Bytes → Bool)

/-- **stream_delivered_exactly_once**: two sessions in sync with room for all the messages of the history; every operation is a send of
    a message of a type other than ROTATION, delivered at once, or a tick at A or B without a rotation falling due (`RunOK`); the
    ideal AEAD views every ciphertext A emitted as what A sealed (`LogOK`).  Then B's session answers the i-th delivered datagram
    with exactly `.message ty body` of the i-th send and nothing to send back — the sequence handed on at B equals the sequence sent
    at A: same bytes, same order, same multiplicity —, A put exactly one datagram per send on the wire, and the sessions are in sync
    again at the end.  For the real nodes: over a loss-free, in-order, non-duplicating link each message given to `send_message` at A
    comes out of `handle_message` at B byte-identical and exactly once, for as long as no rotation intervenes and the 56-bit
    counter lasts. -/
theorem stream_delivered_exactly_once (s : LSt) (room : Nat) (ops : List LOp)
    (hsync : InSync room s.a s.b) (hroom : numSends ops ≤ room)
    (hok : RunOK env bodyOf ok s ops) (hlog : LogOK bodyOf (runL env bodyOf ok s ops).log) :
    (runL env bodyOf ok s ops).got = s.got ++ (sent ops).map (fun m => some (MsgResult.message m.1 m.2, [])) ∧
    (runL env bodyOf ok s ops).wire.length = s.wire.length + numSends ops ∧
    InSync (room - numSends ops) (runL env bodyOf ok s ops).a (runL env bodyOf ok s ops).b :=
  runL_inv env bodyOf ok ops s room hsync hroom hok hlog

/-- the datagram the duplicate theorems below talk about, `wireOf s.a ty body ct`, is the one the send put on the wire -/
theorem wireOf_is_wire {room : Nat} (s : LSt) (hs : InSync (room + 1) s.a s.b) (ty : Nat) (body ct tail : Bytes) (rnd : Rand) (rr : RotRand) :
    (stepL env bodyOf ok s (.send ty body ct tail rnd rr)).wire = s.wire ++ [wireOf s.a ty body ct] := by
  cases hs with
  | enc ca cb hua hub hca hcb hc => simp only [stepL, wireOf, sendMessage_enc hua hca ty body ct]
  | plain hua hub => simp only [stepL, wireOf, sendMessage_plain hua ty body ct]

open VpnCloud.Proofs.C07SessionLemmas in
/-- **stream_delivered_exactly_once_quiet**: the same with hypotheses that can be read off the initial state and the list alone
    (`runOK_of_quiet`): both sessions are quiet (`C07SessionLemmas.Quiet`: the handshake object is gone or only waits to be dropped — the
    state of an established session once the handshake has ended), at each end the rotate counter plus the number of that end's
    ticks in the history stays below `ROTATE_INTERVAL` (= 120 s; or there is no rotation state: unencrypted mode), and every
    message has a type other than ROTATION (and other than 255 on an unencrypted link). -/
theorem stream_delivered_exactly_once_quiet (s : LSt) (room : Nat) (ops : List LOp)
    (hsync : InSync room s.a s.b) (hroom : numSends ops ≤ room) (hqa : Quiet s.a) (hqb : Quiet s.b)
    (hra : s.a.rot = none ∨ s.a.rotateCounter + numTicksA ops < Generated.ROTATE_INTERVAL)
    (hrb : s.b.rot = none ∨ s.b.rotateCounter + numTicksB ops < Generated.ROTATE_INTERVAL)
    (hty : ∀ m ∈ sent ops, m.1 ≠ Generated.MESSAGE_TYPE_ROTATION ∧
      (s.a.unencrypted = true → m.1 ≠ Generated.INIT_MESSAGE_FIRST_BYTE))
    (hlog : LogOK bodyOf (runL env bodyOf ok s ops).log) :
    (runL env bodyOf ok s ops).got = s.got ++ (sent ops).map (fun m => some (MsgResult.message m.1 m.2, [])) ∧
    (runL env bodyOf ok s ops).wire.length = s.wire.length + numSends ops ∧
    InSync (room - numSends ops) (runL env bodyOf ok s ops).a (runL env bodyOf ok s ops).b :=
  stream_delivered_exactly_once env bodyOf ok s room ops hsync hroom
    (runOK_of_quiet env bodyOf ok ops s room hsync hroom hqa hqb hra hrb hty hlog) hlog

/-- **duplicate_within_window_accepted**: on an encrypted link in sync, the datagram of a send is delivered (and accepted) and then,
    after any further history with AT MOST ONE tick at B, delivered a second time: B's session accepts it again and hands on the
    same message a second time.  This is the in-window duplicate the text of C09 allows: "exactly once" needs the non-duplicating
    network of the property text. -/
theorem duplicate_within_window_accepted (s : LSt) (room : Nat) (hs : InSync (room + 1) s.a s.b) (henc : s.a.unencrypted = false)
    (ty : Nat) (body ct tail : Bytes) (rnd : Rand) (rr : RotRand) (more : List LOp) (hroom : numSends more ≤ room)
    (hok : RunOK env bodyOf ok s (.send ty body ct tail rnd rr :: more))
    (hlog : LogOK bodyOf (runL env bodyOf ok s (.send ty body ct tail rnd rr :: more)).log)
    (h1 : numTicksB more ≤ 1) (tail' : Bytes) (rnd' : Rand) (rr' : RotRand) :
    ∃ b', PeerCrypto.handleMessage env bodyOf ok (runL env bodyOf ok s (.send ty body ct tail rnd rr :: more)).b
      (wireOf s.a ty body ct) tail' rnd' rr' = .ok b' [] (.message ty body) [] := by
  obtain ⟨ca, cb, ks, kr, sops, rest, hcur, hr, hkey, hlt, hmin, hnext, hseen, hw, hdg, hdec, hrec, hcore, hun, hnt, hrk, hwf⟩ :=
    after_send_trace env bodyOf ok hs henc ty body ct tail rnd rr more hroom hok hlog
  have hty := hok.1.1
  generalize hd : ({ hdr := ca.cur :: Bytes.ofBE 7 (ks.send + 1), body := .sealed ks.key (ks.send + 1) (ty :: body) } : Dgram) = d
    at hdg hdec hcore
  obtain ⟨f1, f2, f3⟩ := C04.sealed_fields ca.cur (ks.send + 1) (.sealed ks.key (ks.send + 1) (ty :: body))
  rw [hd] at f1 f2 f3
  -- the addressed slot right after the first delivery
  have hw0 : ∃ k1, (cb.decrypt d).1.slots[ca.cur]? = some k1 ∧ Win ks.key (ks.send + 1) 0 k1 := by
    rcases open_slots cb d ca.cur kr hr with h | ⟨_, _, _, h⟩
    · exact ⟨kr, h, hkey, fun _ => ⟨hmin, hnext⟩, fun _ => hmin⟩
    · refine ⟨_, h, ?_⟩
      simp only [slotStep]
      split
      · exact ⟨hkey, fun _ => ⟨hmin, hnext⟩, fun _ => hmin⟩
      · exact ⟨hkey, fun _ => ⟨hmin, hnext⟩, fun _ => hmin⟩
  obtain ⟨k1, hk1, w1⟩ := hw0
  obtain ⟨k2, hk2, w2⟩ := win_run ks.key (ks.send + 1) ca.cur sops 0 _ k1 hk1 w1 hrk
  have hmin2 : k2.min ≤ ks.send + 1 := w2.2.2 (by omega)
  have hhalf : (run (cb.decrypt d).1 sops).1.half = cb.half := by
    rw [run_half]; exact step_half cb (.open d)
  have hrec2 : (run (cb.decrypt d).1 sops).1.reconstruct d.counter = ks.send + 1 := by
    rw [f2, C04.reconstruct_eq, hhalf, ← C04.reconstruct_eq, hrec]
  have hacc := ((C03.decrypt_authentic (run (cb.decrypt d).1 sops).1 d k2 (ty :: body)
    (by rw [f3]; simp only [Body.len, Generated.TAG_LEN]; omega) (by rw [f1]; exact hcur) (by rw [f1]; exact hk2)
    (by rw [hrec2, w2.1, ← hd])).1 (by rw [hrec2]; exact hmin2)).1
  have hne : ca.cur ≠ Generated.INIT_MESSAGE_FIRST_BYTE := by simp only [Generated.INIT_MESSAGE_FIRST_BYTE]; omega
  rw [hw]
  exact ⟨_, handleMessage_enc_ok env bodyOf ok hun hcore ca.cur rest tail' rnd' rr' hne ty body (by rw [hdg]; exact hacc) hty⟩

/-- **duplicate_rejected_after_two_ticks**: … delivered a second time after a further history with AT LEAST TWO ticks at B: B's session
    rejects it (crypto error, nothing handed on), whatever else happened in between.  This is `C04Session.dies_in_two_ticks_session`
    (its trace lemmas `stage_zero` / `stage_run` / `stage_rejects`) applied to the trace B's core undergoes during the history
    (`bcore_run`).  So a replay of a captured datagram is delivered a second time only inside the window of two housekeeping ticks. -/
theorem duplicate_rejected_after_two_ticks (s : LSt) (room : Nat) (hs : InSync (room + 1) s.a s.b) (henc : s.a.unencrypted = false)
    (ty : Nat) (body ct tail : Bytes) (rnd : Rand) (rr : RotRand) (more : List LOp) (hroom : numSends more ≤ room)
    (hok : RunOK env bodyOf ok s (.send ty body ct tail rnd rr :: more))
    (hlog : LogOK bodyOf (runL env bodyOf ok s (.send ty body ct tail rnd rr :: more)).log)
    (h2 : 2 ≤ numTicksB more) (tail' : Bytes) (rnd' : Rand) (rr' : RotRand) :
    ∃ b', PeerCrypto.handleMessage env bodyOf ok (runL env bodyOf ok s (.send ty body ct tail rnd rr :: more)).b
      (wireOf s.a ty body ct) tail' rnd' rr' = .err b' .crypto := by
  obtain ⟨ca, cb, ks, kr, sops, rest, hcur, hr, hkey, hlt, hmin, hnext, hseen, hw, hdg, hdec, hrec, hcore, hun, hnt, hrk, hwf⟩ :=
    after_send_trace env bodyOf ok hs henc ty body ct tail rnd rr more hroom hok hlog
  generalize hd : ({ hdr := ca.cur :: Bytes.ofBE 7 (ks.send + 1), body := .sealed ks.key (ks.send + 1) (ty :: body) } : Dgram) = d
    at hdg hdec hcore
  have f1 : d.keyId = ca.cur := by rw [← hd]; rfl
  have hb : d.body = .sealed ks.key (ks.send + 1) (ty :: body) := by rw [← hd]
  have hwfd : Bytes.WF d.hdr := by
    rw [← hd]
    show Bytes.WF (ca.cur :: Bytes.ofBE 7 (ks.send + 1))
    rw [Bytes.wf_cons]
    exact ⟨by omega, ofBE_wf _ _⟩
  obtain ⟨k1, hk1, st1⟩ := stage_zero cb d ks.key (ks.send + 1) (ty :: body) kr (by rw [f1]; exact hr) (by omega) hwfd hdec hb
  obtain ⟨k2, hk2, st2⟩ := stage_run ks.key (ks.send + 1) d.keyId sops 0 _ k1 hk1 st1 (by rw [hrk]; simp) hwf
  obtain ⟨e, he⟩ := stage_rejects ks.key (ks.send + 1) _ _ d k2 (ks.send + 1) (ty :: body) hk2 st2 (by omega) hb (Nat.le_refl _)
  have hne : ca.cur ≠ Generated.INIT_MESSAGE_FIRST_BYTE := by simp only [Generated.INIT_MESSAGE_FIRST_BYTE]; omega
  rw [hw]
  exact ⟨_, handleMessage_enc_err env bodyOf ok hun hcore ca.cur rest tail' rnd' rr' hne e (by rw [hdg]; exact he)⟩

end

/-! ## 2. node level -/

section
variable (env : CryptoEnv) (bodyOf : Init.BodyOf)

/-- the invariant of a list of frames read at A (helper for the two theorems below) -/
theorem runN_inv (a b : NAddr) (evs : List FrameEv) : ∀ (s : NSt) (room : Nat), NodeSync room a b s.nA s.nB → evs.length ≤ room →
    FramesOK env bodyOf a b s evs → LogOK bodyOf (runN env bodyOf a b s evs).log →
    (∃ ws : List Bytes, ws.length = evs.length ∧ (runN env bodyOf a b s evs).wire = s.wire ++ ws.map (Out.dgram b)) ∧
    (runN env bodyOf a b s evs).outB =
      s.outB ++ ((evs.map (·.data)).filter (fun d => (parseAddrs s.nB d).isSome)).map Out.iface ∧
    NodeSync (room - evs.length) a b (runN env bodyOf a b s evs).nA (runN env bodyOf a b s evs).nB ∧
    (∀ ev ∈ evs, (parseAddrs s.nA ev.data).isSome = true) := by
  induction evs with
  | nil =>
    intro s room h _ _ _
    exact ⟨⟨[], rfl, by simp [runN]⟩, by simp [runN], h, fun _ h => by cases h⟩
  | cons ev evs ih =>
    intro s room h hroom hok hlog
    obtain ⟨hf, hrest⟩ := hok
    have hroom' : evs.length + 1 ≤ room := hroom
    obtain ⟨room', rfl⟩ : ∃ r, room = r + 1 := ⟨room - 1, by omega⟩
    have hl1 : LogOK bodyOf (stepN env bodyOf a b s ev).log := fun e he => hlog e (runN_log_mono env bodyOf a b evs _ e he)
    obtain ⟨⟨bytes, hw⟩, ho, hs1, hcA, hcB⟩ := stepN_frame env bodyOf a b s ev h hf hl1
    obtain ⟨⟨ws, hwl, hw2⟩, ho2, hs2, hp2⟩ := ih (stepN env bodyOf a b s ev) room' hs1 (by omega) hrest hlog
    have hpred : (fun d => (parseAddrs (stepN env bodyOf a b s ev).nB d).isSome) = (fun d => (parseAddrs s.nB d).isSome) :=
      funext fun d => by rw [parseAddrs_congr _ _ d hcB]
    refine ⟨⟨bytes :: ws, by simp [hwl], ?_⟩, ?_, ?_, ?_⟩
    · show (runN env bodyOf a b (stepN env bodyOf a b s ev) evs).wire = _
      rw [hw2, hw]
      simp only [List.map_cons, List.append_assoc, List.singleton_append]
    · show (runN env bodyOf a b (stepN env bodyOf a b s ev) evs).outB = _
      rw [ho2, ho, hpred]
      simp only [List.map_cons, List.filter_cons]
      split <;> simp
    · have : room' + 1 - (ev :: evs).length = room' - evs.length := by simp only [List.length_cons]; omega
      rw [this]
      exact hs2
    · intro ev' hev'
      rcases List.mem_cons.1 hev' with rfl | hev'
      · obtain ⟨sa, dst, hp, _⟩ := hf
        rw [hp]; rfl
      · rw [← parseAddrs_congr _ _ _ hcA]
        exact hp2 ev' hev'

/-- **frames_delivered_exactly_once**: node A (address `a`) and node B (address `b`) hold established sessions for each other that are in
    sync with room for all the frames (`NodeSync`); every frame of the list, when it is read from A's interface, parses at A and A's
    table — carried along from frame to frame — names `b` as next hop (`FramesOK`); the network hands every datagram A emits for `b`
    to B, once, at once (`stepN`); the ideal AEAD views every ciphertext A emitted as what A sealed (`LogOK`).  Then
    * A emits exactly one datagram per frame, all of them to `b`, and nothing else;
    * ALL that B emits, in total, are the frames themselves, written to its interface byte-identical, in the order read at A, each
      exactly once — namely those frames that parse as a frame / packet of B's device type; for a frame that does not parse at B
      (possible only if the two nodes run different device types, see `frames_delivered_same_mode`) nothing is written: B drops
      it with a parse error; B sends no datagram to anybody;
    * the two nodes are in sync again afterwards. -/
theorem frames_delivered_exactly_once (a b : NAddr) (s : NSt) (room : Nat) (evs : List FrameEv)
    (hsync : NodeSync room a b s.nA s.nB) (hroom : evs.length ≤ room)
    (hok : FramesOK env bodyOf a b s evs) (hlog : LogOK bodyOf (runN env bodyOf a b s evs).log) :
    (∃ ws : List Bytes, ws.length = evs.length ∧ (runN env bodyOf a b s evs).wire = s.wire ++ ws.map (Out.dgram b)) ∧
    (runN env bodyOf a b s evs).outB =
      s.outB ++ ((evs.map (·.data)).filter (fun d => (parseAddrs s.nB d).isSome)).map Out.iface ∧
    NodeSync (room - evs.length) a b (runN env bodyOf a b s evs).nA (runN env bodyOf a b s evs).nB := by
  obtain ⟨h1, h2, h3, _⟩ := runN_inv env bodyOf a b evs s room hsync hroom hok hlog
  exact ⟨h1, h2, h3⟩

/-- **frames_delivered_same_mode**: if both nodes run the same device type (both TAP or both TUN), every frame parses at B as well, and
    what B's interface gets is exactly the list of frames read at A: same bytes, same order, each once, nothing else. -/
theorem frames_delivered_same_mode (a b : NAddr) (s : NSt) (room : Nat) (evs : List FrameEv)
    (hsync : NodeSync room a b s.nA s.nB) (hroom : evs.length ≤ room)
    (hok : FramesOK env bodyOf a b s evs) (hlog : LogOK bodyOf (runN env bodyOf a b s evs).log)
    (hmode : s.nB.cfg.tap = s.nA.cfg.tap) :
    (runN env bodyOf a b s evs).outB = s.outB ++ evs.map (fun ev => Out.iface ev.data) := by
  obtain ⟨_, h2, _, h4⟩ := runN_inv env bodyOf a b evs s room hsync hroom hok hlog
  rw [h2]
  have hall : ∀ d ∈ evs.map (·.data), (fun d => (parseAddrs s.nB d).isSome) d = true := by
    intro d hd
    obtain ⟨ev, hev, rfl⟩ := List.mem_map.1 hd
    have := h4 ev hev
    unfold parseAddrs at this ⊢
    rw [hmode]
    exact this
  rw [List.filter_eq_self.2 hall, List.map_map]
  rfl

end

/-! ## 3. no other node -/

open VpnCloud.Proofs.C10More in
/-- node C is a stranger to the traffic that the node with address `a` seals under key `K`: it has no established session for `a` — and
    then, if a handshake with `a` is pending, that session has no core yet (`PendFreshAt`, part of the invariant of `C12Node`) —, or
    the session it has for `a` is encrypted and none of its key slots holds `K` (a session with A of its own, under a different key) -/
def Stranger (a : NAddr) (K : KeyRef) (nC : Node) : Prop :=
  PendFreshAt nC (mappedAddr a) ∧
  ∀ pc, lookupA nC.peers (mappedAddr a) = some pc →
    pc.crypto.unencrypted = false ∧ ∀ cc, pc.crypto.core = some cc → ∀ (j : Nat) (k : SlotKey), cc.slots[j]? = some k → k.key ≠ K

/-- the key with which node `n` currently seals for its peer `b` -/
def sendKey (n : Node) (b : NAddr) : Option KeyRef :=
  (lookupA n.peers b).bind fun p => p.crypto.core.bind fun c => c.slots[c.cur]?.map (·.key)

section
variable (env : CryptoEnv) (bodyOf : Init.BodyOf)

open VpnCloud.Proofs.C10More in
/-- **misdelivered_never_reaches_iface**: a datagram whose body is a seal under key `K`, handed by the network to a node that is a
    stranger to `K`-traffic from `a` (no session for `a`, or one under other keys), never reaches that node's interface
    (`C10More.non_peer_never_reaches_iface` for the first case, `C02.cross_connection_rejected` for the second). -/
theorem misdelivered_never_reaches_iface (oC : Oracle) (nC : Node) (now : Int) (a : NAddr) (bytes tail : Bytes)
    (K : KeyRef) (n : Nat) (p : Bytes) (hb : bodyOf (bytes.drop 8) = .sealed K n p) (hs : Stranger a K nC) :
    ∀ x, Out.iface x ∉ (handleNet env bodyOf oC nC now a bytes tail).1.outs := by
  intro x hx
  obtain ⟨pc, hpc, hi, ⟨pc', out, log, hopen⟩, _⟩ := iface_write_only_from_peer_data env bodyOf oC nC now a bytes tail x hs.1 hx
  obtain ⟨hun, hkeys⟩ := hs.2 pc hpc
  cases bytes with
  | nil => rw [handleMessage_eq] at hopen; cases hopen
  | cons b0 rest =>
    have hb0 : b0 ≠ Generated.INIT_MESSAGE_FIRST_BYTE := by
      intro h; apply hi; rw [h]; rfl
    cases hcore : pc.crypto.core with
    | none =>
      rw [handleMessage_eq] at hopen
      simp only [hb0, if_false] at hopen
      have : decMsg bodyOf pc.crypto (b0 :: rest) = (pc.crypto, .error .state) := by
        simp only [decMsg, hun, Bool.false_eq_true, if_false, hcore]
      rw [this] at hopen
      cases hopen
    | some cc =>
      obtain ⟨e, he⟩ := rejected_of_other_key cc (dgramOf bodyOf (b0 :: rest)) K n p hb (fun k hk => hkeys cc hcore _ k hk)
      rw [handleMessage_enc_err env bodyOf payloadOk hun hcore b0 rest tail _ _ hb0 e he] at hopen
      cases hopen

/-- **no_other_node**: in the situation of `frames_delivered_exactly_once` with encrypted sessions, for each frame read at A:
    (1) every datagram A emits for it goes to `b` — no third node is sent anything;
    (2) the body of such a datagram is, for the ideal AEAD, a seal under the key of A's sending slot for `b` (`sendKey`);
    (3) hence if the network misdelivers it to any node C that is a stranger to that key (`Stranger`: C has no established session for
        A's address, or its session with A runs under other keys), C writes nothing to its interface. -/
theorem no_other_node {room : Nat} (a b : NAddr) (s : NSt) (ev : FrameEv) (hsync : NodeSync (room + 1) a b s.nA s.nB)
    (henc : ∀ pa, lookupA s.nA.peers b = some pa → pa.crypto.unencrypted = false)
    (hf : FrameOK b s.nA ev) (hlog : LogOK bodyOf (stepN env bodyOf a b s ev).log) :
    ∃ K, sendKey s.nA b = some K ∧
      ∀ c bytes, Out.dgram c bytes ∈ (handleIface ev.oA s.nA ev.nowA ev.data).outs →
        c = b ∧
        (∃ n, bodyOf (bytes.drop 8) = .sealed K n (Generated.MESSAGE_TYPE_DATA :: ev.data)) ∧
        ∀ (nC : Node) (oC : Oracle) (nowC : Int) (tail : Bytes), Stranger a K nC →
          ∀ x, Out.iface x ∉ (handleNet env bodyOf oC nC nowC a bytes tail).1.outs := by
  obtain ⟨hfind, pa, pb, hpa, hpb, hsy⟩ := hsync
  obtain ⟨sa, dst, hp, hl⟩ := hf
  cases hsy with
  | plain hua _ => rw [henc pa hpa] at hua; cases hua
  | enc ca cb hua hub hca hcb hc =>
    obtain ⟨ks, kr, hs, _, _, _, _, _, _, e1, _, _⟩ := coreSync_encrypt hc (Generated.MESSAGE_TYPE_DATA :: ev.data)
    have hsm := sendMessage_enc hua hca Generated.MESSAGE_TYPE_DATA ev.data (rndFor ev.oA { node := s.nA } b).2.1.ct
    obtain ⟨_, houts, hlg⟩ := handleIface_exact ev.oA s.nA ev.nowA ev.data sa dst (addrId b) b pa _ _ _ hp hl hfind hpa hsm
    have hbody : bodyOf (rndFor ev.oA { node := s.nA } b).2.1.ct = (ca.encrypt (Generated.MESSAGE_TYPE_DATA :: ev.data)).2.body := by
      apply hlog (_, _)
      show _ ∈ s.log ++ (handleIface ev.oA s.nA ev.nowA ev.data).log
      rw [hlg]
      exact List.mem_append_right _ (List.mem_singleton.2 rfl)
    have hl8 : (ca.encrypt (Generated.MESSAGE_TYPE_DATA :: ev.data)).2.hdr.length = 8 := by rw [e1]; simp [ofBE_length]
    refine ⟨ks.key, by simp only [sendKey, hpa, hca, hs, Option.bind_some, Option.map_some], ?_⟩
    intro c bytes hm
    rw [houts] at hm
    simp only [List.mem_singleton, Out.dgram.injEq] at hm
    obtain ⟨rfl, rfl⟩ := hm
    have hdrop : bodyOf (((ca.encrypt (Generated.MESSAGE_TYPE_DATA :: ev.data)).2.hdr ++ (rndFor ev.oA { node := s.nA } c).2.1.ct).drop 8) =
        .sealed ks.key (ks.send + 1) (Generated.MESSAGE_TYPE_DATA :: ev.data) := by
      rw [List.drop_left' hl8, hbody, e1]
    exact ⟨rfl, ⟨_, hdrop⟩, fun nC oC nowC tail hst =>
      misdelivered_never_reaches_iface env bodyOf oC nC nowC a _ tail ks.key _ _ hdrop hst⟩

end

/-! ## non-vacuity (toy cryptography of `InitLemmas.Toy`) and counterexamples -/
section NonVacuity
open VpnCloud.Proofs.InitLemmas

/-- A's session for B and B's session for A after a handshake: key 7 in slot 0, opposite halves, A's counter starts at 5 -/
def sessA : PeerCrypto := { init := none, core := some (Core.new 7 true 9 [5, 6, 7, 8]) }
def sessB : PeerCrypto := { init := none, core := some (Core.new 7 false 8 [0, 0, 0, 0]) }
/-- two IPv4 packets 10.0.0.1 → 10.0.0.2 -/
def pkt1 : Bytes := 69 :: (List.replicate 11 0 ++ [10, 0, 0, 1, 10, 0, 0, 2])
def pkt2 : Bytes := 69 :: (List.replicate 11 1 ++ [10, 0, 0, 1, 10, 0, 0, 2])
/-- ideal AEAD: the three ciphertexts A emits below open as what A sealed (key 7, nonces HALF + 6, 7, 8), everything else is garbage -/
def bodyEx : Init.BodyOf := fun ct =>
  if ct = [1, 2, 3] then .sealed 7 (HALF + 6) (0 :: pkt1)
  else if ct = [4, 5, 6] then .sealed 7 (HALF + 7) (0 :: pkt2)
  else if ct = [7, 8, 9] then .sealed 7 (HALF + 8) [2] else .garbage 0
/-- a history: two DATA messages and a KEEPALIVE, with ticks at both ends in between (three at B) -/
def exOps : List LOp :=
  [.send 0 pkt1 [1, 2, 3] [] {} {}, .tickB {}, .send 0 pkt2 [4, 5, 6] [] {} {}, .tickA {}, .tickB {}, .tickB {},
   .send 2 [] [7, 8, 9] [] {} {}]

theorem inSync_ex : InSync 3 sessA sessB :=
  .enc _ _ rfl rfl rfl rfl ⟨by decide, rfl, SlotKey.new 7 true 5, SlotKey.new 7 false 0, 5, rfl, rfl, rfl, rfl, by decide,
    Nat.zero_le _, Nat.zero_le _, Nat.zero_le _⟩

theorem runOK_ex : RunOK Toy.env bodyEx payloadOk { a := sessA, b := sessB } exOps :=
  ⟨⟨by decide, fun _ => by decide⟩, ⟨Or.inl rfl, _, _, _, _, rfl⟩, ⟨by decide, fun _ => by decide⟩, ⟨Or.inl rfl, _, _, _, _, rfl⟩,
   ⟨Or.inl rfl, _, _, _, _, rfl⟩, ⟨Or.inl rfl, _, _, _, _, rfl⟩, ⟨by decide, fun _ => by decide⟩, trivial⟩

theorem logOK_ex : LogOK bodyEx (runL Toy.env bodyEx payloadOk { a := sessA, b := sessB } exOps).log := by
  unfold LogOK; decide

/-- `stream_delivered_exactly_once`: all hypotheses hold of the example history … -/
example : (runL Toy.env bodyEx payloadOk { a := sessA, b := sessB } exOps).got =
      [] ++ (sent exOps).map (fun m => some (MsgResult.message m.1 m.2, [])) ∧
    (runL Toy.env bodyEx payloadOk { a := sessA, b := sessB } exOps).wire.length = 0 + numSends exOps ∧
    InSync (3 - numSends exOps) (runL Toy.env bodyEx payloadOk { a := sessA, b := sessB } exOps).a
      (runL Toy.env bodyEx payloadOk { a := sessA, b := sessB } exOps).b :=
  stream_delivered_exactly_once Toy.env bodyEx payloadOk { a := sessA, b := sessB } 3 exOps inSync_ex (by decide) runOK_ex logOK_ex

/-- the same pair with rotation states (rotate counters 100 and 110) -/
def sessAR : PeerCrypto := { sessA with rot := some (PeerCrypto.initSide true 1), rotateCounter := 100 }
def sessBR : PeerCrypto := { sessB with rot := some (PeerCrypto.initSide false 0), rotateCounter := 110 }

/-- `stream_delivered_exactly_once_quiet`: the static hypotheses hold of that pair (handshake objects gone; one tick at A and three at B
    in the history, so the counters stay below 120) -/
example : InSync 3 sessAR sessBR ∧ C07SessionLemmas.Quiet sessAR ∧ C07SessionLemmas.Quiet sessBR ∧
    (sessAR.rot = none ∨ sessAR.rotateCounter + numTicksA exOps < Generated.ROTATE_INTERVAL) ∧
    (sessBR.rot = none ∨ sessBR.rotateCounter + numTicksB exOps < Generated.ROTATE_INTERVAL) ∧
    (∀ m ∈ sent exOps, m.1 ≠ Generated.MESSAGE_TYPE_ROTATION ∧ (sessAR.unencrypted = true → m.1 ≠ Generated.INIT_MESSAGE_FIRST_BYTE)) ∧
    LogOK bodyEx (runL Toy.env bodyEx payloadOk { a := sessAR, b := sessBR } exOps).log := by
  refine ⟨?_, fun _ h => (by cases h), fun _ h => (by cases h), Or.inr (by decide), Or.inr (by decide), ?_, (by unfold LogOK; decide)⟩
  · exact .enc _ _ rfl rfl rfl rfl ⟨by decide, rfl, SlotKey.new 7 true 5, SlotKey.new 7 false 0, 5, rfl, rfl, rfl, rfl, by decide,
      Nat.zero_le _, Nat.zero_le _, Nat.zero_le _⟩
  · intro m hm
    refine ⟨?_, fun h => (by cases h)⟩
    revert m
    decide

/-- … and the conclusion is what the model computes: the three messages, in order, once each -/
example : (runL Toy.env bodyEx payloadOk { a := sessA, b := sessB } exOps).got =
    [some (.message 0 pkt1, []), some (.message 0 pkt2, []), some (.message 2 [], [])] := by decide

/-- the same pair with a rotation state whose counter stays below `ROTATE_INTERVAL`: `TickOK` holds through its second disjunct -/
example : TickOK { sessA with rot := some (PeerCrypto.initSide true 1), rotateCounter := 17 } {} :=
  ⟨Or.inr (by decide), _, _, _, _, rfl⟩

/-- `duplicate_within_window_accepted`: the first datagram of the example, delivered again after one tick at B and one more send, is
    accepted a second time (hypotheses, then what the model computes) -/
example : ∃ b', PeerCrypto.handleMessage Toy.env bodyEx payloadOk
      (runL Toy.env bodyEx payloadOk { a := sessA, b := sessB } (exOps.take 3)).b (wireOf sessA 0 pkt1 [1, 2, 3]) [] {} {} =
    .ok b' [] (.message 0 pkt1) [] :=
  duplicate_within_window_accepted Toy.env bodyEx payloadOk { a := sessA, b := sessB } 2 inSync_ex rfl 0 pkt1 [1, 2, 3] [] {} {}
    [.tickB {}, .send 0 pkt2 [4, 5, 6] [] {} {}] (by decide)
    ⟨⟨by decide, fun _ => by decide⟩, ⟨Or.inl rfl, _, _, _, _, rfl⟩, ⟨by decide, fun _ => by decide⟩, trivial⟩
    (by unfold LogOK; decide) (by decide) [] {} {}

example : recvOf (PeerCrypto.handleMessage Toy.env bodyEx payloadOk
      (runL Toy.env bodyEx payloadOk { a := sessA, b := sessB } (exOps.take 3)).b (wireOf sessA 0 pkt1 [1, 2, 3]) [] {} {}) =
    some (.message 0 pkt1, []) := by decide

/-- `duplicate_rejected_after_two_ticks`: delivered again at the end of the example history (three ticks at B), it is rejected -/
example : ∃ b', PeerCrypto.handleMessage Toy.env bodyEx payloadOk
      (runL Toy.env bodyEx payloadOk { a := sessA, b := sessB } exOps).b (wireOf sessA 0 pkt1 [1, 2, 3]) [] {} {} = .err b' .crypto :=
  duplicate_rejected_after_two_ticks Toy.env bodyEx payloadOk { a := sessA, b := sessB } 2 inSync_ex rfl 0 pkt1 [1, 2, 3] [] {} {}
    exOps.tail (by decide) runOK_ex logOK_ex (by decide) [] {} {}

example : recvOf (PeerCrypto.handleMessage Toy.env bodyEx payloadOk
      (runL Toy.env bodyEx payloadOk { a := sessA, b := sessB } exOps).b (wireOf sessA 0 pkt1 [1, 2, 3]) [] {} {}) = none := by decide

/-- COUNTEREXAMPLE 1: with `InSync` as in the task text — of B's window only the floor `min` is required to lie at or below A's next
    nonce — the statement is false.  `cbBad1`: floor 0 but floor-to-be above A's next nonce: one tick at B and A's next message is
    rejected.  `cbBad2`: floor and floor-to-be 0 but a nonce above A's counter already seen: two ticks.  (Neither state is reachable
    with genuine traffic — B only ever sees nonces A has used —, but the invariant has to say so: the conjuncts `nextMin` and
    `seen` of `CoreSync`.) -/
def cbBad1 : Core :=
  { slots := [{ key := 7, send := 0, nextMin := HALF + 100 }, SlotKey.new 8 false 0, SlotKey.new 8 false 0, SlotKey.new 8 false 0],
    cur := 0, half := false }
def cbBad2 : Core :=
  { slots := [{ key := 7, send := 0, seen := HALF + 100 }, SlotKey.new 8 false 0, SlotKey.new 8 false 0, SlotKey.new 8 false 0],
    cur := 0, half := false }

example :
    -- the in-sync condition of the task text holds of both cores …
    (∀ cb ∈ [cbBad1, cbBad2], ∃ ks kr, (Core.new 7 true 9 [5, 6, 7, 8]).slots[0]? = some ks ∧ cb.slots[0]? = some kr ∧
      kr.key = ks.key ∧ cb.half = false ∧ kr.min ≤ ks.send + 1 ∧ ks.send + 3 < HALF + 2 ^ 56) ∧
    -- … but after one resp. two ticks at B the message is not delivered
    (runL Toy.env bodyEx payloadOk { a := sessA, b := { sessB with core := some cbBad1 } }
      [.tickB {}, .send 0 pkt1 [1, 2, 3] [] {} {}]).got = [none] ∧
    (runL Toy.env bodyEx payloadOk { a := sessA, b := { sessB with core := some cbBad2 } }
      [.tickB {}, .tickB {}, .send 0 pkt1 [1, 2, 3] [] {} {}]).got = [none] := by
  refine ⟨?_, by decide, by decide⟩
  intro cb hcb
  simp only [List.mem_cons, List.not_mem_nil, or_false] at hcb
  rcases hcb with rfl | rfl
  · exact ⟨_, _, rfl, rfl, rfl, rfl, by decide, by decide⟩
  · exact ⟨_, _, rfl, rfl, rfl, rfl, by decide, by decide⟩

/-- the `room` of `InSync` is tight: A's counter at `2^56 - 1` is in sync with room 0 (what was sent so far fits the 56 transmitted
    bits), but the next message gets nonce counter `2^56`, which B cannot reconstruct: it is not delivered -/
def sessAFull : PeerCrypto :=
  { init := none, core := some { (Core.new 7 true 9 [5, 6, 7, 8]) with
      slots := [{ key := 7, send := HALF + 2 ^ 56 - 1 }, SlotKey.new 9 true 6, SlotKey.new 9 true 7, SlotKey.new 9 true 8] } }

example : InSync 0 sessAFull sessB ∧
    (runL Toy.env (fun _ => .sealed 7 (HALF + 2 ^ 56) (0 :: pkt1)) payloadOk { a := sessAFull, b := sessB }
      [.send 0 pkt1 [1, 2, 3] [] {} {}]).got = [none] :=
  ⟨.enc _ _ rfl rfl rfl rfl ⟨by decide, rfl, _, SlotKey.new 7 false 0, 2 ^ 56 - 1, rfl, rfl, rfl, by decide, by decide,
    Nat.zero_le _, Nat.zero_le _, Nat.zero_le _⟩, by decide⟩

/-- COUNTEREXAMPLE 2 (why `OpOK` excludes type 255 in unencrypted mode): two sessions in unencrypted mode are `InSync`, but a message
    of type 255 (`MESSAGE_TYPE_CLOSE`) travels with its type byte in the clear, and 255 is the handshake marker: B's session takes the
    datagram for a handshake message and hands on nothing. -/
def sessU : PeerCrypto := { init := none, unencrypted := true }

example : InSync 5 sessU sessU ∧
    (runL Toy.env bodyEx payloadOk { a := sessU, b := sessU } [.send Generated.MESSAGE_TYPE_CLOSE [] [] [] {} {}]).got = [none] ∧
    (runL Toy.env bodyEx payloadOk { a := sessU, b := sessU } [.send 0 pkt1 [] [] {} {}]).got = [some (.message 0 pkt1, [])] :=
  ⟨.plain rfl rfl, by decide, by decide⟩

/-- remark: in unencrypted mode there is no replay window at all — a duplicate is accepted however many ticks have passed (so
    `duplicate_rejected_after_two_ticks` needs the encrypted mode) -/
example : recvOf (PeerCrypto.handleMessage Toy.env bodyEx payloadOk
      (runL Toy.env bodyEx payloadOk { a := sessU, b := sessU } [.send 0 pkt1 [] [] {} {}, .tickB {}, .tickB {}, .tickB {}]).b
      (wireOf sessU 0 pkt1 []) [] {} {}) = some (.message 0 pkt1, []) := by decide

/-! ### two nodes -/

def aA : NAddr := .v6 (List.replicate 16 0) 1
def aB : NAddr := .v6 (List.replicate 16 0) 2
def cfg0 (tap : Bool) : NodeCfg :=
  { tap := tap, learning := true, broadcast := false, peerTimeout := 300, peerTimeoutPublish := 300, updateFreq := 10,
    claims := [], key := [7, 7, 7, 7], trusted := [[9, 9, 9, 9]], algos := Toy.algos }
/-- the ciphertext bytes of every datagram emitted in the step are `ct` -/
def oWith (ct : Bytes) : Oracle :=
  { emitted := fun _ _ => List.replicate 8 0 ++ ct, rotProp := fun _ => 0, rotPend := fun _ => 0, starts := fun _ => [] }
def peerOf (pc : PeerCrypto) : Peer := { addrs := [], timeout := 1000, peerTimeout := 300, nodeId := List.replicate 16 1, crypto := pc }
def tbl0 : Table := { cacheTimeout := 300, claimTimeout := 300 }
/-- node A (TUN): one peer B (id 2) that claims 10.0.0.0/8 -/
def nA : Node :=
  { nodeId := List.replicate 16 8, addr := aA, cfg := cfg0 false, peers := [(aB, peerOf sessA)],
    table := { tbl0 with claims := [⟨2, ⟨[10, 0, 0, 0], 8⟩, 2000⟩] } }
/-- node B (TUN, learning): one peer A -/
def nB : Node := { nodeId := List.replicate 16 9, addr := aB, cfg := cfg0 false, peers := [(aA, peerOf sessB)], table := tbl0 }
/-- two frames read at A; the second finds its destination in the cache the first lookup filled -/
def ev1 : FrameEv := { data := pkt1, nowA := 100, oA := oWith [1, 2, 3], nowB := 101, oB := oWith [], tail := [] }
def ev2 : FrameEv := { data := pkt2, nowA := 102, oA := oWith [4, 5, 6], nowB := 103, oB := oWith [], tail := [9, 9] }
def evs : List FrameEv := [ev1, ev2]

theorem nodeSync_ex : NodeSync 2 aA aB nA nB :=
  ⟨by decide, peerOf sessA, peerOf sessB, rfl, rfl, inSync_ex.mono (by decide)⟩

theorem framesOK_ex : FramesOK Toy.env bodyEx aA aB { nA := nA, nB := nB } evs :=
  ⟨⟨[10, 0, 0, 1], [10, 0, 0, 2], by decide, by decide⟩, ⟨[10, 0, 0, 1], [10, 0, 0, 2], by decide, by decide⟩, trivial⟩

theorem logOKN_ex : LogOK bodyEx (runN Toy.env bodyEx aA aB { nA := nA, nB := nB } evs).log := by
  unfold LogOK; decide

/-- `frames_delivered_exactly_once` / `frames_delivered_same_mode`: all hypotheses hold of the two nodes and the two frames … -/
example : (runN Toy.env bodyEx aA aB { nA := nA, nB := nB } evs).outB = [] ++ evs.map (fun ev => Out.iface ev.data) :=
  frames_delivered_same_mode Toy.env bodyEx aA aB { nA := nA, nB := nB } 2 evs nodeSync_ex (by decide) framesOK_ex logOKN_ex rfl

/-- … and the conclusions are what the model computes: B's interface gets the two packets, A emitted two datagrams to B;
    the second lookup was answered from A's cache (the table was carried along) -/
example : (runN Toy.env bodyEx aA aB { nA := nA, nB := nB } evs).outB = [.iface pkt1, .iface pkt2] ∧
    (runN Toy.env bodyEx aA aB { nA := nA, nB := nB } evs).wire =
      [.dgram aB (0 :: Bytes.ofBE 7 (HALF + 6) ++ [1, 2, 3]), .dgram aB (0 :: Bytes.ofBE 7 (HALF + 7) ++ [4, 5, 6])] ∧
    (stepN Toy.env bodyEx aA aB { nA := nA, nB := nB } ev1).nA.table.cache.length = 1 := by decide

/-- "for the others nothing": A in TAP mode and B in TUN mode.  The Ethernet frame (destination MAC cached for peer 2) is sealed, sent,
    opened by B's session — and dropped by B, because it does not parse as an IP packet: nothing reaches B's interface. -/
def frameEth : Bytes := [1, 2, 3, 4, 5, 6, 7, 8, 9, 10, 11, 12, 8, 0, 42]
def nATap : Node :=
  { nA with cfg := cfg0 true, table := { tbl0 with cache := [{ addr := [1, 2, 3, 4, 5, 6], peer := 2, timeout := 2000 }] } }
def bodyEth : Init.BodyOf := fun _ => .sealed 7 (HALF + 6) (0 :: frameEth)
def evEth : FrameEv := { data := frameEth, nowA := 100, oA := oWith [1, 2, 3], nowB := 101, oB := oWith [], tail := [] }

example : NodeSync 1 aA aB nATap nB ∧ FramesOK Toy.env bodyEth aA aB { nA := nATap, nB := nB } [evEth] ∧
    LogOK bodyEth (runN Toy.env bodyEth aA aB { nA := nATap, nB := nB } [evEth]).log ∧
    (parseAddrs nB frameEth).isSome = false ∧
    (runN Toy.env bodyEth aA aB { nA := nATap, nB := nB } [evEth]).wire.length = 1 ∧
    (runN Toy.env bodyEth aA aB { nA := nATap, nB := nB } [evEth]).outB = [] :=
  ⟨⟨by decide, peerOf sessA, peerOf sessB, rfl, rfl, inSync_ex.mono (by decide)⟩,
   ⟨⟨[7, 8, 9, 10, 11, 12], [1, 2, 3, 4, 5, 6], by decide, by decide⟩, trivial⟩, by unfold LogOK; decide, by decide, by decide, by decide⟩

/-! ### a third node -/

def aC : NAddr := .v6 (List.replicate 16 0) 3
/-- node C without any session for A's address -/
def nC0 : Node := { nodeId := List.replicate 16 7, addr := aC, cfg := cfg0 false, table := tbl0 }
/-- node C with a session of its own with A, under key 11 -/
def sessC : PeerCrypto := { init := none, core := some (Core.new 11 false 12 [0, 0, 0, 0]) }
def nC1 : Node := { nC0 with peers := [(aA, peerOf sessC)] }

theorem stranger_nC0 : Stranger aA 7 nC0 :=
  ⟨fun _ _ hq => (by cases hq), fun _ hp => (by cases hp)⟩

theorem stranger_nC1 : Stranger aA 7 nC1 := by
  refine ⟨fun _ hp _ => absurd hp (by decide), fun pc hp => ?_⟩
  have : pc = peerOf sessC := by
    have := lookupA_some_mem hp
    simp only [nC1, List.mem_singleton, Prod.mk.injEq] at this
    exact this.2
  subst this
  refine ⟨rfl, fun cc hcc j k hk => ?_⟩
  cases hcc
  have hm := List.mem_of_getElem? hk
  clear hk
  revert k
  decide

/-- `no_other_node`: the hypotheses hold of A, B and the first frame; the key is 7; both third nodes are strangers to it … -/
example : ∃ K, sendKey nA aB = some K ∧
    ∀ c bytes, Out.dgram c bytes ∈ (handleIface (oWith [1, 2, 3]) nA 100 pkt1).outs →
      c = aB ∧ (∃ n, bodyEx (bytes.drop 8) = .sealed K n (Generated.MESSAGE_TYPE_DATA :: pkt1)) ∧
      ∀ (nC : Node) (oC : Oracle) (nowC : Int) (tail : Bytes), Stranger aA K nC →
        ∀ x, Out.iface x ∉ (handleNet Toy.env bodyEx oC nC nowC aA bytes tail).1.outs :=
  no_other_node Toy.env bodyEx aA aB { nA := nA, nB := nB } ev1 (room := 1) nodeSync_ex
    (fun pa hpa => by cases hpa; rfl) ⟨[10, 0, 0, 1], [10, 0, 0, 2], by decide, by decide⟩ (by unfold LogOK; decide)

example : sendKey nA aB = some 7 := by decide

/-- … and what the model computes when A's datagram is misdelivered to them: C without a session counts an invalid packet, C with its own
    session under key 11 gets a crypto error; neither writes to its interface (B, for comparison, does) -/
example :
    (handleNet Toy.env bodyEx (oWith []) nC0 100 aA (0 :: Bytes.ofBE 7 (HALF + 6) ++ [1, 2, 3]) []).1.outs = [] ∧
    (handleNet Toy.env bodyEx (oWith []) nC1 100 aA (0 :: Bytes.ofBE 7 (HALF + 6) ++ [1, 2, 3]) []).1.outs = [] ∧
    (handleNet Toy.env bodyEx (oWith []) nC1 100 aA (0 :: Bytes.ofBE 7 (HALF + 6) ++ [1, 2, 3]) []).2 = some .crypto ∧
    (handleNet Toy.env bodyEx (oWith []) nB 100 aA (0 :: Bytes.ofBE 7 (HALF + 6) ++ [1, 2, 3]) []).1.outs = [.iface pkt1] := by decide

end NonVacuity

end VpnCloud.Proofs.C10Net
