import VpnCloud.Proofs.Lemmas.C05RecoverLemmas
/-
  C05 — the recovery clause at handshake-object level: from every reachable state, reliable delivery completes the handshake.

  0. `StepW` / `ReachW`: the two-party system of `C05Agree` (adversarial network: any bytes, any number of times, or never) with one
     more side condition on `deliver`: the random start of the slot-0 send counter is `< 2^48` (6 random bytes in the Rust).  Every
     run is a run of `C05Agree.Sys` (`ReachW.toReach`).
  1. `RInv` (= `RI` of `Lemmas/C05RecoverLemmas.lean`), a ghost-free invariant describing the stored last message of each object and
     every logged signature by the current states, preserved by every step under the AEAD law (`rinv_step`, `rinv_reach`).
     `reachable_classes`, `reachable_combinations`: the classes of the objects and which of them occur together.
  2. `round`: a reliable round = `every_second` at A and at B, A's datagram to B, B's datagram to A, B's reply to A, A's reply to B,
     with the side conditions `RoundOK` (reliability = the receiver's `read_from` accepts the datagram; (I1), `RandOK`, start bound).
     `send_abs`, `tick_abs`, `round_abs`: a round refines the abstract round `aRound` on (stage, stage, done, done).
  3. `reliable_rounds_complete` (K = 2; `abs_one_round_not_enough`, `Toy.ping_lost_recovered`: K = 1 is not enough),
     `measure_decreases`, `closed_initiator_dead_end` (+ `Toy.dead_end_reachable`), `give_up_is_bounded`,
     `completed_initiator_closes`.
  4. Non-vacuity (`Toy`): ping lost, pong lost, peng lost, dual open with one ping lost — all hypotheses of
     `reliable_rounds_complete` hold and the rounds are evaluated.
-/
namespace VpnCloud.Proofs.C05Recover

open VpnCloud VpnCloud.Init VpnCloud.InitMsg
open VpnCloud.Proofs.InitLemmas VpnCloud.Proofs.C05AgreeLemmas VpnCloud.Proofs.C05Agree VpnCloud.Proofs.C05RecoverLemmas
open VpnCloud.Proofs.LockstepLemmas
open VpnCloud.Proofs.C05Lockstep (EcdhWF Opens)
open VpnCloud.Proofs.C16Init (algosWF msgWF)

/-! ## 0. the system: `C05Agree.Step` with slot-0 counter starts below 2^48 -/

/-- the steps of `C05Agree.Step`; the only difference: the random start value of the slot-0 send counter of a core created in a
    `deliver` step is `< 2^48` (the Rust code draws 6 random bytes), see `start_bound_needed` in the report -/
inductive StepW (P : Params) : Sys → Sys → Prop
  | ping (s : Sys) (x : Who) (rnd : Rand) (hst : (s.obj x).stage = Generated.STAGE_PING) (hr : RandOK P.env (s.obj x) rnd) :
      StepW P s (s.upd x (sendPing P.env (s.obj x) rnd).1 (sendPing P.env (s.obj x) rnd).2
        (newSig (s.obj x) (sendPing P.env (s.obj x) rnd).1 (sendPing P.env (s.obj x) rnd).2 rnd) [] [])
  | tick (s : Sys) (x : Who) :
      StepW P s (s.upd x (everySecond (s.obj x)).1 (match (everySecond (s.obj x)).2 with | .ok o => o | .error _ => []) [] [] [])
  | deliver (s : Sys) (x : Who) (w : Bytes) (rnd : Rand) (st' : InitSt) (out : Bytes) (res : InitResult) (log : SealLog)
      (hI : I1 P.env s.sigs (s.obj x).trusted w) (hr : RandOK P.env (s.obj x) rnd) (hw : rnd.start < 2 ^ 48)
      (h : handleInit P.env P.bodyOf P.ok (s.obj x) w rnd = .ok st' (out, res, log)) :
      StepW P s (s.upd x st' out (newSig (s.obj x) st' out rnd) log (doneOf res))
  | deliverErr (s : Sys) (x : Who) (w : Bytes) (rnd : Rand) (st' : InitSt) (e : InitErr)
      (hI : I1 P.env s.sigs (s.obj x).trusted w)
      (h : handleInit P.env P.bodyOf P.ok (s.obj x) w rnd = .err st' e) :
      StepW P s (s.upd x st' [] [] [] [])

theorem StepW.toStep {P : Params} {s s' : Sys} (h : StepW P s s') : Step P s s' := by
  cases h with
  | ping x rnd hst hr => exact .ping s x rnd hst hr
  | tick x => exact .tick s x
  | deliver x w rnd st' out res log hI hr hw h => exact .deliver s x w rnd st' out res log hI hr h
  | deliverErr x w rnd st' e hI h => exact .deliverErr s x w rnd st' e hI h

inductive ReachW (P : Params) (s0 : Sys) : Sys → Prop
  | refl : ReachW P s0 s0
  | step {s s' : Sys} : ReachW P s0 s → StepW P s s' → ReachW P s0 s'

/-- every run of the restricted system is a run of `C05Agree.Sys`: `attempt_agreement`, `success_at_most_once` apply -/
theorem ReachW.toReach {P : Params} {s0 s : Sys} (h : ReachW P s0 s) : Reach P s0 s := by
  induction h with
  | refl => exact .refl
  | step _ hs ih => exact .step ih hs.toStep

theorem ReachW.trans {P : Params} {s0 s s' : Sys} (h : ReachW P s0 s) (h' : ReachW P s s') : ReachW P s0 s' := by
  induction h' with
  | refl => exact h
  | step _ hs ih => exact .step ih hs

theorem seals_upd (s : Sys) (x : Who) (st' : InitSt) (out : Bytes) (sg : List (Bytes × Bytes)) (log : SealLog) (dn : List (Bytes × Bool)) :
    (s.upd x st' out sg log dn).seals = s.seals ++ log := by cases x <;> rfl

theorem StepW.seals_sub {P : Params} {s s' : Sys} (h : StepW P s s') : ∀ e ∈ s.seals, e ∈ s'.seals := by
  intro e he
  cases h <;> (rw [seals_upd]; exact List.mem_append_left _ he)

theorem ReachW.seals_sub {P : Params} {s s' : Sys} (h : ReachW P s s') : ∀ e ∈ s.seals, e ∈ s'.seals := by
  induction h with
  | refl => exact fun e he => he
  | step _ hs ih => exact fun e he => hs.seals_sub e (ih e he)

theorem opens_sub {bodyOf : BodyOf} {l l' : SealLog} (h : Opens bodyOf l') (hs : ∀ e ∈ l, e ∈ l') : Opens bodyOf l :=
  fun e he => h e (hs e he)

/-! ## 1. the recovery invariant on the system -/

/-- the recovery invariant (`RI` of `Lemmas/C05RecoverLemmas.lean`) of a system state, for the negotiation result `sel` -/
def RInv (P : Params) (sel : Option Cipher) (s : Sys) : Prop := RI P.env P.ok sel s.a s.b s.doneA s.doneB s.sigs s.seals

/-- static hypotheses on the pair (see `Good`): the negotiation succeeds with the same result `sel` at both ends, each payload parser
    accepts the other's payload, neither salted node-id hash is a salted hash of the other's node id -/
def GoodSys (P : Params) (sel : Option Cipher) (s : Sys) : Prop := Good P.env P.ok sel s.a s.b

theorem rinv_init (P : Params) (sel : Option Cipher) (s : Sys) (h : Init0 s) (hg : GoodSys P sel s) : RInv P sel s := by
  have fresh : ∀ (x y : InitSt) (d : List (Bytes × Bool)), FreshObj x → Obj sel x y s.seals d := by
    intro x y d hx
    refine ⟨Or.inl hx.stage, fun _ => ⟨hx.last, hx.ecdh, hx.crypto⟩, ?_, ?_, ?_, fun _ => hx.crypto⟩
    all_goals (intro e; rw [hx.stage] at e; exact absurd e (by decide))
  refine ⟨fresh _ _ _ h.a, fresh _ _ _ h.b, ?_, ⟨h.a.hash, h.a.algos, h.a.payload⟩, ⟨h.b.hash, h.b.algos, h.b.payload⟩, h.hashNe, ?_, hg⟩
  · intro k r hk
    rw [h.sigs] at hk; cases hk
  · intro e
    rw [h.a.stage] at e
    exact absurd e.1 (by decide)

theorem rinv_updA (P : Params) (sel : Option Cipher) (s : Sys) (st' : InitSt) (out : Bytes) (sg : List (Bytes × Bytes)) (log : SealLog)
    (dn : List (Bytes × Bool)) :
    RInv P sel (s.upd .A st' out sg log dn) ↔ RI P.env P.ok sel st' s.b (dn ++ s.doneA) s.doneB (s.sigs ++ sg) (s.seals ++ log) := Iff.rfl

theorem rinv_updB (P : Params) (sel : Option Cipher) (s : Sys) (st' : InitSt) (out : Bytes) (sg : List (Bytes × Bytes)) (log : SealLog)
    (dn : List (Bytes × Bool)) :
    RInv P sel (s.upd .B st' out sg log dn) ↔ RI P.env P.ok sel s.a st' s.doneA (dn ++ s.doneB) (s.sigs ++ sg) (s.seals ++ log) := Iff.rfl

/-- every step preserves the recovery invariant, as long as `bodyOf` is the ideal AEAD on the seal log -/
theorem rinv_step (P : Params) (sel : Option Cipher) (s s' : Sys) (h : RInv P sel s) (hs : StepW P s s')
    (hop : Opens P.bodyOf s.seals) : RInv P sel s' := by
  cases hs with
  | ping x rnd hst hr =>
    cases x with
    | A => exact (rinv_updA ..).2 (RI.ping h hst hr)
    | B => exact (rinv_updB ..).2 (RI.ping h.swap hst hr).swap
  | tick x =>
    cases x with
    | A =>
      refine (rinv_updA ..).2 ?_
      rw [List.append_nil, List.append_nil, List.nil_append]
      exact RI.tick h
    | B =>
      refine (rinv_updB ..).2 ?_
      rw [List.append_nil, List.append_nil, List.nil_append]
      exact (RI.tick h.swap).swap
  | deliver x w rnd st' out res log hI hr hw hh =>
    cases x with
    | A => exact (rinv_updA ..).2 (RI.eff_ok h P.bodyOf hI hr hw (handleInit_eff P.env P.bodyOf P.ok s.a w rnd) hh)
    | B => exact (rinv_updB ..).2 (RI.eff_ok h.swap P.bodyOf hI hr hw (handleInit_eff P.env P.bodyOf P.ok s.b w rnd) hh).swap
  | deliverErr x w rnd st' e hI hh =>
    cases x with
    | A =>
      refine (rinv_updA ..).2 ?_
      rw [List.append_nil, List.append_nil, List.nil_append]
      exact RI.eff_err h P.bodyOf hop hI (handleInit_eff P.env P.bodyOf P.ok s.a w rnd) rfl hh
    | B =>
      refine (rinv_updB ..).2 ?_
      rw [List.append_nil, List.append_nil, List.nil_append]
      exact (RI.eff_err h.swap P.bodyOf hop hI (handleInit_eff P.env P.bodyOf P.ok s.b w rnd) rfl hh).swap

/-- the invariant along a run whose final seal log satisfies the AEAD law -/
theorem rinv_run (P : Params) (sel : Option Cipher) (s s' : Sys) (h : RInv P sel s) (hr : ReachW P s s')
    (hop : Opens P.bodyOf s'.seals) : RInv P sel s' := by
  induction hr with
  | refl => exact h
  | step hr' hs ih =>
    have hop' := opens_sub hop hs.seals_sub
    exact rinv_step P sel _ _ (ih hop') hs hop'

theorem rinv_reach (P : Params) (sel : Option Cipher) (s0 s : Sys) (h0 : Init0 s0) (hg : GoodSys P sel s0) (hr : ReachW P s0 s)
    (hop : Opens P.bodyOf s.seals) : RInv P sel s :=
  rinv_run P sel s0 s (rinv_init P sel s0 h0 hg) hr hop


/-! ## 2. a reliable round -/

def _root_.VpnCloud.Proofs.C05Agree.Who.other : Who → Who
  | .A => .B
  | .B => .A

/-- what `every_second` writes to `out` (nothing on the fatal error) -/
def tickOut (st : InitSt) : Bytes :=
  match (everySecond st).2 with
  | .ok o => o
  | .error _ => []

/-- `every_second` at `x` -/
def tickAt (s : Sys) (x : Who) : Sys := s.upd x (everySecond (s.obj x)).1 (tickOut (s.obj x)) [] [] []

/-- what `x` answers to `w` (empty = nothing) -/
def replyOf (P : Params) (st : InitSt) (w : Bytes) (rnd : Rand) : Bytes :=
  match handleInit P.env P.bodyOf P.ok st w rnd with
  | .ok _ (out, _, _) => out
  | _ => []

/-- reliable delivery of the datagram `w` to `x` (no datagram: nothing happens) -/
def send (P : Params) (s : Sys) (x : Who) (w : Bytes) (rnd : Rand) : Sys := if w = [] then s else deliverTo P s x w rnd

/-- the datagram `x` sends in reply -/
def reply (P : Params) (s : Sys) (x : Who) (w : Bytes) (rnd : Rand) : Bytes := if w = [] then [] else replyOf P (s.obj x) w rnd

/-- side conditions of a reliable delivery: those of `StepW.deliver` — (I1) for the window, `RandOK`, counter start `< 2^48` — and
    RELIABILITY: the datagram arrives intact at a receiver that trusts the sender's key and verifies its signature, i.e. the
    receiver's `InitMsg::read_from` accepts it -/
structure SendOK (P : Params) (s : Sys) (x : Who) (w : Bytes) (rnd : Rand) : Prop where
  i1 : I1 P.env s.sigs (s.obj x).trusted w
  rok : RandOK P.env (s.obj x) rnd
  start : rnd.start < 2 ^ 48
  reads : ∃ m k, readFrom P.env w (s.obj x).trusted = .ok (m, k)

/-- the random parts of the (up to) four deliveries of a round -/
structure RoundRand where
  b1 : Rand
  a1 : Rand
  a2 : Rand
  b2 : Rand

/-- **one reliable round**, a fixed schedule of six steps: `every_second` at A, `every_second` at B (each retransmits its last
    message if it still waits); A's datagram is delivered to B, B's datagram to A; then B's reply to A and A's reply to B.  (Replies
    to the replies are not delivered in this round.) -/
def rnd0 (s : Sys) : Sys := tickAt (tickAt s .A) .B
def rnd1 (P : Params) (s : Sys) (r : RoundRand) : Sys := send P (rnd0 s) .B (tickOut s.a) r.b1
def replyB (P : Params) (s : Sys) (r : RoundRand) : Bytes := reply P (rnd0 s) .B (tickOut s.a) r.b1
def rnd2 (P : Params) (s : Sys) (r : RoundRand) : Sys := send P (rnd1 P s r) .A (tickOut s.b) r.a1
def replyA (P : Params) (s : Sys) (r : RoundRand) : Bytes := reply P (rnd1 P s r) .A (tickOut s.b) r.a1
def rnd3 (P : Params) (s : Sys) (r : RoundRand) : Sys := send P (rnd2 P s r) .A (replyB P s r) r.a2
def round (P : Params) (s : Sys) (r : RoundRand) : Sys := send P (rnd3 P s r) .B (replyA P s r) r.b2

/-- the side conditions of the deliveries of a round -/
structure RoundOK (P : Params) (s : Sys) (r : RoundRand) : Prop where
  k1 : tickOut s.a ≠ [] → SendOK P (rnd0 s) .B (tickOut s.a) r.b1
  k2 : tickOut s.b ≠ [] → SendOK P (rnd1 P s r) .A (tickOut s.b) r.a1
  k3 : replyB P s r ≠ [] → SendOK P (rnd2 P s r) .A (replyB P s r) r.a2
  k4 : replyA P s r ≠ [] → SendOK P (rnd3 P s r) .B (replyA P s r) r.b2

/-! ### the system after a delivery -/

theorem obj_upd_self (s : Sys) (x : Who) (st' : InitSt) (out : Bytes) (sg : List (Bytes × Bytes)) (log : SealLog) (dn : List (Bytes × Bool)) :
    (s.upd x st' out sg log dn).obj x = st' := by cases x <;> rfl

theorem obj_upd_other (s : Sys) (x : Who) (st' : InitSt) (out : Bytes) (sg : List (Bytes × Bytes)) (log : SealLog) (dn : List (Bytes × Bool)) :
    (s.upd x st' out sg log dn).obj x.other = s.obj x.other := by cases x <;> rfl

theorem done_upd_self (s : Sys) (x : Who) (st' : InitSt) (out : Bytes) (sg : List (Bytes × Bytes)) (log : SealLog) (dn : List (Bytes × Bool)) :
    (s.upd x st' out sg log dn).done x = dn ++ s.done x := by cases x <;> rfl

theorem done_upd_other (s : Sys) (x : Who) (st' : InitSt) (out : Bytes) (sg : List (Bytes × Bytes)) (log : SealLog) (dn : List (Bytes × Bool)) :
    (s.upd x st' out sg log dn).done x.other = s.done x.other := by cases x <;> rfl

/-- the invariant seen from `x` -/
theorem RInv.at {P : Params} {sel : Option Cipher} {s : Sys} (h : RInv P sel s) (x : Who) :
    RI P.env P.ok sel (s.obj x) (s.obj x.other) (s.done x) (s.done x.other) s.sigs s.seals := by
  cases x
  · exact h
  · exact h.swap

theorem send_reach {P : Params} {s : Sys} {x : Who} {w : Bytes} {rnd : Rand} (hok : w ≠ [] → SendOK P s x w rnd) :
    ReachW P s (send P s x w rnd) := by
  unfold send
  by_cases hw : w = []
  · rw [if_pos hw]; exact .refl
  · rw [if_neg hw]
    have k := hok hw
    unfold deliverTo
    cases h : handleInit P.env P.bodyOf P.ok (s.obj x) w rnd with
    | ok st' r =>
      obtain ⟨out, res, log⟩ := r
      exact .step .refl (.deliver s x w rnd st' out res log k.i1 k.rok k.start h)
    | err st' e => exact .step .refl (.deliverErr s x w rnd st' e k.i1 h)
    | panic => exact .refl

theorem tick_reach {P : Params} (s : Sys) (x : Who) : ReachW P s (tickAt s x) := .step .refl (.tick s x)

theorem send_eq {P : Params} {s : Sys} {x : Who} {w : Bytes} {rnd : Rand} {st' : InitSt} {out : Bytes} {res : InitResult} {log : SealLog}
    (hw : w ≠ []) (h : handleInit P.env P.bodyOf P.ok (s.obj x) w rnd = .ok st' (out, res, log)) :
    send P s x w rnd = s.upd x st' out (newSig (s.obj x) st' out rnd) log (doneOf res) ∧ reply P s x w rnd = out := by
  unfold send reply replyOf deliverTo
  rw [if_neg hw, if_neg hw, h]
  exact ⟨rfl, rfl⟩

/-- retry counter and close timer through a delivery: the counter does not grow, the timer stays or is set to `CLOSE_TIME` -/
theorem handleInit_margin (P : Params) (x : InitSt) (w : Bytes) (rnd : Rand) {st' : InitSt} {r : Bytes × InitResult × SealLog}
    (h : handleInit P.env P.bodyOf P.ok x w rnd = .ok st' r) :
    st'.retries ≤ x.retries ∧ (st'.closeTime = x.closeTime ∨ st'.closeTime = Generated.CLOSE_TIME) := by
  have he := handleInit_eff P.env P.bodyOf P.ok x w rnd
  rw [h] at he
  generalize hR : (Outcome.ok st' r : Res) = R at he
  cases he with
  | quietErr => cases hR
  | quietOk o ho =>
    simp only [Outcome.ok.injEq] at hR
    rw [hR.1]; exact ⟨Nat.le_refl _, Or.inl rfl⟩
  | panic => cases hR
  | pingErr => cases hR
  | pongSelErr => cases hR
  | pongFail => cases hR
  | pengFail => cases hR
  | pingOk hh e al k st0 sel hr hne hst0 hsel =>
    unfold pingRes at hR
    simp only [Outcome.ok.injEq] at hR
    rw [hR.1, sendMessage_pong, encryptPayload_fst]
    have hc : st0.closeTime = x.closeTime := by rcases hst0 with ⟨rfl, _⟩ | ⟨rfl, _⟩ <;> rfl
    cases sel <;> exact ⟨Nat.zero_le _, Or.inl hc⟩
  | pongOk hb eb ab pl k own sel st5 p hr hne hstage hown hsel hd hok =>
    unfold pongRes at hR
    simp only [Outcome.ok.injEq] at hR
    obtain ⟨cr, hcr⟩ := decryptPayload_frame _ _ _ _ _ hd
    rw [hR.1, sendMessage_peng, encryptPayload_fst, hcr]
    cases sel <;> exact ⟨Nat.zero_le _, Or.inr rfl⟩
  | pengOk hb pl k st2 p hr hne hstage hd hok =>
    simp only [Outcome.ok.injEq] at hR
    obtain ⟨cr, _, hst2⟩ := decryptPayload_step hd
    rw [hR.1, hst2]
    exact ⟨Nat.zero_le _, Or.inl rfl⟩


/-! ### the abstract view of a delivery -/

/-- a datagram in abstract form: kind 0 = no datagram, else a message of stage `k` of the object with salted hash `hash` -/
def Dg (w : Bytes) (k : Nat) (hash : Bytes) : Prop := if k = 0 then w = [] else IsMsg w k hash

/-- **abstract delivery**: receiver in stage `sx`, `gx` = "the peer's salted hash is the larger one", datagram of kind `k`
    (0 = none, 1 ping, 2 pong, 3 peng): new stage, kind of the reply (0 = none), success reported.  `none` = a combination that does not
    occur in reachable states (e.g. a pong for a fresh object). -/
def recv (gx : Bool) (sx k : Nat) : Option (Nat × Nat × Bool) :=
  if k = 0 then some (sx, 0, false)
  else if sx = 5 then some (5, 0, false)
  else if sx = 1 ∧ k = 1 then some (3, 2, false)
  else if sx = 2 ∧ k = 1 then (if gx then some (3, 2, false) else some (2, 0, false))
  else if sx = 2 ∧ k = 2 then some (4, 3, true)
  else if sx = 3 ∧ k = 3 then some (5, 0, true)
  else if sx = 3 ∧ k = 1 then some (3, 2, false)
  else if sx = 4 ∧ k = 2 then some (4, 3, false)
  else none

/-- what a delivery to `x` does, in terms of the abstract result -/
structure SendRes (P : Params) (sel : Option Cipher) (s : Sys) (x : Who) (s' : Sys) (out : Bytes) (sx' k' : Nat) (d : Bool) : Prop where
  inv : RInv P sel s'
  stage : (s'.obj x).stage = sx'
  out : Dg out k' (s.obj x).hash
  other : s'.obj x.other = s.obj x.other
  doneOther : s'.done x.other = s.done x.other
  done : s'.done x ≠ [] ↔ (d = true ∨ s.done x ≠ [])
  static : Static (s.obj x) (s'.obj x)
  retries : (s'.obj x).retries ≤ (s.obj x).retries
  close : (s'.obj x).closeTime = (s.obj x).closeTime ∨ (s'.obj x).closeTime = Generated.CLOSE_TIME

theorem isMsg_kind {w : Bytes} {k : Nat} {hash : Bytes} (h : IsMsg w k hash) : k = 1 ∨ k = 2 ∨ k = 3 := by
  obtain ⟨m, _, _, _, _, _, _, _, hk, _⟩ := h
  rw [← hk]
  exact msg_stage_cases m

theorem sendRes_of {P : Params} {sel : Option Cipher} {s : Sys} {x : Who} {w : Bytes} {rnd : Rand} (hinv : RInv P sel s)
    (hop : Opens P.bodyOf (send P s x w rnd).seals) (hw : w ≠ []) (hok : w ≠ [] → SendOK P s x w rnd)
    {st' : InitSt} {out : Bytes} {res : InitResult} {log : SealLog}
    (heq : handleInit P.env P.bodyOf P.ok (s.obj x) w rnd = .ok st' (out, res, log)) {sx' k' : Nat} {d : Bool}
    (hstage : st'.stage = sx') (hout : Dg out k' (s.obj x).hash) (hd : doneOf res ≠ [] ↔ d = true) :
    SendRes P sel s x (send P s x w rnd) (reply P s x w rnd) sx' k' d := by
  have hinv' := rinv_run P sel s _ hinv (send_reach hok) hop
  obtain ⟨e1, e2⟩ := send_eq hw heq
  obtain ⟨m1, m2⟩ := handleInit_margin P (s.obj x) w rnd heq
  rw [e1] at hinv' ⊢
  rw [e2]
  refine ⟨hinv', by rw [obj_upd_self]; exact hstage, hout, obj_upd_other .., done_upd_other .., ?_,
    by rw [obj_upd_self]; exact (handleInit_eff P.env P.bodyOf P.ok (s.obj x) w rnd).static_ok heq,
    by rw [obj_upd_self]; exact m1, by rw [obj_upd_self]; exact m2⟩
  rw [done_upd_self, ← hd]
  constructor
  · intro h
    by_cases h1 : doneOf res = []
    · right; rw [h1] at h; exact h
    · left; exact h1
  · intro h e
    rcases h with h | h
    · exact h (List.append_eq_nil_iff.1 e).1
    · exact h (List.append_eq_nil_iff.1 e).2

/-- **a reliable delivery refines the abstract delivery** -/
theorem send_abs {P : Params} {sel : Option Cipher} {s : Sys} {x : Who} {w : Bytes} {rnd : Rand} {k : Nat} (hinv : RInv P sel s)
    (hop : Opens P.bodyOf (send P s x w rnd).seals) (hw : Dg w k (s.obj x.other).hash) (hok : w ≠ [] → SendOK P s x w rnd)
    {sx' k' : Nat} {d : Bool}
    (hrecv : recv (bytesGt (s.obj x.other).hash (s.obj x).hash) (s.obj x).stage k = some (sx', k', d)) :
    SendRes P sel s x (send P s x w rnd) (reply P s x w rnd) sx' k' d := by
  unfold recv at hrecv
  by_cases h0 : k = 0
  · rw [if_pos h0] at hrecv
    simp only [Option.some.injEq, Prod.mk.injEq] at hrecv
    obtain ⟨rfl, rfl, rfl⟩ := hrecv
    have hw' : w = [] := by unfold Dg at hw; rwa [if_pos h0] at hw
    unfold send reply
    rw [if_pos hw', if_pos hw']
    exact ⟨hinv, rfl, rfl, rfl, rfl, by simp, Static.refl _, Nat.le_refl _, Or.inl rfl⟩
  rw [if_neg h0] at hrecv
  have hmsg : IsMsg w k (s.obj x.other).hash := by unfold Dg at hw; rwa [if_neg h0] at hw
  have hwne := hmsg.ne_nil
  have K := hok hwne
  have hop0 : Opens P.bodyOf s.seals := opens_sub hop (send_reach hok).seals_sub
  have hat := hinv.at x
  have hkind := isMsg_kind hmsg
  by_cases h5 : (s.obj x).stage = 5
  · rw [if_pos h5] at hrecv
    simp only [Option.some.injEq, Prod.mk.injEq] at hrecv
    obtain ⟨rfl, rfl, rfl⟩ := hrecv
    have heq := hat.closed_ignores P.bodyOf (rnd := rnd) hmsg K.reads h5 (by rcases hkind with e | e | e <;> (rw [e]; decide))
    exact sendRes_of hinv hop hwne hok heq h5 rfl (by simp [doneOf])
  rw [if_neg h5] at hrecv
  by_cases h11 : (s.obj x).stage = 1 ∧ k = 1
  · rw [if_pos h11] at hrecv
    simp only [Option.some.injEq, Prod.mk.injEq] at hrecv
    obtain ⟨rfl, rfl, rfl⟩ := hrecv
    obtain ⟨hx, rfl⟩ := h11
    obtain ⟨st', out, log, heq, hs', hl', hri'⟩ := hat.ping_answered P.bodyOf K.i1 K.rok K.start hmsg K.reads (Or.inl hx)
    obtain ⟨w', hw1, hw2⟩ := (hri'.ox.o4 hs').isMsg
    have hst := (handleInit_eff P.env P.bodyOf P.ok (s.obj x) w rnd).static_ok heq
    rw [hl'] at hw1; cases hw1
    rw [hst.2.1] at hw2
    exact sendRes_of hinv hop hwne hok heq hs' hw2 (by simp [doneOf])
  rw [if_neg h11] at hrecv
  by_cases h21 : (s.obj x).stage = 2 ∧ k = 1
  · rw [if_pos h21] at hrecv
    obtain ⟨hx, rfl⟩ := h21
    cases hg : bytesGt (s.obj x.other).hash (s.obj x).hash with
    | true =>
      rw [hg] at hrecv
      simp only [if_true, Option.some.injEq, Prod.mk.injEq] at hrecv
      obtain ⟨rfl, rfl, rfl⟩ := hrecv
      obtain ⟨st', out, log, heq, hs', hl', hri'⟩ := hat.ping_answered P.bodyOf K.i1 K.rok K.start hmsg K.reads (Or.inr ⟨hx, hg⟩)
      obtain ⟨w', hw1, hw2⟩ := (hri'.ox.o4 hs').isMsg
      have hst := (handleInit_eff P.env P.bodyOf P.ok (s.obj x) w rnd).static_ok heq
      rw [hl'] at hw1; cases hw1
      rw [hst.2.1] at hw2
      exact sendRes_of hinv hop hwne hok heq hs' hw2 (by simp [doneOf])
    | false =>
      rw [hg] at hrecv
      simp only [Bool.false_eq_true, if_false, Option.some.injEq, Prod.mk.injEq] at hrecv
      obtain ⟨rfl, rfl, rfl⟩ := hrecv
      have heq := hat.ping_ignored P.bodyOf (rnd := rnd) hmsg K.reads hx hg
      exact sendRes_of hinv hop hwne hok heq hx rfl (by simp [doneOf])
  rw [if_neg h21] at hrecv
  by_cases h22 : (s.obj x).stage = 2 ∧ k = 2
  · rw [if_pos h22] at hrecv
    simp only [Option.some.injEq, Prod.mk.injEq] at hrecv
    obtain ⟨rfl, rfl, rfl⟩ := hrecv
    obtain ⟨hx, rfl⟩ := h22
    obtain ⟨st', out, log, heq, hs', hl', hri'⟩ := hat.pong_completes P.bodyOf hop0 K.i1 K.rok K.start hmsg K.reads hx
    obtain ⟨w', hw1, hw2⟩ := (hri'.ox.o5 hs').1.isMsg
    have hst := (handleInit_eff P.env P.bodyOf P.ok (s.obj x) w rnd).static_ok heq
    rw [hl'] at hw1; cases hw1
    rw [hst.2.1] at hw2
    exact sendRes_of hinv hop hwne hok heq hs' hw2 (by simp [doneOf])
  rw [if_neg h22] at hrecv
  by_cases h33 : (s.obj x).stage = 3 ∧ k = 3
  · rw [if_pos h33] at hrecv
    simp only [Option.some.injEq, Prod.mk.injEq] at hrecv
    obtain ⟨rfl, rfl, rfl⟩ := hrecv
    obtain ⟨hx, rfl⟩ := h33
    obtain ⟨st', heq, hs'⟩ := hat.peng_completes P.bodyOf hop0 (rnd := rnd) K.i1 hmsg K.reads hx
    exact sendRes_of hinv hop hwne hok heq hs' rfl (by simp [doneOf])
  rw [if_neg h33] at hrecv
  by_cases h31 : (s.obj x).stage = 3 ∧ k = 1
  · rw [if_pos h31] at hrecv
    simp only [Option.some.injEq, Prod.mk.injEq] at hrecv
    obtain ⟨rfl, rfl, rfl⟩ := hrecv
    obtain ⟨hx, rfl⟩ := h31
    obtain ⟨l, _, hl2, heq⟩ := hat.repeats P.bodyOf (rnd := rnd) hmsg K.reads (Or.inl hx) (by rw [hx]; decide)
    rw [if_pos (show (s.obj x).stage = PENG from hx)] at hl2
    exact sendRes_of hinv hop hwne hok heq hx hl2 (by simp [doneOf])
  rw [if_neg h31] at hrecv
  by_cases h42 : (s.obj x).stage = 4 ∧ k = 2
  · rw [if_pos h42] at hrecv
    simp only [Option.some.injEq, Prod.mk.injEq] at hrecv
    obtain ⟨rfl, rfl, rfl⟩ := hrecv
    obtain ⟨hx, rfl⟩ := h42
    obtain ⟨l, _, hl2, heq⟩ := hat.repeats P.bodyOf (rnd := rnd) hmsg K.reads (Or.inr hx) (by rw [hx]; decide)
    rw [if_neg (show ¬ (s.obj x).stage = PENG by rw [hx]; decide)] at hl2
    exact sendRes_of hinv hop hwne hok heq hx hl2 (by simp [doneOf])
  rw [if_neg h42] at hrecv
  cases hrecv


/-! ### the abstract view of a timer tick -/

/-- kind of the datagram an object in stage `sx` retransmits at a tick -/
def tickKind (sx : Nat) : Nat := if sx = 2 then 1 else if sx = 3 then 2 else 0

/-- every object that is not closed is `n` ticks away from giving up (retry limit) and from closing after completion (close timer) -/
def Margin (n : Nat) (s : Sys) : Prop :=
  ∀ x : Who, (s.obj x).stage = CLOSING ∨ ((s.obj x).retries + n ≤ Generated.MAX_FAILED_RETRIES ∧ n ≤ (s.obj x).closeTime)

structure TickRes (P : Params) (sel : Option Cipher) (s : Sys) (x : Who) (s' : Sys) : Prop where
  inv : RInv P sel s'
  static : Static (s.obj x) (s'.obj x)
  stage : (s'.obj x).stage = (s.obj x).stage
  other : s'.obj x.other = s.obj x.other
  done : s'.done x = s.done x
  doneOther : s'.done x.other = s.done x.other
  out : Dg (tickOut (s.obj x)) (tickKind (s.obj x).stage) (s.obj x).hash
  retries : (s'.obj x).retries ≤ (s.obj x).retries + 1
  close : (s.obj x).closeTime ≤ (s'.obj x).closeTime + 1

/-- `every_second` of an object that is at least one tick away from giving up / closing: the stage stays, an initiator awaiting the
    pong retransmits its ping, a responder awaiting the peng its pong, the others send nothing -/
theorem tick_abs {P : Params} {sel : Option Cipher} {s : Sys} (x : Who) (hinv : RInv P sel s) (hop : Opens P.bodyOf s.seals)
    (hm : (s.obj x).stage = CLOSING ∨ ((s.obj x).retries + 1 ≤ Generated.MAX_FAILED_RETRIES ∧ 1 ≤ (s.obj x).closeTime)) :
    TickRes P sel s x (tickAt s x) := by
  have hinv' : RInv P sel (tickAt s x) := rinv_step P sel s _ hinv (.tick s x) hop
  have hat := hinv.at x
  have key : (everySecond (s.obj x)).1.stage = (s.obj x).stage ∧ Static (s.obj x) (everySecond (s.obj x)).1 ∧
      Dg (tickOut (s.obj x)) (tickKind (s.obj x).stage) (s.obj x).hash ∧
      (everySecond (s.obj x)).1.retries ≤ (s.obj x).retries + 1 ∧ (s.obj x).closeTime ≤ (everySecond (s.obj x)).1.closeTime + 1 := by
    have hrc : (s.obj x).stage ≠ CLOSING → (s.obj x).retries + 1 ≤ Generated.MAX_FAILED_RETRIES ∧ 1 ≤ (s.obj x).closeTime := by
      intro hne
      rcases hm with q | q
      · exact absurd q hne
      · exact q
    have hretry : ∀ k, (s.obj x).stage = k → k ≠ WAIT → k ≠ CLOSING →
        everySecond (s.obj x) = ({ s.obj x with retries := (s.obj x).retries + 1 }, .ok ((s.obj x).last.getD [])) := by
      intro k hk h1 h2
      have := (hrc (by rw [hk]; exact h2)).1
      exact C01Mutual.everySecond_retry _ (by rw [hk]; exact h1) (by rw [hk]; exact h2) (by omega)
    rcases hat.ox.st with e | e | e | e | e
    · have he := hretry _ e (by decide) (by decide)
      unfold tickOut
      rw [he, e]
      refine ⟨by first | rfl | exact e, ⟨rfl, rfl, rfl, rfl, rfl, rfl⟩, ?_, Nat.le_refl _, Nat.le_succ _⟩
      show (s.obj x).last.getD [] = []
      rw [(hat.ox.o2 e).1]; rfl
    · have he := hretry _ e (by decide) (by decide)
      obtain ⟨w, hw1, hw2⟩ := (hat.ox.o3 e).2.isMsg
      unfold tickOut
      rw [he, e]
      refine ⟨by first | rfl | exact e, ⟨rfl, rfl, rfl, rfl, rfl, rfl⟩, ?_, Nat.le_refl _, Nat.le_succ _⟩
      show IsMsg ((s.obj x).last.getD []) 1 _
      rw [hw1]; exact hw2
    · have he := hretry _ e (by decide) (by decide)
      obtain ⟨w, hw1, hw2⟩ := (hat.ox.o4 e).isMsg
      unfold tickOut
      rw [he, e]
      refine ⟨by first | rfl | exact e, ⟨rfl, rfl, rfl, rfl, rfl, rfl⟩, ?_, Nat.le_refl _, Nat.le_succ _⟩
      show IsMsg ((s.obj x).last.getD []) 2 _
      rw [hw1]; exact hw2
    · have hc := (hrc (by rw [e]; decide)).2
      have he : everySecond (s.obj x) = ({ s.obj x with closeTime := (s.obj x).closeTime - 1 }, .ok []) := by
        unfold everySecond
        rw [if_pos e, if_neg (by omega)]
      unfold tickOut
      rw [he, e]
      exact ⟨by first | rfl | exact e, ⟨rfl, rfl, rfl, rfl, rfl, rfl⟩, rfl, Nat.le_succ _, by show _ ≤ (s.obj x).closeTime - 1 + 1; omega⟩
    · have he : everySecond (s.obj x) = (s.obj x, .ok []) := by
        unfold everySecond
        rw [if_neg (by rw [e]; decide), if_pos e]
      unfold tickOut
      rw [he, e]
      exact ⟨by first | rfl | exact e, Static.refl _, rfl, Nat.le_succ _, Nat.le_succ _⟩
  obtain ⟨k1, k2, k3, k4, k5⟩ := key
  unfold tickAt at hinv' ⊢
  exact ⟨hinv', by rw [obj_upd_self]; exact k2, by rw [obj_upd_self]; exact k1, obj_upd_other .., by rw [done_upd_self]; rfl,
    done_upd_other .., k3, by rw [obj_upd_self]; exact k4, by rw [obj_upd_self]; exact k5⟩


/-! ### the abstract round and its refinement -/

/-- abstract state of the pair: the two stages, and whether each side has reported success -/
structure AS where
  sa : Nat
  sb : Nat
  da : Bool
  db : Bool
  deriving DecidableEq, Repr

def absOf (s : Sys) : AS := ⟨s.a.stage, s.b.stage, decide (s.doneA ≠ []), decide (s.doneB ≠ [])⟩

/-- **the abstract round** (`g` = "B's salted hash is larger than A's"): ticks, A's datagram to B, B's datagram to A, B's reply to A,
    A's reply to B -/
def aRound (g : Bool) (t : AS) : Option AS :=
  match recv (!g) t.sb (tickKind t.sa) with
  | none => none
  | some (sb1, kB, dB1) =>
    match recv g t.sa (tickKind t.sb) with
    | none => none
    | some (sa1, kA, dA1) =>
      match recv g sa1 kB with
      | none => none
      | some (sa2, _, dA2) =>
        match recv (!g) sb1 kA with
        | none => none
        | some (sb2, _, dB2) => some ⟨sa2, sb2, dA2 || (dA1 || t.da), dB2 || (dB1 || t.db)⟩

theorem recv_closed {g : Bool} {k s' k' : Nat} {d : Bool} (h : recv g 5 k = some (s', k', d)) : s' = 5 := by
  unfold recv at h
  by_cases h0 : k = 0
  · rw [if_pos h0] at h
    simp only [Option.some.injEq, Prod.mk.injEq] at h
    exact h.1.symm
  · rw [if_neg h0, if_pos rfl] at h
    simp only [Option.some.injEq, Prod.mk.injEq] at h
    exact h.1.symm

theorem decide_or {X Y : Prop} [Decidable X] [Decidable Y] {d : Bool} (h : X ↔ (d = true ∨ Y)) : decide X = (d || decide Y) := by
  cases d <;> by_cases hy : Y <;> simp [hy] at h ⊢ <;> exact h

theorem send_abs' {P : Params} {sel : Option Cipher} {s : Sys} {x : Who} {w : Bytes} {rnd : Rand} {k : Nat} (hinv : RInv P sel s)
    (hop : Opens P.bodyOf (send P s x w rnd).seals) {hash : Bytes} (hw : Dg w k hash) (hh : (s.obj x.other).hash = hash)
    (hok : w ≠ [] → SendOK P s x w rnd) {gx : Bool} {sx sx' k' : Nat} {d : Bool}
    (hg : bytesGt (s.obj x.other).hash (s.obj x).hash = gx) (hsx : (s.obj x).stage = sx)
    (hrecv : recv gx sx k = some (sx', k', d)) :
    SendRes P sel s x (send P s x w rnd) (reply P s x w rnd) sx' k' d := by
  subst hg; subst hsx; subst hh
  exact send_abs hinv hop hw hok hrecv

/-- **a reliable round refines the abstract round** (as long as both objects are a tick away from giving up / closing) -/
theorem round_abs {P : Params} {sel : Option Cipher} {s : Sys} {r : RoundRand} {n : Nat} (hinv : RInv P sel s)
    (hm : Margin (n + 1) s) (hn : n ≤ Generated.CLOSE_TIME) (hok : RoundOK P s r) (hop : Opens P.bodyOf (round P s r).seals) {t' : AS}
    (ha : aRound (bytesGt s.b.hash s.a.hash) (absOf s) = some t') :
    absOf (round P s r) = t' ∧ RInv P sel (round P s r) ∧ Margin n (round P s r) ∧ ReachW P s (round P s r) := by
  -- the run
  have R01 : ReachW P s (tickAt s .A) := tick_reach s .A
  have R0 : ReachW P (tickAt s .A) (rnd0 s) := tick_reach _ .B
  have R1 : ReachW P (rnd0 s) (rnd1 P s r) := send_reach hok.k1
  have R2 : ReachW P (rnd1 P s r) (rnd2 P s r) := send_reach hok.k2
  have R3 : ReachW P (rnd2 P s r) (rnd3 P s r) := send_reach hok.k3
  have R4 : ReachW P (rnd3 P s r) (round P s r) := send_reach hok.k4
  have hop3 := opens_sub hop R4.seals_sub
  have hop2 := opens_sub hop3 R3.seals_sub
  have hop1 := opens_sub hop2 R2.seals_sub
  have hop0 := opens_sub hop1 R1.seals_sub
  have hop0' := opens_sub hop0 R0.seals_sub
  have hops := opens_sub hop0' R01.seals_sub
  have hopp := C05.halves_opposite s.a.hash s.b.hash hinv.hne
  -- the ticks
  have mA : s.a.stage = CLOSING ∨ (s.a.retries + (n + 1) ≤ Generated.MAX_FAILED_RETRIES ∧ n + 1 ≤ s.a.closeTime) := hm .A
  have mB : s.b.stage = CLOSING ∨ (s.b.retries + (n + 1) ≤ Generated.MAX_FAILED_RETRIES ∧ n + 1 ≤ s.b.closeTime) := hm .B
  have T1 := tick_abs .A hinv hops (by
    show s.a.stage = CLOSING ∨ (s.a.retries + 1 ≤ _ ∧ 1 ≤ s.a.closeTime)
    rcases mA with q | ⟨q1, q2⟩
    · exact Or.inl q
    · exact Or.inr ⟨by omega, by omega⟩)
  have b1 : (tickAt s .A).b = s.b := T1.other
  have T2 := tick_abs .B T1.inv hop0' (by
    show (tickAt s .A).b.stage = CLOSING ∨ ((tickAt s .A).b.retries + 1 ≤ _ ∧ 1 ≤ (tickAt s .A).b.closeTime)
    rw [b1]
    rcases mB with q | ⟨q1, q2⟩
    · exact Or.inl q
    · exact Or.inr ⟨by omega, by omega⟩)
  have a0 : (rnd0 s).a = (tickAt s .A).a := T2.other
  have a0s : (rnd0 s).a.stage = s.a.stage := by rw [a0]; exact T1.stage
  have a0h : (rnd0 s).a.hash = s.a.hash := by rw [a0]; exact T1.static.2.1
  have b0s : (rnd0 s).b.stage = s.b.stage := by have : (rnd0 s).b.stage = (tickAt s .A).b.stage := T2.stage; rw [this, b1]
  have b0h : (rnd0 s).b.hash = s.b.hash := by have : (rnd0 s).b.hash = (tickAt s .A).b.hash := T2.static.2.1; rw [this, b1]
  have dA0 : (rnd0 s).doneA = s.doneA := by have : (rnd0 s).doneA = (tickAt s .A).doneA := T2.doneOther; rw [this]; exact T1.done
  have dB0 : (rnd0 s).doneB = s.doneB := by have : (rnd0 s).doneB = (tickAt s .A).doneB := T2.done; rw [this]; exact T1.doneOther
  have oA : Dg (tickOut s.a) (tickKind s.a.stage) s.a.hash := T1.out
  have oB : Dg (tickOut s.b) (tickKind s.b.stage) s.b.hash := by
    have : Dg (tickOut (tickAt s .A).b) (tickKind (tickAt s .A).b.stage) (tickAt s .A).b.hash := T2.out
    rwa [b1] at this
  -- the abstract round
  unfold aRound at ha
  cases h1 : recv (!bytesGt s.b.hash s.a.hash) (absOf s).sb (tickKind (absOf s).sa) with
  | none => rw [h1] at ha; cases ha
  | some r1 =>
    obtain ⟨sb1, kB, dB1⟩ := r1
    rw [h1] at ha
    simp only at ha
    cases h2 : recv (bytesGt s.b.hash s.a.hash) (absOf s).sa (tickKind (absOf s).sb) with
    | none => rw [h2] at ha; cases ha
    | some r2 =>
      obtain ⟨sa1, kA, dA1⟩ := r2
      rw [h2] at ha
      simp only at ha
      cases h3 : recv (bytesGt s.b.hash s.a.hash) sa1 kB with
      | none => rw [h3] at ha; cases ha
      | some r3 =>
        obtain ⟨sa2, kA2, dA2⟩ := r3
        rw [h3] at ha
        simp only at ha
        cases h4 : recv (!bytesGt s.b.hash s.a.hash) sb1 kA with
        | none => rw [h4] at ha; cases ha
        | some r4 =>
          obtain ⟨sb2, kB2, dB2⟩ := r4
          rw [h4] at ha
          simp only [Option.some.injEq] at ha
          -- first delivery: A's datagram to B
          have S1 : SendRes P sel (rnd0 s) .B (rnd1 P s r) (replyB P s r) sb1 kB dB1 :=
            send_abs' T2.inv hop1 oA a0h hok.k1 (gx := !bytesGt s.b.hash s.a.hash)
              (by show bytesGt (rnd0 s).a.hash (rnd0 s).b.hash = _; rw [a0h, b0h, hopp]) b0s h1
          have a1 : (rnd1 P s r).a = (rnd0 s).a := S1.other
          have b1h : (rnd1 P s r).b.hash = s.b.hash := by
            have : (rnd1 P s r).b.hash = (rnd0 s).b.hash := S1.static.2.1
            rw [this, b0h]
          have pB : Dg (replyB P s r) kB s.b.hash := by have := S1.out; rwa [show ((rnd0 s).obj .B).hash = s.b.hash from b0h] at this
          -- second delivery: B's datagram to A
          have S2 : SendRes P sel (rnd1 P s r) .A (rnd2 P s r) (replyA P s r) sa1 kA dA1 :=
            send_abs' S1.inv hop2 oB b1h hok.k2 (gx := bytesGt s.b.hash s.a.hash)
              (by show bytesGt (rnd1 P s r).b.hash (rnd1 P s r).a.hash = _; rw [b1h, a1, a0h])
              (by show (rnd1 P s r).a.stage = _; rw [a1]; exact a0s) h2
          have b2 : (rnd2 P s r).b = (rnd1 P s r).b := S2.other
          have a2h : (rnd2 P s r).a.hash = s.a.hash := by
            have : (rnd2 P s r).a.hash = (rnd1 P s r).a.hash := S2.static.2.1
            rw [this, a1, a0h]
          have pA : Dg (replyA P s r) kA s.a.hash := by
            have := S2.out
            rwa [show ((rnd1 P s r).obj .A).hash = s.a.hash by show (rnd1 P s r).a.hash = _; rw [a1, a0h]] at this
          -- third delivery: B's reply to A
          have S3 : SendRes P sel (rnd2 P s r) .A (rnd3 P s r) (reply P (rnd2 P s r) .A (replyB P s r) r.a2) sa2 kA2 dA2 :=
            send_abs' S2.inv hop3 pB (by show (rnd2 P s r).b.hash = _; rw [b2, b1h]) hok.k3 (gx := bytesGt s.b.hash s.a.hash)
              (by show bytesGt (rnd2 P s r).b.hash (rnd2 P s r).a.hash = _; rw [b2, b1h, a2h]) S2.stage h3
          have b3 : (rnd3 P s r).b = (rnd2 P s r).b := S3.other
          have a3h : (rnd3 P s r).a.hash = s.a.hash := by
            have : (rnd3 P s r).a.hash = (rnd2 P s r).a.hash := S3.static.2.1
            rw [this, a2h]
          -- fourth delivery: A's reply to B
          have S4 : SendRes P sel (rnd3 P s r) .B (round P s r) (reply P (rnd3 P s r) .B (replyA P s r) r.b2) sb2 kB2 dB2 :=
            send_abs' S3.inv hop pA a3h hok.k4 (gx := !bytesGt s.b.hash s.a.hash)
              (by show bytesGt (rnd3 P s r).a.hash (rnd3 P s r).b.hash = _; rw [a3h, b3, b2, b1h, hopp])
              (by show (rnd3 P s r).b.stage = _; rw [b3, b2]; exact S1.stage) h4
          have a4 : (round P s r).a = (rnd3 P s r).a := S4.other
          refine ⟨?_, S4.inv, ?_, R01.trans (R0.trans (R1.trans (R2.trans (R3.trans R4))))⟩
          · rw [← ha]
            unfold absOf
            have e1 : (round P s r).a.stage = sa2 := by rw [a4]; exact S3.stage
            have e2 : (round P s r).b.stage = sb2 := S4.stage
            have dA : decide ((round P s r).doneA ≠ []) = (dA2 || (dA1 || decide (s.doneA ≠ []))) := by
              have q4 : (round P s r).doneA = (rnd3 P s r).doneA := S4.doneOther
              have q1 : (rnd1 P s r).doneA = (rnd0 s).doneA := S1.doneOther
              have q3 : (rnd3 P s r).doneA ≠ [] ↔ (dA2 = true ∨ (rnd2 P s r).doneA ≠ []) := S3.done
              have q2 : (rnd2 P s r).doneA ≠ [] ↔ (dA1 = true ∨ (rnd1 P s r).doneA ≠ []) := S2.done
              rw [q4, decide_or q3, decide_or q2, q1, dA0]
            have dB : decide ((round P s r).doneB ≠ []) = (dB2 || (dB1 || decide (s.doneB ≠ []))) := by
              have q4 : (round P s r).doneB ≠ [] ↔ (dB2 = true ∨ (rnd3 P s r).doneB ≠ []) := S4.done
              have q3 : (rnd3 P s r).doneB = (rnd2 P s r).doneB := S3.doneOther
              have q2 : (rnd2 P s r).doneB = (rnd1 P s r).doneB := S2.doneOther
              have q1 : (rnd1 P s r).doneB ≠ [] ↔ (dB1 = true ∨ (rnd0 s).doneB ≠ []) := S1.done
              rw [decide_or q4, q3, q2, decide_or q1, dB0]
            rw [e1, e2, dA, dB]
          · intro x
            cases x with
            | A =>
              have c1 : (tickAt s .A).a.retries ≤ s.a.retries + 1 := T1.retries
              have c2 : s.a.closeTime ≤ (tickAt s .A).a.closeTime + 1 := T1.close
              have c3 : (rnd2 P s r).a.retries ≤ (rnd1 P s r).a.retries := S2.retries
              have c4 := S2.close
              have c5 : (rnd3 P s r).a.retries ≤ (rnd2 P s r).a.retries := S3.retries
              have c6 := S3.close
              show (round P s r).a.stage = CLOSING ∨ ((round P s r).a.retries + n ≤ _ ∧ n ≤ (round P s r).a.closeTime)
              rw [a4]
              have c4' : (rnd2 P s r).a.closeTime = (rnd1 P s r).a.closeTime ∨ (rnd2 P s r).a.closeTime = Generated.CLOSE_TIME := c4
              have c6' : (rnd3 P s r).a.closeTime = (rnd2 P s r).a.closeTime ∨ (rnd3 P s r).a.closeTime = Generated.CLOSE_TIME := c6
              rw [a1, a0] at c3 c4'
              rcases mA with q | ⟨m1', m2'⟩
              · left
                have q' : (absOf s).sa = 5 := q
                rw [q'] at h2
                have := recv_closed h2
                subst this
                have := recv_closed h3
                subst this
                exact S3.stage
              · right
                refine ⟨by omega, ?_⟩
                rcases c4' with c4' | c4' <;> rcases c6' with c6' | c6' <;> omega
            | B =>
              have bb : (rnd0 s).b.retries ≤ s.b.retries + 1 := by
                have : (rnd0 s).b.retries ≤ (tickAt s .A).b.retries + 1 := T2.retries
                rwa [b1] at this
              have bc : s.b.closeTime ≤ (rnd0 s).b.closeTime + 1 := by
                have : (tickAt s .A).b.closeTime ≤ (rnd0 s).b.closeTime + 1 := T2.close
                rwa [b1] at this
              have c3 : (rnd1 P s r).b.retries ≤ (rnd0 s).b.retries := S1.retries
              have c4 : (rnd1 P s r).b.closeTime = (rnd0 s).b.closeTime ∨ (rnd1 P s r).b.closeTime = Generated.CLOSE_TIME := S1.close
              have c5 : (round P s r).b.retries ≤ (rnd3 P s r).b.retries := S4.retries
              have c6 : (round P s r).b.closeTime = (rnd3 P s r).b.closeTime ∨ (round P s r).b.closeTime = Generated.CLOSE_TIME := S4.close
              rw [b3, b2] at c5 c6
              show (round P s r).b.stage = CLOSING ∨ ((round P s r).b.retries + n ≤ _ ∧ n ≤ (round P s r).b.closeTime)
              rcases mB with q | ⟨m1', m2'⟩
              · left
                have q' : (absOf s).sb = 5 := q
                rw [q'] at h1
                have := recv_closed h1
                subst this
                have := recv_closed h4
                subst this
                exact S4.stage
              · right
                refine ⟨by omega, ?_⟩
                rcases c4 with c4 | c4 <;> rcases c6 with c6 | c6 <;> omega


/-! ## 3. classification of the reachable states -/

section
variable {env : CryptoEnv} {ok : Bytes → Bool} {sel : Option Cipher} {x y : InitSt} {dx dy : List (Bytes × Bool)}
  {sigs : List (Bytes × Bytes)} {seals : SealLog}

theorem lastIs_kind {k : Nat} (h : LastIs sel x y seals k) :
    ∃ m salt kh tail, x.last = some (signedRegion m salt kh ++ tail) ∧ m.stage = k ∧ m.hash = x.hash ∧ Mine sel x y seals m := by
  obtain ⟨m, salt, kh, tail, h1, _, _, _, h5, h6, h7⟩ := h
  exact ⟨m, salt, kh, tail, h1, h6, h5, h7⟩

/-- which stages of the peer go with which stage of an object -/
theorem RI.combinations (h : RI env ok sel x y dx dy sigs seals) :
    (x.stage = PING → y.stage = PING ∨ y.stage = PONG ∨ y.stage = CLOSING) ∧
    (x.stage = PONG → y.stage = PING ∨ y.stage = PONG ∨ y.stage = PENG ∨ y.stage = CLOSING) ∧
    (x.stage = PENG → y.stage = PONG ∨ y.stage = WAIT ∨ y.stage = CLOSING) ∧
    (x.stage = WAIT → y.stage = PENG ∨ y.stage = CLOSING) := by
  -- what the last message of the peer says about `x`
  have yPENG : y.stage = PENG → x.stage ≠ PING := by
    intro e
    obtain ⟨m, _, _, _, _, hk, _, hm⟩ := lastIs_kind (h.oy.o4 e)
    cases m with
    | ping => exact absurd (show PING = PONG from hk) (by decide)
    | peng => exact absurd (show PENG = PONG from hk) (by decide)
    | pong hs e0 al pl => exact hm.2.2.2.1
  have yWAIT : y.stage = WAIT → x.stage = PENG ∨ x.stage = CLOSING := by
    intro e
    obtain ⟨m, _, _, _, _, hk, _, hm⟩ := lastIs_kind (h.oy.o5 e).1
    cases m with
    | ping => exact absurd (show PING = PENG from hk) (by decide)
    | pong => exact absurd (show PONG = PENG from hk) (by decide)
    | peng hs pl => exact hm.2.1
  have xPENG : x.stage = PENG → y.stage ≠ PING := fun e => by
    have := h.swap
    intro e'
    obtain ⟨m, _, _, _, _, hk, _, hm⟩ := lastIs_kind (h.ox.o4 e)
    cases m with
    | ping => exact absurd (show PING = PONG from hk) (by decide)
    | peng => exact absurd (show PENG = PONG from hk) (by decide)
    | pong hs e0 al pl => exact hm.2.2.2.1 e'
  have xWAIT : x.stage = WAIT → y.stage = PENG ∨ y.stage = CLOSING := by
    intro e
    obtain ⟨m, _, _, _, _, hk, _, hm⟩ := lastIs_kind (h.ox.o5 e).1
    cases m with
    | ping => exact absurd (show PING = PENG from hk) (by decide)
    | pong => exact absurd (show PONG = PENG from hk) (by decide)
    | peng hs pl => exact hm.2.1
  refine ⟨?_, ?_, ?_, xWAIT⟩
  · intro e
    rcases h.oy.st with e' | e' | e' | e' | e'
    · exact Or.inl e'
    · exact Or.inr (Or.inl e')
    · exact absurd e (yPENG e')
    · rcases yWAIT e' with q | q <;> (rw [e] at q; exact absurd q (by decide))
    · exact Or.inr (Or.inr e')
  · intro e
    rcases h.oy.st with e' | e' | e' | e' | e'
    · exact Or.inl e'
    · exact Or.inr (Or.inl e')
    · exact Or.inr (Or.inr (Or.inl e'))
    · rcases yWAIT e' with q | q <;> (rw [e] at q; exact absurd q (by decide))
    · exact Or.inr (Or.inr (Or.inr e'))
  · intro e
    rcases h.oy.st with e' | e' | e' | e' | e'
    · exact absurd e' (xPENG e)
    · exact Or.inl e'
    · exact absurd ⟨e, e'⟩ h.noRR
    · exact Or.inr (Or.inl e')
    · exact Or.inr (Or.inr e')

/-- **the classes of one object**, in closed form: fresh / initiator awaiting the pong / responder awaiting the peng / completed
    initiator / closed -/
theorem RI.classes (h : RI env ok sel x y dx dy sigs seals) :
    (x.stage = PING ∧ x.last = none ∧ x.ecdh = none ∧ x.crypto = none) ∨
    (x.stage = PONG ∧ x.crypto = none ∧ ∃ own salt kh tail, x.ecdh = some own ∧ EcdhWF own ∧
      x.last = some (signedRegion (.ping x.hash own x.algos) salt kh ++ tail)) ∨
    (x.stage = PENG ∧ ∃ own pe pl salt kh tail, x.last = some (signedRegion (.pong x.hash own x.algos pl) salt kh ++ tail) ∧
      EcdhWF own ∧ EcdhWF pe ∧ (y.stage = PONG → y.ecdh = some pe) ∧
      Field sel seals (bytesGt x.hash y.hash) (fun c => masterKey c own pe) x.payload pl ∧
      HasCore sel x (fun c => masterKey c own pe) (bytesGt x.hash y.hash)) ∨
    (x.stage = WAIT ∧ dx ≠ [] ∧ ∃ pl K salt kh tail, x.last = some (signedRegion (.peng x.hash pl) salt kh ++ tail) ∧
      Field sel seals (bytesGt x.hash y.hash) K x.payload pl ∧ (y.stage = PENG → HasCore sel y K (bytesGt y.hash x.hash))) ∨
    x.stage = CLOSING := by
  rcases h.ox.st with e | e | e | e | e
  · exact Or.inl ⟨e, h.ox.o2 e⟩
  · right; left
    obtain ⟨m, salt, kh, tail, h1, hk, hh, hm⟩ := lastIs_kind (h.ox.o3 e).2
    cases m with
    | pong => exact absurd (show PONG = PING from hk) (by decide)
    | peng => exact absurd (show PENG = PING from hk) (by decide)
    | ping hs own al =>
      have hh' : hs = x.hash := hh
      obtain ⟨a1, a2, _, a4, _⟩ := hm
      subst hh'; subst a1
      exact ⟨e, (h.ox.o3 e).1, own, salt, kh, tail, a4 e, a2, h1⟩
  · right; right; left
    obtain ⟨m, salt, kh, tail, h1, hk, hh, hm⟩ := lastIs_kind (h.ox.o4 e)
    cases m with
    | ping => exact absurd (show PING = PONG from hk) (by decide)
    | peng => exact absurd (show PENG = PONG from hk) (by decide)
    | pong hs own al pl =>
      have hh' : hs = x.hash := hh
      obtain ⟨a1, a2, _, _, pe, a5, a6, a7, a8⟩ := hm
      subst hh'; subst a1
      exact ⟨e, own, pe, pl, salt, kh, tail, h1, a2, a5, a6, a7, a8 e⟩
  · right; right; right; left
    obtain ⟨m, salt, kh, tail, h1, hk, hh, hm⟩ := lastIs_kind (h.ox.o5 e).1
    cases m with
    | ping => exact absurd (show PING = PENG from hk) (by decide)
    | pong => exact absurd (show PONG = PENG from hk) (by decide)
    | peng hs pl =>
      have hh' : hs = x.hash := hh
      obtain ⟨_, _, K, a3, a4⟩ := hm
      subst hh'
      exact ⟨e, (h.ox.o5 e).2, pl, K, salt, kh, tail, h1, a3, a4⟩
  · exact Or.inr (Or.inr (Or.inr (Or.inr e)))

/-- a fresh object has signed nothing: no logged signature is over a message with its salted hash -/
theorem RI.fresh_signed_nothing (h : RI env ok sel x y dx dy sigs seals) (hx : x.stage = PING) :
    ∀ k r, (k, r) ∈ sigs → ∃ m salt kh, r = signedRegion m salt kh ∧ m.hash = y.hash ∧ Mine sel y x seals m := by
  intro k r hk
  obtain ⟨m, salt, kh, h1, _, _, _, h5⟩ := h.sig k r hk
  rcases h5 with ⟨_, h6⟩ | ⟨h5, h6⟩
  · exfalso
    cases m with
    | ping => exact h6.2.2.1 hx
    | pong => rcases h6.2.2.1 with q | q <;> (rw [hx] at q; exact absurd q (by decide))
    | peng => rcases h6.1 with q | q <;> (rw [hx] at q; exact absurd q (by decide))
  · exact ⟨m, salt, kh, h1, h5, h6⟩

end


/-- **reachable_classes**: in every reachable state (run of `StepW` from two fresh objects with `GoodSys`, ideal signatures (I1) and
    `RandOK` as side conditions of the steps, AEAD law on the seal log) each of the two handshake objects is in one of the classes
    fresh / initiator awaiting the pong (`last` = its ping, ephemeral key present, no core) / responder awaiting the peng (`last` = its
    pong, core created from the ping it answered: slot 0 holds `masterKey c own pe`, where `pe` is the initiator's ephemeral key as
    long as the initiator still waits) / completed initiator (`last` = its peng, success reported) / closed (completed, or given up). -/
theorem reachable_classes (P : Params) (sel : Option Cipher) (s0 s : Sys) (h0 : Init0 s0) (hg : GoodSys P sel s0) (hr : ReachW P s0 s)
    (hop : Opens P.bodyOf s.seals) :
    ((s.a.stage = PING ∧ s.a.last = none ∧ s.a.ecdh = none ∧ s.a.crypto = none) ∨
     (s.a.stage = PONG ∧ s.a.crypto = none ∧ ∃ own salt kh tail, s.a.ecdh = some own ∧ EcdhWF own ∧
       s.a.last = some (signedRegion (.ping s.a.hash own s.a.algos) salt kh ++ tail)) ∨
     (s.a.stage = PENG ∧ ∃ own pe pl salt kh tail, s.a.last = some (signedRegion (.pong s.a.hash own s.a.algos pl) salt kh ++ tail) ∧
       EcdhWF own ∧ EcdhWF pe ∧ (s.b.stage = PONG → s.b.ecdh = some pe) ∧
       Field sel s.seals (bytesGt s.a.hash s.b.hash) (fun c => masterKey c own pe) s.a.payload pl ∧
       HasCore sel s.a (fun c => masterKey c own pe) (bytesGt s.a.hash s.b.hash)) ∨
     (s.a.stage = WAIT ∧ s.doneA ≠ [] ∧ ∃ pl K salt kh tail, s.a.last = some (signedRegion (.peng s.a.hash pl) salt kh ++ tail) ∧
       Field sel s.seals (bytesGt s.a.hash s.b.hash) K s.a.payload pl ∧ (s.b.stage = PENG → HasCore sel s.b K (bytesGt s.b.hash s.a.hash))) ∨
     s.a.stage = CLOSING) ∧
    ((s.b.stage = PING ∧ s.b.last = none ∧ s.b.ecdh = none ∧ s.b.crypto = none) ∨
     (s.b.stage = PONG ∧ s.b.crypto = none ∧ ∃ own salt kh tail, s.b.ecdh = some own ∧ EcdhWF own ∧
       s.b.last = some (signedRegion (.ping s.b.hash own s.b.algos) salt kh ++ tail)) ∨
     (s.b.stage = PENG ∧ ∃ own pe pl salt kh tail, s.b.last = some (signedRegion (.pong s.b.hash own s.b.algos pl) salt kh ++ tail) ∧
       EcdhWF own ∧ EcdhWF pe ∧ (s.a.stage = PONG → s.a.ecdh = some pe) ∧
       Field sel s.seals (bytesGt s.b.hash s.a.hash) (fun c => masterKey c own pe) s.b.payload pl ∧
       HasCore sel s.b (fun c => masterKey c own pe) (bytesGt s.b.hash s.a.hash)) ∨
     (s.b.stage = WAIT ∧ s.doneB ≠ [] ∧ ∃ pl K salt kh tail, s.b.last = some (signedRegion (.peng s.b.hash pl) salt kh ++ tail) ∧
       Field sel s.seals (bytesGt s.b.hash s.a.hash) K s.b.payload pl ∧ (s.a.stage = PENG → HasCore sel s.a K (bytesGt s.a.hash s.b.hash))) ∨
     s.b.stage = CLOSING) :=
  ⟨RI.classes (rinv_reach P sel s0 s h0 hg hr hop), RI.classes (rinv_reach P sel s0 s h0 hg hr hop).swap⟩

/-- **reachable_combinations**: which classes of the two objects occur together in reachable states: a fresh object only with a fresh
    one, an initiator or a closed one; an initiator awaiting the pong with anything but a completed initiator; a responder awaiting the
    peng only with an initiator (awaiting the pong, or completed) or a closed one — never two responders; a completed initiator only
    with a responder awaiting the peng or a closed one.  (Both directions; every logged signature is described by `RI.sig` / `Mine`:
    a fresh object has signed nothing — `RI.fresh_signed_nothing` —, pings carry the one ephemeral key of the initiator, there is at
    most one pong per object and it answers the peer's ping.) -/
theorem reachable_combinations (P : Params) (sel : Option Cipher) (s0 s : Sys) (h0 : Init0 s0) (hg : GoodSys P sel s0)
    (hr : ReachW P s0 s) (hop : Opens P.bodyOf s.seals) :
    ((s.a.stage = PING → s.b.stage = PING ∨ s.b.stage = PONG ∨ s.b.stage = CLOSING) ∧
     (s.a.stage = PONG → s.b.stage = PING ∨ s.b.stage = PONG ∨ s.b.stage = PENG ∨ s.b.stage = CLOSING) ∧
     (s.a.stage = PENG → s.b.stage = PONG ∨ s.b.stage = WAIT ∨ s.b.stage = CLOSING) ∧
     (s.a.stage = WAIT → s.b.stage = PENG ∨ s.b.stage = CLOSING)) ∧
    ((s.b.stage = PING → s.a.stage = PING ∨ s.a.stage = PONG ∨ s.a.stage = CLOSING) ∧
     (s.b.stage = PONG → s.a.stage = PING ∨ s.a.stage = PONG ∨ s.a.stage = PENG ∨ s.a.stage = CLOSING) ∧
     (s.b.stage = PENG → s.a.stage = PONG ∨ s.a.stage = WAIT ∨ s.a.stage = CLOSING) ∧
     (s.b.stage = WAIT → s.a.stage = PENG ∨ s.a.stage = CLOSING)) :=
  ⟨RI.combinations (rinv_reach P sel s0 s h0 hg hr hop), RI.combinations (rinv_reach P sel s0 s h0 hg hr hop).swap⟩

/-! ## 4. two reliable rounds complete the handshake -/

/-- the abstract states the recovery theorem starts from: stages 1..5 in a reachable combination (`RI.combinations`), at least one side
    has initiated, a completed initiator has reported success, and nobody is closed unless both have completed -/
def live (t : AS) : Bool :=
  decide (1 ≤ t.sa ∧ t.sa ≤ 5 ∧ 1 ≤ t.sb ∧ t.sb ≤ 5) &&
  decide ((t.sa = 1 → t.sb = 1 ∨ t.sb = 2 ∨ t.sb = 5) ∧ (t.sa = 2 → t.sb = 1 ∨ t.sb = 2 ∨ t.sb = 3 ∨ t.sb = 5) ∧
    (t.sa = 3 → t.sb = 2 ∨ t.sb = 4 ∨ t.sb = 5) ∧ (t.sa = 4 → t.sb = 3 ∨ t.sb = 5)) &&
  decide ((t.sb = 1 → t.sa = 1 ∨ t.sa = 2 ∨ t.sa = 5) ∧ (t.sb = 2 → t.sa = 1 ∨ t.sa = 2 ∨ t.sa = 3 ∨ t.sa = 5) ∧
    (t.sb = 3 → t.sa = 2 ∨ t.sa = 4 ∨ t.sa = 5) ∧ (t.sb = 4 → t.sa = 3 ∨ t.sa = 5)) &&
  decide (¬ (t.sa = 1 ∧ t.sb = 1)) &&
  decide ((t.sa = 5 → t.da = true ∧ t.db = true) ∧ (t.sb = 5 → t.da = true ∧ t.db = true) ∧ (t.sa = 4 → t.da = true) ∧
    (t.sb = 4 → t.db = true))

/-- both sides have completed after two abstract rounds -/
def twoRounds (g : Bool) (t : AS) : Bool :=
  match aRound g t with
  | none => false
  | some t1 =>
    match aRound g t1 with
    | none => false
    | some t2 => t2.da && t2.db

/-- the measure: 0 = both completed, 1 = somebody has answered a ping (a responder awaits the peng), 2 = only pings so far -/
def mu (t : AS) : Nat := if t.da && t.db then 0 else if t.sa = 3 || t.sb = 3 then 1 else 2

/-- one abstract round strictly decreases the measure of a live, not yet completed state -/
def oneRound (g : Bool) (t : AS) : Bool :=
  match aRound g t with
  | none => false
  | some t1 => decide (mu t1 < mu t)

/-- the finite check (2 · 6 · 6 · 2 · 2 abstract states) -/
theorem abs_complete : ∀ g : Bool, ∀ sa sb : Fin 6, ∀ da db : Bool,
    live ⟨sa, sb, da, db⟩ = true → twoRounds g ⟨sa, sb, da, db⟩ = true := by decide

theorem abs_measure : ∀ g : Bool, ∀ sa sb : Fin 6, ∀ da db : Bool,
    live ⟨sa, sb, da, db⟩ = true → (da && db) = false → oneRound g ⟨sa, sb, da, db⟩ = true := by decide

/-- without reliable rounds nothing is promised: K = 1 is not enough (a lost ping needs two rounds: `live`, but not completed after
    one abstract round) -/
theorem abs_one_round_not_enough : ∃ t1, live ⟨2, 1, false, false⟩ = true ∧ aRound true ⟨2, 1, false, false⟩ = some t1 ∧ t1.db = false :=
  ⟨⟨4, 3, true, false⟩, by decide, by decide, rfl⟩

/-- hypothesis (iii): no object is closed unless both sides have completed (a closed object that has not completed has given up; a
    closed initiator whose peer has not completed is the dead end `closed_initiator_dead_end`) -/
def NoDeadEnd (s : Sys) : Prop := (s.a.stage = CLOSING ∨ s.b.stage = CLOSING) → s.doneA ≠ [] ∧ s.doneB ≠ []

theorem stage_range {n : Nat} (h : StageOK n) : 1 ≤ n ∧ n ≤ 5 := by
  rcases h with e | e | e | e | e <;> (rw [e]; decide)

theorem live_of {P : Params} {sel : Option Cipher} {s : Sys} (hinv : RInv P sel s)
    (hinit : ¬ (s.a.stage = PING ∧ s.b.stage = PING)) (hdead : NoDeadEnd s) : live (absOf s) = true := by
  obtain ⟨a1, a2⟩ := stage_range hinv.ox.st
  obtain ⟨b1, b2⟩ := stage_range hinv.oy.st
  obtain ⟨c1, c2, c3, c4⟩ := RI.combinations hinv
  obtain ⟨d1, d2, d3, d4⟩ := RI.combinations hinv.swap
  simp only [live, absOf, Bool.and_eq_true, decide_eq_true_eq]
  exact ⟨⟨⟨⟨decide_eq_true ⟨a1, a2, b1, b2⟩, decide_eq_true ⟨c1, c2, c3, c4⟩⟩, decide_eq_true ⟨d1, d2, d3, d4⟩⟩, decide_eq_true hinit⟩,
    fun e => hdead (Or.inl e), fun e => hdead (Or.inr e), fun e => (hinv.ox.o5 e).2, fun e => (hinv.oy.o5 e).2⟩

theorem absOf_fin (s : Sys) (ha : s.a.stage ≤ 5) (hb : s.b.stage ≤ 5) :
    absOf s = ⟨(⟨s.a.stage, by omega⟩ : Fin 6), (⟨s.b.stage, by omega⟩ : Fin 6), decide (s.doneA ≠ []), decide (s.doneB ≠ [])⟩ := rfl

/-- the hypotheses of a start state of the recovery theorems, with `n` rounds of margin -/
structure Start (P : Params) (sel : Option Cipher) (s0 s : Sys) (n : Nat) : Prop where
  init : Init0 s0
  good : GoodSys P sel s0
  reach : ReachW P s0 s
  /-- (i) at least one side has initiated -/
  initiated : ¬ (s.a.stage = PING ∧ s.b.stage = PING)
  /-- (ii) neither side gives up, and no completed initiator closes, within the next `n` ticks -/
  margin : Margin n s
  /-- (iii) neither side is in a state that can only be left by a new attempt -/
  noDeadEnd : NoDeadEnd s

theorem hash_static {P : Params} {s s' : Sys} (h : ReachW P s s') : s'.a.hash = s.a.hash ∧ s'.b.hash = s.b.hash := by
  obtain ⟨h1, h2⟩ := static_reach P s s' h.toReach
  exact ⟨h1.2.1, h2.2.1⟩

/-- **reliable_rounds_complete** (K = 2): from every reachable state of the pair in which (i) at least one side has initiated,
    (ii) both objects are two ticks away from giving up / closing and (iii) neither is closed without both having completed, two
    reliable rounds complete the handshake at both ends — whatever the network lost, duplicated or reordered before: a lost ping, pong
    or peng is retransmitted and answered, a dual open is resolved by the salted hashes — and the two ends agree
    (`attempt_agreement`): opposite roles, each reports the other's payload, same cipher, matching cores.
    Hypotheses beyond (i)–(iii): `GoodSys` (negotiation succeeds with the same result at both ends, payload parsers accept, two
    different nodes), the side conditions `RoundOK` of the deliveries (reliability: the receiver reads the datagram; (I1), `RandOK`,
    counter starts `< 2^48` as in `StepW`) and the AEAD law on the final seal log. -/
theorem reliable_rounds_complete (P : Params) (sel : Option Cipher) (s0 s : Sys) (r1 r2 : RoundRand) (H : Start P sel s0 s 2)
    (hok1 : RoundOK P s r1) (hok2 : RoundOK P (round P s r1) r2)
    (hop : Opens P.bodyOf (round P (round P s r1) r2).seals) :
    ReachW P s0 (round P (round P s r1) r2) ∧
    (round P (round P s r1) r2).doneA ≠ [] ∧ (round P (round P s r1) r2).doneB ≠ [] ∧
    ∀ pa pb ia ib, (pa, ia) ∈ (round P (round P s r1) r2).doneA → (pb, ib) ∈ (round P (round P s r1) r2).doneB →
      ia = !ib ∧ pa = (round P (round P s r1) r2).b.payload ∧ pb = (round P (round P s r1) r2).a.payload ∧
      CoresAgree (round P (round P s r1) r2).a (round P (round P s r1) r2).b := by
  have hR2 : ReachW P (round P s r1) (round P (round P s r1) r2) :=
    (tick_reach _ .A).trans ((tick_reach _ .B).trans ((send_reach hok2.k1).trans ((send_reach hok2.k2).trans
      ((send_reach hok2.k3).trans (send_reach hok2.k4)))))
  have hop1 : Opens P.bodyOf (round P s r1).seals := opens_sub hop hR2.seals_sub
  have hR1 : ReachW P s (round P s r1) :=
    (tick_reach _ .A).trans ((tick_reach _ .B).trans ((send_reach hok1.k1).trans ((send_reach hok1.k2).trans
      ((send_reach hok1.k3).trans (send_reach hok1.k4)))))
  have hops : Opens P.bodyOf s.seals := opens_sub hop1 hR1.seals_sub
  have hinv : RInv P sel s := rinv_reach P sel s0 s H.init H.good H.reach hops
  have hlive := live_of hinv H.initiated H.noDeadEnd
  obtain ⟨_, a2⟩ := stage_range hinv.ox.st
  obtain ⟨_, b2⟩ := stage_range hinv.oy.st
  have hc := abs_complete (bytesGt s.b.hash s.a.hash) ⟨s.a.stage, by omega⟩ ⟨s.b.stage, by omega⟩ (decide (s.doneA ≠ []))
    (decide (s.doneB ≠ [])) hlive
  rw [← absOf_fin s a2 b2] at hc
  unfold twoRounds at hc
  cases h1 : aRound (bytesGt s.b.hash s.a.hash) (absOf s) with
  | none => rw [h1] at hc; cases hc
  | some t1 =>
    rw [h1] at hc
    simp only at hc
    obtain ⟨e1, hinv1, hm1, _⟩ := round_abs (n := 1) hinv H.margin (by decide) hok1 hop1 h1
    obtain ⟨hh1, hh2⟩ := hash_static hR1
    cases h2 : aRound (bytesGt s.b.hash s.a.hash) t1 with
    | none => rw [h2] at hc; cases hc
    | some t2 =>
      rw [h2] at hc
      simp only [Bool.and_eq_true] at hc
      obtain ⟨e2, _, _, _⟩ := round_abs (n := 0) hinv1 hm1 (by decide) hok2 hop (by rw [hh1, hh2, e1]; exact h2)
      have hreach : ReachW P s0 (round P (round P s r1) r2) := H.reach.trans (hR1.trans hR2)
      have dA : (round P (round P s r1) r2).doneA ≠ [] := by
        have : (absOf (round P (round P s r1) r2)).da = true := by rw [e2]; exact hc.1
        exact of_decide_eq_true this
      have dB : (round P (round P s r1) r2).doneB ≠ [] := by
        have : (absOf (round P (round P s r1) r2)).db = true := by rw [e2]; exact hc.2
        exact of_decide_eq_true this
      refine ⟨hreach, dA, dB, ?_⟩
      intro pa pb ia ib hA hB
      obtain ⟨q1, q2, q3, q4, _⟩ := attempt_agreement P s0 _ H.init hreach.toReach hop pa pb ia ib hA hB
      exact ⟨q1, q2, q3, q4⟩

/-- the measure of a system state -/
def muS (s : Sys) : Nat := mu (absOf s)

/-- **measure_decreases**: on the start states of `reliable_rounds_complete` (one round of margin suffices) that have not completed,
    every reliable round strictly decreases the measure `muS` ∈ {0, 1, 2} (0 = both completed, 1 = a responder awaits the peng,
    2 = only pings so far); the invariant and the reachability are kept, the margin shrinks by one. -/
theorem measure_decreases (P : Params) (sel : Option Cipher) (s0 s : Sys) (r : RoundRand) (n : Nat) (H : Start P sel s0 s (n + 1))
    (hn : n ≤ Generated.CLOSE_TIME) (hnot : ¬ (s.doneA ≠ [] ∧ s.doneB ≠ [])) (hok : RoundOK P s r)
    (hop : Opens P.bodyOf (round P s r).seals) :
    muS (round P s r) < muS s ∧ ReachW P s0 (round P s r) ∧ Margin n (round P s r) ∧ RInv P sel (round P s r) := by
  have hR1 : ReachW P s (round P s r) :=
    (tick_reach _ .A).trans ((tick_reach _ .B).trans ((send_reach hok.k1).trans ((send_reach hok.k2).trans
      ((send_reach hok.k3).trans (send_reach hok.k4)))))
  have hops : Opens P.bodyOf s.seals := opens_sub hop hR1.seals_sub
  have hinv : RInv P sel s := rinv_reach P sel s0 s H.init H.good H.reach hops
  have hlive := live_of hinv H.initiated H.noDeadEnd
  obtain ⟨_, a2⟩ := stage_range hinv.ox.st
  obtain ⟨_, b2⟩ := stage_range hinv.oy.st
  have hnd : (decide (s.doneA ≠ []) && decide (s.doneB ≠ [])) = false := by
    cases hA : decide (s.doneA ≠ []) <;> cases hB : decide (s.doneB ≠ []) <;> simp only [Bool.and_self, Bool.and_false, Bool.and_true]
    exact absurd ⟨of_decide_eq_true hA, of_decide_eq_true hB⟩ hnot
  have hc := abs_measure (bytesGt s.b.hash s.a.hash) ⟨s.a.stage, by omega⟩ ⟨s.b.stage, by omega⟩ (decide (s.doneA ≠ []))
    (decide (s.doneB ≠ [])) hlive hnd
  rw [← absOf_fin s a2 b2] at hc
  unfold oneRound at hc
  cases h1 : aRound (bytesGt s.b.hash s.a.hash) (absOf s) with
  | none => rw [h1] at hc; cases hc
  | some t1 =>
    rw [h1] at hc
    simp only [decide_eq_true_eq] at hc
    obtain ⟨e1, hinv1, hm1, _⟩ := round_abs (n := n) hinv H.margin hn hok hop h1
    refine ⟨?_, H.reach.trans hR1, hm1, hinv1⟩
    unfold muS
    rw [e1]
    exact hc


/-! ## 5. the dead end of the pair: a closed initiator and a responder that still waits -/

theorem abs_dead_end : ∀ g da db : Bool, aRound g ⟨5, 3, da, db⟩ = some ⟨5, 3, da, db⟩ := by decide

/-- **closed_initiator_dead_end**: when the initiator has completed and closed (its peng was lost and `CLOSE_TIME` + 1 ticks have
    passed) while the responder still awaits the peng, a reliable round changes nothing: the closed initiator ignores the
    retransmitted pong, the responder does not complete.  This combination is reachable (`Toy.dead_end_reachable`); it is left only
    by a new attempt: the responder gives the attempt up after `MAX_FAILED_RETRIES` ticks (`give_up_is_bounded`), and its node dials
    again (`Node.reconnectToPeers`).  It is excluded from `reliable_rounds_complete` by `NoDeadEnd`. -/
theorem closed_initiator_dead_end (P : Params) (sel : Option Cipher) (s : Sys) (r : RoundRand) (n : Nat) (hinv : RInv P sel s)
    (ha : s.a.stage = CLOSING) (hb : s.b.stage = PENG) (hm : Margin (n + 1) s) (hn : n ≤ Generated.CLOSE_TIME)
    (hok : RoundOK P s r) (hop : Opens P.bodyOf (round P s r).seals) :
    (round P s r).a.stage = CLOSING ∧ (round P s r).b.stage = PENG ∧ ((round P s r).doneB ≠ [] ↔ s.doneB ≠ []) ∧
    RInv P sel (round P s r) ∧ Margin n (round P s r) := by
  have h1 : aRound (bytesGt s.b.hash s.a.hash) (absOf s) = some (absOf s) := by
    have := abs_dead_end (bytesGt s.b.hash s.a.hash) (decide (s.doneA ≠ [])) (decide (s.doneB ≠ []))
    unfold absOf
    rw [ha, hb]
    exact this
  obtain ⟨e1, hinv1, hm1, _⟩ := round_abs hinv hm hn hok hop h1
  have e2 : (absOf (round P s r)).sa = (absOf s).sa := by rw [e1]
  have e3 : (absOf (round P s r)).sb = (absOf s).sb := by rw [e1]
  have e4 : (absOf (round P s r)).db = (absOf s).db := by rw [e1]
  refine ⟨e2.trans ha, e3.trans hb, ?_, hinv1, hm1⟩
  have e4' : decide ((round P s r).doneB ≠ []) = decide (s.doneB ≠ []) := e4
  constructor
  · intro h; exact of_decide_eq_true (e4' ▸ decide_eq_true h)
  · intro h; exact of_decide_eq_true (e4'.symm ▸ decide_eq_true h)

/-! ## 6. the retry horizon -/

open VpnCloud.Proofs.C01Mutual (tickN tickN_retries everySecond_retry everySecond_give_up)

theorem tickN_succ (n : Nat) : ∀ st : InitSt, tickN (n + 1) st = (everySecond (tickN n st)).1 := by
  induction n with
  | zero => intro st; rfl
  | succ n ih => intro st; exact ih (everySecond st).1

/-- **give_up_is_bounded** (the handshake retry horizon): an object in a retransmitting stage (PING, PONG, PENG — fresh, initiator
    awaiting the pong, responder awaiting the peng) whose retry counter is 0 and that receives nothing it accepts keeps its stage for
    `MAX_FAILED_RETRIES` = 120 ticks, at each of them sends its last message again, and at tick number `MAX_FAILED_RETRIES + 1`
    gives up: fatal error, stage CLOSING. -/
theorem give_up_is_bounded (st : InitSt) (h1 : st.stage ≠ Generated.WAITING_TO_CLOSE) (h2 : st.stage ≠ Generated.CLOSING)
    (hr : st.retries = 0) :
    (∀ i, i ≤ Generated.MAX_FAILED_RETRIES → (tickN i st).stage = st.stage) ∧
    (∀ i, i < Generated.MAX_FAILED_RETRIES → (everySecond (tickN i st)).2 = .ok (st.last.getD [])) ∧
    (everySecond (tickN Generated.MAX_FAILED_RETRIES st)).2 = .error .cryptoInitFatal ∧
    (tickN (Generated.MAX_FAILED_RETRIES + 1) st).stage = Generated.CLOSING := by
  have hN : ∀ i, i ≤ Generated.MAX_FAILED_RETRIES → tickN i st = { st with retries := st.retries + i } :=
    fun i hi => tickN_retries i st h1 h2 (by omega)
  refine ⟨fun i hi => by rw [hN i hi], fun i hi => ?_, ?_, ?_⟩
  · rw [hN i (by omega), everySecond_retry { st with retries := st.retries + i } h1 h2 (by show st.retries + i < _; omega)]
  · rw [hN _ (Nat.le_refl _), everySecond_give_up { st with retries := st.retries + Generated.MAX_FAILED_RETRIES } h1 h2
      (by show ¬ st.retries + Generated.MAX_FAILED_RETRIES < _; omega)]
  · rw [tickN_succ, hN _ (Nat.le_refl _), everySecond_give_up { st with retries := st.retries + Generated.MAX_FAILED_RETRIES } h1 h2
      (by show ¬ st.retries + Generated.MAX_FAILED_RETRIES < _; omega)]

theorem tickN_wait (n : Nat) : ∀ st : InitSt, st.stage = Generated.WAITING_TO_CLOSE → n ≤ st.closeTime →
    tickN n st = { st with closeTime := st.closeTime - n } := by
  induction n with
  | zero => intro st _ _; rfl
  | succ n ih =>
    intro st hs hn
    have he : everySecond st = ({ st with closeTime := st.closeTime - 1 }, .ok []) := by
      unfold everySecond
      rw [if_pos hs, if_neg (by omega)]
    have e' : tickN (n + 1) st = tickN n { st with closeTime := st.closeTime - 1 } := by
      show tickN n (everySecond st).1 = _
      rw [he]
    rw [e', ih { st with closeTime := st.closeTime - 1 } hs (by show n ≤ st.closeTime - 1; omega)]
    show ({ st with closeTime := st.closeTime - 1 - n } : InitSt) = { st with closeTime := st.closeTime - (n + 1) }
    rw [Nat.sub_sub, Nat.add_comm 1 n]

/-- **completed_initiator_closes**: a completed initiator (WAITING_TO_CLOSE, where it repeats its peng whenever the responder's
    retransmitted pong arrives) stays there for `closeTime` ticks — `CLOSE_TIME` = 60 after the completion — sending nothing by
    itself, and is CLOSING after `closeTime + 1` ticks. -/
theorem completed_initiator_closes (st : InitSt) (hs : st.stage = Generated.WAITING_TO_CLOSE) :
    (∀ i, i ≤ st.closeTime → (tickN i st).stage = Generated.WAITING_TO_CLOSE ∧ (everySecond (tickN i st)).2 = .ok []) ∧
    (tickN (st.closeTime + 1) st).stage = Generated.CLOSING := by
  refine ⟨fun i hi => ?_, ?_⟩
  · rw [tickN_wait i st hs hi]
    refine ⟨hs, ?_⟩
    unfold everySecond
    rw [if_pos (show ({ st with closeTime := st.closeTime - i } : InitSt).stage = _ from hs)]
    split <;> rfl
  · rw [tickN_succ, tickN_wait _ st hs (Nat.le_refl _)]
    unfold everySecond
    rw [if_pos (show ({ st with closeTime := st.closeTime - st.closeTime } : InitSt).stage = _ from hs),
      if_pos (show st.closeTime - st.closeTime = 0 by omega)]


/-! ## 7. non-vacuity: toy runs (the `Toy` environments of `C05Agree`, whose signature check accepts exactly the run's signatures) -/

theorem reachW_ping {P : Params} {s0 s : Sys} (hr : ReachW P s0 s) (x : Who) (rnd : Rand)
    (hst : (s.obj x).stage = Generated.STAGE_PING) (hrnd : RandOK P.env (s.obj x) rnd) : ReachW P s0 (pingBy P s x rnd) :=
  .step hr (.ping s x rnd hst hrnd)

theorem reachW_deliver {P : Params} {s0 s : Sys} (hr : ReachW P s0 s) (x : Who) (w : Bytes) (rnd : Rand)
    (hI : I1 P.env s.sigs (s.obj x).trusted w) (hrnd : RandOK P.env (s.obj x) rnd) (hw : rnd.start < 2 ^ 48) :
    ReachW P s0 (deliverTo P s x w rnd) := by
  unfold deliverTo
  cases h : handleInit P.env P.bodyOf P.ok (s.obj x) w rnd with
  | ok st' r =>
    obtain ⟨out, res, log⟩ := r
    exact .step hr (.deliver s x w rnd st' out res log hI hrnd hw h)
  | err st' e => exact .step hr (.deliverErr s x w rnd st' e hI h)
  | panic => exact hr

def readsB (env : CryptoEnv) (w : Bytes) (T : List Bytes) : Bool :=
  match readFrom env w T with
  | .ok _ => true
  | .error _ => false

theorem reads_of {env : CryptoEnv} {w : Bytes} {T : List Bytes} (h : readsB env w T = true) : ∃ m k, readFrom env w T = .ok (m, k) := by
  unfold readsB at h
  cases hr : readFrom env w T with
  | ok p => exact ⟨p.1, p.2, rfl⟩
  | error e => rw [hr] at h; cases h

/-- `n` ticks at A -/
def ticksA : Nat → Sys → Sys
  | 0, s => s
  | n + 1, s => ticksA n (tickAt s .A)

theorem reachW_ticksA {P : Params} {s0 : Sys} (n : Nat) : ∀ {s : Sys}, ReachW P s0 s → ReachW P s0 (ticksA n s) := by
  induction n with
  | zero => intro s hr; exact hr
  | succ n ih => intro s hr; exact ih (.step hr (.tick s .A))

namespace Toy
open VpnCloud.Proofs.C05Agree.Toy

/-- side conditions of one delivery of a toy round, by evaluation -/
macro "toy_send" env:term "," L:term "," ro:term : tactic => `(tactic| exact fun _ =>
  { i1 := toy_I1 $env $L (fun _ _ _ => rfl) _ _ _ (by decide +kernel),
    rok := $ro _ _ (by decide) (by decide +kernel) (by decide) (by decide) (by decide),
    start := by decide +kernel,
    reads := reads_of (by decide +kernel) })

/-- no datagram to deliver -/
macro "toy_skip" : tactic => `(tactic| exact fun h => absurd (by decide +kernel) h)

theorem good : GoodSys P (some .chacha) s0 :=
  ⟨by decide, by decide, by decide, by decide, by decide +kernel, by decide +kernel⟩

theorem reachW1 : ReachW P s0 s1 :=
  reachW_ping .refl .A R1 rfl (randOK _ _ (by decide) (by decide) (by decide) (by decide) (by decide))

theorem reachW2 : ReachW P s0 s2 :=
  reachW_deliver reachW1 .B w1 R2 (toy_I1 env L (fun _ _ _ => rfl) _ _ _ (by decide +kernel))
    (randOK _ _ (by decide) (by decide +kernel) (by decide) (by decide) (by decide)) (by decide +kernel)

theorem reachW3 : ReachW P s0 s3 :=
  reachW_deliver reachW2 .A w2 R3 (toy_I1 env L (fun _ _ _ => rfl) _ _ _ (by decide +kernel))
    (randOK _ _ (by decide) (by decide +kernel) (by decide) (by decide) (by decide)) (by decide +kernel)

/-! ### (a) the ping is lost, then delivery is reliable -/

def rrA1 : RoundRand := ⟨R2, R4, R3, R4⟩
def rrA2 : RoundRand := ⟨R4, R4, R4, R4⟩

theorem startA : Start P (some .chacha) s0 s1 2 :=
  ⟨init0, good, reachW1, by decide +kernel, by intro x; cases x <;> decide +kernel, fun h => absurd h (by decide +kernel)⟩

theorem okA1 : RoundOK P s1 rrA1 where
  k1 := by toy_send env, L, randOK
  k2 := by toy_skip
  k3 := by toy_send env, L, randOK
  k4 := by toy_skip

theorem okA2 : RoundOK P (round P s1 rrA1) rrA2 where
  k1 := by toy_skip
  k2 := by toy_send env, L, randOK
  k3 := by toy_skip
  k4 := by toy_send env, L, randOK

theorem opensA : Opens P.bodyOf (round P (round P s1 rrA1) rrA2).seals := by unfold Opens; decide +kernel

/-- **ping lost, then recovered**: after A's ping was lost, two reliable rounds complete both ends; after the first round only A has
    completed (K = 1 is not enough) -/
theorem ping_lost_recovered :
    (round P s1 rrA1).doneA = [([20], true)] ∧ (round P s1 rrA1).doneB = [] ∧
    (round P (round P s1 rrA1) rrA2).doneA = [([20], true)] ∧ (round P (round P s1 rrA1) rrA2).doneB = [([10, 11], false)] :=
  ⟨by decide +kernel, by decide +kernel, by decide +kernel, by decide +kernel⟩

example : (round P (round P s1 rrA1) rrA2).doneA ≠ [] ∧ (round P (round P s1 rrA1) rrA2).doneB ≠ [] :=
  let h := reliable_rounds_complete P (some .chacha) s0 s1 rrA1 rrA2 startA okA1 okA2 opensA
  ⟨h.2.1, h.2.2.1⟩

/-- `measure_decreases` on this run: 2 → 1 → 0 -/
example : muS s1 = 2 ∧ muS (round P s1 rrA1) = 1 ∧ muS (round P (round P s1 rrA1) rrA2) = 0 :=
  ⟨by decide +kernel, by decide +kernel, by decide +kernel⟩

example : muS (round P s1 rrA1) < muS s1 :=
  (measure_decreases P (some .chacha) s0 s1 rrA1 1 startA (by decide) (by decide +kernel) okA1
    (opens_sub opensA (((tick_reach _ .A).trans ((tick_reach _ .B).trans ((send_reach okA2.k1).trans ((send_reach okA2.k2).trans
      ((send_reach okA2.k3).trans (send_reach okA2.k4)))))).seals_sub))).1

/-! ### (b) the pong is lost -/

def rrB1 : RoundRand := ⟨R4, R3, R4, R4⟩
def rrN : RoundRand := ⟨R4, R4, R4, R4⟩

theorem startB : Start P (some .chacha) s0 s2 2 :=
  ⟨init0, good, reachW2, by decide +kernel, by intro x; cases x <;> decide +kernel, fun h => absurd h (by decide +kernel)⟩

theorem okB1 : RoundOK P s2 rrB1 where
  k1 := by toy_send env, L, randOK
  k2 := by toy_send env, L, randOK
  k3 := by toy_send env, L, randOK
  k4 := by toy_send env, L, randOK

theorem okB2 : RoundOK P (round P s2 rrB1) rrN where
  k1 := by toy_skip
  k2 := by toy_skip
  k3 := by toy_skip
  k4 := by toy_skip

theorem opensB : Opens P.bodyOf (round P (round P s2 rrB1) rrN).seals := by unfold Opens; decide +kernel

/-- **pong lost, then recovered**: B has answered A's ping, the pong was lost; one reliable round completes both ends (A's
    retransmitted ping makes B repeat the pong) -/
theorem pong_lost_recovered :
    (round P s2 rrB1).doneA = [([20], true)] ∧ (round P s2 rrB1).doneB = [([10, 11], false)] :=
  ⟨by decide +kernel, by decide +kernel⟩

example : (round P (round P s2 rrB1) rrN).doneA ≠ [] ∧ (round P (round P s2 rrB1) rrN).doneB ≠ [] :=
  let h := reliable_rounds_complete P (some .chacha) s0 s2 rrB1 rrN startB okB1 okB2 opensB
  ⟨h.2.1, h.2.2.1⟩

/-! ### (c) the peng is lost -/

theorem startC : Start P (some .chacha) s0 s3 2 :=
  ⟨init0, good, reachW3, by decide +kernel, by intro x; cases x <;> decide +kernel, fun h => absurd h (by decide +kernel)⟩

theorem okC1 : RoundOK P s3 rrN where
  k1 := by toy_skip
  k2 := by toy_send env, L, randOK
  k3 := by toy_skip
  k4 := by toy_send env, L, randOK

theorem okC2 : RoundOK P (round P s3 rrN) rrN where
  k1 := by toy_skip
  k2 := by toy_skip
  k3 := by toy_skip
  k4 := by toy_skip

theorem opensC : Opens P.bodyOf (round P (round P s3 rrN) rrN).seals := by unfold Opens; decide +kernel

/-- **peng lost, then recovered**: A has completed (WAITING_TO_CLOSE), its peng was lost; B's retransmitted pong makes A repeat the
    peng, B completes in one reliable round -/
theorem peng_lost_recovered :
    s3.doneA = [([20], true)] ∧ s3.doneB = [] ∧ (round P s3 rrN).doneA = [([20], true)] ∧ (round P s3 rrN).doneB = [([10, 11], false)] :=
  ⟨by decide +kernel, by decide +kernel, by decide +kernel, by decide +kernel⟩

example : (round P (round P s3 rrN) rrN).doneA ≠ [] ∧ (round P (round P s3 rrN) rrN).doneB ≠ [] :=
  let h := reliable_rounds_complete P (some .chacha) s0 s3 rrN rrN startC okC1 okC2 opensC
  ⟨h.2.1, h.2.2.1⟩

/-! ### (d) dual open, one ping lost (plain negotiated) -/

theorem goodD : GoodSys PD none t0 :=
  ⟨by decide, by decide, by decide, by decide, by decide +kernel, by decide +kernel⟩

theorem reachWD3 : ReachW PD t0 t3 :=
  reachW_deliver
    (reachW_ping (reachW_ping .refl .A Q1 rfl (randOKD _ _ (by decide) (by decide) (by decide) (by decide) (by decide)))
      .B Q2 rfl (randOKD _ _ (by decide) (by decide) (by decide) (by decide) (by decide)))
    .B v1 Q5 (toy_I1 envD LD (fun _ _ _ => rfl) _ _ _ (by decide +kernel))
    (randOKD _ _ (by decide) (by decide +kernel) (by decide) (by decide) (by decide)) (by decide +kernel)

def rrD1 : RoundRand := ⟨Q5, Q3, Q5, Q4⟩
def rrD2 : RoundRand := ⟨Q5, Q5, Q5, Q5⟩

theorem startD : Start PD none t0 t3 2 :=
  ⟨init0D, goodD, reachWD3, by decide +kernel, by intro x; cases x <;> decide +kernel, fun h => absurd h (by decide +kernel)⟩

theorem okD1 : RoundOK PD t3 rrD1 where
  k1 := by toy_send envD, LD, randOKD
  k2 := by toy_send envD, LD, randOKD
  k3 := by toy_skip
  k4 := by toy_send envD, LD, randOKD

theorem okD2 : RoundOK PD (round PD t3 rrD1) rrD2 where
  k1 := by toy_send envD, LD, randOKD
  k2 := by toy_skip
  k3 := by toy_send envD, LD, randOKD
  k4 := by toy_skip

theorem opensD : Opens PD.bodyOf (round PD (round PD t3 rrD1) rrD2).seals := by unfold Opens; decide +kernel

/-- **dual open with one ping lost**: both have initiated, A's ping reached B (ignored: B has the larger salted hash), B's ping was
    lost; in the first reliable round A switches role and answers, B completes; in the second A completes -/
theorem dual_open_recovered :
    t3.a.stage = Generated.STAGE_PONG ∧ t3.b.stage = Generated.STAGE_PONG ∧
    (round PD t3 rrD1).a.stage = Generated.STAGE_PENG ∧ (round PD t3 rrD1).doneB = [([10, 11], true)] ∧
    (round PD (round PD t3 rrD1) rrD2).doneA = [([20], false)] ∧ (round PD (round PD t3 rrD1) rrD2).doneB = [([10, 11], true)] :=
  ⟨by decide +kernel, by decide +kernel, by decide +kernel, by decide +kernel, by decide +kernel, by decide +kernel⟩

example : (round PD (round PD t3 rrD1) rrD2).doneA ≠ [] ∧ (round PD (round PD t3 rrD1) rrD2).doneB ≠ [] :=
  let h := reliable_rounds_complete PD none t0 t3 rrD1 rrD2 startD okD1 okD2 opensD
  ⟨h.2.1, h.2.2.1⟩

/-! ### the dead end is reachable -/

/-- A has completed, its peng is lost, 61 ticks pass at A -/
def sDead : Sys := ticksA (Generated.CLOSE_TIME + 1) s3

/-- **the dead end is reachable**: the initiator has completed and closed, the responder still awaits the peng and has not completed;
    `closed_initiator_dead_end` applies (its hypotheses `RInv`, the stages, the margin hold here) -/
theorem dead_end_reachable : ReachW P s0 sDead ∧ sDead.a.stage = Generated.CLOSING ∧ sDead.b.stage = Generated.STAGE_PENG ∧
    sDead.doneA = [([20], true)] ∧ sDead.doneB = [] ∧ Margin 2 sDead ∧ RInv P (some .chacha) sDead :=
  ⟨reachW_ticksA _ reachW3, by decide +kernel, by decide +kernel, by decide +kernel, by decide +kernel,
    by intro x; cases x <;> decide +kernel,
    rinv_reach P (some .chacha) s0 sDead init0 good (reachW_ticksA _ reachW3) (by unfold Opens; decide +kernel)⟩

theorem okDead : RoundOK P sDead rrN where
  k1 := by toy_skip
  k2 := by toy_send env, L, randOK
  k3 := by toy_skip
  k4 := by toy_skip

/-- a reliable round from the dead end: B retransmits its pong, the closed A ignores it, B has still not completed -/
example : (round P sDead rrN).a.stage = CLOSING ∧ (round P sDead rrN).b.stage = PENG ∧ ((round P sDead rrN).doneB ≠ [] ↔ sDead.doneB ≠ []) :=
  let h := closed_initiator_dead_end P (some .chacha) sDead rrN 1 dead_end_reachable.2.2.2.2.2.2 dead_end_reachable.2.1
    dead_end_reachable.2.2.1 dead_end_reachable.2.2.2.2.2.1 (by decide) okDead (by unfold Opens; decide +kernel)
  ⟨h.1, h.2.1, h.2.2.1⟩

/-- the retry horizon on the toy initiator whose ping is never answered -/
example : (C01Mutual.tickN (Generated.MAX_FAILED_RETRIES + 1) s1.a).stage = Generated.CLOSING :=
  (give_up_is_bounded s1.a (by decide +kernel) (by decide +kernel) (by decide +kernel)).2.2.2

example : (C01Mutual.tickN (Generated.CLOSE_TIME + 1) s3.a).stage = Generated.CLOSING := by
  have := (completed_initiator_closes s3.a (by decide +kernel)).2
  rwa [show s3.a.closeTime = Generated.CLOSE_TIME by decide +kernel] at this


/-! ### the bound on the counter start is needed (why `StepW` and not `C05Agree.Step`) -/

/-- B's random parts with a slot-0 counter start that the 7 transmitted counter bytes cannot carry -/
def R2x : Rand := { R2 with start := 2 ^ 56 - 1 }
def x2pre : Sys := deliverTo P s1 .B w1 R2x
/-- B's pong -/
def w2x : Bytes := x2pre.b.last.getD []
/-- the ideal AEAD of this run: exactly the seal log -/
def bodyX : BodyOf := fun x =>
  match x2pre.seals.find? (fun e => e.1 = x) with
  | some e => e.2
  | none => .garbage x.length
def Lx : List (Bytes × Bytes × Bytes) := [(a0.ownKey, regionOf w1 R1, R1.sig), (b0.ownKey, regionOf w2x R2x, R2x.sig)]
def envX : CryptoEnv := { env0 with sigVerify := fun k m sg => decide ((k, m, sg) ∈ Lx) }
def PX : Params := ⟨envX, bodyX, C05Lockstep.Toy.okP⟩
def x1 : Sys := pingBy PX s0 .A R1
def x2 : Sys := deliverTo PX x1 .B w1 R2x
def x3 : Sys := deliverTo PX x2 .A w2x R3

theorem reachX : Reach PX s0 x3 :=
  reach_deliver
    (reach_deliver
      (reach_ping .refl .A R1 rfl ⟨by decide, by decide, by unfold C05Lockstep.EcdhWF; decide, notMaster_small _ (by decide), by decide⟩)
      .B w1 R2x (toy_I1 envX Lx (fun _ _ _ => rfl) _ _ _ (by decide +kernel))
      ⟨by decide, by decide +kernel, by unfold C05Lockstep.EcdhWF; decide, notMaster_small _ (by decide), by decide⟩)
    .A w2x R3 (toy_I1 envX Lx (fun _ _ _ => rfl) _ _ _ (by decide +kernel))
    ⟨by decide, by decide +kernel, by unfold C05Lockstep.EcdhWF; decide, notMaster_small _ (by decide), by decide⟩

/-- **start_bound_needed**: in the system of `C05Agree` (no bound on the random counter start) a state outside the classification is
    reachable, with the AEAD law and all static hypotheses in force: B answers A's ping with a core whose first nonce `2^56` does not
    fit the 7 counter bytes of the header; A reconstructs another nonce, the genuine pong fails to open, and A is left in stage PONG
    WITHOUT its ephemeral key (any later pong hits `ecdh_private_key.take().unwrap()`): this pair never completes, however reliable
    the network.  The Rust draws 6 random bytes, so the start is `< 2^48`: `StepW`. -/
theorem start_bound_needed : Init0 s0 ∧ GoodSys PX (some .chacha) s0 ∧ Reach PX s0 x3 ∧ Opens PX.bodyOf x3.seals ∧
    x2.b.stage = Generated.STAGE_PENG ∧ x3.a.stage = Generated.STAGE_PONG ∧ x3.a.ecdh = none ∧ x3.doneA = [] :=
  ⟨init0, ⟨by decide, by decide, by decide, by decide, by decide +kernel, by decide +kernel⟩, reachX,
    by unfold Opens; decide +kernel, by decide +kernel, by decide +kernel, by decide +kernel, by decide +kernel⟩

end Toy

end VpnCloud.Proofs.C05Recover
