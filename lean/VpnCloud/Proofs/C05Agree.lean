import VpnCloud.Proofs.Lemmas.C05AgreeLemmas
/-
  C05 — agreement of the handshake for ALL schedules (two-party system with an adversarial network).

  1. `responder_success_binds` — the responder's counterpart of `C05.initiator_success_binds` (hypotheses `hcr`, `hdummy`, each with a
     counterexample: `Toy.hcr_needed`, `Toy.hdummy_needed`).
  2. `Sys` / `Step` / `Reach` — two `InitSt` objects, the ghost logs `sent`, `sigs`, `seals`, `doneA`, `doneB`; steps: either side
     initiates (`ping`), `every_second` at either side (`tick`), the network delivers ANY bytes to either side (`deliver`, `deliverErr`).
     Loss, duplication, reordering, delay, truncation, extension and injection are all instances of "deliver any bytes, any number of
     times, or never".  Hypotheses of the theorems (nothing is postulated):
       (I1) ideal signatures — side condition `I1` of the delivery steps, pointwise for the delivered window: what verifies under a
            trusted key was signed (exactly these bytes) by an honest object (ghost `sigs`);
       (AEAD) `Opens bodyOf s.seals` on the final state (as in `C05Lockstep`): on logged ciphertexts `bodyOf` is what the log records;
       (I3') side conditions `RandOK` of the steps: ephemeral keys are 32-byte strings, throw-away keys are no master keys, widths.
     Not needed: (I2) in its "only if" form and freshness of ephemeral keys — every accepted message is authenticated by (I1), so its
     payload field is the genuine one, and each object lives for one attempt only (no restart step in this system).
  3. `attempt_agreement` (+ `attempt_agreement_payloads`, `success_at_most_once`, `static_reach`, `role_switch_exclusive`):
     safety for all schedules, single and dual open, with NO partner hypothesis: in the closed two-party system two completed ends
     are always partners (`Agree.partner`).  `Toy.opens_needed`: the statement is false without the AEAD hypothesis.
  4. Non-vacuity: `Toy.both_completed` (single open, chacha), `Toy.dual_open_completed` (both initiate, A switches role), with a toy
     environment whose signature verification accepts exactly the signatures of the run.

  The proof is an inductive invariant (`Inv`, = `Inv2` of `Lemmas/C05AgreeLemmas.lean`) over ghost records of the ping answer and the
  completion of each object: `MsgBy` is `pong_binds` / `peng_binds` (what a signed pong / peng of an object says about its key and
  payload), `ObjInv` the per-object facts, `Inv2.bridge` the use of (I1), `Inv2.agree_init` the agreement argument.
-/
namespace VpnCloud.Proofs.C05Agree

open VpnCloud VpnCloud.Init VpnCloud.InitMsg
open VpnCloud.Proofs.InitLemmas VpnCloud.Proofs.C05AgreeLemmas
open VpnCloud.Proofs.C05Lockstep (EcdhWF Opens)
open VpnCloud.Proofs.C16Init (algosWF msgWF)

/-! ## 1. the responder's key binding -/

/-- the conclusion of `responder_success_binds` -/
def RespBound (env : CryptoEnv) (bodyOf : BodyOf) (st0 st1 st2 : InitSt) (w1 w2 : Bytes) (rnd1 : Rand) (out1 p : Bytes)
    (log1 : SealLog) : Prop :=
  ∃ ha ea aa k1 hb pl k2, InitMsg.readFrom env w1 st0.trusted = .ok (.ping ha ea aa, k1) ∧
      InitMsg.readFrom env w2 st1.trusted = .ok (.peng hb pl, k2) ∧ st2.stage = Generated.CLOSING ∧
      (match selectAlgorithm st0.algos aa with
       | .ok (some c) => st1.selected = some c ∧ st2.selected = some c ∧
           ∃ plPong n1, out1 = wireOf env st0 (.pong st0.hash rnd1.ecdhPub st0.algos plPong) rnd1 ∧ plPong.drop 8 = rnd1.ct ∧
             log1 = [(rnd1.ct, .sealed (masterKey c rnd1.ecdhPub ea) n1 st0.payload)] ∧
           ∃ core n, st2.crypto = some core ∧ key0 core = some (masterKey c rnd1.ecdhPub ea) ∧ core.half = bytesGt st0.hash ha ∧
             bodyOf (pl.drop 8) = .sealed (masterKey c rnd1.ecdhPub ea) n p
       | .ok none => st2.selected = none ∧ st2.crypto = none ∧
           out1 = wireOf env st0 (.pong st0.hash rnd1.ecdhPub st0.algos st0.payload) rnd1 ∧ p = pl
       | .error _ => False)

/-- **responder key binding** (counterpart of `C05.initiator_success_binds`): an object that answers a ping (first step: stage PING → PENG,
    sending its pong with the ephemeral key `rnd1.ecdhPub`) and then completes on a peng (second step) holds the core it created when it
    answered the ping — slot 0 has `masterKey c own ea` for its own ephemeral key `own = rnd1.ecdhPub` and the `ea` of that ping, with the
    cipher `c` it selected then and the nonce half of the hash comparison — and the payload `p` it reports was sealed under exactly that
    key; with no cipher selected it reports the transmitted payload.

    Hypotheses added (counterexamples below): `hcr` — the object has no core when the ping arrives (true of a fresh object; otherwise,
    with plain negotiated, a left-over core opens the peng payload); `hdummy` — nothing is ever sealed under the throw-away key of
    slots 1..3 of the core created for the pong (otherwise a peng payload addressed to key id 1..3 and sealed under that key is
    accepted). -/
theorem responder_success_binds (env : CryptoEnv) (bodyOf : BodyOf) (ok : Bytes → Bool) (st0 st1 st2 : InitSt) (w1 w2 : Bytes)
    (rnd1 rnd2 : Rand) (out1 out2 p : Bytes) (log1 log2 : SealLog)
    (hstage : st0.stage = Generated.STAGE_PING) (hcr : st0.crypto = none)
    (hdummy : ∀ x n q, bodyOf x ≠ .sealed rnd1.dummy n q)
    (h1 : handleInit env bodyOf ok st0 w1 rnd1 = .ok st1 (out1, .continue, log1)) (hs1 : st1.stage = Generated.STAGE_PENG)
    (h2 : handleInit env bodyOf ok st1 w2 rnd2 = .ok st2 (out2, .success p false, log2)) :
    RespBound env bodyOf st0 st1 st2 w1 w2 rnd1 out1 p log1 := by
  unfold RespBound
  have e1 := handleInit_eff env bodyOf ok st0 w1 rnd1
  rw [h1] at e1
  have e2 := handleInit_eff env bodyOf ok st1 w2 rnd2
  rw [h2] at e2
  -- the first step answered a ping
  generalize hR : (Outcome.ok st1 (out1, InitResult.continue, log1) : Res) = R at e1
  cases e1 with
  | quietErr => cases hR
  | quietOk o ho =>
    simp only [Outcome.ok.injEq] at hR
    rw [hR.1, hstage] at hs1; exact absurd hs1 (by decide)
  | panic => cases hR
  | pingErr => cases hR
  | pongSelErr => cases hR
  | pongFail => cases hR
  | pengFail => cases hR
  | pongOk => unfold pongRes at hR; cases hR
  | pengOk => cases hR
  | pingOk ha ea aa k1 st0' sel hr1 hne1 hst0 hsel =>
    have hst0' : st0' = st0 := by
      rcases hst0 with ⟨h, _⟩ | ⟨_, h, _⟩
      · exact h
      · rw [hstage] at h; exact absurd h (by decide)
    subst hst0'
    -- the second step completed on a peng
    generalize hR2 : (Outcome.ok st2 (out2, InitResult.success p false, log2) : Res) = R2 at e2
    cases e2 with
    | quietErr => cases hR2
    | quietOk => cases hR2
    | panic => cases hR2
    | pingErr => cases hR2
    | pongSelErr => cases hR2
    | pongFail => cases hR2
    | pengFail => cases hR2
    | pingOk => unfold pingRes at hR2; cases hR2
    | pongOk => unfold pongRes at hR2; cases hR2
    | pengOk hb pl k2 st2' p' hr2 hne2 hstage2 hd hok =>
      simp only [Outcome.ok.injEq, Prod.mk.injEq, InitResult.success.injEq, and_true] at hR2
      obtain ⟨hst2, _, hpp, _⟩ := hR2
      subst hpp
      subst hst2
      refine ⟨ha, ea, aa, k1, hb, pl, k2, hr1, hr2, rfl, ?_⟩
      rw [hsel]
      cases sel with
      | some c =>
        obtain ⟨core, n1, plPong, heq, hd8, _, _, hkeys⟩ := pingRes_some env st0' ha ea c rnd1
        rw [heq] at hR
        simp only [Outcome.ok.injEq, Prod.mk.injEq, true_and] at hR
        obtain ⟨hst1, hout1, hlog1⟩ := hR
        subst hst1
        have hk := hkeys (fun k => k = rnd1.dummy) rfl
        refine ⟨rfl, ?_, plPong, n1, hout1, hd8, hlog1, ?_⟩
        · obtain ⟨cr, _, hst2⟩ := decryptPayload_step hd
          rw [hst2]
        rcases decryptPayload_cases _ _ _ _ _ hd with ⟨hn, _⟩ | ⟨c0, hc0, hst2, h3⟩
        · cases hn
        · have hc0' : some core = some c0 := hc0
          simp only [Option.some.injEq] at hc0'
          subst hc0'
          have hk' := CoreKeys_decrypt { hdr := pl.take 8, body := bodyOf (pl.drop 8) } hk
          obtain ⟨n, hn | ⟨k', hk1, hk2⟩⟩ := CoreKeys_opens _ _ hk (h3 p rfl)
          · exact ⟨_, n, by rw [hst2], hk'.1.1, hk'.1.2, hn⟩
          · subst hk1; exact absurd hk2 (hdummy _ _ _)
      | none =>
        rw [pingRes_none env st0' ha ea rnd1 hcr] at hR
        simp only [Outcome.ok.injEq, Prod.mk.injEq, true_and] at hR
        obtain ⟨hst1, hout1, _⟩ := hR
        subst hst1
        rcases decryptPayload_cases _ _ _ _ _ hd with ⟨_, hst2, hp⟩ | ⟨c0, hc0, _, _⟩
        · simp only [Option.some.injEq] at hp
          rw [hst2]
          exact ⟨rfl, hcr, hout1, hp⟩
        · have hc0' : st0'.crypto = some c0 := hc0
          rw [hcr] at hc0'; cases hc0'

/-! ## the two-party system -/

/-- the cryptographic environment of a run: hashes and signature verification, the ideal view of ciphertexts, the payload parser -/
structure Params where
  env : CryptoEnv
  bodyOf : BodyOf
  ok : Bytes → Bool

inductive Who | A | B
  deriving DecidableEq, Repr

/-- Two handshake objects (`InitSt`, not `PeerCrypto`: everything the property talks about — key, cipher, role, payload, completion —
    is decided inside `InitState::handle_init`; `PeerCrypto.handleInitMessage` only moves the core out and starts the rotation with
    `!is_initiator`) and the ghost logs of the run. -/
structure Sys where
  a : InitSt
  b : InitSt
  /-- every handshake datagram ever emitted by either side (never removed) -/
  sent : List Bytes := []
  /-- ghost: (signer's public key, signed region) of every message an honest party signed -/
  sigs : List (Bytes × Bytes) := []
  /-- ghost: every genuine seal so far -/
  seals : SealLog := []
  /-- ghost: the successes A reported so far, newest first: (peer payload, is_initiator) -/
  doneA : List (Bytes × Bool) := []
  doneB : List (Bytes × Bool) := []

def Sys.obj (s : Sys) : Who → InitSt
  | .A => s.a
  | .B => s.b

def Sys.done (s : Sys) : Who → List (Bytes × Bool)
  | .A => s.doneA
  | .B => s.doneB

/-- party `x` moves to `st'`, emits `out` (empty = nothing), signs `sg`, seals `log`, reports `dn` -/
def Sys.upd (s : Sys) (x : Who) (st' : InitSt) (out : Bytes) (sg : List (Bytes × Bytes)) (log : SealLog) (dn : List (Bytes × Bool)) : Sys :=
  match x with
  | .A => { s with a := st', sent := if out = [] then s.sent else s.sent ++ [out], sigs := s.sigs ++ sg, seals := s.seals ++ log,
                   doneA := dn ++ s.doneA }
  | .B => { s with b := st', sent := if out = [] then s.sent else s.sent ++ [out], sigs := s.sigs ++ sg, seals := s.seals ++ log,
                   doneB := dn ++ s.doneB }

/-- the steps of the system; the network is the adversary: it delivers ANY bytes `w` (elements of `sent`, once, many times, never, in
    any order, extended, truncated, invented) to either side, restricted only by (I1) -/
inductive Step (P : Params) : Sys → Sys → Prop
  /-- `x` initiates: `send_ping` (allowed whenever the object is in stage PING) -/
  | ping (s : Sys) (x : Who) (rnd : Rand) (hst : (s.obj x).stage = Generated.STAGE_PING) (hr : RandOK P.env (s.obj x) rnd) :
      Step P s (s.upd x (sendPing P.env (s.obj x) rnd).1 (sendPing P.env (s.obj x) rnd).2
        (newSig (s.obj x) (sendPing P.env (s.obj x) rnd).1 (sendPing P.env (s.obj x) rnd).2 rnd) [] [])
  /-- `every_second` at `x` (retransmission, timeout, closing) -/
  | tick (s : Sys) (x : Who) :
      Step P s (s.upd x (everySecond (s.obj x)).1 (match (everySecond (s.obj x)).2 with | .ok o => o | .error _ => []) [] [] [])
  /-- the network delivers `w` to `x`, which handles it without error -/
  | deliver (s : Sys) (x : Who) (w : Bytes) (rnd : Rand) (st' : InitSt) (out : Bytes) (res : InitResult) (log : SealLog)
      (hI : I1 P.env s.sigs (s.obj x).trusted w) (hr : RandOK P.env (s.obj x) rnd)
      (h : handleInit P.env P.bodyOf P.ok (s.obj x) w rnd = .ok st' (out, res, log)) :
      Step P s (s.upd x st' out (newSig (s.obj x) st' out rnd) log (doneOf res))
  /-- the network delivers `w` to `x`, which returns an error (the object keeps what `handle_init` changed before it failed) -/
  | deliverErr (s : Sys) (x : Who) (w : Bytes) (rnd : Rand) (st' : InitSt) (e : InitErr)
      (hI : I1 P.env s.sigs (s.obj x).trusted w)
      (h : handleInit P.env P.bodyOf P.ok (s.obj x) w rnd = .err st' e) :
      Step P s (s.upd x st' [] [] [] [])

/-- reachability -/
inductive Reach (P : Params) (s0 : Sys) : Sys → Prop
  | refl : Reach P s0 s0
  | step {s s' : Sys} : Reach P s0 s → Step P s s' → Reach P s0 s'

/-- a fresh object with fields of the widths of the wire format -/
structure FreshObj (st : InitSt) : Prop where
  stage : st.stage = Generated.STAGE_PING
  ecdh : st.ecdh = none
  last : st.last = none
  crypto : st.crypto = none
  hash : st.hash.length = 20
  algos : algosWF st.algos
  payload : st.payload.length < 65536

/-- initial states: two fresh objects of two different nodes, empty logs -/
structure Init0 (s : Sys) : Prop where
  a : FreshObj s.a
  b : FreshObj s.b
  hashNe : Bytes.beVal s.a.hash ≠ Bytes.beVal s.b.hash
  sent : s.sent = []
  sigs : s.sigs = []
  seals : s.seals = []
  doneA : s.doneA = []
  doneB : s.doneB = []

/-! ## the invariant -/

/-- the invariant of the system: `Inv2` (see `Lemmas/C05AgreeLemmas.lean`) for some ghost records of the two objects
    (their ping answers and completions with the ephemeral keys used) -/
def Inv (P : Params) (s : Sys) : Prop := ∃ ga gb, Inv2 P.bodyOf s.a s.b ga gb s.doneA s.doneB s.sigs s.seals

theorem inv_init (P : Params) (s : Sys) (h : Init0 s) : Inv P s := by
  have fresh : ∀ (x y : InitSt) (d : List (Bytes × Bool)), FreshObj x → d = [] → ObjInv P.bodyOf x y ⟨none, []⟩ d s.sigs := by
    intro x y d hx hd
    refine ⟨by rw [hd]; rfl, ?_, ?_, fun _ => ⟨rfl, rfl⟩, fun _ => ⟨rfl, rfl⟩, ?_, ?_, Nat.zero_le _, ?_⟩
    · intro core hc; rw [hx.crypto] at hc; cases hc
    · intro own hc; rw [hx.ecdh] at hc; cases hc
    · intro e; rw [hx.stage] at e; exact absurd e (by decide)
    · intro r hr; cases hr
    · intro d hd; cases hd
  refine ⟨⟨none, []⟩, ⟨none, []⟩, fresh _ _ _ h.a h.doneA, fresh _ _ _ h.b h.doneB, ?_, ⟨h.a.hash, h.a.algos, h.a.payload⟩,
    ⟨h.b.hash, h.b.algos, h.b.payload⟩, h.hashNe⟩
  intro k r hk
  rw [h.sigs] at hk; cases hk

theorem inv_updA (P : Params) (s : Sys) (st' : InitSt) (out : Bytes) (sg : List (Bytes × Bytes)) (log : SealLog) (dn : List (Bytes × Bool)) :
    Inv P (s.upd .A st' out sg log dn) ↔
      ∃ ga gb, Inv2 P.bodyOf st' s.b ga gb (dn ++ s.doneA) s.doneB (s.sigs ++ sg) (s.seals ++ log) := Iff.rfl

theorem inv_updB (P : Params) (s : Sys) (st' : InitSt) (out : Bytes) (sg : List (Bytes × Bytes)) (log : SealLog) (dn : List (Bytes × Bool)) :
    Inv P (s.upd .B st' out sg log dn) ↔
      ∃ ga gb, Inv2 P.bodyOf s.a st' ga gb s.doneA (dn ++ s.doneB) (s.sigs ++ sg) (s.seals ++ log) := Iff.rfl

/-- every step preserves the invariant -/
theorem inv_step (P : Params) (s s' : Sys) (hi : Inv P s) (hs : Step P s s') : Inv P s' := by
  obtain ⟨ga, gb, h⟩ := hi
  cases hs with
  | ping x rnd hst hr =>
    cases x with
    | A => exact (inv_updA ..).2 ⟨ga, gb, h.ping P.env hst hr⟩
    | B => exact (inv_updB ..).2 ⟨ga, gb, (h.swap.ping P.env hst hr).swap⟩
  | tick x =>
    cases x with
    | A =>
      refine (inv_updA ..).2 ⟨ga, gb, ?_⟩
      rw [List.append_nil, List.append_nil, List.nil_append]
      exact h.tick
    | B =>
      refine (inv_updB ..).2 ⟨ga, gb, ?_⟩
      rw [List.append_nil, List.append_nil, List.nil_append]
      exact h.swap.tick.swap
  | deliver x w rnd st' out res log hI hr hh =>
    cases x with
    | A =>
      obtain ⟨ga', h'⟩ := h.eff_ok P.env P.ok hI hr (handleInit_eff P.env P.bodyOf P.ok s.a w rnd) hh
      exact (inv_updA ..).2 ⟨ga', gb, h'⟩
    | B =>
      obtain ⟨gb', h'⟩ := h.swap.eff_ok P.env P.ok hI hr (handleInit_eff P.env P.bodyOf P.ok s.b w rnd) hh
      exact (inv_updB ..).2 ⟨ga, gb', h'.swap⟩
  | deliverErr x w rnd st' e hI hh =>
    cases x with
    | A =>
      refine (inv_updA ..).2 ⟨ga, gb, ?_⟩
      rw [List.append_nil, List.append_nil, List.nil_append]
      exact h.eff_err P.env P.ok hI (handleInit_eff P.env P.bodyOf P.ok s.a w rnd) hh
    | B =>
      refine (inv_updB ..).2 ⟨ga, gb, ?_⟩
      rw [List.append_nil, List.append_nil, List.nil_append]
      exact (h.swap.eff_err P.env P.ok hI (handleInit_eff P.env P.bodyOf P.ok s.b w rnd) hh).swap

theorem inv_reach (P : Params) (s0 s : Sys) (h0 : Init0 s0) (hr : Reach P s0 s) : Inv P s := by
  induction hr with
  | refl => exact inv_init P s0 h0
  | step _ hs ih => exact inv_step P _ _ ih hs

/-! ## the property theorems -/

/-- **success_at_most_once**: in every reachable state each handshake object has reported success at most once (the ghost lists
    `doneA`, `doneB` collect every `InitResult::Success` a `deliver` step returned): a node never completes one handshake attempt
    twice, whatever the network replays. -/
theorem success_at_most_once (P : Params) (s0 s : Sys) (h0 : Init0 s0) (hr : Reach P s0 s) :
    s.doneA.length ≤ 1 ∧ s.doneB.length ≤ 1 := by
  obtain ⟨ga, gb, h⟩ := inv_reach P s0 s h0 hr
  refine ⟨?_, ?_⟩
  · rw [h.ox.done_eq, List.length_map]; exact h.ox.len
  · rw [h.oy.done_eq, List.length_map]; exact h.oy.len

/-- **attempt_agreement** (all schedules, single and dual open): in every reachable state in which both objects have reported success
    — A with `(pa, ia)`, B with `(pb, ib)` — the two ends have opposite `is_initiator` flags (so exactly one of them, the responder, starts
    the key rotation: `RotationState::new(!is_initiator)` in `PeerCrypto.handleInitMessage`), each reported exactly the payload of the
    other object, both selected the same cipher, and if it is a cipher both cores hold in slot 0 the master key of the same pair of
    ephemeral keys (`masterKey c ea eb = masterKey c eb ea` by `masterKey_comm_wf`) with opposite nonce halves: each opens what the other
    seals.  Hypothesis (ideal AEAD, as `C05Lockstep.Opens`): on the ciphertexts of the seal log `bodyOf` is what the log records. -/
theorem attempt_agreement (P : Params) (s0 s : Sys) (h0 : Init0 s0) (hr : Reach P s0 s) (hop : Opens P.bodyOf s.seals)
    (pa pb : Bytes) (ia ib : Bool) (hA : (pa, ia) ∈ s.doneA) (hB : (pb, ib) ∈ s.doneB) :
    ia = !ib ∧ pa = s.b.payload ∧ pb = s.a.payload ∧ CoresAgree s.a s.b ∧
    (∀ ca cb, s.a.crypto = some ca → s.b.crypto = some cb → key0 ca = key0 cb ∧ cb.half = !ca.half) := by
  obtain ⟨ga, gb, h⟩ := inv_reach P s0 s h0 hr
  obtain ⟨dA, hdA, rfl, rfl⟩ := mem_done h.ox.done_eq hA
  obtain ⟨dB, hdB, rfl, rfl⟩ := mem_done h.oy.done_eq hB
  have hca : CoresAgree s.a s.b ∧ dA.isInit = !dB.isInit ∧ dA.payload = s.b.payload ∧ dB.payload = s.a.payload := by
    rcases h.agree hop hdA hdB with ha | ha
    · exact ⟨h.cores hdA hdB ha, by rw [ha.roleX, ha.roleY]; rfl, ha.payX, ha.payY⟩
    · exact ⟨(h.swap.cores hdB hdA ha).symm, by rw [ha.roleX, ha.roleY]; rfl, ha.payY, ha.payX⟩
  obtain ⟨hc, h1, h2, h3⟩ := hca
  refine ⟨h1, h2, h3, hc, ?_⟩
  intro ca cb hca hcb
  obtain ⟨hsel, hm⟩ := hc
  cases hs : s.a.selected with
  | none => rw [hs] at hm; rw [hm.1] at hca; cases hca
  | some c =>
    rw [hs] at hm
    obtain ⟨cx, cy, ex, ey, wx, wy, e1, e2, k1, k2, f1, f2⟩ := hm
    rw [hca] at e1; rw [hcb] at e2
    simp only [Option.some.injEq] at e1 e2
    subst e1; subst e2
    refine ⟨?_, ?_⟩
    · rw [k1, k2, C05.masterKey_comm_wf c ex ey ⟨wx.2, wy.2⟩ (by rw [wx.1, wy.1])]
    · rw [f1, f2]; exact C05.halves_opposite _ _ (fun e => h.hne e.symm)

/-- **role_switch_exclusive** (dual open): when both objects have sent their ping (stage PONG) and each receives the other's ping,
    exactly one of them — the one with the smaller salted node-id hash — resets and answers as responder (its `handle_init` continues
    as for a fresh object); the other ignores the ping and stays initiator.  The two cases exclude each other
    (`bytesGt_opposite`). -/
theorem role_switch_exclusive (env : CryptoEnv) (bodyOf : BodyOf) (ok : Bytes → Bool) (x y : InitSt) (wx wy : Bytes) (rx ry : Rand)
    (ex ey : Bytes) (alx aly : Algos) (kx ky : Bytes)
    (hx : x.stage = Generated.STAGE_PONG) (hy : y.stage = Generated.STAGE_PONG) (hne : Bytes.beVal x.hash ≠ Bytes.beVal y.hash)
    (hselfx : checkSaltedNodeIdHash env y.hash x.nodeId = false) (hselfy : checkSaltedNodeIdHash env x.hash y.nodeId = false)
    (hrx : InitMsg.readFrom env wx x.trusted = .ok (.ping y.hash ey aly, kx))
    (hry : InitMsg.readFrom env wy y.trusted = .ok (.ping x.hash ex alx, ky)) :
    (bytesGt y.hash x.hash = true ∧ bytesGt x.hash y.hash = false ∧
      handleInit env bodyOf ok x wx rx = handleMsg env bodyOf ok (resetSt x) (.ping y.hash ey aly) rx ∧
      handleInit env bodyOf ok y wy ry = .ok y ([], .continue, [])) ∨
    (bytesGt x.hash y.hash = true ∧ bytesGt y.hash x.hash = false ∧
      handleInit env bodyOf ok y wy ry = handleMsg env bodyOf ok (resetSt y) (.ping x.hash ex alx) ry ∧
      handleInit env bodyOf ok x wx rx = .ok x ([], .continue, [])) := by
  have key : ∀ (u v : InitSt) (w : Bytes) (r : Rand) (e : Bytes) (al : Algos) (k : Bytes), u.stage = Generated.STAGE_PONG →
      Bytes.beVal u.hash ≠ Bytes.beVal v.hash → checkSaltedNodeIdHash env v.hash u.nodeId = false →
      InitMsg.readFrom env w u.trusted = .ok (.ping v.hash e al, k) →
      (bytesGt v.hash u.hash = true → handleInit env bodyOf ok u w r = handleMsg env bodyOf ok (resetSt u) (.ping v.hash e al) r) ∧
      (bytesGt v.hash u.hash = false → handleInit env bodyOf ok u w r = .ok u ([], .continue, [])) := by
    intro u v w r e al k hu hn hself hr
    have hc : ¬ (u.hash = (InitMsg.ping v.hash e al).hash || checkSaltedNodeIdHash env (InitMsg.ping v.hash e al).hash u.nodeId) = true := by
      have : u.hash ≠ v.hash := fun h => hn (by rw [h])
      simp [InitMsg.hash, this, hself]
    have hgen : handleInit env bodyOf ok u w r =
        (match stageCheck u Generated.STAGE_PING v.hash with
         | .inr o => o
         | .inl none => .panic
         | .inl (some st0) => handleMsg env bodyOf ok st0 (.ping v.hash e al) r) := by
      rw [handleInit_eq, hr]
      simp only
      rw [if_neg hc]
      rfl
    rw [hgen]
    refine ⟨?_, ?_⟩
    · intro hg
      have : stageCheck u Generated.STAGE_PING v.hash = .inl (some (resetSt u)) := by
        unfold stageCheck
        rw [if_pos (by rw [hu]; decide), if_pos ⟨hu, rfl⟩, if_pos hg]
        rfl
      rw [this]
    · intro hg
      have : stageCheck u Generated.STAGE_PING v.hash = .inr (.ok u ([], .continue, [])) := by
        unfold stageCheck
        rw [if_pos (by rw [hu]; decide), if_pos ⟨hu, rfl⟩, if_neg (by rw [hg]; decide)]
      rw [this]
  have hopp := C05.halves_opposite x.hash y.hash hne
  obtain ⟨kx1, kx2⟩ := key x y wx rx ey aly kx hx hne hselfx hrx
  obtain ⟨ky1, ky2⟩ := key y x wy ry ex alx ky hy (fun e => hne e.symm) hselfy hry
  cases hg : bytesGt y.hash x.hash with
  | true =>
    have hg' : bytesGt x.hash y.hash = false := by rw [hopp, hg]; rfl
    exact Or.inl ⟨rfl, hg', kx1 hg, ky2 hg'⟩
  | false =>
    have hg' : bytesGt x.hash y.hash = true := by rw [hopp, hg]; rfl
    exact Or.inr ⟨hg', rfl, ky1 hg', kx2 hg⟩

/-- the static fields of the two objects (node id, salted hash, own payload, keys, algorithms) never change: "the payload the other
    offered" is the `payload` field of the other object at any time -/
theorem static_reach (P : Params) (s0 s : Sys) (hr : Reach P s0 s) : Static s0.a s.a ∧ Static s0.b s.b := by
  induction hr with
  | refl => exact ⟨Static.refl _, Static.refl _⟩
  | step _ hs ih =>
    obtain ⟨iha, ihb⟩ := ih
    have key : ∀ (t : Sys) (x : Who) (st' : InitSt) (out : Bytes) (sg : List (Bytes × Bytes)) (log : SealLog) (dn : List (Bytes × Bool)),
        Static s0.a t.a → Static s0.b t.b → Static (t.obj x) st' →
        Static s0.a (t.upd x st' out sg log dn).a ∧ Static s0.b (t.upd x st' out sg log dn).b := by
      intro t x st' out sg log dn ha hb hx
      cases x with
      | A => exact ⟨ha.trans hx, hb⟩
      | B => exact ⟨ha, hb.trans hx⟩
    cases hs with
    | ping x rnd hst hr' => exact key _ x _ _ _ _ _ iha ihb ⟨rfl, rfl, rfl, rfl, rfl, rfl⟩
    | tick x =>
      obtain ⟨s', ct, rt, _, he⟩ := everySecond_fst (Sys.obj _ x)
      refine key _ x _ _ _ _ _ iha ihb ?_
      rw [he]; exact ⟨rfl, rfl, rfl, rfl, rfl, rfl⟩
    | deliver x w rnd st' out res log hI hr' hh =>
      exact key _ x _ _ _ _ _ iha ihb ((handleInit_eff P.env P.bodyOf P.ok _ w rnd).static_ok hh)
    | deliverErr x w rnd st' e hI hh =>
      exact key _ x _ _ _ _ _ iha ihb ((handleInit_eff P.env P.bodyOf P.ok _ w rnd).static_err hh)

/-- `attempt_agreement`, payload part, in terms of the initial objects: each end reports exactly the payload the other object was
    created with -/
theorem attempt_agreement_payloads (P : Params) (s0 s : Sys) (h0 : Init0 s0) (hr : Reach P s0 s) (hop : Opens P.bodyOf s.seals)
    (pa pb : Bytes) (ia ib : Bool) (hA : (pa, ia) ∈ s.doneA) (hB : (pb, ib) ∈ s.doneB) :
    pa = s0.b.payload ∧ pb = s0.a.payload := by
  obtain ⟨_, h1, h2, _⟩ := attempt_agreement P s0 s h0 hr hop pa pb ia ib hA hB
  obtain ⟨sa, sb⟩ := static_reach P s0 s hr
  exact ⟨by rw [h1, sb.2.2.1], by rw [h2, sa.2.2.1]⟩

/-! ## non-vacuity: toy runs -/

theorem masterKey_ge (c : Cipher) (a b : Bytes) : 2816 ≤ masterKey c a b := by
  have key : ∀ (l : Bytes) (n : Nat), 2816 ≤ Bytes.beVal ((10 + c.wireId) :: n :: l) := by
    intro l n
    simp only [Bytes.beVal, List.length_cons]
    have h1 : 256 ^ 1 ≤ 256 ^ (l.length + 1) := Nat.pow_le_pow_right (by decide) (by omega)
    have h2 : 11 ≤ 10 + c.wireId := by cases c <;> decide
    have h3 := Nat.mul_le_mul h2 h1
    omega
  rw [masterKey_eq_of]
  split <;> exact key _ _

theorem notMaster_small (d : KeyRef) (h : d < 2816) : NotMaster d := by
  intro c x y e
  have hge : 2816 ≤ d := e ▸ masterKey_ge c x y
  exact absurd h (Nat.not_lt.2 hge)

/-- the system after `x` initiated -/
def pingBy (P : Params) (s : Sys) (x : Who) (rnd : Rand) : Sys :=
  s.upd x (sendPing P.env (s.obj x) rnd).1 (sendPing P.env (s.obj x) rnd).2
    (newSig (s.obj x) (sendPing P.env (s.obj x) rnd).1 (sendPing P.env (s.obj x) rnd).2 rnd) [] []

/-- the system after `w` was delivered to `x` -/
def deliverTo (P : Params) (s : Sys) (x : Who) (w : Bytes) (rnd : Rand) : Sys :=
  match handleInit P.env P.bodyOf P.ok (s.obj x) w rnd with
  | .ok st' (out, res, log) => s.upd x st' out (newSig (s.obj x) st' out rnd) log (doneOf res)
  | .err st' _ => s.upd x st' [] [] [] []
  | .panic => s

theorem reach_ping {P : Params} {s0 s : Sys} (hr : Reach P s0 s) (x : Who) (rnd : Rand)
    (hst : (s.obj x).stage = Generated.STAGE_PING) (hrnd : RandOK P.env (s.obj x) rnd) : Reach P s0 (pingBy P s x rnd) :=
  .step hr (.ping s x rnd hst hrnd)

theorem reach_deliver {P : Params} {s0 s : Sys} (hr : Reach P s0 s) (x : Who) (w : Bytes) (rnd : Rand)
    (hI : I1 P.env s.sigs (s.obj x).trusted w) (hrnd : RandOK P.env (s.obj x) rnd) : Reach P s0 (deliverTo P s x w rnd) := by
  unfold deliverTo
  cases h : handleInit P.env P.bodyOf P.ok (s.obj x) w rnd with
  | ok st' r =>
    obtain ⟨out, res, log⟩ := r
    exact .step hr (.deliver s x w rnd st' out res log hI hrnd h)
  | err st' e => exact .step hr (.deliverErr s x w rnd st' e hI h)
  | panic => exact hr

/-- (I1) for an environment that verifies exactly the signatures of the list `L` -/
theorem toy_I1 (env : CryptoEnv) (L : List (Bytes × Bytes × Bytes)) (hv : ∀ k m sg, env.sigVerify k m sg = decide ((k, m, sg) ∈ L))
    (sigs : List (Bytes × Bytes)) (T : List Bytes) (w : Bytes)
    (hcheck : ∀ e ∈ L, e.1 ∈ T → (e.2.1 ++ [e.2.2.length] ++ e.2.2) <+: w → (e.1, e.2.1) ∈ sigs) : I1 env sigs T w := by
  intro signed sig rest k hw hk hver
  rw [hv] at hver
  have hmem : (k, signed, sig) ∈ L := by simpa using hver
  exact hcheck _ hmem hk ⟨rest, hw.symm⟩

namespace Toy
open VpnCloud.Proofs.C05Lockstep (pingMsg pongMsg pengMsg wire)

def a0 : InitSt := C05Lockstep.Toy.A C05Lockstep.Toy.algosA
def b0 : InitSt := C05Lockstep.Toy.B C05Lockstep.Toy.algosB
def R1 : Rand := C05Lockstep.Toy.R1
def R2 : Rand := C05Lockstep.Toy.R2
def R3 : Rand := { C05Lockstep.Toy.R3 with ecdhPub := List.replicate 32 7 }
def R4 : Rand := { salt := [0, 0, 0, 4], ecdhPub := List.replicate 32 8 }
def env0 : CryptoEnv := C05Lockstep.Toy.env

/-- the three datagrams of the run -/
def w1 : Bytes := wire env0 a0 (pingMsg a0 R1) R1
def w2 : Bytes := wire env0 b0 (pongMsg a0 b0 R2) R2
def w3 : Bytes := wire env0 a0 (pengMsg a0 b0 R3) R3

def regionOf (w : Bytes) (r : Rand) : Bytes := w.take (w.length - (r.sig.length + 1))

/-- the signatures honest parties make in the run; the toy verification accepts exactly these (ideal signature) -/
def L : List (Bytes × Bytes × Bytes) :=
  [(a0.ownKey, regionOf w1 R1, R1.sig), (b0.ownKey, regionOf w2 R2, R2.sig), (a0.ownKey, regionOf w3 R3, R3.sig)]

def env : CryptoEnv := { env0 with sigVerify := fun k m sg => decide ((k, m, sg) ∈ L) }

def P : Params := ⟨env, C05Lockstep.Toy.body a0 b0, C05Lockstep.Toy.okP⟩

def s0 : Sys := { a := a0, b := b0 }
def s1 : Sys := pingBy P s0 .A R1
def s2 : Sys := deliverTo P s1 .B w1 R2
def s3 : Sys := deliverTo P s2 .A w2 R3
def s4 : Sys := deliverTo P s3 .B w3 R4

theorem randOK (st : InitSt) (r : Rand) (h1 : r.salt.length = 4) (h2 : (env.keyHash st.ownKey r.salt).length = 4)
    (h3 : r.ecdhPub.length = 32 ∧ Bytes.WF r.ecdhPub) (h4 : r.dummy < 2816) (h5 : r.ct.length + 8 < 65536) : RandOK env st r :=
  ⟨h1, h2, h3, notMaster_small _ h4, h5⟩

theorem init0 : Init0 s0 where
  a := ⟨rfl, rfl, rfl, rfl, by decide, by unfold algosWF; decide, by decide⟩
  b := ⟨rfl, rfl, rfl, rfl, by decide, by unfold algosWF; decide, by decide⟩
  hashNe := by decide +kernel
  sent := rfl
  sigs := rfl
  seals := rfl
  doneA := rfl
  doneB := rfl

theorem reach1 : Reach P s0 s1 :=
  reach_ping .refl .A R1 rfl (randOK _ _ (by decide) (by decide) (by decide) (by decide) (by decide))

theorem reach2 : Reach P s0 s2 :=
  reach_deliver reach1 .B w1 R2
    (toy_I1 env L (fun _ _ _ => rfl) _ _ _ (by decide +kernel))
    (randOK _ _ (by decide) (by decide +kernel) (by decide) (by decide) (by decide))

theorem reach3 : Reach P s0 s3 :=
  reach_deliver reach2 .A w2 R3
    (toy_I1 env L (fun _ _ _ => rfl) _ _ _ (by decide +kernel))
    (randOK _ _ (by decide) (by decide +kernel) (by decide) (by decide) (by decide))

theorem reach4 : Reach P s0 s4 :=
  reach_deliver reach3 .B w3 R4
    (toy_I1 env L (fun _ _ _ => rfl) _ _ _ (by decide +kernel))
    (randOK _ _ (by decide) (by decide +kernel) (by decide) (by decide) (by decide))

/-- **non-vacuity (single open, cipher chacha)**: a reachable state in which both ends have completed; all hypotheses of
    `attempt_agreement` hold there -/
theorem both_completed : Init0 s0 ∧ Reach P s0 s4 ∧ Opens P.bodyOf s4.seals ∧
    s4.doneA = [([20], true)] ∧ s4.doneB = [([10, 11], false)] ∧ s4.a.selected = some .chacha ∧ s4.seals.length = 2 ∧
    s4.sent = [w1, w2, w3] ∧ s4.sigs.length = 3 :=
  ⟨init0, reach4, by unfold Opens; decide +kernel, by decide +kernel, by decide +kernel, by decide +kernel, by decide +kernel,
    by decide +kernel, by decide +kernel⟩

/-! ### dual open (plain negotiated) -/

def a1 : InitSt := C05Lockstep.Toy.A C05Lockstep.Toy.plainA
def b1 : InitSt := C05Lockstep.Toy.B C05Lockstep.Toy.plainB
def Q1 : Rand := { salt := [0, 0, 0, 1], ecdhPub := List.replicate 32 5, sig := [1, 2, 3] }
def Q2 : Rand := { salt := [0, 0, 0, 2], ecdhPub := List.replicate 32 6, sig := [4, 5] }
def Q3 : Rand := { salt := [0, 0, 0, 3], ecdhPub := List.replicate 32 7, sig := [6] }
def Q4 : Rand := { salt := [0, 0, 0, 4], ecdhPub := List.replicate 32 8, sig := [7, 7] }
def Q5 : Rand := { salt := [0, 0, 0, 5], ecdhPub := List.replicate 32 9 }

/-- both pings, the pong of A (which switches role: smaller salted hash) and the peng of B -/
def v1 : Bytes := wire env0 a1 (pingMsg a1 Q1) Q1
def v2 : Bytes := wire env0 b1 (pingMsg b1 Q2) Q2
def v3 : Bytes := wire env0 a1 (.pong a1.hash Q3.ecdhPub a1.algos a1.payload) Q3
def v4 : Bytes := wire env0 b1 (.peng b1.hash b1.payload) Q4

def LD : List (Bytes × Bytes × Bytes) :=
  [(a1.ownKey, regionOf v1 Q1, Q1.sig), (b1.ownKey, regionOf v2 Q2, Q2.sig), (a1.ownKey, regionOf v3 Q3, Q3.sig),
   (b1.ownKey, regionOf v4 Q4, Q4.sig)]

def envD : CryptoEnv := { env0 with sigVerify := fun k m sg => decide ((k, m, sg) ∈ LD) }

def PD : Params := ⟨envD, fun x => .garbage x.length, C05Lockstep.Toy.okP⟩

def t0 : Sys := { a := a1, b := b1 }
def t1 : Sys := pingBy PD t0 .A Q1
def t2 : Sys := pingBy PD t1 .B Q2
def t3 : Sys := deliverTo PD t2 .B v1 Q5
def t4 : Sys := deliverTo PD t3 .A v2 Q3
def t5 : Sys := deliverTo PD t4 .B v3 Q4
def t6 : Sys := deliverTo PD t5 .A v4 Q5

theorem randOKD (st : InitSt) (r : Rand) (h1 : r.salt.length = 4) (h2 : (envD.keyHash st.ownKey r.salt).length = 4)
    (h3 : r.ecdhPub.length = 32 ∧ Bytes.WF r.ecdhPub) (h4 : r.dummy < 2816) (h5 : r.ct.length + 8 < 65536) : RandOK envD st r :=
  ⟨h1, h2, h3, notMaster_small _ h4, h5⟩

theorem init0D : Init0 t0 where
  a := ⟨rfl, rfl, rfl, rfl, by decide, by unfold algosWF; decide, by decide⟩
  b := ⟨rfl, rfl, rfl, rfl, by decide, by unfold algosWF; decide, by decide⟩
  hashNe := by decide +kernel
  sent := rfl
  sigs := rfl
  seals := rfl
  doneA := rfl
  doneB := rfl

theorem reachD2 : Reach PD t0 t2 :=
  reach_ping (reach_ping .refl .A Q1 rfl (randOKD _ _ (by decide) (by decide) (by decide) (by decide) (by decide)))
    .B Q2 rfl (randOKD _ _ (by decide) (by decide) (by decide) (by decide) (by decide))

theorem reachD4 : Reach PD t0 t4 :=
  reach_deliver
    (reach_deliver reachD2 .B v1 Q5 (toy_I1 envD LD (fun _ _ _ => rfl) _ _ _ (by decide +kernel))
      (randOKD _ _ (by decide) (by decide +kernel) (by decide) (by decide) (by decide)))
    .A v2 Q3 (toy_I1 envD LD (fun _ _ _ => rfl) _ _ _ (by decide +kernel))
    (randOKD _ _ (by decide) (by decide +kernel) (by decide) (by decide) (by decide))

theorem reachD6 : Reach PD t0 t6 :=
  reach_deliver
    (reach_deliver reachD4 .B v3 Q4 (toy_I1 envD LD (fun _ _ _ => rfl) _ _ _ (by decide +kernel))
      (randOKD _ _ (by decide) (by decide +kernel) (by decide) (by decide) (by decide)))
    .A v4 Q5 (toy_I1 envD LD (fun _ _ _ => rfl) _ _ _ (by decide +kernel))
    (randOKD _ _ (by decide) (by decide +kernel) (by decide) (by decide) (by decide))

/-- **non-vacuity (dual open)**: both initiate; B (larger salted hash) ignores A's ping, A switches role and answers B's ping; both
    complete, B as initiator and A as responder -/
theorem dual_open_completed : Init0 t0 ∧ Reach PD t0 t6 ∧ Opens PD.bodyOf t6.seals ∧
    t2.a.stage = Generated.STAGE_PONG ∧ t2.b.stage = Generated.STAGE_PONG ∧
    t3.b.stage = Generated.STAGE_PONG ∧ t4.a.stage = Generated.STAGE_PENG ∧
    t6.doneA = [([20], false)] ∧ t6.doneB = [([10, 11], true)] ∧ t6.sent = [v1, v2, v3, v4] :=
  ⟨init0D, reachD6, by unfold Opens; decide +kernel, by decide +kernel, by decide +kernel, by decide +kernel, by decide +kernel,
    by decide +kernel, by decide +kernel, by decide +kernel⟩

/-- the theorems apply to these states -/
example : true = !false ∧ [20] = s4.b.payload ∧ [10, 11] = s4.a.payload ∧ CoresAgree s4.a s4.b ∧
    (∀ ca cb, s4.a.crypto = some ca → s4.b.crypto = some cb → key0 ca = key0 cb ∧ cb.half = !ca.half) :=
  attempt_agreement P s0 s4 init0 reach4 both_completed.2.2.1 [20] [10, 11] true false
    (by rw [both_completed.2.2.2.1]; exact List.mem_singleton.2 rfl) (by rw [both_completed.2.2.2.2.1]; exact List.mem_singleton.2 rfl)

example : false = !true ∧ [20] = t6.b.payload ∧ [10, 11] = t6.a.payload ∧ CoresAgree t6.a t6.b ∧
    (∀ ca cb, t6.a.crypto = some ca → t6.b.crypto = some cb → key0 ca = key0 cb ∧ cb.half = !ca.half) :=
  attempt_agreement PD t0 t6 init0D reachD6 dual_open_completed.2.2.1 [20] [10, 11] false true
    (by rw [dual_open_completed.2.2.2.2.2.2.2.1]; exact List.mem_singleton.2 rfl)
    (by rw [dual_open_completed.2.2.2.2.2.2.2.2.1]; exact List.mem_singleton.2 rfl)

example : s4.doneA.length ≤ 1 ∧ s4.doneB.length ≤ 1 := success_at_most_once P s0 s4 init0 reach4

/-! ### the ideal-AEAD hypothesis is needed -/

/-- an "AEAD view" that is NOT the seal log: the ciphertext of B's pong is claimed to be a seal of `[99]` -/
def badBody : BodyOf := fun x =>
  if x = R2.ct then .sealed (masterKey .chacha R1.ecdhPub R2.ecdhPub) (HALF + 101) [99] else C05Lockstep.Toy.body a0 b0 x

def PB : Params := ⟨env, badBody, C05Lockstep.Toy.okP⟩
def u1 : Sys := pingBy PB s0 .A R1
def u2 : Sys := deliverTo PB u1 .B w1 R2
def u3 : Sys := deliverTo PB u2 .A w2 R3
def u4 : Sys := deliverTo PB u3 .B w3 R4

theorem reachB4 : Reach PB s0 u4 :=
  reach_deliver (reach_deliver (reach_deliver
    (reach_ping .refl .A R1 rfl (randOK _ _ (by decide) (by decide) (by decide) (by decide) (by decide)))
    .B w1 R2 (toy_I1 env L (fun _ _ _ => rfl) _ _ _ (by decide +kernel))
      (randOK _ _ (by decide) (by decide +kernel) (by decide) (by decide) (by decide)))
    .A w2 R3 (toy_I1 env L (fun _ _ _ => rfl) _ _ _ (by decide +kernel))
      (randOK _ _ (by decide) (by decide +kernel) (by decide) (by decide) (by decide)))
    .B w3 R4 (toy_I1 env L (fun _ _ _ => rfl) _ _ _ (by decide +kernel))
      (randOK _ _ (by decide) (by decide +kernel) (by decide) (by decide) (by decide))

/-- **`Opens` is needed**: without the ideal-AEAD hypothesis the payload part of `attempt_agreement` is false -/
theorem opens_needed : ¬ (∀ (P : Params) (s0 s : Sys), Init0 s0 → Reach P s0 s →
    ∀ (pa pb : Bytes) (ia ib : Bool), (pa, ia) ∈ s.doneA → (pb, ib) ∈ s.doneB → pa = s.b.payload) := by
  intro H
  have := H PB s0 u4 init0 reachB4 [99] [10, 11] true false (by decide +kernel) (by decide +kernel)
  exact absurd this (by decide +kernel)

/-! ### counterexamples for the hypotheses of `responder_success_binds` -/

/-- `responder_success_binds` with the hypotheses `hcr` / `hdummy` made optional -/
def RespBinds (needCr needDummy : Bool) : Prop :=
  ∀ (env : CryptoEnv) (bodyOf : BodyOf) (ok : Bytes → Bool) (st0 st1 st2 : InitSt) (w1 w2 : Bytes)
    (rnd1 rnd2 : Rand) (out1 out2 p : Bytes) (log1 log2 : SealLog),
    st0.stage = Generated.STAGE_PING → (needCr = true → st0.crypto = none) →
    (needDummy = true → ∀ x n q, bodyOf x ≠ .sealed rnd1.dummy n q) →
    handleInit env bodyOf ok st0 w1 rnd1 = .ok st1 (out1, .continue, log1) → st1.stage = Generated.STAGE_PENG →
    handleInit env bodyOf ok st1 w2 rnd2 = .ok st2 (out2, .success p false, log2) →
    RespBound env bodyOf st0 st1 st2 w1 w2 rnd1 out1 p log1

/-- the theorem is `RespBinds true true` -/
example : RespBinds true true := fun env bodyOf ok st0 st1 st2 w1 w2 rnd1 rnd2 out1 out2 p log1 log2 hs hcr hd h1 hs1 h2 =>
  responder_success_binds env bodyOf ok st0 st1 st2 w1 w2 rnd1 rnd2 out1 out2 p log1 log2 hs (hcr rfl) (hd rfl) h1 hs1 h2

def stOf : Res → InitSt
  | .ok st _ => st
  | .err st _ => st
  | .panic => a0
def outOf : Res → Bytes
  | .ok _ (o, _, _) => o
  | _ => []
def logOf : Res → SealLog
  | .ok _ (_, _, l) => l
  | _ => []
def isCont : Res → Bool
  | .ok _ (_, .continue, _) => true
  | _ => false
def isSucc (p : Bytes) : Res → Bool
  | .ok _ (_, .success q false, _) => q == p
  | _ => false

theorem isCont_eq {R : Res} (h : isCont R = true) : R = .ok (stOf R) (outOf R, .continue, logOf R) := by
  match R, h with
  | .ok st (o, .continue, l), _ => rfl

theorem isSucc_eq {p : Bytes} {R : Res} (h : isSucc p R = true) : R = .ok (stOf R) (outOf R, .success p false, logOf R) := by
  match R, h with
  | .ok st (o, .success q false, l), h =>
    have : q = p := by simpa [isSucc] using h
    subst this; rfl

/-- every ciphertext "opens" as `[42]` sealed under key `key` with nonce 5 -/
def bodyK (key : KeyRef) : BodyOf := fun _ => .sealed key 5 [42]

/-- a peng "of A" whose payload is addressed to key slot `kid` -/
def pengTo (a : InitSt) (kid : Nat) : Bytes := wire env0 a (.peng a.hash (InitLemmas.Toy.pl kid)) R3

def rA : Res := handleInit env0 (bodyK 1) C05Lockstep.Toy.okP b0 w1 R2
def rA2 : Res := handleInit env0 (bodyK 1) C05Lockstep.Toy.okP (stOf rA) (pengTo a0 1) R4

/-- counterexample 1 (`hdummy` is needed; `hcr` holds): the peng payload is addressed to key id 1 and sealed under the throw-away key
    `R2.dummy = 1`; the responder accepts it although it was not sealed under the master key -/
theorem hdummy_needed : ¬ RespBinds true false := by
  intro H
  have h1 : rA = .ok (stOf rA) (outOf rA, .continue, logOf rA) := isCont_eq (by decide +kernel)
  have h2 : rA2 = .ok (stOf rA2) (outOf rA2, .success [42] false, logOf rA2) := isSucc_eq (by decide +kernel)
  obtain ⟨ha, ea, aa, k1, hb, pl, k2, hr1, hr2, _, hm⟩ := H env0 (bodyK 1) C05Lockstep.Toy.okP b0 (stOf rA) (stOf rA2) w1 (pengTo a0 1) R2 R4 (outOf rA) (outOf rA2) [42] (logOf rA) (logOf rA2) rfl
    (fun _ => rfl) (fun h => by cases h) h1 (by decide +kernel) h2
  have e : readFrom env0 w1 b0.trusted = .ok (pingMsg a0 R1, a0.ownKey) := by decide +kernel
  rw [e] at hr1
  simp only [pingMsg, Except.ok.injEq, Prod.mk.injEq, InitMsg.ping.injEq] at hr1
  obtain ⟨⟨_, rfl, rfl⟩, _⟩ := hr1
  have e2 : selectAlgorithm b0.algos a0.algos = .ok (some .chacha) := by decide
  rw [e2] at hm
  obtain ⟨_, _, _, _, _, _, _, core, n, _, _, _, hbody⟩ := hm
  simp only [bodyK, Body.sealed.injEq] at hbody
  have := masterKey_ge .chacha R2.ecdhPub R1.ecdhPub
  rw [← hbody.1] at this
  exact absurd this (by decide)

def bLeft : InitSt := { b1 with crypto := some (Core.new 7 true 8 []) }
def rB : Res := handleInit env0 (bodyK 7) C05Lockstep.Toy.okP bLeft v1 Q2
def rB2 : Res := handleInit env0 (bodyK 7) C05Lockstep.Toy.okP (stOf rB) (pengTo a1 0) R4

/-- counterexample 2 (`hcr` is needed; `hdummy` holds): the object carries a left-over core with key 7, both ends allow plain: the peng
    payload is opened with the left-over core; the core is kept and the reported payload `[42]` is not the transmitted one -/
theorem hcr_needed : ¬ RespBinds false true := by
  intro H
  have h1 : rB = .ok (stOf rB) (outOf rB, .continue, logOf rB) := isCont_eq (by decide +kernel)
  have h2 : rB2 = .ok (stOf rB2) (outOf rB2, .success [42] false, logOf rB2) := isSucc_eq (by decide +kernel)
  obtain ⟨ha, ea, aa, k1, hb, pl, k2, hr1, hr2, _, hm⟩ := H env0 (bodyK 7) C05Lockstep.Toy.okP bLeft (stOf rB) (stOf rB2) v1 (pengTo a1 0) Q2 R4 (outOf rB) (outOf rB2) [42] (logOf rB) (logOf rB2) rfl
    (fun h => by cases h) (fun _ x n q hh => by simp only [bodyK, Body.sealed.injEq] at hh; exact absurd hh.1 (by decide)) h1
    (by decide +kernel) h2
  have e : readFrom env0 v1 bLeft.trusted = .ok (pingMsg a1 Q1, a1.ownKey) := by decide +kernel
  rw [e] at hr1
  simp only [pingMsg, Except.ok.injEq, Prod.mk.injEq, InitMsg.ping.injEq] at hr1
  obtain ⟨⟨_, rfl, rfl⟩, _⟩ := hr1
  have e2 : selectAlgorithm bLeft.algos a1.algos = .ok none := by decide
  rw [e2] at hm
  exact absurd hm.2.1 (by decide +kernel)

/-! ### non-vacuity of `responder_success_binds` -/

def keyOf : Body → Option KeyRef
  | .sealed k _ _ => some k
  | .garbage _ => none

theorem body_not_dummy : ∀ x n q, C05Lockstep.Toy.body a0 b0 x ≠ .sealed R2.dummy n q := by
  intro x n q hh
  unfold C05Lockstep.Toy.body at hh
  split at hh
  · rename_i e he
    have hmem := List.mem_of_find?_eq_some he
    have hall : ∀ e ∈ C05Lockstep.log2 a0 b0 C05Lockstep.Toy.R1 C05Lockstep.Toy.R2 ++
        C05Lockstep.log3 a0 b0 C05Lockstep.Toy.R1 C05Lockstep.Toy.R2 C05Lockstep.Toy.R3, keyOf e.2 ≠ some 1 := by decide +kernel
    apply hall e hmem
    rw [hh]; rfl
  · cases hh

def rN : Res := handleInit env0 (C05Lockstep.Toy.body a0 b0) C05Lockstep.Toy.okP b0 w1 R2
def rN2 : Res := handleInit env0 (C05Lockstep.Toy.body a0 b0) C05Lockstep.Toy.okP (stOf rN) w3 R4

/-- non-vacuity of `responder_success_binds`: all hypotheses hold for the responder of the loss-free run (cipher chacha) -/
example : RespBound env0 (C05Lockstep.Toy.body a0 b0) b0 (stOf rN) (stOf rN2) w1 w3 R2 (outOf rN) [10, 11] (logOf rN) :=
  responder_success_binds env0 (C05Lockstep.Toy.body a0 b0) C05Lockstep.Toy.okP b0 (stOf rN) (stOf rN2) w1 w3 R2 R4 (outOf rN) (outOf rN2)
    [10, 11] (logOf rN) (logOf rN2) rfl rfl body_not_dummy (isCont_eq (by decide +kernel)) (by decide +kernel) (isSucc_eq (by decide +kernel))

end Toy

end VpnCloud.Proofs.C05Agree
